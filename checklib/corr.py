"""Correspondence: the real SDK (zkh run) and the executable Lean model (zkmodel) on the same op lines."""
import glob, json, os, re


def split_expect(opid):
    """ids may end in `!X` : both sides are expected to answer X (a theorem-backed expectation)"""
    if "!" in opid:
        base, exp = opid.rsplit("!", 1)
        return base, exp
    return opid, None


def family(opid):
    p = split_expect(opid)[0].split(".")
    return ".".join(p[1:-1]) if len(p) > 2 else "?"


def strip_tags(r):
    """the compared outcome: without the informational tag (` #…`) and without the challenge trace (` ~…`)"""
    return r.split(" ~", 1)[0].split(" #", 1)[0].strip()


def trace_of(r):
    """challenge trace ` ~label=hex,label=hex,…` appended to a verification outcome (may be absent)"""
    if r is None or " ~" not in r:
        return None
    return [x for x in r.split(" ~", 1)[1].strip().split(",") if x]


def trace_conflict(ri, rm, verdict):
    """The Fiat-Shamir challenges drawn by the implementation (recorded by the verif-hooks instrumentation)
    against those of the model: they must agree item by item (label and value) on their common prefix. The
    implementation may stop early when it rejects, the model has none when the bytes do not decode, and a verifier
    that draws fewer challenges at the end (e.g. one that does not batch its equations) is not wrong by that alone —
    what it does draw must be what the protocol says, and no more than that."""
    ti, tm = trace_of(ri), trace_of(rm)
    if ti is None or tm is None:
        return None
    for k, (a, b) in enumerate(zip(ti, tm)):
        if a != b:
            return f"challenge #{k}: impl {a[:24]}.. model {b[:24]}.."
    # the protocol fixes how many challenges one verification draws: a verifier may stop early, but one that goes on
    # drawing after the protocol's last challenge (a second pass over the proof with another transcript, say) is doing
    # something the protocol does not describe
    if tm and len(ti) > len(tm):
        return f"{len(ti)} challenges drawn, the protocol has {len(tm)}: extra {ti[len(tm)][:24]}.."
    return None


def load_known():
    p = os.path.join(os.path.dirname(os.path.dirname(os.path.abspath(__file__))), "known_findings.json")
    try:
        return json.load(open(p))
    except OSError:
        return []


def match_known(pid, line, impl, model):
    for k in load_known():
        if k.get("status") != "open" or k.get("property") != pid:
            continue
        m = k.get("match", {})
        if "op_regex" in m and not re.search(m["op_regex"], line):
            continue
        if "impl" in m and m["impl"] != impl:
            continue
        return k.get("what", "listed finding")
    return None


def run_correspondence(pid, P, ctx, stages=None):
    sh, run_tool = ctx["sh"], ctx["run_tool"]
    stats = {"evaluations": 0, "families": {}, "outcomes": {}, "distinct": set(), "samples": [], "notes": []}
    disagreements, known = [], []
    seen_bodies = set()
    if stages is None:
        lines = []
        V = ctx["V"]
        for f in sorted(glob.glob(os.path.join(V, "corpus", pid + "*.ops"))):
            lines += [l.rstrip("\n") for l in open(f) if l.strip() and not l.startswith("#")]
        for g in P.get("gens", [pid]):
            rc, out, err = sh([ctx["ZKH"], "gen", g, ctx["tier"], str(ctx["seed"])])
            if rc != 0:
                disagreements.append({"kind": "generator", "line": f"zkh gen {g}", "impl": f"rc={rc}", "model": None,
                                      "note": err[-300:]})
            lines += [l for l in out.split("\n") if l.strip()]
        stage = lines
    else:
        stage = stages[0]
    depth = 0
    while stage and depth < 4:
        depth += 1
        impl, e1 = run_tool([ctx["ZKH"], "run"], stage, ctx["jobs"])
        model, e2 = run_tool([ctx["ZKMODEL"]], stage, ctx["jobs"])
        if e1:
            stats["notes"].append("zkh run: " + e1[:300])
            if "STDERR-OUTPUT" in e1:
                disagreements.append({"kind": "stderr-output", "line": "zkh run (this stage's ops)", "impl": e1[:600], "model": "",
                                      "note": "the library wrote to the standard error stream while serving these ops (a debugging trace left in?)"})
        if e2:
            stats["notes"].append("zkmodel: " + e2[:300])
        nxt = []
        for line in stage:
            opid, _, body = line.partition(" ")
            base, expect = split_expect(opid)
            ri, rm = impl.get(opid), model.get(opid)
            stats["evaluations"] += 1
            fam = family(opid)
            stats["families"][fam] = stats["families"].get(fam, 0) + 1
            si = strip_tags(ri) if ri is not None else None
            sm = strip_tags(rm) if rm is not None else None
            cls = (si or "missing").split(":", 1)[0][:12]
            stats["outcomes"][cls] = stats["outcomes"].get(cls, 0) + 1
            if si not in (None, "bad-op") and sm not in (None, "bad-op"):
                stats["distinct"].add(body if len(body) < 200 else hash(body))
            if len(stats["samples"]) < 8 and fam not in {s.get("family") for s in stats["samples"]}:
                stats["samples"].append({"family": fam, "op": line[:300], "impl": (ri or "")[:120], "model": (rm or "")[:120]})
            emits = []
            for side, r in (("impl", si), ("model", sm)):
                if r and r.startswith("emit:"):
                    for j, b in enumerate(r[5:].split("|")):
                        emits.append((side, j, b.strip()))
            if emits:
                for side, j, b in emits:
                    if b and b not in seen_bodies:
                        seen_bodies.add(b)
                        # an emitted op may carry its own expectation as a leading `!X `
                        exp2 = None
                        if b.startswith("!"):
                            exp2, _, b = b[1:].partition(" ")
                        nid = f"{base}.{side}{j}" + (f"!{exp2}" if exp2 else "")
                        nxt.append(f"{nid} {b}")
                # sides that did not emit must agree on a non-emit outcome
                if (si or "").startswith("emit:") and (sm or "").startswith("emit:"):
                    continue
                if (si or "").startswith("emit:") != (sm or "").startswith("emit:") and P.get("emit_must_agree", True):
                    d = {"kind": "emit-mismatch", "line": line, "impl": si, "model": sm, "expect": expect}
                    kf = match_known(pid, line, si, sm)
                    if kf:
                        known.append(kf)
                    else:
                        disagreements.append(d)
                continue
            bad = None
            if ri is None or rm is None:
                bad = "missing-output"
            elif si == "P":
                bad = "panic"
            elif si != sm:
                bad = "model-vs-impl"
            elif trace_conflict(ri, rm, si):
                bad = "challenge-trace"
                rm = rm + "  [" + trace_conflict(ri, rm, si) + "]"
            elif expect is not None and si != expect:
                bad = "both-vs-theorem"
            if expect is not None and sm is not None and sm != expect and bad is None:
                bad = "model-vs-theorem"
            if bad:
                kf = match_known(pid, line, si, sm)
                if kf:
                    if kf not in known:
                        known.append(kf)
                else:
                    disagreements.append({"kind": bad, "line": line, "impl": ri, "model": rm, "expect": expect})
        stage = nxt
    for extra in P.get("extra", []):
        ds, rows = extra(ctx)
        disagreements += ds
        stats["evaluations"] += len(rows)
        stats["families"]["const-rows"] = stats["families"].get("const-rows", 0) + len(rows)
        for r in rows:
            stats["distinct"].add("const:" + r)
        if rows and len(stats["samples"]) < 8:
            stats["samples"].append({"family": "const-rows", "rows": rows[:6]})
    return disagreements, known, stats

"""Per-property configuration of the orchestrator."""
import json, os, subprocess

TRUSTED_BASE = [
    "Lean 4.33 kernel (axioms of each theorem listed under coverage.theorems; only propext, Classical.choice, Quot.sound allowed)",
    "translator /verif/translate/translate.py (Rust/TS source -> Generated/Tables.lean), cross-checked against the compiled crate by `zkh const`",
    "correspondence harness /verif/harness (zkh) + orchestrator diff: differential, bounds what the tie between model and code has seen",
    "Lean compiler/runtime for the zkmodel executable (used to run the model only; no theorem depends on it)",
    "verif-hooks cargo feature of solana-zk-sdk (add-only instrumentation in /repo, on in the harness build only): records the label and value of every Fiat-Shamir challenge drawn through TranscriptProtocol::challenge_scalar; the orchestrator compares them with the model's",
]


def consts_check(ctx):
    """translator output vs. the compiled crate (`zkh const`)"""
    out, rows = [], []
    V = ctx["V"]
    try:
        t = json.load(open(os.path.join(V, "lean/ZkElGamal/Generated/tables.json")))
    except OSError as e:
        return [{"kind": "const", "line": "tables.json", "impl": None, "model": None, "note": str(e)}], []
    rc, o, e = ctx["sh"]([ctx["ZKH"], "const"])
    if rc != 0:
        return [{"kind": "const", "line": "zkh const", "impl": f"rc={rc}", "model": None, "note": e[-200:]}], []
    c = json.loads(o)
    def cmp(what, a, b):
        if isinstance(a, list):
            rows.extend(f"{what}:{json.dumps(x)}" for x in a)
        else:
            rows.append(f"{what}:{json.dumps(a)}")
        if a != b:
            out.append({"kind": "const", "line": f"const {what}", "impl": json.dumps(b)[:300], "model": json.dumps(a)[:300],
                        "note": "translator (source text) vs compiled crate"})
    cmp("instructions", [list(x) for x in t["rust_instructions"]], c["instructions"])
    cmp("proof_types", [list(x) for x in t["rust_proof_types"]], c["proof_types"])
    order = {n: v for n, v in t["rust_proof_types"]}
    cmp("declared", [[order.get(d["proof_type"]), d["data_size"], d["context_size"]] for d in t["impls"]], c["declared"])
    cmp("meta_size", t["meta_size"], c["meta_size"])
    cmp("program_id(ts vs crate)", bytes(t["ts_address_bytes"]).hex(), c["program_id"])
    # every form in which the crate exports the program id: the function, the constant, and the check on the constant
    cmp("program_id_const(ts vs crate)", bytes(t["ts_address_bytes"]).hex(), c.get("program_id_const"))
    cmp("check_id(ID)", True, c.get("check_id_const"))
    # TS column vs compiled crate as well (C17): discriminators, proof types, account sizes
    cmp("ts_instructions", [list(x) for x in t["ts_instructions"]], c["instructions"])
    cmp("ts_proof_types", [list(x) for x in t["ts_proof_types"]], c["proof_types"])
    cmp("ts_context_account_sizes", [[order.get(n), v] for n, v in t["ts_context_sizes"]],
        [[d[0], c["meta_size"] + d[2]] for d in c["declared"]])
    cmp("ts_meta_size", t["ts_consts"].get("CONTEXT_STATE_META_SIZE"), c["meta_size"])
    # what the SDK actually encodes (every builder x every variant) vs the TS declarations
    ts_addr = bytes(t["ts_address_bytes"]).hex()
    ts_disc = {n: v for n, v in t["ts_instructions"]}
    for name, prog, d0 in c.get("encoded", []):
        variant = name.split(":")[1]
        cmp(f"encoded:{name}", [ts_addr, ts_disc.get(variant)], [prog, d0])
    ts_pt = {n: v for n, v in t["ts_proof_types"]}
    ts_sz = {order.get(n): v for n, v in t["ts_context_sizes"]}
    names = {v: n for n, v in t["rust_proof_types"]}
    for i, total, tb, memsz, back in c.get("encoded_states", []):
        if i in ts_sz:
            # encoded length, type byte, in-memory size of the typed state, and read-back of the encoded bytes
            cmp(f"encoded_state:{names.get(i)}", [ts_sz[i], ts_pt.get(names.get(i)), ts_sz[i], 1], [total, tb, memsz, back])
        else:
            cmp(f"encoded_state:{names.get(i)}", [ts_pt.get(names.get(i)), 1], [tb, back])
    # the client's account decoder followed through its offsets (translator) against the accounts the SDK encodes:
    # the header fields are read where the SDK writes them, and what is handed on as the proof context is exactly
    # the SDK's context (its size, for every proof type)
    cmp("ts_decoder_header_reads", [r[1:] for r in (t.get("ts_decoder_reads") or [])], [m[1:] for m in t.get("meta_fields", [])])
    cmp("ts_decoder_context_offset", t.get("ts_decoder_context_offset"), c["meta_size"])
    ctx_size = {d[0]: d[2] for d in c["declared"]}
    off = t.get("ts_decoder_context_offset")
    for i, total, tb, memsz, back in c.get("encoded_states", []):
        if i in ctx_size:
            cmp(f"ts_decoded_context_length:{names.get(i)}", None if off is None else total - off, ctx_size[i])
    if not c.get("encoded") or not c.get("encoded_states"):
        out.append({"kind": "const", "line": "zkh const encoded", "impl": None, "model": None, "note": "encoded section missing"})
    return out, rows


ROM = ("Cryptographic step not proved (stated exactly by the theorems): a proof is accepted with some failing equation only if the Fiat-Shamir "
       "batching weight w lands on one of <= k-1 roots fixed before w is squeezed (random-oracle model), and a false statement is provable only by "
       "producing two accepting transcripts / breaking discrete log (special soundness extractors are the theorems).")
DALEK = ("curve25519-dalek (Ristretto255 group law, 32-byte codec, scalar field) is modelled: theorems assume a field F, an F-module G and the "
         "codec laws dec(enc P)=P, dec b = P -> enc P = b, enc 0 = 0^32; the concrete Lean instance is validated bit-for-bit against dalek, not proved lawful")
MERLIN = "merlin/keccak transcripts are an arbitrary function in the theorems and a concrete re-implementation in the driver (validated differentially)"

def table_check(ctx):
    """C10: the repository's precomputed table vs. the model's own computation of compress(2^17*h*G) (exhaustive, 65536 entries)"""
    if ctx["tier"] != "thorough":
        return [], []
    path = "/repo/zk-sdk/src/encryption/decode_u32_precomputation_for_G.bincode"
    p = subprocess.run([ctx["ZKMODEL"]], input=f"t dlogtable {path}\n", capture_output=True, text=True)
    r = p.stdout.strip().partition(" ")[2]
    if r == "ok:65536":
        return [], [f"table-entry-block:{i}" for i in range(16)] + ["table:65536 entries equal"]
    return [{"kind": "table", "line": f"dlogtable {path}", "impl": "bincode table", "model": r,
             "note": "precomputed table differs from compress(2^17*h*G) -> h"}], []


def ambient_names():
    """names of environment variables the library sources read at run time (outside their test modules)"""
    import glob, re
    names = {}
    for f in sorted(glob.glob("/repo/zk-sdk/src/**/*.rs", recursive=True)):
        try:
            src = open(f).read()
        except OSError:
            continue
        cut = src.find("#[cfg(test)]")
        body = src if cut < 0 else src[:cut]
        for m in re.finditer(r'env::(?:var|var_os|remove_var|set_var)\s*\(\s*"([^"]+)"|option_env!\s*\(\s*"([^"]+)"|env::(vars|vars_os|args)\s*\(', body):
            nm = m.group(1) or m.group(2) or ("<" + m.group(3) + ">")
            names.setdefault(nm, f.replace("/repo/", "") + ":" + str(body[:m.start()].count("\n") + 1))
    return names


def ambient_check(ctx):
    """the behaviour of the library is a function of its arguments, not of the process environment: for every
    environment variable the sources read, the property's op stream is replayed with the variable set and must give
    the outcomes it gives with the variable unset (the library reads none today, so this is normally a no-op)"""
    names = ambient_names()
    rows = [f"ambient:{len(names)} environment reads in zk-sdk/src"]
    if not names:
        return [], rows
    pid = ctx.get("pid")
    P = PROPS.get(pid, {})
    lines = []
    for g in P.get("gens", [pid]):
        rc, out, err = ctx["sh"]([ctx["ZKH"], "gen", g, ctx["tier"], str(ctx["seed"])])
        lines += [l for l in out.split("\n") if l.strip()]
    if not lines:
        return [], rows
    def run(env_extra):
        env = dict(os.environ)
        env.update(env_extra)
        p = subprocess.run([ctx["ZKH"], "run"], input="\n".join(lines) + "\n", capture_output=True, text=True, env=env)
        return dict(l.split(" ", 1) for l in p.stdout.split("\n") if " " in l)
    base = run({})
    out = []
    for nm, where in names.items():
        if nm.startswith("<"):
            out.append({"kind": "ambient", "line": f"{where} reads {nm}", "impl": "reads the whole environment / argument list", "model": None,
                        "note": "library behaviour must not depend on ambient process state"})
            continue
        for val in ("1", ""):
            alt = run({nm: val})
            diff = [i for i in base if alt.get(i) != base[i]]
            rows.append(f"ambient:{nm}={val!r}:{len(diff)} differences")
            for i in diff[:20]:
                body = next((l for l in lines if l.startswith(i + " ")), i)
                out.append({"kind": "ambient", "line": f"[env {nm}={val!r}; read at {where}] {body[:400]}", "impl": alt.get(i), "model": base[i],
                            "note": "outcome with the environment variable set (impl) vs unset (model column)"})
            if diff:
                break
    return out, rows


PROPS = {
    "C01": dict(module="ZkElGamal.Props.C01", ns="Zk.Props.C01", trusted=[DALEK, MERLIN], assumptions=[ROM, DALEK, MERLIN]),
    "C02": dict(module="ZkElGamal.Props.C02", ns="Zk.Props.C02", trusted=[DALEK, MERLIN], assumptions=[ROM, DALEK, MERLIN]),
    "C03": dict(module="ZkElGamal.Props.C03", ns="Zk.Props.C03", trusted=[DALEK, MERLIN], assumptions=[ROM, DALEK, MERLIN]),
    "C04": dict(module="ZkElGamal.Props.C04Sound", more_modules=["ZkElGamal.Props.C04"], ns="Zk.Props.C04", trusted=[DALEK, MERLIN],
                assumptions=[ROM, DALEK, MERLIN,
                             "Bulletproofs knowledge soundness (an extractor for the aggregated range proof) is NOT proved: 'a value outside the range is never accepted' rests on mega_decompose + the batching bound + differential testing of the model prover's out-of-range / wrong-commitment / residual attempts against both verifiers",
                             "generators: SHAKE256 chains are external (sha3); concrete derivation validated implicitly (any wrong generator makes cross-verification fail)"]),
    "C05": dict(module="ZkElGamal.Props.C05", ns="Zk.Props.C05", trusted=[DALEK, MERLIN],
                assumptions=[DALEK, MERLIN, "completeness theorems carry the hypothesis that the masking commitments are not the identity (fails with probability ~2^-252 over honest nonces); for the range proofs: no proof point A,S,T1,T2,L_j,R_j is the identity and the challenges y, u_j are non-zero, stated on the produced bytes",
                             "rand::OsRng is external: the model takes nonces as explicit arguments"]),
    "C18": dict(module="ZkElGamal.Props.C18", ns="Zk.Props.C18",
                trusted=["zeroize crate and the compiler (the wipe must not be elided; moves may copy) are external: observed by reading the value's storage after ManuallyDrop::drop"],
                assumptions=["PARTIAL: copies made by moves, Copy scalars inside provers, register/stack residue and compiler elision cannot be exhibited by a model; only the storage of the dropped value is inspected",
                             "secrets whose byte pattern coincides with constants of the zeroized public point (e.g. the scalar 1) are excluded from the storage inspection to avoid coincidental matches"]),
    "C19": dict(module="ZkElGamal.Props.C19", ns="Zk.Props.C19", trusted=[DALEK],
                rule="each op is N repeated calls of one generator/prover on identical inputs; the verdict is pairwise distinctness of every fresh field across the N calls (no model needed); distinct = distinct op body",
                assumptions=["rand::OsRng / getrandom is external: that the OS source never repeats is not shown",
                             "PARTIAL: a prover mixing fresh randomness with a biased derivation, or reusing a nonce only with small probability, is invisible to this check",
                             "the range prover's mask vectors s_L, s_R appear in no output; they are tested only against rank-1 hypotheses along seven guessable directions (with the witness known, ipp.a / ipp.b fix the coefficients and t_x tests the guess)"]),
    "C20": dict(module="ZkElGamal.Props.C20", ns="Zk.Props.C20", trusted=[DALEK, MERLIN], assumptions=[DALEK, MERLIN]),
    "C06": dict(module="ZkElGamal.Props.C06", ns="Zk.Props.C06", trusted=[DALEK, MERLIN],
                assumptions=[DALEK, MERLIN, "the quantifier 'across every future revision' is met by pinning: kat/v1.ops and Model/LabelsV1.lean are committed and never regenerated by a check",
                             "the executable Lean model is the independent implementation; its own prover/verifier consistency is theorem C05.*.complete for all twelve instructions"]),
    "C07": dict(module="ZkElGamal.Props.C07", ns="Zk.Props.C07", trusted=[DALEK, MERLIN],
                assumptions=[ROM, DALEK, MERLIN, "instances are sampled (bit positions are exhaustive per instance in the thorough tier; field-boundary bytes plus one seeded bit per byte in quick)"]),
    "C08": dict(module="ZkElGamal.Props.C08", ns="Zk.Props.C08", trusted=[DALEK],
                assumptions=["panic-freedom of curve25519-dalek, base64, serde_json, bytemuck, merlin themselves is observed through catch_unwind only, not proved",
                             "harness built with the dev profile: overflow checks and debug assertions on",
                             "range-proof verification: the only assertion on the path (equal operand lengths of the multiscalar multiplication) is theorem mega_lengths_eq; the Rust side is observed through catch_unwind on lengths, fills and structured inputs with well-formed contexts"]),
    "C09": dict(module="ZkElGamal.Props.C09", ns="Zk.Props.C09", trusted=[DALEK],
                assumptions=[DALEK, "that a wrong key yields no 32-bit amount is a discrete-log statement: the theorem gives the exact target x*G + r(1-s'/s)*H; the run observes None",
                             "decrypt_u32 itself (the discrete-log search) is the subject of C10; here its result is compared with the plaintext known to the generator"]),
    "C10": dict(module="ZkElGamal.Props.C10", ns="Zk.Props.C10", trusted=[DALEK], extra=[table_check],
                assumptions=["TableSpec (the table maps exactly key(2^16*h*G) -> h; multiples of G below 2^33 distinct; key = compress(double) injective) is a hypothesis of the theorems: the table part is checked exhaustively by running the model (thorough tier), the group part is dalek's",
                             "PARTIAL: real thread interleavings and spawn/join failure (map_while(join().ok())) cannot be exhibited by the model; repeated threaded runs are observed",
                             "the verdict of the run uses the specification side of decode_spec (the generator knows the discrete log); the model's own search is run on a subsample in the thorough tier"]),
    "C11": dict(module="ZkElGamal.Props.C11", ns="Zk.Props.C11", trusted=[DALEK], assumptions=[DALEK]),
    "C12": dict(module="ZkElGamal.Props.C12", ns="Zk.Props.C12", trusted=[DALEK],
                assumptions=[DALEK, "base64 / serde_json / bincode are external: modelled (standard alphabet, canonical padding and trailing bits; JSON array of u8) and compared differentially; serde forms beyond the JSON key files are not covered (PARTIAL)"]),
    "C13": dict(module="ZkElGamal.Props.C13", ns="Zk.Props.C13",
                trusted=["aes / polyval / aes-gcm-siv crates are modelled: the block cipher and POLYVAL are parameters of the theorems; the concrete Lean AES-128/POLYVAL instance is validated by interoperating with the crate in both directions"],
                assumptions=["'decrypting under any other key or after changing any bit returns nothing' is not a mathematical fact for a fixed key: the theorem gives the exact necessary condition (a 128-bit tag collision); the run flips all 288 bits and tries other keys",
                             "rand::OsRng nonce generation is external (C19)"]),
    "C14": dict(module="ZkElGamal.Props.C14", ns="Zk.Props.C14",
                trusted=["sha3 is modelled (arbitrary function in theorems, concrete Keccak in the driver)", DALEK],
                assumptions=["PBKDF2 (solana-seed-phrase) and ed25519 signing (solana-keypair) are external: the SDK's key must equal the model's derivation from the PBKDF2 output / the produced signature",
                             "'never changes' is met by pinning kat/kdf.ops (committed, never regenerated by a check)"]),
    "C15": dict(module="ZkElGamal.Props.C15", ns="Zk.Props.C15", extra=[consts_check], exhaustive=True,
                assumptions=["solana_instruction::Instruction / AccountMeta and bytemuck::bytes_of are external (modelled)"]),
    "C16": dict(module="ZkElGamal.Props.C16", ns="Zk.Props.C16", extra=[consts_check], exhaustive=True,
                assumptions=["bytemuck layout of repr(C) structs with alignment 1 (modelled; validated differentially against bytemuck on the real types)"]),
    "C17": dict(module="ZkElGamal.Props.C17", ns="Zk.Props.C17", gens=["C17"], extra=[consts_check], exhaustive=True,
                rule="finite tables: 13 discriminators, 13 proof types, 12 context account sizes, header size, program id; "
                     "each row is one case; the Rust column is additionally compared with the compiled crate (zkh const)",
                assumptions=["TypeScript sources are parsed as text (enum bodies, exported numeric constants, address literal); the account decoder is followed statement by statement through its offsets (a form the translator cannot follow is reported as a broken obligation)"]),
}

SIGMA_NOTE = ("Trusted: Lean kernel; curve25519-dalek and merlin are modelled (theorems over an abstract field/module with lawful codecs and an arbitrary "
              "transcript function; concrete Lean Ristretto/Merlin validated bit-for-bit by the correspondence). Not proved: ROM / discrete-log steps "
              "(root-hitting weight, second transcript).")

MANIFEST_TEXT = {
    "C01": dict(
        technique="Lean 4 proof (verify_ok_iff, batching-root bound, special-soundness extractors) over a generic model executed bit-exactly + differential correspondence with adversarial model-prover",
        text="Per protocol: verification of raw bytes succeeds iff parse (exact length, decodable points, canonical scalars) and identity policy and the batched textbook equations under recomputed challenges; "
             "failing equations survive for at most k-1 batching weights (polynomial root bound, any cancellation pattern); two accepting transcripts yield the witness. "
             "The same Lean definitions run as `zkmodel` and must agree with the Rust verifier on honest, one-relation-false, all residual vectors, zero-nonce, identity-subset, z+k*l and special-value inputs; "
             "the model also acts as adversarial prover whose proofs the Rust verifier must judge identically.",
        note=SIGMA_NOTE),
    "C02": dict(
        technique="Lean 4 proof (verify_ok_iff for the four layouts, batching-root bound, extractors for every handle position, lo/hi combination) + differential correspondence with adversarial model-prover",
        text="For 2/3 handles, plain and batched: verification of raw bytes succeeds iff decode, identity policy with the auditor exception (last key / last masking commitment may be the identity), and the batched commitment + per-handle equations (on lo + t*hi for the batched variants). "
             "Extractors give C = xG + rH and D_i = r P_i for every handle at once; two values of t force lo and hi to be individually well formed. "
             "Correspondence: defect on each single point, cancelling defects between handles / between lo and hi, residual vectors, identity auditor / non-auditor keys, zero opening/amount, non-canonical encodings.",
        note=SIGMA_NOTE),
    "C03": dict(
        technique="Lean 4 proof (verify_ok_iff, batching-root bound, OR special-soundness extractor) + differential correspondence with either branch simulated by the model prover",
        text="Verification of the 360 bytes succeeds iff decode, no identity among three commitments and three masking commitments, and E_max + w E_delta + w^2 E_claimed = 0 with c_eq = c - c_max; "
             "two accepting transcripts yield (C_max opens to max_value) or (C_delta and C_claimed open to the same value). Correspondence: both branches real/simulated on true and false statements, residual vectors, max_value classes, perturbed sub-challenge, non-canonical scalars, identity commitments.",
        note=SIGMA_NOTE),
    "C04": dict(
        technique="Lean 4 proof (context_ok_iff, verify_ok_iff, mega_decompose = E_ipp - d*E_poly with batching bound, closed forms of sum_of_powers/delta, operand-length lemmas) + differential correspondence with the model as honest and adversarial Bulletproofs prover",
        text="Theorems: context decoding succeeds iff 1..8 leading non-zero decodable commitments, bit lengths of those slots in 1..=64, everything else zero; the instruction verifies iff exact length, context ok, sum = width, proof decodes, no identity point, challenges exist and the mega-check vanishes; "
             "the mega-check equals E_ipp - d*E_poly (inner-product relation and polynomial-commitment equation), so offsetting errors survive for at most one d; sum_of_powers (doubling loop) and delta equal their closed forms; the multiscalar operands always have equal lengths. "
             "Correspondence (64-bit quick; 128/256 thorough): Rust-proved -> model-verified and model-proved -> Rust-verified for extreme and random splits; model prover with non-bit digit vectors, committed != proven value, residuals on A/S/T1/T2/every L_j/R_j, "
             "cancelling offsets on t_x_blinding/e_blinding, tampered a/b, and malformed contexts (padding, zero in the middle, bit length 0/65/255, empty, wrong sum) each with a proof generated for exactly those context bytes; non-canonical scalars, special values, lengths, other widths.",
        note="Trusted: Lean kernel; dalek/merlin/sha3 modelled. Knowledge soundness is proved as special soundness in three steps under independence of the generators (poly_extract: three transcripts with distinct x open the aggregated commitment, T1 and T2; ipp_round_special_sound / ipp_special_sound: the inner-product argument is specially sound for any number of rounds over a tree of accepting transcripts; range_special_sound / bits_of_identity: a grid of accepting transcripts over N distinct y, m+2 distinct z, 3 x, 2 w forces every commitment to open to a value that is the weighted bit sum of its block). Not proved: the forking lemma (ROM) that produces such a grid from a successful prover, and the list-level rewriting of Eipp = 0 into the inner-product acceptance relation over folded generators. Prover completeness for every admissible split is theorem C05.Range.complete."),
    "C05": dict(
        technique="Lean 4 proof (constructor success, context = statement encoding, byte-level completeness prover->verifier) + differential correspondence of constructors and cross-verification (Rust-proved and model-proved, both verifiers)",
        text="Theorems new_ok / new_context / complete for zero-ciphertext, pubkey validity, ct-ct and ct-commitment equality, grouped validity 2/3 handles, batched grouped validity 2/3 handles, percentage-with-cap (below the cap and at the cap) and the three batched range-proof instructions (Range.complete: every admissible split; via the bit-decomposition identity for t0, the folding invariant of the inner-product argument and the s-vector lemma) at the byte level (for all keys, amounts, openings, nonces with non-identity masking commitments); "
             "constructor acceptance conditions for all nine sigma constructors incl. both cap branches (C20 theorems). Correspondence for all nine sigma instructions: boundary amounts, identity auditor key, identity second ciphertext, "
             "fees below and exactly at the cap: constructor outcome and context bytes equal the model's, and every produced proof (Rust prover and model prover) verifies in both verifiers. "
             "Finding F2 (capped branch unreachable) was exhibited by this check and repaired by a fix: commit. Range instructions: constructor outcome/context and cross-verification in the correspondence (all admissible splits sampled, boundary amounts).",
        note=SIGMA_NOTE + " OsRng is external (nonces are explicit in the model)."),
    "C18": dict(
        technique="Lean 4 proof (attribute/Debug table regenerated from source by `decide +kernel`; invariant by induction over create/clone/drop sequences; Debug non-interference) + storage inspection after drop and search of Debug output",
        text="Theorems: on this run's source all four secret types carry zeroize(drop), none derives Debug, and the manual Debug impls print only \"[REDACTED]\" (key pair: plus the public key); for every operation sequence every dropped region is all-zero; Debug of the single-field types is a constant. "
             "Correspondence: for values obtained by decoding, From, cloning, derivation, cloning out of a key pair, and opening arithmetic (add/sub/mul): the storage that held the secret is read after ManuallyDrop::drop and must hold no non-zero chunk of it; {:?} / {:#?} output compared with the constant template and searched for hex/decimal/base64 renderings. PARTIAL (moves, stack residue, compiler).",
        note="Trusted: Lean kernel; translator's attribute parsing; zeroize/compiler external."),
    "C19": dict(
        technique="Lean 4 proof (published values are injective in the nonces; nonce reuse leaks the witness) + repeated-call distinctness test of every generator, encryptor and prover on identical inputs",
        text="Theorems: y*P injective in y for P != 0; commitments injective in (x, r) for independent generators; different openings give different handles / commitments / masking-commitment bytes (codec injective); shared nonce + different challenges reveal the witness. "
             "Run: 64 (quick) / 4096 (thorough) repeated calls with equal arguments of keygen, AE keygen, openings, Pedersen::new, ElGamal / grouped / AE encryption and all twelve provers (cap below and at the cap, identity auditor) — every opening, handle, nonce, masking commitment and response field must be pairwise distinct; nonces recovered with the witness must be full-size; samples are also taken on new threads and in forked children; range-proof mask vectors are tested against constant / guessable-direction hypotheses. PARTIAL (OS randomness, biased nonces).",
        note="Trusted: Lean kernel; OsRng external. The verdict of the run is pairwise distinctness, independent of the model."),
    "C20": dict(
        technique="Lean 4 proof (new = error iff the witness violates the relation, per constructor) + differential correspondence on witnesses violating exactly one relation",
        text="Theorems X_new_none_iff for the nine sigma constructors (zero: decrypts to identity; ct-ct / ct-cmt: decryption and re-encryption/commitment; grouped: exact re-encryption for any number of handles, lo and hi separately; cap: percentage and claimed always, delta only below the cap). "
             "Correspondence: every single statement point, key, amount and opening perturbed in turn: both sides must refuse; honest ones accepted. Range constructors: range_new_none_iff (sum != width, length mismatch, > 8 commitments, identity commitment, bit length 0 or > 64) and the same families in the correspondence.",
        note=SIGMA_NOTE),
    "C06": dict(
        technique="Lean 4 proof (pinned v1 label set / domain / layouts equal the tables regenerated from source; model-proved => model-verified) + cross-verification with the bit-exact model in both directions + pinned known-answer vectors",
        text="The executable model (Keccak/STROBE/Merlin, Ristretto255, SHA3/SHAKE generators written in Lean) is an independent implementation of the version-1 protocol. Every run: all twelve instructions Rust-proved -> model-verified and model-proved -> Rust-verified on honest statements, "
             "G and H byte-compared, kat/v1.ops (pinned Rust-produced proofs of all twelve instructions plus pinned rejections) verified by both sides; theorems: label set, domain separator, instruction labels distinct, proof-data layouts = v1.",
        note="Trusted: Lean kernel for the table theorems; the interoperability claim itself is differential (model vs code) and pinned-vector based. A harmless relabelling of internal (non-wire) strings would break labels_v1 without violating the property: reported as no-failing-input-found."),
    "C07": dict(
        technique="Lean 4 proof (injective decoding, challenge independent of responses, response binding) + differential correspondence over bit flips of accepted instances, proof transplants and substituted statements",
        text="Theorems (four C01 protocols): parse is injective, so any bit change alters a parsed field or fails parsing; the challenge c depends only on label, statement and masking bytes; changing any response with statement and masking commitments fixed breaks an equation. "
             "Changes to statement / masking fields alter the transcript input before c (ROM step not proved). Correspondence, all twelve instructions: accepted Rust instances with bit flips (thorough: every bit of context and proof; quick: all bits of the first/last byte of every 32-byte field, one seeded bit per other byte, all bits of max_value and bit-length bytes), "
             "same proof under another true statement, transplants among the 160-byte and 192-byte proof families: every mutant must be rejected by both sides.",
        note=SIGMA_NOTE),
    "C08": dict(
        technique="Lean 4 proof (no_panic theorems over decoder models with Rust's partial operations explicit) + differential correspondence under catch_unwind with overflow checks on",
        text="Theorems: point/scalar/key-pair/ciphertext/grouped-ciphertext (any handle count)/AE decoders and Pod extraction by index never reach a panic outcome for any byte string / index (slice bounds, checked arithmetic, unwraps, asserts are explicit in the model); "
             "finding F1 (zero secret scalar reaches assert!) is stated for the unrepaired decoder and was repaired by a fix: commit. Correspondence: every entry point x all lengths 0..2N x special 32-byte values in every field x z+k*l x random, all indices incl. the overflow family, "
             "malformed base64 / JSON, all sigma verify_proof entry points on length/special/structured inputs: any panic of the implementation is a violation by itself. PARTIAL: the three range-proof instructions and RangeProof/InnerProductProof decoding are not yet included.",
        note="Trusted: Lean kernel; the decoder model is hand-written and tied to the code by outcome-class agreement (ok/err/panic); external crates' own panic-freedom is only observed."),
    "C09": dict(
        technique="Lean 4 proof (decrypt∘encrypt = amount*G for all keys/amounts/openings; grouped handles for all group sizes and indices; exact wrong-key target) + differential correspondence",
        text="Theorems: decryptTarget s (encryptWith (pubkeyOf s) x r) = x*G for every non-zero s and all x, r; grouped: toElGamal i = direct encryption under key i, handle i decrypts under key i, out-of-range index is none, for every group size; wrong key gives x*G + r(1-s'/s)*H, equal to x*G only if r = 0 or the keys coincide. "
             "Correspondence: encryption, decryption targets, decrypt_u32 against the known plaintext, grouped sizes 0..3 x indices 0..4, wrong keys, boundary amounts, zero openings.",
        note="Trusted: Lean kernel; dalek modelled (field/module); the 32-bit decode is C10's subject."),
    "C10": dict(
        technique="Lean 4 proof (decode_u32 = some x iff x < 2^32 and target = x*G, for the sequential search and every accepted thread count and batch size, under the table specification; refusal conditions) + differential correspondence + exhaustive table check by the executable model",
        text="Theorems: with the table specified as key(2^16 h G) -> h (h < 2^16) and multiples of G below 2^33 distinct, decode_u32 returns some x exactly when x < 2^32 and target = x G — proved for the sequential search and for every thread count 2^k <= 65536 and every batch size >= 1 (batches partition the iteration; 'last match wins' is irrelevant because every match has the same value), hence configuration-independent; "
             "thread counts are refused iff not a power of two <= 65536, batch sizes iff >= 2^16. Correspondence: targets at all structural boundaries (k*2^16 + {0,1,2^16-1}, per-thread and batch ends, 2^32-1, 2^32, -1, random), thread counts and batch sizes incl. non-dividing ones, refused configurations, repeated threaded runs; thorough: the repository's 65536-entry table compared with the model's computation, the model's own search on a subsample.",
        note="Trusted: Lean kernel; dalek modelled; thread scheduling is runtime behaviour (PARTIAL)."),
    "C11": dict(
        technique="Lean 4 proof (module identities for every operator) + differential correspondence of all owned/borrowed operator variants against the model, byte-wise",
        text="Theorems for all scalars/amounts/openings/keys: with(x,r) = xG + rH; add/sub/scalar-mul on commitments, handles, ciphertexts commute with the operation on (amount, opening); add/subtract_amount change only the commitment by amount*G; decryption is linear (any combination). "
             "Correspondence: each operator in its four ownership variants and both scalar orders must agree with each other and with the model on boundary scalars (0, 1, l-1, u64::MAX), identity points, random values.",
        note="Trusted: Lean kernel; dalek modelled as a module over a field (wrap-around mod l is the field arithmetic)."),
    "C12": dict(
        technique="Lean 4 proof (ok-iff characterisation, re-encode and decode∘encode laws per raw codec from the codec laws; base64 text form: b64_roundtrip, b64_canonical, pod_text_roundtrip) + differential correspondence incl. Pod, base64 and JSON forms",
        text="Theorems: point / scalar / ciphertext / key-pair / AE decoders succeed iff exact length and every component decodes (key pair: non-zero secret and public = s^-1 H), re-encoding returns the input bytes, decoding an encoding returns the object, encodings are unique. "
             "Correspondence: all lengths 0..2N, special values and z+k*l in every field, Pod<->typed agreement, grouped ciphertexts with 0..3 handles, extraction = to_elgamal_ciphertext, base64 padding/alphabet/trailing-bit/whitespace variants, JSON key-file variants, writers. "
             "Base64 text form: decode(encode b) = b for every byte string, an accepted text is the encoding of its decoding (canonical padding / alphabet / trailing bits: unique text form), FromStr(Display) = id for every fixed-size type; exercised for all 7 data pods, all 12 proof pods and the typed AE ciphertext. "
             "PARTIAL: the base64 crate and serde_json are modelled (the model is what is proved canonical), compared differentially; the JSON grammar is differential only; serde forms (bincode and serde_json of the six typed objects that derive them) are round-tripped by the harness; the private proof structs' from_bytes are only exercised through verify_proof.",
        note="Trusted: Lean kernel; dalek codec laws assumed; base64/serde_json external."),
    "C13": dict(
        technique="Lean 4 proof (round trip for all keys/nonces/u64 amounts, layout, exact tamper-acceptance condition; generic in the block cipher) + differential interop with an independent AES-128-GCM-SIV written in Lean",
        text="Theorems: decryptAmount(encryptAmount key nonce x) = x for every key, 12-byte nonce and x < 2^64 (CTR involution + SIV tag recomputation); ciphertext = nonce(12) || 8 || tag(16); a successful decryption of any 36 bytes implies the last 16 bytes equal the SIV tag of the recovered plaintext (so tampering / another key succeeds only on a 128-bit collision). "
             "Correspondence: SDK-encrypted -> model-decrypted and model-encrypted -> SDK-decrypted on boundary/random keys and amounts (conformance to RFC 8452 of both), all 288 single-bit flips of sampled ciphertexts, flipped and random other keys, wrong lengths: both sides must return nothing.",
        note="Trusted: Lean kernel; AES/POLYVAL external (parameters in the theorems). Collision-freeness is not claimed."),
    "C14": dict(
        technique="Lean 4 proof (seed-length acceptance iff, derivation shape, domain separation of the signed messages, zero-signature refusal) + differential correspondence with a recording signer, real signers, seed phrases, and pinned derivation vectors",
        text="Theorems: from_seed accepted iff 32..65535 (ElGamal) / 16..65535 (AE) for every length; scalar = wide-reduce(SHA3-512(SHA3-512(sig))), AE key = first 16 bytes; the messages signed for the two key types differ for all seeds and determine the public seed; the all-zero signature is refused; prefixes are those in the source. "
             "Correspondence: signatures/seeds (random, all-zero, all-ones), seed lengths 0..65537 around both bounds, recording signer (reports the message), real ed25519 signers and seed phrases with edge-whitespace/unicode passphrases (the SDK key must equal the derivation from the signature / PBKDF2 output), determinism (two calls), kat/kdf.ops.",
        note="Trusted: Lean kernel; sha3/dalek modelled; PBKDF2 and ed25519 external."),
    "C15": dict(
        technique="Lean 4 proof (encode/decode laws for all inputs; `decide +kernel` over the enum/struct tables regenerated from source) + differential correspondence with the SDK encoders/decoders",
        text="Theorems: the ProofInstruction enum regenerated from instruction.rs equals the documented v1 table (0..12); layout, account order/flags, "
             "decode∘encode and exact-length laws for all byte strings and offsets. The hand model is tied to the code by running every variant x proof-data type x context option and the decoders on both sides.",
        note="Trusted: Lean kernel; translator (regex over Rust source, cross-checked against the compiled crate); solana_instruction / bytemuck are modelled. Differential part samples data contents (layout is content-independent)."),
    "C16": dict(
        technique="Lean 4 proof (round-trip, wrong-size rejection, exhaustive proof-type byte table by `decide +kernel`) + differential correspondence with bytemuck on the real types",
        text="Theorems: encode = authority‖type‖context, decode∘encode and encode∘decode, wrong sizes rejected, header reads first 33 bytes, ProofType table from source = v1 table, all 256 type bytes classified, every proof data declares the matching type, context sizes = v1.",
        note="Trusted: Lean kernel; translator; bytemuck's treatment of align-1 repr(C) structs (the `unsafe impl Pod`) is validated differentially, not proved."),
    "C17": dict(
        technique="Lean 4 `decide +kernel` over two tables regenerated from the TypeScript and Rust sources on every run; Rust column cross-checked against the compiled crate",
        text="Exhaustive finite-table equality: 13 discriminators, 13 proof types, 12 per-action context account sizes (= header + size_of context), header size, program address (base58-decoded), and the offsets at which the client's account decoder reads the header fields and slices the context — proved by the kernel on regenerated tables and re-compared with values reported by the compiled crate. Correspondence: every byte 0..255 through the SDK's proof-type and instruction-type readers, a context state of every proof type for every context layout written and read back, zeroed accounts of each declared size.",
        note="Trusted: Lean kernel; translator's TS/Rust text parsing (a parse failure is reported as a broken obligation, never a silent pass)."),
}

for _pid, _P in PROPS.items():
    if _P.get("gens", [_pid]):
        _P.setdefault("extra", [])
        if ambient_check not in _P["extra"]:
            _P["extra"] = list(_P["extra"]) + [ambient_check]

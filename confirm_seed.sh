#!/bin/sh
# usage: confirm_seed.sh <worktree> ; confirms a seeded change in its scratch worktree
WT="$1"
cd "$WT" || exit 2
git checkout -q -- . ; rm -rf zk-sdk/tests
git apply _seed/patch.diff || { echo "CONFIRM patch-does-not-apply"; exit 1; }
SUITE=$(cargo test --workspace --no-fail-fast --offline 2>&1 | grep -E '^test result' | head -1)
mkdir -p zk-sdk/tests && cp _seed/demo.rs zk-sdk/tests/seed_demo.rs
WITH=$(cargo test -p solana-zk-sdk --test seed_demo --offline 2>&1 | grep -E '^test result|error(\[|:)' | head -2 | tr '\n' ' ')
git apply -R _seed/patch.diff
WITHOUT=$(cargo test -p solana-zk-sdk --test seed_demo --offline 2>&1 | grep -E '^test result|error(\[|:)' | head -2 | tr '\n' ' ')
rm -rf zk-sdk/tests
echo "CONFIRM suite-with-change: $SUITE"
echo "CONFIRM demo-with-change: $WITH"
echo "CONFIRM demo-without: $WITHOUT"

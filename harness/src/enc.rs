//! encryption objects: decoders, text codecs, homomorphic operators, decryption (C08, C09, C11, C12)
use crate::sigma::{ciphertext, commitment, opening, pubkey, scalar};
use crate::util::*;
use curve25519_dalek::scalar::Scalar;
use solana_signer::EncodableKey;
use solana_zk_sdk::encryption::{
    auth_encryption::{AeCiphertext, AeKey},
    elgamal::{DecryptHandle, ElGamalCiphertext, ElGamalKeypair, ElGamalPubkey, ElGamalSecretKey},
    grouped_elgamal::{GroupedElGamal, GroupedElGamalCiphertext},
    pedersen::{Pedersen, PedersenCommitment, PedersenOpening, G},
    pod::{
        auth_encryption::PodAeCiphertext,
        elgamal::{PodDecryptHandle, PodElGamalCiphertext, PodElGamalPubkey},
        grouped_elgamal::{PodGroupedElGamalCiphertext2Handles, PodGroupedElGamalCiphertext3Handles},
        pedersen::PodPedersenCommitment,
    },
};
use std::str::FromStr;

fn okhex(b: &[u8]) -> String {
    format!("ok:{}", hex(b))
}

/// raw-byte decoder followed by re-encoding; the Pod conversions must agree (checked here too)
fn decode_codec(codec: &str, b: &[u8]) -> String {
    if codec == "rctx" {
        use solana_zk_sdk::zk_elgamal_proof_program::proof_data::BatchedRangeProofContext;
        let Ok(ctx) = bytemuck::try_from_bytes::<BatchedRangeProofContext>(b) else { return "err".into() };
        let r: Result<(Vec<PedersenCommitment>, Vec<usize>), _> = (*ctx).try_into();
        return match r {
            Ok((comms, bls)) => {
                // canonical re-encoding of what was decoded
                let mut out = vec![0u8; 264];
                if comms.len() > 8 || bls.len() > 8 { return "variant-mismatch:lengths".into() }
                for (i, c) in comms.iter().enumerate() { out[32 * i..32 * i + 32].copy_from_slice(&c.to_bytes()); }
                for (i, n) in bls.iter().enumerate() { if *n > 255 { return "variant-mismatch:bit-length".into() } out[256 + i] = *n as u8; }
                okhex(&out)
            }
            Err(_) => "err".into(),
        };
    }
    match codec {
        "pubkey" => match ElGamalPubkey::try_from(b) {
            Ok(p) => {
                let out = p.to_bytes();
                // every other way of getting the bytes out must agree
                if <[u8; 32]>::from(&p) != out || <[u8; 32]>::from(p) != out { return "variant-mismatch".into() }
                // Pod <-> typed agreement
                if let Some(a) = arr::<32>(b) {
                    let pod = PodElGamalPubkey::from(a);
                    match ElGamalPubkey::try_from(pod) {
                        Ok(q) if q == p && bytemuck::bytes_of(&PodElGamalPubkey::from(q)) == out => {}
                        _ => return "pod-mismatch".into(),
                    }
                }
                okhex(&out)
            }
            Err(_) => {
                if let Some(a) = arr::<32>(b) {
                    if ElGamalPubkey::try_from(PodElGamalPubkey::from(a)).is_ok() {
                        return "pod-mismatch".into();
                    }
                }
                "err".into()
            }
        },
        "cmt" => match PedersenCommitment::from_bytes(b) {
            Some(p) => {
                if let Some(a) = arr::<32>(b) {
                    let c: curve25519_dalek::ristretto::CompressedRistretto = PodPedersenCommitment::from(a).into();
                    if c.as_bytes() != &a || p.get_point().compress() != c { return "variant-mismatch".into() }
                }
                let out = p.to_bytes();
                if let Some(a) = arr::<32>(b) {
                    match PedersenCommitment::try_from(PodPedersenCommitment::from(a)) {
                        Ok(q) if q == p && bytemuck::bytes_of(&PodPedersenCommitment::from(q)) == out => {}
                        _ => return "pod-mismatch".into(),
                    }
                }
                okhex(&out)
            }
            None => {
                if let Some(a) = arr::<32>(b) {
                    if PedersenCommitment::try_from(PodPedersenCommitment::from(a)).is_ok() {
                        return "pod-mismatch".into();
                    }
                }
                "err".into()
            }
        },
        "handle" => match DecryptHandle::from_bytes(b) {
            Some(p) => {
                if let Some(a) = arr::<32>(b) {
                    let c: curve25519_dalek::ristretto::CompressedRistretto = PodDecryptHandle::from(a).into();
                    if c.as_bytes() != &a || p.get_point().compress() != c { return "variant-mismatch".into() }
                }
                let out = p.to_bytes();
                if let Some(a) = arr::<32>(b) {
                    match DecryptHandle::try_from(PodDecryptHandle::from(a)) {
                        Ok(q) if q == p && bytemuck::bytes_of(&PodDecryptHandle::from(q)) == out => {}
                        _ => return "pod-mismatch".into(),
                    }
                }
                okhex(&out)
            }
            None => "err".into(),
        },
        "secret" => match ElGamalSecretKey::try_from(b) {
            Ok(s) => {
                let out = *s.as_bytes();
                if <[u8; 32]>::from(&s) != out || s.get_scalar().to_bytes() != out || <[u8; 32]>::from(s.clone()) != out { return "variant-mismatch".into() }
                okhex(&out)
            }
            Err(_) => "err".into(),
        },
        "opening" => match PedersenOpening::from_bytes(b) {
            Some(o) => okhex(&o.to_bytes()),
            None => "err".into(),
        },
        "keypair" => match ElGamalKeypair::try_from(b) {
            Ok(k) => {
                let out = <[u8; 64]>::from(&k);
                use solana_signer::EncodableKeypair;
                let mut alt = k.pubkey().to_bytes().to_vec();
                alt.extend(k.secret().as_bytes());
                if alt != out || k.pubkey_owned().to_bytes() != out[..32] || k.encodable_pubkey().to_bytes() != out[..32]
                    || <[u8; 64]>::from(k.clone()) != out { return "variant-mismatch".into() }
                okhex(&out)
            }
            Err(_) => "err".into(),
        },
        "ct" => match ElGamalCiphertext::from_bytes(b) {
            Some(c) => {
                let out = c.to_bytes();
                if let Some(a) = arr::<64>(b) {
                    match ElGamalCiphertext::try_from(PodElGamalCiphertext::from(a)) {
                        Ok(q) if q == c && bytemuck::bytes_of(&PodElGamalCiphertext::from(q)) == out => {}
                        _ => return "pod-mismatch".into(),
                    }
                }
                okhex(&out)
            }
            None => {
                if let Some(a) = arr::<64>(b) {
                    if ElGamalCiphertext::try_from(PodElGamalCiphertext::from(a)).is_ok() {
                        return "pod-mismatch".into();
                    }
                }
                "err".into()
            }
        },
        "gct0" => match GroupedElGamalCiphertext::<0>::from_bytes(b) {
            Some(g) => okhex(&g.to_bytes()),
            None => "err".into(),
        },
        "gct1" => match GroupedElGamalCiphertext::<1>::from_bytes(b) {
            Some(g) => okhex(&g.to_bytes()),
            None => "err".into(),
        },
        "gct2" => match GroupedElGamalCiphertext::<2>::from_bytes(b) {
            Some(g) => {
                let out = g.to_bytes();
                if let Some(a) = arr::<96>(b) {
                    match GroupedElGamalCiphertext::<2>::try_from(PodGroupedElGamalCiphertext2Handles::from(a)) {
                        Ok(q) if q == g && bytemuck::bytes_of(&PodGroupedElGamalCiphertext2Handles::from(q)) == out => {}
                        _ => return "pod-mismatch".into(),
                    }
                }
                okhex(&out)
            }
            None => "err".into(),
        },
        "gct3" => match GroupedElGamalCiphertext::<3>::from_bytes(b) {
            Some(g) => {
                let out = g.to_bytes();
                if let Some(a) = arr::<128>(b) {
                    match GroupedElGamalCiphertext::<3>::try_from(PodGroupedElGamalCiphertext3Handles::from(a)) {
                        Ok(q) if q == g && bytemuck::bytes_of(&PodGroupedElGamalCiphertext3Handles::from(q)) == out => {}
                        _ => return "pod-mismatch".into(),
                    }
                }
                okhex(&out)
            }
            None => "err".into(),
        },
        "aekey" => match AeKey::try_from(b) {
            Ok(k) => okhex(&<[u8; 16]>::from(k)),
            Err(_) => "err".into(),
        },
        "aect" => match AeCiphertext::from_bytes(b) {
            Some(c) => {
                let out = c.to_bytes();
                if let Some(a) = arr::<36>(b) {
                    let pod: PodAeCiphertext = *bytemuck::from_bytes(&a[..]);
                    match AeCiphertext::try_from(pod) {
                        Ok(q) if q.to_bytes() == out => {}
                        _ => return "pod-mismatch".into(),
                    }
                }
                okhex(&out)
            }
            None => "err".into(),
        },
        _ => "bad-op".into(),
    }
}

/// serde forms (bincode and serde_json) of the typed objects: decode(encode(x)) == x and re-encoding gives the same
/// bytes; the bincode form is reported (it is the raw 32-byte encodings back to back)
pub fn op_serde(a: &[&str]) -> String {
    let [codec, h] = a else { return "bad-op".into() };
    let Some(b) = unhex(h) else { return "bad-op".into() };
    macro_rules! rt {
        ($obj:expr, $t:ty, $raw:expr) => {{
            let obj: $t = $obj;
            let raw: Vec<u8> = $raw(&obj);
            let Ok(ser) = bincode::serialize(&obj) else { return "ser-failed".into() };
            let Ok(de) = bincode::deserialize::<$t>(&ser) else { return "roundtrip-failed:bincode".into() };
            if $raw(&de) != raw || bincode::serialize(&de).ok().as_ref() != Some(&ser) { return "roundtrip-mismatch:bincode".into() }
            let Ok(js) = serde_json::to_vec(&obj) else { return "ser-failed".into() };
            let Ok(dj) = serde_json::from_slice::<$t>(&js) else { return "roundtrip-failed:json".into() };
            if $raw(&dj) != raw || serde_json::to_vec(&dj).ok().as_ref() != Some(&js) { return "roundtrip-mismatch:json".into() }
            okhex(&ser)
        }};
    }
    match *codec {
        "pubkey" => match ElGamalPubkey::try_from(b.as_slice()) { Ok(o) => rt!(o, ElGamalPubkey, |x: &ElGamalPubkey| x.to_bytes().to_vec()), Err(_) => "err".into() },
        "secret" => match ElGamalSecretKey::try_from(b.as_slice()) { Ok(o) => rt!(o, ElGamalSecretKey, |x: &ElGamalSecretKey| x.as_bytes().to_vec()), Err(_) => "err".into() },
        "keypair" => match ElGamalKeypair::try_from(b.as_slice()) { Ok(o) => rt!(o, ElGamalKeypair, |x: &ElGamalKeypair| <[u8; 64]>::from(x).to_vec()), Err(_) => "err".into() },
        "ct" => match ElGamalCiphertext::from_bytes(&b) { Some(o) => rt!(o, ElGamalCiphertext, |x: &ElGamalCiphertext| x.to_bytes().to_vec()), None => "err".into() },
        "handle" => match DecryptHandle::from_bytes(&b) { Some(o) => rt!(o, DecryptHandle, |x: &DecryptHandle| x.to_bytes().to_vec()), None => "err".into() },
        "cmt" => match PedersenCommitment::from_bytes(&b) { Some(o) => rt!(o, PedersenCommitment, |x: &PedersenCommitment| x.to_bytes().to_vec()), None => "err".into() },
        _ => "bad-op".into(),
    }
}

pub fn op_decode(a: &[&str]) -> String {
    let [codec, h] = a else { return "bad-op".into() };
    let Some(b) = unhex(h) else { return "bad-op".into() };
    decode_codec(codec, &b)
}

pub fn op_extract(a: &[&str]) -> String {
    let [n, h, i] = a else { return "bad-op".into() };
    let (Some(b), Ok(i)) = (unhex(h), i.parse::<usize>()) else { return "bad-op".into() };
    match *n {
        "2" => {
            let Some(x) = arr::<96>(&b) else { return "bad-op".into() };
            let pod = PodGroupedElGamalCiphertext2Handles::from(x);
            // extract_commitment must be the first 32 bytes
            if bytemuck::bytes_of(&pod.extract_commitment()) != &b[..32] {
                return "commitment-mismatch".into();
            }
            match pod.try_extract_ciphertext(i) {
                Ok(c) => okhex(bytemuck::bytes_of(&c)),
                Err(_) => "err".into(),
            }
        }
        "3" => {
            let Some(x) = arr::<128>(&b) else { return "bad-op".into() };
            let pod = PodGroupedElGamalCiphertext3Handles::from(x);
            if bytemuck::bytes_of(&pod.extract_commitment()) != &b[..32] {
                return "commitment-mismatch".into();
            }
            match pod.try_extract_ciphertext(i) {
                Ok(c) => okhex(bytemuck::bytes_of(&c)),
                Err(_) => "err".into(),
            }
        }
        _ => "bad-op".into(),
    }
}

pub fn op_fromstr(a: &[&str]) -> String {
    let [codec, h] = a else { return "bad-op".into() };
    let Some(b) = unhex(h) else { return "bad-op".into() };
    let Ok(s) = std::str::from_utf8(&b) else { return "bad-op".into() };
    macro_rules! fs {
        ($t:ty) => {
            match <$t>::from_str(s) {
                Ok(p) => okhex(bytemuck::bytes_of(&p)),
                Err(_) => "err".into(),
            }
        };
    }
    match *codec {
        "pubkey" => fs!(PodElGamalPubkey),
        "ct" => fs!(PodElGamalCiphertext),
        "handle" => fs!(PodDecryptHandle),
        "cmt" => fs!(PodPedersenCommitment),
        "gct2" => fs!(PodGroupedElGamalCiphertext2Handles),
        "gct3" => fs!(PodGroupedElGamalCiphertext3Handles),
        "aect" => fs!(PodAeCiphertext),
        c => proof_text(c, Some(s), &[]),
    }
}

/// text forms of the proof pod types (their module is private: the types are reached through the
/// `proof` field of the instruction data). `s = Some(text)`: FromStr -> bytes; `None`: Display of `raw`
fn proof_text(codec: &str, s: Option<&str>, raw: &[u8]) -> String {
    use solana_zk_sdk::zk_elgamal_proof_program::proof_data::*;
    fn go<D: bytemuck::Pod, P: bytemuck::Pod + std::fmt::Display + FromStr>(f: fn(&D) -> &P, s: Option<&str>, raw: &[u8]) -> String {
        let _ = f;
        match s {
            Some(t) => match P::from_str(t) { Ok(p) => okhex(bytemuck::bytes_of(&p)), Err(_) => "err".into() },
            None => {
                if raw.len() != std::mem::size_of::<P>() { return "bad-op".into() }
                let p: P = bytemuck::pod_read_unaligned(raw);
                hex(format!("{}", p).as_bytes())
            }
        }
    }
    match codec {
        "p-zero" => go(|d: &ZeroCiphertextProofData| &d.proof, s, raw),
        "p-pubkey" => go(|d: &PubkeyValidityProofData| &d.proof, s, raw),
        "p-ctct" => go(|d: &CiphertextCiphertextEqualityProofData| &d.proof, s, raw),
        "p-ctcmt" => go(|d: &CiphertextCommitmentEqualityProofData| &d.proof, s, raw),
        "p-val2" => go(|d: &GroupedCiphertext2HandlesValidityProofData| &d.proof, s, raw),
        "p-val3" => go(|d: &GroupedCiphertext3HandlesValidityProofData| &d.proof, s, raw),
        "p-bval2" => go(|d: &BatchedGroupedCiphertext2HandlesValidityProofData| &d.proof, s, raw),
        "p-bval3" => go(|d: &BatchedGroupedCiphertext3HandlesValidityProofData| &d.proof, s, raw),
        "p-cap" => go(|d: &PercentageWithCapProofData| &d.proof, s, raw),
        "p-range64" => go(|d: &BatchedRangeProofU64Data| &d.proof, s, raw),
        "p-range128" => go(|d: &BatchedRangeProofU128Data| &d.proof, s, raw),
        "p-range256" => go(|d: &BatchedRangeProofU256Data| &d.proof, s, raw),
        _ => "bad-op".into(),
    }
}

/// Display of the Pod type and of the typed object (both base64 of the bytes)
pub fn op_tostr(a: &[&str]) -> String {
    let [codec, h] = a else { return "bad-op".into() };
    let Some(b) = unhex(h) else { return "bad-op".into() };
    macro_rules! ts {
        ($t:ty, $n:expr) => {{
            let Some(x) = arr::<$n>(&b) else { return "bad-op".into() };
            let p: $t = *bytemuck::from_bytes(&x[..]);
            hex(format!("{}", p).as_bytes())
        }};
    }
    match *codec {
        "pubkey" => {
            let pod = ts!(PodElGamalPubkey, 32);
            if let Ok(k) = ElGamalPubkey::try_from(b.as_slice()) {
                if hex(format!("{}", k).as_bytes()) != pod { return format!("variant-mismatch:{}", pod) }
            }
            pod
        }
        "ct" => {
            let pod = ts!(PodElGamalCiphertext, 64);
            if let Some(c) = ElGamalCiphertext::from_bytes(&b) {
                if hex(format!("{}", c).as_bytes()) != pod { return format!("variant-mismatch:{}", pod) }
            }
            pod
        }
        "handle" => ts!(PodDecryptHandle, 32),
        "cmt" => ts!(PodPedersenCommitment, 32),
        "gct2" => ts!(PodGroupedElGamalCiphertext2Handles, 96),
        "gct3" => ts!(PodGroupedElGamalCiphertext3Handles, 128),
        "aect" => {
            // the typed ciphertext prints the same text as its Pod form
            let pod = ts!(PodAeCiphertext, 36);
            let typed = solana_zk_sdk::encryption::auth_encryption::AeCiphertext::from_bytes(&b).map(|c| hex(format!("{}", c).as_bytes()));
            if typed.as_deref() != Some(pod.as_str()) { return format!("variant-mismatch:{}:{:?}", pod, typed) }
            pod
        }
        c => proof_text(c, None, &b),
    }
}

/// a reader that hands out at most `chunk` bytes per `read` call (pipes, sockets and chained readers do that)
struct Trickle<'a> { data: &'a [u8], pos: usize, chunk: usize }
impl<'a> std::io::Read for Trickle<'a> {
    fn read(&mut self, buf: &mut [u8]) -> std::io::Result<usize> {
        let n = self.chunk.min(buf.len()).min(self.data.len() - self.pos);
        buf[..n].copy_from_slice(&self.data[self.pos..self.pos + n]);
        self.pos += n;
        Ok(n)
    }
}
/// a writer that accepts at most `chunk` bytes per `write` call
struct Dribble { out: Vec<u8>, chunk: usize }
impl std::io::Write for Dribble {
    fn write(&mut self, buf: &[u8]) -> std::io::Result<usize> {
        let n = self.chunk.min(buf.len());
        self.out.extend_from_slice(&buf[..n]);
        Ok(n)
    }
    fn flush(&mut self) -> std::io::Result<()> { Ok(()) }
}

/// a refusal must not repeat the secret part of what it refused: the error of a key reader, in its Display and
/// Debug forms (all flags), is searched for renderings of the secret bytes of the input
fn error_leaks<E: std::fmt::Debug + std::fmt::Display>(e: &E, input: &[u8], secret_from: usize) -> bool {
    let Ok(v) = serde_json::from_slice::<Vec<u8>>(input) else { return false };
    if v.len() <= secret_from { return false; }
    let text = format!("{} {:?} {:#?}", e, e, e);
    crate::secrets::leaks(&text, &v[secret_from..])
}

fn json_read<R: std::io::Read>(codec: &str, rd: &mut R) -> String {
    match codec {
        "keypair" => match ElGamalKeypair::read_json(rd) {
            Ok(k) => okhex(&<[u8; 64]>::from(&k)),
            Err(_) => "err".into(),
        },
        "pubkey" => match ElGamalPubkey::read(rd) {
            Ok(k) => okhex(&k.to_bytes()),
            Err(_) => "err".into(),
        },
        "secret" => match ElGamalSecretKey::read(rd) {
            Ok(k) => okhex(k.as_bytes()),
            Err(_) => "err".into(),
        },
        "aekey" => match AeKey::read(rd) {
            Ok(k) => okhex(&<[u8; 16]>::from(k)),
            Err(_) => "err".into(),
        },
        _ => "bad-op".into(),
    }
}

fn json_refusal_leaks(codec: &str, input: &[u8]) -> bool {
    let rd = &mut std::io::Cursor::new(input.to_vec());
    match codec {
        "keypair" => ElGamalKeypair::read_json(rd).err().map(|e| error_leaks(&e, input, 32)).unwrap_or(false),
        "secret" => ElGamalSecretKey::read(rd).err().map(|e| error_leaks(&e, input, 0)).unwrap_or(false),
        "aekey" => AeKey::read(rd).err().map(|e| error_leaks(&e, input, 0)).unwrap_or(false),
        _ => false,
    }
}

pub fn op_json(a: &[&str]) -> String {
    let [codec, h] = a else { return "bad-op".into() };
    let Some(b) = unhex(h) else { return "bad-op".into() };
    let whole = json_read(codec, &mut std::io::Cursor::new(b.clone()));
    if whole == "err" && json_refusal_leaks(codec, &b) { return "err-leaks-secret".into() }
    // the same text through readers that return short reads: the result is a function of the text alone
    for chunk in [1usize, 7, 64] {
        let r = json_read(codec, &mut Trickle { data: &b, pos: 0, chunk });
        if r != whole { return format!("variant-mismatch:trickle{}:{}:{}", chunk, whole, r) }
    }
    let mid = b.len() / 2;
    let r = json_read(codec, &mut std::io::Read::chain(&b[..mid], &b[mid..]));
    if r != whole { return format!("variant-mismatch:chain:{}:{}", whole, r) }
    whole
}

/// the file entry points (`read_json_file`, `EncodableKey::read_from_file`, `write_json_file`, `write_to_file`):
/// `jsonfile <codec> <content> <kind>` writes `content` to a scratch file whose *name* is of the given kind (plain,
/// not valid UTF-8, very long, with spaces), or uses a missing path / a directory, and reads it through the file API;
/// the result is that of the in-memory reader on the same bytes, errors are errors (never a panic)
pub fn op_jsonfile(a: &[&str]) -> String {
    use std::os::unix::ffi::OsStringExt;
    let [codec, h, kind] = a else { return "bad-op".into() };
    let content = if *h == "-" { vec![] } else { match unhex(h) { Some(b) => b, None => return "bad-op".into() } };
    let dir = std::env::temp_dir().join(format!("zkh-files-{}-{:?}", std::process::id(), std::thread::current().id()));
    if std::fs::create_dir_all(&dir).is_err() { return "bad-op".into() }
    let name: std::ffi::OsString = match *kind {
        "plain" => "key.json".into(),
        "spaces" => "my key (copy) .json".into(),
        "nonutf8" => std::ffi::OsString::from_vec(b"key-\xff\xfe.json".to_vec()),
        "pipe" => "unused".into(),
        "long" => format!("{}.json", "k".repeat(200)).into(),
        "missing" => "does-not-exist.json".into(),
        "dir" => ".".into(),
        _ => return "bad-op".into(),
    };
    let mut path = dir.join(name);
    // a path that is not a regular file: the read end of a pipe holding the content (process substitution, stdin)
    let mut pipe_fd: Option<i32> = None;
    if *kind == "pipe" {
        extern "C" { fn pipe(fds: *mut i32) -> i32; fn write(fd: i32, buf: *const u8, n: usize) -> isize; fn close(fd: i32) -> i32; }
        if content.len() > 60_000 { let _ = std::fs::remove_dir_all(&dir); return "bad-op".into() }
        let mut fds = [0i32; 2];
        if unsafe { pipe(fds.as_mut_ptr()) } != 0 { let _ = std::fs::remove_dir_all(&dir); return "bad-op".into() }
        let mut off = 0;
        while off < content.len() {
            let n = unsafe { write(fds[1], content.as_ptr().add(off), content.len() - off) };
            if n <= 0 { break; }
            off += n as usize;
        }
        unsafe { close(fds[1]); }
        path = std::path::PathBuf::from(format!("/proc/self/fd/{}", fds[0]));
        pipe_fd = Some(fds[0]);
    }
    if *kind != "missing" && *kind != "dir" && *kind != "pipe" && std::fs::write(&path, &content).is_err() { let _ = std::fs::remove_dir_all(&dir); return "bad-op".into() }
    use solana_signer::EncodableKey;
    let via_file = match *codec {
        "keypair" if *kind == "pipe" => ElGamalKeypair::read_json_file(&path).ok().map(|k| <[u8; 64]>::from(&k).to_vec()),
        "keypair" => {
            let a = ElGamalKeypair::read_json_file(&path).ok().map(|k| <[u8; 64]>::from(&k).to_vec());
            let b = <ElGamalKeypair as EncodableKey>::read_from_file(&path).ok().map(|k| <[u8; 64]>::from(&k).to_vec());
            if a != b { let _ = std::fs::remove_dir_all(&dir); return "variant-mismatch:file-routes".into() }
            a
        }
        "pubkey" => <ElGamalPubkey as EncodableKey>::read_from_file(&path).ok().map(|k| k.to_bytes().to_vec()),
        "secret" => <ElGamalSecretKey as EncodableKey>::read_from_file(&path).ok().map(|k| k.as_bytes().to_vec()),
        "aekey" => <AeKey as EncodableKey>::read_from_file(&path).ok().map(|k| <[u8; 16]>::from(k).to_vec()),
        _ => { let _ = std::fs::remove_dir_all(&dir); return "bad-op".into() }
    };
    if let Some(fd) = pipe_fd { extern "C" { fn close(fd: i32) -> i32; } unsafe { close(fd); } }
    let out = match &via_file { Some(b) => okhex(b), None => "err".to_string() };
    // writing the decoded key back to a file (same kind of name) and reading it again gives the same key
    if let Some(key_bytes) = &via_file {
        let wpath = dir.join(if *kind == "nonutf8" { std::ffi::OsString::from_vec(b"out-\xfe\xff.json".to_vec()) } else { std::ffi::OsString::from("out.json") });
        let wrote = match *codec {
            "keypair" => ElGamalKeypair::try_from(key_bytes.as_slice()).ok().and_then(|k| k.write_json_file(&wpath).ok()),
            "pubkey" => ElGamalPubkey::try_from(key_bytes.as_slice()).ok().and_then(|k| k.write_to_file(&wpath).ok()),
            "secret" => ElGamalSecretKey::try_from(key_bytes.as_slice()).ok().and_then(|k| k.write_to_file(&wpath).ok()),
            "aekey" => AeKey::try_from(key_bytes.as_slice()).ok().and_then(|k| k.write_to_file(&wpath).ok()),
            _ => None,
        };
        match wrote {
            Some(t) => {
                let on_disk = std::fs::read(&wpath).unwrap_or_default();
                if on_disk != t.as_bytes() { let _ = std::fs::remove_dir_all(&dir); return "variant-mismatch:file-written".into() }
                let again = json_read(codec, &mut std::io::Cursor::new(on_disk));
                if again != out { let _ = std::fs::remove_dir_all(&dir); return format!("variant-mismatch:file-roundtrip:{}:{}", out, again) }
            }
            None => { let _ = std::fs::remove_dir_all(&dir); return "variant-mismatch:file-write-failed".into() }
        }
    }
    let _ = std::fs::remove_dir_all(&dir);
    if *kind != "missing" && *kind != "dir" {
        let mem = json_read(codec, &mut std::io::Cursor::new(content));
        if mem != out { return format!("variant-mismatch:file-vs-memory:{}:{}", out, mem) }
    }
    out
}

fn json_write<W: std::io::Write>(codec: &str, b: &[u8], out: &mut W) -> Option<Option<String>> {
    Some(match codec {
        "keypair" => ElGamalKeypair::try_from(b).ok().and_then(|k| k.write_json(out).ok()),
        "pubkey" => ElGamalPubkey::try_from(b).ok().and_then(|k| k.write(out).ok()),
        "secret" => ElGamalSecretKey::try_from(b).ok().and_then(|k| k.write(out).ok()),
        "aekey" => AeKey::try_from(b).ok().and_then(|k| k.write(out).ok()),
        _ => return None,
    })
}

pub fn op_tojson(a: &[&str]) -> String {
    let [codec, h] = a else { return "bad-op".into() };
    let Some(b) = unhex(h) else { return "bad-op".into() };
    let mut out: Vec<u8> = vec![];
    let Some(r) = json_write(codec, &b, &mut out) else { return "bad-op".into() };
    // a writer that takes a few bytes at a time receives the same text
    let mut d = Dribble { out: vec![], chunk: 3 };
    if let Some(Some(_)) = json_write(codec, &b, &mut d) {
        if d.out != out { return format!("variant-mismatch:short-writes:{}:{}", hex(&out), hex(&d.out)) }
    }
    match r {
        Some(s) if s.as_bytes() == out.as_slice() => hex(&out),
        Some(_) => "writer-mismatch".into(),
        None => "bad-op".into(),
    }
}

/// evaluate a binary operator in all four owned/borrowed operand combinations; they must agree
macro_rules! variants {
    ($a:expr, $b:expr, $op:tt, $enc:expr) => {{
        let (a, b) = ($a, $b);
        let r1 = $enc(&(&a $op &b));
        let r2 = $enc(&(a.clone() $op &b));
        let r3 = $enc(&(&a $op b.clone()));
        let r4 = $enc(&(a.clone() $op b.clone()));
        if r1 == r2 && r2 == r3 && r3 == r4 { hex(&r1) } else {
            format!("variant-mismatch:{}:{}:{}:{}", hex(&r1), hex(&r2), hex(&r3), hex(&r4))
        }
    }};
}

/// the same for two operands of one type: additionally with both operands one and the same object
macro_rules! variants_same {
    ($a:expr, $b:expr, $op:tt, $enc:expr) => {{
        let (a, b) = ($a, $b);
        let r1 = $enc(&(&a $op &b));
        // equal operands may also be one and the same object (`&x - &x`): the result is that of two equal values
        if $enc(&a) == $enc(&b) {
            let r0 = $enc(&(&a $op &a));
            if r0 != r1 { return format!("variant-mismatch:aliased:{}:{}", hex(&r0), hex(&r1)) }
            let both = [a.clone(), a.clone()];
            let r00 = $enc(&(&both[0] $op &both[0]));
            if r00 != r1 { return format!("variant-mismatch:aliased-element:{}:{}", hex(&r00), hex(&r1)) }
        }
        let r2 = $enc(&(a.clone() $op &b));
        let r3 = $enc(&(&a $op b.clone()));
        let r4 = $enc(&(a.clone() $op b.clone()));
        if r1 == r2 && r2 == r3 && r3 == r4 { hex(&r1) } else {
            format!("variant-mismatch:{}:{}:{}:{}", hex(&r1), hex(&r2), hex(&r3), hex(&r4))
        }
    }};
}

fn dhandle(h: &str) -> Option<DecryptHandle> {
    DecryptHandle::from_bytes(&unhex(h)?)
}
fn ctbytes(h: &str) -> Option<ElGamalCiphertext> {
    ElGamalCiphertext::from_bytes(&unhex(h)?)
}
fn u64arg(s: &str) -> Option<u64> {
    s.parse().ok()
}

pub fn op_elg(a: &[&str]) -> String {
    let bad = || "bad-op".to_string();
    match a {
        ["with", x, r] => {
            let (Some(x), Some(r)) = (scalar(x), opening(r)) else { return bad() };
            hex(&Pedersen::with(x, &r).to_bytes())
        }
        ["withu64", x, r] => {
            let (Some(x), Some(r)) = (u64arg(x), opening(r)) else { return bad() };
            hex(&Pedersen::with(x, &r).to_bytes())
        }
        ["pubkey", s] => {
            let Some(s) = scalar(s) else { return bad() };
            okhex(&ElGamalPubkey::new(&ElGamalSecretKey::from(s)).to_bytes())
        }
        ["enc", p, x, r] => {
            let (Some(p), Some(x), Some(r)) = (pubkey(p), scalar(x), opening(r)) else { return bad() };
            hex(&p.encrypt_with(x, &r).to_bytes())
        }
        ["encu64", p, x, r] => {
            let (Some(p), Some(x), Some(r)) = (pubkey(p), u64arg(x), opening(r)) else { return bad() };
            let c1 = p.encrypt_with(x, &r).to_bytes();
            let c2 = p.encrypt_with_u64(x, &r).to_bytes();
            if c1 == c2 { hex(&c1) } else { "variant-mismatch".into() }
        }
        ["handle", p, r] => {
            let (Some(p), Some(r)) = (pubkey(p), opening(r)) else { return bad() };
            let h1 = p.decrypt_handle(&r).to_bytes();
            let h2 = DecryptHandle::new(&p, &r).to_bytes();
            if h1 == h2 { hex(&h1) } else { "variant-mismatch".into() }
        }
        ["dec", s, c, d] => {
            let (Some(s), Some(ct)) = (scalar(s), ciphertext(c, d)) else { return bad() };
            let sk = ElGamalSecretKey::from(s);
            let t1 = ct.decrypt(&sk);
            let t2 = sk.decrypt(&ct);
            if t1 != t2 { return "variant-mismatch".into() }
            hex(t1.target.compress().as_bytes())
        }
        ["dec32", s, c, d, _k] => {
            let (Some(s), Some(ct)) = (scalar(s), ciphertext(c, d)) else { return bad() };
            let sk = ElGamalSecretKey::from(s);
            let r1 = ct.decrypt_u32(&sk);
            let r2 = sk.decrypt_u32(&ct);
            if r1 != r2 { return "variant-mismatch".into() }
            // the same target decoded through the configurable instance returned by `decrypt` (threads, batch size)
            let mut d = ct.decrypt(&sk);
            if d.num_threads(std::num::NonZeroUsize::new(4).unwrap()).is_err() { return "variant-mismatch:threads".into() }
            let r3 = d.decode_u32();
            let mut d = sk.decrypt(&ct);
            if d.set_compression_batch_size(std::num::NonZeroUsize::new(33).unwrap()).is_err() { return "variant-mismatch:batch".into() }
            let r4 = d.decode_u32();
            if r3 != r1 || r4 != r1 { return format!("variant-mismatch:{:?}:{:?}:{:?}", r1, r3, r4) }
            // a thread count the instance accepts must never change the answer (3 and 6 are refused today)
            for t in [3usize, 6] {
                let mut d = ct.decrypt(&sk);
                if d.num_threads(std::num::NonZeroUsize::new(t).unwrap()).is_ok() && d.decode_u32() != r1 {
                    return format!("variant-mismatch:threads{}", t);
                }
            }
            // a configured instance sent through serde (bincode, JSON) decodes like the original
            for t in [1usize, 2, 4, 8] {
                let mut d = ct.decrypt(&sk);
                if d.num_threads(std::num::NonZeroUsize::new(t).unwrap()).is_err() { return "variant-mismatch:threads".into() }
                let b: Option<solana_zk_sdk::encryption::discrete_log::DiscreteLog> = bincode::serialize(&d).ok().and_then(|x| bincode::deserialize(&x).ok());
                let j: Option<solana_zk_sdk::encryption::discrete_log::DiscreteLog> = serde_json::to_string(&d).ok().and_then(|x| serde_json::from_str(&x).ok());
                for (how, c) in [("bincode", b), ("json", j)] {
                    match c { Some(c) => if c != d || c.decode_u32() != r1 { return format!("variant-mismatch:serde-{}-threads{}", how, t) }, None => return format!("variant-mismatch:serde-{}-failed", how) }
                }
            }
            // re-configuration: the last accepted thread count / batch size governs, whatever was set before
            for seq in [&[4usize, 1][..], &[8, 2], &[2, 1, 4], &[16, 1]] {
                let mut d = sk.decrypt(&ct);
                for t in seq { if d.num_threads(std::num::NonZeroUsize::new(*t).unwrap()).is_err() { return "variant-mismatch:threads-seq".into() } }
                if d.decode_u32() != r1 { return format!("variant-mismatch:threads-seq{:?}", seq) }
            }
            match r1 { Some(x) => format!("some:{}", x), None => "none".into() }
        }
        ["op", ty, op, x, y] => match (*ty, *op) {
            ("opn", "add") => {
                let (Some(a), Some(b)) = (opening(x), opening(y)) else { return bad() };
                // equality of openings and of secret keys is equality of their canonical bytes; as_bytes = to_bytes
                if (a == b) != (a.to_bytes() == b.to_bytes()) || a.as_bytes() != &a.to_bytes() { return "variant-mismatch:eq".into() }
                let (sa, sb) = (ElGamalSecretKey::from(*a.get_scalar()), ElGamalSecretKey::from(*b.get_scalar()));
                if (sa == sb) != (sa.as_bytes() == sb.as_bytes()) || sa != sa.clone() { return "variant-mismatch:eq-secret".into() }
                variants_same!(a, b, +, |o: &PedersenOpening| o.to_bytes().to_vec())
            }
            ("opn", "sub") => { let (Some(a), Some(b)) = (opening(x), opening(y)) else { return bad() }; variants_same!(a, b, -, |o: &PedersenOpening| o.to_bytes().to_vec()) }
            ("opn", "mul") => {
                let (Some(a), Some(b)) = (opening(x), scalar(y)) else { return bad() };
                let l = variants!(a.clone(), b, *, |o: &PedersenOpening| o.to_bytes().to_vec());
                let r = variants!(b, a, *, |o: &PedersenOpening| o.to_bytes().to_vec());
                if l == r { l } else { format!("variant-mismatch:{}:{}", l, r) }
            }
            ("cmt", "add") => { let (Some(a), Some(b)) = (commitment(x), commitment(y)) else { return bad() }; variants_same!(a, b, +, |o: &PedersenCommitment| o.to_bytes().to_vec()) }
            ("cmt", "sub") => { let (Some(a), Some(b)) = (commitment(x), commitment(y)) else { return bad() }; variants_same!(a, b, -, |o: &PedersenCommitment| o.to_bytes().to_vec()) }
            ("cmt", "mul") => {
                let (Some(a), Some(b)) = (commitment(x), scalar(y)) else { return bad() };
                let l = variants!(a, b, *, |o: &PedersenCommitment| o.to_bytes().to_vec());
                let r = variants!(b, a, *, |o: &PedersenCommitment| o.to_bytes().to_vec());
                if l == r { l } else { format!("variant-mismatch:{}:{}", l, r) }
            }
            ("hdl", "add") => { let (Some(a), Some(b)) = (dhandle(x), dhandle(y)) else { return bad() }; variants_same!(a, b, +, |o: &DecryptHandle| o.to_bytes().to_vec()) }
            ("hdl", "sub") => { let (Some(a), Some(b)) = (dhandle(x), dhandle(y)) else { return bad() }; variants_same!(a, b, -, |o: &DecryptHandle| o.to_bytes().to_vec()) }
            ("hdl", "mul") => {
                let (Some(a), Some(b)) = (dhandle(x), scalar(y)) else { return bad() };
                let l = variants!(a, b, *, |o: &DecryptHandle| o.to_bytes().to_vec());
                let r = variants!(b, a, *, |o: &DecryptHandle| o.to_bytes().to_vec());
                if l == r { l } else { format!("variant-mismatch:{}:{}", l, r) }
            }
            ("ct", "add") => { let (Some(a), Some(b)) = (ctbytes(x), ctbytes(y)) else { return bad() }; variants_same!(a, b, +, |o: &ElGamalCiphertext| o.to_bytes().to_vec()) }
            ("ct", "sub") => { let (Some(a), Some(b)) = (ctbytes(x), ctbytes(y)) else { return bad() }; variants_same!(a, b, -, |o: &ElGamalCiphertext| o.to_bytes().to_vec()) }
            ("ct", "mul") => {
                let (Some(a), Some(b)) = (ctbytes(x), scalar(y)) else { return bad() };
                let l = variants!(a, b, *, |o: &ElGamalCiphertext| o.to_bytes().to_vec());
                let r = variants!(b, a, *, |o: &ElGamalCiphertext| o.to_bytes().to_vec());
                if l == r { l } else { format!("variant-mismatch:{}:{}", l, r) }
            }
            _ => bad(),
        },
        ["addamt", c, d, x] => { let (Some(ct), Some(x)) = (ciphertext(c, d), scalar(x)) else { return bad() }; hex(&ct.add_amount(x).to_bytes()) }
        ["subamt", c, d, x] => { let (Some(ct), Some(x)) = (ciphertext(c, d), scalar(x)) else { return bad() }; hex(&ct.subtract_amount(x).to_bytes()) }
        ["addamtu64", c, d, x] => { let (Some(ct), Some(x)) = (ciphertext(c, d), u64arg(x)) else { return bad() }; hex(&ct.add_amount(x).to_bytes()) }
        ["subamtu64", c, d, x] => { let (Some(ct), Some(x)) = (ciphertext(c, d), u64arg(x)) else { return bad() }; hex(&ct.subtract_amount(x).to_bytes()) }
        ["genc", x, r, keys @ ..] => {
            let (Some(x), Some(r)) = (scalar(x), opening(r)) else { return bad() };
            let ks: Option<Vec<ElGamalPubkey>> = keys.iter().map(|k| pubkey(k)).collect();
            let Some(ks) = ks else { return bad() };
            match ks.len() {
                0 => hex(&GroupedElGamal::<0>::encrypt_with([], x, &r).to_bytes()),
                1 => hex(&GroupedElGamal::<1>::encrypt_with([&ks[0]], x, &r).to_bytes()),
                2 => hex(&GroupedElGamal::<2>::encrypt_with([&ks[0], &ks[1]], x, &r).to_bytes()),
                3 => hex(&GroupedElGamal::<3>::encrypt_with([&ks[0], &ks[1], &ks[2]], x, &r).to_bytes()),
                _ => bad(),
            }
        }
        ["grand", amt, pattern, secrets @ ..] => {
            // the randomized `GroupedElGamal::<N>::encrypt` with key *references* arranged by `pattern` (e.g. "011":
            // positions 1 and 2 are the same object): every handle decrypts under its own key to the amount, and
            // positions with the same key give the same single-handle ciphertext
            let Some(x) = u64arg(amt) else { return bad() };
            let ss: Option<Vec<Scalar>> = secrets.iter().map(|h| scalar(h)).collect();
            let Some(ss) = ss else { return bad() };
            if ss.iter().any(|s| *s == Scalar::ZERO) { return bad() }
            let kps: Vec<ElGamalKeypair> = ss.iter().map(|s| ElGamalKeypair::new(ElGamalSecretKey::from(*s))).collect();
            let idx: Option<Vec<usize>> = if *pattern == "-" { Some(vec![]) } else { pattern.chars().map(|c| c.to_digit(10).map(|d| d as usize)).collect() };
            let Some(idx) = idx else { return bad() };
            if idx.iter().any(|i| *i >= kps.len()) { return bad() }
            let target = Scalar::from(x) * G;
            macro_rules! run { ($n:expr, $refs:expr) => {{
                for _ in 0..3 {
                    let g = GroupedElGamal::<$n>::encrypt($refs, x);
                    for (pos, ki) in idx.iter().enumerate() {
                        match g.decrypt(kps[*ki].secret(), pos) {
                            Ok(d) if d.target == target => {}
                            _ => return format!("variant-mismatch:handle{}", pos),
                        }
                        for (pos2, kj) in idx.iter().enumerate() {
                            if ki == kj && g.to_elgamal_ciphertext(pos).ok() != g.to_elgamal_ciphertext(pos2).ok() { return format!("variant-mismatch:equal-keys:{}:{}", pos, pos2) }
                        }
                    }
                    if x < (1u64 << 32) {
                        for (pos, ki) in idx.iter().enumerate() {
                            if g.decrypt_u32(kps[*ki].secret(), pos).ok().flatten() != Some(x) { return format!("variant-mismatch:u32-handle{}", pos) }
                        }
                    }
                }
                "ok".to_string()
            }} }
            let pk = |i: usize| kps[idx[i]].pubkey();
            match idx.len() {
                0 => run!(0, []),
                1 => run!(1, [pk(0)]),
                2 => run!(2, [pk(0), pk(1)]),
                3 => run!(3, [pk(0), pk(1), pk(2)]),
                _ => bad(),
            }
        }
        ["gto", n, h, i] => {
            let (Some(b), Ok(i)) = (unhex(h), i.parse::<usize>()) else { return bad() };
            macro_rules! gto { ($n:expr) => { match GroupedElGamalCiphertext::<$n>::from_bytes(&b) {
                Some(g) => match g.to_elgamal_ciphertext(i) { Ok(c) => okhex(&c.to_bytes()), Err(_) => "err".into() },
                None => bad() } } }
            match *n { "0" => gto!(0), "1" => gto!(1), "2" => gto!(2), "3" => gto!(3), _ => bad() }
        }
        ["gdec", n, h, s, i] => {
            let (Some(b), Some(s), Ok(i)) = (unhex(h), scalar(s), i.parse::<usize>()) else { return bad() };
            let sk = ElGamalSecretKey::from(s);
            macro_rules! gdec { ($n:expr) => { match GroupedElGamalCiphertext::<$n>::from_bytes(&b) {
                Some(g) => {
                    // the 32-bit entry point refuses exactly the indices the instance-returning one refuses
                    let e32 = g.decrypt_u32(&sk, i).is_err();
                    match g.decrypt(&sk, i) {
                        Ok(d) => if e32 { "variant-mismatch:decrypt_u32-refused".into() } else { okhex(d.target.compress().as_bytes()) },
                        Err(_) => if e32 { "err".into() } else { "variant-mismatch:decrypt_u32-accepted".into() },
                    }
                }
                None => bad() } } }
            match *n { "0" => gdec!(0), "1" => gdec!(1), "2" => gdec!(2), "3" => gdec!(3), _ => bad() }
        }
        _ => bad(),
    }
}

#[allow(dead_code)]
pub fn g_times(x: &Scalar) -> String {
    hex((x * G).compress().as_bytes())
}

/// authenticated encryption (C13)
pub fn op_ae(a: &[&str]) -> String {
    match a {
        ["encrypt", key, amount, _seed] => {
            let (Some(k), Ok(x)) = (unhex(key), amount.parse::<u64>()) else { return "bad-op".into() };
            let Ok(k) = AeKey::try_from(k.as_slice()) else { return "bad-op".into() };
            let ct = k.encrypt(x);
            format!("emit:!some:{} ae dec {} {}", x, key, hex(&ct.to_bytes()))
        }
        ["mencrypt", _key, _amount, _nonce] => "emit:".into(),
        ["dec", key, ct] => {
            let (Some(k), Some(c)) = (unhex(key), unhex(ct)) else { return "bad-op".into() };
            let Ok(k) = AeKey::try_from(k.as_slice()) else { return "bad-op".into() };
            match AeCiphertext::from_bytes(&c) {
                None => "none".into(),
                Some(c) => {
                    let r1 = c.decrypt(&k);
                    let r2 = k.decrypt(&c);
                    if r1 != r2 { return "variant-mismatch".into() }
                    // a copy of the key is the same key: it opens what the original opens, and what it seals the original opens
                    let kc = k.clone();
                    if kc.decrypt(&c) != r1 { return "variant-mismatch:cloned-key".into() }
                    if k.decrypt(&kc.encrypt(77)) != Some(77) || kc.decrypt(&k.encrypt(78)) != Some(78) { return "variant-mismatch:cloned-key-seals".into() }
                    let kb: [u8; 16] = k.clone().into();
                    if let Ok(k2) = AeKey::try_from(&kb[..]) { if k2.decrypt(&c) != r1 { return "variant-mismatch:key-bytes".into() } } else { return "variant-mismatch:key-bytes".into() }
                    match r1 { Some(x) => format!("some:{}", x), None => "none".into() }
                }
            }
        }
        ["soak", key, n] => {
            // many fresh encryptions under one key, each opened directly and through its byte form: an encryptor that
            // goes wrong for a small fraction of its own random nonces is only seen by volume
            let (Some(k), Ok(n)) = (unhex(key), n.parse::<u64>()) else { return "bad-op".into() };
            let Ok(k) = AeKey::try_from(k.as_slice()) else { return "bad-op".into() };
            for i in 0..n {
                let amount = i.wrapping_mul(0x9e3779b97f4a7c15) ^ (i << 40);
                let ct = k.encrypt(amount);
                if k.decrypt(&ct) != Some(amount) { return format!("undecryptable:#{}:{}", i, hex(&ct.to_bytes())) }
                if i % 16 == 0 {
                    match AeCiphertext::from_bytes(&ct.to_bytes()) { Some(c) if k.decrypt(&c) == Some(amount) => {}, _ => return format!("undecryptable-bytes:#{}", i) }
                }
            }
            "ok".into()
        }
        [seq, toks @ ..] if *seq == "seq" => {
            // one thread, in order; a key is also used to encrypt in between (anything cached per key is exercised)
            toks.iter().map(|tok| {
                let Some((k, c)) = tok.split_once(':') else { return "bad".to_string() };
                let (Some(k), Some(c)) = (unhex(k), unhex(c)) else { return "bad".to_string() };
                let Ok(k) = AeKey::try_from(k.as_slice()) else { return "bad".to_string() };
                let probe = k.encrypt(5);
                if k.decrypt(&probe) != Some(5) { return "variant-mismatch:own-ciphertext".to_string() }
                match AeCiphertext::from_bytes(&c) {
                    None => "none".to_string(),
                    Some(c) => match (c.decrypt(&k), k.decrypt(&c)) {
                        (a, b) if a != b => "variant-mismatch".to_string(),
                        (Some(x), _) => format!("some:{}", x),
                        (None, _) => "none".to_string(),
                    },
                }
            }).collect::<Vec<_>>().join("|")
        }
        _ => "bad-op".into(),
    }
}

/// 32-bit discrete log after a *sequence* of configuration calls on one instance (C10):
/// `dlogseq <target> <k|?> t4+b33+t1+t3?` — `t<n>` = num_threads(n), `b<n>` = set_compression_batch_size(n);
/// a trailing `?` ignores a refusal (the instance must then be unchanged), otherwise a refusal ends with `err`
/// the decoder is for the basepoint only and ignores the (deprecated, public) `generator` field: an instance made by
/// the deprecated constructor with another generator, or whose field was overwritten, decodes like `new_for_g`
#[allow(deprecated)]
fn other_generator(p: curve25519_dalek::ristretto::RistrettoPoint, pick: usize) -> solana_zk_sdk::encryption::discrete_log::DiscreteLog {
    use curve25519_dalek::{constants::RISTRETTO_BASEPOINT_POINT as G, scalar::Scalar, traits::Identity};
    use solana_zk_sdk::encryption::{discrete_log::DiscreteLog, pedersen::H};
    match pick % 5 {
        0 => DiscreteLog::new(*H, p),
        1 => DiscreteLog::new(Scalar::from(7u64) * G, p),
        2 => DiscreteLog::new(-(Scalar::from(7u64) * G), p),
        3 => DiscreteLog::new(curve25519_dalek::ristretto::RistrettoPoint::identity(), p),
        _ => { let mut d = DiscreteLog::new_for_g(p); d.generator = p; d }
    }
}

pub fn op_dlogseq(a: &[&str]) -> String {
    use solana_zk_sdk::encryption::discrete_log::DiscreteLog;
    use std::num::NonZeroUsize;
    let [t, _k, seq] = a else { return "bad-op".into() };
    let Some(tb) = unhex(t) else { return "bad-op".into() };
    let Some(p) = curve25519_dalek::ristretto::CompressedRistretto::from_slice(&tb).ok().and_then(|c| c.decompress()) else { return "bad-op".into() };
    #[allow(deprecated)]
    let ctors = [DiscreteLog::new_for_g(p), DiscreteLog::new(curve25519_dalek::constants::RISTRETTO_BASEPOINT_POINT, p), other_generator(p, seq.len())];
    let mut results = vec![];
    for mut d in ctors {
        for tok in seq.split('+') {
            if tok == "-" { continue; }
            let (tok, lenient) = match tok.strip_suffix('?') { Some(x) => (x, true), None => (tok, false) };
            let Some(n) = tok.get(1..).and_then(|x| x.parse::<usize>().ok()).and_then(NonZeroUsize::new) else { return "bad-op".into() };
            let r = match tok.as_bytes()[0] {
                b't' => d.num_threads(n).is_err(),
                b'b' => d.set_compression_batch_size(n).is_err(),
                _ => return "bad-op".into(),
            };
            if r && !lenient { return "err".into() }
        }
        // a configured instance survives serialization: the parsed copy is equal and decodes to the same answer
        let via_bincode: Option<DiscreteLog> = bincode::serialize(&d).ok().and_then(|b| bincode::deserialize(&b).ok());
        let via_json: Option<DiscreteLog> = serde_json::to_string(&d).ok().and_then(|t| serde_json::from_str(&t).ok());
        let direct = d.decode_u32();
        for (how, c) in [("bincode", via_bincode), ("json", via_json)] {
            match c {
                Some(c) => { if c != d || c.decode_u32() != direct { return format!("variant-mismatch:serde-{}", how) } }
                None => return format!("variant-mismatch:serde-{}-failed", how),
            }
        }
        results.push(direct);
    }
    if results[0] != results[1] { return format!("variant-mismatch:{:?}:{:?}", results[0], results[1]) }
    if results[0] != results[2] { return format!("variant-mismatch:generator-field:{:?}:{:?}", results[0], results[2]) }
    match results[0] { Some(x) => format!("some:{}", x), None => "none".into() }
}

/// 32-bit discrete log under a configuration (C10)
pub fn op_dlog(a: &[&str]) -> String {
    use solana_zk_sdk::encryption::discrete_log::DiscreteLog;
    use std::num::NonZeroUsize;
    let (t, threads, batch) = match a {
        [t, _k, th, b] => (t, th, b),
        [t, th, b] => (t, th, b),
        _ => return "bad-op".into(),
    };
    let Some(tb) = unhex(t) else { return "bad-op".into() };
    let Some(p) = curve25519_dalek::ristretto::CompressedRistretto::from_slice(&tb).ok().and_then(|c| c.decompress()) else { return "bad-op".into() };
    // both constructors (the deprecated generic one with G), configured identically, must agree
    #[allow(deprecated)]
    let ctors = [DiscreteLog::new_for_g(p), DiscreteLog::new(curve25519_dalek::constants::RISTRETTO_BASEPOINT_POINT, p),
                 other_generator(p, threads.len() + 3 * batch.len() + tb[0] as usize)];
    let mut results = vec![];
    for mut d in ctors {
        if *threads != "-" {
            let Some(n) = threads.parse::<usize>().ok().and_then(NonZeroUsize::new) else { return "bad-op".into() };
            if d.num_threads(n).is_err() { return "err".into() }
        }
        if *batch != "-" {
            let Some(n) = batch.parse::<usize>().ok().and_then(NonZeroUsize::new) else { return "bad-op".into() };
            if d.set_compression_batch_size(n).is_err() { return "err".into() }
        }
        let via_bincode: Option<DiscreteLog> = bincode::serialize(&d).ok().and_then(|b| bincode::deserialize(&b).ok());
        let direct = d.decode_u32();
        match via_bincode {
            Some(c) => { if c != d || c.decode_u32() != direct { return "variant-mismatch:serde-bincode".into() } }
            None => return "variant-mismatch:serde-bincode-failed".into(),
        }
        results.push(direct);
    }
    if results[0] != results[1] { return format!("variant-mismatch:{:?}:{:?}", results[0], results[1]) }
    if results[0] != results[2] { return format!("variant-mismatch:generator-field:{:?}:{:?}", results[0], results[2]) }
    // the answer does not depend on how many CPUs the calling thread may use: the same decode from a thread restricted
    // to 3 CPUs, and to 1 CPU (affinity mask; worker threads inherit it)
    if let (Some(_), Ok(n)) = (results[0], threads.parse::<usize>()) {
        if n > 1 && n <= 64 {
            extern "C" { fn sched_setaffinity(pid: i32, cpusetsize: usize, mask: *const u64) -> i32; }
            for mask in [0b111u64, 0b1, 0b11111] {
                let batch_s = batch.to_string();
                let r = std::thread::spawn(move || {
                    let m = [mask, 0u64, 0, 0, 0, 0, 0, 0, 0, 0, 0, 0, 0, 0, 0, 0];
                    if unsafe { sched_setaffinity(0, std::mem::size_of_val(&m), m.as_ptr()) } != 0 { return None; }
                    let mut d = DiscreteLog::new_for_g(p);
                    if d.num_threads(NonZeroUsize::new(n).unwrap()).is_err() { return None; }
                    if batch_s != "-" { if let Some(b) = batch_s.parse::<usize>().ok().and_then(NonZeroUsize::new) { let _ = d.set_compression_batch_size(b); } }
                    Some(d.decode_u32())
                }).join();
                match r {
                    Ok(Some(x)) => if x != results[0] { return format!("variant-mismatch:cpu-mask-{:b}:{:?}:{:?}", mask, results[0], x) },
                    Ok(None) => {}
                    Err(_) => return "P".into(),
                }
            }
        }
    }
    // decoders do not disturb each other: the same decode while another caller keeps decoding (with threads) in the
    // same process gives the same answer. (Only for in-range targets with a threaded configuration: cheap enough.)
    if let (Some(_), Ok(n)) = (results[0], threads.parse::<usize>()) {
        if n > 1 && n <= 8 {
            let stop = std::sync::Arc::new(std::sync::atomic::AtomicBool::new(false));
            let stop2 = stop.clone();
            let other = std::thread::spawn(move || {
                let small = curve25519_dalek::scalar::Scalar::from(5u64) * curve25519_dalek::constants::RISTRETTO_BASEPOINT_POINT;
                let mut k = 0u32;
                while !stop2.load(std::sync::atomic::Ordering::Relaxed) && k < 10_000 {
                    let mut d = DiscreteLog::new_for_g(small);
                    let _ = d.num_threads(NonZeroUsize::new(2).unwrap());
                    if d.decode_u32() != Some(5) { return false }
                    k += 1;
                }
                true
            });
            let mut again = vec![];
            for _ in 0..3 {
                let mut d = DiscreteLog::new_for_g(p);
                if d.num_threads(NonZeroUsize::new(n).unwrap()).is_err() { break }
                if *batch != "-" { if let Some(b) = batch.parse::<usize>().ok().and_then(NonZeroUsize::new) { let _ = d.set_compression_batch_size(b); } }
                again.push(d.decode_u32());
            }
            stop.store(true, std::sync::atomic::Ordering::Relaxed);
            let other_ok = other.join().unwrap_or(false);
            if !other_ok { return "variant-mismatch:concurrent-other".into() }
            if again.iter().any(|r| *r != results[0]) { return format!("variant-mismatch:concurrent:{:?}:{:?}", results[0], again) }
        }
    }
    match results[0] { Some(x) => format!("some:{}", x), None => "none".into() }
}

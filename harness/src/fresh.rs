//! C19: repeated calls on identical inputs never repeat an opening, handle, nonce or masking commitment
use crate::sigma::*;
use crate::util::*;
use solana_zk_sdk::encryption::{
    auth_encryption::AeKey,
    elgamal::ElGamalKeypair,
    grouped_elgamal::GroupedElGamal,
    pedersen::{Pedersen, PedersenOpening},
};
use std::collections::HashMap;

/// Range proofs blind the bit vectors with two vectors of fresh scalars, s_L and s_R (one draw per entry). With the
/// witness known (it is, here) the published ipp.a, ipp.b and t_x do not determine them - unless they lie along a
/// direction an observer can guess (all entries equal, proportional to the bits, to 2^i, to y^i, ...): then ipp.a and
/// ipp.b fix the two coefficients and t_x = <l(x), r(x)> holds for them only if the guess is right. A prover for which
/// one of these guesses is right lets the amounts be solved from a single proof (each candidate amount is tested the
/// same way). Returns the direction pair that fits, if any.
fn degenerate_masks(w: &str, av: &[&str], b: &[u8]) -> Option<String> {
    use curve25519_dalek::scalar::Scalar;
    let amounts: Vec<u64> = av.get(2)?.split(',').filter_map(|x| x.parse().ok()).collect();
    let bls: Vec<usize> = av.get(3)?.split(',').filter_map(|x| x.parse().ok()).collect();
    if amounts.len() != bls.len() { return None; }
    let n: usize = bls.iter().sum();
    if !n.is_power_of_two() || b.len() < 264 + 7 * 32 + 64 { return None; }
    let out = op_verify(&[w, &hex(b)]);
    let tr = out.split(" ~").nth(1)?;
    let sc = |h: &str| -> Option<Scalar> { Some(Scalar::from_bytes_mod_order(unhex(h)?.try_into().ok()?)) };
    let (mut y, mut z, mut x, mut us) = (None, None, None, vec![]);
    for item in tr.split(',') {
        let (l, v) = item.split_once('=')?;
        match l { "y" => y = sc(v), "z" => z = sc(v), "x" => x = sc(v), "u" => us.push(sc(v)?), _ => {} }
    }
    let (y, z, x) = (y?, z?, x?);
    let k = n.trailing_zeros() as usize;
    if us.len() != k { return None; }
    let fld = |o: usize| -> Option<Scalar> { Some(Scalar::from_bytes_mod_order(b.get(o..o + 32)?.try_into().ok()?)) };
    let t_x = fld(264 + 128)?;
    let (ia, ib) = (fld(b.len() - 64)?, fld(b.len() - 32)?);
    // per index: bit, y^i, z^(2+j)*2^bit-position, folding coefficient e_i (a is folded with e, b with 1/e)
    let uinv: Vec<Scalar> = us.iter().map(|u| u.invert()).collect();
    let (mut al, mut yi, mut zz, mut two, mut e) = (vec![], vec![], vec![], vec![], vec![]);
    let (mut ey, mut ez) = (Scalar::ONE, z * z);
    for (a, nb) in amounts.iter().zip(bls.iter()) {
        let mut e2 = Scalar::ONE;
        for j in 0..*nb {
            al.push(Scalar::from((a >> j) & 1));
            yi.push(ey); zz.push(ez * e2); two.push(e2);
            ey *= y; e2 = e2 + e2;
        }
        ez *= z;
    }
    for i in 0..n {
        let mut c = Scalar::ONE;
        for j in 0..k { c *= if (i >> (k - 1 - j)) & 1 == 0 { us[j] } else { uinv[j] }; }
        e.push(c);
    }
    let einv: Vec<Scalar> = e.iter().map(|c| c.invert()).collect();
    let ar: Vec<Scalar> = al.iter().map(|a| a - Scalar::ONE).collect();
    let yinv: Vec<Scalar> = yi.iter().map(|v| v.invert()).collect();
    let idx: Vec<Scalar> = (0..n).map(|i| Scalar::from(i as u64 + 1)).collect();
    let ones = vec![Scalar::ONE; n];
    let dirs: Vec<(&str, &Vec<Scalar>)> = vec![("ones", &ones), ("bits", &al), ("bits-1", &ar), ("2^i", &two), ("y^i", &yi), ("y^-i", &yinv), ("i+1", &idx)];
    // the blindings of A and S: A - <bits, G> - <bits-1, H'> = a_blinding*H is a point the witness gives away, and
    // e_blinding = a_blinding + x*s_blinding is public: if the two blindings are related by a small factor (equal,
    // negated, doubled, one of them zero) a_blinding follows from e_blinding and the point confirms it
    {
        use curve25519_dalek::{ristretto::{CompressedRistretto, RistrettoPoint}, traits::Identity};
        use sha3::{digest::{ExtendableOutput, Update, XofReader}, Shake256};
        let chain = |label: &[u8]| -> Vec<RistrettoPoint> {
            let mut sh = Shake256::default();
            sh.update(b"GeneratorsChain"); sh.update(label);
            let mut rd = sh.finalize_xof();
            (0..n).map(|_| { let mut buf = [0u8; 64]; rd.read(&mut buf); RistrettoPoint::from_uniform_bytes(&buf) }).collect()
        };
        let (gv, hv) = (chain(b"G"), chain(b"H"));
        let hb = *solana_zk_sdk::encryption::pedersen::H;
        if let Some(a_pt) = CompressedRistretto::from_slice(&b[264..296]).ok().and_then(|c| c.decompress()) {
            let mut pa = a_pt;
            for i in 0..n { if al[i] == Scalar::ONE { pa -= gv[i]; } else { pa += hv[i]; } }
            let eb = fld(264 + 6 * 32)?;
            if pa == RistrettoPoint::identity() { return Some("related-blindings:a=0".into()); }
            if eb * hb == pa { return Some("related-blindings:s=0".into()); }
            for k in [1i64, -1, 2, -2] {
                let ks = if k > 0 { Scalar::from(k as u64) } else { -Scalar::from((-k) as u64) };
                // s = k*a  =>  e = a*(1 + k*x) ;  a = k*s  =>  e = s*(k + x), a = k*e/(k + x)
                let d1 = Scalar::ONE + ks * x;
                if d1 != Scalar::ZERO && (eb * d1.invert()) * hb == pa { return Some(format!("related-blindings:s={}*a", k)); }
                let d2 = ks + x;
                if d2 != Scalar::ZERO && (ks * eb * d2.invert()) * hb == pa { return Some(format!("related-blindings:a={}*s", k)); }
            }
        }
    }
    let a0: Scalar = (0..n).map(|i| e[i] * (al[i] - z)).sum();
    let b0: Scalar = (0..n).map(|i| einv[i] * (yi[i] * (ar[i] + z) + zz[i])).sum();
    for (nu, u) in dirs.iter() {
        let eu: Scalar = (0..n).map(|i| e[i] * u[i]).sum::<Scalar>() * x;
        if eu == Scalar::ZERO { continue; }
        let sl = (ia - a0) * eu.invert();
        for (nv, v) in dirs.iter() {
            let ev: Scalar = (0..n).map(|i| einv[i] * yi[i] * v[i]).sum::<Scalar>() * x;
            if ev == Scalar::ZERO { continue; }
            let sr = (ib - b0) * ev.invert();
            let t: Scalar = (0..n).map(|i| (al[i] - z + sl * u[i] * x) * (yi[i] * (ar[i] + z + sr * v[i] * x) + zz[i])).sum();
            if t == t_x { return Some(format!("degenerate-mask-vectors:{}/{}", nu, nv)); }
        }
    }
    None
}

/// offsets (relative to the start of the proof) of the fields that must be fresh on every call
fn fresh_fields(instr: &str) -> Vec<usize> {
    match instr {
        "zero" => vec![0, 32, 64],
        "pubkey" => vec![0, 32],
        "ctct" => (0..7).map(|i| 32 * i).collect(),
        "ctcmt" => (0..6).map(|i| 32 * i).collect(),
        "val2" | "bval2" => (0..5).map(|i| 32 * i).collect(),
        "val3" | "bval3" => (0..6).map(|i| 32 * i).collect(),
        "cap" => (0..8).map(|i| 32 * i).collect(),
        _ => (0..7).map(|i| 32 * i).collect(), // range: A S T1 T2 t_x t_x_blinding e_blinding
    }
}

/// `samples[call]` = list of (position name, bytes); reports the first repeated value
fn check(samples: Vec<Vec<(String, Vec<u8>)>>) -> String {
    let mut seen: HashMap<Vec<u8>, String> = HashMap::new();
    for (call, fields) in samples.iter().enumerate() {
        for (name, v) in fields {
            if v.iter().all(|b| *b == 0) {
                continue; // the identity / zero value is a legitimate constant (identity auditor key)
            }
            if let Some(prev) = seen.get(v) {
                return format!("repeat:{}@{}={}", name, call, prev);
            }
            seen.insert(v.clone(), format!("{}@{}", name, call));
        }
    }
    "distinct".into()
}

/// "nonce is public" detector for one freshly produced sigma proof: no masking commitment (a point of the
/// proof) may be `s * B` for a base `B` among G, H and the points of the statement / proof and a scalar `s`
/// that anyone can compute from the instruction bytes: a proof scalar, a Fiat-Shamir challenge (recorded by the
/// verif-hooks instrumentation while verifying the proof), or the sum / difference of two of those.
fn public_nonce(instr: &str, bytes: &[u8]) -> Option<String> {
    use curve25519_dalek::{constants::RISTRETTO_BASEPOINT_POINT as G, ristretto::CompressedRistretto, scalar::Scalar, traits::IsIdentity};
    let cl = ctx_len(instr);
    let h = *solana_zk_sdk::encryption::pedersen::H;
    let chunk = |o: usize| -> [u8; 32] { bytes[o..o + 32].try_into().unwrap() };
    // challenges: verify the proof once with the hook on
    let _ = crate::sigma::take_trace();
    let out = crate::sigma::op_verify(&[instr, &hex(bytes)]);
    let mut scalars: Vec<Scalar> = out.split(" ~").nth(1).unwrap_or("").split(',')
        .filter_map(|kv| kv.split('=').nth(1)).filter_map(|h| unhex(h)).filter_map(|b| arr::<32>(&b))
        .map(Scalar::from_bytes_mod_order).collect();
    let mut bases = vec![G, h];
    let mut off = 0;
    while off + 32 <= bytes.len() {
        if instr == "cap" && off == 96 { off += 8; continue; }
        let c = chunk(off);
        if let Some(p) = CompressedRistretto(c).decompress() { if !p.is_identity() { bases.push(p); } }
        if off >= cl { if let Some(s) = Option::<Scalar>::from(Scalar::from_canonical_bytes(c)) { scalars.push(s); } }
        off += 32;
    }
    let base_scalars = scalars.clone();
    for a in base_scalars.iter() { for b in base_scalars.iter() { scalars.push(a - b); scalars.push(a + b); } }
    scalars.retain(|s| *s != Scalar::ZERO);
    let mut off = cl;
    while off + 32 <= bytes.len() {
        if let Some(y) = CompressedRistretto(chunk(off)).decompress() {
            if !y.is_identity() {
                for (bi, b) in bases.iter().enumerate() {
                    if *b == y { continue; }
                    for s in scalars.iter() {
                        if s * b == y { return Some(format!("public-nonce:proof+{}=scalar*base{}", off - cl, bi)); }
                    }
                }
            }
        }
        off += 32;
    }
    None
}

/// Recover the prover's nonces from one fresh proof, using the witness the op was built from and the
/// challenges recorded while verifying it: for a real branch `y = z - c*witness`; for a simulated branch the
/// randomly drawn responses / sub-challenge themselves. Every one of them must be a fresh, non-zero draw.
fn recovered_nonces(instr: &str, args: &[&str], bytes: &[u8]) -> Option<Vec<(String, Vec<u8>)>> {
    use curve25519_dalek::scalar::Scalar;
    let cl = ctx_len(instr);
    let sc_at = |o: usize| -> Option<Scalar> { Option::<Scalar>::from(Scalar::from_canonical_bytes(bytes[cl + o..cl + o + 32].try_into().ok()?)) };
    let _ = crate::sigma::take_trace();
    let out = crate::sigma::op_verify(&[instr, &hex(bytes)]);
    let mut tr = std::collections::HashMap::new();
    for kv in out.split(" ~").nth(1).unwrap_or("").split(',') {
        let mut it = kv.split('=');
        if let (Some(k), Some(v)) = (it.next(), it.next()) {
            if let Some(b) = unhex(v).and_then(|b| arr::<32>(&b)) { tr.insert(k.to_string(), Scalar::from_bytes_mod_order(b)); }
        }
    }
    let c = *tr.get("c")?;
    let sc = |i: usize| -> Option<Scalar> { scalar(args.get(i)?) };
    let amt = |i: usize| -> Option<Scalar> { Some(Scalar::from(args.get(i)?.parse::<u64>().ok()?)) };
    let mut v: Vec<(&str, Scalar)> = vec![];
    match instr {
        "zero" => v.push(("y", sc_at(64)? - c * sc(0)?)),
        "pubkey" => v.push(("y", sc_at(32)? - c * sc(0)?.invert())),
        "ctct" => { v.push(("y_s", sc_at(128)? - c * sc(0)?)); v.push(("y_x", sc_at(160)? - c * amt(8)?)); v.push(("y_r", sc_at(192)? - c * sc(7)?)); }
        "ctcmt" => { v.push(("y_s", sc_at(96)? - c * sc(0)?)); v.push(("y_x", sc_at(128)? - c * amt(6)?)); v.push(("y_r", sc_at(160)? - c * sc(5)?)); }
        "val2" | "val3" => {
            let n = if instr == "val3" { 3 } else { 2 };
            let (ai, ri) = if n == 3 { (7, 8) } else { (5, 6) };
            v.push(("y_r", sc_at(32 * (n + 1))? - c * sc(ri)?));
            v.push(("y_x", sc_at(32 * (n + 1) + 32)? - c * amt(ai)?));
        }
        "bval2" | "bval3" => {
            let n = if instr == "bval3" { 3 } else { 2 };
            let t = *tr.get("t")?;
            let (al, ah, rl, rh) = if n == 3 { (11, 12, 13, 14) } else { (8, 9, 10, 11) };
            v.push(("y_r", sc_at(32 * (n + 1))? - c * (sc(rl)? + t * sc(rh)?)));
            v.push(("y_x", sc_at(32 * (n + 1) + 32)? - c * (amt(al)? + t * amt(ah)?)));
        }
        "cap" => {
            let (mx, pct): (u64, u64) = (args.get(3)?.parse().ok()?, args.get(4)?.parse().ok()?);
            let (z_max, c_max, z_x, z_d, z_c) = (sc_at(32)?, sc_at(64)?, sc_at(160)?, sc_at(192)?, sc_at(224)?);
            let c_eq = c - c_max;
            if pct < mx {
                let _ = z_max; // simulated z_max, c_max are proof fields already compared
                v.push(("y_x", z_x - c_eq * amt(5)?)); v.push(("y_delta", z_d - c_eq * sc(7)?)); v.push(("y_claimed", z_c - c_eq * sc(8)?));
            } else {
                v.push(("y_max", z_max - c_max * sc(6)?));
                let _ = (z_x, z_d, z_c); // simulated responses are proof fields already compared
                v.push(("sim_c_eq", c_eq));
            }
        }
        _ => return None,
    }
    Some(v.into_iter().map(|(n, s)| (format!("nonce:{}", n), s.to_bytes().to_vec())).collect())
}

/// one call of the randomized entry point `what` on `args`: the values that must never repeat
fn sample(what: &str, args: &[&str], first: bool) -> Result<Vec<(String, Vec<u8>)>, String> {
    let fields: Vec<(String, Vec<u8>)> = match what {
            "keygen" => {
                let k = ElGamalKeypair::new_rand();
                vec![("secret".into(), k.secret().as_bytes().to_vec()), ("public".into(), k.pubkey().to_bytes().to_vec())]
            }
            "aekeygen" => vec![("key".into(), <[u8; 16]>::from(AeKey::new_rand()).to_vec())],
            "opening" => vec![("opening".into(), PedersenOpening::new_rand().to_bytes().to_vec())],
            "pedersen" => {
                let Some(x) = args.first().and_then(|s| s.parse::<u64>().ok()) else { return Err("bad-op".into()) };
                let (c, o) = Pedersen::new(x);
                vec![("commitment".into(), c.to_bytes().to_vec()), ("opening".into(), o.to_bytes().to_vec())]
            }
            "enc" => {
                let (Some(p), Some(x)) = (args.first().and_then(|s| pubkey(s)), args.get(1).and_then(|s| s.parse::<u64>().ok())) else { return Err("bad-op".into()) };
                let ct = p.encrypt(x).to_bytes();
                vec![("commitment".into(), ct[..32].to_vec()), ("handle".into(), ct[32..].to_vec())]
            }
            "encu64" => {
                let (Some(p), Some(x)) = (args.first().and_then(|s| pubkey(s)), args.get(1).and_then(|s| s.parse::<u64>().ok())) else { return Err("bad-op".into()) };
                let ct = p.encrypt_u64(x).to_bytes();
                vec![("commitment".into(), ct[..32].to_vec()), ("handle".into(), ct[32..].to_vec())]
            }
            "seckeygen" => vec![("secret".into(), solana_zk_sdk::encryption::elgamal::ElGamalSecretKey::new_rand().as_bytes().to_vec())],
            "genc" => {
                let Some(x) = args.first().and_then(|s| s.parse::<u64>().ok()) else { return Err("bad-op".into()) };
                let ks: Option<Vec<_>> = args[1..].iter().map(|k| pubkey(k)).collect();
                let Some(ks) = ks else { return Err("bad-op".into()) };
                let b = match ks.len() {
                    0 => GroupedElGamal::<0>::encrypt([], x).to_bytes(),
                    1 => GroupedElGamal::<1>::encrypt([&ks[0]], x).to_bytes(),
                    2 => GroupedElGamal::<2>::encrypt([&ks[0], &ks[1]], x).to_bytes(),
                    3 => GroupedElGamal::<3>::encrypt([&ks[0], &ks[1], &ks[2]], x).to_bytes(),
                    _ => return Err("bad-op".into()),
                };
                b.chunks(32).enumerate().map(|(i, c)| (format!("gct{}", i), c.to_vec())).collect()
            }
            "ae" => {
                let (Some(k), Some(x)) = (args.first().and_then(|s| unhex(s)), args.get(1).and_then(|s| s.parse::<u64>().ok())) else { return Err("bad-op".into()) };
                let Ok(k) = AeKey::try_from(k.as_slice()) else { return Err("bad-op".into()) };
                let ct = k.encrypt(x).to_bytes();
                vec![("nonce".into(), ct[..12].to_vec()), ("ciphertext".into(), ct[12..].to_vec())]
            }
            w if w.starts_with("range") => {
                let mut av = vec![&w[5..]];
                av.extend(args.iter());
                let Some(Ok(b)) = crate::range::construct(&av) else { return Err("bad-op".into()) };
                if let Some(leak) = degenerate_masks(w, &av, &b) { return Err(leak); }
                fresh_fields(w).iter().map(|o| (format!("proof+{}", o), b[264 + o..264 + o + 32].to_vec())).collect()
            }
            instr => {
                let Some(Ok(b)) = construct(instr, args) else { return Err("bad-op".into()) };
                if first {
                    if let Some(leak) = public_nonce(instr, &b) { return Err(leak); }
                }
                let cl = ctx_len(instr);
                let mut f: Vec<(String, Vec<u8>)> = fresh_fields(instr).iter().map(|o| (format!("proof+{}", o), b[cl + o..cl + o + 32].to_vec())).collect();
                // the nonces themselves (recovered with the witness): each position fresh, none zero
                match recovered_nonces(instr, args, &b) {
                    Some(ns) => {
                        if let Some((n, _)) = ns.iter().find(|(_, v)| v.iter().all(|x| *x == 0)) { return Err(format!("zero-nonce:{}", n)); }
                        // a masking nonce is a uniform scalar: one whose top 16 bytes (or bottom 16 bytes) are all zero is
                        // not (probability 2^-124 per nonce); a short nonce lets the witness be read off the response
                        if let Some((n, _)) = ns.iter().find(|(_, v)| v.len() == 32 && (v[16..].iter().all(|x| *x == 0) || v[..16].iter().all(|x| *x == 0))) { return Err(format!("short-nonce:{}", n)); }
                        f.extend(ns);
                    }
                    None => return Err("nonce-recovery-failed".into()),
                }
                f
            }
        };
    Ok(fields)
}

pub fn op_fresh(a: &[&str]) -> String {
    let Some((what, rest)) = a.split_first() else { return "bad-op".into() };
    let Some((count, args)) = rest.split_last() else { return "bad-op".into() };
    let Ok(count) = count.parse::<usize>() else { return "bad-op".into() };
    let mut samples = vec![];
    for _ in 0..count {
        match sample(what, args, samples.is_empty()) {
            Ok(f) => samples.push(f),
            Err(e) => return e,
        }
    }
    // the first calls made on freshly started threads: nothing may repeat across threads either
    let what_s = what.to_string();
    let args_s: Vec<String> = args.iter().map(|x| x.to_string()).collect();
    let handles: Vec<_> = (0..3).map(|_| {
        let (w, a) = (what_s.clone(), args_s.clone());
        std::thread::spawn(move || {
            let av: Vec<&str> = a.iter().map(|x| x.as_str()).collect();
            (0..2).map(|_| sample(&w, &av, false)).collect::<Vec<_>>()
        })
    }).collect();
    for h in handles {
        match h.join() {
            Ok(v) => for r in v { match r { Ok(f) => samples.push(f), Err(e) => return e } },
            Err(_) => return "P".into(),
        }
    }
    // a duplicated process image (fork, snapshot restore): randomness buffered in user space would be handed out twice.
    // The child makes two calls and sends what they produced through a pipe; the parent makes two calls of its own.
    // Repeated at six consecutive positions of this thread's call history, so that every fill level of a buffer is met.
    for _phase in 0..6 {
        match forked_samples(&what_s, &args_s) {
            Some(child) => {
                let av: Vec<&str> = args_s.iter().map(|x| x.as_str()).collect();
                match sample(&what_s, &av, false) { Ok(f) => samples.push(f), Err(e) => return e }
                samples.extend(child);
            }
            None => return "fork-failed".into(),
        }
    }
    check(samples)
}

extern "C" {
    fn fork() -> i32;
    fn pipe(fds: *mut i32) -> i32;
    fn read(fd: i32, buf: *mut u8, n: usize) -> isize;
    fn write(fd: i32, buf: *const u8, n: usize) -> isize;
    fn close(fd: i32) -> i32;
    fn waitpid(pid: i32, status: *mut i32, options: i32) -> i32;
    fn _exit(code: i32) -> !;
}

/// two samples made by a forked copy of this process (encoded as `name=hex;…` lines)
fn forked_samples(what: &str, args: &[String]) -> Option<Vec<Vec<(String, Vec<u8>)>>> {
    let mut fds = [0i32; 2];
    if unsafe { pipe(fds.as_mut_ptr()) } != 0 { return None; }
    let pid = unsafe { fork() };
    if pid < 0 { return None; }
    if pid == 0 {
        // child
        let av: Vec<&str> = args.iter().map(|x| x.as_str()).collect();
        let mut text = String::new();
        for _ in 0..1 {
            if let Ok(f) = sample(what, &av, false) {
                text.push_str(&f.iter().map(|(n, v)| format!("{}={}", n, hex(v))).collect::<Vec<_>>().join(";"));
            }
            text.push('\n');
        }
        let b = text.as_bytes();
        let mut off = 0;
        while off < b.len() {
            let n = unsafe { write(fds[1], b.as_ptr().add(off), b.len() - off) };
            if n <= 0 { break; }
            off += n as usize;
        }
        unsafe { close(fds[1]); _exit(0) }
    }
    unsafe { close(fds[1]); }
    let mut data = vec![];
    let mut buf = [0u8; 65536];
    loop {
        let n = unsafe { read(fds[0], buf.as_mut_ptr(), buf.len()) };
        if n <= 0 { break; }
        data.extend_from_slice(&buf[..n as usize]);
    }
    unsafe { close(fds[0]); }
    let mut st = 0i32;
    unsafe { waitpid(pid, &mut st, 0); }
    let text = String::from_utf8(data).ok()?;
    let mut out = vec![];
    for line in text.lines() {
        if line.is_empty() { continue; }
        let fields: Vec<(String, Vec<u8>)> = line.split(';').filter_map(|kv| { let (k, v) = kv.split_once('=')?; Some((k.to_string(), unhex(v)?)) }).collect();
        out.push(fields);
    }
    if out.is_empty() { return None; }
    Some(out)
}

//! seeded generators of op lines, one family set per property
use crate::util::*;
use std::io::Write;

pub struct Out<'a> {
    pub w: &'a mut dyn Write,
    pub n: usize,
    pub prop: String,
}
impl<'a> Out<'a> {
    /// emit one op line; `fam` is the generator family (kept in the id for the evidence histogram)
    pub fn op(&mut self, fam: &str, body: &str) {
        self.n += 1;
        writeln!(self.w, "{}.{}.{} {}", self.prop, fam, self.n, body).unwrap();
    }
    /// same, with a theorem-backed expectation `exp` that both sides must meet
    pub fn op_exp(&mut self, fam: &str, exp: &str, body: &str) {
        self.n += 1;
        writeln!(self.w, "{}.{}.{}!{} {}", self.prop, fam, self.n, exp, body).unwrap();
    }
}

const PT_SIZES: [(usize, usize, usize); 12] = [
    (1, 192, 96), (2, 416, 192), (3, 320, 128), (4, 96, 32), (5, 360, 104), (6, 936, 264),
    (7, 1000, 264), (8, 1064, 264), (9, 320, 160), (10, 416, 256), (11, 416, 224), (12, 544, 352),
];

fn gen_c15(o: &mut Out, tier: &str, seed: u64) {
    let mut r = Rng::new(seed, "c15");
    let reps = if tier == "thorough" { 8 } else { 1 };
    let offsets: [u64; 8] = [0, 1, 255, 256, 65535, 65536, (1 << 31), (1u64 << 32) - 1];
    for _ in 0..reps {
        // 13 variants x 12 proof-data types x with/without context state
        for vi in 0..13 {
            for (pti, dsz, _) in PT_SIZES {
                let data = r.bytes(dsz);
                let (a, b) = (r.bytes(32), r.bytes(32));
                o.op("verify.ctx", &format!("ix verify {} {} {} {} {}", vi, pti, hex(&data), hex(&a), hex(&b)));
                o.op("verify.noctx", &format!("ix verify {} {} {} - -", vi, pti, hex(&data)));
            }
            for off in offsets {
                let (pa, a, b) = (r.bytes(32), r.bytes(32), r.bytes(32));
                o.op("acct.ctx", &format!("ix acct {} {} {} {} {}", vi, hex(&pa), off, hex(&a), hex(&b)));
                o.op("acct.noctx", &format!("ix acct {} {} {} - -", vi, hex(&pa), off));
            }
            let off = r.u64() & 0xffff_ffff;
            o.op("acct.rand", &format!("ix acct {} {} {} - -", vi, hex(&r.bytes(32)), off));
        }
        o.op("close", &format!("ix close {} {} {}", hex(&r.bytes(32)), hex(&r.bytes(32)), hex(&r.bytes(32))));
        // coinciding addresses: every account keeps its own slot and flags (rent returned to the authority itself, …)
        let (x, y) = (r.bytes(32), r.bytes(32));
        let z = vec![0u8; 32];
        for (a, b, c) in [(&x, &x, &y), (&x, &y, &y), (&x, &y, &x), (&x, &x, &x), (&z, &z, &z), (&x, &z, &z)] {
            o.op("close.same-address", &format!("ix close {} {} {}", hex(a), hex(b), hex(c)));
        }
        // the all-zero address (the system program id) is an address like any other, in every slot
        for vi in [1usize, 7, 12] {
            let (pti, dsz, _) = PT_SIZES[vi % PT_SIZES.len()];
            let data = r.bytes(dsz);
            for (a, b) in [(&z, &y), (&x, &z), (&z, &z)] {
                o.op("verify.ctx.zero-address", &format!("ix verify {} {} {} {} {}", vi, pti, hex(&data), hex(a), hex(b)));
                o.op("acct.ctx.zero-address", &format!("ix acct {} {} {} {} {}", vi, hex(&x), 9, hex(a), hex(b)));
                o.op("acct.ctx.zero-address", &format!("ix acct {} {} {} {} {}", vi, hex(&z), 9, hex(a), hex(b)));
            }
            o.op("acct.noctx.zero-address", &format!("ix acct {} {} {} - -", vi, hex(&z), 9));
            for fill in [0xffu8, 0x01] {
                let f = vec![fill; 32];
                o.op("acct.ctx.constant-address", &format!("ix acct {} {} {} {} {}", vi, hex(&f), 9, hex(&f), hex(&f)));
                o.op("close.constant-address", &format!("ix close {} {} {}", hex(&f), hex(&f), hex(&f)));
            }
        }
        for vi in [0usize, 5, 12] {
            let (pti, dsz, _) = PT_SIZES[vi % PT_SIZES.len()];
            let data = r.bytes(dsz);
            o.op("verify.ctx.same-address", &format!("ix verify {} {} {} {} {}", vi, pti, hex(&data), hex(&x), hex(&x)));
            o.op("acct.ctx.same-address", &format!("ix acct {} {} {} {} {}", vi, hex(&x), 7, hex(&x), hex(&x)));
            o.op("acct.ctx.same-address", &format!("ix acct {} {} {} {} {}", vi, hex(&x), 7, hex(&x), hex(&y)));
            o.op("acct.ctx.same-address", &format!("ix acct {} {} {} {} {}", vi, hex(&x), 7, hex(&y), hex(&x)));
            o.op("acct.ctx.same-address", &format!("ix acct {} {} {} {} {}", vi, hex(&x), 7, hex(&y), hex(&y)));
        }
    }
    // every integer-to-variant entry point (u8 … i128) around the boundaries of every width
    for v in [-1i128, 0, 1, 12, 13, 14, 127, 128, 255, 256, 257, 268, 511, 512, 65535, 65536, 65537, 65548, (1 << 31) - 1, 1 << 31, (1i128 << 32) - 1,
              1 << 32, (1 << 32) + 1, (1 << 32) + 12, (1i128 << 63) - 1, 1 << 63, (1i128 << 64) - 1, 1 << 64, (1 << 64) + 5, -12, -13, -128, -129, -255, -256, -32768, -(1i128 << 31), -(1i128 << 63), i128::MAX, i128::MIN] {
        o.op("fromprim", &format!("ix fromprim {}", v));
    }
    // decoders on arbitrary data: every first byte, lengths around each nominal size
    for b in 0..=255u32 {
        let mut d = vec![b as u8];
        d.extend(r.bytes((b % 7) as usize));
        o.op("type", &format!("ix type {}", hex(&d)));
    }
    o.op("type", "ix type -");
    ix_data_lengths(o, &mut r);
}

/// the raw-byte decoder of every proof-data struct (`ProofInstruction::proof_data`) on inputs of the nominal length
/// (discriminator byte + payload) and around it, also whole multiples of the payload size: only the exact length decodes
/// (shared by C15, C12 and C07: an accepted instruction followed by more bytes is another instruction)
pub fn ix_data_lengths(o: &mut Out, r: &mut Rng) {
    for (pti, dsz, _) in PT_SIZES {
        for len in [0usize, 1, 2, dsz - 1, dsz, dsz + 1, dsz + 2, 2 * dsz, 2 * dsz + 1, 2 * dsz + 2, 3 * dsz + 1, dsz + 33] {
            let d = r.bytes(len);
            o.op("data", &format!("ix data {} {}", pti, hex(&d)));
        }
    }
}

fn gen_c16(o: &mut Out, tier: &str, seed: u64) {
    let mut r = Rng::new(seed, "c16");
    let reps = if tier == "thorough" { 16 } else { 2 };
    // the generic encoder with context types of other alignments (a downstream proof type may have one)
    for (kind, sz) in [("u64", 8usize), ("u32x3", 12), ("u16x5", 10), ("u8x7", 7), ("u128", 16)] {
        for tb in [0usize, 1, 12] {
            o.op("encode.generic-context", &format!("state encodeg {} {} {} {}", kind, hex(&r.bytes(32)), tb, hex(&r.bytes(sz))));
        }
    }
    for b in 0..=255u32 {
        o.op("ptype", &format!("state ptype {}", b));
    }
    for _ in 0..reps {
        for (pti, _, csz) in PT_SIZES {
            for tb in 0..13 {
                let auth = r.bytes(32);
                let ctx = r.bytes(csz);
                o.op("encode", &format!("state encode {} {} {} {}", pti, hex(&auth), tb, hex(&ctx)));
            }
            let nominal = 33 + csz;
            for len in [0usize, 1, 32, 33, 34, nominal - 1, nominal, nominal + 1, 2 * nominal, 2 * nominal - 1, 3 * nominal, nominal + 33, 66] {
                let mut d = r.bytes(len);
                if len > 32 && r.below(2) == 0 {
                    d[32] = r.below(14) as u8;
                }
                o.op("decode", &format!("state decode {} {}", pti, hex(&d)));
                o.op("meta", &format!("state meta {}", hex(&d)));
            }
        }
    }
}

/// C17: the numeric values the TypeScript client declares, sent through the SDK's own readers and writers: every
/// proof-type byte read back, a state of every proof type written and read (typed and header), every
/// discriminator byte classified
fn gen_c17(o: &mut Out, _tier: &str, seed: u64) {
    let mut r = Rng::new(seed, "c17");
    for b in 0..=255u32 {
        o.op("ptype", &format!("state ptype {}", b));
        o.op("type", &format!("ix type {}", hex(&[b as u8])));
    }
    for (pti, _, csz) in PT_SIZES {
        for tb in 0..13 {
            let (auth, ctx) = (r.bytes(32), r.bytes(csz));
            o.op("encode", &format!("state encode {} {} {} {}", pti, hex(&auth), tb, hex(&ctx)));
            // the account as the client lays it out (authority, type number, context) read through the SDK's typed
            // reader and its header reader: the fields come back where the client put them
            let mut acct = auth.clone(); acct.push(tb as u8); acct.extend(&ctx);
            o.op("client-layout.typed-read", &format!("state decode {} {}", pti, hex(&acct)));
            o.op("client-layout.header-read", &format!("state meta {}", hex(&acct)));
        }
        // a zeroed account of the declared size (allocated, not yet written): reads as Uninitialized
        let z = vec![0u8; 33 + csz];
        o.op("zeroed-account", &format!("state decode {} {}", pti, hex(&z)));
        o.op("zeroed-account", &format!("state meta {}", hex(&z)));
    }
}

/// C06: every honest statement of all twelve instructions, proved by the Rust prover and by the
/// model prover, verified by both verifiers; the two Pedersen generators byte-compared
fn gen_c06(o: &mut Out, tier: &str, seed: u64) {
    // the generators G and H as `with(1,0)` and `with(0,1)`
    let one = "0100000000000000000000000000000000000000000000000000000000000000";
    let zero = "0000000000000000000000000000000000000000000000000000000000000000";
    o.op("generator.G", &format!("elg with {} {}", one, zero));
    o.op("generator.H", &format!("elg with {} {}", zero, one));
    crate::gen_sigma::gen_c05(o, tier, seed ^ 0x6);
    crate::gen_range::gen_range_new(o, tier, seed ^ 0x6, true);
    crate::gen_range::gen_c06_range(o, tier, seed ^ 0x6);
}

pub fn generate(prop: &str, tier: &str, seed: u64, w: &mut dyn Write) {
    let mut o = Out { w, n: 0, prop: prop.to_string() };
    match prop {
        "C15" => gen_c15(&mut o, tier, seed),
        "C16" => gen_c16(&mut o, tier, seed),
        "C17" => gen_c17(&mut o, tier, seed),
        "C01" => crate::gen_sigma::gen_c01(&mut o, tier, seed),
        "C02" => crate::gen_sigma::gen_c02(&mut o, tier, seed),
        "C03" => crate::gen_sigma::gen_c03(&mut o, tier, seed),
        "C04" => crate::gen_range::gen_c04(&mut o, tier, seed),
        "C05" => { crate::gen_sigma::gen_c05(&mut o, tier, seed); crate::gen_range::gen_range_new(&mut o, tier, seed, true) }
        "C06" => gen_c06(&mut o, tier, seed),
        "C07" => crate::gen_bind::gen_c07(&mut o, tier, seed),
        "C08" => crate::gen_enc::gen_c08(&mut o, tier, seed),
        "C09" => crate::gen_enc::gen_c09(&mut o, tier, seed),
        "C10" => crate::gen_enc::gen_c10(&mut o, tier, seed),
        "C11" => crate::gen_enc::gen_c11(&mut o, tier, seed),
        "C12" => crate::gen_enc::gen_c12(&mut o, tier, seed),
        "C13" => crate::gen_enc::gen_c13(&mut o, tier, seed),
        "C14" => crate::gen_enc::gen_c14(&mut o, tier, seed),
        "C18" => crate::gen_enc::gen_c18(&mut o, tier, seed),
        "C19" => crate::gen_sigma::gen_c19(&mut o, tier, seed),
        "C20" => { crate::gen_sigma::gen_c20(&mut o, tier, seed); crate::gen_range::gen_range_new(&mut o, tier, seed, false) }
        _ => {}
    }
}

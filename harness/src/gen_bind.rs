//! generator for C07: every accepted instance x bit flips, proof transplants, substituted statements
use crate::gen::Out;
use crate::gen_sigma::*;
use crate::sigma::*;
use crate::util::*;
use curve25519_dalek::scalar::Scalar;
use solana_zk_sdk::encryption::pedersen::H;

fn instance(r: &mut Rng, instr: &str) -> Option<Vec<u8>> {
    let a = amount(r);
    let wit = match instr {
        "zero" => zero_st(r, &Scalar::ZERO).wit(),
        "pubkey" => { let k = kp(r); format!("{} {}", hs(&k.s), hp(&k.p)) }
        "ctct" => ctct_st(r, a, a).wit(),
        "ctcmt" => ctcmt_st(r, a, a).wit(),
        "val2" => val_st(r, 2, a, None).wit(),
        "val3" => val_st(r, 3, a, None).wit(),
        "bval2" => bval_st(r, 2, a, 7, None).wit(),
        "bval3" => bval_st(r, 3, a, 7, None).wit(),
        "cap" => cap_below(r, 2, 5, 9).wit(),
        "cap-at" => cap_at(r, 1_000_000, 400, 3, 7).wit(),
        // keys that are the generator H or its negative (secret 1 and l-1), as destination / auditor / own key:
        // the statement is honest, but its points are related to the fixed generators of the scheme
        "ctct-keyH" | "ctct-keynegH" => {
            let sk = if instr.ends_with("negH") { -Scalar::ONE } else { Scalar::ONE };
            let mut st = ctct_st(r, a, a);
            st.k2 = Kp { s: sk, p: sk.invert() * *H };
            st.d2 = st.r * st.k2.p;
            st.wit()
        }
        "ctct-ownnegH" => {
            let sk = -Scalar::ONE;
            let mut st = ctct_st(r, a, a);
            st.k1 = Kp { s: sk, p: sk.invert() * *H };
            let o1 = rand_scalar(r);
            st.c1 = commit(&Scalar::from(a), &o1); st.d1 = o1 * st.k1.p;
            st.wit()
        }
        "ctcmt-keynegH" | "zero-keynegH" | "pubkey-keynegH" | "pubkey-keyH" => {
            let sk = if instr.ends_with("negH") { -Scalar::ONE } else { Scalar::ONE };
            let k = Kp { s: sk, p: sk.invert() * *H };
            let o1 = rand_scalar(r);
            if instr.starts_with("ctcmt") {
                let mut st = ctcmt_st(r, a, a);
                st.c = commit(&Scalar::from(a), &o1); st.d = o1 * k.p; st.k = k;
                st.wit()
            } else if instr.starts_with("zero") {
                format!("{} {} {} {}", hs(&k.s), hp(&k.p), hp(&(o1 * *H)), hp(&(o1 * k.p)))
            } else {
                format!("{} {}", hs(&k.s), hp(&k.p))
            }
        }
        "val2-keynegH" | "val3-keynegH" | "bval2-keynegH" | "bval3-keynegH" => {
            let n = if instr.contains('3') { 3 } else { 2 };
            let mut ps: Vec<curve25519_dalek::ristretto::RistrettoPoint> = (0..n).map(|_| kp(r).p).collect();
            ps[0] = -*H; ps[n - 1] = *H;
            if instr.starts_with('b') { bval_st(r, n, a, 7, Some(ps)).wit() } else { val_st(r, n, a, Some(ps)).wit() }
        }
        // statement fields that coincide: the commitment is the ciphertext's own commitment (one opening for both);
        // both ciphertexts share the commitment / the key / everything; lo and hi halves are the same ciphertext;
        // delta and claimed commitments are the same point
        "ctcmt-shared" => {
            let k = kp(r); let o1 = rand_scalar(r);
            let c = commit(&Scalar::from(a), &o1);
            CtCmt { c, d: o1 * k.p, cm: c, r: o1, amt: a, k }.wit()
        }
        "ctct-shared" | "ctct-samekey" | "ctct-same" => {
            let mut st = ctct_st(r, a, a);
            if instr != "ctct-shared" { st.k2 = Kp { s: st.k1.s, p: st.k1.p }; st.d2 = st.r * st.k2.p; }
            if instr != "ctct-samekey" {
                // second ciphertext re-made with the first one's opening (recovered from nothing: make both afresh)
                let o1 = rand_scalar(r);
                st.c1 = commit(&Scalar::from(a), &o1); st.d1 = o1 * st.k1.p;
                st.c2 = st.c1; st.d2 = o1 * st.k2.p; st.r = o1;
            }
            st.wit()
        }
        "bval2-samehalves" | "bval3-samehalves" => {
            let n = if instr.contains('3') { 3 } else { 2 };
            let lo = val_st(r, n, a, None);
            let hi = Val { ps: lo.ps.clone(), c: lo.c, ds: lo.ds.clone(), r: lo.r, amt: lo.amt };
            BVal { lo, hi }.wit()
        }
        "cap-sameclaimed" => {
            let mut s = cap_below(r, 2, 5, 9);
            s.rc = s.rd; s.cc = s.cd;
            s.wit()
        }
        // at the cap with the zero opening: the percentage commitment is max*G for everyone to see
        "cap-atzero" => cap_at_rp(r, 1_000_000, 400, 3, 7, Scalar::ZERO).wit(),
        // the permitted "no auditor" case: last key (and so the last handle) is the identity
        "val2-noaud" | "val3-noaud" | "bval2-noaud" | "bval3-noaud" => {
            let n = if instr.contains('3') { 3 } else { 2 };
            let mut ps: Vec<curve25519_dalek::ristretto::RistrettoPoint> = (0..n).map(|_| kp(r).p).collect();
            ps[n - 1] = curve25519_dalek::traits::Identity::identity();
            if instr.starts_with('b') { bval_st(r, n, a, 7, Some(ps)).wit() } else { val_st(r, n, a, Some(ps)).wit() }
        }
        _ => return None,
    };
    let av: Vec<&str> = wit.split_whitespace().collect();
    let base = instr.split('-').next().unwrap_or(instr);
    match construct(base, &av) { Some(Ok(b)) => Some(b), _ => None }
}

fn range_instance(r: &mut Rng, w: usize) -> Option<Vec<u8>> {
    let bls: Vec<usize> = match w { 64 => vec![16, 16, 32], 128 => vec![64, 32, 32], _ => vec![64, 64, 64, 32, 32] };
    let amounts: Vec<u64> = bls.iter().map(|n| r.u64() & (if *n >= 64 { u64::MAX } else { (1u64 << n) - 1 })).collect();
    let opens: Vec<Scalar> = bls.iter().map(|_| rand_scalar(r)).collect();
    let comms: Vec<String> = amounts.iter().zip(opens.iter()).map(|(a, o)| hp(&commit(&Scalar::from(*a), o))).collect();
    let j = |v: Vec<String>| v.join(",");
    let a = format!("{} {} {} {} {}", w, j(comms), j(amounts.iter().map(|x| x.to_string()).collect()), j(bls.iter().map(|x| x.to_string()).collect()), j(opens.iter().map(hs).collect()));
    let av: Vec<&str> = a.split_whitespace().collect();
    match crate::range::construct(&av) { Some(Ok(b)) => Some(b), _ => None }
}

/// bit positions to flip: all of them (thorough) or, per 32-byte field, all bits of the first and
/// last byte plus one seeded bit of every other byte; trailing non-32 bytes: all bits
fn positions(r: &mut Rng, len: usize, all: bool, sparse: bool) -> Vec<usize> {
    if all { return (0..len * 8).collect(); }
    let mut v = vec![];
    let nf = len / 32;
    for f in 0..nf {
        for byte in 0..32 {
            let base = (32 * f + byte) * 8;
            if sparse {
                if byte == 0 { v.push(base); v.push(base + r.below(8) as usize); }
                if byte == 31 { v.push(base + 7); v.push(base + r.below(7) as usize); }
                if byte == 15 { v.push(base + r.below(8) as usize); }
            } else if byte == 0 || byte == 31 { for b in 0..8 { v.push(base + b); } }
            else { v.push(base + r.below(8) as usize); }
        }
    }
    for bit in (nf * 32 * 8)..(len * 8) { v.push(bit); }
    v.sort(); v.dedup();
    v
}

/// sequences of verifications in one process (see the comments inside): shared by C01, C02, C03 and C07
pub fn gen_sequences(o: &mut Out, r: &mut Rng, instrs: &[&str], with_range: bool) {
    // verifications in one process, one after the other: a rejected instruction (undecodable point, non-canonical
    // scalar, changed statement) in between leaves nothing behind; also across instructions
    {
        let mut prev: Option<(String, String)> = None;
        for instr in instrs.iter().copied() {
            let Some(b) = instance(r, instr) else { continue };
            let cl = ctx_len(instr);
            let h = hex(&b);
            let tok = |x: &[u8]| format!("{}:{}", instr, hex(x));
            let mut seq = vec![tok(&b)];
            for (off, fill) in [(b.len() - 32, 0xffu8), (cl, 0xff), (0, 0xff), (cl, 0x00), (b.len() - 32, 0x00)] {
                let mut m = b.clone();
                for x in m[off..off + 32].iter_mut() { *x = fill; }
                seq.push(tok(&m)); seq.push(tok(&b));
                // the refused input again, verbatim, twice more (a refusal is not remembered in its favour)
                seq.push(tok(&m)); seq.push(tok(&m)); seq.push(tok(&b));
            }
            if let Some((pi, ph)) = &prev { seq.push(format!("{}:{}", pi, ph)); seq.push(tok(&b)); }
            o.op(&format!("{}.sequence", instr), &format!("vseq {}", seq.join(" ")));
            // every 32-byte field in turn made undecodable, the refused input presented twice in a row, honest
            // verifications before and after (whatever is remembered between calls is remembered per field)
            let mut seq = vec![tok(&b)];
            for f in 0..(b.len() / 32) {
                let mut m = b.clone();
                for x in m[32 * f..32 * f + 32].iter_mut() { *x = 0xff; }
                seq.push(tok(&m)); seq.push(tok(&m)); seq.push(tok(&b));
            }
            o.op(&format!("{}.sequence-every-field", instr), &format!("vseq {}", seq.join(" ")));
            prev = Some((instr.to_string(), h));
        }
        if let (Some(b), Some((pi, ph))) = ((if with_range { range_instance(r, 64) } else { None }), &prev) {
            let tok = |x: &[u8]| format!("range64:{}", hex(x));
            let mut seq = vec![tok(&b)];
            for off in [264usize, 264 + 64, 264 + 128, 264 + 224, b.len() - 32, 0] {
                let mut m = b.clone();
                for x in m[off..off + 32].iter_mut() { *x = 0xff; }
                seq.push(tok(&m)); seq.push(tok(&b));
                seq.push(tok(&m)); seq.push(tok(&m)); seq.push(tok(&b));
            }
            seq.push(format!("{}:{}", pi, ph)); seq.push(tok(&b));
            o.op("range64.sequence", &format!("vseq {}", seq.join(" ")));
        }
    }
}

pub fn gen_c07(o: &mut Out, tier: &str, seed: u64) {
    let mut r = Rng::new(seed, "c07");
    let th = tier == "thorough";
    let n_inst = if th { 4 } else { 1 };
    let sig = ["zero", "pubkey", "ctct", "ctcmt", "val2", "val3", "bval2", "bval3", "cap",
               "val2-noaud", "val3-noaud", "bval2-noaud", "bval3-noaud", "cap-at", "cap-atzero",
               "ctct-keyH", "ctct-keynegH", "ctct-ownnegH", "ctcmt-keynegH", "zero-keynegH", "pubkey-keynegH", "pubkey-keyH",
               "val2-keynegH", "val3-keynegH", "bval2-keynegH", "bval3-keynegH",
               "ctcmt-shared", "ctct-shared", "ctct-samekey", "ctct-same", "bval2-samehalves", "bval3-samehalves", "cap-sameclaimed"];
    for variant in sig {
        let instr = variant.split('-').next().unwrap_or(variant);
        let special = variant != instr;
        for k in 0..n_inst {
            let Some(b) = instance(&mut r, variant) else { continue };
            if special {
                // special statements (identity auditor key, fee at the cap): accepted, and every statement bit
                // still bound; the challenge values are compared with the model's on each of these
                o.op_exp(&format!("{}.accepted", variant), "A", &format!("verify {} {}", instr, hex(&b)));
                for bit in positions(&mut r, b.len(), false, true) {
                    let mut m = b.clone();
                    m[bit / 8] ^= 1 << (bit % 8);
                    o.op_exp(&format!("{}.bitflip", variant), "R", &format!("verify {} {}", instr, hex(&m)));
                }
                // (the pubkey-validity statement for a fixed key is one statement: there is no "other" one)
                if variant.starts_with("pubkey-key") { continue; }
                if let Some(b2) = instance(&mut r, variant) {
                    let cl = ctx_len(instr);
                    let mut m = b2[..cl].to_vec();
                    m.extend(&b[cl..]);
                    o.op_exp(&format!("{}.other-statement", variant), "R", &format!("verify {} {}", instr, hex(&m)));
                }
                continue;
            }
            o.op_exp(&format!("{}.accepted", instr), "A", &format!("verify {} {}", instr, hex(&b)));
            // cap context: max_value (8 bytes at 96..104) is not 32-aligned: flip all its bits explicitly
            let mut pos = positions(&mut r, b.len(), th && k == 0, false);
            if instr == "cap" { for bit in (96 * 8)..(104 * 8) { pos.push(bit); } pos.sort(); pos.dedup(); }
            for bit in pos {
                let mut m = b.clone();
                m[bit / 8] ^= 1 << (bit % 8);
                o.op_exp(&format!("{}.bitflip", instr), "R", &format!("verify {} {}", instr, hex(&m)));
            }
            // the same proof under another true statement
            if let Some(b2) = instance(&mut r, instr) {
                let cl = ctx_len(instr);
                let mut m = b2[..cl].to_vec();
                m.extend(&b[cl..]);
                o.op_exp(&format!("{}.other-statement", instr), "R", &format!("verify {} {}", instr, hex(&m)));
            }
        }
    }
    gen_sequences(o, &mut r, &["zero", "pubkey", "ctct", "ctcmt", "val2", "val3", "bval2", "bval3", "cap"], true);
    // an accepted instruction followed by more bytes (or cut short) is not that instruction: the raw-byte decoder
    crate::gen::ix_data_lengths(o, &mut r);
    // canonical decoding of every scalar field: the accepted instance with the group order added to one scalar that is
    // below 2^248 (encoding just above the order, top byte 0x10)
    {
        let scalar_fields: [(&str, &[usize]); 9] = [("zero", &[64]), ("pubkey", &[32]), ("ctct", &[128, 160, 192]), ("ctcmt", &[96, 128, 160]),
            ("val2", &[96, 128]), ("val3", &[128, 160]), ("bval2", &[96, 128]), ("bval3", &[128, 160]), ("cap", &[32, 64, 160, 192, 224])];
        for (instr, offs) in scalar_fields {
            for off in offs.iter() {
                let f = ctx_len(instr) + off;
                let mut make = || instance(&mut r, instr);
                if let Some(m) = plus_ell_small(&mut make, f) {
                    o.op_exp(&format!("{}.scalar-just-above-order", instr), "R", &format!("verify {} {}", instr, hex(&m)));
                }
            }
        }
        if let Some(b0) = range_instance(&mut r, 64) {
            let plen = b0.len();
            for f in [264 + 128, 264 + 160, 264 + 192, plen - 64, plen - 32] {
                let mut make = || range_instance(&mut r, 64);
                if let Some(m) = plus_ell_small(&mut make, f) {
                    o.op_exp("range64.scalar-just-above-order", "R", &format!("verify range64 {}", hex(&m)));
                }
            }
        }
    }
    // same-length proof fields presented to a different instruction (with that instruction's own true context)
    let fam160 = ["val2", "bval2"];
    let fam192 = ["val3", "bval3", "ctcmt"];
    for fam in [&fam160[..], &fam192[..]] {
        for a in fam.iter() {
            for b in fam.iter() {
                if a == b { continue; }
                let (Some(x), Some(y)) = (instance(&mut r, a), instance(&mut r, b)) else { continue };
                let mut m = y[..ctx_len(b)].to_vec();
                m.extend(&x[ctx_len(a)..]);
                o.op_exp("transplant", "R", &format!("verify {} {}", b, hex(&m)));
            }
        }
    }
    // range proofs
    let widths: Vec<usize> = if th { vec![64, 128, 256] } else { vec![64] };
    for w in widths {
        let Some(b) = range_instance(&mut r, w) else { continue };
        let name = format!("range{}", w);
        o.op_exp(&format!("{}.accepted", name), "A", &format!("verify {} {}", name, hex(&b)));
        let mut pos = positions(&mut r, b.len(), false, !th);
        // bit-length bytes of the context (256..264)
        for bit in (256 * 8)..(264 * 8) { if th || bit % 8 < 2 || bit % 8 == 7 { pos.push(bit); } }
        pos.sort(); pos.dedup();
        for bit in pos {
            let mut m = b.clone();
            m[bit / 8] ^= 1 << (bit % 8);
            o.op_exp(&format!("{}.bitflip", name), "R", &format!("verify {} {}", name, hex(&m)));
        }
        if let Some(b2) = range_instance(&mut r, w) {
            let mut m = b2[..264].to_vec();
            m.extend(&b[264..]);
            o.op_exp(&format!("{}.other-statement", name), "R", &format!("verify {} {}", name, hex(&m)));
        }
    }
}

//! generators for C08 (no panic), C09 (decryption), C11 (homomorphism), C12 (encodings)
use crate::gen::Out;
use crate::gen_sigma::{add256, amount, commit, ell_bytes, kp, special_values, ZERO_PT};
use crate::sigma::*;
use crate::util::*;
use curve25519_dalek::{constants::RISTRETTO_BASEPOINT_POINT as G, ristretto::RistrettoPoint, scalar::Scalar, traits::Identity};
use solana_zk_sdk::encryption::pedersen::H;

const CODECS: [(&str, usize); 12] = [
    ("pubkey", 32), ("cmt", 32), ("handle", 32), ("secret", 32), ("opening", 32), ("keypair", 64),
    ("ct", 64), ("gct0", 32), ("gct1", 64), ("gct2", 96), ("gct3", 128), ("aect", 36),
];

fn valid_point(r: &mut Rng) -> [u8; 32] {
    (rand_scalar(r) * G).compress().to_bytes()
}
fn valid_scalar(r: &mut Rng) -> [u8; 32] {
    rand_scalar(r).to_bytes()
}

/// a well-formed object of a codec
fn valid_object(r: &mut Rng, codec: &str) -> Vec<u8> {
    match codec {
        "pubkey" | "cmt" | "handle" => valid_point(r).to_vec(),
        "secret" | "opening" => valid_scalar(r).to_vec(),
        "keypair" => {
            let k = kp(r);
            let mut v = k.p.compress().to_bytes().to_vec();
            v.extend(k.s.to_bytes());
            v
        }
        "ct" | "gct1" => [valid_point(r), valid_point(r)].concat(),
        "gct0" => valid_point(r).to_vec(),
        "gct2" => [valid_point(r), valid_point(r), valid_point(r)].concat(),
        "gct3" => [valid_point(r), valid_point(r), valid_point(r), valid_point(r)].concat(),
        "aekey" => r.bytes(16),
        "aect" => r.bytes(36),
        _ => vec![],
    }
}

fn decode_family(o: &mut Out, r: &mut Rng, th: bool) {
    let specials = special_values();
    for (codec, n) in CODECS.iter().chain([("aekey", 16usize)].iter()) {
        // valid objects
        for _ in 0..(if th { 20 } else { 3 }) {
            let v = valid_object(r, codec);
            o.op(&format!("decode.{}.valid", codec), &format!("decode {} {}", codec, hex(&v)));
            if ["pubkey", "secret", "keypair", "ct", "handle", "cmt"].contains(codec) {
                o.op(&format!("serde.{}", codec), &format!("serde {} {}", codec, hex(&v)));
            }
        }
        // every length 0..=2N
        for len in 0..=(2 * n) {
            let mut v = valid_object(r, codec);
            if len <= v.len() { v.truncate(len) } else { let extra = r.bytes(len - v.len()); v.extend(extra) }
            o.op(&format!("decode.{}.length", codec), &format!("decode {} {}", codec, hex(&v)));
        }
        // over-long and short inputs made of whole, individually valid 32-byte fields (valid points, canonical
        // scalars, all-zero blocks = identity / zero): a length check that is not exact lets these through
        if *n >= 32 {
            for extra in 1..=3usize {
                for kind in 0..3 {
                    let mut v = valid_object(r, codec);
                    for _ in 0..extra {
                        match kind { 0 => v.extend(valid_point(r)), 1 => v.extend(valid_scalar(r)), _ => v.extend([0u8; 32]) }
                    }
                    o.op(&format!("decode.{}.overlong-fields", codec), &format!("decode {} {}", codec, hex(&v)));
                }
            }
            let v = valid_object(r, codec);
            for cut in 1..=(n / 32) { o.op(&format!("decode.{}.short-fields", codec), &format!("decode {} {}", codec, hex(&v[..n - 32 * cut]))); }
            o.op(&format!("decode.{}.overlong-fields", codec), &format!("decode {} {}", codec, hex(&vec![0u8; n + 64])));
        }
        // every special 32-byte value in every field position
        if *n >= 32 {
            for f in 0..(n / 32) {
                for (_, sv) in specials.iter() {
                    let mut v = valid_object(r, codec);
                    v[32 * f..32 * f + 32].copy_from_slice(sv);
                    o.op(&format!("decode.{}.special", codec), &format!("decode {} {}", codec, hex(&v)));
                }
                // a canonical scalar + k*ell in that field
                let ell = ell_bytes();
                let mut cur = valid_scalar(r);
                for _ in 0..3 {
                    if let Some(nx) = add256(&cur, &ell) {
                        cur = nx;
                        let mut v = valid_object(r, codec);
                        v[32 * f..32 * f + 32].copy_from_slice(&cur);
                        o.op(&format!("decode.{}.z+k*ell", codec), &format!("decode {} {}", codec, hex(&v)));
                    }
                }
            }
        }
        // random bytes
        for _ in 0..(if th { 200 } else { 10 }) {
            let v = r.bytes(*n);
            o.op(&format!("decode.{}.random", codec), &format!("decode {} {}", codec, hex(&v)));
        }
    }
    // key pairs: public half not derived from the secret half; secret half zero (finding F1); secret = 1, l-1
    for _ in 0..(if th { 20 } else { 4 }) {
        let k = kp(r);
        let other = kp(r);
        let mut v = other.p.compress().to_bytes().to_vec();
        v.extend(k.s.to_bytes());
        o.op_exp("decode.keypair.mismatch", "err", &format!("decode keypair {}", hex(&v)));
        let mut z = k.p.compress().to_bytes().to_vec();
        z.extend([0u8; 32]);
        o.op("decode.keypair.zero-secret", &format!("decode keypair {}", hex(&z)));
    }
    let mut z = vec![0u8; 64];
    o.op("decode.keypair.zero-secret", &format!("decode keypair {}", hex(&z)));
    z[..32].copy_from_slice(H.compress().as_bytes());
    o.op("decode.keypair.zero-secret", &format!("decode keypair {}", hex(&z)));
    for s in [Scalar::ONE, -Scalar::ONE, Scalar::from(2u64)] {
        let mut v = (s.invert() * *H).compress().to_bytes().to_vec();
        v.extend(s.to_bytes());
        o.op("decode.keypair.boundary-secret", &format!("decode keypair {}", hex(&v)));
    }
}

fn extract_family(o: &mut Out, r: &mut Rng, th: bool) {
    let idx: Vec<u64> = vec![0, 1, 2, 3, 4, 5, 6, 7, 8, 1 << 32, (1 << 59) - 1, 1 << 59, (1 << 59) + 1, 1 << 63, u64::MAX - 1, u64::MAX,
        u64::MAX / 32, u64::MAX / 32 + 1, (u64::MAX - 32) / 32, (u64::MAX - 64) / 32, (u64::MAX - 63) / 32];
    for n in [2usize, 3] {
        for _ in 0..(if th { 10 } else { 2 }) {
            let pod = r.bytes(32 * (n + 1));
            for i in idx.iter() {
                o.op("extract", &format!("extract {} {} {}", n, hex(&pod), i));
            }
        }
    }
    // the decoded (non-Pod) grouped ciphertext by index, group sizes 0..3: single-handle extraction and both
    // decryption entry points (the one returning the discrete-log instance and the 32-bit one)
    for n in 0..=3usize {
        let ks: Vec<_> = (0..n).map(|_| kp(r)).collect();
        let rr = rand_scalar(r);
        let mut g = commit(&Scalar::from(7u64), &rr).compress().to_bytes().to_vec();
        for k in ks.iter() { g.extend((rr * k.p).compress().to_bytes()); }
        for i in idx.iter() {
            if *i > usize::MAX as u64 { continue; }
            o.op("grouped-by-index.to", &format!("elg gto {} {} {}", n, hex(&g), i));
            o.op("grouped-by-index.decrypt", &format!("elg gdec {} {} {} {}", n, hex(&g), hs(&rand_nonzero(r)), i));
        }
    }
}

fn b64(bytes: &[u8]) -> String {
    use base64::{prelude::BASE64_STANDARD, Engine};
    BASE64_STANDARD.encode(bytes)
}

fn text_family(o: &mut Out, r: &mut Rng, th: bool) {
    let pods: [(&str, usize); 19] = [("pubkey", 32), ("ct", 64), ("handle", 32), ("cmt", 32), ("gct2", 96), ("gct3", 128), ("aect", 36),
        ("p-zero", 96), ("p-pubkey", 64), ("p-ctct", 224), ("p-ctcmt", 192), ("p-val2", 160), ("p-val3", 192), ("p-bval2", 160),
        ("p-bval3", 192), ("p-cap", 256), ("p-range64", 672), ("p-range128", 736), ("p-range256", 800)];
    for (codec, n) in pods {
        // (every proof type on every run: a text decoder wrong for one type only is otherwise seen one seed in three)
        for _ in 0..(if th { 10 } else { 2 }) {
            // bytes whose base64 text uses the two alphabet-specific symbols (62, 63) as well
            let mut v = r.bytes(n);
            if r.below(2) == 0 { let k = r.below((n - 2) as u64) as usize; v[k] = 0xfb; v[k + 1] = 0xef; v[k + 2] = 0xff; }
            let s = b64(&v);
            o.op(&format!("fromstr.{}.valid", codec), &format!("fromstr {} {}", codec, hex(s.as_bytes())));
            o.op(&format!("tostr.{}", codec), &format!("tostr {} {}", codec, hex(&v)));
            // a valid object: the typed Display runs too and must print the same text as the Pod form
            if !codec.starts_with("p-") && codec != "aect" {
                let v = valid_object(r, codec);
                o.op(&format!("tostr.{}.valid", codec), &format!("tostr {} {}", codec, hex(&v)));
                o.op(&format!("fromstr.{}.valid", codec), &format!("fromstr {} {}", codec, hex(b64(&v).as_bytes())));
            }
            // short / long payloads
            for m in [0usize, 1, n - 1, n + 1, n + 2, n + 3, 2 * n] {
                let s = b64(&r.bytes(m));
                o.op(&format!("fromstr.{}.length", codec), &format!("fromstr {} {}", codec, hex(s.as_bytes())));
            }
            // padding / alphabet / trailing bits / whitespace variants
            let mut variants: Vec<Vec<u8>> = vec![];
            let sb = s.as_bytes().to_vec();
            variants.push(s.trim_end_matches('=').as_bytes().to_vec());                 // no padding
            variants.push([sb.clone(), b"=".to_vec()].concat());                          // extra padding
            variants.push(s.replace('+', "-").replace('/', "_").into_bytes());           // url-safe alphabet
            variants.push([sb.clone(), b"\n".to_vec()].concat());
            variants.push([b" ".to_vec(), sb.clone()].concat());
            let mut t = sb.clone();                                                       // non-canonical trailing bits
            if let Some(pos) = t.iter().rposition(|c| *c != b'=') {
                t[pos] = match t[pos] { b'A' => b'B', b'Q' => b'R', b'g' => b'h', b'w' => b'x', c => if c == b'/' { b'+' } else { c + 1 } };
                variants.push(t);
            }
            let mut t = sb.clone();
            let k = r.below(t.len() as u64) as usize;
            t[k] = *r.pick(&[b'!', b'=', b'*', 0xc3, b' ', b'.']);
            variants.push(t);
            let mut t = sb.clone();
            t.truncate(sb.len() - 1);
            variants.push(t);
            for v in variants {
                if std::str::from_utf8(&v).is_ok() {
                    o.op(&format!("fromstr.{}.variant", codec), &format!("fromstr {} {}", codec, hex(&v)));
                }
            }
        }
    }
    // strings made (almost) only of padding, of whitespace, of one symbol; all lengths around multiples of 4
    for codec in ["pubkey", "ct", "aect", "gct2", "p-pubkey", "p-range64"] {
        for k in (1..=12usize).chain([43, 44, 45, 48, 88, 128].into_iter()) {
            for prefix in ["", "A", "AA", "AAA", "AAAA", "=A", "A=A"] {
                let t = format!("{}{}", prefix, "=".repeat(k));
                o.op(&format!("fromstr.{}.padding-only", codec), &format!("fromstr {} {}", codec, hex(t.as_bytes())));
            }
        }
        for t in ["", " ", "\n", "    ", "AAAA", "////", "++++", "A", "AA", "AAA", "\0\0\0\0", "=\n=="] {
            o.op(&format!("fromstr.{}.degenerate", codec), &format!("fromstr {} {}", codec, if t.is_empty() { "-".to_string() } else { hex(t.as_bytes()) }));
        }
    }
    // JSON key files through the file entry points: every kind of file name, missing paths, directories; contents
    // valid, invalid, and larger than any buffer (a valid document padded with whitespace, then junk / a second key)
    {
        let jsn = |v: &[u8]| -> Vec<u8> { format!("[{}]", v.iter().map(|x| x.to_string()).collect::<Vec<_>>().join(",")).into_bytes() };
        for (codec, n) in [("keypair", 64usize), ("pubkey", 32), ("secret", 32), ("aekey", 16)] {
            let good = jsn(&valid_object(r, codec));
            let other = jsn(&valid_object(r, codec));
            let mut contents: Vec<Vec<u8>> = vec![good.clone(), jsn(&r.bytes(n)), jsn(&r.bytes(n - 1)), b"not json".to_vec(), vec![], b"[]".to_vec()];
            for pad in [300usize, 1023, 1024, 4095, 4096, 4097, 8192, 65536] {
                let mut padded = good.clone();
                while padded.len() < pad { padded.push(b' '); }
                contents.push(padded.clone());                                           // trailing whitespace only: fine
                let mut j = padded.clone(); j.extend(b"garbage"); contents.push(j);      // junk after the padding
                let mut j = padded.clone(); j.extend(&other); contents.push(j);          // a second document after the padding
                let mut j = padded.clone(); j.push(b']'); contents.push(j);
                let mut j = padded.clone(); j.push(0); contents.push(j);
            }
            let mut lead = vec![b' '; 5000]; lead.extend(&good); contents.push(lead);   // leading whitespace beyond a page
            for (ci, c) in contents.iter().enumerate() {
                let kinds: &[&str] = if ci < 6 { &["plain", "spaces", "nonutf8", "long", "pipe"] } else if c.len() <= 9000 { &["plain", "nonutf8", "pipe"] } else { &["plain", "nonutf8"] };
                for kind in kinds {
                    if !th && ci >= 6 && codec != "keypair" && *kind == "nonutf8" { continue; }
                    o.op(&format!("jsonfile.{}.{}", codec, kind), &format!("jsonfile {} {} {}", codec, if c.is_empty() { "-".to_string() } else { hex(c) }, kind));
                }
            }
            for kind in ["missing", "dir"] { o.op(&format!("jsonfile.{}.{}", codec, kind), &format!("jsonfile {} {} {}", codec, hex(&good), kind)); }
        }
    }
    // JSON key files
    let json = |v: &[u8]| -> String { format!("[{}]", v.iter().map(|x| x.to_string()).collect::<Vec<_>>().join(",")) };
    for (codec, n) in [("keypair", 64usize), ("pubkey", 32), ("secret", 32), ("aekey", 16)] {
        for _ in 0..(if th { 10 } else { 2 }) {
            let v = valid_object(r, codec);
            o.op(&format!("json.{}.valid", codec), &format!("json {} {}", codec, hex(json(&v).as_bytes())));
            o.op(&format!("tojson.{}", codec), &format!("tojson {} {}", codec, hex(&v)));
            let j = json(&v);
            let mut docs: Vec<String> = vec![
                j.replace(',', " ,\n\t"), format!(" {} \n", j), format!("{}x", j), format!("{},", j), format!("{}]", j),
                j.replacen('[', "[ ", 1), j.replace(']', ",]"), j.replacen(',', ",,", 1),
                j.replacen('[', "[256,", 1), j.replacen('[', "[-1,", 1), j.replacen('[', "[1.0,", 1), j.replacen('[', "[1e0,", 1),
                j.replacen('[', "[01,", 1), j.replacen('[', "[-0,", 1), j.replacen('[', "[\"1\",", 1), j.replacen('[', "[null,", 1),
                j.replacen('[', "[0x1,", 1), j.replacen('[', "[+1,", 1),
                format!("{{\"a\":{}}}", j), "[]".into(), "".into(), "[".into(), "]".into(), "null".into(), "[ ]".into(),
                json(&v[..n - 1]), json(&[v.clone(), vec![7]].concat()),
            ];
            // special 32-byte values (l, l+1, 2^255-19 .., all ones, identity, undecodable) in each 32-byte slot
            if n >= 32 {
                for (_, sv) in crate::gen_sigma::special_values() {
                    for slot in 0..(n / 32) {
                        let mut z = v.clone();
                        z[32 * slot..32 * slot + 32].copy_from_slice(&sv);
                        docs.push(json(&z));
                    }
                }
            }
            // zero secret half (finding F1) through the JSON reader
            if codec == "keypair" {
                let mut z = v.clone();
                for x in z[32..].iter_mut() { *x = 0; }
                docs.push(json(&z));
            }
            for d in docs {
                o.op(&format!("json.{}.variant", codec), &format!("json {} {}", codec, hex(d.as_bytes())));
            }
        }
    }
}

pub fn gen_c08(o: &mut Out, tier: &str, seed: u64) {
    let mut r = Rng::new(seed, "c08");
    let th = tier == "thorough";
    range_context_family(o, &mut r, th);
    decode_family(o, &mut r, th);
    extract_family(o, &mut r, th);
    text_family(o, &mut r, th);
    // the signer-based constructors take a second byte input of any length next to the signer: the public seed
    for ty in ["elgamal", "ae"] {
        let mut lens: Vec<usize> = vec![0, 1, 31, 32, 33, 63, 64, 65, 100, 119, 120, 121, 122, 123, 124, 125, 126, 127, 128, 129, 255, 256, 257, 511, 512, 1000, 4096, 65536];
        if th { lens.extend(130..255); }
        for l in lens { o.op("signer.public-seed-length", &format!("kdf {} signer {} {}", ty, hex(&r.bytes(64)), hex(&r.bytes(l)))); }
    }
    // instruction / state decoders on arbitrary data (shared with C15/C16)
    for len in [0usize, 1, 2, 5, 33, 34, 97, 129] {
        let d = r.bytes(len);
        o.op("ix.type", &format!("ix type {}", hex(&d)));
        o.op("state.meta", &format!("state meta {}", hex(&d)));
        for pti in 1..=12 {
            o.op("ix.data", &format!("ix data {} {}", pti, hex(&d)));
            o.op("state.decode", &format!("state decode {} {}", pti, hex(&d)));
        }
    }
    // verification of all sigma instructions on: all lengths around nominal, all-special-value fills, random
    let specials = special_values();
    for (instr, n) in [("zero", 192usize), ("pubkey", 96), ("ctct", 416), ("ctcmt", 320), ("val2", 320), ("val3", 416), ("bval2", 416), ("bval3", 544), ("cap", 360)] {
        for len in [0usize, 1, 31, 32, 33, n - 32, n - 1, n, n + 1, n + 32, 2 * n] {
            o.op(&format!("verify.{}.length", instr), &format!("verify {} {}", instr, hex(&r.bytes(len))));
        }
        for (_, sv) in specials.iter() {
            let mut v = vec![];
            while v.len() < n { v.extend(sv); }
            v.truncate(n);
            o.op(&format!("verify.{}.fill", instr), &format!("verify {} {}", instr, hex(&v)));
        }
        // structured: valid points and scalars everywhere, then one special value in one field
        for _ in 0..(if th { 20 } else { 3 }) {
            let mut v = vec![];
            while v.len() + 32 <= n { if r.below(2) == 0 { v.extend(valid_point(&mut r)) } else { v.extend(valid_scalar(&mut r)) } }
            v.resize(n, 0);
            let f = r.below((n / 32) as u64) as usize;
            let sv = r.pick(&specials).1;
            v[32 * f..32 * f + 32].copy_from_slice(&sv);
            o.op(&format!("verify.{}.structured", instr), &format!("verify {} {}", instr, hex(&v)));
        }
    }
    range_untrusted(o, &mut r, th);
}

/// range-proof verification on untrusted bytes: lengths, fills, structured garbage with a well-formed context
fn range_untrusted(o: &mut Out, r: &mut Rng, th: bool) {
    let specials = special_values();
    let widths: Vec<(usize, usize)> = if th { vec![(64, 672), (128, 736), (256, 800)] } else { vec![(64, 672)] };
    for (w, plen) in widths {
        let n = 264 + plen;
        for len in [0usize, 1, 31, 32, 263, 264, 265, 264 + 224, n - 64, n - 32, n - 1, n, n + 1, n + 32, n + 64, 2 * n] {
            o.op("verify.range.length", &format!("verify range{} {}", w, hex(&r.bytes(len))));
        }
        for (_, sv) in specials.iter() {
            let mut v = vec![];
            while v.len() < n { v.extend(sv); }
            v.truncate(n);
            o.op("verify.range.fill", &format!("verify range{} {}", w, hex(&v)));
        }
        // well-formed contexts whose bit lengths sum to another instruction's width or overflow a byte
        for bls in [vec![64u8; 2], vec![64; 4], vec![64; 5], vec![64; 8], vec![32; 8], vec![33; 8], vec![63; 4], vec![64, 64, 64, 63], vec![64, 64, 64, 64, 1]] {
            let mut v = vec![0u8; n];
            for (i, b) in bls.iter().enumerate() { v[32 * i..32 * i + 32].copy_from_slice(&valid_point(r)); v[256 + i] = *b; }
            let mut off = 264;
            while off + 32 <= n {
                let slot = (off - 264) / 32;
                let val = if (4..7).contains(&slot) || off + 64 >= n { valid_scalar(r) } else { valid_point(r) };
                v[off..off + 32].copy_from_slice(&val);
                off += 32;
            }
            o.op("verify.range.other-sum", &format!("verify range{} {}", w, hex(&v)));
        }
        for _ in 0..(if th { 30 } else { 8 }) {
            // well-formed context: k commitments (valid points), bit lengths summing to the width (or not), zero padding
            let k = 1 + r.below(8) as usize;
            let mut v = vec![0u8; n];
            for i in 0..k { v[32 * i..32 * i + 32].copy_from_slice(&valid_point(r)); }
            let mut left = w;
            for i in 0..k {
                let b = if i == k - 1 { left.min(255) } else { (1 + r.below(64) as usize).min(left.saturating_sub(k - 1 - i).max(1)) };
                v[256 + i] = b as u8;
                left = left.saturating_sub(b);
            }
            if r.below(4) == 0 { v[256] = v[256].wrapping_add(1); }
            // proof: valid points / scalars in the slots, then one special value somewhere
            let mut off = 264;
            while off + 32 <= n {
                let slot = (off - 264) / 32;
                let is_scalar = (4..7).contains(&slot) || off + 64 >= n;
                let val = if is_scalar { valid_scalar(r) } else { valid_point(r) };
                v[off..off + 32].copy_from_slice(&val);
                off += 32;
            }
            if r.below(2) == 0 {
                let f = r.below((plen / 32) as u64) as usize;
                let sv = r.pick(&specials).1;
                v[264 + 32 * f..264 + 32 * f + 32].copy_from_slice(&sv);
            }
            o.op("verify.range.structured", &format!("verify range{} {}", w, hex(&v)));
        }
    }
}

/// the 264-byte context of the batched range proofs as an encoding of (commitments, bit lengths): canonical contexts
/// of every commitment count, and every way of being non-canonical (a non-zero byte anywhere in either padding, a
/// zero or over-large bit length, an undecodable or identity commitment, a gap)
fn range_context_family(o: &mut Out, r: &mut Rng, th: bool) {
    for k in 0..=8usize {
        for _ in 0..(if th { 4 } else { 1 }) {
            let mut v = vec![0u8; 264];
            for i in 0..k { v[32 * i..32 * i + 32].copy_from_slice(&valid_point(r)); v[256 + i] = 1 + r.below(64) as u8; }
            o.op("decode.rctx.canonical", &format!("decode rctx {}", hex(&v)));
            // one non-zero byte in the unused part of the bit lengths / of the commitments
            for i in k..8 {
                let mut m = v.clone(); m[256 + i] = *r.pick(&[1u8, 32, 64, 255]);
                o.op("decode.rctx.bit-length-padding", &format!("decode rctx {}", hex(&m)));
                let mut m = v.clone(); let pos = 32 * i + r.below(32) as usize; m[pos] = 1 + r.below(255) as u8;
                o.op("decode.rctx.commitment-padding", &format!("decode rctx {}", hex(&m)));
            }
            // a used bit length that is zero / 65 / 128 / 255; a used commitment that is undecodable / the identity
            for i in 0..k {
                for bad in [0u8, 65, 128, 255] { let mut m = v.clone(); m[256 + i] = bad; o.op("decode.rctx.bit-length-value", &format!("decode rctx {}", hex(&m))); }
                let mut m = v.clone(); for x in m[32 * i..32 * i + 32].iter_mut() { *x = 0xff; }
                o.op("decode.rctx.commitment-undecodable", &format!("decode rctx {}", hex(&m)));
                let mut m = v.clone(); for x in m[32 * i..32 * i + 32].iter_mut() { *x = 0; }
                o.op("decode.rctx.commitment-gap", &format!("decode rctx {}", hex(&m)));
            }
        }
    }
    // valid commitments whose encoding contains an all-zero aligned 32-bit / 64-bit word, or begins / ends with zero
    // bytes: they are commitments, not empty slots
    {
        let mut found: Vec<Vec<u8>> = vec![];
        for word in 0..8usize {
            for attempt in 0..400u32 {
                let mut c = r.bytes(32);
                c[0] &= 0xfe; c[31] &= 0x7f;
                for x in c[4 * word..4 * word + 4].iter_mut() { *x = 0; }
                if word % 2 == 0 && attempt % 2 == 1 { for x in c[4 * word..4 * word + 8].iter_mut() { *x = 0; } }
                if curve25519_dalek::ristretto::CompressedRistretto::from_slice(&c).ok().and_then(|p| p.decompress()).is_some() { found.push(c); break; }
            }
        }
        for (i, c) in found.iter().enumerate() {
            for k in [1usize, 2, 8] {
                let mut v = vec![0u8; 264];
                for j in 0..k { v[32 * j..32 * j + 32].copy_from_slice(if j == k - 1 || j == 0 { c } else { &found[(i + j) % found.len()] }); v[256 + j] = 8; }
                o.op("decode.rctx.commitment-with-zero-word", &format!("decode rctx {}", hex(&v)));
            }
            o.op("decode.cmt.zero-word", &format!("decode cmt {}", hex(c)));
            o.op("decode.pubkey.zero-word", &format!("decode pubkey {}", hex(c)));
        }
    }
    for len in [0usize, 1, 263, 265, 528] { o.op("decode.rctx.length", &format!("decode rctx {}", hex(&r.bytes(len)))); }
    for _ in 0..(if th { 50 } else { 5 }) { o.op("decode.rctx.random", &format!("decode rctx {}", hex(&r.bytes(264)))); }
}

pub fn gen_c12(o: &mut Out, tier: &str, seed: u64) {
    let mut r = Rng::new(seed, "c12");
    let th = tier == "thorough";
    crate::gen::ix_data_lengths(o, &mut r);
    range_context_family(o, &mut r, th);
    decode_family(o, &mut r, th);
    extract_family(o, &mut r, th);
    text_family(o, &mut r, th);
    // extraction agrees with the typed objects: extract(i) of an encoded grouped ciphertext = to_elgamal(i)
    for n in [2usize, 3] {
        for _ in 0..(if th { 10 } else { 2 }) {
            let ps: Vec<RistrettoPoint> = (0..n).map(|_| kp(&mut r).p).collect();
            let x = rand_scalar(&mut r);
            let o_ = rand_scalar(&mut r);
            let mut g = commit(&x, &o_).compress().to_bytes().to_vec();
            for p in ps.iter() { g.extend((o_ * p).compress().to_bytes()); }
            for i in 0..(n + 2) {
                o.op("extract.typed", &format!("extract {} {} {}", n, hex(&g), i));
                o.op("gto", &format!("elg gto {} {} {}", n, hex(&g), i));
            }
        }
    }
}

pub fn gen_c11(o: &mut Out, tier: &str, seed: u64) {
    let mut r = Rng::new(seed, "c11");
    let th = tier == "thorough";
    let reps = if th { 40 } else { 3 };
    let scalars = |r: &mut Rng| -> Vec<Scalar> { vec![Scalar::ZERO, Scalar::ONE, -Scalar::ONE, rand_scalar(r), Scalar::from(u64::MAX), Scalar::from(2u64)] };
    for _ in 0..reps {
        for x in scalars(&mut r) {
            for rr in scalars(&mut r) {
                o.op("with", &format!("elg with {} {}", hs(&x), hs(&rr)));
            }
        }
        for a in [0u64, 1, 2, u64::MAX, u64::MAX - 1, 1 << 32, amount(&mut r)] {
            let rr = rand_scalar(&mut r);
            o.op("with.u64", &format!("elg withu64 {} {}", a, hs(&rr)));
            let k = kp(&mut r);
            o.op("enc.u64", &format!("elg encu64 {} {} {}", hp(&k.p), a, hs(&rr)));
            let c = commit(&Scalar::from(a), &rr);
            let d = rr * k.p;
            for b in [0u64, 1, u64::MAX, amount(&mut r)] {
                o.op("addamt.u64", &format!("elg addamtu64 {} {} {}", hp(&c), hp(&d), b));
                o.op("subamt.u64", &format!("elg subamtu64 {} {} {}", hp(&c), hp(&d), b));
            }
            for b in scalars(&mut r) {
                o.op("addamt.sc", &format!("elg addamt {} {} {}", hp(&c), hp(&d), hs(&b)));
                o.op("subamt.sc", &format!("elg subamt {} {} {}", hp(&c), hp(&d), hs(&b)));
            }
        }
        // public amounts added to / subtracted from ciphertexts of special shape: identity commitment with a live handle
        // (the difference of two ciphertexts that share amount and opening under two keys), identity handle with a live
        // commitment, both the identity, commitment equal to the handle, commitment = amount*G exactly
        {
            let (k1, k2) = (kp(&mut r), kp(&mut r));
            let rr = rand_nonzero(&mut r);
            let id = RistrettoPoint::identity();
            let a = amount(&mut r);
            let shapes: Vec<(RistrettoPoint, RistrettoPoint)> = vec![(id, rr * k1.p - rr * k2.p), (id, rr * k1.p), (commit(&Scalar::from(a), &rr), id), (id, id),
                (rr * k1.p, rr * k1.p), (Scalar::from(a) * G, rr * k1.p), (-(Scalar::from(a) * G), rr * k1.p)];
            for (c, d) in shapes {
                for b in [0u64, 1, a, u64::MAX] {
                    o.op("addamt.special-shape", &format!("elg addamtu64 {} {} {}", hp(&c), hp(&d), b));
                    o.op("subamt.special-shape", &format!("elg subamtu64 {} {} {}", hp(&c), hp(&d), b));
                }
                for b in [Scalar::ZERO, Scalar::from(a), -Scalar::from(a), rand_scalar(&mut r)] {
                    o.op("addamt.special-shape", &format!("elg addamt {} {} {}", hp(&c), hp(&d), hs(&b)));
                    o.op("subamt.special-shape", &format!("elg subamt {} {} {}", hp(&c), hp(&d), hs(&b)));
                }
            }
        }
        // operators on openings, commitments, handles, ciphertexts (4 ownership variants each, both scalar orders)
        let k = kp(&mut r);
        let pts = |r: &mut Rng| -> Vec<RistrettoPoint> { vec![RistrettoPoint::identity(), G, *H, rand_scalar(r) * G, -(rand_scalar(r) * G)] };
        for a in scalars(&mut r) {
            for b in scalars(&mut r) {
                for op in ["add", "sub", "mul"] {
                    o.op(&format!("opn.{}", op), &format!("elg op opn {} {} {}", op, hs(&a), hs(&b)));
                }
            }
        }
        for ty in ["cmt", "hdl"] {
            for a in pts(&mut r) {
                for b in pts(&mut r) {
                    o.op(&format!("{}.add", ty), &format!("elg op {} add {} {}", ty, hp(&a), hp(&b)));
                    o.op(&format!("{}.sub", ty), &format!("elg op {} sub {} {}", ty, hp(&a), hp(&b)));
                }
                for s in scalars(&mut r) {
                    o.op(&format!("{}.mul", ty), &format!("elg op {} mul {} {}", ty, hp(&a), hs(&s)));
                }
            }
        }
        let cts = |r: &mut Rng| -> Vec<String> {
            let mut v = vec![format!("{}{}", ZERO_PT, ZERO_PT)];
            for a in [0u64, 1, u64::MAX, amount(r)] {
                let rr = rand_scalar(r);
                v.push(format!("{}{}", hp(&commit(&Scalar::from(a), &rr)), hp(&(rr * k.p))));
            }
            v
        };
        for a in cts(&mut r) {
            for b in cts(&mut r) {
                o.op("ct.add", &format!("elg op ct add {} {}", a, b));
                o.op("ct.sub", &format!("elg op ct sub {} {}", a, b));
            }
            for s in scalars(&mut r) {
                o.op("ct.mul", &format!("elg op ct mul {} {}", a, hs(&s)));
            }
        }
        // multiplication by every power of two and its neighbours (shortcut paths are keyed on such values), each type,
        // both operand orders (the harness evaluates both and all ownership variants)
        {
            let (x, rr) = (Scalar::from(amount(&mut r)), rand_scalar(&mut r));
            let c = commit(&x, &rr);
            let ctx = format!("{}{}", hp(&c), hp(&(rr * k.p)));
            let mut muls: Vec<Scalar> = vec![];
            let mut p2 = Scalar::ONE;
            for kbit in 0..253 {
                if th || kbit <= 66 || kbit % 8 == 0 || kbit >= 250 { muls.push(p2); }
                if [8, 15, 16, 31, 32, 48, 63, 64, 128, 252].contains(&kbit) { muls.push(p2 - Scalar::ONE); muls.push(p2 + Scalar::ONE); muls.push(-p2); }
                p2 = p2 + p2;
            }
            for m in [3u64, 10, 100, 255, 10_000, 65_535, 1_000_000] { muls.push(Scalar::from(m)); }
            for sc in muls.iter() {
                o.op("ct.mul.power-of-two", &format!("elg op ct mul {} {}", ctx, hs(sc)));
                o.op("cmt.mul.power-of-two", &format!("elg op cmt mul {} {}", hp(&c), hs(sc)));
                o.op("hdl.mul.power-of-two", &format!("elg op hdl mul {} {}", hp(&(rr * k.p)), hs(sc)));
                o.op("opn.mul.power-of-two", &format!("elg op opn mul {} {}", hs(&rr), hs(sc)));
            }
        }
        // operands related to each other: same commitment / same handle / one the negation of the other /
        // same amount and opening under two keys (the shape of grouped ciphertexts)
        {
            let k2 = kp(&mut r);
            let (x, rr, r2) = (Scalar::from(amount(&mut r)), rand_scalar(&mut r), rand_scalar(&mut r));
            let (c, c2) = (commit(&x, &rr), commit(&x, &r2));
            let (d, d2) = (rr * k.p, rr * k2.p);
            let ct = |c: &RistrettoPoint, d: &RistrettoPoint| format!("{}{}", hp(c), hp(d));
            let pairs = [
                (ct(&c, &d), ct(&c, &d2)), (ct(&c, &d), ct(&c2, &d)), (ct(&c, &d), ct(&c, &d)),
                (ct(&c, &d), ct(&-c, &-d)), (ct(&c, &d), ct(&-c, &d2)), (ct(&c, &d), ct(&c2, &-d)),
                (ct(&c, &RistrettoPoint::identity()), ct(&c, &d)), (ct(&RistrettoPoint::identity(), &d), ct(&c, &d)),
                (ct(&c, &d), ct(&d, &c)),
            ];
            for (a, b) in pairs.iter() {
                for (a, b) in [(a, b), (b, a)] {
                    o.op("ct.add.related", &format!("elg op ct add {} {}", a, b));
                    o.op("ct.sub.related", &format!("elg op ct sub {} {}", a, b));
                }
            }
            for ty in ["cmt", "hdl"] {
                for (a, b) in [(c, c), (c, -c), (d, d2), (c, d)] {
                    o.op(&format!("{}.add.related", ty), &format!("elg op {} add {} {}", ty, hp(&a), hp(&b)));
                    o.op(&format!("{}.sub.related", ty), &format!("elg op {} sub {} {}", ty, hp(&a), hp(&b)));
                }
            }
            for (a, b) in [(x, x), (x, -x), (rr, rr)] {
                o.op("opn.add.related", &format!("elg op opn add {} {}", hs(&a), hs(&b)));
                o.op("opn.sub.related", &format!("elg op opn sub {} {}", hs(&a), hs(&b)));
            }
        }
        // decrypting a combination yields the combination of the plaintexts: dec(a*ct1 + ct2 - ct3)
        let (x1, x2) = (rand_scalar(&mut r), rand_scalar(&mut r));
        let (r1, r2) = (rand_scalar(&mut r), rand_scalar(&mut r));
        let c = commit(&x1, &r1) + commit(&x2, &r2);
        let d = r1 * k.p + r2 * k.p;
        o.op("dec.linear", &format!("elg dec {} {} {}", hs(&k.s), hp(&c), hp(&d)));
        // ... down to the 32-bit amount: sums and differences landing on 0, the 2^16 boundary, 2^32-2, 2^32-1, and just
        // outside (2^32, -1), decrypted through every route
        let m32 = (1u64 << 32) - 1;
        for (a, b, sub) in [(m32 - 1, 1u64, false), ((1u64 << 32) + 6, 7, true), (65535, 1, false), (0, 0, false), (m32, 0, false), (m32, 1, false),
                            (5, 6, true), (1 << 31, (1 << 31) - 1, false), (u64::MAX, u64::MAX - m32, true), (r.below(1 << 31), r.below(1 << 31), false)] {
            let (r1, r2) = (rand_scalar(&mut r), rand_scalar(&mut r));
            let (xa, xb) = (Scalar::from(a), Scalar::from(b));
            let (c, rr, x) = if sub { (commit(&xa, &r1) - commit(&xb, &r2), r1 - r2, xa - xb) } else { (commit(&xa, &r1) + commit(&xb, &r2), r1 + r2, xa + xb) };
            o.op("dec32.combination", &format!("elg dec32 {} {} {} {}", hs(&k.s), hp(&c), hp(&(rr * k.p)), hs(&x)));
        }
    }
}

pub fn gen_c09(o: &mut Out, tier: &str, seed: u64) {
    let mut r = Rng::new(seed, "c09");
    let th = tier == "thorough";
    let reps = if th { 30 } else { 2 };
    // key pairs derived from a signer are consistent (public = s^-1 * H) whatever the signer answers later
    for _ in 0..(if th { 20 } else { 3 }) {
        o.op("derived-keypair.signer", &format!("kdf elgamal signer {} {}", hex(&r.bytes(64)), hex(&r.bytes(12))));
    }
    // ... and so are the ones derived from a seed or a seed phrase, through every route (inherent constructors and the
    // derivation trait, on the key pair and on the secret key alone): one phrase, one key
    for (ph, pw) in [("abandon abandon abandon abandon abandon abandon abandon abandon abandon abandon abandon about", "TREZOR"),
                     ("legal winner thank year wave sausage worth useful legal winner thank yellow", ""), ("x", "y"), ("same", "same")] {
        o.op("derived-keypair.phrase", &format!("kdf elgamal phrase {} {}", hex(ph.as_bytes()), hex(pw.as_bytes())));
    }
    for _ in 0..(if th { 20 } else { 3 }) {
        let l = 32 + r.below(64) as usize;
        o.op("derived-keypair.seed", &format!("kdf elgamal seed {}", hex(&r.bytes(l))));
        o.op("derived-keypair.sig", &format!("kdf elgamal sig {}", hex(&r.bytes(64))));
    }
    // randomized grouped encryption with every arrangement of (possibly coinciding) key objects
    for pattern in ["", "0", "00", "01", "10", "000", "001", "010", "011", "100", "012", "021", "101", "110", "122", "221"] {
        for a in [0u64, 1, 65535, (1 << 32) - 1, 1 << 32, u64::MAX] {
            if !th && pattern.len() == 3 && a != 65535 && a != (1 << 32) - 1 { continue; }
            let ss: Vec<String> = (0..3).map(|_| hs(&rand_nonzero(&mut r))).collect();
            o.op_exp("grouped.random-opening", "ok", &format!("elg grand {} {} {}", a, if pattern.is_empty() { "-" } else { pattern }, ss.join(" ")));
        }
    }
    // handle extraction from the Pod form by index: every out-of-range index is an error
    extract_family(o, &mut r, th);
    for _ in 0..reps {
        let k = kp(&mut r);
        o.op("pubkey", &format!("elg pubkey {}", hs(&k.s)));
        for a in [0u64, 1, 65535, 65536, (1 << 32) - 1, 1 << 32, u64::MAX, amount(&mut r), r.below(1 << 32)] {
            for rr in [rand_scalar(&mut r), Scalar::ZERO, Scalar::ONE] {
                let x = Scalar::from(a);
                o.op("enc", &format!("elg enc {} {} {}", hp(&k.p), hs(&x), hs(&rr)));
                let c = commit(&x, &rr);
                let d = rr * k.p;
                o.op("dec", &format!("elg dec {} {} {}", hs(&k.s), hp(&c), hp(&d)));
                // decrypt_u32: the generator knows the plaintext scalar
                o.op("dec32", &format!("elg dec32 {} {} {} {}", hs(&k.s), hp(&c), hp(&d), hs(&x)));
            }
        }
        // wrapped scalar amounts (not u64)
        let x = rand_scalar(&mut r);
        let rr = rand_scalar(&mut r);
        o.op("enc.scalar", &format!("elg enc {} {} {}", hp(&k.p), hs(&x), hs(&rr)));
        o.op("dec32.scalar", &format!("elg dec32 {} {} {} {}", hs(&k.s), hp(&commit(&x, &rr)), hp(&(rr * k.p)), hs(&x)));
        // -1 (= l-1): out of range
        let m1 = -Scalar::ONE;
        o.op("dec32.minus-one", &format!("elg dec32 {} {} {} {}", hs(&k.s), hp(&commit(&m1, &rr)), hp(&(rr * k.p)), hs(&m1)));
        // non-matching key: no 32-bit amount
        let other = kp(&mut r);
        let a = r.below(1 << 32);
        let c = commit(&Scalar::from(a), &rr);
        o.op("dec32.wrong-key", &format!("elg dec32 {} {} {} ?", hs(&other.s), hp(&c), hp(&(rr * k.p))));
        o.op("dec.wrong-key", &format!("elg dec {} {} {}", hs(&other.s), hp(&c), hp(&(rr * k.p))));
        // grouped: sizes 0..3, all indices 0..4
        for n in 0..=3usize {
            let ks: Vec<_> = (0..n).map(|_| kp(&mut r)).collect();
            let a = r.below(1 << 32);
            let x = Scalar::from(a);
            let rr = rand_scalar(&mut r);
            let keys: Vec<String> = ks.iter().map(|k| hp(&k.p)).collect();
            o.op("genc", &format!("elg genc {} {} {}", hs(&x), hs(&rr), keys.join(" ")).trim_end().to_string());
            let mut g = commit(&x, &rr).compress().to_bytes().to_vec();
            for k in ks.iter() { g.extend((rr * k.p).compress().to_bytes()); }
            for i in 0..=4usize {
                o.op("gto", &format!("elg gto {} {} {}", n, hex(&g), i));
                let s = if i < n { ks[i].s } else { rand_scalar(&mut r) };
                o.op("gdec", &format!("elg gdec {} {} {} {}", n, hex(&g), hs(&s), i));
                if i < n {
                    // extracted single-handle ciphertext = direct encryption under key i with the same opening
                    o.op("gto.direct", &format!("elg enc {} {} {}", hp(&ks[i].p), hs(&x), hs(&rr)));
                    o.op("gdec32", &format!("elg dec32 {} {} {} {}", hs(&ks[i].s), hp(&commit(&x, &rr)), hp(&(rr * ks[i].p)), hs(&x)));
                }
            }
        }
    }
}

pub fn gen_c13(o: &mut Out, tier: &str, seed: u64) {
    use solana_zk_sdk::encryption::auth_encryption::AeKey;
    let mut r = Rng::new(seed, "c13");
    let th = tier == "thorough";
    let amounts: [u64; 10] = [0, 1, 255, 256, 65535, (1 << 32) - 1, 1 << 32, 1 << 63, u64::MAX - 1, u64::MAX];
    let keys: Vec<Vec<u8>> = vec![vec![0u8; 16], vec![0xffu8; 16], r.bytes(16), r.bytes(16)];
    for k in keys.iter() {
        for a in amounts.iter().chain([r.u64(), r.u64()].iter()) {
            // both encryptors (random nonce in the SDK, seeded nonce in the model), both decryptors
            o.op("encrypt", &format!("ae encrypt {} {} {}", hex(k), a, hex(&r.bytes(8))));
        }
    }
    // volume: 2^19 (quick) / 2^23 (thorough) fresh encryptions, each opened again
    for _ in 0..(if th { 16 } else { 1 }) {
        o.op_exp("encrypt.soak", "ok", &format!("ae soak {} 524288", hex(&r.bytes(16))));
    }
    // text form on byte patterns that exercise both alphabet-specific base64 symbols
    for _ in 0..(if th { 40 } else { 6 }) {
        let mut v = r.bytes(36);
        let k = r.below(34) as usize; v[k] = 0xfb; v[k + 1] = 0xef; v[k + 2] = 0xff;
        o.op("text", &format!("tostr aect {}", hex(&v)));
        o.op("text", &format!("fromstr aect {}", hex(b64(&v).as_bytes())));
    }
    // ciphertexts no encryption produces: constant patterns, a real ciphertext with its nonce / body / tag cleared
    {
        let kb = r.bytes(16);
        let key = AeKey::try_from(kb.as_slice()).unwrap();
        let ct = key.encrypt(7).to_bytes();
        let mut specials: Vec<Vec<u8>> = vec![vec![0u8; 36], vec![0xffu8; 36], vec![1u8; 36]];
        for (a, b) in [(0usize, 12usize), (12, 20), (20, 36), (12, 36), (0, 20)] {
            let mut m = ct.to_vec();
            for x in m[a..b].iter_mut() { *x = 0; }
            specials.push(m);
        }
        for sp in specials.iter() {
            for k in keys.iter().chain(std::iter::once(&kb)) {
                o.op_exp("special-ciphertext", "none", &format!("ae dec {} {}", hex(k), hex(sp)));
            }
        }
    }
    // ciphertexts of an independent encryptor with special nonces (all zero, all ones, a single bit, a counter)
    {
        let mut nonces: Vec<Vec<u8>> = vec![vec![0u8; 12], vec![0xffu8; 12]];
        for i in [0usize, 11] { let mut n = vec![0u8; 12]; n[i] = 1; nonces.push(n); let mut n = vec![0u8; 12]; n[i] = 0x80; nonces.push(n); }
        nonces.push((0u8..12).collect());
        for k in keys.iter() {
            for n in nonces.iter() {
                for a in [0u64, 1, u64::MAX] {
                    o.op("model-encrypted.special-nonce", &format!("ae mencrypt {} {} {}", hex(k), a, hex(n)));
                }
            }
        }
    }
    // related keys used one after the other on one thread: halves exchanged, equal halves, the same bit flipped in
    // both halves, complement; a ciphertext opens under its own key only, whatever key was used just before
    for _ in 0..(if th { 20 } else { 3 }) {
        let k0 = r.bytes(16);
        let mut related: Vec<Vec<u8>> = vec![k0.clone()];
        let mut sw = k0[8..].to_vec(); sw.extend(&k0[..8]); related.push(sw);
        let mut eq = k0[..8].to_vec(); eq.extend(&k0[..8]); related.push(eq);
        let mut fl = k0.clone(); let bit = r.below(64) as usize; fl[bit / 8] ^= 1 << (bit % 8); fl[8 + bit / 8] ^= 1 << (bit % 8); related.push(fl);
        related.push(k0.iter().map(|b| !b).collect());
        related.push(vec![0u8; 16]); related.push(vec![0xffu8; 16]); related.push(vec![0x55u8; 16]); related.push(vec![0xaau8; 16]);
        let cts: Vec<Vec<u8>> = related.iter().enumerate().map(|(i, k)| AeKey::try_from(k.as_slice()).unwrap().encrypt(1000 + i as u64).to_bytes().to_vec()).collect();
        let mut toks = vec![];
        for i in 0..related.len() {
            for j in [i, (i + 1) % related.len(), i] {
                toks.push(format!("{}:{}", hex(&related[j]), hex(&cts[i])));
            }
        }
        o.op("related-keys.sequence", &format!("ae seq {}", toks.join(" ")));
        // a tampered copy (nonce, body or tag bit) rejected just before: the genuine ciphertext still opens
        let mut toks = vec![];
        let g = format!("{}:{}", hex(&k0), hex(&cts[0]));
        toks.push(g.clone());
        for byte in [0usize, 5, 11, 12, 15, 19, 20, 27, 35] {
            let mut m = cts[0].clone(); m[byte] ^= 1 << (byte % 8);
            toks.push(format!("{}:{}", hex(&k0), hex(&m)));
            toks.push(g.clone());
        }
        // the same tampered copy twice, then genuine twice
        let mut m = cts[0].clone(); m[3] ^= 0x10;
        for t in [hex(&m), hex(&m), hex(&cts[0]), hex(&cts[0])] { toks.push(format!("{}:{}", hex(&k0), t)); }
        o.op("tampered-then-genuine.sequence", &format!("ae seq {}", toks.join(" ")));
    }
    // every single-bit flip of sampled ciphertexts; other keys
    for _ in 0..(if th { 40 } else { 4 }) {
        let kb = r.bytes(16);
        let key = AeKey::try_from(kb.as_slice()).unwrap();
        let a = *r.pick(&amounts);
        let ct = key.encrypt(a).to_bytes();
        o.op_exp("accepted", &format!("some:{}", a), &format!("ae dec {} {}", hex(&kb), hex(&ct)));
        // the ciphertext survives its text form: Display (typed and Pod) is the standard base64 of the 36 bytes,
        // and FromStr of that text gives the 36 bytes back
        o.op("text", &format!("tostr aect {}", hex(&ct)));
        o.op("text", &format!("fromstr aect {}", hex(b64(&ct).as_bytes())));
        for bit in 0..288 {
            let mut m = ct.to_vec();
            m[bit / 8] ^= 1 << (bit % 8);
            o.op_exp("bitflip", "none", &format!("ae dec {} {}", hex(&kb), hex(&m)));
        }
        for _ in 0..4 {
            let mut k2 = kb.clone();
            let i = r.below(128) as usize;
            k2[i / 8] ^= 1 << (i % 8);
            o.op_exp("other-key", "none", &format!("ae dec {} {}", hex(&k2), hex(&ct)));
        }
        o.op_exp("other-key", "none", &format!("ae dec {} {}", hex(&r.bytes(16)), hex(&ct)));
        // the genuine bytes rearranged: nonce moved to the end, tag first, reversed, halves exchanged, every rotation by 4
        {
            let mut perms: Vec<Vec<u8>> = vec![];
            let mut v = ct[12..].to_vec(); v.extend(&ct[..12]); perms.push(v);
            let mut v = ct[20..].to_vec(); v.extend(&ct[..20]); perms.push(v);
            let mut v = ct[..12].to_vec(); v.extend(&ct[20..]); v.extend(&ct[12..20]); perms.push(v);
            let mut v = ct.to_vec(); v.reverse(); perms.push(v);
            let mut v = ct[18..].to_vec(); v.extend(&ct[..18]); perms.push(v);
            for k in (4..36).step_by(4) { let mut v = ct.to_vec(); v.rotate_left(k); perms.push(v); }
            for p in perms { if p != ct.to_vec() { o.op_exp("rearranged", "none", &format!("ae dec {} {}", hex(&kb), hex(&p))); } }
        }
        // lengths
        for len in [0usize, 12, 35, 37, 72] {
            let mut m = ct.to_vec(); m.resize(len, 0);
            o.op_exp("length", "none", &format!("ae dec {} {}", hex(&kb), hex(&m)));
        }
    }
}

pub fn gen_c14(o: &mut Out, tier: &str, seed: u64) {
    let mut r = Rng::new(seed, "c14");
    let th = tier == "thorough";
    let n = if th { 400 } else { 12 };
    for ty in ["elgamal", "ae"] {
        for _ in 0..n {
            o.op("sig", &format!("kdf {} sig {}", ty, hex(&r.bytes(64))));
        }
        o.op("sig.zero", &format!("kdf {} sig {}", ty, hex(&[0u8; 64])));
        o.op("sig.ff", &format!("kdf {} sig {}", ty, hex(&[0xffu8; 64])));
        // seed lengths at and around both bounds
        for len in [0usize, 1, 15, 16, 17, 31, 32, 33, 64, 65534, 65535, 65536, 65537] {
            o.op("seed.length", &format!("kdf {} seed {}", ty, hex(&r.bytes(len))));
        }
        for _ in 0..n { let l = 32 + r.below(64) as usize; o.op("seed", &format!("kdf {} seed {}", ty, hex(&r.bytes(l)))); }
        // lengths beyond 2^32 (a length check made on a narrowed integer wraps back into the allowed window)
        if usize::BITS >= 64 {
            for l in [(1u64 << 32) + 16, (1 << 32) + 32, (1 << 32) + 65535, (1 << 32), (1 << 33) + 64, (1 << 31) + 32, (1 << 16) + 32, 1 << 16, 100, 32] {
                o.op("seed.zeros-length", &format!("kdf {} seedzeros {}", ty, l));
            }
        }
        // recording signer: message = prefix || public seed ; all-zero signature refused
        for plen in [0usize, 1, 32, 33, 200, 65535, 65536, 65537, 70000, 131072] {
            let ps = r.bytes(plen);
            o.op("signer", &format!("kdf {} signer {} {}", ty, hex(&r.bytes(64)), hex(&ps)));
            o.op_exp("signer.zero-signature", "err", &format!("kdf {} signer {} {}", ty, hex(&[0u8; 64]), hex(&ps)));
        }
        // only the all-zero signature is refused: one zero half (R or s), a single non-zero byte, all ones
        {
            let ps = r.bytes(8);
            let mut sigs: Vec<Vec<u8>> = vec![];
            let mut a = vec![0u8; 32]; a.extend(r.bytes(32)); sigs.push(a);
            let mut a = r.bytes(32); a.extend(vec![0u8; 32]); sigs.push(a);
            for i in [0usize, 31, 32, 63] { let mut a = vec![0u8; 64]; a[i] = 1; sigs.push(a); }
            sigs.push(vec![0xffu8; 64]);
            for sg in sigs {
                o.op("signer.partly-zero-signature", &format!("kdf {} signer {} {}", ty, hex(&sg), hex(&ps)));
                o.op("sig.partly-zero", &format!("kdf {} sig {}", ty, hex(&sg)));
            }
        }
        // real ed25519 signers
        for _ in 0..(if th { 100 } else { 6 }) {
            let l = r.below(40) as usize;
            o.op("keypair", &format!("kdf {} keypair {} {}", ty, hex(&r.bytes(32)), hex(&r.bytes(l))));
        }
        for l in [65535usize, 65536, 100_000] {
            o.op("keypair.long-public-seed", &format!("kdf {} keypair {} {}", ty, hex(&r.bytes(32)), hex(&r.bytes(l))));
        }
        // seed phrases / passphrases incl. edge whitespace, empty, unicode
        let phrases = ["abandon abandon abandon abandon abandon abandon abandon abandon abandon abandon abandon about",
                       "legal winner thank year wave sausage worth useful legal winner thank yellow", "x", ""];
        let passes = ["", "42", " 42", "42 ", "42\n", "\t42", " ", "pässwörd", "TREZOR"];
        for ph in phrases { for pw in passes {
            o.op("phrase", &format!("kdf {} phrase {} {}", ty, hex(ph.as_bytes()), hex(pw.as_bytes())));
            o.op("phrase", &format!("kdf {} phrase {} {}", ty, hex(format!(" {} ", ph).as_bytes()), hex(pw.as_bytes())));
        } }
        // the phrase is used byte for byte: line breaks, tabs, NUL and case are all significant
        for ph in phrases { for (pre, suf) in [("", "\n"), ("", "\r\n"), ("", "\r"), ("", "\t"), ("\n", ""), ("", "\0"), ("\u{feff}", ""), ("", "\n\n")] {
            for pw in ["", "TREZOR"] {
                o.op("phrase.edge-bytes", &format!("kdf {} phrase {} {}", ty, hex(format!("{}{}{}", pre, ph, suf).as_bytes()), hex(pw.as_bytes())));
            }
        } }
        o.op("phrase.case", &format!("kdf {} phrase {} {}", ty, hex("Legal Winner".as_bytes()), hex(b"")));
        o.op("phrase.case", &format!("kdf {} phrase {} {}", ty, hex("legal winner".as_bytes()), hex(b"")));
    }
    // the two key types differ for the same signer and seed (domain separation): same signature -> both keys
    for _ in 0..4 {
        let sig = r.bytes(64);
        let ps = r.bytes(8);
        o.op("domain.elgamal", &format!("kdf elgamal signer {} {}", hex(&sig), hex(&ps)));
        o.op("domain.ae", &format!("kdf ae signer {} {}", hex(&sig), hex(&ps)));
    }
}

pub fn gen_c18(o: &mut Out, tier: &str, seed: u64) {
    let mut r = Rng::new(seed, "c18");
    let n = if tier == "thorough" { 300 } else { 8 };
    // scalars: random, small (many zero bytes), one byte set, l-1
    // scalars: random; with many zero bytes; with exactly one zero byte; l-1. (Values such as 1 are avoided:
    // their byte pattern coincides with constants of the zeroized public point, which the storage
    // inspection could not tell apart from a surviving secret.)
    let mut scalars: Vec<Vec<u8>> = vec![Scalar::from(0x0102030405060708u64).to_bytes().to_vec(),
        Scalar::from(0xa1b2c3d4u64).to_bytes().to_vec(), (-Scalar::ONE).to_bytes().to_vec(), Scalar::from(u64::MAX).to_bytes().to_vec()];
    for i in 0..n {
        let mut b = rand_scalar(&mut r).to_bytes().to_vec();
        if i % 2 == 0 { let k = r.below(31) as usize; b[k] = 0; }
        scalars.push(b);
    }
    // values with internal structure (canonical scalars): both halves equal, four equal words, one byte throughout,
    // a palindrome, halves that are complements: a wipe that is skipped or cut short "when there is nothing to wipe"
    // by folding or comparing parts of the value would leave these behind
    {
        let mut half = r.bytes(16); half[15] &= 0x0f;
        let mut eq = half.clone(); eq.extend(&half); scalars.push(eq);
        let mut w = r.bytes(8); w[7] &= 0x0f;
        scalars.push(w.iter().cycle().take(32).cloned().collect());
        scalars.push(vec![0x07u8; 32]);
        let mut pal = half.clone(); pal.reverse(); pal[0] &= 0x0f; let mut p2 = pal.clone(); p2.reverse(); let mut q = p2; q.extend(&pal);
        q[31] &= 0x0f; scalars.push(q);
        let mut c: Vec<u8> = half.iter().map(|b| !b).collect(); c[15] &= 0x0f; let mut q = half.clone(); q.extend(&c); scalars.push(q);
    }
    for s in scalars.iter() {
        for how in ["decoded", "from", "cloned", "keypair-clone", "decoded-unwind", "cloned-unwind", "keypair-clone-unwind"] { o.op_exp(&format!("drop.secret.{}", how), "wiped", &format!("drop secret {} {}", how, hex(s))); }
        o.op_exp("drop.keypair.new-unwind", "wiped", &format!("drop keypair new-unwind {}", hex(s)));
        o.op_exp("drop.opening.new-unwind", "wiped", &format!("drop opening new-unwind {}", hex(s)));
        o.op_exp("drop.opening.add-unwind", "wiped", &format!("drop opening add-unwind {}", hex(s)));
        for how in ["new", "cloned"] { o.op_exp(&format!("drop.keypair.{}", how), "wiped", &format!("drop keypair {} {}", how, hex(s))); }
        for how in ["decoded", "new", "cloned", "add", "sub", "mul"] { o.op_exp(&format!("drop.opening.{}", how), "wiped", &format!("drop opening {} {}", how, hex(s))); }
        o.op("debug.secret", &format!("debug secret {}", hex(s)));
        o.op("debug.opening", &format!("debug opening {}", hex(s)));
        o.op_exp("debug.keypair", "clean", &format!("debug keypair {}", hex(s)));
        // a decoded key pair (public half derived)
        let sc = Scalar::from_bytes_mod_order(s.as_slice().try_into().unwrap());
        if sc != Scalar::ZERO {
            let mut kb = (sc.invert() * *H).compress().to_bytes().to_vec();
            kb.extend(s);
            o.op_exp("drop.keypair.decoded", "wiped", &format!("drop keypair decoded {}", hex(&kb)));
        }
    }
    for _ in 0..n {
        let sl = 32 + r.below(32) as usize;
        let seedb = r.bytes(sl);
        o.op_exp("drop.secret.derived", "wiped", &format!("drop secret derived {}", hex(&seedb)));
        o.op_exp("drop.keypair.derived", "wiped", &format!("drop keypair derived {}", hex(&seedb)));
        o.op_exp("drop.aekey.derived", "wiped", &format!("drop aekey derived {}", hex(&seedb)));
        let k = r.bytes(16);
        for how in ["decoded", "from", "cloned", "decoded-unwind", "cloned-unwind"] { o.op_exp(&format!("drop.aekey.{}", how), "wiped", &format!("drop aekey {} {}", how, hex(&k))); }
        o.op_exp("drop.secret.derived-unwind", "wiped", &format!("drop secret derived-unwind {}", hex(&seedb)));
        o.op_exp("drop.aekey.derived-unwind", "wiped", &format!("drop aekey derived-unwind {}", hex(&seedb)));
        o.op("debug.aekey", &format!("debug aekey {}", hex(&k)));
    }
    for k in [r.bytes(8).iter().cycle().take(16).cloned().collect::<Vec<u8>>(), vec![0x5au8; 16], r.bytes(4).iter().cycle().take(16).cloned().collect()] {
        for how in ["decoded", "from", "cloned", "decoded-unwind"] { o.op_exp(&format!("drop.aekey.structured.{}", how), "wiped", &format!("drop aekey {} {}", how, hex(&k))); }
    }
    // refused key files: the refusal (its Display and Debug text) must not repeat the secret part of the file
    {
        let arr = |v: &[u8]| format!("[{}]", v.iter().map(|b| b.to_string()).collect::<Vec<_>>().join(","));
        let k = kp(&mut r);
        let other = kp(&mut r);
        // public half of another key; secret half not canonical; one byte short / long
        let mut spliced = other.p.compress().to_bytes().to_vec(); spliced.extend(k.s.to_bytes());
        let mut noncanon = k.p.compress().to_bytes().to_vec(); noncanon.extend([0xf3u8; 32]);
        let mut short = k.p.compress().to_bytes().to_vec(); short.extend(&k.s.to_bytes()[..31]);
        let mut long = k.p.compress().to_bytes().to_vec(); long.extend(k.s.to_bytes()); long.push(5);
        for v in [spliced, noncanon, short, long] { o.op_exp("refused-file.keypair", "err", &format!("json keypair {}", hex(arr(&v).as_bytes()))); }
        let sec = k.s.to_bytes();
        o.op_exp("refused-file.secret", "err", &format!("json secret {}", hex(arr(&[0xf5u8; 32]).as_bytes())));
        o.op_exp("refused-file.secret", "err", &format!("json secret {}", hex(arr(&sec[..31]).as_bytes())));
        let mut s33 = sec.to_vec(); s33.push(1);
        o.op_exp("refused-file.secret", "err", &format!("json secret {}", hex(arr(&s33).as_bytes())));
        let ak = r.bytes(17);
        o.op_exp("refused-file.aekey", "err", &format!("json aekey {}", hex(arr(&ak).as_bytes())));
        o.op_exp("refused-file.aekey", "err", &format!("json aekey {}", hex(arr(&ak[..15]).as_bytes())));
    }
    let mut k = vec![0u8; 16]; k[3] = 9;
    for how in ["decoded", "from", "cloned"] { o.op_exp(&format!("drop.aekey.{}", how), "wiped", &format!("drop aekey {} {}", how, hex(&k))); }
}

pub fn gen_c10(o: &mut Out, tier: &str, seed: u64) {
    let mut r = Rng::new(seed, "c10");
    let th = tier == "thorough";
    // amounts at the structural boundaries of the search
    let mut xs: Vec<u64> = vec![0, 1, 2, 31, 32, 33, 65534, 65535, 65536, 65537, 131071, 131072, (1 << 32) - 65536, (1 << 32) - 2, (1 << 32) - 1];
    for k in [1u64, 2, 3, 255, 256, 32767, 32768, 65535] { for d in [0u64, 1, 65535] { xs.push(k * 65536 + d); } }
    // per-thread range ends / batch ends in the low 16 bits
    for lo in [999u64, 1000, 1001, 4095, 4096, 8191, 8192, 16383, 16384, 32767, 32768, 65000, 65199, 65200, 65504, 65534] { xs.push((r.below(65536) << 16) + lo); }
    let structured = xs.len();
    for _ in 0..(if th { 200 } else { 12 }) { xs.push(r.below(1 << 32)); }
    let threads: Vec<&str> = if th { vec!["-", "1", "2", "4", "8", "16", "32", "64", "256", "1024"] } else { vec!["-", "1", "2", "8", "64"] };
    let batches: Vec<&str> = if th { vec!["-", "1", "2", "31", "32", "33", "100", "1000", "2000", "4096", "65535"] } else { vec!["-", "33", "1000", "65535"] };
    for (n, x) in xs.iter().enumerate() {
        let t = hp(&(Scalar::from(*x) * G));
        let k = hs(&Scalar::from(*x));
        for (i, thr) in threads.iter().enumerate() {
            for (j, b) in batches.iter().enumerate() {
                if !th && (i + j + (*x as usize)) % 3 != 0 && !(thr == &"-" && b == &"-") { continue; }
                // thorough: the whole grid on the structured amounts, a rotating quarter of it on the random ones
                if th && n >= structured && (i + j + (*x as usize)) % 4 != 0 && !(thr == &"-" && b == &"-") { continue; }
                o.op_exp("in-range", &format!("some:{}", x), &format!("dlog {} {} {} {}", t, k, thr, b));
            }
        }
    }
    // out of range: 2^32, 2^32+1, 2^33, -1, random scalars, random points
    let mut outs: Vec<Scalar> = vec![Scalar::from(1u64 << 32), Scalar::from((1u64 << 32) + 1), Scalar::from(1u64 << 33), Scalar::from(u64::MAX), -Scalar::ONE, -Scalar::from(65536u64)];
    for _ in 0..(if th { 40 } else { 4 }) { outs.push(rand_scalar(&mut r)); }
    for s in outs.iter() {
        let t = hp(&(s * G));
        for thr in threads.iter().take(3) { for b in batches.iter().take(3) {
            o.op_exp("out-of-range", "none", &format!("dlog {} {} {} {}", t, hs(s), thr, b));
        } }
    }
    // refused configurations
    let t = hp(&(Scalar::from(7u64) * G));
    let k = hs(&Scalar::from(7u64));
    for thr in ["3", "5", "6", "7", "12", "100", "65535", "131072", "262144", "1048576", "4294967296"] {
        o.op_exp("threads-refused", "err", &format!("dlog {} {} {} -", t, k, thr));
    }
    for b in ["65536", "65537", "131072", "4294967296"] {
        o.op_exp("batch-refused", "err", &format!("dlog {} {} - {}", t, k, b));
    }
    // sequences of configuration calls on one instance: only the last accepted value of each setting counts,
    // and a refused call leaves the instance unchanged
    let seqs = ["t4+t1", "t16+t1", "t1+t4", "t64+t2", "t2+t64+t1", "b33+t4+b1000", "t4+b33+t1+b32", "t8+t3?", "t8+t3?+t1",
                "b100+b65536?", "t4+b70000?+t1", "t1024+t1+t1024", "b1+t256+b65535", "t3?+b65536?",
                // refused powers of two above the limit (a refusal of either kind leaves the instance as it was)
                "t131072?", "t4+t131072?", "t1048576?+t2", "t4+t9223372036854775808?", "b33+t262144?+b1000"];
    for (i, x) in xs.iter().enumerate() {
        if !th && i % 4 != (seed % 4) as usize { continue; }
        let t = hp(&(Scalar::from(*x) * G));
        let k = hs(&Scalar::from(*x));
        for (j, sq) in seqs.iter().enumerate() {
            if (!th || i >= structured) && (i + j) % 3 != 0 { continue; }
            o.op_exp("setter-sequence", &format!("some:{}", x), &format!("dlogseq {} {} {}", t, k, sq));
        }
    }
    o.op_exp("setter-sequence-refused", "err", &format!("dlogseq {} {} t4+t3+t1", t, k));
    o.op_exp("setter-sequence-refused", "err", &format!("dlogseq {} {} b33+b65536", t, k));
    // repeated threaded runs (every interleaving must give the same answer)
    for _ in 0..(if th { 200 } else { 16 }) {
        let x = r.below(1 << 32);
        o.op_exp("repeat-threaded", &format!("some:{}", x), &format!("dlog {} {} 16 -", hp(&(Scalar::from(x) * G)), hs(&Scalar::from(x))));
    }
    if th {
        // the model's own search (slow) and the table file
        for x in [0u64, 65535, 65536, (1 << 32) - 1, r.below(1 << 32)] {
            o.op("model-search", &format!("dlogsearch {} - -", hp(&(Scalar::from(x) * G))));
        }
        o.op("model-search", &format!("dlogsearch {} 4 1000", hp(&(Scalar::from(123_456_789u64) * G))));
        o.op("model-search", &format!("dlogsearch {} - -", hp(&(Scalar::from(1u64 << 32) * G))));
    }
}

//! generators for C04 and the range-proof parts of C05 / C20
use crate::gen::Out;
use crate::gen_sigma::{commit, ZERO_PT};
use crate::sigma::*;
use crate::util::*;
use curve25519_dalek::{constants::RISTRETTO_BASEPOINT_POINT as G, ristretto::RistrettoPoint, scalar::Scalar};

fn splits(r: &mut Rng, width: usize, th: bool) -> Vec<Vec<usize>> {
    let mut v: Vec<Vec<usize>> = vec![vec![width.min(64); width / width.min(64)]];
    match width {
        64 => {
            v.push(vec![1, 63]); v.push(vec![63, 1]); v.push(vec![8; 8]); v.push(vec![32, 32]); v.push(vec![16, 16, 32]);
            v.push(vec![1, 1, 1, 1, 1, 1, 1, 57]);
        }
        128 => { v.push(vec![64, 64]); v.push(vec![16; 8]); v.push(vec![1, 63, 64]); v.push(vec![32, 32, 64]); v.push(vec![64, 1, 63]); }
        _ => { v.push(vec![64, 64, 64, 64]); v.push(vec![32; 8]); v.push(vec![64, 64, 64, 32, 32]); v.push(vec![1, 63, 64, 64, 64]); }
    }
    // structured splits: first = last = mean with an uneven middle; palindromes; every rotation of one multiset;
    // maximal entries with a small remainder; a single large entry anywhere
    {
        let mut extra: Vec<Vec<usize>> = vec![];
        for m in [4usize, 8] {
            if width % m == 0 && width / m <= 64 && width / m >= 2 {
                let mean = width / m;
                let mut p = vec![mean; m];
                // middle entries shifted by -d / +d pairwise
                let d = (mean / 2).max(1).min(64 - mean.min(63));
                if d > 0 && mean > d && mean + d <= 64 { p[1] -= d; p[2] += d; v.push(p.clone()); }
                if m == 8 && mean > 1 && mean < 64 { let mut q = vec![mean; m]; q[1] = 1; q[2] = 2 * mean - 1; if q[2] <= 64 { extra.push(q); } }
            }
        }
        match width {
            64 => { extra.push(vec![16, 32, 16]); extra.push(vec![32, 16, 16]); extra.push(vec![8, 24, 24, 8]); extra.push(vec![2, 62]); extra.push(vec![4, 4, 56]); extra.push(vec![21, 21, 22]); }
            128 => { extra.push(vec![64, 63, 1]); extra.push(vec![32, 64, 32]); extra.push(vec![2, 62, 64]); extra.push(vec![48, 32, 48]); }
            _ => { extra.push(vec![64, 64, 64, 63, 1]); extra.push(vec![64, 32, 64, 32, 64]); extra.push(vec![48, 64, 32, 64, 48]); extra.push(vec![2, 62, 64, 64, 64]); }
        }
        let keep = if th { extra.len() } else { 4.min(extra.len()) };
        // rotate which structured splits the quick tier sees with the seed
        let start = if extra.is_empty() { 0 } else { (r.below(extra.len() as u64)) as usize };
        for i in 0..keep { v.push(extra[(start + i) % extra.len()].clone()); }
    }
    // random admissible splits
    for _ in 0..(if th { 12 } else { 2 }) {
        let m = 1 + r.below(8) as usize;
        let mut parts = vec![1usize; m];
        if width < m || width > 64 * m { continue; }
        let mut rest = width - m;
        while rest > 0 {
            let i = r.below(m as u64) as usize;
            if parts[i] < 64 { parts[i] += 1; rest -= 1; }
        }
        v.push(parts);
    }
    v
}

fn amount_for(r: &mut Rng, n: usize) -> u64 {
    let max = if n >= 64 { u64::MAX } else { (1u64 << n) - 1 };
    match r.below(4) { 0 => 0, 1 => max, 2 => max / 2 + 1, _ => r.u64() & max }
}

struct St { comms: Vec<RistrettoPoint>, amounts: Vec<u64>, bls: Vec<usize>, opens: Vec<Scalar> }
fn statement(r: &mut Rng, bls: &[usize]) -> St {
    let amounts: Vec<u64> = bls.iter().map(|n| amount_for(r, *n)).collect();
    let opens: Vec<Scalar> = bls.iter().map(|_| rand_scalar(r)).collect();
    let comms = amounts.iter().zip(opens.iter()).map(|(a, o)| commit(&Scalar::from(*a), o)).collect();
    St { comms, amounts, bls: bls.to_vec(), opens }
}
fn join<T: ToString>(v: &[T]) -> String { if v.is_empty() { "-".into() } else { v.iter().map(|x| x.to_string()).collect::<Vec<_>>().join(",") } }
impl St {
    fn args(&self) -> String {
        format!("{} {} {} {}", join(&self.comms.iter().map(hp).collect::<Vec<_>>()), join(&self.amounts), join(&self.bls),
                join(&self.opens.iter().map(hs).collect::<Vec<_>>()))
    }
    fn ctx(&self) -> Vec<u8> {
        let mut c = vec![0u8; 264];
        for (i, p) in self.comms.iter().enumerate().take(8) { c[32 * i..32 * i + 32].copy_from_slice(p.compress().as_bytes()); }
        for (i, b) in self.bls.iter().enumerate().take(8) { c[256 + i] = *b as u8; }
        c
    }
}
fn seed(r: &mut Rng) -> String { hex(&r.bytes(16)) }

fn mprove(o: &mut Out, r: &mut Rng, fam: &str, exp: &str, width: usize, ctx: &[u8], bls: &[usize], digits: &str, opens: &[Scalar], tamper: &str) {
    o.op(fam, &format!("rmprove {} {} {} {} {} {} {} {}", exp, width, hex(ctx), join(bls), digits,
        join(&opens.iter().map(hs).collect::<Vec<_>>()), seed(r), tamper));
}

pub fn gen_c04(o: &mut Out, tier: &str, sd: u64) {
    let mut r = Rng::new(sd, "c04");
    let th = tier == "thorough";
    let widths: Vec<usize> = if th { vec![64, 128, 256] } else { vec![64] };
    // the verdict does not depend on what was verified before in the same process: accepted proofs of several
    // widths, each re-verified after rejected (malformed) ones
    o.op("range.width-sequence", &format!("rseq {} {}", if th { "64,128,256,64" } else { "64,128,64" }, hex(&r.bytes(8))));
    for &w in widths.iter() {
        let lg = (w as f64).log2() as usize;
        for bls in splits(&mut r, w, th) {
            let st = statement(&mut r, &bls);
            // Rust prover -> both verifiers; model prover -> both verifiers
            o.op("honest.rust", &format!("rprove {} {} {}", w, st.args(), seed(&mut r)));
            let bits = format!("bits:{}", join(&st.amounts));
            mprove(o, &mut r, "honest.model", "A", w, &st.ctx(), &bls, &bits, &st.opens, "-");
        }
        let reps = if th { 4 } else { 1 };
        for _ in 0..reps {
            let bls: Vec<usize> = if w == 64 { vec![16, 16, 32] } else if w == 128 { vec![64, 32, 32] } else { vec![64, 64, 64, 32, 32] };
            let st = statement(&mut r, &bls);
            let bits = format!("bits:{}", join(&st.amounts));
            let rp = rand_nonzero(&mut r) * G;
            // digit vector that is not bits: top digit of slot 0 is 2, committed value 2^n (outside the range)
            {
                let n0 = bls[0];
                let mut digits: Vec<Scalar> = vec![];
                for (j, n) in bls.iter().enumerate() {
                    for k in 0..*n {
                        if j == 0 { digits.push(if k == n - 1 { Scalar::from(2u64) } else { Scalar::ZERO }); }
                        else { digits.push(Scalar::from((st.amounts[j] >> k) & 1)); }
                    }
                }
                let mut st2 = statement(&mut r, &bls);
                st2.amounts = st.amounts.clone(); st2.opens = st.opens.clone(); st2.comms = st.comms.clone();
                let v0 = if n0 >= 64 { Scalar::from(u64::MAX) + Scalar::ONE } else { Scalar::from(1u64 << n0) };
                st2.comms[0] = commit(&v0, &st.opens[0]);
                let d = format!("digits:{}", join(&digits.iter().map(hs).collect::<Vec<_>>()));
                mprove(o, &mut r, "out-of-range.digit2", "R", w, &st2.ctx(), &bls, &d, &st.opens, "-");
                // digit -1 somewhere (value v - 2^k)
                let mut digits2: Vec<Scalar> = vec![];
                for (j, n) in bls.iter().enumerate() { for k in 0..*n { digits2.push(Scalar::from((st.amounts[j] >> k) & 1)); } }
                digits2[3] = -Scalar::ONE;
                let mut st3 = statement(&mut r, &bls);
                st3.comms = st.comms.clone();
                let v = Scalar::from(st.amounts[0] & !(1u64 << 3)) - Scalar::from(8u64);
                st3.comms[0] = commit(&v, &st.opens[0]);
                let d = format!("digits:{}", join(&digits2.iter().map(hs).collect::<Vec<_>>()));
                mprove(o, &mut r, "out-of-range.negative-digit", "R", w, &st3.ctx(), &bls, &d, &st.opens, "-");
            }
            // committed value != proven value (each slot), wrong opening
            for j in 0..bls.len() {
                let mut c = st.ctx();
                let p = st.comms[j] + G;
                c[32 * j..32 * j + 32].copy_from_slice(p.compress().as_bytes());
                mprove(o, &mut r, "wrong-commitment", "R", w, &c, &bls, &bits, &st.opens, "-");
            }
            let mut wo = st.opens.clone(); wo[0] += Scalar::ONE;
            mprove(o, &mut r, "wrong-opening", "R", w, &st.ctx(), &bls, &bits, &wo, "-");
            // residuals on A, S, T_1, T_2 and every L_j / R_j
            for k in ["oA", "oS", "oT1", "oT2"] {
                mprove(o, &mut r, "residual.AST", "R", w, &st.ctx(), &bls, &bits, &st.opens, &format!("{}={}", k, hp(&rp)));
            }
            for j in 0..lg {
                if !th && j % 2 == 1 { continue; }
                mprove(o, &mut r, "residual.L", "R", w, &st.ctx(), &bls, &bits, &st.opens, &format!("oL{}={}", j, hp(&rp)));
                mprove(o, &mut r, "residual.R", "R", w, &st.ctx(), &bls, &bits, &st.opens, &format!("oR{}={}", j, hp(&rp)));
            }
            // offsetting errors in the two equations: T_1 residual against A residual, blinding offsets that cancel under unit weight
            mprove(o, &mut r, "residual.cancel", "R", w, &st.ctx(), &bls, &bits, &st.opens, &format!("oA={},oT1={}", hp(&rp), hp(&-rp)));
            mprove(o, &mut r, "blinding.cancel", "R", w, &st.ctx(), &bls, &bits, &st.opens, &format!("dTxb={},dEb={}", hs(&Scalar::ONE), hs(&-Scalar::ONE)));
            mprove(o, &mut r, "blinding.single", "R", w, &st.ctx(), &bls, &bits, &st.opens, &format!("dTxb={}", hs(&Scalar::ONE)));
            mprove(o, &mut r, "blinding.single", "R", w, &st.ctx(), &bls, &bits, &st.opens, &format!("dEb={}", hs(&Scalar::ONE)));
            mprove(o, &mut r, "tx.offset", "R", w, &st.ctx(), &bls, &bits, &st.opens, &format!("dTx={}", hs(&Scalar::ONE)));
            // degenerate nonces: with s_L = s_R = 0 every relation still holds and zeroing one blinding makes
            // exactly one of S, T_1, T_2 the identity; such proof points must be refused
            mprove(o, &mut r, "identity.S", "R", w, &st.ctx(), &bls, &bits, &st.opens, "zsL=1,zsR=1,zSb=1");
            mprove(o, &mut r, "identity.T1", "R", w, &st.ctx(), &bls, &bits, &st.opens, "zsL=1,zsR=1,zT1b=1");
            mprove(o, &mut r, "identity.T2", "R", w, &st.ctx(), &bls, &bits, &st.opens, "zsL=1,zsR=1,zT2b=1");
            mprove(o, &mut r, "identity.T2", "R", w, &st.ctx(), &bls, &bits, &st.opens, "zsR=1,zT2b=1");
            mprove(o, &mut r, "identity.T2", "R", w, &st.ctx(), &bls, &bits, &st.opens, "zsL=1,zT2b=1");
            // degenerate but admissible: zero vectors with non-zero blindings, zero blinding of A (no a-priori verdict)
            mprove(o, &mut r, "degenerate-nonces", "-", w, &st.ctx(), &bls, &bits, &st.opens, "zsL=1,zsR=1");
            mprove(o, &mut r, "degenerate-nonces", "-", w, &st.ctx(), &bls, &bits, &st.opens, "zAb=1");
            mprove(o, &mut r, "degenerate-nonces", "-", w, &st.ctx(), &bls, &bits, &st.opens, "zSb=1,zT1b=1,zT2b=1");
            // tampered a / b (also with compensating offsets)
            mprove(o, &mut r, "ipp.ab", "R", w, &st.ctx(), &bls, &bits, &st.opens, &format!("dA={}", hs(&Scalar::ONE)));
            mprove(o, &mut r, "ipp.ab", "R", w, &st.ctx(), &bls, &bits, &st.opens, &format!("dB={}", hs(&Scalar::ONE)));
            mprove(o, &mut r, "ipp.ab", "R", w, &st.ctx(), &bls, &bits, &st.opens, &format!("dA={},dB={}", hs(&Scalar::ONE), hs(&-Scalar::ONE)));
            // ---- malformed contexts, each with a proof generated for exactly those context bytes
            // non-zero bit-length padding
            let mut c = st.ctx(); c[256 + bls.len()] = 7;
            mprove(o, &mut r, "ctx.bitlen-padding", "R", w, &c, &bls, &bits, &st.opens, "-");
            let mut c = st.ctx(); c[263] = 1;
            mprove(o, &mut r, "ctx.bitlen-padding", "R", w, &c, &bls, &bits, &st.opens, "-");
            // non-zero commitment padding after a zero slot
            if bls.len() < 7 {
                let mut c = st.ctx();
                let k = bls.len() + 1;
                c[32 * k..32 * k + 32].copy_from_slice(rp.compress().as_bytes());
                mprove(o, &mut r, "ctx.commitment-padding", "R", w, &c, &bls, &bits, &st.opens, "-");
                let mut c = st.ctx(); c[32 * 7 + 31] = 1;
                mprove(o, &mut r, "ctx.commitment-padding", "R", w, &c, &bls, &bits, &st.opens, "-");
            }
            // undecodable commitment in a used slot
            let mut c = st.ctx(); c[0..32].copy_from_slice(&[0xffu8; 32]);
            mprove(o, &mut r, "ctx.undecodable", "R", w, &c, &bls, &bits, &st.opens, "-");
            // a zero commitment in the middle: later slots become padding
            if bls.len() >= 3 {
                let mut c = st.ctx(); for x in c[32..64].iter_mut() { *x = 0; }
                mprove(o, &mut r, "ctx.zero-in-middle", "R", w, &c, &bls, &bits, &st.opens, "-");
            }
            // bit length 0 in a used slot (second commitment to value 0 with bit length 0)
            {
                let bl0: Vec<usize> = if w == 64 { vec![64, 0] } else if w == 128 { vec![64, 0, 64] } else { vec![64, 64, 0, 64, 64] };
                let mut s0 = statement(&mut r, &bl0);
                for (j, n) in bl0.iter().enumerate() { if *n == 0 { s0.amounts[j] = 0; s0.comms[j] = commit(&Scalar::ZERO, &s0.opens[j]); } }
                let b0 = format!("bits:{}", join(&s0.amounts));
                mprove(o, &mut r, "ctx.bitlen-zero", "R", w, &s0.ctx(), &bl0, &b0, &s0.opens, "-");
            }
            // bit length above 64 (65 + 63 = 128, 127 + 1, 255 + 1): needs width >= 128
            if w >= 128 {
                let blx: Vec<usize> = if w == 128 { vec![65, 63] } else { vec![65, 63, 64, 64] };
                let mut sx = statement(&mut r, &blx);
                sx.amounts[0] = u64::MAX; sx.comms[0] = commit(&Scalar::from(u64::MAX), &sx.opens[0]);
                let bx = format!("bits:{}", join(&sx.amounts));
                mprove(o, &mut r, "ctx.bitlen-65", "R", w, &sx.ctx(), &blx, &bx, &sx.opens, "-");
                let bly: Vec<usize> = if w == 128 { vec![127, 1] } else { vec![255, 1] };
                let sy = statement(&mut r, &bly);
                let by = format!("bits:{}", join(&sy.amounts));
                mprove(o, &mut r, "ctx.bitlen-large", "R", w, &sy.ctx(), &bly, &by, &sy.opens, "-");
            }
            // a used bit-length byte above 64 in the context, under a proof that is genuine for 64 bits in that slot
            // (transcript over the context bytes as given): the declared length is what counts
            {
                let bl64: Vec<usize> = vec![64; w / 64];
                let s64 = statement(&mut r, &bl64);
                let b64 = format!("bits:{}", join(&s64.amounts));
                for declared in [65u8, 96, 128, 200, 255] {
                    for slot in [0usize, bl64.len() - 1] {
                        let mut c = s64.ctx(); c[256 + slot] = declared;
                        mprove(o, &mut r, "ctx.bitlen-declared-above-64", "R", w, &c, &bl64, &b64, &s64.opens, "-");
                    }
                }
                // and a declared length below what the proof was made for (the other lengths unchanged)
                let mut c = s64.ctx(); c[256] = 32;
                mprove(o, &mut r, "ctx.bitlen-declared-below", "R", w, &c, &bl64, &b64, &s64.opens, "-");
            }
            // unused slots that are not all zero, under a proof that is genuine for the context bytes as given: one dirty
            // byte, and several whose xor / sum / and is zero (a check folding the tail into one value misses those)
            {
                let blu: Vec<usize> = vec![w / 2, w / 2].into_iter().flat_map(|x| if x > 64 { vec![64; x / 64] } else { vec![x] }).collect();
                let su = statement(&mut r, &blu);
                let bu = format!("bits:{}", join(&su.amounts));
                let m = blu.len();
                let tails: Vec<Vec<u8>> = vec![vec![7], vec![7, 7], vec![0, 0x21, 0, 0x03, 0, 0x22], vec![0x80, 0x80], vec![1, 255], vec![0xff, 0xff, 0xff, 0xff], vec![0x55, 0xaa], vec![0, 0, 0, 9]];
                for t in tails {
                    if m + t.len() > 8 { continue; }
                    let mut c = su.ctx();
                    for (i, v) in t.iter().enumerate() { c[256 + m + i] = *v; }
                    mprove(o, &mut r, "ctx.unused-bitlen-dirty", "R", w, &c, &blu, &bu, &su.opens, "-");
                }
                // the same for the unused commitment slots: two equal non-zero slots, complementary slots
                let fill = r.bytes(32);
                for (a, b) in [(fill.clone(), fill.clone()), (fill.clone(), fill.iter().map(|x| !x).collect::<Vec<u8>>())] {
                    if m + 2 > 8 { continue; }
                    let mut c = su.ctx();
                    c[32 * m..32 * m + 32].copy_from_slice(&a);
                    c[32 * (m + 1)..32 * (m + 1) + 32].copy_from_slice(&b);
                    mprove(o, &mut r, "ctx.unused-commitment-dirty", "R", w, &c, &blu, &bu, &su.opens, "-");
                }
            }
            // sum of bit lengths != width: a valid 64-bit context/proof sent to the wrong instruction is a length error;
            // here the bit lengths are altered under an otherwise honest proof (compare only)
            let mut c = st.ctx(); c[256] = c[256].wrapping_add(1);
            mprove(o, &mut r, "ctx.sum", "-", w, &c, &bls, &bits, &st.opens, "-");
            let mut c = st.ctx(); c[256] = c[256].wrapping_sub(1);
            mprove(o, &mut r, "ctx.sum", "-", w, &c, &bls, &bits, &st.opens, "-");
            // no commitment at all
            let c = vec![0u8; 264];
            mprove(o, &mut r, "ctx.empty", "R", w, &c, &bls, &bits, &st.opens, "-");
        }
        // byte-level mutations of an accepted Rust proof
        let bls: Vec<usize> = vec![w.min(64); w / w.min(64)];
        let st = statement(&mut r, &bls);
        let a = format!("{} {}", w, st.args());
        let av: Vec<&str> = a.split_whitespace().collect();
        if let Some(Ok(bytes)) = crate::range::construct(&av) {
            let ell = crate::gen_sigma::ell_bytes();
            let plen = bytes.len();
            // scalar fields: t_x, t_x_blinding, e_blinding, a, b  (+ k*ell never accepted)
            for f in [264 + 128, 264 + 160, 264 + 192, plen - 64, plen - 32] {
                let cur: [u8; 32] = bytes[f..f + 32].try_into().unwrap();
                if let Some(n) = crate::gen_sigma::add256(&cur, &ell) {
                    let mut m = bytes.clone(); m[f..f + 32].copy_from_slice(&n);
                    o.op_exp("bytes.z+ell", "R", &format!("verify range{} {}", w, hex(&m)));
                }
                // the same scalar with each of the three top bits set (2^253, 2^254, 2^255 added: all non-canonical), and k*ell for k = 2..4
                for bit in [5u8, 6, 7] {
                    let mut m = bytes.clone(); m[f + 31] |= 1 << bit;
                    o.op_exp("bytes.scalar-high-bit", "R", &format!("verify range{} {}", w, hex(&m)));
                }
                let mut c2 = cur;
                for _ in 0..3 {
                    if let Some(n) = crate::gen_sigma::add256(&c2, &ell) { c2 = n; }
                    if let Some(n) = crate::gen_sigma::add256(&c2, &ell) {
                        let mut m = bytes.clone(); m[f..f + 32].copy_from_slice(&n);
                        o.op_exp("bytes.z+k*ell", "R", &format!("verify range{} {}", w, hex(&m)));
                    }
                }
            }
            // every scalar field just above the group order (proof re-generated until that scalar is below 2^248)
            for f in [264 + 128, 264 + 160, 264 + 192, plen - 64, plen - 32] {
                let mut make = || -> Option<Vec<u8>> {
                    let st = statement(&mut r, &bls);
                    let a = format!("{} {}", w, st.args());
                    let av: Vec<&str> = a.split_whitespace().collect();
                    match crate::range::construct(&av) { Some(Ok(b)) => Some(b), _ => None }
                };
                if let Some(m) = crate::gen_sigma::plus_ell_small(&mut make, f) {
                    o.op_exp("bytes.z+ell.just-above-order", "R", &format!("verify range{} {}", w, hex(&m)));
                }
            }
            for (_, sv) in crate::gen_sigma::special_values().iter() {
                let nf = plen / 32;
                let f = 264 + 32 * (r.below(((plen - 264) / 32) as u64) as usize);
                let _ = nf;
                let mut m = bytes.clone(); m[f..f + 32].copy_from_slice(sv);
                o.op("bytes.special", &format!("verify range{} {}", w, hex(&m)));
                let f = 32 * (r.below(8) as usize);
                let mut m = bytes.clone(); m[f..f + 32].copy_from_slice(sv);
                o.op("bytes.special-ctx", &format!("verify range{} {}", w, hex(&m)));
            }
            for len in [0usize, 1, 264, plen - 32, plen - 1, plen + 1, plen + 32, plen + 64] {
                let mut m = bytes.clone(); m.resize(len, 0);
                o.op("bytes.length", &format!("verify range{} {}", w, hex(&m)));
            }
            // the same bytes presented to the other widths
            for ow in [64usize, 128, 256] { if ow != w { o.op("bytes.other-width", &format!("verify range{} {}", ow, hex(&bytes))); } }
        }
    }
    let _ = ZERO_PT;
}

/// range-proof constructors: honest (C05) and refused (C20) witnesses
pub fn gen_range_new(o: &mut Out, tier: &str, sd: u64, honest: bool) {
    let mut r = Rng::new(sd, if honest { "c05r" } else { "c20r" });
    let th = tier == "thorough";
    let widths: Vec<usize> = if th { vec![64, 128, 256] } else { vec![64, 128] };
    if honest {
        // proofs of different widths built and verified one after the other in one process, with rejected
        // (malformed) proofs in between
        for ws in if th { vec!["64,256,128,64,256,64", "256,64,128", "128,128,256,64"] } else { vec!["64,256,128,64"] } {
            o.op("range.width-sequence", &format!("rseq {} {}", ws, hex(&r.bytes(8))));
        }
    }
    for &w in widths.iter() {
        if honest {
            for bls in splits(&mut r, w, th).into_iter().take(if th { 100 } else { 4 }) {
                let st = statement(&mut r, &bls);
                let s = seed(&mut r);
                o.op("range.new", &format!("rnew {} {} {}", w, st.args(), s));
                o.op("range.prove", &format!("rprove {} {} {}", w, st.args(), s));
            }
        } else {
            let good: Vec<usize> = vec![w.min(64); w / w.min(64)];
            let st = statement(&mut r, &good);
            o.op("range.ok", &format!("rnew {} {} {}", w, st.args(), seed(&mut r)));
            // mismatched vector lengths
            let mut s = statement(&mut r, &good); s.amounts.push(1);
            o.op_exp("range.len-amounts", "err", &format!("rnew {} {} {}", w, s.args(), seed(&mut r)));
            let mut s = statement(&mut r, &good); s.opens.pop();
            o.op_exp("range.len-openings", "err", &format!("rnew {} {} {}", w, s.args(), seed(&mut r)));
            let mut s = statement(&mut r, &good); s.comms.pop();
            o.op_exp("range.len-commitments", "err", &format!("rnew {} {} {}", w, s.args(), seed(&mut r)));
            let mut s = statement(&mut r, &good); s.bls.push(0);
            o.op_exp("range.len-bitlens", "err", &format!("rnew {} {} {}", w, s.args(), seed(&mut r)));
            // more than eight commitments (nine, sum still = width)
            let mut nine = vec![1usize; 9]; nine[8] = w - 8; if nine[8] <= 64 {
                let s = statement(&mut r, &nine);
                o.op_exp("range.nine", "err", &format!("rnew {} {} {}", w, s.args(), seed(&mut r)));
            }
            let mut nine = vec![w / 16; 9]; nine[8] = w - 8 * (w / 16);
            let s = statement(&mut r, &nine);
            o.op_exp("range.nine", "err", &format!("rnew {} {} {}", w, s.args(), seed(&mut r)));
            // identity commitment (amount 0, opening 0)
            let mut s = statement(&mut r, &good); s.amounts[0] = 0; s.opens[0] = Scalar::ZERO; s.comms[0] = commit(&Scalar::ZERO, &Scalar::ZERO);
            o.op_exp("range.identity-commitment", "err", &format!("rnew {} {} {}", w, s.args(), seed(&mut r)));
            // ... in every slot of every batch size (1, 2, 4 and the full 8 commitments)
            for m in [1usize, 2, 4, 8] {
                if w / m > 64 || w / m == 0 { continue; }
                let split = vec![w / m; m];
                for slot in 0..m {
                    let mut s = statement(&mut r, &split);
                    s.amounts[slot] = 0; s.opens[slot] = Scalar::ZERO; s.comms[slot] = commit(&Scalar::ZERO, &Scalar::ZERO);
                    o.op_exp("range.identity-commitment-slot", "err", &format!("rnew {} {} {}", w, s.args(), seed(&mut r)));
                }
            }
            // bit lengths: zero, above 64, wrong sum
            let z: Vec<usize> = if w == 64 { vec![64, 0] } else { let mut v = good.clone(); v.push(0); v };
            let s = statement(&mut r, &z);
            o.op_exp("range.bitlen-zero", "err", &format!("rnew {} {} {}", w, s.args(), seed(&mut r)));
            if w >= 128 {
                let big: Vec<usize> = if w == 128 { vec![65, 63] } else { vec![65, 63, 64, 64] };
                let s = statement(&mut r, &big);
                o.op_exp("range.bitlen-65", "err", &format!("rnew {} {} {}", w, s.args(), seed(&mut r)));
                let big: Vec<usize> = if w == 128 { vec![128] } else { vec![256] };
                let s = statement(&mut r, &big);
                o.op_exp("range.bitlen-large", "err", &format!("rnew {} {} {}", w, s.args(), seed(&mut r)));
            }
            for delta in [1isize, -1, 64, -32] {
                let mut v = good.clone();
                let n = v[0] as isize + delta;
                if n < 1 || n > 64 { continue; }
                v[0] = n as usize;
                let s = statement(&mut r, &v);
                o.op_exp("range.sum", "err", &format!("rnew {} {} {}", w, s.args(), seed(&mut r)));
            }
            // a half-width statement presented to this width
            let half: Vec<usize> = vec![(w / 2).min(64); (w / 2) / (w / 2).min(64)];
            let s = statement(&mut r, &half);
            o.op_exp("range.sum-half", "err", &format!("rnew {} {} {}", w, s.args(), seed(&mut r)));
            // commitment not matching amount/opening is NOT checked by the constructor (the proof simply will not verify): compare only
            let mut s = statement(&mut r, &good); s.comms[0] += G;
            o.op("range.unchecked-commitment", &format!("rnew {} {} {}", w, s.args(), seed(&mut r)));
        }
    }
}

/// model-proved honest range proofs for all three widths (model prover -> Rust verifier)
pub fn gen_c06_range(o: &mut Out, tier: &str, sd: u64) {
    let mut r = Rng::new(sd, "c06r");
    let th = tier == "thorough";
    for w in [64usize, 128, 256] {
        let all = splits(&mut r, w, th);
        for bls in all.into_iter().take(if th { 20 } else { 2 }) {
            let st = statement(&mut r, &bls);
            let bits = format!("bits:{}", join(&st.amounts));
            mprove(o, &mut r, "range.model-proved", "A", w, &st.ctx(), &bls, &bits, &st.opens, "-");
        }
    }
}

//! generators for C01 / C02 / C03 (adversarial families) and the honest / constructor families
//! shared with C05, C06, C19, C20
use crate::gen::Out;
use crate::sigma::*;
use crate::util::*;
use curve25519_dalek::{
    constants::RISTRETTO_BASEPOINT_POINT as G, ristretto::RistrettoPoint, scalar::Scalar, traits::Identity,
};
use solana_zk_sdk::encryption::pedersen::H;

pub const ZERO_PT: &str = "0000000000000000000000000000000000000000000000000000000000000000";

/// ℓ as a 256-bit little-endian integer
pub fn ell_bytes() -> [u8; 32] {
    let mut b = (-Scalar::ONE).to_bytes(); // ℓ − 1
    // add one
    for x in b.iter_mut() {
        let (v, c) = x.overflowing_add(1);
        *x = v;
        if !c {
            break;
        }
    }
    b
}

/// 32-byte LE integer addition; `None` on overflow of 2^256
pub fn add256(a: &[u8], b: &[u8]) -> Option<[u8; 32]> {
    let mut out = [0u8; 32];
    let mut carry = 0u16;
    for i in 0..32 {
        let v = a[i] as u16 + b[i] as u16 + carry;
        out[i] = v as u8;
        carry = v >> 8;
    }
    if carry == 0 {
        Some(out)
    } else {
        None
    }
}

/// special 32-byte values (Appendix A of DESIGN.md)
pub fn special_values() -> Vec<(&'static str, [u8; 32])> {
    let mut v: Vec<(&'static str, [u8; 32])> = vec![];
    let le = |n: u128| {
        let mut b = [0u8; 32];
        b[..16].copy_from_slice(&n.to_le_bytes());
        b
    };
    v.push(("zero", le(0)));
    v.push(("one", le(1)));
    v.push(("two", le(2)));
    let ell = ell_bytes();
    let ellm1 = (-Scalar::ONE).to_bytes();
    v.push(("ell-1", ellm1));
    v.push(("ell", ell));
    v.push(("ell+1", add256(&ell, &le(1)).unwrap()));
    v.push(("2ell", add256(&ell, &ell).unwrap()));
    // p = 2^255 - 19
    let mut p = [0xffu8; 32];
    p[0] = 0xed;
    p[31] = 0x7f;
    let mut pm1 = p;
    pm1[0] = 0xec;
    let mut pp1 = p;
    pp1[0] = 0xee;
    v.push(("p-1", pm1));
    v.push(("p", p));
    v.push(("p+1", pp1));
    let mut m = [0xffu8; 32];
    m[31] = 0x7f;
    v.push(("2^255-1", m));
    let mut hi = [0u8; 32];
    hi[31] = 0x80;
    v.push(("2^255", hi));
    v.push(("ff", [0xffu8; 32]));
    v.push(("basepoint", G.compress().to_bytes()));
    v.push(("H", H.compress().to_bytes()));
    let mut bh = G.compress().to_bytes();
    bh[31] |= 0x80;
    v.push(("basepoint|hibit", bh));
    // a valid field element that is not a valid ristretto encoding (negative s): basepoint s negated
    let mut neg = [0u8; 32];
    // p - s
    let s = G.compress().to_bytes();
    let mut borrow = 0i16;
    for i in 0..32 {
        let d = p[i] as i16 - s[i] as i16 - borrow;
        if d < 0 {
            neg[i] = (d + 256) as u8;
            borrow = 1;
        } else {
            neg[i] = d as u8;
            borrow = 0;
        }
    }
    v.push(("neg-basepoint-s", neg));
    // valid Ristretto encodings just below p = 2^255 - 19 and with other extreme top bytes (found by search from a
    // fixed start, so they are the same on every run): canonical, must decode like any other point
    {
        let try_pt = |b: &[u8; 32]| curve25519_dalek::ristretto::CompressedRistretto(*b).decompress().is_some();
        // top four bytes ff ff ff 7f: count down from p - 1 over even values
        let mut cand = pm1;
        let mut found = 0;
        for _ in 0..4000 {
            if cand[0] & 1 == 0 && try_pt(&cand) {
                v.push((if found == 0 { "valid-near-p-1" } else { "valid-near-p-2" }, cand));
                found += 1;
                if found == 2 { break; }
            }
            // cand -= 1 (never borrows past byte 1 within this range)
            if cand[0] == 0 { cand[0] = 0xff; cand[1] = cand[1].wrapping_sub(1); } else { cand[0] -= 1; }
        }
        // top byte 0x7f, everything else from a counter
        let mut cand = [0u8; 32];
        cand[31] = 0x7f; cand[30] = 0xff; cand[29] = 0xff; cand[28] = 0xff;
        for k in 0..4000u32 {
            cand[0] = (2 * k) as u8; cand[1] = ((2 * k) >> 8) as u8;
            if try_pt(&cand) { v.push(("valid-top-7fffffff", cand)); break; }
        }
        let mut cand = [0u8; 32];
        cand[31] = 0x40;
        for k in 0..4000u32 {
            cand[0] = (2 * k) as u8; cand[1] = ((2 * k) >> 8) as u8;
            if try_pt(&cand) { v.push(("valid-top-40", cand)); break; }
        }
    }
    v.push(("three", le(3)));
    v.push(("four", le(4)));
    v.push(("2^252", {
        let mut b = [0u8; 32];
        b[31] = 0x10;
        b
    }));
    v
}

pub struct Kp {
    pub s: Scalar,
    pub p: RistrettoPoint,
}
pub fn kp(r: &mut Rng) -> Kp {
    let s = rand_nonzero(r);
    Kp { s, p: s.invert() * *H }
}
pub fn commit(x: &Scalar, r: &Scalar) -> RistrettoPoint {
    x * G + r * *H
}
pub fn amount(r: &mut Rng) -> u64 {
    const B: [u64; 12] = [0, 1, 2, 55, 65535, 65536, (1 << 32) - 1, 1 << 32, (1 << 32) + 1, 1 << 63, u64::MAX - 1, u64::MAX];
    if r.below(3) == 0 {
        r.u64()
    } else {
        *r.pick(&B)
    }
}
fn nonces(r: &mut Rng, n: usize) -> String {
    (0..n).map(|_| hs(&rand_scalar(r))).collect::<Vec<_>>().join(" ")
}
/// every way of zeroing a non-empty subset of `n` nonces (the others random); no a-priori verdict:
/// which masking commitments become the identity — and whether the policy names them — is for the
/// model to decide and the implementation to match
fn nonce_subsets(r: &mut Rng, n: usize) -> Vec<String> {
    (1u32..(1 << n)).map(|m| (0..n).map(|i| if m >> i & 1 == 1 { ZERO_PT.to_string() } else { hs(&rand_nonzero(r)) }).collect::<Vec<_>>().join(" ")).collect()
}
fn zeros(n: usize) -> String {
    vec![ZERO_PT; n].join(" ")
}

/// all vectors in {-b..b}^k except 0
/// an accepted instance (from `make`) whose canonical scalar at byte offset `f` is below 2^248, with the group
/// order added to that scalar: a non-canonical encoding whose top byte is 0x10, just above the order
pub fn plus_ell_small(make: &mut dyn FnMut() -> Option<Vec<u8>>, f: usize) -> Option<Vec<u8>> {
    let ell = ell_bytes();
    for _ in 0..400 {
        let b = make()?;
        if f + 32 > b.len() { return None; }
        if b[f + 31] != 0 { continue; }
        let cur: [u8; 32] = b[f..f + 32].try_into().ok()?;
        let n = add256(&cur, &ell)?;
        let mut m = b.clone();
        m[f..f + 32].copy_from_slice(&n);
        return Some(m);
    }
    None
}

pub fn residual_box(k: usize, b: i8) -> Vec<Vec<i8>> {
    let mut out = vec![];
    let side = (2 * b + 1) as usize;
    let n = side.pow(k as u32);
    for mut i in 0..n {
        let mut v = vec![];
        for _ in 0..k {
            v.push((i % side) as i8 - b);
            i /= side;
        }
        if v.iter().any(|x| *x != 0) {
            out.push(v);
        }
    }
    out
}
/// the family named by the properties, {-1,0,1}^k \ 0, extended by the box {-2..2}^k (all of it
/// when it is small, otherwise the vectors with at most two non-zero entries): catches weights that
/// became linearly dependent with small integer coefficients (`w + w` for `w * w`, a shared power, ...)
pub fn residual_vectors(k: usize) -> Vec<Vec<i8>> {
    let mut out = residual_box(k, 1);
    for v in residual_box(k, 2) {
        let big = v.iter().any(|x| x.abs() == 2);
        let nz = v.iter().filter(|x| **x != 0).count();
        if big && (k <= 3 || nz <= 2) {
            out.push(v);
        }
    }
    out
}
pub fn offsets(v: &[i8], rp: &RistrettoPoint) -> String {
    v.iter()
        .map(|x| match x {
            0 => ZERO_PT.to_string(),
            k if *k > 0 => hp(&(Scalar::from(*k as u64) * rp)),
            k => hp(&-(Scalar::from((-*k) as u64) * rp)),
        })
        .collect::<Vec<_>>()
        .join(" ")
}


/// 32-byte strings that are the encoding of no group element: fixed ones (a one in the low byte, all ones, p-1 ...)
/// kept when the decoder of the curve library refuses them, then random ones
pub fn undecodable(r: &mut Rng, n: usize) -> Vec<String> {
    use curve25519_dalek::ristretto::CompressedRistretto;
    let mut one = [0u8; 32]; one[0] = 1;
    let mut pm1 = [0xffu8; 32]; pm1[0] = 0xec; pm1[31] = 0x7f;
    let mut hi = [0u8; 32]; hi[31] = 0x80;
    let mut v: Vec<String> = vec![];
    for c in [one, [0xffu8; 32], pm1, hi] {
        if CompressedRistretto(c).decompress().is_none() { v.push(hex(&c)); }
    }
    while v.len() < n + 1 {
        let b: [u8; 32] = r.bytes(32).try_into().unwrap();
        if CompressedRistretto(b).decompress().is_none() { v.push(hex(&b)); }
    }
    // rotate which ones the quick tier sees
    let k = r.below(v.len() as u64) as usize;
    v.rotate_left(k);
    v.truncate(n);
    v
}

/// a masking commitment sent as a string that decodes to no group element (the prover absorbs exactly those bytes,
/// so the challenge matches), at each of the `k` positions, with random nonces and with each `zero_sets` entry of
/// nonce positions set to zero (the commitment it replaces is then the identity, and reading the bad string as the
/// identity would make every equation hold): never accepted
fn raw_masks(o: &mut Out, r: &mut Rng, fam: &str, name: &str, args: &str, n_nonces: usize, k: usize, zero_sets: &[Vec<usize>], nbad: usize) {
    for j in 0..k {
        for u in undecodable(r, nbad) {
            let offs: Vec<String> = (0..k).map(|i| if i == j { format!("raw:{}", u) } else { ZERO_PT.to_string() }).collect();
            let mut sets: Vec<Vec<usize>> = vec![vec![]];
            sets.extend(zero_sets.iter().cloned());
            for zs in sets {
                let ns: Vec<String> = (0..n_nonces).map(|i| if zs.contains(&i) { ZERO_PT.to_string() } else { hs(&rand_nonzero(r)) }).collect();
                o.op(fam, &format!("mprove R {} {} {} {}", name, args, ns.join(" "), offs.join(" ")));
            }
        }
    }
}

/// canonical scalars at the top of the range: 2^252 .. l-1 (top byte 0x10), just below 2^252, 2^251, and l-1, l-2
pub fn top_scalars(r: &mut Rng) -> Vec<Scalar> {
    let two252 = { let mut b = [0u8; 32]; b[31] = 0x10; Scalar::from_bytes_mod_order(b) };
    let mut lowrand = [0u8; 32]; lowrand[..15].copy_from_slice(&r.bytes(15));
    vec![two252, two252 + Scalar::ONE, two252 + Scalar::from_bytes_mod_order(lowrand), -Scalar::ONE, -Scalar::from(2u64),
         two252 - Scalar::ONE, { let mut b = [0u8; 32]; b[31] = 0x08; Scalar::from_bytes_mod_order(b) }]
}
/// honest proofs one of whose responses is a chosen canonical scalar at the top of the range: with a zero witness
/// component the response equals the nonce (z = c*0 + y). `args` has a zero amount and/or zero opening; the chosen
/// value is put in each nonce position in turn
fn top_responses(o: &mut Out, r: &mut Rng, fam: &str, name: &str, args: &str, n_nonces: usize, k: usize) {
    for t in top_scalars(r) {
        for pos in 0..n_nonces {
            let ns: Vec<String> = (0..n_nonces).map(|i| if i == pos { hs(&t) } else { hs(&rand_nonzero(r)) }).collect();
            o.op(fam, &format!("mprove A {} {} {} {}", name, args, ns.join(" "), zeros(k)));
        }
    }
}

// ------------------------------------------------------------------ statements
pub struct ZeroSt { pub k: Kp, pub c: RistrettoPoint, pub d: RistrettoPoint }
pub fn zero_st(r: &mut Rng, x: &Scalar) -> ZeroSt {
    let k = kp(r);
    let o = rand_scalar(r);
    ZeroSt { c: commit(x, &o), d: o * k.p, k }
}
impl ZeroSt {
    pub fn wit(&self) -> String { format!("{} {} {} {}", hs(&self.k.s), hp(&self.k.p), hp(&self.c), hp(&self.d)) }
}

pub struct CtCt { pub k1: Kp, pub k2: Kp, pub c1: RistrettoPoint, pub d1: RistrettoPoint, pub c2: RistrettoPoint, pub d2: RistrettoPoint, pub r: Scalar, pub amt: u64 }
pub fn ctct_st(r: &mut Rng, amt: u64, amt2: u64) -> CtCt {
    let (k1, k2) = (kp(r), kp(r));
    let (o1, o2) = (rand_scalar(r), rand_scalar(r));
    CtCt { c1: commit(&Scalar::from(amt), &o1), d1: o1 * k1.p, c2: commit(&Scalar::from(amt2), &o2), d2: o2 * k2.p, r: o2, amt, k1, k2 }
}
impl CtCt {
    /// args of new/prove
    pub fn wit(&self) -> String {
        format!("{} {} {} {} {} {} {} {} {}", hs(&self.k1.s), hp(&self.k1.p), hp(&self.k2.p), hp(&self.c1), hp(&self.d1), hp(&self.c2), hp(&self.d2), hs(&self.r), self.amt)
    }
    /// args of mprove (before nonces)
    pub fn mwit(&self, x: &Scalar) -> String {
        format!("{} {} {} {} {} {} {} {} {}", hs(&self.k1.s), hs(x), hs(&self.r), hp(&self.k1.p), hp(&self.k2.p), hp(&self.c1), hp(&self.d1), hp(&self.c2), hp(&self.d2))
    }
}

pub struct CtCmt { pub k: Kp, pub c: RistrettoPoint, pub d: RistrettoPoint, pub cm: RistrettoPoint, pub r: Scalar, pub amt: u64 }
pub fn ctcmt_st(r: &mut Rng, amt: u64, amt2: u64) -> CtCmt {
    let k = kp(r);
    let (o1, o2) = (rand_scalar(r), rand_scalar(r));
    CtCmt { c: commit(&Scalar::from(amt), &o1), d: o1 * k.p, cm: commit(&Scalar::from(amt2), &o2), r: o2, amt, k }
}
impl CtCmt {
    pub fn wit(&self) -> String {
        format!("{} {} {} {} {} {} {}", hs(&self.k.s), hp(&self.k.p), hp(&self.c), hp(&self.d), hp(&self.cm), hs(&self.r), self.amt)
    }
    pub fn mwit(&self, x: &Scalar) -> String {
        format!("{} {} {} {} {} {} {}", hs(&self.k.s), hs(x), hs(&self.r), hp(&self.k.p), hp(&self.c), hp(&self.d), hp(&self.cm))
    }
}

/// grouped ciphertext statement with n keys
pub struct Val { pub ps: Vec<RistrettoPoint>, pub c: RistrettoPoint, pub ds: Vec<RistrettoPoint>, pub r: Scalar, pub amt: u64 }
pub fn val_st(r: &mut Rng, n: usize, amt: u64, ps: Option<Vec<RistrettoPoint>>) -> Val {
    let ps = ps.unwrap_or_else(|| (0..n).map(|_| kp(r).p).collect());
    let o = rand_scalar(r);
    Val { c: commit(&Scalar::from(amt), &o), ds: ps.iter().map(|p| o * p).collect(), r: o, amt, ps }
}
impl Val {
    pub fn pts(&self) -> String {
        let mut v: Vec<String> = self.ps.iter().map(hp).collect();
        v.push(hp(&self.c));
        v.extend(self.ds.iter().map(hp));
        v.join(" ")
    }
    pub fn wit(&self) -> String { format!("{} {} {}", self.pts(), self.amt, hs(&self.r)) }
    pub fn mwit(&self) -> String { format!("{} {} {}", hs(&Scalar::from(self.amt)), hs(&self.r), self.pts()) }
}
pub struct BVal { pub lo: Val, pub hi: Val }
impl BVal {
    pub fn pts(&self) -> String {
        let mut v: Vec<String> = self.lo.ps.iter().map(hp).collect();
        v.push(hp(&self.lo.c));
        v.extend(self.lo.ds.iter().map(hp));
        v.push(hp(&self.hi.c));
        v.extend(self.hi.ds.iter().map(hp));
        v.join(" ")
    }
    pub fn wit(&self) -> String { format!("{} {} {} {} {}", self.pts(), self.lo.amt, self.hi.amt, hs(&self.lo.r), hs(&self.hi.r)) }
    pub fn mwit(&self) -> String {
        format!("{} {} {} {} {}", hs(&Scalar::from(self.lo.amt)), hs(&Scalar::from(self.hi.amt)), hs(&self.lo.r), hs(&self.hi.r), self.pts())
    }
}
pub fn bval_st(r: &mut Rng, n: usize, al: u64, ah: u64, ps: Option<Vec<RistrettoPoint>>) -> BVal {
    let lo = val_st(r, n, al, ps);
    let hi = val_st(r, n, ah, Some(lo.ps.clone()));
    BVal { lo, hi }
}

/// cap statement. fee computation: delta = fee*10000 - amount*bp (as scalars)
pub struct CapSt {
    pub cm: RistrettoPoint, pub cd: RistrettoPoint, pub cc: RistrettoPoint,
    pub max: u64, pub pct: u64, pub delta: u64,
    pub rp: Scalar, pub rd: Scalar, pub rc: Scalar,
}
impl CapSt {
    pub fn wit(&self) -> String {
        format!("{} {} {} {} {} {} {} {} {}", hp(&self.cm), hp(&self.cd), hp(&self.cc), self.max, self.pct, self.delta, hs(&self.rp), hs(&self.rd), hs(&self.rc))
    }
}
/// below the cap: percentage commitment to `pct < max`, delta and claimed both commit to `delta`
pub fn cap_below(r: &mut Rng, pct: u64, max: u64, delta: u64) -> CapSt {
    let (rp, rd, rc) = (rand_scalar(r), rand_scalar(r), rand_scalar(r));
    CapSt { cm: commit(&Scalar::from(pct), &rp), cd: commit(&Scalar::from(delta), &rd), cc: commit(&Scalar::from(delta), &rc), max, pct, delta, rp, rd, rc }
}
/// at the cap, as the token program does it: fee = max; the delta commitment is
/// `fee_c*10000 - amount_c*bp` (opens to a wrapped scalar); claimed commits to `claimed`
pub fn cap_at(r: &mut Rng, base: u64, bp: u16, max: u64, claimed: u64) -> CapSt {
    let rp = rand_scalar(r);
    cap_at_rp(r, base, bp, max, claimed, rp)
}
/// the same with a chosen opening of the percentage commitment (zero: the commitment is `max*G`, publicly at the cap)
pub fn cap_at_rp(r: &mut Rng, base: u64, bp: u16, max: u64, claimed: u64, rp: Scalar) -> CapSt {
    let (rb, rc) = (rand_scalar(r), rand_scalar(r));
    let cm = commit(&Scalar::from(max), &rp);
    let cb = commit(&Scalar::from(base), &rb);
    let cd = cm * Scalar::from(10_000u64) - cb * Scalar::from(bp);
    let rd = rp * Scalar::from(10_000u64) - rb * Scalar::from(bp);
    CapSt { cm, cd, cc: commit(&Scalar::from(claimed), &rc), max, pct: max, delta: claimed, rp, rd, rc }
}

// ------------------------------------------------------------------ C01
fn c01_zero(o: &mut Out, r: &mut Rng, reps: usize) {
    for _ in 0..reps {
        let st = zero_st(r, &Scalar::ZERO);
        o.op("zero.honest", &format!("prove zero {} {}", st.wit(), nonces(r, 1)));
        o.op("zero.honest-m", &format!("mprove A zero {} {} {}", st.wit(), nonces(r, 1), zeros(2)));
        // statement false: encrypts m != 0 (m = 1, random)
        for m in [Scalar::ONE, rand_nonzero(r)] {
            let f = zero_st(r, &m);
            o.op("zero.false-stmt", &format!("mprove R zero {} {} {}", f.wit(), nonces(r, 1), zeros(2)));
        }
        // wrong secret key
        let f = ZeroSt { k: Kp { s: rand_nonzero(r), p: st.k.p }, c: st.c, d: st.d };
        o.op("zero.wrong-key", &format!("mprove R zero {} {} {}", f.wit(), nonces(r, 1), zeros(2)));
        // residual vectors on the masking commitments
        let rp = rand_nonzero(r) * G;
        for v in residual_vectors(2) {
            o.op("zero.residual", &format!("mprove R zero {} {} {}", st.wit(), nonces(r, 1), offsets(&v, &rp)));
        }
        // zero nonce: Y_P = identity must be refused although the equations hold
        o.op("zero.zero-nonce", &format!("mprove R zero {} {} {}", st.wit(), ZERO_PT, zeros(2)));
        for ns in nonce_subsets(r, 1) { o.op("zero.zero-nonce-subset", &format!("mprove - zero {} {} {}", st.wit(), ns, zeros(2))); }
        // identity statement points with the best forgery
        let k = kp(r);
        o.op("zero.id-ct", &format!("mprove R zero {} {} {} {} {} {}", hs(&k.s), hp(&k.p), ZERO_PT, ZERO_PT, nonces(r, 1), zeros(2)));
        o.op("zero.id-pk", &format!("mprove R zero {} {} {} {} {} {}", hs(&k.s), ZERO_PT, hp(&st.c), hp(&st.d), nonces(r, 1), zeros(2)));
        let rr = rand_scalar(r);
        o.op("zero.id-handle", &format!("mprove R zero {} {} {} {} {} {}", hs(&k.s), hp(&k.p), hp(&(rr * *H)), ZERO_PT, nonces(r, 1), zeros(2)));
    }
}

fn c01_pubkey(o: &mut Out, r: &mut Rng, reps: usize) {
    for _ in 0..reps {
        let k = kp(r);
        o.op("pubkey.honest", &format!("prove pubkey {} {} {}", hs(&k.s), hp(&k.p), nonces(r, 1)));
        o.op("pubkey.honest-m", &format!("mprove A pubkey {} {} {} {}", hs(&k.s.invert()), hp(&k.p), nonces(r, 1), ZERO_PT));
        // unknown secret key: P random multiple of G, witness arbitrary
        let p = rand_nonzero(r) * G;
        o.op("pubkey.false-stmt", &format!("mprove R pubkey {} {} {} {}", hs(&rand_scalar(r)), hp(&p), nonces(r, 1), ZERO_PT));
        o.op("pubkey.wrong-key", &format!("mprove R pubkey {} {} {} {}", hs(&rand_nonzero(r)), hp(&k.p), nonces(r, 1), ZERO_PT));
        let rp = rand_nonzero(r) * G;
        for v in residual_vectors(1) {
            o.op("pubkey.residual", &format!("mprove R pubkey {} {} {} {}", hs(&k.s.invert()), hp(&k.p), nonces(r, 1), offsets(&v, &rp)));
        }
        o.op("pubkey.zero-nonce", &format!("mprove R pubkey {} {} {} {}", hs(&k.s.invert()), hp(&k.p), ZERO_PT, ZERO_PT));
        // P = identity with the best forgery (w = 0: the equation z*H - c*0 - Y = 0 holds)
        o.op("pubkey.id-pk", &format!("mprove R pubkey {} {} {} {}", ZERO_PT, ZERO_PT, nonces(r, 1), ZERO_PT));
    }
}

fn c01_ctct(o: &mut Out, r: &mut Rng, reps: usize) {
    for _ in 0..reps {
        let a = amount(r);
        let st = ctct_st(r, a, a);
        let x = Scalar::from(a);
        o.op("ctct.honest", &format!("prove ctct {} {}", st.wit(), nonces(r, 3)));
        o.op("ctct.honest-m", &format!("mprove A ctct {} {} {}", st.mwit(&x), nonces(r, 3), zeros(4)));
        // unequal plaintexts: prover uses x of the first / of the second
        let b = a.wrapping_add(1 + r.below(5));
        let f = ctct_st(r, a, b);
        o.op("ctct.false-stmt", &format!("mprove R ctct {} {} {}", f.mwit(&Scalar::from(a)), nonces(r, 3), zeros(4)));
        o.op("ctct.false-stmt", &format!("mprove R ctct {} {} {}", f.mwit(&Scalar::from(b)), nonces(r, 3), zeros(4)));
        // the same false statement with z_x shifted *after* c is known so that the G-direction residuals of the two
        // plaintext equations, D*G and (D + c*m)*G, cancel under weights in ratio 1 : rho for rho in {c, -c, c^2, 1/c, 1}:
        // a verifier whose weights have a ratio predictable from c accepts one of these
        let m = Scalar::from(a) - Scalar::from(b);
        for q in ["q:c", "q:nc", "q:cc", "q:ci", "q:one"] {
            o.op("ctct.ratio-forgery", &format!("mprove F:352={}*{} ctct {} {} {}", hs(&-m), q, f.mwit(&Scalar::from(a)), nonces(r, 3), zeros(4)));
        }
        // witness wrong in exactly one relation: secret key / opening / second handle under another key
        let mut g = ctct_st(r, a, a);
        g.k1.s = rand_nonzero(r);
        o.op("ctct.wrong-key", &format!("mprove R ctct {} {} {}", g.mwit(&x), nonces(r, 3), zeros(4)));
        let mut g = ctct_st(r, a, a);
        g.r = rand_scalar(r);
        o.op("ctct.wrong-opening", &format!("mprove R ctct {} {} {}", g.mwit(&x), nonces(r, 3), zeros(4)));
        let mut g = ctct_st(r, a, a);
        g.d2 = g.r * kp(r).p;
        o.op("ctct.wrong-handle2", &format!("mprove R ctct {} {} {}", g.mwit(&x), nonces(r, 3), zeros(4)));
        let rp = rand_nonzero(r) * G;
        for v in residual_vectors(4) {
            o.op("ctct.residual", &format!("mprove R ctct {} {} {}", st.mwit(&x), nonces(r, 3), offsets(&v, &rp)));
        }
        o.op("ctct.zero-nonce", &format!("mprove R ctct {} {} {} {} {}", st.mwit(&x), ZERO_PT, ZERO_PT, ZERO_PT, zeros(4)));
        for ns in nonce_subsets(r, 3) { o.op("ctct.zero-nonce-subset", &format!("mprove - ctct {} {} {}", st.mwit(&x), ns, zeros(4))); }
        // first ciphertext with identity commitment that still decrypts to x (handle = -(x/s)*G); second likewise is
        // impossible (it would need x = r = 0): the identity policy must refuse the first
        {
            let xs = Scalar::from(a.max(1));
            let mut g = ctct_st(r, a.max(1), a.max(1));
            g.c1 = RistrettoPoint::identity();
            g.d1 = -(xs * g.k1.s.invert()) * G;
            o.op("ctct.id-first-commitment", &format!("mprove R ctct {} {} {}", g.mwit(&xs), nonces(r, 3), zeros(4)));
            o.op("ctct.id-first-commitment.new", &format!("new ctct {} {}", g.wit(), nonces(r, 3)));
        }
        // zero amount and / or zero second opening with zero nonces: responses that are exactly zero (z_x = c*0 + 0,
        // z_r = c*0 + 0) are canonical scalars like any other
        {
            let z0 = ctct_st(r, 0, 0);
            let zero = Scalar::ZERO;
            for ns in nonce_subsets(r, 3) { o.op("ctct.zero-amount.zero-nonce-subset", &format!("mprove - ctct {} {} {}", z0.mwit(&zero), ns, zeros(4))); }
            let mut z1 = ctct_st(r, 0, 0);
            z1.r = Scalar::ZERO; z1.c2 = RistrettoPoint::identity(); z1.d2 = RistrettoPoint::identity();
            for ns in nonce_subsets(r, 3) { o.op("ctct.zero-amount-zero-opening.zero-nonce-subset", &format!("mprove - ctct {} {} {}", z1.mwit(&zero), ns, zeros(4))); }
            let mut z2 = ctct_st(r, a, a);
            z2.r = Scalar::ZERO; z2.c2 = Scalar::from(a) * G; z2.d2 = RistrettoPoint::identity();
            for ns in nonce_subsets(r, 3) { o.op("ctct.zero-opening.zero-nonce-subset", &format!("mprove - ctct {} {} {}", z2.mwit(&Scalar::from(a)), ns, zeros(4))); }
        }
        // second ciphertext = identity is allowed (x = 0, r = 0)
        let mut z = ctct_st(r, 0, 0);
        z.c2 = RistrettoPoint::identity();
        z.d2 = RistrettoPoint::identity();
        z.r = Scalar::ZERO;
        o.op("ctct.id-second-ct", &format!("mprove A ctct {} {} {}", z.mwit(&Scalar::ZERO), nonces(r, 3), zeros(4)));
        o.op("ctct.id-second-ct-rs", &format!("prove ctct {} {}", z.wit(), nonces(r, 3)));
        // identity first ciphertext / keys: refused although equations can hold
        let mut z = ctct_st(r, 0, 0);
        z.c1 = RistrettoPoint::identity();
        z.d1 = RistrettoPoint::identity();
        o.op("ctct.id-first-ct", &format!("mprove R ctct {} {} {}", z.mwit(&Scalar::ZERO), nonces(r, 3), zeros(4)));
        let mut z = ctct_st(r, a, a);
        z.k2.p = RistrettoPoint::identity();
        z.d2 = RistrettoPoint::identity();
        o.op("ctct.id-second-pk", &format!("mprove R ctct {} {} {}", z.mwit(&x), nonces(r, 3), zeros(4)));
    }
}

fn c01_ctcmt(o: &mut Out, r: &mut Rng, reps: usize) {
    for _ in 0..reps {
        let a = amount(r);
        let st = ctcmt_st(r, a, a);
        let x = Scalar::from(a);
        o.op("ctcmt.honest", &format!("prove ctcmt {} {}", st.wit(), nonces(r, 3)));
        o.op("ctcmt.honest-m", &format!("mprove A ctcmt {} {} {}", st.mwit(&x), nonces(r, 3), zeros(3)));
        let b = a.wrapping_add(1 + r.below(5));
        let f = ctcmt_st(r, a, b);
        o.op("ctcmt.false-stmt", &format!("mprove R ctcmt {} {} {}", f.mwit(&Scalar::from(a)), nonces(r, 3), zeros(3)));
        o.op("ctcmt.false-stmt", &format!("mprove R ctcmt {} {} {}", f.mwit(&Scalar::from(b)), nonces(r, 3), zeros(3)));
        let m = Scalar::from(a) - Scalar::from(b);
        for q in ["q:c", "q:nc", "q:cc", "q:ci", "q:one"] {
            o.op("ctcmt.ratio-forgery", &format!("mprove F:256={}*{} ctcmt {} {} {}", hs(&-m), q, f.mwit(&Scalar::from(a)), nonces(r, 3), zeros(3)));
        }
        let mut g = ctcmt_st(r, a, a);
        g.k.s = rand_nonzero(r);
        o.op("ctcmt.wrong-key", &format!("mprove R ctcmt {} {} {}", g.mwit(&x), nonces(r, 3), zeros(3)));
        let mut g = ctcmt_st(r, a, a);
        g.r = rand_scalar(r);
        o.op("ctcmt.wrong-opening", &format!("mprove R ctcmt {} {} {}", g.mwit(&x), nonces(r, 3), zeros(3)));
        let rp = rand_nonzero(r) * G;
        for v in residual_vectors(3) {
            o.op("ctcmt.residual", &format!("mprove R ctcmt {} {} {}", st.mwit(&x), nonces(r, 3), offsets(&v, &rp)));
        }
        o.op("ctcmt.zero-nonce", &format!("mprove R ctcmt {} {} {} {} {}", st.mwit(&x), ZERO_PT, ZERO_PT, ZERO_PT, zeros(3)));
        for ns in nonce_subsets(r, 3) { o.op("ctcmt.zero-nonce-subset", &format!("mprove - ctcmt {} {} {}", st.mwit(&x), ns, zeros(3))); }
        // a ciphertext whose commitment component is the identity but which still decrypts to x under the key
        // (handle = -(x/s)*G): every equation can be satisfied, the identity policy must refuse it
        {
            let xs = Scalar::from(a.max(1));
            let mut g = ctcmt_st(r, a.max(1), a.max(1));
            g.c = RistrettoPoint::identity();
            g.d = -(xs * g.k.s.invert()) * G;
            o.op("ctcmt.id-ciphertext-commitment", &format!("mprove R ctcmt {} {} {}", g.mwit(&xs), nonces(r, 3), zeros(3)));
            o.op("ctcmt.id-ciphertext-commitment.new", &format!("new ctcmt {} {}", g.wit(), nonces(r, 3)));
        }
        {
            let z0 = ctcmt_st(r, 0, 0);
            let zero = Scalar::ZERO;
            for ns in nonce_subsets(r, 3) { o.op("ctcmt.zero-amount.zero-nonce-subset", &format!("mprove - ctcmt {} {} {}", z0.mwit(&zero), ns, zeros(3))); }
            let mut z2 = ctcmt_st(r, a, a);
            z2.r = Scalar::ZERO; z2.cm = Scalar::from(a) * G;
            for ns in nonce_subsets(r, 3) { o.op("ctcmt.zero-opening.zero-nonce-subset", &format!("mprove - ctcmt {} {} {}", z2.mwit(&Scalar::from(a)), ns, zeros(3))); }
        }
        let mut z = ctcmt_st(r, 0, 0);
        z.cm = RistrettoPoint::identity();
        z.r = Scalar::ZERO;
        o.op("ctcmt.id-commitment", &format!("mprove R ctcmt {} {} {}", z.mwit(&Scalar::ZERO), nonces(r, 3), zeros(3)));
    }
}

/// byte-level mutations of accepted Rust proofs: non-canonical scalars, special values in every field
fn mutate_fields(o: &mut Out, r: &mut Rng, instr: &str, wit: &str, scalar_fields: &[usize], point_fields: &[usize], thorough: bool) {
    let a: Vec<&str> = wit.split_whitespace().collect();
    let Some(Ok(bytes)) = construct(instr, &a) else { return };
    let ell = ell_bytes();
    // a point field with bit 255 set (no canonical encoding has it), and with its low bit flipped
    for &f in point_fields {
        let mut m = bytes.clone(); m[f + 31] ^= 0x80;
        o.op_exp(&format!("{}.point-top-bit", instr), "R", &format!("verify {} {}", instr, hex(&m)));
        let mut m = bytes.clone(); m[f] ^= 0x01;
        o.op_exp(&format!("{}.point-low-bit", instr), "R", &format!("verify {} {}", instr, hex(&m)));
    }
    for &f in scalar_fields {
        // z + k*ell while it fits in 256 bits: never accepted
        let mut cur: [u8; 32] = bytes[f..f + 32].try_into().unwrap();
        let mut k = 0;
        while let Some(n) = add256(&cur, &ell) {
            cur = n;
            k += 1;
            let mut m = bytes.clone();
            m[f..f + 32].copy_from_slice(&cur);
            o.op_exp(&format!("{}.z+k*ell", instr), "R", &format!("verify {} {}", instr, hex(&m)));
            if k >= 20 {
                break;
            }
        }
    }
    let specials = special_values();
    for &f in scalar_fields.iter().chain(point_fields.iter()) {
        for (_, v) in specials.iter() {
            if !thorough && r.below(2) == 0 {
                continue;
            }
            let mut m = bytes.clone();
            m[f..f + 32].copy_from_slice(v);
            o.op(&format!("{}.special", instr), &format!("verify {} {}", instr, hex(&m)));
        }
    }
    // lengths
    for len in [0usize, 1, bytes.len() - 32, bytes.len() - 1, bytes.len() + 1, bytes.len() + 32] {
        let mut m = bytes.clone();
        m.resize(len, 0);
        o.op(&format!("{}.length", instr), &format!("verify {} {}", instr, hex(&m)));
    }
}

/// statements in which some point field is *legitimately* the identity (all-zero bytes): every other special
/// encoding in that field — undecodable, non-canonical, another encoding a careless decoder might map to the
/// identity — must be refused although the proof was made for the identity
pub fn identity_field_specials(o: &mut Out, instr: &str, wit: &str, fields: &[usize]) {
    let a: Vec<&str> = wit.split_whitespace().collect();
    let Some(Ok(bytes)) = construct(instr, &a) else { return };
    o.op_exp(&format!("{}.identity-field.accepted", instr), "A", &format!("verify {} {}", instr, hex(&bytes)));
    for &f in fields {
        if bytes[f..f + 32].iter().any(|b| *b != 0) { continue; }
        for (_, v) in special_values().iter() {
            if v.iter().all(|b| *b == 0) { continue; }
            let mut m = bytes.clone();
            m[f..f + 32].copy_from_slice(v);
            o.op_exp(&format!("{}.identity-field.special", instr), "R", &format!("verify {} {}", instr, hex(&m)));
        }
    }
}

pub fn gen_c01(o: &mut Out, tier: &str, seed: u64) {
    let mut r = Rng::new(seed, "c01");
    crate::gen_bind::gen_sequences(o, &mut r, &["zero", "pubkey", "ctct", "ctcmt"], false);
    let reps = if tier == "thorough" { 25 } else { 2 };
    c01_zero(o, &mut r, reps);
    c01_pubkey(o, &mut r, reps * 2);
    c01_ctct(o, &mut r, reps);
    c01_ctcmt(o, &mut r, reps);
    let th = tier == "thorough";
    for _ in 0..(if th { 3 } else { 1 }) {
        let st = zero_st(&mut r, &Scalar::ZERO);
        mutate_fields(o, &mut r, "zero", &st.wit(), &[160], &[0, 32, 64, 96, 128], th);
        let k = kp(&mut r);
        mutate_fields(o, &mut r, "pubkey", &format!("{} {}", hs(&k.s), hp(&k.p)), &[64], &[0, 32], th);
        let a = amount(&mut r);
        let st = ctct_st(&mut r, a, a);
        mutate_fields(o, &mut r, "ctct", &st.wit(), &[320, 352, 384], &[0, 32, 64, 96, 128, 160, 192, 224, 256, 288], th);
        let st = ctcmt_st(&mut r, a, a);
        mutate_fields(o, &mut r, "ctcmt", &st.wit(), &[224, 256, 288], &[0, 32, 64, 96, 128, 160, 192], th);
    }
    // undecodable masking commitments / responses at the top of the scalar range
    {
        let nb = if th { 3 } else { 1 };
        let st = zero_st(&mut r, &Scalar::ZERO);
        raw_masks(o, &mut r, "zero.undecodable-mask", "zero", &st.wit(), 1, 2, &[vec![0]], nb);
        let k = kp(&mut r);
        raw_masks(o, &mut r, "pubkey.undecodable-mask", "pubkey", &format!("{} {}", hs(&k.s.invert()), hp(&k.p)), 1, 1, &[vec![0]], nb);
        let a = amount(&mut r);
        let st = ctct_st(&mut r, a, a);
        raw_masks(o, &mut r, "ctct.undecodable-mask", "ctct", &st.mwit(&Scalar::from(a)), 3, 4, &[vec![0], vec![2], vec![0, 1], vec![1, 2], vec![0, 1, 2]], nb);
        let st = ctcmt_st(&mut r, a, a);
        raw_masks(o, &mut r, "ctcmt.undecodable-mask", "ctcmt", &st.mwit(&Scalar::from(a)), 3, 3, &[vec![0], vec![0, 1], vec![1, 2], vec![0, 1, 2]], nb);
        // zero amount, and zero amount with the zero second opening (identity second ciphertext, permitted)
        let z0 = ctct_st(&mut r, 0, 0);
        top_responses(o, &mut r, "ctct.zero-amount.top-response", "ctct", &z0.mwit(&Scalar::ZERO), 3, 4);
        let mut z1 = ctct_st(&mut r, 0, 0);
        z1.r = Scalar::ZERO; z1.c2 = RistrettoPoint::identity(); z1.d2 = RistrettoPoint::identity();
        top_responses(o, &mut r, "ctct.zero-amount-zero-opening.top-response", "ctct", &z1.mwit(&Scalar::ZERO), 3, 4);
        let z0 = ctcmt_st(&mut r, 0, 0);
        top_responses(o, &mut r, "ctcmt.zero-amount.top-response", "ctcmt", &z0.mwit(&Scalar::ZERO), 3, 3);
        let mut z2 = ctcmt_st(&mut r, a.max(1), a.max(1));
        z2.r = Scalar::ZERO; z2.cm = Scalar::from(a.max(1)) * G;
        top_responses(o, &mut r, "ctcmt.zero-opening.top-response", "ctcmt", &z2.mwit(&Scalar::from(a.max(1))), 3, 3);
    }
    // ct-ct equality with the permitted identity second ciphertext (amount 0 under the zero opening)
    {
        let mut z = ctct_st(&mut r, 0, 0);
        z.c2 = RistrettoPoint::identity();
        z.d2 = RistrettoPoint::identity();
        z.r = Scalar::ZERO;
        identity_field_specials(o, "ctct", &z.wit(), &[128, 160]);
        // zero-ciphertext statement whose handle is the identity cannot be accepted; its commitment-only variant is covered above
    }
}

// ------------------------------------------------------------------ C02
fn val_family(o: &mut Out, r: &mut Rng, n: usize, batched: bool) {
    let name = format!("{}val{}", if batched { "b" } else { "" }, n);
    let k = n + 1; // number of equations / masking commitments
    let mk = |r: &mut Rng, a: u64, b: u64, ps: Option<Vec<RistrettoPoint>>| -> (String, String) {
        if batched {
            let s = bval_st(r, n, a, b, ps);
            (s.wit(), s.mwit())
        } else {
            let s = val_st(r, n, a, ps);
            (s.wit(), s.mwit())
        }
    };
    let a = amount(r);
    let b = amount(r);
    let (w, mw) = mk(r, a, b, None);
    o.op(&format!("{}.honest", name), &format!("prove {} {} {}", name, w, nonces(r, 2)));
    o.op(&format!("{}.honest-m", name), &format!("mprove A {} {} {} {}", name, mw, nonces(r, 2), zeros(k)));
    // zero amount / zero opening
    let (w0, _) = mk(r, 0, 0, None);
    o.op(&format!("{}.zero-amount", name), &format!("prove {} {} {}", name, w0, nonces(r, 2)));
    // a defect added to each single statement point (commitment(s) and each handle)
    let npts = if batched { 2 * (n + 1) } else { n + 1 };
    let toks: Vec<String> = mw.split_whitespace().map(|s| s.to_string()).collect();
    let nsc = if batched { 4 } else { 2 };
    let first_pt = nsc + n; // index of the first non-key point in the mprove args
    let rp = rand_nonzero(r) * G;
    let addp = |h: &str, p: &RistrettoPoint| -> String {
        let b = unhex(h).unwrap();
        let q = curve25519_dalek::ristretto::CompressedRistretto::from_slice(&b).unwrap().decompress().unwrap();
        hp(&(q + p))
    };
    for i in 0..npts {
        let mut t = toks.clone();
        t[first_pt + i] = addp(&t[first_pt + i], &rp);
        o.op(&format!("{}.defect-1", name), &format!("mprove R {} {} {} {}", name, t.join(" "), nonces(r, 2), zeros(k)));
    }
    // the same single-point defects on statements whose keys coincide (all equal; first = last; first two equal;
    // last two equal), and handle exchanges between positions with equal keys (which change nothing) / unequal keys
    {
        let base: Vec<RistrettoPoint> = (0..n).map(|_| kp(r).p).collect();
        let mut patterns: Vec<Vec<RistrettoPoint>> = vec![vec![base[0]; n]];
        let mut p = base.clone(); p[n - 1] = p[0]; patterns.push(p);
        if n == 3 {
            let mut p = base.clone(); p[1] = p[0]; patterns.push(p);
            let mut p = base.clone(); p[2] = p[1]; patterns.push(p);
        }
        for ps in patterns {
            let (_, mwe) = mk(r, a, b, Some(ps));
            o.op(&format!("{}.equal-keys.honest", name), &format!("mprove A {} {} {} {}", name, mwe, nonces(r, 2), zeros(k)));
            let te: Vec<String> = mwe.split_whitespace().map(|s| s.to_string()).collect();
            for i in 0..npts {
                let mut t = te.clone();
                t[first_pt + i] = addp(&t[first_pt + i], &rp);
                o.op(&format!("{}.equal-keys.defect-1", name), &format!("mprove R {} {} {} {}", name, t.join(" "), nonces(r, 2), zeros(k)));
            }
            for i in 0..n {
                let mut t = te.clone();
                t[nsc + i] = addp(&t[nsc + i], &rp);
                o.op(&format!("{}.equal-keys.defect-key", name), &format!("mprove - {} {} {} {}", name, t.join(" "), nonces(r, 2), zeros(k)));
            }
        }
    }
    // a handle with a G-direction defect delta*G (lo half for the batched layouts) and the response z_x shifted *after* c
    // is known by delta*c*omega(c) for omega in {1/c, 1, c, c^2, c^3, -1, -c, -c^2}: the defect's residual -c*delta*G in
    // that handle's equation then cancels against the commitment equation under a verifier whose weight for that
    // equation is omega(c) (a weight an adversary can compute before choosing the responses)
    {
        let delta = rand_nonzero(r);
        let dg = delta * G;
        let zx_off = ctx_len(&name) + 32 * (n + 1) + 32;
        for i in 1..=n {
            let mut t = toks.clone();
            t[first_pt + i] = addp(&t[first_pt + i], &dg);
            for rho in ["one", "c", "cc", "ccc", "cccc", "nc", "ncc", "nccc"] {
                o.op(&format!("{}.handle-defect-ratio-forgery", name), &format!("mprove F:{}={}*{} {} {} {} {}", zx_off, hs(&delta), rho, name, t.join(" "), nonces(r, 2), zeros(k)));
            }
        }
    }
    // defects that cancel under unit weights between two statement points
    for i in 0..npts {
        for j in (i + 1)..npts {
            let mut t = toks.clone();
            t[first_pt + i] = addp(&t[first_pt + i], &rp);
            t[first_pt + j] = addp(&t[first_pt + j], &-rp);
            o.op(&format!("{}.defect-cancel", name), &format!("mprove R {} {} {} {}", name, t.join(" "), nonces(r, 2), zeros(k)));
        }
    }
    // a defect in each single key (handle no longer matches the key)
    for i in 0..n {
        let mut t = toks.clone();
        t[nsc + i] = addp(&t[nsc + i], &rp);
        o.op(&format!("{}.defect-key", name), &format!("mprove R {} {} {} {}", name, t.join(" "), nonces(r, 2), zeros(k)));
    }
    // wrong witness scalars
    for i in 0..nsc {
        let mut t = toks.clone();
        t[i] = hs(&rand_scalar(r));
        o.op(&format!("{}.wrong-witness", name), &format!("mprove R {} {} {} {}", name, t.join(" "), nonces(r, 2), zeros(k)));
    }
    // residual vectors on the masking commitments
    for v in residual_vectors(k) {
        o.op(&format!("{}.residual", name), &format!("mprove R {} {} {} {}", name, mw, nonces(r, 2), offsets(&v, &rp)));
    }
    // identity auditor (last) key: honest proof must be accepted
    let mut ps: Vec<RistrettoPoint> = (0..n).map(|_| kp(r).p).collect();
    ps[n - 1] = RistrettoPoint::identity();
    let (wa, mwa) = mk(r, a, b, Some(ps.clone()));
    o.op(&format!("{}.id-auditor", name), &format!("prove {} {} {}", name, wa, nonces(r, 2)));
    o.op(&format!("{}.id-auditor-m", name), &format!("mprove A {} {} {} {}", name, mwa, nonces(r, 2), zeros(k)));
    // ... and every equation stays enforced on that statement: residuals on the masking commitments (in particular
    // on the auditor's own Y, whose equation reads 0 = c*0 + Y)
    for v in residual_vectors(k) {
        o.op(&format!("{}.id-auditor-residual", name), &format!("mprove R {} {} {} {}", name, mwa, nonces(r, 2), offsets(&v, &rp)));
    }
    // a masking commitment that decodes to no group element, on the ordinary and on the no-auditor statement (where
    // the auditor's own Y is the identity for every nonce)
    raw_masks(o, r, &format!("{}.undecodable-mask", name), &name, &mw, 2, k, &[vec![0], vec![1], vec![0, 1]], 1);
    raw_masks(o, r, &format!("{}.id-auditor.undecodable-mask", name), &name, &mwa, 2, k, &[vec![0], vec![1]], 2);
    // zero amount(s): z_x equals the nonce; responses at the top of the canonical range are accepted like any other
    {
        let (_, mw0) = mk(r, 0, 0, None);
        top_responses(o, r, &format!("{}.zero-amount.top-response", name), &name, &mw0, 2, k);
    }
    // no auditor (identity last key) but a live point in the auditor's handle — lo, hi, or both: the handle equation
    // reads D = c*0 + Y there, so with Y the identity any non-identity handle must be refused
    {
        let ta: Vec<String> = mwa.split_whitespace().map(|s| s.to_string()).collect();
        let live = hp(&(rand_nonzero(r) * G));
        let lo_h = first_pt + 1 + (n - 1);
        let mut sets: Vec<Vec<usize>> = vec![vec![lo_h]];
        if batched { let hi_h = first_pt + (n + 1) + 1 + (n - 1); sets.push(vec![hi_h]); sets.push(vec![lo_h, hi_h]); }
        for set in sets {
            let mut t = ta.clone();
            for i in set { t[i] = live.clone(); }
            o.op(&format!("{}.id-auditor.live-handle", name), &format!("mprove R {} {} {} {}", name, t.join(" "), nonces(r, 2), zeros(k)));
        }
    }
    // identity non-auditor key: refused
    for i in 0..(n - 1) {
        let mut ps: Vec<RistrettoPoint> = (0..n).map(|_| kp(r).p).collect();
        ps[i] = RistrettoPoint::identity();
        let (_, mwi) = mk(r, a, b, Some(ps));
        o.op(&format!("{}.id-key", name), &format!("mprove R {} {} {} {}", name, mwi, nonces(r, 2), zeros(k)));
    }
    // zero nonces: Y_0 = identity refused
    o.op(&format!("{}.zero-nonce", name), &format!("mprove R {} {} {} {} {}", name, mw, ZERO_PT, ZERO_PT, zeros(k)));
    // y_r = 0 only: Y_1.. are the identity -> refused (non-auditor masking commitments)
    o.op(&format!("{}.zero-yr", name), &format!("mprove R {} {} {} {} {}", name, mw, ZERO_PT, hs(&rand_nonzero(r)), zeros(k)));
    for ns in nonce_subsets(r, 2) { o.op(&format!("{}.zero-nonce-subset", name), &format!("mprove - {} {} {} {}", name, mw, ns, zeros(k))); }
    // masking nonces related to the witness: equal to it (then Y_0 = C and Y_i = D_i), its negative, its double; any
    // nonces give a valid proof as long as no masking commitment is the identity
    if !batched {
        let sc = |h: &str| Scalar::from_bytes_mod_order(unhex(h).unwrap().try_into().unwrap());
        let (x, rr) = (sc(&toks[0]), sc(&toks[1]));
        for (yr, yx) in [(rr, x), (-rr, -x), (rr + rr, x + x), (rr, Scalar::ZERO), (rr, x + Scalar::ONE), (x, rr)] {
            if yr == Scalar::ZERO { continue; }
            o.op(&format!("{}.nonce-related-to-witness", name), &format!("mprove A {} {} {} {} {}", name, mw, hs(&yr), hs(&yx), zeros(k)));
        }
    }
    // zero amount(s) with zero nonces: the response z_x is then exactly zero, a canonical scalar like any other
    {
        let (_, mw0) = mk(r, 0, 0, None);
        for ns in nonce_subsets(r, 2) { o.op(&format!("{}.zero-amount.zero-nonce-subset", name), &format!("mprove - {} {} {} {}", name, mw0, ns, zeros(k))); }
        let (_, mw1) = mk(r, 0, b, None);
        for ns in nonce_subsets(r, 2) { o.op(&format!("{}.zero-lo-amount.zero-nonce-subset", name), &format!("mprove - {} {} {} {}", name, mw1, ns, zeros(k))); }
    }
    // identity commitment with a consistent witness (amount 0, opening 0: the whole grouped ciphertext is
    // the identity and every equation holds): refused by the policy; batched: lo alone, hi alone, both
    let zero = hs(&Scalar::ZERO);
    let variants: Vec<Vec<usize>> = if batched { vec![vec![0], vec![1], vec![0, 1]] } else { vec![vec![0]] };
    for v in variants {
        let mut t = toks.clone();
        for &half in &v {
            if batched {
                t[half] = zero.clone();       // x_lo / x_hi
                t[2 + half] = zero.clone();   // r_lo / r_hi
            } else {
                t[0] = zero.clone();
                t[1] = zero.clone();
            }
            for i in 0..(n + 1) { t[first_pt + half * (n + 1) + i] = ZERO_PT.to_string(); }
        }
        o.op(&format!("{}.id-commitment", name), &format!("mprove R {} {} {} {}", name, t.join(" "), nonces(r, 2), zeros(k)));
    }
    // zero opening, non-zero amount: every handle is the identity, the commitment is not (no a-priori verdict)
    {
        let mut t = toks.clone();
        let halves = if batched { 2 } else { 1 };
        for half in 0..halves {
            let ri = if batched { 2 + half } else { 1 };
            let xi = if batched { half } else { 0 };
            t[ri] = zero.clone();
            let x = Scalar::from_bytes_mod_order(unhex(&t[xi]).unwrap().try_into().unwrap());
            t[first_pt + half * (n + 1)] = hp(&(x * G));
            for i in 0..n { t[first_pt + half * (n + 1) + 1 + i] = ZERO_PT.to_string(); }
        }
        o.op(&format!("{}.zero-opening", name), &format!("mprove - {} {} {} {}", name, t.join(" "), nonces(r, 2), zeros(k)));
    }
}

pub fn gen_c02(o: &mut Out, tier: &str, seed: u64) {
    let mut r = Rng::new(seed, "c02");
    crate::gen_bind::gen_sequences(o, &mut r, &["val2", "val3", "bval2", "bval3"], false);
    let th = tier == "thorough";
    // the permitted "no auditor" statements: last key and last handle(s) are the identity; any other special
    // encoding in those fields must be refused
    for n in [2usize, 3] {
        let mut ps: Vec<RistrettoPoint> = (0..n).map(|_| kp(&mut r).p).collect();
        ps[n - 1] = RistrettoPoint::identity();
        let a = amount(&mut r);
        let s = val_st(&mut r, n, a, Some(ps.clone()));
        // key field of the auditor, its handle
        identity_field_specials(o, &format!("val{}", n), &s.wit(), &[32 * (n - 1), 32 * n + 32 * n]);
        let s = bval_st(&mut r, n, a, 7, Some(ps));
        identity_field_specials(o, &format!("bval{}", n), &s.wit(), &[32 * (n - 1), 32 * n + 32 * n, 32 * n + 32 * (n + 1) + 32 * n]);
    }
    let reps = if th { 12 } else { 1 };
    for _ in 0..reps {
        for (n, b) in [(2, false), (3, false), (2, true), (3, true)] {
            val_family(o, &mut r, n, b);
        }
    }
    for _ in 0..(if th { 3 } else { 1 }) {
        let a = amount(&mut r);
        let s = val_st(&mut r, 2, a, None);
        mutate_fields(o, &mut r, "val2", &s.wit(), &[256, 288], &[0, 32, 64, 96, 128, 160, 192, 224], th);
        let s = val_st(&mut r, 3, a, None);
        mutate_fields(o, &mut r, "val3", &s.wit(), &[352, 384], &[0, 32, 64, 96, 128, 160, 192, 224, 256, 288, 320], th);
        let s = bval_st(&mut r, 2, a, 7, None);
        mutate_fields(o, &mut r, "bval2", &s.wit(), &[352, 384], &(0..11).map(|i| i * 32).collect::<Vec<_>>(), th);
        let s = bval_st(&mut r, 3, a, 7, None);
        mutate_fields(o, &mut r, "bval3", &s.wit(), &[480, 512], &(0..15).map(|i| i * 32).collect::<Vec<_>>(), th);
    }
}

// ------------------------------------------------------------------ C03
pub fn gen_c03(o: &mut Out, tier: &str, seed: u64) {
    let mut r = Rng::new(seed, "c03");
    crate::gen_bind::gen_sequences(o, &mut r, &["cap"], false);
    let th = tier == "thorough";
    let reps = if th { 20 } else { 2 };
    let maxes: [u64; 7] = [0, 1, 3, 1000, 1 << 32, u64::MAX - 1, u64::MAX];
    for _ in 0..reps {
        // honest below the cap / at the cap through the public constructor
        let max = *r.pick(&maxes[2..]);
        let pct = r.below(max);
        let am = amount(&mut r);
        let st = cap_below(&mut r, pct, max, am);
        o.op("cap.honest-below", &format!("prove cap {} {}", st.wit(), nonces(&mut r, 10)));
        let am2 = amount(&mut r);
        let st2 = cap_at(&mut r, 1_000_000, 400, max, am2);
        let pts = |s: &CapSt| format!("{} {} {} {}", hp(&s.cm), hp(&s.cd), hp(&s.cc), s.max);
        // model prover, real branches
        o.op("cap.honest-eq-m", &format!("mprove A cap eq {} {} {} {} {} {}", pts(&st), hs(&Scalar::from(st.delta)), hs(&st.rd), hs(&st.rc), nonces(&mut r, 5), zeros(3)));
        o.op("cap.honest-max-m", &format!("mprove A cap max {} {} {} {} {} {}", pts(&st2), hs(&st2.rp), ZERO_PT, ZERO_PT, nonces(&mut r, 5), zeros(3)));
        // false statement: pct != max and delta != claimed; try both branches
        let mut f = cap_below(&mut r, pct, max, 77);
        f.cc = commit(&Scalar::from(78u64), &f.rc);
        o.op("cap.false-eq", &format!("mprove R cap eq {} {} {} {} {} {}", pts(&f), hs(&Scalar::from(77u64)), hs(&f.rd), hs(&f.rc), nonces(&mut r, 5), zeros(3)));
        o.op("cap.false-eq", &format!("mprove R cap eq {} {} {} {} {} {}", pts(&f), hs(&Scalar::from(78u64)), hs(&f.rd), hs(&f.rc), nonces(&mut r, 5), zeros(3)));
        o.op("cap.false-max", &format!("mprove R cap max {} {} {} {} {} {}", pts(&f), hs(&f.rp), ZERO_PT, ZERO_PT, nonces(&mut r, 5), zeros(3)));
        // false in both branches, with everything the two equality relations have in common made equal: delta and claimed
        // commitments under one opening (different values), equal nonces — so Y_delta = Y_claimed and z_delta = z_claimed
        {
            let mut g = cap_below(&mut r, pct, max, 77);
            g.rc = g.rd; g.cc = commit(&Scalar::from(78u64), &g.rc);
            for x in [77u64, 78] {
                let (yx, yd) = (rand_nonzero(&mut r), rand_nonzero(&mut r));
                let n = format!("{} {} {} {} {}", hs(&rand_scalar(&mut r)), hs(&rand_scalar(&mut r)), hs(&yx), hs(&yd), hs(&yd));
                o.op("cap.false-eq.twin-halves", &format!("mprove R cap eq {} {} {} {} {} {}", pts(&g), hs(&Scalar::from(x)), hs(&g.rd), hs(&g.rc), n, zeros(3)));
            }
            // the true counterpart (same value): accepted
            let mut h = cap_below(&mut r, pct, max, 77);
            h.rc = h.rd; h.cc = h.cd;
            let (yx, yd) = (rand_nonzero(&mut r), rand_nonzero(&mut r));
            let n = format!("{} {} {} {} {}", hs(&rand_scalar(&mut r)), hs(&rand_scalar(&mut r)), hs(&yx), hs(&yd), hs(&yd));
            o.op("cap.true-eq.twin-halves", &format!("mprove A cap eq {} {} {} {} {} {}", pts(&h), hs(&Scalar::from(77u64)), hs(&h.rd), hs(&h.rc), n, zeros(3)));
        }
        // true by one branch only: each branch run on the false side
        o.op("cap.wrong-branch", &format!("mprove R cap max {} {} {} {} {} {}", pts(&st), hs(&st.rp), ZERO_PT, ZERO_PT, nonces(&mut r, 5), zeros(3)));
        // residual vectors
        let rp = rand_nonzero(&mut r) * G;
        for v in residual_vectors(3) {
            o.op("cap.residual-eq", &format!("mprove R cap eq {} {} {} {} {} {}", pts(&st), hs(&Scalar::from(st.delta)), hs(&st.rd), hs(&st.rc), nonces(&mut r, 5), offsets(&v, &rp)));
            if th {
                o.op("cap.residual-max", &format!("mprove R cap max {} {} {} {} {} {}", pts(&st2), hs(&st2.rp), ZERO_PT, ZERO_PT, nonces(&mut r, 5), offsets(&v, &rp)));
            }
        }
        // at the cap with the zero opening (percentage commitment = max*G, visibly at the cap): the proof is still checked
        {
            let st3 = cap_at_rp(&mut r, 1_000_000, 400, max, am2, Scalar::ZERO);
            o.op("cap.at-cap-zero-opening.honest", &format!("mprove A cap max {} {} {} {} {} {}", pts(&st3), hs(&st3.rp), ZERO_PT, ZERO_PT, nonces(&mut r, 5), zeros(3)));
            for v in residual_vectors(3) {
                o.op("cap.at-cap-zero-opening.residual", &format!("mprove R cap max {} {} {} {} {} {}", pts(&st3), hs(&st3.rp), ZERO_PT, ZERO_PT, nonces(&mut r, 5), offsets(&v, &rp)));
            }
            o.op("cap.at-cap-zero-opening.wrong-branch", &format!("mprove R cap eq {} {} {} {} {} {}", pts(&st3), hs(&Scalar::from(st3.delta)), hs(&st3.rd), hs(&st3.rc), nonces(&mut r, 5), zeros(3)));
            o.op("cap.at-cap-zero-opening.wrong-opening", &format!("mprove R cap max {} {} {} {} {} {}", pts(&st3), hs(&Scalar::ONE), ZERO_PT, ZERO_PT, nonces(&mut r, 5), zeros(3)));
        }
        // a sub-challenge of zero (the whole challenge on the other branch): the branch carrying no challenge weight is
        // still checked (Y_max = z_max*H, resp. the two equality equations with c_eq = 0)
        {
            let z = Scalar::ZERO;
            let five = |r: &mut Rng, a: Scalar, b: Scalar| format!("{} {} {} {} {}", hs(&a), hs(&b), hs(&rand_scalar(r)), hs(&rand_scalar(r)), hs(&rand_scalar(r)));
            // real equality branch, simulated max branch with c_max = 0: consistent -> accepted; with a residual on Y_max -> refused
            let zm = rand_scalar(&mut r);
            let n = five(&mut r, zm, z);
            o.op("cap.zero-cmax.consistent", &format!("mprove A cap eq {} {} {} {} {} {}", pts(&st), hs(&Scalar::from(st.delta)), hs(&st.rd), hs(&st.rc), n, zeros(3)));
            for v in [vec![1i8, 0, 0], vec![-1, 0, 0], vec![2, 0, 0]] {
                let zm = rand_scalar(&mut r);
                let n = five(&mut r, zm, z);
                o.op("cap.zero-cmax.max-residual", &format!("mprove R cap eq {} {} {} {} {} {}", pts(&st), hs(&Scalar::from(st.delta)), hs(&st.rd), hs(&st.rc), n, offsets(&v, &rp)));
            }
            // real max branch, simulated equality branch with c_eq = 0
            let n = format!("{} {} {} {} {}", hs(&rand_scalar(&mut r)), hs(&rand_scalar(&mut r)), hs(&rand_scalar(&mut r)), hs(&z), hs(&rand_scalar(&mut r)));
            o.op("cap.zero-ceq.consistent", &format!("mprove A cap max {} {} {} {} {} {}", pts(&st2), hs(&st2.rp), ZERO_PT, ZERO_PT, n, zeros(3)));
            for v in [vec![0i8, 1, 0], vec![0, 0, 1], vec![0, 1, -1]] {
                let n = format!("{} {} {} {} {}", hs(&rand_scalar(&mut r)), hs(&rand_scalar(&mut r)), hs(&rand_scalar(&mut r)), hs(&z), hs(&rand_scalar(&mut r)));
                o.op("cap.zero-ceq.eq-residual", &format!("mprove R cap max {} {} {} {} {} {}", pts(&st2), hs(&st2.rp), ZERO_PT, ZERO_PT, n, offsets(&v, &rp)));
            }
        }
        // every max_value class with the same commitments: proof built for another max_value
        for m in maxes {
            let mut g = cap_below(&mut r, 2, 5, 9);
            g.max = m;
            // commitments say pct = 2: true iff delta==claimed (always true here) -> accepted for every max
            o.op("cap.max-values", &format!("mprove A cap eq {} {} {} {} {} {}", pts(&g), hs(&Scalar::from(9u64)), hs(&g.rd), hs(&g.rc), nonces(&mut r, 5), zeros(3)));
        }
        // identity commitments (x = 0, r = 0 makes the equations hold): refused
        let mut z = cap_below(&mut r, 2, 5, 0);
        z.cd = RistrettoPoint::identity();
        z.rd = Scalar::ZERO;
        z.cc = RistrettoPoint::identity();
        z.rc = Scalar::ZERO;
        o.op("cap.id-commitments", &format!("mprove R cap eq {} {} {} {} {} {}", pts(&z), ZERO_PT, ZERO_PT, ZERO_PT, nonces(&mut r, 5), zeros(3)));
        let mut z = cap_at(&mut r, 5, 1, 0, 3);
        z.cm = RistrettoPoint::identity();
        z.rp = Scalar::ZERO;
        o.op("cap.id-percentage", &format!("mprove R cap max {} {} {} {} {} {}", pts(&z), ZERO_PT, ZERO_PT, ZERO_PT, nonces(&mut r, 5), zeros(3)));
        // each commitment alone the identity, with a consistent witness
        {
            // delta commitment alone: delta = 0, r_delta = 0; claimed commits to 0 with a random opening
            let mut z = cap_below(&mut r, 2, 5, 0);
            z.cd = RistrettoPoint::identity();
            z.rd = Scalar::ZERO;
            o.op("cap.id-delta", &format!("mprove R cap eq {} {} {} {} {} {}", pts(&z), ZERO_PT, ZERO_PT, hs(&z.rc), nonces(&mut r, 5), zeros(3)));
            let mut z = cap_below(&mut r, 2, 5, 0);
            z.cc = RistrettoPoint::identity();
            z.rc = Scalar::ZERO;
            o.op("cap.id-claimed", &format!("mprove R cap eq {} {} {} {} {} {}", pts(&z), ZERO_PT, hs(&z.rd), ZERO_PT, nonces(&mut r, 5), zeros(3)));
        }
        // a masking commitment that decodes to no group element, in either branch, with each nonce zeroed in turn
        // (max branch: nonce 4 = y_max, so Y_max would be the identity; equality branch: nonces 2..4)
        {
            let singles: Vec<Vec<usize>> = (0..5).map(|i| vec![i]).chain([vec![2, 3], vec![2, 4], vec![2, 3, 4], vec![0, 1, 2, 3, 4]]).collect();
            raw_masks(o, &mut r, "cap.undecodable-mask-eq", "cap eq", &format!("{} {} {} {}", pts(&st), hs(&Scalar::from(st.delta)), hs(&st.rd), hs(&st.rc)), 5, 3, &singles, 1);
            raw_masks(o, &mut r, "cap.undecodable-mask-max", "cap max", &format!("{} {} {} {}", pts(&st2), hs(&st2.rp), ZERO_PT, ZERO_PT), 5, 3, &singles, 1);
            // at the cap with the zero opening: z_max = c_max*0 + y_max is the nonce itself
            let st3 = cap_at_rp(&mut r, 1_000_000, 400, max, am2, Scalar::ZERO);
            for t in top_scalars(&mut r) {
                let n = format!("{} {} {} {} {}", hs(&rand_scalar(&mut r)), hs(&rand_scalar(&mut r)), hs(&rand_scalar(&mut r)), hs(&rand_scalar(&mut r)), hs(&t));
                o.op("cap.at-cap-zero-opening.top-response", &format!("mprove A cap max {} {} {} {} {} {}", pts(&st3), hs(&st3.rp), ZERO_PT, ZERO_PT, n, zeros(3)));
            }
            // simulated responses are the prover's free choice: each at the top of the range
            for t in top_scalars(&mut r) {
                for pos in 0..3 {
                    let n: Vec<String> = (0..5).map(|i| if i == pos { hs(&t) } else { hs(&rand_nonzero(&mut r)) }).collect();
                    o.op("cap.simulated-top-response", &format!("mprove A cap max {} {} {} {} {} {}", pts(&st2), hs(&st2.rp), ZERO_PT, ZERO_PT, n.join(" "), zeros(3)));
                }
                let n: Vec<String> = (0..5).map(|i| if i == 0 { hs(&t) } else { hs(&rand_nonzero(&mut r)) }).collect();
                o.op("cap.simulated-top-response", &format!("mprove A cap eq {} {} {} {} {} {}", pts(&st), hs(&Scalar::from(st.delta)), hs(&st.rd), hs(&st.rc), n.join(" "), zeros(3)));
            }
        }
        // every non-empty subset of the five nonces zero, in either branch (no a-priori verdict)
        for ns in nonce_subsets(&mut r, 5) {
            o.op("cap.zero-nonce-subset", &format!("mprove - cap eq {} {} {} {} {} {}", pts(&st), hs(&Scalar::from(st.delta)), hs(&st.rd), hs(&st.rc), ns, zeros(3)));
        }
        for ns in nonce_subsets(&mut r, 5) {
            o.op("cap.zero-nonce-subset", &format!("mprove - cap max {} {} {} {} {} {}", pts(&st2), hs(&st2.rp), ZERO_PT, ZERO_PT, ns, zeros(3)));
        }
        // zero nonces
        o.op("cap.zero-nonce", &format!("mprove R cap eq {} {} {} {} {} {} {} {} {} {}", pts(&st), hs(&Scalar::from(st.delta)), hs(&st.rd), hs(&st.rc), hs(&rand_scalar(&mut r)), hs(&rand_scalar(&mut r)), ZERO_PT, ZERO_PT, ZERO_PT, zeros(3)));
        // challenge split that does not add up: perturb c_max_proof (bytes 168..200) of an accepted proof
        let a: Vec<String> = st.wit().split_whitespace().map(|s| s.to_string()).collect();
        let ar: Vec<&str> = a.iter().map(|s| s.as_str()).collect();
        if let Some(Ok(bytes)) = construct("cap", &ar) {
            for f in [136usize, 168, 264, 296, 328] {
                let mut m = bytes.clone();
                let s = Scalar::from_bytes_mod_order(m[f..f + 32].try_into().unwrap()) + Scalar::ONE;
                m[f..f + 32].copy_from_slice(s.as_bytes());
                o.op_exp("cap.perturbed-scalar", "R", &format!("verify cap {}", hex(&m)));
            }
            // responses shifted after c is known: residuals on (delta, claimed), (max, delta), (max, claimed) in ratio
            // 1 : rho(c): accepted by a verifier whose batching weights have a ratio predictable from c
            let (one, neg) = (hs(&Scalar::ONE), hs(&-Scalar::ONE));
            for (i, j) in [(296usize, 328usize), (136, 296), (136, 328)] {
                for rho in ["c", "cc", "ci", "one"] {
                    o.op("cap.ratio-forgery", &format!("forge R cap {} {}={}*{},{}={}*one", hex(&bytes), i, neg, rho, j, one));
                    o.op("cap.ratio-forgery", &format!("forge R cap {} {}={}*one,{}={}*{}", hex(&bytes), i, one, j, neg, rho));
                    o.op("cap.ratio-forgery", &format!("forge R cap {} {}={}*{},{}={}*one", hex(&bytes), i, one, rho, j, one));
                }
            }
            // max_value changed under an accepted proof
            for m8 in [0u64, 1, st.max.wrapping_add(1), st.max.wrapping_sub(1), u64::MAX] {
                if m8 == st.max { continue; }
                let mut m = bytes.clone();
                m[96..104].copy_from_slice(&m8.to_le_bytes());
                o.op("cap.max-tampered", &format!("verify cap {}", hex(&m)));
            }
        }
    }
    for _ in 0..(if th { 3 } else { 1 }) {
        let st = cap_below(&mut r, 2, 5, 9);
        mutate_fields(o, &mut r, "cap", &st.wit(), &[136, 168, 264, 296, 328], &[0, 32, 64, 104, 200, 232], th);
    }
}

// ------------------------------------------------------------------ C05 (completeness) / C20 (refusal)
const AMOUNTS: [u64; 10] = [0, 1, 2, 65535, (1 << 32) - 1, 1 << 32, (1 << 32) + 1, 1 << 63, u64::MAX - 1, u64::MAX];

/// honest witnesses for the nine sigma constructors; each is run as `new` (context bytes compared
/// with the model's encoding of the statement) and as `prove` (proof verified by both sides, both provers)
pub fn gen_c05(o: &mut Out, tier: &str, seed: u64) {
    let mut r = Rng::new(seed, "c05");
    let th = tier == "thorough";
    let reps = if th { 20 } else { 1 };
    let emit = |o: &mut Out, r: &mut Rng, fam: &str, instr: &str, wit: &str, nn: usize| {
        let ns = nonces(r, nn);
        o.op(&format!("{}.new", fam), &format!("new {} {} {}", instr, wit, ns));
        o.op(&format!("{}.prove", fam), &format!("prove {} {} {}", instr, wit, ns));
    };
    for _ in 0..reps {
        // zero-ciphertext: encryption of zero under any key, any opening incl. one making a valid non-identity ct
        let st = zero_st(&mut r, &Scalar::ZERO);
        emit(o, &mut r, "zero", "zero", &st.wit(), 1);
        let k = kp(&mut r);
        emit(o, &mut r, "pubkey", "pubkey", &format!("{} {}", hs(&k.s), hp(&k.p)), 1);
        // secret key = 1 and = l-1 (boundary scalars)
        for s in [Scalar::ONE, -Scalar::ONE] {
            let p = s.invert() * *H;
            emit(o, &mut r, "pubkey.boundary-key", "pubkey", &format!("{} {}", hs(&s), hp(&p)), 1);
        }
        for (i, a) in AMOUNTS.iter().enumerate() {
            if !th && i % 3 != (seed % 3) as usize && i != 0 && i != 9 { continue; }
            let st = ctct_st(&mut r, *a, *a);
            emit(o, &mut r, "ctct", "ctct", &st.wit(), 3);
            let st = ctcmt_st(&mut r, *a, *a);
            emit(o, &mut r, "ctcmt", "ctcmt", &st.wit(), 3);
            let b = *r.pick(&AMOUNTS);
            let s = val_st(&mut r, 2, *a, None);
            emit(o, &mut r, "val2", "val2", &s.wit(), 2);
            let s = val_st(&mut r, 3, *a, None);
            emit(o, &mut r, "val3", "val3", &s.wit(), 2);
            let s = bval_st(&mut r, 2, *a, b, None);
            emit(o, &mut r, "bval2", "bval2", &s.wit(), 2);
            let s = bval_st(&mut r, 3, *a, b, None);
            emit(o, &mut r, "bval3", "bval3", &s.wit(), 2);
        }
        // identity auditor key at the instruction level
        for n in [2usize, 3] {
            let mut ps: Vec<RistrettoPoint> = (0..n).map(|_| kp(&mut r).p).collect();
            ps[n - 1] = RistrettoPoint::identity();
            let a = amount(&mut r);
            let s = val_st(&mut r, n, a, Some(ps.clone()));
            emit(o, &mut r, "val.id-auditor", &format!("val{}", n), &s.wit(), 2);
            let s = bval_st(&mut r, n, a, 3, Some(ps));
            emit(o, &mut r, "bval.id-auditor", &format!("bval{}", n), &s.wit(), 2);
        }
        // the zero Pedersen opening on a non-zero amount: commitment = amount*G, every handle the identity
        {
            let a = amount(&mut r).max(1);
            let b = amount(&mut r).max(1);
            let zero_open = |v: &mut Val| { v.r = Scalar::ZERO; v.c = Scalar::from(v.amt) * G; for d in v.ds.iter_mut() { *d = RistrettoPoint::identity(); } };
            for n in [2usize, 3] {
                let mut s = val_st(&mut r, n, a, None);
                zero_open(&mut s);
                emit(o, &mut r, "val.zero-opening", &format!("val{}", n), &s.wit(), 2);
                let mut s = bval_st(&mut r, n, a, b, None);
                zero_open(&mut s.lo); zero_open(&mut s.hi);
                emit(o, &mut r, "bval.zero-opening", &format!("bval{}", n), &s.wit(), 2);
                let mut s = bval_st(&mut r, n, a, b, None);
                zero_open(&mut s.hi);
                emit(o, &mut r, "bval.zero-opening-hi", &format!("bval{}", n), &s.wit(), 2);
            }
            let mut s = ctcmt_st(&mut r, a, a);
            s.r = Scalar::ZERO; s.cm = Scalar::from(a) * G;
            emit(o, &mut r, "ctcmt.zero-opening", "ctcmt", &s.wit(), 3);
            let mut s = ctct_st(&mut r, a, a);
            s.r = Scalar::ZERO; s.c2 = Scalar::from(a) * G; s.d2 = RistrettoPoint::identity();
            emit(o, &mut r, "ctct.zero-opening", "ctct", &s.wit(), 3);
        }
        // honest statements whose fields coincide or combine two special features at once
        {
            // validity: features 0 = identity auditor key, 1 = zero opening, 2 = amount 0, 3 = amount MAX,
            // 4 = all keys equal, 5 = opening 1, 6 = (batched) lo and hi identical; every pair of them
            // (a zero amount with a zero opening gives an identity commitment, which the verifier refuses: skipped)
            let build = |r: &mut Rng, n: usize, fs: &[usize]| -> Val {
                let has = |f: usize| fs.contains(&f);
                let mut ps: Vec<RistrettoPoint> = (0..n).map(|_| kp(r).p).collect();
                if has(4) { let p0 = ps[0]; for p in ps.iter_mut() { *p = p0; } }
                if has(0) { ps[n - 1] = RistrettoPoint::identity(); }
                let amt = if has(2) { 0 } else if has(3) { u64::MAX } else { amount(r).max(1) };
                let o = if has(1) { Scalar::ZERO } else if has(5) { Scalar::ONE } else { rand_scalar(r) };
                Val { c: commit(&Scalar::from(amt), &o), ds: ps.iter().map(|p| o * p).collect(), r: o, amt, ps }
            };
            for f1 in 0..7usize {
                for f2 in f1..7usize {
                    let fs = [f1, f2];
                    let has = |f: usize| fs.contains(&f);
                    if (has(1) && has(2)) || (has(2) && has(3)) || (has(1) && has(5)) { continue; }
                    if !th && (f1 * 7 + f2 + seed as usize) % 2 == 1 { continue; }
                    for n in [2usize, 3] {
                        if !has(6) {
                            let s = build(&mut r, n, &fs);
                            emit(o, &mut r, &format!("val.features.{}-{}", f1, f2), &format!("val{}", n), &s.wit(), 2);
                        }
                        let lo = build(&mut r, n, &fs);
                        let hi = if has(6) { val_clone(&lo) } else {
                            let mut h = build(&mut r, n, &fs);
                            // lo and hi share the keys
                            h.ps = lo.ps.clone(); h.ds = h.ps.iter().map(|p| h.r * p).collect();
                            h
                        };
                        let s = BVal { lo, hi };
                        emit(o, &mut r, &format!("bval.features.{}-{}", f1, f2), &format!("bval{}", n), &s.wit(), 2);
                    }
                }
            }
            // ct-ct equality: the same key pair on both sides; the very same ciphertext on both sides
            let a = amount(&mut r);
            let mut s = ctct_st(&mut r, a, a);
            s.k2 = Kp { s: s.k1.s, p: s.k1.p }; s.d2 = s.r * s.k1.p;
            emit(o, &mut r, "ctct.same-key", "ctct", &s.wit(), 3);
            let mut s = ctct_st(&mut r, a, a);
            s.k2 = Kp { s: s.k1.s, p: s.k1.p };
            let o1 = rand_scalar(&mut r);
            s.c1 = commit(&Scalar::from(a), &o1); s.d1 = o1 * s.k1.p; s.c2 = s.c1; s.d2 = s.d1; s.r = o1;
            emit(o, &mut r, "ctct.same-ciphertext", "ctct", &s.wit(), 3);
            // ct-commitment equality: the commitment is the ciphertext's own commitment (same opening)
            let mut s = ctcmt_st(&mut r, a, a);
            let o1 = rand_scalar(&mut r);
            s.c = commit(&Scalar::from(a), &o1); s.d = o1 * s.k.p; s.cm = s.c; s.r = o1;
            emit(o, &mut r, "ctcmt.same-commitment", "ctcmt", &s.wit(), 3);
            // zero-ciphertext: opening 1; the key with secret 1 (P = H)
            let mut s = zero_st(&mut r, &Scalar::ZERO);
            s.c = *H; s.d = s.k.p;
            emit(o, &mut r, "zero.opening-one", "zero", &s.wit(), 1);
            let mut s = zero_st(&mut r, &Scalar::ZERO);
            s.k = Kp { s: Scalar::ONE, p: *H };
            let o1 = rand_nonzero(&mut r);
            s.c = o1 * *H; s.d = o1 * *H;
            emit(o, &mut r, "zero.key-one", "zero", &s.wit(), 1);
        }
        // second ciphertext = identity for ct-ct equality (amount 0, opening 0)
        let mut z = ctct_st(&mut r, 0, 0);
        z.c2 = RistrettoPoint::identity();
        z.d2 = RistrettoPoint::identity();
        z.r = Scalar::ZERO;
        emit(o, &mut r, "ctct.id-second", "ctct", &z.wit(), 3);
        // cap proof: below the cap (fee < max), and exactly at the cap with the implied delta commitment
        for (pct, max) in [(0u64, 1u64), (2, 3), (999, 1000), (u64::MAX - 1, u64::MAX)] {
            let d = amount(&mut r);
            let s = cap_below(&mut r, pct, max, d);
            emit(o, &mut r, "cap.below", "cap", &s.wit(), 10);
        }
        // below the cap at every distance between the fee and the cap: next to it, 2^32, 2^62 and each side of 2^63
        // away, and a cap of u64::MAX (the branch the prover takes depends on comparing the two)
        {
            let mut pairs: Vec<(u64, u64)> = vec![];
            for pct in [0u64, 1, 250, 1 << 31, 1 << 62, (1 << 63) - 1, 1 << 63, (1 << 63) + 1] {
                for gap in [2u64, 1 << 32, 1 << 62, (1 << 63) - 1, 1 << 63, (1 << 63) + 1, u64::MAX - pct] {
                    if gap == 0 { continue; }
                    if let Some(max) = pct.checked_add(gap) { pairs.push((pct, max)); }
                }
            }
            pairs.push((250, 10_000_000_000_000_000_000));
            pairs.dedup();
            let keep = if th { pairs.len() } else { 12 };
            let start = r.below(pairs.len() as u64) as usize;
            for i in 0..keep {
                // the quick tier strides through the list so that every distance class is seen
                let (pct, max) = pairs[(start + i * if th { 1 } else { 5 }) % pairs.len()];
                let d = amount(&mut r);
                let s = cap_below(&mut r, pct, max, d);
                emit(o, &mut r, "cap.below-distances", "cap", &s.wit(), 10);
            }
        }
        for (base, bp, max) in [(1_000_000u64, 400u16, 3u64), (u64::MAX, 10_000, 1), (5, 1, 0), (123_456_789, 9_999, u64::MAX)] {
            let claimed = amount(&mut r);
            let s = cap_at(&mut r, base, bp, max, claimed);
            emit(o, &mut r, "cap.at-cap", "cap", &s.wit(), 10);
        }
        // at the cap with the zero opening on the percentage commitment (it is max*G, publicly at the cap), and opening 1
        for rp0 in [Scalar::ZERO, Scalar::ONE] {
            let s = cap_at_rp(&mut r, 1_000_000, 400, 3, 7, rp0);
            emit(o, &mut r, "cap.at-cap-special-opening", "cap", &s.wit(), 10);
        }
        // below the cap with zero openings on delta and claimed (both are delta*G)
        {
            let mut s = cap_below(&mut r, 2, 5, 9);
            s.rd = Scalar::ZERO; s.rc = Scalar::ZERO; s.cd = Scalar::from(9u64) * G; s.cc = s.cd;
            emit(o, &mut r, "cap.below-zero-openings", "cap", &s.wit(), 10);
        }
        // above the cap as the prover sees it (percentage_amount > max is not a valid statement for the
        // constructor's own check unless the commitment opens to it: pct = max+1 committed)
        let s = cap_below(&mut r, 10, 10, 4); // pct == max through cap_below: at-cap branch with delta == claimed
        emit(o, &mut r, "cap.at-cap-equal", "cap", &s.wit(), 10);
    }
}

/// witnesses violating exactly one relation of each constructor: must be refused by both sides
pub fn gen_c20(o: &mut Out, tier: &str, seed: u64) {
    let mut r = Rng::new(seed, "c20");
    let th = tier == "thorough";
    let reps = if th { 10 } else { 1 };
    let rp = |r: &mut Rng| rand_nonzero(r) * G;
    for _ in 0..reps {
        let bad = |o: &mut Out, r: &mut Rng, fam: &str, instr: &str, wit: String, nn: usize| {
            let ns = nonces(r, nn);
            o.op_exp(fam, "err", &format!("new {} {} {}", instr, wit, ns));
        };
        let good = |o: &mut Out, r: &mut Rng, fam: &str, instr: &str, wit: String, nn: usize| {
            let ns = nonces(r, nn);
            o.op(fam, &format!("new {} {} {}", instr, wit, ns));
        };
        // zero: non-zero plaintext (1, random, l-1), wrong key
        for m in [Scalar::ONE, rand_nonzero(&mut r), -Scalar::ONE] {
            let f = zero_st(&mut r, &m);
            bad(o, &mut r, "zero.nonzero", "zero", f.wit(), 1);
        }
        let mut f = zero_st(&mut r, &Scalar::ZERO);
        f.k.s = rand_nonzero(&mut r);
        bad(o, &mut r, "zero.wrong-key", "zero", f.wit(), 1);
        let f = zero_st(&mut r, &Scalar::ZERO);
        good(o, &mut r, "zero.ok", "zero", f.wit(), 1);
        // ctct: first does not decrypt to amount; second commitment / handle / key mismatch; amount off by one
        let a = amount(&mut r);
        let mut f = ctct_st(&mut r, a, a); f.c1 += rp(&mut r);
        bad(o, &mut r, "ctct.first-commitment", "ctct", f.wit(), 3);
        let mut f = ctct_st(&mut r, a, a); f.d1 += rp(&mut r);
        bad(o, &mut r, "ctct.first-handle", "ctct", f.wit(), 3);
        let mut f = ctct_st(&mut r, a, a); f.c2 += rp(&mut r);
        bad(o, &mut r, "ctct.second-commitment", "ctct", f.wit(), 3);
        let mut f = ctct_st(&mut r, a, a); f.d2 += rp(&mut r);
        bad(o, &mut r, "ctct.second-handle", "ctct", f.wit(), 3);
        let mut f = ctct_st(&mut r, a, a); f.r = rand_scalar(&mut r);
        bad(o, &mut r, "ctct.second-opening", "ctct", f.wit(), 3);
        let mut f = ctct_st(&mut r, a, a); f.amt = a.wrapping_add(1);
        bad(o, &mut r, "ctct.amount", "ctct", f.wit(), 3);
        let f = ctct_st(&mut r, a, a.wrapping_add(1));
        bad(o, &mut r, "ctct.unequal", "ctct", f.wit(), 3);
        let mut f = ctct_st(&mut r, a, a); f.k1.s = rand_nonzero(&mut r);
        bad(o, &mut r, "ctct.wrong-key", "ctct", f.wit(), 3);
        let f = ctct_st(&mut r, a, a);
        good(o, &mut r, "ctct.ok", "ctct", f.wit(), 3);
        // ctcmt
        let mut f = ctcmt_st(&mut r, a, a); f.c += rp(&mut r);
        bad(o, &mut r, "ctcmt.ct-commitment", "ctcmt", f.wit(), 3);
        let mut f = ctcmt_st(&mut r, a, a); f.d += rp(&mut r);
        bad(o, &mut r, "ctcmt.ct-handle", "ctcmt", f.wit(), 3);
        let mut f = ctcmt_st(&mut r, a, a); f.cm += rp(&mut r);
        bad(o, &mut r, "ctcmt.commitment", "ctcmt", f.wit(), 3);
        let mut f = ctcmt_st(&mut r, a, a); f.r = rand_scalar(&mut r);
        bad(o, &mut r, "ctcmt.opening", "ctcmt", f.wit(), 3);
        let mut f = ctcmt_st(&mut r, a, a); f.amt = a.wrapping_sub(1);
        bad(o, &mut r, "ctcmt.amount", "ctcmt", f.wit(), 3);
        let f = ctcmt_st(&mut r, a, a);
        good(o, &mut r, "ctcmt.ok", "ctcmt", f.wit(), 3);
        // validity: each point of the grouped ciphertext, each key, amount, opening
        for n in [2usize, 3] {
            let name = format!("val{}", n);
            for i in 0..(n + 1) {
                let mut f = val_st(&mut r, n, a, None);
                if i == 0 { f.c += rp(&mut r); } else { f.ds[i - 1] += rp(&mut r); }
                bad(o, &mut r, &format!("{}.point{}", name, i), &name, f.wit(), 2);
            }
            for i in 0..n {
                let mut f = val_st(&mut r, n, a, None);
                f.ps[i] = kp(&mut r).p;
                bad(o, &mut r, &format!("{}.key{}", name, i), &name, f.wit(), 2);
            }
            let mut f = val_st(&mut r, n, a, None); f.amt = a ^ 1;
            bad(o, &mut r, &format!("{}.amount", name), &name, f.wit(), 2);
            let mut f = val_st(&mut r, n, a, None); f.r = rand_scalar(&mut r);
            bad(o, &mut r, &format!("{}.opening", name), &name, f.wit(), 2);
            let f = val_st(&mut r, n, a, None);
            good(o, &mut r, &format!("{}.ok", name), &name, f.wit(), 2);
            // batched: lo / hi separately
            let bname = format!("bval{}", n);
            for hi in [false, true] {
                for i in 0..(n + 1) {
                    let mut f = bval_st(&mut r, n, a, 9, None);
                    let t = if hi { &mut f.hi } else { &mut f.lo };
                    if i == 0 { t.c += rp(&mut r); } else { t.ds[i - 1] += rp(&mut r); }
                    bad(o, &mut r, &format!("{}.{}.point{}", bname, if hi { "hi" } else { "lo" }, i), &bname, f.wit(), 2);
                }
                let mut f = bval_st(&mut r, n, a, 9, None);
                if hi { f.hi.amt ^= 1 } else { f.lo.amt ^= 1 }
                bad(o, &mut r, &format!("{}.{}.amount", bname, if hi { "hi" } else { "lo" }), &bname, f.wit(), 2);
                let mut f = bval_st(&mut r, n, a, 9, None);
                if hi { f.hi.r = rand_scalar(&mut r) } else { f.lo.r = rand_scalar(&mut r) }
                bad(o, &mut r, &format!("{}.{}.opening", bname, if hi { "hi" } else { "lo" }), &bname, f.wit(), 2);
            }
            // violations that preserve an aggregate: two handles shifted by +D / -D, handles permuted, keys permuted,
            // commitment and a handle shifted together; plain and batched (lo, hi, both)
            {
                let joint = |v: &mut Val, kind: usize, d: &RistrettoPoint| {
                    let n = v.ds.len();
                    match kind {
                        0 => { v.ds[0] += d; v.ds[1] -= d; }
                        1 => { v.ds[n - 2] += d; v.ds[n - 1] -= d; }
                        2 => { v.ds.swap(0, 1); }
                        3 => { v.ds.swap(0, n - 1); }
                        4 => { v.ps.swap(0, 1); }
                        5 => { v.ps.swap(0, n - 1); }
                        6 => { v.c += d; v.ds[0] -= d; }
                        _ => { v.ds.rotate_left(1); }
                    }
                };
                for kind in 0..8 {
                    let d = rp(&mut r);
                    let mut f = val_st(&mut r, n, a, None);
                    joint(&mut f, kind, &d);
                    bad(o, &mut r, &format!("{}.joint{}", name, kind), &name, f.wit(), 2);
                    for which in 0..3 {
                        // the keys are shared by lo and hi (taken from lo): a key permutation has one form only
                        if (kind == 4 || kind == 5) && which != 0 { continue; }
                        let mut f = bval_st(&mut r, n, a, 9, None);
                        if which != 1 { joint(&mut f.lo, kind, &d); }
                        if which != 0 { joint(&mut f.hi, kind, &d); }
                        bad(o, &mut r, &format!("{}.joint{}.{}", bname, kind, ["lo", "hi", "both"][which]), &bname, f.wit(), 2);
                    }
                }
                // lo and hi handles exchanged (commitments kept), lo.ds[i] += D and hi.ds[i] -= D
                let mut f = bval_st(&mut r, n, a, 9, None);
                std::mem::swap(&mut f.lo.ds, &mut f.hi.ds);
                bad(o, &mut r, &format!("{}.joint.handles-exchanged", bname), &bname, f.wit(), 2);
                let d = rp(&mut r);
                let mut f = bval_st(&mut r, n, a, 9, None);
                f.lo.ds[0] += d; f.hi.ds[0] -= d;
                bad(o, &mut r, &format!("{}.joint.lo-hi-shift", bname), &bname, f.wit(), 2);
            }
            // the permitted no-auditor statement (last key = identity, last handles = identity): every component is
            // still checked, the auditor's handle included (it can only be the identity)
            {
                let mut ps: Vec<RistrettoPoint> = (0..n).map(|_| kp(&mut r).p).collect();
                ps[n - 1] = RistrettoPoint::identity();
                let f = val_st(&mut r, n, a, Some(ps.clone()));
                good(o, &mut r, &format!("{}.noaud.ok", name), &name, f.wit(), 2);
                for i in 0..(n + 1) {
                    let mut f = val_st(&mut r, n, a, Some(ps.clone()));
                    if i == 0 { f.c += rp(&mut r); } else { f.ds[i - 1] += rp(&mut r); }
                    bad(o, &mut r, &format!("{}.noaud.point{}", name, i), &name, f.wit(), 2);
                }
                let f = bval_st(&mut r, n, a, 9, Some(ps.clone()));
                good(o, &mut r, &format!("{}.noaud.ok", bname), &bname, f.wit(), 2);
                for hi in [false, true] {
                    for i in 0..(n + 1) {
                        let mut f = bval_st(&mut r, n, a, 9, Some(ps.clone()));
                        let t = if hi { &mut f.hi } else { &mut f.lo };
                        if i == 0 { t.c += rp(&mut r); } else { t.ds[i - 1] += rp(&mut r); }
                        bad(o, &mut r, &format!("{}.noaud.{}.point{}", bname, if hi { "hi" } else { "lo" }, i), &bname, f.wit(), 2);
                    }
                }
                // equal keys: every component still checked
                let pe = vec![ps[0]; n];
                for i in 1..(n + 1) {
                    let mut f = val_st(&mut r, n, a, Some(pe.clone()));
                    f.ds[i - 1] += rp(&mut r);
                    bad(o, &mut r, &format!("{}.equal-keys.point{}", name, i), &name, f.wit(), 2);
                    let mut f = bval_st(&mut r, n, a, 9, Some(pe.clone()));
                    f.hi.ds[i - 1] += rp(&mut r);
                    bad(o, &mut r, &format!("{}.equal-keys.hi.point{}", bname, i), &bname, f.wit(), 2);
                }
            }
            // lo and hi swapped (each valid for the other's amount)
            let f = bval_st(&mut r, n, 5, 9, None);
            let sw = BVal { lo: Val { amt: 5, r: f.lo.r, ..val_clone(&f.hi) }, hi: Val { amt: 9, r: f.hi.r, ..val_clone(&f.lo) } };
            bad(o, &mut r, &format!("{}.swapped", bname), &bname, sw.wit(), 2);
            let f = bval_st(&mut r, n, a, 9, None);
            good(o, &mut r, &format!("{}.ok", bname), &bname, f.wit(), 2);
        }
        // cap: percentage, claimed always; delta only below the cap
        let mut f = cap_below(&mut r, 2, 5, 9); f.cm += rp(&mut r);
        bad(o, &mut r, "cap.percentage", "cap", f.wit(), 10);
        let mut f = cap_below(&mut r, 2, 5, 9); f.pct = 3;
        bad(o, &mut r, "cap.percentage-amount", "cap", f.wit(), 10);
        let mut f = cap_below(&mut r, 2, 5, 9); f.cc += rp(&mut r);
        bad(o, &mut r, "cap.claimed", "cap", f.wit(), 10);
        let mut f = cap_below(&mut r, 2, 5, 9); f.cd += rp(&mut r);
        bad(o, &mut r, "cap.delta-below-cap", "cap", f.wit(), 10);
        let mut f = cap_below(&mut r, 2, 5, 9); f.rd = rand_scalar(&mut r);
        bad(o, &mut r, "cap.delta-opening-below-cap", "cap", f.wit(), 10);
        let mut f = cap_at(&mut r, 1_000_000, 400, 3, 7); f.cc += rp(&mut r);
        bad(o, &mut r, "cap.claimed-at-cap", "cap", f.wit(), 10);
        let mut f = cap_at(&mut r, 1_000_000, 400, 3, 7); f.cm += rp(&mut r);
        bad(o, &mut r, "cap.percentage-at-cap", "cap", f.wit(), 10);
        // commitments and openings reused between the slots (jointly invalid: each pair is self-consistent or equal
        // to another slot, but does not open to the amount given for its own slot)
        {
            let mut f = cap_at(&mut r, 1_000_000, 400, 3, 7); f.cc = f.cd; f.rc = f.rd;
            bad(o, &mut r, "cap.joint.claimed-is-delta-at-cap", "cap", f.wit(), 10);
            let o9 = rand_scalar(&mut r);
            let x9 = commit(&Scalar::from(999u64), &o9);
            let mut f = cap_at(&mut r, 1_000_000, 400, 3, 100); f.cd = x9; f.rd = o9; f.cc = x9; f.rc = o9;
            bad(o, &mut r, "cap.joint.bogus-pair-at-cap", "cap", f.wit(), 10);
            let mut f = cap_below(&mut r, 2, 5, 100); f.cd = x9; f.rd = o9; f.cc = x9; f.rc = o9;
            bad(o, &mut r, "cap.joint.bogus-pair-below-cap", "cap", f.wit(), 10);
            let mut f = cap_at(&mut r, 1_000_000, 400, 3, 7); f.cc = f.cm; f.rc = f.rp;
            bad(o, &mut r, "cap.joint.claimed-is-percentage", "cap", f.wit(), 10);
            let mut f = cap_below(&mut r, 2, 5, 9); f.cd = f.cm; f.rd = f.rp;
            bad(o, &mut r, "cap.joint.delta-is-percentage", "cap", f.wit(), 10);
            let mut f = cap_below(&mut r, 2, 5, 9); f.cm = f.cc; f.rp = f.rc;
            bad(o, &mut r, "cap.joint.percentage-is-claimed", "cap", f.wit(), 10);
            // the honest coincidences are fine: claimed == delta (same commitment and opening) below the cap; pct == delta
            let mut f = cap_below(&mut r, 2, 5, 9); f.cc = f.cd; f.rc = f.rd;
            good(o, &mut r, "cap.joint.ok-claimed-is-delta", "cap", f.wit(), 10);
            let mut f = cap_below(&mut r, 4, 5, 4); f.cd = f.cm; f.rd = f.rp; f.cc = f.cm; f.rc = f.rp;
            good(o, &mut r, "cap.joint.ok-all-equal", "cap", f.wit(), 10);
        }
        // equality constructors: the two sides exchanged or reused
        {
            let a = amount(&mut r);
            let mut f = ctct_st(&mut r, a, a.wrapping_add(1));
            f.c2 = f.c1; f.d2 = f.d1;           // second ciphertext := first (under key 1), opening of the old second
            bad(o, &mut r, "ctct.joint.second-is-first", "ctct", f.wit(), 3);
            let mut f = ctct_st(&mut r, a, a);
            std::mem::swap(&mut f.c1, &mut f.c2); std::mem::swap(&mut f.d1, &mut f.d2);
            bad(o, &mut r, "ctct.joint.exchanged", "ctct", f.wit(), 3);
            let mut f = ctcmt_st(&mut r, a, a.wrapping_add(1));
            f.cm = f.c;                          // commitment := the ciphertext's commitment, opening of the old one
            bad(o, &mut r, "ctcmt.joint.commitment-is-ciphertext", "ctcmt", f.wit(), 3);
            // same key pair and the very same ciphertext on both sides, but the opening given for the second is not its opening
            for wrong in [rand_scalar(&mut r), Scalar::ZERO, Scalar::ONE] {
                let mut f = ctct_st(&mut r, a, a);
                f.k2 = Kp { s: f.k1.s, p: f.k1.p };
                f.c2 = f.c1; f.d2 = f.d1; f.r = wrong;
                bad(o, &mut r, "ctct.joint.same-key-same-ciphertext-wrong-opening", "ctct", f.wit(), 3);
            }
            // same key pair, second ciphertext honest under that key but for another amount
            let mut f = ctct_st(&mut r, a, a.wrapping_add(1));
            f.k2 = Kp { s: f.k1.s, p: f.k1.p }; f.d2 = f.r * f.k1.p;
            bad(o, &mut r, "ctct.joint.same-key-other-amount", "ctct", f.wit(), 3);
            // ct-commitment: commitment equal to the ciphertext's commitment, with a wrong opening
            let mut f = ctcmt_st(&mut r, a, a);
            let o1 = rand_scalar(&mut r);
            f.c = commit(&Scalar::from(a), &o1); f.d = o1 * f.k.p; f.cm = f.c; f.r = rand_scalar(&mut r);
            bad(o, &mut r, "ctcmt.joint.same-commitment-wrong-opening", "ctcmt", f.wit(), 3);
            // zero proof: a ciphertext equal to (P, P) or (H, P): looks related to the key but is not an encryption of zero under it ... unless s = 1
            let mut f = zero_st(&mut r, &Scalar::ZERO);
            f.c = f.k.p; f.d = f.k.p;
            bad(o, &mut r, "zero.joint.ciphertext-is-key", "zero", f.wit(), 1);
        }
        let f = cap_below(&mut r, 2, 5, 9);
        good(o, &mut r, "cap.ok-below", "cap", f.wit(), 10);
        let f = cap_at(&mut r, 1_000_000, 400, 3, 7);
        good(o, &mut r, "cap.ok-at-cap", "cap", f.wit(), 10);
    }
}

fn val_clone(v: &Val) -> Val {
    Val { ps: v.ps.clone(), c: v.c, ds: v.ds.clone(), r: v.r, amt: v.amt }
}

// ------------------------------------------------------------------ C19
pub fn gen_c19(o: &mut Out, tier: &str, seed: u64) {
    let mut r = Rng::new(seed, "c19");
    let n = if tier == "thorough" { 4096 } else { 64 };
    let nr = if tier == "thorough" { 256 } else { 16 };
    let d = |o: &mut Out, fam: &str, body: String| o.op_exp(fam, "distinct", &body);
    d(o, "keygen", format!("fresh keygen {}", n));
    d(o, "aekeygen", format!("fresh aekeygen {}", n));
    d(o, "opening", format!("fresh opening {}", n));
    // more than 2^16 calls of the cheap entry points in one process (a counter that wraps, a pool that is reused)
    let big = 70_000;
    d(o, "aekeygen.many", format!("fresh aekeygen {}", big));
    d(o, "opening.many", format!("fresh opening {}", big));
    d(o, "seckeygen.many", format!("fresh seckeygen {}", big));
    d(o, "ae.many", format!("fresh ae {} 77 {}", hex(&r.bytes(16)), big));
    for a in [0u64, 1, u64::MAX] { d(o, "pedersen", format!("fresh pedersen {} {}", a, n)); }
    let k = kp(&mut r);
    for a in [0u64, 77, u64::MAX] { d(o, "enc", format!("fresh enc {} {} {}", hp(&k.p), a, n)); }
    for a in [0u64, 77, u64::MAX] { d(o, "enc-u64", format!("fresh encu64 {} {} {}", hp(&k.p), a, n)); }
    d(o, "seckeygen", format!("fresh seckeygen {}", n));
    let (k2, k3) = (kp(&mut r), kp(&mut r));
    // every handle count, zero handles included (the ciphertext is then just the commitment)
    d(o, "genc", format!("fresh genc 5 {}", n));
    d(o, "genc", format!("fresh genc 0 {}", n));
    d(o, "genc", format!("fresh genc 5 {} {}", hp(&k.p), n));
    d(o, "genc", format!("fresh genc 5 {} {} {}", hp(&k.p), hp(&k2.p), n));
    d(o, "genc", format!("fresh genc 5 {} {} {} {}", hp(&k.p), hp(&k2.p), hp(&k3.p), n));
    d(o, "ae", format!("fresh ae {} 55 {}", hex(&r.bytes(16)), n));
    // the nine sigma provers on one fixed witness each (cap: below the cap and at the cap)
    let st = zero_st(&mut r, &Scalar::ZERO);
    d(o, "zero", format!("fresh zero {} {}", st.wit(), n));
    d(o, "pubkey", format!("fresh pubkey {} {} {}", hs(&k.s), hp(&k.p), n));
    let a = amount(&mut r);
    d(o, "ctct", format!("fresh ctct {} {}", ctct_st(&mut r, a, a).wit(), n));
    d(o, "ctcmt", format!("fresh ctcmt {} {}", ctcmt_st(&mut r, a, a).wit(), n));
    for nh in [2usize, 3] {
        d(o, "val", format!("fresh val{} {} {}", nh, val_st(&mut r, nh, a, None).wit(), n));
        d(o, "bval", format!("fresh bval{} {} {}", nh, bval_st(&mut r, nh, a, 3, None).wit(), n));
        let mut ps: Vec<RistrettoPoint> = (0..nh).map(|_| kp(&mut r).p).collect();
        ps[nh - 1] = RistrettoPoint::identity();
        d(o, "val.id-auditor", format!("fresh val{} {} {}", nh, val_st(&mut r, nh, a, Some(ps)).wit(), n));
    }
    d(o, "cap.below", format!("fresh cap {} {}", cap_below(&mut r, 2, 5, 9).wit(), n));
    d(o, "cap.at-cap", format!("fresh cap {} {}", cap_at(&mut r, 1_000_000, 400, 3, 7).wit(), n));
    d(o, "cap.at-cap", format!("fresh cap {} {}", cap_below(&mut r, 5, 5, 9).wit(), n));
    // range provers
    for (w, bls) in [(64usize, vec![32usize, 32]), (128, vec![64, 64])] {
        let amounts: Vec<u64> = bls.iter().map(|_| r.u64() & 0xffff_ffff).collect();
        let opens: Vec<Scalar> = bls.iter().map(|_| rand_scalar(&mut r)).collect();
        let comms: Vec<String> = amounts.iter().zip(opens.iter()).map(|(a, op)| hp(&commit(&Scalar::from(*a), op))).collect();
        d(o, "range", format!("fresh range{} {} {} {} {} {}", w, comms.join(","),
            amounts.iter().map(|x| x.to_string()).collect::<Vec<_>>().join(","),
            bls.iter().map(|x| x.to_string()).collect::<Vec<_>>().join(","),
            opens.iter().map(hs).collect::<Vec<_>>().join(","), nr));
    }
}

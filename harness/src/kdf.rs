//! key derivation (C14)
use crate::util::*;
use solana_keypair::Keypair;
use solana_pubkey::Pubkey;
use solana_seed_derivable::SeedDerivable;
use solana_seed_phrase::generate_seed_from_seed_phrase_and_passphrase;
use solana_signature::Signature;
use solana_signer::{Signer, SignerError};
use solana_zk_sdk::encryption::{auth_encryption::AeKey, elgamal::{ElGamalKeypair, ElGamalSecretKey}};
use std::cell::RefCell;

/// a signer that returns a chosen signature and records the message it was asked to sign
struct Recording {
    sig: [u8; 64],
    msg: RefCell<Vec<u8>>,
}
impl Signer for Recording {
    fn try_pubkey(&self) -> Result<Pubkey, SignerError> { Ok(Pubkey::default()) }
    fn try_sign_message(&self, message: &[u8]) -> Result<Signature, SignerError> {
        *self.msg.borrow_mut() = message.to_vec();
        Ok(Signature::from(self.sig))
    }
    fn is_interactive(&self) -> bool { false }
}

/// a signer whose answer changes from one request to the next (hedged / randomized signatures, a rotating remote
/// key, a one-shot token) and that counts its requests
struct Changing {
    sigs: Vec<[u8; 64]>,
    n: std::cell::Cell<usize>,
}
impl Signer for Changing {
    fn try_pubkey(&self) -> Result<Pubkey, SignerError> { Ok(Pubkey::default()) }
    fn try_sign_message(&self, _message: &[u8]) -> Result<Signature, SignerError> {
        let k = self.n.get();
        self.n.set(k + 1);
        Ok(Signature::from(self.sigs[k.min(self.sigs.len() - 1)]))
    }
    fn is_interactive(&self) -> bool { false }
}

/// each signer-based derivation asks the signer exactly once and derives from that one answer: with a signer that
/// answers `sig` first and something else afterwards (another signature, the all-zero signature) the result is the
/// key of `sig`, public and secret halves consistent
fn changing_signer_check(ty: &str, sig: &[u8; 64], ps: &[u8], expect: &[u8]) -> Option<String> {
    let mut other = *sig; other[0] ^= 0x55; other[40] ^= 0xaa;
    for later in [other, [0u8; 64]] {
        let mk = || Changing { sigs: vec![*sig, later], n: std::cell::Cell::new(0) };
        match ty {
            "elgamal" => {
                let s = mk();
                let k = ElGamalKeypair::new_from_signer(&s, ps).ok().map(|k| kp_bytes(&k));
                if s.n.get() != 1 { return Some(format!("variant-mismatch:signer-asked-{}-times:keypair", s.n.get())) }
                if k.as_deref() != Some(expect) { return Some("variant-mismatch:changing-signer:keypair".into()) }
                let s = mk();
                let k = ElGamalSecretKey::new_from_signer(&s, ps).ok().map(|x| x.as_bytes().to_vec());
                if s.n.get() != 1 { return Some(format!("variant-mismatch:signer-asked-{}-times:secret", s.n.get())) }
                if k.as_deref() != Some(&expect[32..]) { return Some("variant-mismatch:changing-signer:secret".into()) }
                let s = mk();
                let _ = ElGamalSecretKey::seed_from_signer(&s, ps);
                if s.n.get() != 1 { return Some(format!("variant-mismatch:signer-asked-{}-times:seed", s.n.get())) }
            }
            _ => {
                let s = mk();
                let k = AeKey::new_from_signer(&s, ps).ok().map(ae_bytes);
                if s.n.get() != 1 { return Some(format!("variant-mismatch:signer-asked-{}-times:aekey", s.n.get())) }
                if k.as_deref() != Some(expect) { return Some("variant-mismatch:changing-signer:aekey".into()) }
                let s = mk();
                let _ = AeKey::seed_from_signer(&s, ps);
                if s.n.get() != 1 { return Some(format!("variant-mismatch:signer-asked-{}-times:aeseed", s.n.get())) }
            }
        }
    }
    None
}

/// a signer that declines every request (a hardware wallet whose prompt was refused)
struct Declining;
impl Signer for Declining {
    fn try_pubkey(&self) -> Result<Pubkey, SignerError> { Ok(Pubkey::default()) }
    fn try_sign_message(&self, _message: &[u8]) -> Result<Signature, SignerError> { Err(SignerError::UserCancel("declined".into())) }
    fn is_interactive(&self) -> bool { true }
}

/// a signer that panics inside the request (a callback may unwind through the library)
struct Panicking;
impl Signer for Panicking {
    fn try_pubkey(&self) -> Result<Pubkey, SignerError> { Ok(Pubkey::default()) }
    fn try_sign_message(&self, _message: &[u8]) -> Result<Signature, SignerError> { panic!("signer failed") }
    fn is_interactive(&self) -> bool { false }
}

/// every signer-based route asked of a declining signer: all must fail, and leave nothing behind
fn declined_requests(seed: &[u8]) -> bool {
    let other: Vec<u8> = seed.iter().rev().cloned().chain([0x5au8; 9]).collect();
    // a panic raised by the signer passes through (or is reported as an error) and leaves nothing behind either
    for _ in 0..2 {
        let o2 = other.clone();
        let _ = std::panic::catch_unwind(std::panic::AssertUnwindSafe(|| { let _ = ElGamalKeypair::new_from_signer(&Panicking, &o2); }));
        let o2 = other.clone();
        let _ = std::panic::catch_unwind(std::panic::AssertUnwindSafe(|| { let _ = ElGamalSecretKey::seed_from_signer(&Panicking, &o2); }));
        let o2 = other.clone();
        let _ = std::panic::catch_unwind(std::panic::AssertUnwindSafe(|| { let _ = AeKey::new_from_signer(&Panicking, &o2); }));
    }
    ElGamalKeypair::new_from_signer(&Declining, &other).is_err()
        && ElGamalSecretKey::new_from_signer(&Declining, &other).is_err()
        && ElGamalSecretKey::seed_from_signer(&Declining, &other).is_err()
        && AeKey::new_from_signer(&Declining, &other).is_err()
        && AeKey::seed_from_signer(&Declining, &other).is_err()
}

/// refused derivations (seed too short / too long): all must fail; run before
/// each derivation so that anything they might leave behind on the thread would show in the result
fn refused_derivations() -> bool {
    let short = [7u8; 5];
    let long = vec![9u8; 65536];
    ElGamalKeypair::from_seed(&short).is_err() && ElGamalSecretKey::from_seed(&short).is_err() && AeKey::from_seed(&short).is_err()
        && ElGamalKeypair::from_seed(&long).is_err() && ElGamalSecretKey::from_seed(&long).is_err() && AeKey::from_seed(&long).is_err()
}

fn kp_bytes(k: &ElGamalKeypair) -> Vec<u8> { <[u8; 64]>::from(k).to_vec() }
fn ae_bytes(k: AeKey) -> Vec<u8> { <[u8; 16]>::from(k).to_vec() }

pub fn op_kdf(a: &[&str]) -> String {
    let bad = || "bad-op".to_string();
    if !refused_derivations() { return "variant-mismatch:refused-derivation-accepted".into() }
    match a {
        [ty, "sig", h] => {
            let Some(sig) = unhex(h).and_then(|b| arr::<64>(&b)) else { return bad() };
            let sig = Signature::from(sig);
            match *ty {
                "elgamal" => {
                    // the published intermediate seed must lead to the same key
                    let via_seed = ElGamalSecretKey::from_seed(&ElGamalSecretKey::seed_from_signature(&sig)).ok().map(|s| s.as_bytes().to_vec());
                    let direct = ElGamalSecretKey::new_from_signature(&sig).ok().map(|s| s.as_bytes().to_vec());
                    if via_seed != direct { return "variant-mismatch".into() }
                    // the key-pair route and the secret-key route must agree
                    match (ElGamalKeypair::new_from_signature(&sig), ElGamalSecretKey::new_from_signature(&sig)) {
                        (Ok(k), Ok(s)) if k.secret().as_bytes() == s.as_bytes() => format!("ok:{}", hex(&kp_bytes(&k))),
                        (Err(_), Err(_)) => "err".into(),
                        _ => "variant-mismatch".into(),
                    }
                }
                "ae" => {
                    let via_seed = AeKey::from_seed(&AeKey::seed_from_signature(&sig)).ok().map(ae_bytes);
                    let direct = AeKey::new_from_signature(&sig).ok().map(ae_bytes);
                    if via_seed != direct { return "variant-mismatch".into() }
                    match AeKey::new_from_signature(&sig) { Ok(k) => format!("ok:{}", hex(&ae_bytes(k))), Err(_) => "err".into() }
                }
                _ => bad(),
            }
        }
        [ty, "seed", h] => {
            let Some(seed) = unhex(h) else { return bad() };
            // the trait route (`SeedDerivable::from_seed`) gives the same key as the inherent constructor, and the
            // derivation-path constructor is refused for every type
            {
                let t = <ElGamalSecretKey as SeedDerivable>::from_seed(&seed).ok().map(|s| s.as_bytes().to_vec());
                let i = ElGamalSecretKey::from_seed(&seed).ok().map(|s| s.as_bytes().to_vec());
                if t != i { return "variant-mismatch:trait-route".into() }
                let tk = <ElGamalKeypair as SeedDerivable>::from_seed(&seed).ok().map(|k| kp_bytes(&k));
                if tk.as_ref().map(|k| k[32..].to_vec()) != i { return "variant-mismatch:trait-route-keypair".into() }
                if <ElGamalSecretKey as SeedDerivable>::from_seed_and_derivation_path(&seed, None).is_ok()
                    || <ElGamalKeypair as SeedDerivable>::from_seed_and_derivation_path(&seed, None).is_ok()
                    || <AeKey as SeedDerivable>::from_seed_and_derivation_path(&seed, None).is_ok() { return "variant-mismatch:derivation-path".into() }
            }
            match *ty {
                "elgamal" => match (ElGamalKeypair::from_seed(&seed), ElGamalSecretKey::from_seed(&seed)) {
                    (Ok(k), Ok(s)) if k.secret().as_bytes() == s.as_bytes() => format!("ok:{}", hex(&kp_bytes(&k))),
                    (Err(_), Err(_)) => "err".into(),
                    _ => "variant-mismatch".into(),
                },
                "ae" => match AeKey::from_seed(&seed) { Ok(k) => format!("ok:{}", hex(&ae_bytes(k))), Err(_) => "err".into() },
                _ => bad(),
            }
        }
        [ty, "seedzeros", n] => {
            // a seed of n zero bytes (n may exceed 2^32; the allocation is lazy, nothing is touched when the length is refused)
            let Ok(n) = n.parse::<usize>() else { return bad() };
            let seed = vec![0u8; n];
            match *ty {
                "elgamal" => match (ElGamalKeypair::from_seed(&seed), ElGamalSecretKey::from_seed(&seed)) {
                    (Ok(k), Ok(s)) if k.secret().as_bytes() == s.as_bytes() => format!("ok:{}", hex(&kp_bytes(&k))),
                    (Err(_), Err(_)) => "err".into(),
                    _ => "variant-mismatch".into(),
                },
                "ae" => match AeKey::from_seed(&seed) { Ok(k) => format!("ok:{}", hex(&ae_bytes(k))), Err(_) => "err".into() },
                _ => bad(),
            }
        }
        [ty, "signer", sigh, seedh] => {
            let (Some(sig), Some(ps)) = (unhex(sigh).and_then(|b| arr::<64>(&b)), unhex(seedh)) else { return bad() };
            let s = Recording { sig, msg: RefCell::new(vec![]) };
            // a declined request just before (same thread) does not influence the derivation
            if !declined_requests(&ps) { return "variant-mismatch:declining-signer-accepted".into() }
            match *ty {
                "elgamal" => match ElGamalKeypair::new_from_signer(&s, &ps) {
                    Ok(k) => {
                        // secret-key route and the published seed route agree with the key-pair route
                        let sk = ElGamalSecretKey::new_from_signer(&s, &ps).ok().map(|x| x.as_bytes().to_vec());
                        let via_seed = ElGamalSecretKey::seed_from_signer(&s, &ps).ok()
                            .and_then(|sd| ElGamalSecretKey::from_seed(&sd).ok()).map(|x| x.as_bytes().to_vec());
                        if sk.as_deref() != Some(k.secret().as_bytes().as_slice()) || via_seed != sk { return "variant-mismatch".into() }
                        // deterministic: a second call gives the same key
                        let k2 = ElGamalKeypair::new_from_signer(&s, &ps).ok();
                        if k2.map(|x| kp_bytes(&x)) != Some(kp_bytes(&k)) { return "nondeterministic".into() }
                        if let Some(e) = changing_signer_check("elgamal", &sig, &ps, &kp_bytes(&k)) { return e }
                        format!("ok:{}:{}", hex(&kp_bytes(&k)), hex(&s.msg.borrow()))
                    }
                    Err(_) => "err".into(),
                },
                "ae" => match AeKey::new_from_signer(&s, &ps) {
                    Ok(k) => {
                        let kb = ae_bytes(k);
                        let via_seed = AeKey::seed_from_signer(&s, &ps).ok().and_then(|sd| AeKey::from_seed(&sd).ok()).map(ae_bytes);
                        if via_seed.as_ref() != Some(&kb) { return "variant-mismatch".into() }
                        if let Some(e) = changing_signer_check("ae", &sig, &ps, &kb) { return e }
                        format!("ok:{}:{}", hex(&kb), hex(&s.msg.borrow()))
                    }
                    Err(_) => "err".into(),
                },
                _ => bad(),
            }
        }
        // a real ed25519 signer: the derivation from the signature it produced is then checked by both sides
        [ty, "keypair", kseed, seedh] => {
            let (Some(ks), Some(ps)) = (unhex(kseed).and_then(|b| arr::<32>(&b)), unhex(seedh)) else { return bad() };
            let kp = Keypair::new_from_array(ks);
            if !declined_requests(&ps) { return "variant-mismatch:declining-signer-accepted".into() }
            let pfx: &[u8] = if *ty == "elgamal" { b"ElGamalSecretKey" } else { b"AeKey" };
            let sig = kp.sign_message(&[pfx, ps.as_slice()].concat());
            let key = match *ty {
                "elgamal" => ElGamalKeypair::new_from_signer(&kp, &ps).ok().map(|k| kp_bytes(&k)),
                "ae" => AeKey::new_from_signer(&kp, &ps).ok().map(ae_bytes),
                _ => return bad(),
            };
            match key {
                Some(k) => format!("emit:!ok:{} kdf {} sig {}", hex(&k), ty, hex(sig.as_ref())),
                None => "err".into(),
            }
        }
        // seed phrase: PBKDF2 is external; the key must be the derivation from the PBKDF2 output
        [ty, "phrase", ph, pw] => {
            let (Some(ph), Some(pw)) = (unhex(ph), unhex(pw)) else { return bad() };
            let (Ok(ph), Ok(pw)) = (String::from_utf8(ph), String::from_utf8(pw)) else { return bad() };
            let seed = generate_seed_from_seed_phrase_and_passphrase(&ph, &pw);
            let key = match *ty {
                "elgamal" => {
                    let a = ElGamalKeypair::from_seed_phrase_and_passphrase(&ph, &pw).ok().map(|k| kp_bytes(&k));
                    let b = ElGamalSecretKey::from_seed_phrase_and_passphrase(&ph, &pw).ok().map(|s| s.as_bytes().to_vec());
                    match (&a, &b) { (Some(x), Some(y)) if x[32..] == y[..] => a, (None, None) => None, _ => return "variant-mismatch".into() }
                }
                "ae" => AeKey::from_seed_phrase_and_passphrase(&ph, &pw).ok().map(ae_bytes),
                _ => return bad(),
            };
            match key {
                Some(k) => format!("emit:!ok:{} kdf {} seed {}", hex(&k), ty, hex(&seed)),
                None => "err".into(),
            }
        }
        _ => bad(),
    }
}

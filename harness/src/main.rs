//! zkh — correspondence harness: runs the real SDK in-process on op lines.
//!
//!   zkh run            read op lines on stdin, print `<id> <outcome>` per line
//!   zkh gen <prop> <tier> <seed>   print op lines for a property (inputs only)
//!   zkh const          print the compiled constants as JSON
mod util;
mod wire;
mod gen;
mod gen_sigma;
mod gen_enc;
mod gen_bind;
mod kdf;
mod fresh;
mod secrets;
mod gen_range;
mod range;
mod enc;
mod sigma;

use std::io::{BufRead, Write};

pub fn exec(op: &str, args: &[&str]) -> String {
    match op {
        "ix" => wire::op_ix(args),
        "state" => wire::op_state(args),
        "verify" => sigma::op_verify(args),
        "new" => sigma::op_new(args),
        "prove" => sigma::op_prove(args),
        "mprove" | "forge" => sigma::op_mprove(args),
        "rnew" => range::op_rnew(args),
        "rprove" => range::op_rprove(args),
        "rmprove" => "emit:".to_string(),
        "rseq" => range::op_rseq(args),
        "vseq" => vseq(args),
        "decode" => enc::op_decode(args),
        "serde" => enc::op_serde(args),
        "extract" => enc::op_extract(args),
        "fromstr" => enc::op_fromstr(args),
        "tostr" => enc::op_tostr(args),
        "json" => enc::op_json(args),
        "tojson" => enc::op_tojson(args),
        "jsonfile" => enc::op_jsonfile(args),
        "elg" => enc::op_elg(args),
        "ae" => enc::op_ae(args),
        "dlog" | "dlogsearch" => enc::op_dlog(args),
        "dlogseq" => enc::op_dlogseq(args),
        "kdf" => kdf::op_kdf(args),
        "fresh" => fresh::op_fresh(args),
        "drop" => secrets::op_drop(args),
        "debug" => secrets::op_debug(args),
        _ => "bad-op".to_string(),
    }
}

fn main() {
    // keep panic messages out of the output streams that are diffed
    std::panic::set_hook(Box::new(|_| {}));
    let args: Vec<String> = std::env::args().collect();
    match args.get(1).map(|s| s.as_str()) {
        Some("const") => println!("{}", wire::consts_json()),
        Some("gen") => {
            let prop = args.get(2).cloned().unwrap_or_default();
            let tier = args.get(3).cloned().unwrap_or_else(|| "quick".into());
            let seed: u64 = args.get(4).and_then(|s| s.parse().ok()).unwrap_or(1);
            let out = std::io::stdout();
            let mut w = std::io::BufWriter::new(out.lock());
            gen::generate(&prop, &tier, seed, &mut w);
            w.flush().unwrap();
        }
        Some("run") => {
            let stdin = std::io::stdin();
            let out = std::io::stdout();
            let mut w = std::io::BufWriter::new(out.lock());
            for line in stdin.lock().lines() {
                let line = line.unwrap();
                let toks: Vec<&str> = line.split_whitespace().collect();
                if toks.len() < 2 {
                    continue;
                }
                let id = toks[0];
                let op = toks[1];
                let r = match util::guard(|| exec(op, &toks[2..])) {
                    Some(r) => r,
                    None => "P".to_string(),
                };
                writeln!(w, "{} {}", id, r).unwrap();
            }
            w.flush().unwrap();
        }
        _ => {
            eprintln!("usage: zkh run | gen <prop> <tier> <seed> | const");
            std::process::exit(2);
        }
    }
}

/// verifications in order on one thread; then the same sequence on three threads at once: every run gives the
/// same verdict string (no state shared between verifications, in time or across threads)
fn vseq(args: &[&str]) -> String {
    fn run(toks: &[String]) -> String {
        toks.iter().map(|tok| match tok.split_once(':') {
            Some((i, h)) => sigma::op_verify(&[i, h]).chars().next().map(|c| if c == 'b' { '?' } else { c }).unwrap_or('?'),
            None => '?',
        }).collect()
    }
    let toks: Vec<String> = args.iter().map(|x| x.to_string()).collect();
    let single = run(&toks);
    let handles: Vec<_> = (0..3).map(|k| {
        let mut t = toks.clone();
        // each thread starts at a different place of the sequence so that accepted and rejected items overlap in time
        let n = t.len().max(1);
        t.rotate_left((k * n / 3) % n);
        std::thread::spawn(move || (k, run(&t)))
    }).collect();
    for h in handles {
        match h.join() {
            Ok((k, r)) => {
                let n = toks.len().max(1);
                let mut expect: Vec<char> = single.chars().collect();
                expect.rotate_left((k * n / 3) % n);
                if r != expect.iter().collect::<String>() { return format!("variant-mismatch:concurrent:{}:{}", single, r) }
            }
            Err(_) => return "P".into(),
        }
    }
    single
}

//! batched range-proof instructions: constructors of the real SDK (`rnew`, `rprove`)
use crate::sigma::{commitment, opening};
use crate::util::*;
use solana_zk_sdk::{
    encryption::pedersen::{PedersenCommitment, PedersenOpening},
    zk_elgamal_proof_program::proof_data::*,
};

fn csv(s: &str) -> Vec<&str> {
    if s == "-" { vec![] } else { s.split(',').collect() }
}

/// `Some(Ok(bytes))`, `Some(Err(kind))`, `None` = bad op
pub fn construct(a: &[&str]) -> Option<Result<Vec<u8>, String>> {
    let [w, comms, amounts, bls, opens, ..] = a else { return None };
    let comms: Option<Vec<PedersenCommitment>> = csv(comms).iter().map(|c| commitment(c)).collect();
    let comms = comms?;
    let amounts: Option<Vec<u64>> = csv(amounts).iter().map(|x| x.parse().ok()).collect();
    let amounts = amounts?;
    let bls: Option<Vec<usize>> = csv(bls).iter().map(|x| x.parse().ok()).collect();
    let bls = bls?;
    let opens: Option<Vec<PedersenOpening>> = csv(opens).iter().map(|o| opening(o)).collect();
    let opens = opens?;
    let cr: Vec<&PedersenCommitment> = comms.iter().collect();
    let or: Vec<&PedersenOpening> = opens.iter().collect();
    fn fin<T: bytemuck::Pod, E: std::fmt::Debug>(r: Result<T, E>) -> Option<Result<Vec<u8>, String>> {
        Some(match r {
            Ok(d) => Ok(bytemuck::bytes_of(&d).to_vec()),
            Err(e) => Err(format!("{:?}", e).replace(' ', "_")),
        })
    }
    match *w {
        "64" => fin(BatchedRangeProofU64Data::new(cr, amounts, bls, or)),
        "128" => fin(BatchedRangeProofU128Data::new(cr, amounts, bls, or)),
        "256" => fin(BatchedRangeProofU256Data::new(cr, amounts, bls, or)),
        _ => None,
    }
}

pub fn op_rnew(a: &[&str]) -> String {
    match construct(a) {
        None => "bad-op".into(),
        Some(Ok(b)) => format!("ok:{}", hex(&b[..264])),
        Some(Err(e)) => format!("err #{}", e),
    }
}

pub fn op_rprove(a: &[&str]) -> String {
    match construct(a) {
        None => "bad-op".into(),
        Some(Ok(b)) => format!("emit:!A verify range{} {}", a[0], hex(&b)),
        Some(Err(e)) => format!("err #{}", e),
    }
}

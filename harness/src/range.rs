//! batched range-proof instructions: constructors of the real SDK (`rnew`, `rprove`)
use crate::sigma::{commitment, opening};
use crate::util::*;
use solana_zk_sdk::{
    encryption::pedersen::{PedersenCommitment, PedersenOpening},
    zk_elgamal_proof_program::proof_data::*,
};

fn csv(s: &str) -> Vec<&str> {
    if s == "-" { vec![] } else { s.split(',').collect() }
}

/// `Some(Ok(bytes))`, `Some(Err(kind))`, `None` = bad op
pub fn construct(a: &[&str]) -> Option<Result<Vec<u8>, String>> {
    let [w, comms, amounts, bls, opens, ..] = a else { return None };
    let comms: Option<Vec<PedersenCommitment>> = csv(comms).iter().map(|c| commitment(c)).collect();
    let comms = comms?;
    let amounts: Option<Vec<u64>> = csv(amounts).iter().map(|x| x.parse().ok()).collect();
    let amounts = amounts?;
    let bls: Option<Vec<usize>> = csv(bls).iter().map(|x| x.parse().ok()).collect();
    let bls = bls?;
    let opens: Option<Vec<PedersenOpening>> = csv(opens).iter().map(|o| opening(o)).collect();
    let opens = opens?;
    let cr: Vec<&PedersenCommitment> = comms.iter().collect();
    let or: Vec<&PedersenOpening> = opens.iter().collect();
    fn fin<T: bytemuck::Pod, E: std::fmt::Debug>(r: Result<T, E>) -> Option<Result<Vec<u8>, String>> {
        Some(match r {
            Ok(d) => Ok(bytemuck::bytes_of(&d).to_vec()),
            Err(e) => Err(format!("{:?}", e).replace(' ', "_")),
        })
    }
    match *w {
        "64" => fin(BatchedRangeProofU64Data::new(cr, amounts, bls, or)),
        "128" => fin(BatchedRangeProofU128Data::new(cr, amounts, bls, or)),
        "256" => fin(BatchedRangeProofU256Data::new(cr, amounts, bls, or)),
        _ => None,
    }
}

pub fn op_rnew(a: &[&str]) -> String {
    match construct(a) {
        None => "bad-op".into(),
        Some(Ok(b)) => format!("ok:{}", hex(&b[..264])),
        Some(Err(e)) => format!("err #{}", e),
    }
}

pub fn op_rprove(a: &[&str]) -> String {
    match construct(a) {
        None => "bad-op".into(),
        Some(Ok(b)) => format!("emit:!A verify range{} {}", a[0], hex(&b)),
        Some(Err(e)) => format!("err #{}", e),
    }
}

/// `rseq <w1,w2,…> <seed>`: one process, one thread: construct and verify proofs of the given widths in this
/// order, then verify all of them again in reverse order (anything cached between calls — generators, tables —
/// is exercised growing and shrinking); the proofs are emitted for both verifiers
pub fn op_rseq(a: &[&str]) -> String {
    use crate::sigma::{hp, hs, op_verify, rand_scalar};
    let [ws, seed] = a else { return "bad-op".into() };
    let Some(sd) = unhex(seed) else { return "bad-op".into() };
    let mut r = Rng::new(u64::from_le_bytes(arr::<8>(&sd[..8.min(sd.len())]).unwrap_or([0; 8])), "rseq");
    let mut built: Vec<(String, String)> = vec![];
    for (i, w) in csv(ws).iter().enumerate() {
        let bls: Vec<usize> = match *w { "64" => vec![32, 32], "128" => vec![64, 64], "256" => vec![64, 64, 64, 64], _ => return "bad-op".into() };
        let amounts: Vec<u64> = bls.iter().map(|n| if *n == 64 { r.u64() } else { r.u64() & ((1u64 << n) - 1) }).collect();
        let opens: Vec<curve25519_dalek::scalar::Scalar> = bls.iter().map(|_| rand_scalar(&mut r)).collect();
        let comms: Vec<String> = amounts.iter().zip(opens.iter()).map(|(x, o)| hp(&crate::gen_sigma::commit(&curve25519_dalek::scalar::Scalar::from(*x), o))).collect();
        let args = [w.to_string(), comms.join(","), amounts.iter().map(|x| x.to_string()).collect::<Vec<_>>().join(","),
            bls.iter().map(|x| x.to_string()).collect::<Vec<_>>().join(","), opens.iter().map(hs).collect::<Vec<_>>().join(",")];
        let av: Vec<&str> = args.iter().map(|x| x.as_str()).collect();
        let Some(Ok(b)) = construct(&av) else { return format!("variant-mismatch:seq-construct:{}:{}", i, w) };
        let name = format!("range{}", w);
        let h = hex(&b);
        if !op_verify(&[&name, &h]).starts_with('A') { return format!("variant-mismatch:seq-verify:{}:{}", i, w) }
        // a rejected proof in between (undecodable point / non-canonical scalar / wrong statement) leaves nothing
        // behind: the honest proof still verifies afterwards
        for (k, off) in [264usize, 264 + 64, 264 + 128, 264 + 224, b.len() - 32, 0].iter().enumerate() {
            let mut m = b.clone();
            for x in m[*off..*off + 32].iter_mut() { *x = 0xff; }
            if op_verify(&[&name, &hex(&m)]).starts_with('A') { return format!("variant-mismatch:seq-malformed-accepted:{}:{}:{}", i, w, k) }
            if op_verify(&[&name, &hex(&m)]).starts_with('A') { return format!("variant-mismatch:seq-malformed-accepted-on-repeat:{}:{}:{}", i, w, k) }
            if !op_verify(&[&name, &h]).starts_with('A') { return format!("variant-mismatch:seq-verify-after-rejection:{}:{}:{}", i, w, k) }
        }
        built.push((name.clone(), h.clone()));
        // the same commitments under another split of the bit lengths (amounts small enough for both), straight
        // after: the statement is (commitments, bit lengths), not the commitments alone
        if *w == "64" || *w == "128" {
            let (bls2, small): (Vec<usize>, Vec<u64>) = if *w == "64" { (vec![16, 48], vec![r.u64() & 0xffff, r.u64() & 0xffff]) } else { (vec![32, 32, 64], vec![]) };
            if *w == "64" {
                let opens2: Vec<curve25519_dalek::scalar::Scalar> = (0..2).map(|_| rand_scalar(&mut r)).collect();
                let comms2: Vec<String> = small.iter().zip(opens2.iter()).map(|(x, o)| hp(&crate::gen_sigma::commit(&curve25519_dalek::scalar::Scalar::from(*x), o))).collect();
                let mut pair = vec![];
                for bl in [vec![32usize, 32], bls2.clone(), vec![32, 32], vec![48, 16]] {
                    // [48,16] needs the second amount below 2^16 and the first below 2^48: both hold
                    let args = ["64".to_string(), comms2.join(","), small.iter().map(|x| x.to_string()).collect::<Vec<_>>().join(","),
                        bl.iter().map(|x| x.to_string()).collect::<Vec<_>>().join(","), opens2.iter().map(hs).collect::<Vec<_>>().join(",")];
                    let av: Vec<&str> = args.iter().map(|x| x.as_str()).collect();
                    let Some(Ok(b2)) = construct(&av) else { return format!("variant-mismatch:seq-construct-split:{}:{:?}", i, bl) };
                    let h2 = hex(&b2);
                    if !op_verify(&["range64", &h2]).starts_with('A') { return format!("variant-mismatch:seq-verify-split:{}:{:?}", i, bl) }
                    pair.push(h2);
                }
                for h2 in pair.iter().rev() {
                    if !op_verify(&["range64", h2]).starts_with('A') { return format!("variant-mismatch:seq-reverify-split:{}", i) }
                }
                for h2 in pair { built.push(("range64".to_string(), h2)); }
            }
        }
    }
    for (i, (name, h)) in built.iter().enumerate().rev() {
        if !op_verify(&[name, h]).starts_with('A') { return format!("variant-mismatch:seq-reverify:{}:{}", i, name) }
    }
    format!("emit:{}", built.iter().map(|(n, h)| format!("!A verify {} {}", n, h)).collect::<Vec<_>>().join("|"))
}

//! C18: storage of secret-bearing values after drop; Debug renderings
use crate::util::*;
use curve25519_dalek::scalar::Scalar;
use solana_seed_derivable::SeedDerivable;
use solana_zk_sdk::encryption::{
    auth_encryption::AeKey,
    elgamal::{ElGamalKeypair, ElGamalSecretKey},
    pedersen::PedersenOpening,
};
use std::mem::{size_of, ManuallyDrop};

thread_local! {
    /// when set, the value is dropped while a panic unwinds through its owner (`std::thread::panicking()` is true)
    static UNWIND: std::cell::Cell<bool> = const { std::cell::Cell::new(false) };
}

struct DropGuard<T>(*mut ManuallyDrop<T>);
impl<T> Drop for DropGuard<T> {
    fn drop(&mut self) { unsafe { ManuallyDrop::drop(&mut *self.0) } }
}

/// drop `v` in place and report whether `secret` (or any 4-byte window of it with at least two non-zero
/// bytes) survives at the same place in its storage
fn drop_and_inspect<T: Clone>(v: T, secret: &[u8]) -> String {
    // first: clones of the value placed at every address residue its alignment allows (a wipe must not depend on where
    // the object lives: behind a tag byte, inside an Option, in a packed record)
    {
        let n = size_of::<T>();
        let al = std::mem::align_of::<T>();
        let mut buf = vec![0u64; (n + 64) / 8 + 2];
        let base = buf.as_mut_ptr() as *mut u8;
        for off in 0..16usize {
            if off % al != 0 { continue; }
            unsafe {
                let slot = base.add(off) as *mut T;
                std::ptr::write(slot, v.clone());
                let before: Vec<u8> = (0..n).map(|i| std::ptr::read_volatile(base.add(off + i))).collect();
                std::ptr::drop_in_place(slot);
                let after: Vec<u8> = (0..n).map(|i| std::ptr::read_volatile(base.add(off + i))).collect();
                if !secret.iter().all(|b| *b == 0) {
                    for o in (0..=n.saturating_sub(secret.len())).filter(|o| &before[*o..*o + secret.len()] == secret) {
                        for j in 0..=secret.len().saturating_sub(4) {
                            let chunk = &secret[j..j + 4];
                            if chunk.iter().filter(|b| **b != 0).count() >= 2 && &after[o + j..o + j + 4] == chunk { return format!("leak-at-offset-{}", off) }
                        }
                    }
                }
                for i in 0..n { std::ptr::write_volatile(base.add(off + i), 0); }
            }
        }
    }
    let mut m = ManuallyDrop::new(v);
    let p = &*m as *const T as *const u8;
    let n = size_of::<T>();
    let before: Vec<u8> = (0..n).map(|i| unsafe { std::ptr::read_volatile(p.add(i)) }).collect();
    if UNWIND.with(|u| u.get()) {
        let addr = &mut m as *mut ManuallyDrop<T> as usize;
        let _ = std::panic::catch_unwind(std::panic::AssertUnwindSafe(|| {
            let _g = DropGuard::<T>(addr as *mut ManuallyDrop<T>);
            panic!("drop while unwinding");
        }));
    } else {
        unsafe { ManuallyDrop::drop(&mut m) };
    }
    let after: Vec<u8> = (0..n).map(|i| unsafe { std::ptr::read_volatile(p.add(i)) }).collect();
    if secret.iter().all(|b| *b == 0) {
        return "wiped".into(); // an all-zero secret is indistinguishable from wiped storage
    }
    // every place of the storage that held the secret before the drop …
    let offs: Vec<usize> = (0..=n.saturating_sub(secret.len())).filter(|o| &before[*o..*o + secret.len()] == secret).collect();
    if offs.is_empty() {
        return "not-found-before-drop".into();
    }
    // … must no longer hold any 4-byte window of it at the same position (a partial wipe leaves a tail or a head)
    for off in offs {
        for j in 0..=secret.len().saturating_sub(4) {
            let chunk = &secret[j..j + 4];
            if chunk.iter().filter(|b| **b != 0).count() >= 2 && &after[off + j..off + j + 4] == chunk {
                return "leak".into();
            }
        }
    }
    "wiped".into()
}

fn sc(b: &[u8]) -> Option<Scalar> {
    Some(Scalar::from_bytes_mod_order(arr::<32>(b)?))
}

pub fn op_drop(a: &[&str]) -> String {
    let [ty, how, h] = a else { return "bad-op".into() };
    // `<how>-unwind`: the same value, dropped by a panic unwinding through its owner
    if let Some(base) = how.strip_suffix("-unwind") {
        UNWIND.with(|u| u.set(true));
        let r = op_drop(&[ty, base, h]);
        UNWIND.with(|u| u.set(false));
        return r;
    }
    let Some(b) = unhex(h) else { return "bad-op".into() };
    match (*ty, *how) {
        ("secret", "decoded") => match ElGamalSecretKey::try_from(b.as_slice()) { Ok(k) => { let s = k.as_bytes().to_vec(); drop_and_inspect(k, &s) } Err(_) => "bad-op".into() },
        ("secret", "from") => { let Some(x) = sc(&b) else { return "bad-op".into() }; let k = ElGamalSecretKey::from(x); let s = k.as_bytes().to_vec(); drop_and_inspect(k, &s) }
        ("secret", "cloned") => match ElGamalSecretKey::try_from(b.as_slice()) {
            Ok(k) => { let c = k.clone(); let s = k.as_bytes().to_vec(); let r1 = drop_and_inspect(c, &s); let r2 = drop_and_inspect(k, &s); if r1 == r2 { r1 } else { format!("{}/{}", r1, r2) } }
            Err(_) => "bad-op".into() },
        ("secret", "derived") => match ElGamalSecretKey::from_seed(&b) { Ok(k) => { let s = k.as_bytes().to_vec(); drop_and_inspect(k, &s) } Err(_) => "bad-op".into() },
        ("secret", "keypair-clone") => match ElGamalSecretKey::try_from(b.as_slice()) {
            Ok(k) => { let kp = ElGamalKeypair::new(k); let c = kp.secret().clone(); let s = c.as_bytes().to_vec(); let r1 = drop_and_inspect(c, &s); let r2 = drop_and_inspect(kp, &s); if r1 == r2 { r1 } else { format!("{}/{}", r1, r2) } }
            Err(_) => "bad-op".into() },
        ("keypair", "decoded") => match ElGamalKeypair::try_from(b.as_slice()) { Ok(k) => { let s = k.secret().as_bytes().to_vec(); drop_and_inspect(k, &s) } Err(_) => "bad-op".into() },
        ("keypair", "new") => match ElGamalSecretKey::try_from(b.as_slice()) { Ok(k) => { let s = k.as_bytes().to_vec(); drop_and_inspect(ElGamalKeypair::new(k), &s) } Err(_) => "bad-op".into() },
        ("keypair", "cloned") => match ElGamalSecretKey::try_from(b.as_slice()) {
            Ok(k) => { let s = k.as_bytes().to_vec(); let kp = ElGamalKeypair::new(k); let c = kp.clone(); let r1 = drop_and_inspect(c, &s); let r2 = drop_and_inspect(kp, &s); if r1 == r2 { r1 } else { format!("{}/{}", r1, r2) } }
            Err(_) => "bad-op".into() },
        ("keypair", "derived") => match ElGamalKeypair::from_seed(&b) { Ok(k) => { let s = k.secret().as_bytes().to_vec(); drop_and_inspect(k, &s) } Err(_) => "bad-op".into() },
        ("opening", "decoded") => match PedersenOpening::from_bytes(&b) { Some(o) => { let s = o.to_bytes().to_vec(); drop_and_inspect(o, &s) } None => "bad-op".into() },
        ("opening", "new") => { let Some(x) = sc(&b) else { return "bad-op".into() }; let o = PedersenOpening::new(x); let s = o.to_bytes().to_vec(); drop_and_inspect(o, &s) }
        ("opening", "cloned") => { let Some(x) = sc(&b) else { return "bad-op".into() }; let o = PedersenOpening::new(x); let c = o.clone(); let s = o.to_bytes().to_vec(); let r1 = drop_and_inspect(c, &s); let r2 = drop_and_inspect(o, &s); if r1 == r2 { r1 } else { format!("{}/{}", r1, r2) } }
        ("opening", "add") => { let Some(x) = sc(&b) else { return "bad-op".into() }; let o = PedersenOpening::new(x); let sum = &o + &o; let s = sum.to_bytes().to_vec(); drop_and_inspect(sum, &s) }
        ("opening", "sub") => { let Some(x) = sc(&b) else { return "bad-op".into() }; let o = PedersenOpening::new(x); let d = &o - &PedersenOpening::new(Scalar::ONE); let s = d.to_bytes().to_vec(); drop_and_inspect(d, &s) }
        ("opening", "mul") => { let Some(x) = sc(&b) else { return "bad-op".into() }; let o = PedersenOpening::new(x); let p = &o * &Scalar::from(3u64); let s = p.to_bytes().to_vec(); drop_and_inspect(p, &s) }
        ("aekey", "decoded") => match AeKey::try_from(b.as_slice()) { Ok(k) => drop_and_inspect(k, &b), Err(_) => "bad-op".into() },
        ("aekey", "from") => { let Some(x) = arr::<16>(&b) else { return "bad-op".into() }; drop_and_inspect(AeKey::from(x), &b) }
        ("aekey", "cloned") => match AeKey::try_from(b.as_slice()) { Ok(k) => { let c = k.clone(); let r1 = drop_and_inspect(c, &b); let r2 = drop_and_inspect(k, &b); if r1 == r2 { r1 } else { format!("{}/{}", r1, r2) } } Err(_) => "bad-op".into() },
        ("aekey", "derived") => match AeKey::from_seed(&b) { Ok(k) => { let s = <[u8; 16]>::from(k.clone()).to_vec(); drop_and_inspect(k, &s) } Err(_) => "bad-op".into() },
        _ => "bad-op".into(),
    }
}

/// byte-wise textual renderings of a secret that must not occur in `{:?}` output
fn renderings(secret: &[u8]) -> Vec<String> {
    use base64::{prelude::BASE64_STANDARD, Engine};
    let hexl: String = secret.iter().map(|b| format!("{:02x}", b)).collect();
    let mut rev = secret.to_vec();
    rev.reverse();
    let hexr: String = rev.iter().map(|b| format!("{:02x}", b)).collect();
    let dec = secret.iter().map(|b| b.to_string()).collect::<Vec<_>>().join(", ");
    vec![hexl.clone(), hexl.to_uppercase(), hexr.clone(), hexr.to_uppercase(), dec, BASE64_STANDARD.encode(secret)]
}

/// does `text` contain the secret in a recoverable form? literal renderings (hex, decimal list, base64), the byte
/// sequence among the decimal numbers of the text however they are separated (pretty-printed arrays), and any
/// base64 or hex run of the text that decodes to bytes containing an 8-byte window of the secret (the secret may sit
/// at any offset inside a longer encoded buffer)
pub(crate) fn leaks(text: &str, secret: &[u8]) -> bool {
    use base64::Engine;
    if secret.iter().all(|b| *b == 0) { return false; }
    for r in renderings(secret) {
        if r.len() >= 8 && text.contains(&r) { return true; }
    }
    let window_in = |hay: &[u8]| -> bool {
        secret.len() >= 8 && (0..=secret.len() - 8).any(|j| {
            let w = &secret[j..j + 8];
            w.iter().filter(|b| **b != 0).count() >= 4 && hay.windows(8).any(|x| x == w)
        })
    };
    // decimal numbers in order
    let nums: Vec<u8> = text.split(|c: char| !c.is_ascii_digit()).filter(|t| !t.is_empty() && t.len() <= 3)
        .filter_map(|t| t.parse::<u16>().ok()).filter(|n| *n <= 255).map(|n| n as u8).collect();
    if window_in(&nums) { return true; }
    // base64 runs, every alignment
    let lenient = base64::engine::GeneralPurpose::new(&base64::alphabet::STANDARD,
        base64::engine::GeneralPurposeConfig::new().with_decode_allow_trailing_bits(true)
            .with_decode_padding_mode(base64::engine::DecodePaddingMode::Indifferent));
    let is_b64 = |c: char| c.is_ascii_alphanumeric() || c == '+' || c == '/' || c == '-' || c == '_';
    for run in text.split(|c: char| !is_b64(c)).filter(|t| t.len() >= 12) {
        let run = run.replace('-', "+").replace('_', "/");
        for skip in 0..4 {
            if run.len() <= skip { break; }
            let t = &run[skip..];
            let t = &t[..t.len() - t.len() % 4];
            if let Ok(bytes) = lenient.decode(t) { if window_in(&bytes) { return true; } }
        }
    }
    // hex runs, both nibble alignments
    for run in text.split(|c: char| !c.is_ascii_hexdigit()).filter(|t| t.len() >= 16) {
        for skip in 0..2 {
            let t = &run[skip..];
            let bytes: Vec<u8> = (0..t.len() / 2).filter_map(|i| u8::from_str_radix(&t[2 * i..2 * i + 2], 16).ok()).collect();
            if window_in(&bytes) { return true; }
            let mut rev = bytes.clone(); rev.reverse();
            if window_in(&rev) { return true; }
        }
    }
    false
}

pub fn op_debug(a: &[&str]) -> String {
    let [ty, h] = a else { return "bad-op".into() };
    let Some(b) = unhex(h) else { return "bad-op".into() };
    // `text` is what `{:?}` prints (compared with the model's template); `all` collects every other Debug rendering
    // reachable from safe code: alternate, width / precision flags, nested in Option / Vec / tuple / Box
    macro_rules! render { ($v:expr) => {{
        let v = $v;
        let text = format!("{:?}", v);
        let nested = (Some(&v), vec![&v], Box::new(&v));
        let all = format!("{:?}|{:#?}|{:10?}|{:<40?}|{:.3?}|{:#x?}|{:#X?}|{:?}|{:#?}", v, v, v, v, v, v, v, nested, nested);
        (text, all)
    }} }
    let (text, all, secret): (String, String, Vec<u8>) = match *ty {
        "secret" => match ElGamalSecretKey::try_from(b.as_slice()) { Ok(k) => { let (t, a) = render!(k); (t, a, b.clone()) } Err(_) => return "bad-op".into() },
        "opening" => match PedersenOpening::from_bytes(&b) { Some(o) => { let (t, a) = render!(o); (t, a, b.clone()) } None => return "bad-op".into() },
        "aekey" => match AeKey::try_from(b.as_slice()) { Ok(k) => { let (t, a) = render!(k); (t, a, b.clone()) } Err(_) => return "bad-op".into() },
        "keypair" => match ElGamalSecretKey::try_from(b.as_slice()) { Ok(k) => { let (t, a) = render!(ElGamalKeypair::new(k)); (t, a, b.clone()) } Err(_) => return "bad-op".into() },
        _ => return "bad-op".into(),
    };
    if leaks(&all, &secret) {
        return "leak".into();
    }
    if *ty == "keypair" {
        // the public key is printed (field elements of the point), the secret is redacted
        if text.contains("[REDACTED]") { "clean".into() } else { "no-redaction".into() }
    } else {
        format!("text:{}", hex(text.as_bytes()))
    }
}

//! sigma-protocol instructions: `verify`, `new`, `prove` against the real SDK
use crate::util::*;
use curve25519_dalek::{ristretto::RistrettoPoint, scalar::Scalar};
use solana_zk_sdk::{
    encryption::{
        elgamal::{ElGamalCiphertext, ElGamalKeypair, ElGamalPubkey, ElGamalSecretKey},
        grouped_elgamal::GroupedElGamalCiphertext,
        pedersen::{PedersenCommitment, PedersenOpening},
    },
    zk_elgamal_proof_program::proof_data::*,
};

pub fn scalar(h: &str) -> Option<Scalar> {
    let b = unhex(h)?;
    Some(Scalar::from_bytes_mod_order(arr::<32>(&b)?))
}
pub fn pubkey(h: &str) -> Option<ElGamalPubkey> {
    ElGamalPubkey::try_from(unhex(h)?.as_slice()).ok()
}
pub fn commitment(h: &str) -> Option<PedersenCommitment> {
    PedersenCommitment::from_bytes(&unhex(h)?)
}
pub fn keypair(s: &str, p: &str) -> Option<ElGamalKeypair> {
    Some(ElGamalKeypair::new_for_tests(pubkey(p)?, ElGamalSecretKey::from(scalar(s)?)))
}
pub fn ciphertext(c: &str, d: &str) -> Option<ElGamalCiphertext> {
    let mut b = unhex(c)?;
    b.extend(unhex(d)?);
    ElGamalCiphertext::from_bytes(&b)
}
pub fn grouped<const N: usize>(parts: &[&str]) -> Option<GroupedElGamalCiphertext<N>> {
    let mut b = vec![];
    for p in parts {
        b.extend(unhex(p)?);
    }
    GroupedElGamalCiphertext::<N>::from_bytes(&b)
}
pub fn opening(h: &str) -> Option<PedersenOpening> {
    Some(PedersenOpening::new(scalar(h)?))
}

/// the Fiat-Shamir challenges recorded by the `verif-hooks` instrumentation since the last call
pub fn take_trace() -> String {
    let tr = solana_zk_sdk::transcript::verif_hooks::take();
    if tr.is_empty() {
        return String::new();
    }
    let items: Vec<String> = tr.iter().map(|(l, v)| format!("{}={}", String::from_utf8_lossy(l), hex(v))).collect();
    format!(" ~{}", items.join(","))
}

fn verify_as<T: bytemuck::Pod + ZkProofData<U>, U: bytemuck::Pod>(b: &[u8]) -> String {
    // the proof program reads the proof data at `instruction_data[1..]`, an odd address: decoding must not depend on
    // where the bytes sit (the proof-data types have alignment 1)
    {
        let mut shifted = vec![0u8; b.len() + 9];
        for off in [1usize, 4] {
            shifted[off..off + b.len()].copy_from_slice(b);
            let at_off = bytemuck::try_from_bytes::<T>(&shifted[off..off + b.len()]).is_ok();
            // compare with a read that cannot depend on alignment
            let unaligned_ok = b.len() == std::mem::size_of::<T>();
            if at_off != unaligned_ok { return format!("variant-mismatch:alignment:{}", std::mem::align_of::<T>()) }
        }
    }
    match bytemuck::try_from_bytes::<T>(b) {
        Err(_) => "R".into(),
        Ok(d) => {
            // the context accessor must expose exactly the leading statement bytes of the instruction data
            if bytemuck::bytes_of(d.context_data()) != &b[..std::mem::size_of::<U>()] { return "variant-mismatch:context_data".into() }
            let _ = take_trace();
            match d.verify_proof() {
                Ok(()) => format!("A{}", take_trace()),
                Err(e) => format!("R #{}{}", format!("{:?}", e).replace(' ', "_"), take_trace()),
            }
        }
    }
}

pub fn op_verify(a: &[&str]) -> String {
    let [instr, h] = a else { return "bad-op".into() };
    let Some(b) = unhex(h) else { return "bad-op".into() };
    match *instr {
        "zero" => verify_as::<ZeroCiphertextProofData, ZeroCiphertextProofContext>(&b),
        "pubkey" => verify_as::<PubkeyValidityProofData, PubkeyValidityProofContext>(&b),
        "ctct" => verify_as::<CiphertextCiphertextEqualityProofData, CiphertextCiphertextEqualityProofContext>(&b),
        "ctcmt" => verify_as::<CiphertextCommitmentEqualityProofData, CiphertextCommitmentEqualityProofContext>(&b),
        "val2" => verify_as::<GroupedCiphertext2HandlesValidityProofData, GroupedCiphertext2HandlesValidityProofContext>(&b),
        "val3" => verify_as::<GroupedCiphertext3HandlesValidityProofData, GroupedCiphertext3HandlesValidityProofContext>(&b),
        "bval2" => verify_as::<BatchedGroupedCiphertext2HandlesValidityProofData, BatchedGroupedCiphertext2HandlesValidityProofContext>(&b),
        "bval3" => verify_as::<BatchedGroupedCiphertext3HandlesValidityProofData, BatchedGroupedCiphertext3HandlesValidityProofContext>(&b),
        "cap" => verify_as::<PercentageWithCapProofData, PercentageWithCapProofContext>(&b),
        "range64" => verify_as::<BatchedRangeProofU64Data, BatchedRangeProofContext>(&b),
        "range128" => verify_as::<BatchedRangeProofU128Data, BatchedRangeProofContext>(&b),
        "range256" => verify_as::<BatchedRangeProofU256Data, BatchedRangeProofContext>(&b),
        _ => "bad-op".into(),
    }
}

/// run the real constructor; `Some(Ok(bytes of the whole proof data))`, `Some(Err(kind))`, `None` = bad op
pub fn construct(instr: &str, a: &[&str]) -> Option<Result<Vec<u8>, String>> {
    fn fin<T: bytemuck::Pod, E: std::fmt::Debug>(r: Result<T, E>) -> Option<Result<Vec<u8>, String>> {
        Some(match r {
            Ok(d) => Ok(bytemuck::bytes_of(&d).to_vec()),
            Err(e) => Err(format!("{:?}", e)),
        })
    }
    // a refused construction of the same instruction just before (amount off by one): whatever it returns is
    // ignored here (C20 looks at refusals); it must not influence the construction that follows on this thread
    match (instr, a) {
        ("zero", [s, p, c, d, ..]) => { if let (Some(kp), Some(ct)) = (keypair(s, p), ciphertext(c, d)) { let _ = ZeroCiphertextProofData::new(&kp, &ct.add_amount(1u64)); } }
        ("ctct", [s, p1, p2, c1, d1, c2, d2, r, amt, ..]) => {
            if let (Some(kp), Some(p2), Some(ct1), Some(ct2), Some(r), Ok(amt)) = (keypair(s, p1), pubkey(p2), ciphertext(c1, d1), ciphertext(c2, d2), opening(r), amt.parse::<u64>()) {
                let _ = CiphertextCiphertextEqualityProofData::new(&kp, &p2, &ct1, &ct2, &r, amt.wrapping_add(1));
            }
        }
        ("ctcmt", [s, p, c, d, cm, r, amt, ..]) => {
            if let (Some(kp), Some(ct), Some(cm), Some(r), Ok(amt)) = (keypair(s, p), ciphertext(c, d), commitment(cm), opening(r), amt.parse::<u64>()) {
                let _ = CiphertextCommitmentEqualityProofData::new(&kp, &ct, &cm, &r, amt.wrapping_add(1));
            }
        }
        ("val2", [p1, p2, c, d1, d2, amt, r, ..]) => {
            if let (Some(p1), Some(p2), Some(g), Ok(amt), Some(r)) = (pubkey(p1), pubkey(p2), grouped::<2>(&[c, d1, d2]), amt.parse::<u64>(), opening(r)) {
                let _ = GroupedCiphertext2HandlesValidityProofData::new(&p1, &p2, &g, amt.wrapping_add(1), &r);
            }
        }
        ("val3", [p1, p2, p3, c, d1, d2, d3, amt, r, ..]) => {
            if let (Some(p1), Some(p2), Some(p3), Some(g), Ok(amt), Some(r)) = (pubkey(p1), pubkey(p2), pubkey(p3), grouped::<3>(&[c, d1, d2, d3]), amt.parse::<u64>(), opening(r)) {
                let _ = GroupedCiphertext3HandlesValidityProofData::new(&p1, &p2, &p3, &g, amt.wrapping_add(1), &r);
            }
        }
        ("cap", [cm, cd, cc, mx, pct, delta, rp, rd, rc, ..]) => {
            if let (Some(cm), Some(cd), Some(cc), Ok(mx), Ok(pct), Ok(delta), Some(rp), Some(rd), Some(rc)) = (commitment(cm), commitment(cd), commitment(cc), mx.parse::<u64>(), pct.parse::<u64>(), delta.parse::<u64>(), opening(rp), opening(rd), opening(rc)) {
                let _ = PercentageWithCapProofData::new(&cm, &rp, pct, &cd, &rd, delta.wrapping_add(1), &cc, &rc, mx);
            }
        }
        _ => {}
    }
    match (instr, a) {
        ("zero", [s, p, c, d, ..]) => {
            let kp = keypair(s, p)?;
            let ct = ciphertext(c, d)?;
            fin(ZeroCiphertextProofData::new(&kp, &ct))
        }
        ("pubkey", [s, p, ..]) => {
            let kp = keypair(s, p)?;
            fin(PubkeyValidityProofData::new(&kp))
        }
        ("ctct", [s, p1, p2, c1, d1, c2, d2, r, amt, ..]) => {
            let kp = keypair(s, p1)?;
            let p2 = pubkey(p2)?;
            let ct1 = ciphertext(c1, d1)?;
            let ct2 = ciphertext(c2, d2)?;
            let r = opening(r)?;
            let amt: u64 = amt.parse().ok()?;
            fin(CiphertextCiphertextEqualityProofData::new(&kp, &p2, &ct1, &ct2, &r, amt))
        }
        ("ctcmt", [s, p, c, d, cm, r, amt, ..]) => {
            let kp = keypair(s, p)?;
            let ct = ciphertext(c, d)?;
            let cm = commitment(cm)?;
            let r = opening(r)?;
            let amt: u64 = amt.parse().ok()?;
            fin(CiphertextCommitmentEqualityProofData::new(&kp, &ct, &cm, &r, amt))
        }
        ("val2", [p1, p2, c, d1, d2, amt, r, ..]) => {
            let (p1, p2) = (pubkey(p1)?, pubkey(p2)?);
            let g = grouped::<2>(&[c, d1, d2])?;
            let amt: u64 = amt.parse().ok()?;
            let r = opening(r)?;
            fin(GroupedCiphertext2HandlesValidityProofData::new(&p1, &p2, &g, amt, &r))
        }
        ("val3", [p1, p2, p3, c, d1, d2, d3, amt, r, ..]) => {
            let (p1, p2, p3) = (pubkey(p1)?, pubkey(p2)?, pubkey(p3)?);
            let g = grouped::<3>(&[c, d1, d2, d3])?;
            let amt: u64 = amt.parse().ok()?;
            let r = opening(r)?;
            fin(GroupedCiphertext3HandlesValidityProofData::new(&p1, &p2, &p3, &g, amt, &r))
        }
        ("bval2", [p1, p2, cl, d1l, d2l, ch, d1h, d2h, al, ah, rl, rh, ..]) => {
            let (p1, p2) = (pubkey(p1)?, pubkey(p2)?);
            let lo = grouped::<2>(&[cl, d1l, d2l])?;
            let hi = grouped::<2>(&[ch, d1h, d2h])?;
            let (al, ah): (u64, u64) = (al.parse().ok()?, ah.parse().ok()?);
            let (rl, rh) = (opening(rl)?, opening(rh)?);
            fin(BatchedGroupedCiphertext2HandlesValidityProofData::new(&p1, &p2, &lo, &hi, al, ah, &rl, &rh))
        }
        ("bval3", [p1, p2, p3, cl, d1l, d2l, d3l, ch, d1h, d2h, d3h, al, ah, rl, rh, ..]) => {
            let (p1, p2, p3) = (pubkey(p1)?, pubkey(p2)?, pubkey(p3)?);
            let lo = grouped::<3>(&[cl, d1l, d2l, d3l])?;
            let hi = grouped::<3>(&[ch, d1h, d2h, d3h])?;
            let (al, ah): (u64, u64) = (al.parse().ok()?, ah.parse().ok()?);
            let (rl, rh) = (opening(rl)?, opening(rh)?);
            fin(BatchedGroupedCiphertext3HandlesValidityProofData::new(&p1, &p2, &p3, &lo, &hi, al, ah, &rl, &rh))
        }
        ("cap", [cm, cd, cc, mx, pct, delta, rp, rd, rc, ..]) => {
            let (cm, cd, cc) = (commitment(cm)?, commitment(cd)?, commitment(cc)?);
            let (mx, pct, delta): (u64, u64, u64) = (mx.parse().ok()?, pct.parse().ok()?, delta.parse().ok()?);
            let (rp, rd, rc) = (opening(rp)?, opening(rd)?, opening(rc)?);
            fin(PercentageWithCapProofData::new(&cm, &rp, pct, &cd, &rd, delta, &cc, &rc, mx))
        }
        _ => None,
    }
}

pub fn ctx_len(instr: &str) -> usize {
    match instr {
        "zero" => 96,
        "pubkey" => 32,
        "ctct" => 192,
        "ctcmt" => 128,
        "val2" => 160,
        "val3" => 224,
        "bval2" => 256,
        "bval3" => 352,
        "cap" => 104,
        "range64" | "range128" | "range256" => 264,
        _ => 0,
    }
}

pub fn op_new(a: &[&str]) -> String {
    let Some((instr, rest)) = a.split_first() else { return "bad-op".into() };
    match construct(instr, rest) {
        None => "bad-op".into(),
        Some(Ok(b)) => format!("ok:{}", hex(&b[..ctx_len(instr)])),
        Some(Err(e)) => refusal(&e),
    }
}

/// a sigma-proof constructor refuses an unsatisfied witness with the inconsistent-input error and no other (C20)
fn refusal(e: &str) -> String {
    if e == "InconsistentInput" { format!("err #{}", e) } else { format!("wrong-error-kind:{}", e.replace(' ', "_")) }
}

pub fn op_prove(a: &[&str]) -> String {
    let Some((instr, rest)) = a.split_first() else { return "bad-op".into() };
    match construct(instr, rest) {
        None => "bad-op".into(),
        Some(Ok(b)) => format!("emit:!A verify {} {}", instr, hex(&b)),
        Some(Err(e)) => refusal(&e),
    }
}

/// the model-only adversarial prover: the implementation side has nothing to say
pub fn op_mprove(_a: &[&str]) -> String {
    "emit:".into()
}

// ---------------------------------------------------------------- helpers for the generators
pub fn hs(s: &Scalar) -> String {
    hex(s.as_bytes())
}
pub fn hp(p: &RistrettoPoint) -> String {
    hex(p.compress().as_bytes())
}
pub fn rand_scalar(r: &mut Rng) -> Scalar {
    let b = r.bytes(64);
    Scalar::from_bytes_mod_order_wide(&arr::<64>(&b).unwrap())
}
pub fn rand_nonzero(r: &mut Rng) -> Scalar {
    loop {
        let s = rand_scalar(r);
        if s != Scalar::ZERO {
            return s;
        }
    }
}

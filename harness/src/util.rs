//! hex, seeded RNG, panic capture
use rand::{RngCore, SeedableRng};
use rand_chacha::ChaCha20Rng;
use std::panic::{catch_unwind, AssertUnwindSafe};

pub fn hex(b: &[u8]) -> String {
    if b.is_empty() {
        return "-".to_string();
    }
    let mut s = String::with_capacity(b.len() * 2);
    for x in b {
        s.push_str(&format!("{:02x}", x));
    }
    s
}

pub fn unhex(s: &str) -> Option<Vec<u8>> {
    if s == "-" {
        return Some(vec![]);
    }
    if s.len() % 2 != 0 {
        return None;
    }
    let mut out = Vec::with_capacity(s.len() / 2);
    let b = s.as_bytes();
    for i in (0..b.len()).step_by(2) {
        let h = (b[i] as char).to_digit(16)?;
        let l = (b[i + 1] as char).to_digit(16)?;
        out.push((h * 16 + l) as u8);
    }
    Some(out)
}

pub fn arr<const N: usize>(v: &[u8]) -> Option<[u8; N]> {
    v.try_into().ok()
}

/// run `f`, mapping a panic to `None`
pub fn guard<T>(f: impl FnOnce() -> T) -> Option<T> {
    catch_unwind(AssertUnwindSafe(f)).ok()
}

pub struct Rng(pub ChaCha20Rng);
impl Rng {
    pub fn new(seed: u64, stream: &str) -> Self {
        let mut s = [0u8; 32];
        s[..8].copy_from_slice(&seed.to_le_bytes());
        for (i, b) in stream.bytes().enumerate().take(24) {
            s[8 + i] = b;
        }
        Rng(ChaCha20Rng::from_seed(s))
    }
    pub fn u64(&mut self) -> u64 {
        self.0.next_u64()
    }
    pub fn below(&mut self, n: u64) -> u64 {
        if n == 0 {
            0
        } else {
            self.0.next_u64() % n
        }
    }
    pub fn bytes(&mut self, n: usize) -> Vec<u8> {
        let mut v = vec![0u8; n];
        self.0.fill_bytes(&mut v);
        v
    }
    pub fn pick<'a, T>(&mut self, xs: &'a [T]) -> &'a T {
        &xs[self.below(xs.len() as u64) as usize]
    }
}

//! C15 / C16 / C17: instruction encoding, context-state layout, compiled constants
use crate::util::*;
use bytemuck::Pod;
use solana_address::Address;
use solana_zk_sdk::zk_elgamal_proof_program::{
    instruction::{close_context_state, ContextStateInfo, ProofInstruction},
    proof_data::*,
    state::{ProofContextState, ProofContextStateMeta},
};

/// pinned version-1 order; the harness selects variants BY NAME so that a
/// renumbering in the source shows up as a different byte on the wire
pub fn instruction_by_index(i: usize) -> Option<ProofInstruction> {
    use ProofInstruction::*;
    Some(match i {
        0 => CloseContextState,
        1 => VerifyZeroCiphertext,
        2 => VerifyCiphertextCiphertextEquality,
        3 => VerifyCiphertextCommitmentEquality,
        4 => VerifyPubkeyValidity,
        5 => VerifyPercentageWithCap,
        6 => VerifyBatchedRangeProofU64,
        7 => VerifyBatchedRangeProofU128,
        8 => VerifyBatchedRangeProofU256,
        9 => VerifyGroupedCiphertext2HandlesValidity,
        10 => VerifyBatchedGroupedCiphertext2HandlesValidity,
        11 => VerifyGroupedCiphertext3HandlesValidity,
        12 => VerifyBatchedGroupedCiphertext3HandlesValidity,
        _ => return None,
    })
}

pub fn proof_type_by_index(i: usize) -> Option<ProofType> {
    use ProofType::*;
    Some(match i {
        0 => Uninitialized,
        1 => ZeroCiphertext,
        2 => CiphertextCiphertextEquality,
        3 => CiphertextCommitmentEquality,
        4 => PubkeyValidity,
        5 => PercentageWithCap,
        6 => BatchedRangeProofU64,
        7 => BatchedRangeProofU128,
        8 => BatchedRangeProofU256,
        9 => GroupedCiphertext2HandlesValidity,
        10 => BatchedGroupedCiphertext2HandlesValidity,
        11 => GroupedCiphertext3HandlesValidity,
        12 => BatchedGroupedCiphertext3HandlesValidity,
        _ => return None,
    })
}

/// dispatch on the proof type index (1..=12) to the (data, context) types
#[macro_export]
macro_rules! with_proof_types {
    ($idx:expr, $f:ident, $($args:expr),*) => {
        match $idx {
            1 => $f::<ZeroCiphertextProofData, ZeroCiphertextProofContext>($($args),*),
            2 => $f::<CiphertextCiphertextEqualityProofData, CiphertextCiphertextEqualityProofContext>($($args),*),
            3 => $f::<CiphertextCommitmentEqualityProofData, CiphertextCommitmentEqualityProofContext>($($args),*),
            4 => $f::<PubkeyValidityProofData, PubkeyValidityProofContext>($($args),*),
            5 => $f::<PercentageWithCapProofData, PercentageWithCapProofContext>($($args),*),
            6 => $f::<BatchedRangeProofU64Data, BatchedRangeProofContext>($($args),*),
            7 => $f::<BatchedRangeProofU128Data, BatchedRangeProofContext>($($args),*),
            8 => $f::<BatchedRangeProofU256Data, BatchedRangeProofContext>($($args),*),
            9 => $f::<GroupedCiphertext2HandlesValidityProofData, GroupedCiphertext2HandlesValidityProofContext>($($args),*),
            10 => $f::<BatchedGroupedCiphertext2HandlesValidityProofData, BatchedGroupedCiphertext2HandlesValidityProofContext>($($args),*),
            11 => $f::<GroupedCiphertext3HandlesValidityProofData, GroupedCiphertext3HandlesValidityProofContext>($($args),*),
            12 => $f::<BatchedGroupedCiphertext3HandlesValidityProofData, BatchedGroupedCiphertext3HandlesValidityProofContext>($($args),*),
            _ => "bad-op".to_string(),
        }
    };
}

fn fmt_ix(ix: &solana_instruction::Instruction) -> String {
    let accts: Vec<String> = ix
        .accounts
        .iter()
        .map(|a| {
            format!(
                "{}:{}:{}",
                hex(a.pubkey.as_ref()),
                a.is_signer as u8,
                a.is_writable as u8
            )
        })
        .collect();
    format!(
        "prog={} accts={} data={}",
        hex(ix.program_id.as_ref()),
        if accts.is_empty() { "-".to_string() } else { accts.join(",") },
        hex(&ix.data)
    )
}

fn addr(s: &str) -> Option<Address> {
    let b = unhex(s)?;
    let a: [u8; 32] = arr(&b)?;
    Some(Address::from(a))
}

fn ix_verify<T: Pod + ZkProofData<U>, U: Pod>(
    instr: ProofInstruction,
    data: &[u8],
    ctx: Option<(Address, Address)>,
) -> String {
    let Ok(pd) = bytemuck::try_from_bytes::<T>(data) else {
        return "bad-op".to_string();
    };
    let info = ctx.as_ref().map(|(a, b)| ContextStateInfo {
        context_state_account: a,
        context_state_authority: b,
    });
    fmt_ix(&instr.encode_verify_proof(info, pd))
}

fn ix_data<T: Pod + ZkProofData<U>, U: Pod>(input: &[u8]) -> String {
    match ProofInstruction::proof_data::<T, U>(input) {
        Some(t) => format!("ok:{}", hex(bytemuck::bytes_of(t))),
        None => "none".to_string(),
    }
}

fn state_encode<T: Pod + ZkProofData<U>, U: Pod>(auth: &Address, pt: ProofType, ctx: &[u8]) -> String {
    let Ok(c) = bytemuck::try_from_bytes::<U>(ctx) else {
        return "bad-op".to_string();
    };
    hex(&ProofContextState::<U>::encode(auth, pt, c))
}

fn state_decode<T: Pod + ZkProofData<U>, U: Pod>(input: &[u8]) -> String {
    match ProofContextState::<U>::try_from_bytes(input) {
        Ok(s) => format!(
            "ok:{}:{}:{}",
            hex(s.context_state_authority.as_ref()),
            hex(bytemuck::bytes_of(&s.proof_type)),
            hex(bytemuck::bytes_of(&s.proof_context))
        ),
        Err(_) => "err".to_string(),
    }
}

fn declared<T: Pod + ZkProofData<U>, U: Pod>() -> String {
    use num_traits::ToPrimitive;
    format!(
        "{}:{}:{}",
        ToPrimitive::to_u8(&T::PROOF_TYPE).unwrap(),
        std::mem::size_of::<T>(),
        std::mem::size_of::<U>()
    )
}

pub fn op_ix(a: &[&str]) -> String {
    let ctx_of = |x: &str, y: &str| -> Option<Option<(Address, Address)>> {
        if x == "-" {
            Some(None)
        } else {
            Some(Some((addr(x)?, addr(y)?)))
        }
    };
    match a {
        ["verify", vi, pti, data, c, au] => {
            let (Some(instr), Ok(pti), Some(data), Some(ctx)) = (
                vi.parse().ok().and_then(instruction_by_index),
                pti.parse::<usize>(),
                unhex(data),
                ctx_of(c, au),
            ) else {
                return "bad-op".into();
            };
            with_proof_types!(pti, ix_verify, instr, &data, ctx)
        }
        ["acct", vi, pa, off, c, au] => {
            let (Some(instr), Some(pa), Ok(off), Some(ctx)) = (
                vi.parse().ok().and_then(instruction_by_index),
                addr(pa),
                off.parse::<u32>(),
                ctx_of(c, au),
            ) else {
                return "bad-op".into();
            };
            let info = ctx.as_ref().map(|(a, b)| ContextStateInfo {
                context_state_account: a,
                context_state_authority: b,
            });
            fmt_ix(&instr.encode_verify_proof_from_account(info, &pa, off))
        }
        ["close", c, au, d] => {
            let (Some(c), Some(au), Some(d)) = (addr(c), addr(au), addr(d)) else {
                return "bad-op".into();
            };
            fmt_ix(&close_context_state(
                ContextStateInfo {
                    context_state_account: &c,
                    context_state_authority: &au,
                },
                &d,
            ))
        }
        ["fromprim", v] => {
            // every integer-to-variant entry point of the two enums (num_traits::FromPrimitive): exactly 0..=12 map
            use num_traits::FromPrimitive;
            let Ok(v) = v.parse::<i128>() else { return "bad-op".into() };
            let mut outs: Vec<Option<ProofInstruction>> = vec![];
            if let Ok(x) = u8::try_from(v) { outs.push(ProofInstruction::from_u8(x)); }
            if let Ok(x) = u16::try_from(v) { outs.push(ProofInstruction::from_u16(x)); }
            if let Ok(x) = u32::try_from(v) { outs.push(ProofInstruction::from_u32(x)); }
            if let Ok(x) = u64::try_from(v) { outs.push(ProofInstruction::from_u64(x)); outs.push(ProofInstruction::from_usize(x as usize)); }
            if let Ok(x) = u128::try_from(v) { outs.push(ProofInstruction::from_u128(x)); }
            if let Ok(x) = i8::try_from(v) { outs.push(ProofInstruction::from_i8(x)); }
            if let Ok(x) = i16::try_from(v) { outs.push(ProofInstruction::from_i16(x)); }
            if let Ok(x) = i32::try_from(v) { outs.push(ProofInstruction::from_i32(x)); }
            if let Ok(x) = i64::try_from(v) { outs.push(ProofInstruction::from_i64(x)); outs.push(ProofInstruction::from_isize(x as isize)); }
            outs.push(ProofInstruction::from_i128(v));
            let mut touts: Vec<Option<ProofType>> = vec![];
            if let Ok(x) = u8::try_from(v) { touts.push(ProofType::from_u8(x)); }
            if let Ok(x) = u32::try_from(v) { touts.push(ProofType::from_u32(x)); }
            if let Ok(x) = u64::try_from(v) { touts.push(ProofType::from_u64(x)); }
            if let Ok(x) = i64::try_from(v) { touts.push(ProofType::from_i64(x)); }
            touts.push(ProofType::from_i128(v));
            let i0 = outs[0];
            if outs.iter().any(|o| *o != i0) { return format!("variant-mismatch:instruction:{:?}", outs) }
            let t0 = touts[0];
            if touts.iter().any(|o| *o != t0) { return format!("variant-mismatch:type:{:?}", touts) }
            let ik = i0.and_then(|i| (0..13).find(|k| instruction_by_index(*k) == Some(i)));
            let tk = t0.and_then(|t| (0..13).find(|k| proof_type_by_index(*k) == Some(t)));
            format!("{}:{}", ik.map(|k| k.to_string()).unwrap_or("none".into()), tk.map(|k| k.to_string()).unwrap_or("none".into()))
        }
        ["type", h] => {
            let Some(b) = unhex(h) else { return "bad-op".into() };
            match ProofInstruction::instruction_type(&b) {
                // report the NAME's pinned index, not the byte
                Some(i) => match (0..13).find(|k| instruction_by_index(*k) == Some(i)) {
                    Some(k) => format!("some:{}", k),
                    None => "some:?".into(),
                },
                None => "none".into(),
            }
        }
        ["data", pti, h] => {
            let (Ok(pti), Some(b)) = (pti.parse::<usize>(), unhex(h)) else {
                return "bad-op".into();
            };
            with_proof_types!(pti, ix_data, &b)
        }
        _ => "bad-op".into(),
    }
}

pub fn op_state(a: &[&str]) -> String {
    match a {
        ["encode", pti, au, tb, ctx] => {
            let (Ok(pti), Some(au), Some(pt), Some(ctx)) = (
                pti.parse::<usize>(),
                addr(au),
                tb.parse().ok().and_then(proof_type_by_index),
                unhex(ctx),
            ) else {
                return "bad-op".into();
            };
            with_proof_types!(pti, state_encode, &au, pt, &ctx)
        }
        ["encodeg", kind, au, tb, ctx] => {
            let (Some(au), Some(pt), Some(ctx)) = (addr(au), tb.parse().ok().and_then(proof_type_by_index), unhex(ctx)) else { return "bad-op".into() };
            // the context bytes are copied into a properly aligned value of the context type first
            macro_rules! enc { ($t:ty) => {{
                if ctx.len() != std::mem::size_of::<$t>() { return "bad-op".into() }
                let v: $t = bytemuck::pod_read_unaligned(&ctx);
                hex(&ProofContextState::<$t>::encode(&au, pt, &v))
            }} }
            match *kind { "u64" => enc!(u64), "u32x3" => enc!([u32; 3]), "u16x5" => enc!([u16; 5]), "u8x7" => enc!([u8; 7]), "u128" => enc!(u128), _ => "bad-op".into() }
        }
        ["decode", pti, h] => {
            let (Ok(pti), Some(b)) = (pti.parse::<usize>(), unhex(h)) else {
                return "bad-op".into();
            };
            with_proof_types!(pti, state_decode, &b)
        }
        ["meta", h] => {
            let Some(b) = unhex(h) else { return "bad-op".into() };
            match ProofContextStateMeta::try_from_bytes(&b) {
                Ok(m) => format!(
                    "ok:{}:{}",
                    hex(m.context_state_authority.as_ref()),
                    hex(bytemuck::bytes_of(&m.proof_type))
                ),
                Err(_) => "err".into(),
            }
        }
        ["ptype", b] => {
            let Ok(b) = b.parse::<u8>() else { return "bad-op".into() };
            let pod: pod::PodProofType = bytemuck::cast(b);
            match ProofType::try_from(pod) {
                Ok(t) => match (0..13).find(|k| proof_type_by_index(*k) == Some(t)) {
                    Some(k) => format!("some:{}", k),
                    None => "some:?".into(),
                },
                Err(_) => "none".into(),
            }
        }
        _ => "bad-op".into(),
    }
}

fn state_size<T: Pod + ZkProofData<U>, U: Pod>() -> String { format!("{}", std::mem::size_of::<ProofContextState<U>>()) }
fn sizes<T: Pod + ZkProofData<U>, U: Pod>() -> String { format!("{}:{}", std::mem::size_of::<T>(), std::mem::size_of::<U>()) }
fn data_size(i: usize) -> usize { let s: String = with_proof_types!(i, sizes,); s.split(':').next().and_then(|x| x.parse().ok()).unwrap_or(0) }
fn ctx_size(i: usize) -> usize { let s: String = with_proof_types!(i, sizes,); s.split(':').nth(1).and_then(|x| x.parse().ok()).unwrap_or(0) }

/// constants of the compiled crate, as JSON (cross-checks the translator)
pub fn consts_json() -> String {
    use num_traits::ToPrimitive;
    let mut instrs = vec![];
    for i in 0..13 {
        let v = instruction_by_index(i).unwrap();
        instrs.push(format!("[\"{:?}\",{}]", v, ToPrimitive::to_u8(&v).unwrap()));
    }
    let mut ptypes = vec![];
    for i in 0..13 {
        let v = proof_type_by_index(i).unwrap();
        ptypes.push(format!("[\"{:?}\",{}]", v, ToPrimitive::to_u8(&v).unwrap()));
    }
    let mut decl = vec![];
    for i in 1..=12usize {
        let s: String = with_proof_types!(i, declared,);
        let p: Vec<&str> = s.split(':').collect();
        decl.push(format!("[{},{},{}]", p[0], p[1], p[2]));
    }
    // what the SDK actually puts on the wire (C17): for every builder and every variant the program
    // address and the discriminator byte of the built instruction; for every proof type the type byte
    // and the total length of the encoded context-state account
    let a1 = Address::from([1u8; 32]);
    let a2 = Address::from([2u8; 32]);
    let a3 = Address::from([3u8; 32]);
    let mut enc = vec![];
    for i in 1..13usize {
        let v = instruction_by_index(i).unwrap();
        for with_ctx in [false, true] {
            let info = if with_ctx { Some(ContextStateInfo { context_state_account: &a1, context_state_authority: &a2 }) } else { None };
            let ix = v.encode_verify_proof_from_account(info, &a3, 7);
            enc.push(format!("[\"account:{:?}:{}\",\"{}\",{}]", v, with_ctx as u8, hex(ix.program_id.as_ref()), ix.data[0]));
            let zeros = vec![0u8; 2048];
            let s: String = with_proof_types!(i, ix_verify, v, &zeros[..data_size(i)], if with_ctx { Some((a1, a2)) } else { None });
            // s = "prog=<hex> accts=.. data=<hex>"
            let prog = s.split_whitespace().next().unwrap_or("").trim_start_matches("prog=").to_string();
            let d0 = s.rsplit("data=").next().and_then(|h| u8::from_str_radix(h.get(0..2).unwrap_or("zz"), 16).ok()).map(|b| b as i32).unwrap_or(-1);
            enc.push(format!("[\"inline:{:?}:{}\",\"{}\",{}]", v, with_ctx as u8, prog, d0));
            // the discriminator is the variant's, whatever proof data the caller hands over: the same builder with the
            // next proof type's data
            let j = (i % 12) + 1;
            let s: String = with_proof_types!(j, ix_verify, v, &zeros[..data_size(j)], if with_ctx { Some((a1, a2)) } else { None });
            let prog = s.split_whitespace().next().unwrap_or("").trim_start_matches("prog=").to_string();
            let d0 = s.rsplit("data=").next().and_then(|h| u8::from_str_radix(h.get(0..2).unwrap_or("zz"), 16).ok()).map(|b| b as i32).unwrap_or(-1);
            enc.push(format!("[\"inline-other-data:{:?}:{}\",\"{}\",{}]", v, with_ctx as u8, prog, d0));
        }
    }
    {
        let ix = close_context_state(ContextStateInfo { context_state_account: &a1, context_state_authority: &a2 }, &a3);
        enc.push(format!("[\"close:CloseContextState\",\"{}\",{}]", hex(ix.program_id.as_ref()), ix.data[0]));
    }
    let mut st = vec![];
    for i in 1..13usize {
        let zeros = vec![0u8; 2048];
        let h: String = with_proof_types!(i, state_encode, &a1, proof_type_by_index(i).unwrap(), &zeros[..ctx_size(i)]);
        let b = unhex(&h).unwrap_or_default();
        // also: the in-memory size of the typed state (what `try_from_bytes` demands) and a read-back of the
        // encoded bytes through the typed reader (an account of the declared size must be readable)
        let sz: String = with_proof_types!(i, state_size,);
        let back: String = with_proof_types!(i, state_decode, &b);
        st.push(format!("[{},{},{},{},{}]", i, b.len(), if b.len() > 32 { b[32] as i32 } else { -1 }, sz, if back.starts_with("ok:") { 1 } else { 0 }));
    }
    format!(
        "{{\"instructions\":[{}],\"proof_types\":[{}],\"declared\":[{}],\"meta_size\":{},\"program_id\":\"{}\",\"program_id_const\":\"{}\",\"check_id_const\":{},\"encoded\":[{}],\"encoded_states\":[{}]}}",
        instrs.join(","),
        ptypes.join(","),
        decl.join(","),
        std::mem::size_of::<ProofContextStateMeta>(),
        hex(solana_zk_sdk::zk_elgamal_proof_program::id().as_ref()),
        hex(solana_zk_sdk::zk_elgamal_proof_program::ID.as_ref()),
        solana_zk_sdk::zk_elgamal_proof_program::check_id(&solana_zk_sdk::zk_elgamal_proof_program::ID),
        enc.join(","),
        st.join(",")
    )
}

#!/usr/bin/env python3
"""keep_seed.py <seed-id> <worktree> <property> <needs> <detected-by> : store a confirmed seeded change under /verif/seeded/<seed-id>/"""
import json, os, shutil, sys
sid, wt, prop, needs, detected = sys.argv[1:6]
d = f"/verif/seeded/{sid}"
os.makedirs(d, exist_ok=True)
for f in ("patch.diff", "demo.rs", "notes.md"):
    shutil.copy(os.path.join(wt, "_seed", f), os.path.join(d, f))
conf = open(f"/tmp/wt/confirm_{os.path.basename(wt)}.txt").read() if os.path.exists(f"/tmp/wt/confirm_{os.path.basename(wt)}.txt") else ""
meta = {"seed": sid, "breaks_property": prop, "needs_to_manifest": needs,
        "confirmed_by_me": {"how": "confirm_seed.sh in the scratch worktree: apply patch, run the 97-test suite, run demo with and without the change",
                            "output": conf.strip().split("\n")},
        "checks_run": detected}
json.dump(meta, open(os.path.join(d, "meta.json"), "w"), indent=1)
print("kept", d)

import ZkElGamal.Driver.Wire
import ZkElGamal.Driver.Sigma
import ZkElGamal.Driver.Enc
import ZkElGamal.Driver.Range
import ZkElGamal.Driver.Ae
import ZkElGamal.Driver.Kdf
import ZkElGamal.Driver.Secrets
import ZkElGamal.Driver.Dlog
/-!
`zkmodel` — the executable model. One op per line on stdin (`<id> <op> <args…>`),
one result per line on stdout (`<id> <outcome>`); the same lines are run by the
Rust harness `zkh run` against the real SDK and the two streams are diffed.
-/
open Zk Zk.Driver

/-- generators are derived once per process and shared by all range ops -/
def gensOf (g : List CPt × List CPt) (n : Nat) : List CPt × List CPt := (g.1.take n, g.2.take n)

def execOp (g : Unit → List CPt × List CPt) (op : String) (args : List String) : String :=
  match op with
  | "rnew" => opRnew (gensOf (g ())) false args
  | "rprove" => opRnew (gensOf (g ())) true args
  | "rmprove" => opRmprove (gensOf (g ())) args
  | "rseq" => "emit:"          -- implementation-only: proofs built and verified in one process, emitted for both verifiers
  | "gens" => opGens (gensOf (g ())) args
  | "verify" =>
    match args with
    | [instr, h] =>
      if instr.startsWith "range" then
        match ofHex h with
        | some b => match verifyRange (gensOf (g ())) instr b with
          | some v => verdict v ++ showTrace (traceRange instr b)
          | none => "bad-op"
        | none => "bad-op"
      else opVerify args
    | _ => "bad-op"
  | "vseq" =>
    -- several verifications in one process, one after the other: the verdict letters in order
    String.join (args.map fun tok =>
      match tok.splitOn ":" with
      | [instr, h] =>
        let r := if instr.startsWith "range" then
            match ofHex h with
            | some b => match verifyRange (gensOf (g ())) instr b with
              | some v => verdict v
              | none => "?"
            | none => "?"
          else opVerify [instr, h]
        String.ofList (r.toList.take 1)
      | _ => "?")
  | "ix" => opIx args
  | "state" => opState args
  | "new" => opNew args
  | "prove" => opProve args
  | "mprove" => opMprove args
  | "forge" => opForge args
  | "decode" => opDecode args
  | "serde" => opDecode args     -- bincode of these types is the raw encodings back to back; round trips are checked by the harness
  | "extract" => opExtract args
  | "fromstr" => opFromStr args
  | "tostr" => opToStr args
  | "json" => opJson args
  | "jsonfile" =>
    -- the file entry points read what the in-memory reader reads; a missing path or a directory is an error
    match args with
    | [codec, h, kind] =>
      if kind == "missing" || kind == "dir" then "err" else opJson [codec, if h == "-" then "" else h]
    | _ => "bad-op"
  | "tojson" => opToJson args
  | "elg" => opElg args
  | "ae" => opAe args
  | "kdf" => opKdf args
  | "dlog" => opDlog args
  | "dlogseq" => opDlogSeq args
  | "drop" => opDrop args
  | "debug" => opDebug args
  | "fresh" => "distinct"     -- the specification: nothing ever repeats (theorems of C19)
  | _ => "bad-op"

partial def loop (h : IO.FS.Stream) (out : IO.FS.Stream) (cache : IO.Ref (Option (List CPt × List CPt)))
    (tcache : IO.Ref (Option (Std.HashMap Nat Nat))) : IO Unit := do
  let line ← h.getLine
  if line.isEmpty then return ()
  let toks := (line.trimAscii.toString.splitOn " ").filter (· ≠ "")
  match toks with
  | id :: "dlogsearch" :: args =>
    if (← tcache.get).isNone then tcache.set (some buildTable)
    out.putStrLn s!"{id} {opDlogSearch ((← tcache.get).getD {}) args}"
  | [id, "dlogtable", path] =>
    if (← tcache.get).isNone then tcache.set (some buildTable)
    let bytes ← IO.FS.readBinFile path
    out.putStrLn s!"{id} {checkTableFile ((← tcache.get).getD {}) bytes}"
  | id :: op :: args =>
    let needsGens := op == "rnew" || op == "rprove" || op == "rmprove" || op == "gens" ||
      (op == "verify" && (args.headD "").startsWith "range") || (op == "vseq" && args.any (·.startsWith "range"))
    if needsGens && (← cache.get).isNone then
      cache.set (some (concGens 256))
    let g := (← cache.get).getD ([], [])
    out.putStrLn s!"{id} {execOp (fun _ => g) op args}"
  | _ => pure ()
  loop h out cache tcache

def main : IO Unit := do
  let stdin ← IO.getStdin
  let stdout ← IO.getStdout
  let cache ← IO.mkRef none
  let tcache ← IO.mkRef none
  loop stdin stdout cache tcache
  stdout.flush

import ZkElGamal.Driver.Wire
import ZkElGamal.Driver.Sigma
import ZkElGamal.Driver.Enc
/-!
`zkmodel` — the executable model. One op per line on stdin (`<id> <op> <args…>`),
one result per line on stdout (`<id> <outcome>`); the same lines are run by the
Rust harness `zkh run` against the real SDK and the two streams are diffed.
-/
open Zk Zk.Driver

def execOp (op : String) (args : List String) : String :=
  match op with
  | "ix" => opIx args
  | "state" => opState args
  | "verify" => opVerify args
  | "new" => opNew args
  | "prove" => opProve args
  | "mprove" => opMprove args
  | "decode" => opDecode args
  | "extract" => opExtract args
  | "fromstr" => opFromStr args
  | "tostr" => opToStr args
  | "json" => opJson args
  | "tojson" => opToJson args
  | "elg" => opElg args
  | _ => "bad-op"

partial def loop (h : IO.FS.Stream) (out : IO.FS.Stream) : IO Unit := do
  let line ← h.getLine
  if line.isEmpty then return ()
  let toks := (line.trimAscii.toString.splitOn " ").filter (· ≠ "")
  match toks with
  | id :: op :: args =>
    out.putStrLn s!"{id} {execOp op args}"
  | _ => pure ()
  loop h out

def main : IO Unit := do
  let stdin ← IO.getStdin
  let stdout ← IO.getStdout
  loop stdin stdout
  stdout.flush

-- Root of the `ZkElGamal` library: model, proofs and property theorems.
import ZkElGamal.Audit
import ZkElGamal.Conc.Keccak
import ZkElGamal.Conc.Ristretto
import ZkElGamal.Model.Prims
import ZkElGamal.Model.Wire
import ZkElGamal.Driver.Wire
import ZkElGamal.Props.C15
import ZkElGamal.Props.C16
import ZkElGamal.Props.C17

import Lean
/-!
`#audit_ns Foo.Bar` lists every theorem whose name has prefix `Foo.Bar` together
with the axioms it depends on (`collectAxioms`), one line per theorem:

  THEOREM <name> axioms=[a, b, …] ok=<true|false>

`ok` is false when an axiom outside {propext, Classical.choice, Quot.sound} is used
(this is how `native_decide` / `bv_decide` / `sorry` show up).
-/
open Lean Elab Command

def auditAllowed : List Name := [``propext, ``Classical.choice, ``Quot.sound]

elab "#audit_ns " ns:ident : command => do
  let env ← getEnv
  let nsName := ns.getId
  let mut out : Array String := #[]
  for (n, ci) in env.constants.toList do
    if nsName.isPrefixOf n && !n.isInternalDetail then
      match ci with
      | .thmInfo _ =>
        let axs ← liftCoreM (collectAxioms n)
        let bad := axs.toList.filter (fun a => !auditAllowed.contains a)
        out := out.push s!"THEOREM {n} axioms={axs.toList} ok={bad.isEmpty}"
      | _ => pure ()
  for l in out.qsort (· < ·) do
    IO.println l
  IO.println s!"AUDIT {nsName} theorems={out.size}"

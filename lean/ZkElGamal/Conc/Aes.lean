import ZkElGamal.Model.Bytes
/-!
Concrete AES-128 (FIPS-197), executable re-implementation of the `aes` crate (trusted base:
validated against the Rust crate by the correspondence and against the RFC 8452 vector).
The S-box is computed from the field inverse, not typed in.
-/
namespace Zk.Conc.Aes

def xtime (a : UInt8) : UInt8 := (a <<< 1) ^^^ (if a &&& 0x80 != 0 then 0x1b else 0)
def gmul (a b : UInt8) : UInt8 := Id.run do
  let mut r : UInt8 := 0; let mut a := a; let mut b := b
  for _ in [0:8] do
    if b &&& 1 != 0 then r := r ^^^ a
    a := xtime a; b := b >>> 1
  return r
def ginv (a : UInt8) : UInt8 := Id.run do   -- a^254
  let mut r : UInt8 := 1
  for _ in [0:254] do r := gmul r a
  return r
def rotl8 (x : UInt8) (n : Nat) : UInt8 := (x <<< UInt8.ofNat n) ||| (x >>> UInt8.ofNat (8 - n))
def sboxAt (i : Nat) : UInt8 :=
  let b := ginv (UInt8.ofNat i)
  b ^^^ rotl8 b 1 ^^^ rotl8 b 2 ^^^ rotl8 b 3 ^^^ rotl8 b 4 ^^^ 0x63
def sbox : Array UInt8 := (Array.range 256).map sboxAt
def sub (b : UInt8) : UInt8 := sbox[b.toNat]!

def rcon : List UInt8 := [0x01,0x02,0x04,0x08,0x10,0x20,0x40,0x80,0x1b,0x36]
def expandKey (k : Bytes) : List Bytes := Id.run do   -- 11 round keys
  let mut w : Array Bytes := #[k.take 4, (k.drop 4).take 4, (k.drop 8).take 4, (k.drop 12).take 4]
  for i in [4:44] do
    let mut t := w[i-1]!
    if i % 4 == 0 then
      let r := t.drop 1 ++ t.take 1
      let s := r.map sub
      t := xorBytes s [rcon[i/4 - 1]!, 0, 0, 0]
    w := w.push (xorBytes w[i-4]! t)
  return (List.range 11).map fun r => w[4*r]! ++ w[4*r+1]! ++ w[4*r+2]! ++ w[4*r+3]!
def shiftRows (s : Bytes) : Bytes :=
  (List.range 16).map fun i => let c := i / 4; let r := i % 4; s[4 * ((c + r) % 4) + r]!
def mixCol (c : Bytes) : Bytes :=
  let a0 := c[0]!; let a1 := c[1]!; let a2 := c[2]!; let a3 := c[3]!
  [gmul 2 a0 ^^^ gmul 3 a1 ^^^ a2 ^^^ a3, a0 ^^^ gmul 2 a1 ^^^ gmul 3 a2 ^^^ a3,
   a0 ^^^ a1 ^^^ gmul 2 a2 ^^^ gmul 3 a3, gmul 3 a0 ^^^ a1 ^^^ a2 ^^^ gmul 2 a3]
def mixColumns (s : Bytes) : Bytes :=
  mixCol (s.take 4) ++ mixCol ((s.drop 4).take 4) ++ mixCol ((s.drop 8).take 4) ++ mixCol ((s.drop 12).take 4)

/-- AES-128 encryption of one 16-byte block -/
def encryptBlock (key block : Bytes) : Bytes := Id.run do
  let rks := expandKey key
  let mut s := xorBytes block rks[0]!
  for r in [1:10] do
    s := xorBytes (mixColumns (shiftRows (s.map sub))) rks[r]!
  return xorBytes (shiftRows (s.map sub)) rks[10]!

/-! POLYVAL (RFC 8452 §3) over GF(2^128), little-endian -/
def clmul (a b : Nat) : Nat := Id.run do
  let mut r := 0
  for i in [0:128] do
    if (b >>> i) % 2 == 1 then r := r ^^^ (a <<< i)
  return r
def polyP : Nat := 2^128 + 2^127 + 2^126 + 2^121 + 1
def dot (a b : Nat) : Nat := Id.run do
  let mut c := clmul a b
  for _ in [0:128] do
    if c % 2 == 1 then c := c ^^^ polyP
    c := c >>> 1
  return c
def blocks16 : Bytes → Nat → List Bytes
  | _, 0 => []
  | b, n+1 => if b.isEmpty then [] else b.take 16 :: blocks16 (b.drop 16) n
/-- POLYVAL(h, msg) for a message that is a multiple of 16 bytes -/
def polyval (h : Bytes) (msg : Bytes) : Bytes :=
  let hn := leNat h
  natLE ((blocks16 msg (msg.length / 16 + 1)).foldl (fun s x => dot (s ^^^ leNat x) hn) 0) 16

end Zk.Conc.Aes

import ZkElGamal.Conc.Ristretto
import ZkElGamal.Model.Prims
/-!
The concrete instantiation of the model's interface: Ristretto255 points,
scalars mod ℓ, Merlin transcripts, SHA3/SHAKE-derived generators.
-/
namespace Zk.Conc
open Zk

instance : PtCodec Pt where
  dec := ristrettoDecode
  enc := ristrettoEncode

instance : ScCodec Sc where
  canon b := if b.length = 32 ∧ leNat b < ell then some ⟨leNat b⟩ else none
  wide b := ⟨leNat b % ell⟩
  enc s := natLE s.v 32
  ofNat n := ⟨n % ell⟩

/-- `H = hash_to_point(SHA3-512(compress(basepoint)))` -/
def pedersenH : Pt := fromUniform (sha3_512 basepointBytes)

instance : PedGens Pt where
  G := basepoint
  H := pedersenH

instance : TranscriptOps Strobe where
  init := merlinNew
  append := merlinAppend
  challenge := merlinChallenge

/-- `GeneratorsChain::new(label)`: SHAKE256("GeneratorsChain" ‖ label), 64 bytes per point -/
def generatorsChain (label : Bytes) (n : Nat) : List Pt :=
  let stream := shake256 (ascii "GeneratorsChain" ++ label) (64 * n)
  (List.range n).map fun i => fromUniform ((stream.drop (64 * i)).take 64)

end Zk.Conc

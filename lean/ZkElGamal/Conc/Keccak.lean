import ZkElGamal.Model.Bytes
/-!
Concrete Keccak-f[1600], SHA3-512, SHAKE256, STROBE-128 and Merlin.
Executable re-implementation of the external crates `keccak`, `sha3`, `merlin`
(trusted base: validated bit-for-bit against the Rust crates by the
correspondence check; no theorem depends on it).
-/
namespace Zk.Conc

def rc : Array UInt64 := #[
  0x0000000000000001, 0x0000000000008082, 0x800000000000808A, 0x8000000080008000,
  0x000000000000808B, 0x0000000080000001, 0x8000000080008081, 0x8000000000008009,
  0x000000000000008A, 0x0000000000000088, 0x0000000080008009, 0x000000008000000A,
  0x000000008000808B, 0x800000000000008B, 0x8000000000008089, 0x8000000000008003,
  0x8000000000008002, 0x8000000000000080, 0x000000000000800A, 0x800000008000000A,
  0x8000000080008081, 0x8000000000008080, 0x0000000080000001, 0x8000000080008008]

def rotc : Array Nat := #[1,3,6,10,15,21,28,36,45,55,2,14,27,41,56,8,25,43,62,18,39,61,20,44]
def piln : Array Nat := #[10,7,11,17,18,3,5,16,8,21,24,4,15,23,19,13,12,2,20,14,22,9,6,1]

@[inline] def rotl (x : UInt64) (n : Nat) : UInt64 :=
  (x <<< (UInt64.ofNat n)) ||| (x >>> (UInt64.ofNat (64 - n)))

def keccakRound (st : Array UInt64) (r : Nat) : Array UInt64 := Id.run do
  let mut a := st
  let mut bc : Array UInt64 := Array.replicate 5 0
  for i in [0:5] do
    bc := bc.set! i (a[i]! ^^^ a[i+5]! ^^^ a[i+10]! ^^^ a[i+15]! ^^^ a[i+20]!)
  for i in [0:5] do
    let t := bc[(i+4)%5]! ^^^ rotl bc[(i+1)%5]! 1
    for j in [0:5] do
      a := a.set! (j*5+i) (a[j*5+i]! ^^^ t)
  let mut t := a[1]!
  for i in [0:24] do
    let j := piln[i]!
    let b := a[j]!
    a := a.set! j (rotl t rotc[i]!)
    t := b
  for j in [0:5] do
    for i in [0:5] do
      bc := bc.set! i a[j*5+i]!
    for i in [0:5] do
      a := a.set! (j*5+i) (bc[i]! ^^^ ((~~~ bc[(i+1)%5]!) &&& bc[(i+2)%5]!))
  a := a.set! 0 (a[0]! ^^^ rc[r]!)
  return a

def keccakF (st : Array UInt64) : Array UInt64 := Id.run do
  let mut a := st
  for r in [0:24] do
    a := keccakRound a r
  return a

def stXorByte (st : Array UInt64) (i : Nat) (b : UInt8) : Array UInt64 :=
  let lane := i / 8; let sh := (i % 8) * 8
  st.set! lane (st[lane]! ^^^ (b.toUInt64 <<< UInt64.ofNat sh))
def stGetByte (st : Array UInt64) (i : Nat) : UInt8 :=
  let lane := i / 8; let sh := (i % 8) * 8
  (st[lane]! >>> UInt64.ofNat sh).toUInt8
def stSetByte (st : Array UInt64) (i : Nat) (b : UInt8) : Array UInt64 :=
  let lane := i / 8; let sh := (i % 8) * 8
  let m : UInt64 := ~~~ ((0xff : UInt64) <<< UInt64.ofNat sh)
  st.set! lane ((st[lane]! &&& m) ||| (b.toUInt64 <<< UInt64.ofNat sh))

/-- Keccak sponge with byte-granular absorb and squeeze. -/
def sponge (rate : Nat) (pad : UInt8) (msg : Bytes) (outLen : Nat) : Bytes := Id.run do
  let mut st : Array UInt64 := Array.replicate 25 0
  let mut pos := 0
  for b in msg do
    st := stXorByte st pos b
    pos := pos + 1
    if pos == rate then
      st := keccakF st
      pos := 0
  st := stXorByte st pos pad
  st := stXorByte st (rate - 1) 0x80
  st := keccakF st
  let mut out : Array UInt8 := #[]
  let mut p := 0
  for _ in [0:outLen] do
    if p == rate then
      st := keccakF st
      p := 0
    out := out.push (stGetByte st p)
    p := p + 1
  return out.toList

def sha3_512 (m : Bytes) : Bytes := sponge 72 0x06 m 64
def sha3_256 (m : Bytes) : Bytes := sponge 136 0x06 m 32
def shake256 (m : Bytes) (n : Nat) : Bytes := sponge 136 0x1f m n

/-! STROBE-128 (the subset Merlin uses) -/
structure Strobe where
  st : Array UInt64
  pos : Nat
  posBegin : Nat
  curFlags : UInt8

def strobeR : Nat := 166

def Strobe.runF (s : Strobe) : Strobe :=
  let st := stXorByte s.st s.pos (UInt8.ofNat s.posBegin)
  let st := stXorByte st (s.pos + 1) 0x04
  let st := stXorByte st (strobeR + 1) 0x80
  { s with st := keccakF st, pos := 0, posBegin := 0 }

def Strobe.absorb (s : Strobe) (data : Bytes) : Strobe :=
  data.foldl (fun s b =>
    let s := { s with st := stXorByte s.st s.pos b, pos := s.pos + 1 }
    if s.pos == strobeR then s.runF else s) s

def Strobe.squeeze (s : Strobe) (n : Nat) : Bytes × Strobe := Id.run do
  let mut s := s
  let mut out : Array UInt8 := #[]
  for _ in [0:n] do
    out := out.push (stGetByte s.st s.pos)
    s := { s with st := stSetByte s.st s.pos 0, pos := s.pos + 1 }
    if s.pos == strobeR then s := s.runF
  return (out.toList, s)

def Strobe.beginOp (s : Strobe) (flags : UInt8) (more : Bool) : Strobe :=
  if more then s else
  let oldBegin := s.posBegin
  let s := { s with posBegin := s.pos + 1, curFlags := flags }
  let s := s.absorb [UInt8.ofNat oldBegin, flags]
  let forceF := (flags &&& (4 ||| 32)) != 0
  if forceF && s.pos != 0 then s.runF else s

def Strobe.metaAd (s : Strobe) (d : Bytes) (more : Bool) : Strobe := (s.beginOp (16 ||| 2) more).absorb d
def Strobe.ad (s : Strobe) (d : Bytes) (more : Bool) : Strobe := (s.beginOp 2 more).absorb d
def Strobe.prf (s : Strobe) (n : Nat) : Bytes × Strobe := (s.beginOp (1 ||| 2 ||| 4) false).squeeze n

def Strobe.new (label : Bytes) : Strobe :=
  let init : Bytes := [1, UInt8.ofNat (strobeR + 2), 1, 0, 1, 96] ++ ascii "STROBEv1.0.2"
  let st := (List.range init.length).foldl (fun st i => stXorByte st i init[i]!) (Array.replicate 25 (0:UInt64))
  let s : Strobe := { st := keccakF st, pos := 0, posBegin := 0, curFlags := 0 }
  s.metaAd label false

/-! Merlin transcripts -/
def merlinNew (label : Bytes) : Strobe :=
  let s := Strobe.new (ascii "Merlin v1.0")
  let s := s.metaAd (ascii "dom-sep") false
  let s := s.metaAd (natLE label.length 4) true
  s.ad label false
def merlinAppend (s : Strobe) (label msg : Bytes) : Strobe :=
  let s := s.metaAd label false
  let s := s.metaAd (natLE msg.length 4) true
  s.ad msg false
def merlinChallenge (s : Strobe) (label : Bytes) (n : Nat) : Bytes × Strobe :=
  let s := s.metaAd label false
  let s := s.metaAd (natLE n 4) true
  s.prf n

end Zk.Conc

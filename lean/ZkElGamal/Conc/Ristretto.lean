import ZkElGamal.Conc.Keccak
/-!
Concrete Ristretto255 (RFC 9496) over `Nat` arithmetic mod p, and scalars mod ℓ.
Executable re-implementation of the parts of `curve25519-dalek` the SDK uses
(trusted base: validated against dalek by the correspondence check; the
theorems are stated over an abstract module and assume only codec laws).
-/
namespace Zk.Conc

def p : Nat := 2^255 - 19
def dC : Nat := 37095705934669439343138083508754565189542113879843219016388785533085940283555
def ell : Nat := 2^252 + 27742317777372353535851937790883648493

@[inline] def fmul (a b : Nat) : Nat := (a * b) % p
@[inline] def fadd (a b : Nat) : Nat := (a + b) % p
@[inline] def fsub (a b : Nat) : Nat := (a + p - b % p) % p
def fneg (a : Nat) : Nat := (p - a % p) % p
def isNeg (a : Nat) : Bool := a % 2 == 1
def fabs (a : Nat) : Nat := if isNeg a then fneg a else a

def fpow (a e : Nat) : Nat := Id.run do
  let mut r := 1; let mut b := a % p; let mut e := e
  for _ in [0:256] do
    if e == 0 then break
    if e % 2 == 1 then r := fmul r b
    b := fmul b b; e := e / 2
  return r

/-- extended twisted Edwards coordinates (a = -1) -/
structure Pt where
  X : Nat
  Y : Nat
  Z : Nat
  T : Nat
deriving Repr

def Pt.zero : Pt := ⟨0, 1, 1, 0⟩

/-- add-2008-hwcd-3 -/
def Pt.add (P Q : Pt) : Pt :=
  let A := fmul (fsub P.Y P.X) (fsub Q.Y Q.X)
  let B := fmul (fadd P.Y P.X) (fadd Q.Y Q.X)
  let C := fmul (fmul P.T (fmul 2 dC)) Q.T
  let D := fmul (fmul P.Z 2) Q.Z
  let E := fsub B A
  let F := fsub D C
  let G := fadd D C
  let H := fadd B A
  ⟨fmul E F, fmul G H, fmul F G, fmul E H⟩

def Pt.neg (P : Pt) : Pt := ⟨fneg P.X, P.Y, P.Z, fneg P.T⟩

def Pt.smulAux : Nat → Nat → Pt → Pt → Pt
  | 0, _, acc, _ => acc
  | fuel+1, k, acc, cur =>
    if k == 0 then acc else
    let acc' := if k % 2 == 1 then acc.add cur else acc
    Pt.smulAux fuel (k / 2) acc' (cur.add cur)

def Pt.smul (k : Nat) (P : Pt) : Pt := Pt.smulAux 256 k Pt.zero P

/-- Ristretto equality: X1·Y2 = Y1·X2 or Y1·Y2 = X1·X2 -/
def Pt.req (P Q : Pt) : Bool :=
  fmul P.X Q.Y == fmul P.Y Q.X || fmul P.Y Q.Y == fmul P.X Q.X

def Bx : Nat := 15112221349535400772501151409588531511454012693041857206046113283949847762202
def By : Nat := 46316835694926478169428394003475163141307993866256225615783033603165251855960
def basepoint : Pt := ⟨Bx, By, 1, fmul Bx By⟩

def sqrtM1 : Nat := 19681161376707505956807079304988542015446066515923890162744021073123829784752
def invsqrtAminusD : Nat := 54469307008909316920995813868745141605393597292927456921205312896311721017578
def oneMinusDsq : Nat := 1159843021668779879193775521855586647937357759715417654439879720876111806838
def dMinusOneSq : Nat := 40440834346308536858101042469323190826248399146238708352240133220865137265952
def sqrtAdMinusOne : Nat := 25063068953384623474111414158702152701244531502492656460079210482610430750235

def sqrtRatioM1 (u v : Nat) : Bool × Nat :=
  let v3 := fmul (fmul v v) v
  let v7 := fmul (fmul v3 v3) v
  let r := fmul (fmul u v3) (fpow (fmul u v7) ((p - 5) / 8))
  let check := fmul v (fmul r r)
  let u := u % p
  let correct := check == u
  let flipped := check == fneg u
  let flippedI := check == fneg (fmul u sqrtM1)
  let r := if flipped || flippedI then fmul sqrtM1 r else r
  (correct || flipped, fabs r)

/-- RFC 9496 decode: exact length 32, canonical, non-negative `s`, square, non-negative `t`, `y ≠ 0` -/
def ristrettoDecode (b : Bytes) : Option Pt :=
  if b.length != 32 then none else
  let s := leNat b
  if s ≥ p || isNeg s then none else
  let ss := fmul s s
  let u1 := fsub 1 ss
  let u2 := fadd 1 ss
  let u2sq := fmul u2 u2
  let v := fsub (fneg (fmul dC (fmul u1 u1))) u2sq
  let (wasSq, inv) := sqrtRatioM1 1 (fmul v u2sq)
  let denX := fmul inv u2
  let denY := fmul (fmul inv denX) v
  let x := fabs (fmul (fmul 2 s) denX)
  let y := fmul u1 denY
  let t := fmul x y
  if !wasSq || isNeg t || y == 0 then none else some ⟨x, y, 1, t⟩

def ristrettoEncode (P : Pt) : Bytes :=
  let u1 := fmul (fadd P.Z P.Y) (fsub P.Z P.Y)
  let u2 := fmul P.X P.Y
  let (_, inv) := sqrtRatioM1 1 (fmul u1 (fmul u2 u2))
  let den1 := fmul inv u1
  let den2 := fmul inv u2
  let zInv := fmul (fmul den1 den2) P.T
  let ix0 := fmul P.X sqrtM1
  let iy0 := fmul P.Y sqrtM1
  let ench := fmul den1 invsqrtAminusD
  let rotate := isNeg (fmul P.T zInv)
  let x := if rotate then iy0 else P.X
  let y := if rotate then ix0 else P.Y
  let denInv := if rotate then ench else den2
  let y := if isNeg (fmul x zInv) then fneg y else y
  natLE (fabs (fmul denInv (fsub P.Z y))) 32

def elligator (t : Nat) : Pt :=
  let r := fmul sqrtM1 (fmul t t)
  let u := fmul (fadd r 1) oneMinusDsq
  let v := fmul (fsub (fneg 1) (fmul r dC)) (fadd r dC)
  let (wasSq, s) := sqrtRatioM1 u v
  let sPrime := fneg (fabs (fmul s t))
  let s := if wasSq then s else sPrime
  let c := if wasSq then fneg 1 else r
  let N := fsub (fmul (fmul c (fsub r 1)) dMinusOneSq) v
  let w0 := fmul (fmul 2 s) v
  let w1 := fmul N sqrtAdMinusOne
  let w2 := fsub 1 (fmul s s)
  let w3 := fadd 1 (fmul s s)
  ⟨fmul w0 w3, fmul w2 w1, fmul w1 w3, fmul w0 w2⟩

/-- `RistrettoPoint::from_uniform_bytes` (64 bytes) -/
def fromUniform (b : Bytes) : Pt :=
  let r0 := (leNat (b.take 32) % 2^255) % p
  let r1 := (leNat ((b.drop 32).take 32) % 2^255) % p
  (elligator r0).add (elligator r1)

def basepointBytes : Bytes := ristrettoEncode basepoint

/-- scalars mod ℓ, always kept reduced -/
structure Sc where
  v : Nat
deriving DecidableEq, Repr

def Sc.ofNat (n : Nat) : Sc := ⟨n % ell⟩

def scPow (a e : Nat) : Nat := Id.run do
  let mut r := 1; let mut b := a % ell; let mut e := e
  for _ in [0:256] do
    if e == 0 then break
    if e % 2 == 1 then r := (r * b) % ell
    b := (b * b) % ell; e := e / 2
  return r

instance : Add Sc := ⟨fun a b => ⟨(a.v + b.v) % ell⟩⟩
instance : Mul Sc := ⟨fun a b => ⟨(a.v * b.v) % ell⟩⟩
instance : Neg Sc := ⟨fun a => ⟨(ell - a.v % ell) % ell⟩⟩
instance : Sub Sc := ⟨fun a b => ⟨(a.v + ell - b.v % ell) % ell⟩⟩
instance : Zero Sc := ⟨⟨0⟩⟩
instance : One Sc := ⟨⟨1⟩⟩
/-- `Scalar::invert` (0 ↦ 0, as Fermat exponentiation does) -/
instance : Inv Sc := ⟨fun a => ⟨scPow a.v (ell - 2)⟩⟩
instance : BEq Sc := ⟨fun a b => a.v == b.v⟩

instance : Add Pt := ⟨Pt.add⟩
instance : Neg Pt := ⟨Pt.neg⟩
instance : Sub Pt := ⟨fun a b => a.add b.neg⟩
instance : Zero Pt := ⟨Pt.zero⟩
instance : SMul Sc Pt := ⟨fun k P => Pt.smul k.v P⟩
instance : BEq Pt := ⟨Pt.req⟩

end Zk.Conc

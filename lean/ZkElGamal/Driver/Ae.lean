import ZkElGamal.Model.AuthEnc
import ZkElGamal.Conc.Aes
import ZkElGamal.Conc.Keccak
/-!
Driver ops for authenticated encryption (C13):
  ae encrypt <key16> <amount> <seed>  → emit:!some:<amount> ae dec <key16> <hex36>   (nonce = SHA3-512(seed)[0..12])
  ae dec <key16> <hex36>              → some:<x> | none
  ae seq <key16>:<hex36> …            → the results of the decryptions in order, joined by `|`
-/
namespace Zk.Driver
open Zk Zk.Conc

def aesPrims : AuthEnc.Prims := ⟨Aes.encryptBlock, Aes.polyval⟩

def opAe (a : List String) : String :=
  let hx (b : Bytes) := if b.isEmpty then "-" else toHex b
  match a with
  | ["encrypt", key, amount, seed] =>
    match ofHex key, amount.toNat?, ofHex seed with
    | some key, some amount, some seed =>
      if key.length ≠ 16 ∨ amount ≥ 2^64 then "bad-op" else
      let nonce := (sha3_512 seed).take 12
      s!"emit:!some:{amount} ae dec {hx key} {hx (AuthEnc.encryptAmount aesPrims key nonce amount)}"
    | _, _, _ => "bad-op"
  | ["mencrypt", key, amount, nonce] =>
    -- the model as an independent encryptor with a chosen nonce (the SDK draws its nonce at random)
    match ofHex key, amount.toNat?, ofHex nonce with
    | some key, some amount, some nonce =>
      if key.length ≠ 16 ∨ nonce.length ≠ 12 ∨ amount ≥ 2^64 then "bad-op" else
      s!"emit:!some:{amount} ae dec {hx key} {hx (AuthEnc.encryptAmount aesPrims key nonce amount)}"
    | _, _, _ => "bad-op"
  | ["dec", key, ct] =>
    match ofHex key, ofHex ct with
    | some key, some ct =>
      if key.length ≠ 16 then "bad-op" else
      match AuthEnc.decryptAmount aesPrims key ct with
      | some x => s!"some:{x}"
      | none => "none"
    | _, _ => "bad-op"
  | ["soak", _, _] => "ok"     -- n fresh encryptions each decrypt to their amount (C13 `decrypt_encrypt`, every nonce)
  | "seq" :: toks =>
    -- several decryptions one after the other in one process: `key:ct` tokens, results joined by `|`
    "|".intercalate (toks.map fun tok =>
      match tok.splitOn ":" with
      | [k, c] => match ofHex k, ofHex c with
        | some key, some ct =>
          if key.length ≠ 16 then "bad" else
          match AuthEnc.decryptAmount aesPrims key ct with
          | some x => s!"some:{x}"
          | none => "none"
        | _, _ => "bad"
      | _ => "bad")
  | _ => "bad-op"

end Zk.Driver

import ZkElGamal.Model.DiscreteLog
import ZkElGamal.Driver.Enc
import Std.Data.HashMap
/-!
Driver ops for the 32-bit discrete log (C10):
  dlog <target hex> <k hex|?> <threads|-> <batch|->   → some:<x> | none | err
      configuration acceptance by the model's `setNumThreads` / `setBatchSize`; the answer by the
      specification side of theorem `decode_spec_*` (the generator knows the discrete log `k` of the
      target; the model checks `target = k•G`)
  dlogsearch <target hex> <threads|-> <batch|->       → some:<x> | none | err   (runs the model's search; slow)
  dlogtable <path>                                    → ok:<n> | mismatch:<what>   (the bincode table of the repository)
-/
namespace Zk.Driver
open Zk Zk.Conc Zk.DiscreteLog

def configOf (threads batch : String) : Option (Option Config) :=
  let c0 := defaultConfig
  let c1 : Option (Option Config) :=
    if threads == "-" then some (some c0) else
    match threads.toNat? with
    | some n => if n = 0 then none else some (setNumThreads c0 n)
    | none => none
  match c1 with
  | none => none
  | some none => some none
  | some (some c) =>
    if batch == "-" then some (some c) else
    match batch.toNat? with
    | some b => if b = 0 then none else some (setBatchSize c b)
    | none => none

/-- apply a sequence of setter calls `t<n>` / `b<n>` (`?` suffix: a refusal is ignored and leaves the
    configuration unchanged); `none` = malformed, `some none` = a refusal that is not ignored -/
def configSeq (seq : String) : Option (Option Config) :=
  (seq.splitOn "+").foldl (fun (acc : Option (Option Config)) tok =>
    match acc with
    | none => none
    | some none => some none
    | some (some c) =>
      if tok == "-" then some (some c) else
      let lenient := tok.endsWith "?"
      let tok := if lenient then (tok.dropEnd 1).toString else tok
      match (tok.drop 1).toString.toNat? with
      | none => none
      | some n =>
        if n = 0 then none else
        let r := if tok.startsWith "t" then some (setNumThreads c n)
                 else if tok.startsWith "b" then some (setBatchSize c n) else none
        match r with
        | none => none
        | some (some c') => some (some c')
        | some none => if lenient then some (some c) else some none) (some (some defaultConfig))

def opDlogSeq (a : List String) : String :=
  let G : CPt := PedGens.G
  match a with
  | [t, k, seq] =>
    match ptOfHex t, configSeq seq with
    | some target, some cfg =>
      match cfg with
      | none => "err"
      | some _ =>
        if k == "?" then "none" else
        match scOfHex k with
        | some k => if target == k • G then (if k.v < 2^32 then s!"some:{k.v}" else "none") else "bad-oracle"
        | none => "bad-op"
    | _, _ => "bad-op"
  | _ => "bad-op"

def opDlog (a : List String) : String :=
  let G : CPt := PedGens.G
  match a with
  | [t, k, threads, batch] =>
    match ptOfHex t, configOf threads batch with
    | some target, some cfg =>
      match cfg with
      | none => "err"
      | some _ =>
        if k == "?" then "none" else
        match scOfHex k with
        | some k => if target == k • G then (if k.v < 2^32 then s!"some:{k.v}" else "none") else "bad-oracle"
        | none => "bad-op"
    | _, _ => "bad-op"
  | _ => "bad-op"

/-- table key of a point: the 32 bytes of `compress(2·P)` as a number -/
def dlogKey (P : CPt) : Nat := leNat (PtCodec.enc (P + P))

/-- `decode_u32_precomputation()` : compress(2¹⁷·h·G) ↦ h, h < 2¹⁶ -/
def buildTable : Std.HashMap Nat Nat := Id.run do
  let G : CPt := PedGens.G
  let step : CPt := (⟨131072⟩ : CSc) • G
  let mut m : Std.HashMap Nat Nat := {}
  let mut cur : CPt := 0
  for h in [0:65536] do
    m := m.insert (leNat (PtCodec.enc cur)) h
    cur := cur + step
  return m

def opDlogSearch (tbl : Std.HashMap Nat Nat) (a : List String) : String :=
  let G : CPt := PedGens.G
  match a with
  | [t, threads, batch] =>
    match ptOfHex t, configOf threads batch with
    | some target, some cfg =>
      match cfg with
      | none => "err"
      | some c =>
        match decodeU32 dlogKey (fun k => tbl[k]?) (fun n => (⟨n % ell⟩ : CSc) • G) c target with
        | some x => s!"some:{x}"
        | none => "none"
    | _, _ => "bad-op"
  | _ => "bad-op"

/-- parse the bincode `HashMap<[u8;32], u16>`: u64 count, then (32 key bytes, u16 LE) entries -/
def checkTableFile (tbl : Std.HashMap Nat Nat) (bytes : ByteArray) : String := Id.run do
  if bytes.size < 8 then return "mismatch:short"
  let n := (List.range 8).foldr (fun i acc => (bytes.get! i).toNat + 256 * acc) 0
  if n ≠ 65536 then return s!"mismatch:count={n}"
  if bytes.size ≠ 8 + 34 * n then return s!"mismatch:size={bytes.size}"
  let mut seen : Std.HashMap Nat Nat := {}
  for e in [0:n] do
    let off := 8 + 34 * e
    let key := (List.range 32).foldr (fun i acc => (bytes.get! (off + i)).toNat + 256 * acc) 0
    let v := (bytes.get! (off + 32)).toNat + 256 * (bytes.get! (off + 33)).toNat
    match tbl[key]? with
    | some h => if h ≠ v then return s!"mismatch:value@{e}"
    | none => return s!"mismatch:key@{e}"
    seen := seen.insert key v
  if seen.size ≠ 65536 then return s!"mismatch:distinct={seen.size}"
  return s!"ok:{n}"

end Zk.Driver

import ZkElGamal.Model.Decode
import ZkElGamal.Model.Text
import ZkElGamal.Driver.Sigma
import ZkElGamal.Model.Range
/-!
Driver ops for encryption objects (C08, C09, C11, C12):
  decode <codec> <hex>          → ok:<re-encoded hex> | err | P
  extract <n> <hex pod> <index> → ok:<hex> | err | P
  fromstr <codec> <hex utf8>    → ok:<hex> | err
  tostr <hex>                   → base64 text (hex of utf8)
  json <codec> <hex utf8>       → ok:<hex> | err
  tojson <hex>                  → text (hex)
  elg <op> …                    → result encodings
-/
namespace Zk.Driver
open Zk Zk.Conc

def outHex {α} (o : Outcome α) (f : α → Bytes) : String :=
  match o with
  | .ok a => s!"ok:{hexOut (f a)}"
  | .err => "err"
  | .panic => "P"

def encPt (P : CPt) : Bytes := PtCodec.enc P
def encSc (s : CSc) : Bytes := ScCodec.enc s

def decodeOp (codec : String) (b : Bytes) : String :=
  match codec with
  | "pubkey" | "cmt" | "handle" => outHex (decodePoint (Pt := CPt) b) encPt
  | "secret" | "opening" => outHex (decodeScalar (Sc := CSc) b) encSc
  | "keypair" => outHex (decodeKeypair (Sc := CSc) (Pt := CPt) b) (fun (P, s) => encPt P ++ encSc s)
  | "ct" => outHex (decodeCiphertext (Pt := CPt) b) Ct.enc
  | "gct0" => outHex (decodeGrouped (Pt := CPt) 0 b) GCt.enc
  | "gct1" => outHex (decodeGrouped (Pt := CPt) 1 b) GCt.enc
  | "gct2" => outHex (decodeGrouped (Pt := CPt) 2 b) GCt.enc
  | "gct3" => outHex (decodeGrouped (Pt := CPt) 3 b) GCt.enc
  | "aekey" => outHex (decodeAeKey b) id
  | "aect" => outHex (decodeAeCiphertext b) (fun (n, c) => n ++ c)
  | "rctx" =>
    -- the 264-byte context of the batched range proofs: decoded to (commitments, bit lengths) and re-encoded
    if b.length ≠ 264 then "err" else
    match Range.parseContext (Pt := CPt) b with
    | some (comms, bls) => if comms.length > 8 then "err" else s!"ok:{hexOut (Range.encodeContext comms bls)}"
    | none => "err"
  | _ => "bad-op"

/-- (byte length, max base64 length) of the Pod types with `FromStr` -/
def podSpec (codec : String) : Option (Nat × Nat) :=
  match codec with
  | "pubkey" => some (32, 44) | "ct" => some (64, 88) | "handle" => some (32, 44)
  | "cmt" => some (32, 44) | "gct2" => some (96, 132) | "gct3" => some (128, 176)
  | "aect" => some (36, 48)
  -- proof pod types: (byte length, length of the padded base64 text)
  | "p-zero" => some (96, 128) | "p-pubkey" => some (64, 88) | "p-ctct" => some (224, 300)
  | "p-ctcmt" => some (192, 256) | "p-val2" => some (160, 216) | "p-val3" => some (192, 256)
  | "p-bval2" => some (160, 216) | "p-bval3" => some (192, 256) | "p-cap" => some (256, 344)
  | "p-range64" => some (672, 896) | "p-range128" => some (736, 984) | "p-range256" => some (800, 1068)
  | _ => none

def opDecode (a : List String) : String :=
  match a with
  | [codec, h] => match ofHex h with
    | some b => decodeOp codec b
    | none => "bad-op"
  | _ => "bad-op"

def opExtract (a : List String) : String :=
  match a with
  | [n, h, i] =>
    match n.toNat?, ofHex h, i.toNat? with
    | some n, some b, some i =>
      if (n = 2 ∨ n = 3) ∧ b.length = 32 * (n + 1) then outHex (tryExtract b i) id else "bad-op"
    | _, _, _ => "bad-op"
  | _ => "bad-op"

def opFromStr (a : List String) : String :=
  match a with
  | [codec, h] =>
    match podSpec codec, ofHex h with
    | some (n, mx), some s => match Text.podFromStr n mx s with
      | some d => s!"ok:{hexOut d}"
      | none => "err"
    | _, _ => "bad-op"
  | _ => "bad-op"

def opToStr (a : List String) : String :=
  match a with
  | [_, h] => match ofHex h with
    | some b => hexOut (Text.b64Encode b)
    | none => "bad-op"
  | _ => "bad-op"

/-- JSON key files: the byte array is then handed to the corresponding `try_from` -/
def opJson (a : List String) : String :=
  match a with
  | [codec, h] =>
    match ofHex h with
    | some s =>
      match Text.jsonBytes s with
      | none => "err"
      | some b =>
        match codec with
        | "aekey" => if b.length = 16 then s!"ok:{hexOut b}" else "err"
        | _ => decodeOp codec b
    | none => "bad-op"
  | _ => "bad-op"

def opToJson (a : List String) : String :=
  match a with
  | [_, h] => match ofHex h with
    | some b => hexOut (Text.jsonOfBytes b)
    | none => "bad-op"
  | _ => "bad-op"

def ptArg (s : String) : Option CPt := ptOfHex s
def ctArg (c d : String) : Option (Ct CPt) := do
  let C ← ptOfHex c; let D ← ptOfHex d; pure ⟨C, D⟩

def u64Arg (s : String) : Option CSc := do
  let n ← s.toNat?
  if n < 2^64 then some (ScCodec.ofNat n) else none

def opElg (a : List String) : String :=
  let G : CPt := PedGens.G
  match a with
  | ["with", x, r] => match scOfHex x, scOfHex r with
    | some x, some r => hexOut (encPt (pedersenWith x r))
    | _, _ => "bad-op"
  | ["withu64", x, r] => match u64Arg x, scOfHex r with
    | some x, some r => hexOut (encPt (pedersenWith x r))
    | _, _ => "bad-op"
  | ["pubkey", s] => match scOfHex s with
    | some s => outHex (pubkeyNew (Pt := CPt) s) encPt
    | none => "bad-op"
  | ["enc", P, x, r] => match ptArg P, scOfHex x, scOfHex r with
    | some P, some x, some r => hexOut (encryptWith P x r).enc
    | _, _, _ => "bad-op"
  | ["encu64", P, x, r] => match ptArg P, u64Arg x, scOfHex r with
    | some P, some x, some r => hexOut (encryptWith P x r).enc
    | _, _, _ => "bad-op"
  | ["handle", P, r] => match ptArg P, scOfHex r with
    | some P, some r => hexOut (encPt (decryptHandle P r))
    | _, _ => "bad-op"
  | ["dec", s, c, d] => match scOfHex s, ctArg c d with
    | some s, some ct => hexOut (encPt (decryptTarget s ct))
    | _, _ => "bad-op"
  | ["dec32", s, c, d, k] =>
    -- `k` is the discrete log of the target known to the generator (hex scalar) or `?`
    match scOfHex s, ctArg c d with
    | some s, some ct =>
      let t := decryptTarget s ct
      if k == "?" then "none" else
      match scOfHex k with
      | some k => if t == k • G then (if k.v < 2^32 then s!"some:{k.v}" else "none") else "bad-oracle"
      | none => "bad-op"
    | _, _ => "bad-op"
  | ["op", ty, op, x, y] =>
    match ty, op with
    | "opn", "add" => match scOfHex x, scOfHex y with
      | some x, some y => hexOut (encSc (x + y)) | _, _ => "bad-op"
    | "opn", "sub" => match scOfHex x, scOfHex y with
      | some x, some y => hexOut (encSc (x - y)) | _, _ => "bad-op"
    | "opn", "mul" => match scOfHex x, scOfHex y with
      | some x, some y => hexOut (encSc (x * y)) | _, _ => "bad-op"
    | "ct", _ =>
      match ofHex x with
      | some xb =>
        match Ct.dec (Pt := CPt) xb with
        | some cx =>
          match op with
          | "mul" => match scOfHex y with
            | some k => hexOut (Ct.smul k cx).enc | none => "bad-op"
          | _ => match (ofHex y).bind (Ct.dec (Pt := CPt)) with
            | some cy => if op == "add" then hexOut (Ct.add cx cy).enc
                         else if op == "sub" then hexOut (Ct.sub cx cy).enc else "bad-op"
            | none => "bad-op"
        | none => "bad-op"
      | none => "bad-op"
    | _, _ =>   -- cmt / hdl : points
      match ptArg x with
      | some px =>
        match op with
        | "mul" => match scOfHex y with
          | some k => hexOut (encPt (k • px)) | none => "bad-op"
        | "add" => match ptArg y with
          | some py => hexOut (encPt (px + py)) | none => "bad-op"
        | "sub" => match ptArg y with
          | some py => hexOut (encPt (px - py)) | none => "bad-op"
        | _ => "bad-op"
      | none => "bad-op"
  | ["addamt", c, d, x] => match ctArg c d, scOfHex x with
    | some ct, some x => hexOut (Ct.addAmount ct x).enc | _, _ => "bad-op"
  | ["subamt", c, d, x] => match ctArg c d, scOfHex x with
    | some ct, some x => hexOut (Ct.subAmount ct x).enc | _, _ => "bad-op"
  | ["addamtu64", c, d, x] => match ctArg c d, u64Arg x with
    | some ct, some x => hexOut (Ct.addAmount ct x).enc | _, _ => "bad-op"
  | ["subamtu64", c, d, x] => match ctArg c d, u64Arg x with
    | some ct, some x => hexOut (Ct.subAmount ct x).enc | _, _ => "bad-op"
  | "grand" :: _ =>
    -- randomized grouped encryption (implementation-only opening): the specification is that every handle opens
    -- under its own key to the amount, whichever key objects coincide (theorem C09.grouped_decrypt)
    "ok"
  | "genc" :: x :: r :: keys =>
    match scOfHex x, scOfHex r, allSome (keys.map ptArg) with
    | some x, some r, some Ps => hexOut (groupedEncryptWith Ps x r).enc
    | _, _, _ => "bad-op"
  | ["gto", n, h, i] =>
    match n.toNat?, ofHex h, i.toNat? with
    | some n, some b, some i =>
      match GCt.dec (Pt := CPt) n b with
      | some g => match g.toElGamal i with
        | some ct => s!"ok:{hexOut ct.enc}"
        | none => "err"
      | none => "bad-op"
    | _, _, _ => "bad-op"
  | ["gdec", n, h, s, i] =>
    match n.toNat?, ofHex h, scOfHex s, i.toNat? with
    | some n, some b, some s, some i =>
      match GCt.dec (Pt := CPt) n b with
      | some g => match g.decryptTarget s i with
        | some t => s!"ok:{hexOut (encPt t)}"
        | none => "err"
      | none => "bad-op"
    | _, _, _, _ => "bad-op"
  | _ => "bad-op"

end Zk.Driver

import ZkElGamal.Model.Kdf
import ZkElGamal.Driver.Enc
/-!
Driver ops for key derivation (C14):
  kdf elgamal|ae sig <hex64>            → ok:<keypair 64 | key 16> | err
  kdf elgamal|ae seed <hex>             → ok:… | err
  kdf elgamal|ae signer <hex sig> <hex public seed> → ok:<key>:<message hex> | err   (recording signer)
-/
namespace Zk.Driver
open Zk Zk.Conc Zk.Kdf

def kpBytes (s : CSc) : String :=
  match pubkeyNew (Pt := CPt) s with
  | .ok P => s!"ok:{hexOut (encPt P ++ encSc s)}"
  | .err => "err"
  | .panic => "P"

def opKdf (a : List String) : String :=
  match a with
  | [ty, "sig", h] =>
    match ofHex h with
    | some sig =>
      if sig.length ≠ 64 then "bad-op" else
      if ty == "elgamal" then
        match elgamalSecretFromSignature (Sc := CSc) sha3_512 sig with
        | some s => kpBytes s
        | none => "err"
      else if ty == "ae" then
        match aeKeyFromSignature sha3_512 sig with
        | some k => s!"ok:{hexOut k}"
        | none => "err"
      else "bad-op"
    | none => "bad-op"
  | [ty, "seed", h] =>
    match ofHex h with
    | some seed =>
      if ty == "elgamal" then
        match elgamalSecretFromSeed (Sc := CSc) sha3_512 seed with
        | some s => kpBytes s
        | none => "err"
      else if ty == "ae" then
        match aeKeyFromSeed sha3_512 seed with
        | some k => s!"ok:{hexOut k}"
        | none => "err"
      else "bad-op"
    | none => "bad-op"
  | [ty, "seedzeros", n] =>
    -- a seed of `n` zero bytes, `n` possibly beyond 2^32: every length above the upper bound is refused on its
    -- length alone, so the model looks at min(n, 70000) bytes
    match n.toNat? with
    | some n =>
      let seed : Bytes := List.replicate (min n 70000) 0
      if ty == "elgamal" then
        match elgamalSecretFromSeed (Sc := CSc) sha3_512 seed with
        | some s => kpBytes s
        | none => "err"
      else if ty == "ae" then
        match aeKeyFromSeed sha3_512 seed with
        | some k => s!"ok:{hexOut k}"
        | none => "err"
      else "bad-op"
    | none => "bad-op"
  | [ty, "signer", sigh, seedh] =>
    match ofHex sigh, ofHex seedh with
    | some sig, some ps =>
      if sig.length ≠ 64 then "bad-op" else
      let pfx := if ty == "elgamal" then elgamalPrefix else aePrefix
      let msg := signMessage pfx ps
      match seedFromSigner sha3_512 sig with
      | none => "err"
      | some seed =>
        if ty == "elgamal" then
          match elgamalSecretFromSeed (Sc := CSc) sha3_512 seed with
          | some s => match pubkeyNew (Pt := CPt) s with
            | .ok P => s!"ok:{hexOut (encPt P ++ encSc s)}:{hexOut msg}"
            | _ => "err"
          | none => "err"
        else if ty == "ae" then
          match aeKeyFromSeed sha3_512 seed with
          | some k => s!"ok:{hexOut k}:{hexOut msg}"
          | none => "err"
        else "bad-op"
    | _, _ => "bad-op"
  -- real ed25519 signing and PBKDF2 are external: the implementation side emits the derived key
  -- together with the signature / PBKDF2 output, which both sides then derive from
  | [_, "keypair", _, _] => "emit:"
  | [_, "phrase", _, _] => "emit:"
  | _ => "bad-op"

end Zk.Driver

import ZkElGamal.Model.Range
import ZkElGamal.Driver.Sigma
/-!
Driver ops for the batched range-proof instructions:

  verify range{64,128,256} <hex ctx‖proof>                      → A | R       (via `verifyRange`)
  rnew   <width> <comms,…> <amounts,…> <bitlens,…> <openings,…> <seed>  → ok:<ctx hex> | err
  rprove <width> … same …                                        → emit:!A verify range<width> <hex> | err
  rmprove <exp|-> <width> <ctx hex 264> <bitlens,…> <bits:amounts,…|digits:sc,…> <openings,…> <seed> <tamper|->
                                                                 → emit:[!exp] verify range<width> <hex>
  gens <n>                                                       → hex of the first n G and H generators
-/
namespace Zk.Driver
open Zk Zk.Conc Zk.Range

/-- first `n` generators of the `G` and `H` chains -/
def concGens (n : Nat) : List CPt × List CPt :=
  (generatorsChain (ascii "G") n, generatorsChain (ascii "H") n)

def csv (s : String) : List String := if s == "-" then [] else s.splitOn ","

def seedScalar (seed : Bytes) (i : Nat) : CSc := ScCodec.wide (sha3_512 (seed ++ natLE i 4))

def noncesFromSeed (seed : Bytes) (nm : Nat) : Nonces CSc :=
  { aBlinding := seedScalar seed 0
    sL := (List.range nm).map fun i => seedScalar seed (10 + i)
    sR := (List.range nm).map fun i => seedScalar seed (10 + nm + i)
    sBlinding := seedScalar seed 1
    t1Blinding := seedScalar seed 2
    t2Blinding := seedScalar seed 3 }

def parseTamper (s : String) : Option (Tamper CSc CPt) :=
  (csv s).foldlM (fun (tm : Tamper CSc CPt) kv =>
    match kv.splitOn "=" with
    | [k, v] =>
      if k == "oA" then (ptOfHex v).map fun p => { tm with oA := p }
      else if k == "oS" then (ptOfHex v).map fun p => { tm with oS := p }
      else if k == "oT1" then (ptOfHex v).map fun p => { tm with oT1 := p }
      else if k == "oT2" then (ptOfHex v).map fun p => { tm with oT2 := p }
      else if k.startsWith "oL" then
        match (k.drop 2).toString.toNat?, ptOfHex v with
        | some i, some p => some { tm with oL := (List.range (max tm.oL.length (i + 1))).map fun j => if j = i then p else tm.oL.getD j 0 }
        | _, _ => none
      else if k.startsWith "oR" then
        match (k.drop 2).toString.toNat?, ptOfHex v with
        | some i, some p => some { tm with oR := (List.range (max tm.oR.length (i + 1))).map fun j => if j = i then p else tm.oR.getD j 0 }
        | _, _ => none
      else if k == "dTx" then (scOfHex v).map fun x => { tm with dTx := x }
      else if k == "dTxb" then (scOfHex v).map fun x => { tm with dTxBlinding := x }
      else if k == "dEb" then (scOfHex v).map fun x => { tm with dEBlinding := x }
      else if k == "dA" then (scOfHex v).map fun x => { tm with dA := x }
      else if k == "dB" then (scOfHex v).map fun x => { tm with dB := x }
      else if k.startsWith "z" then some tm      -- nonce modifier, see `applyNonceMods`
      else none
    | _ => none) Tamper.none

/-- degenerate nonce choices of an adversarial prover, given in the tamper string:
    `zsL=1` / `zsR=1` zero the vectors `s_L` / `s_R`, `zSb=1`, `zT1b=1`, `zT2b=1` zero the blinding of
    `S`, `T_1`, `T_2`, `zAb=1` that of `A` (with both vectors zero: `S`, `T_1`, `T_2` become the identity) -/
def applyNonceMods (s : String) (nz : Nonces CSc) : Nonces CSc :=
  (csv s).foldl (fun (nz : Nonces CSc) kv =>
    match kv.splitOn "=" with
    | [k, _] =>
      if k == "zsL" then { nz with sL := nz.sL.map fun _ => 0 }
      else if k == "zsR" then { nz with sR := nz.sR.map fun _ => 0 }
      else if k == "zSb" then { nz with sBlinding := 0 }
      else if k == "zT1b" then { nz with t1Blinding := 0 }
      else if k == "zT2b" then { nz with t2Blinding := 0 }
      else if k == "zAb" then { nz with aBlinding := 0 }
      else nz
    | _ => nz) nz

def widthOf (instr : String) : Option Nat :=
  match instr with
  | "range64" => some 64 | "range128" => some 128 | "range256" => some 256 | _ => none

def verifyRange (gens : Nat → List CPt × List CPt) (instr : String) (b : Bytes) : Option Bool :=
  (widthOf instr).map fun w => Range.verifyProof CSc CPt CT gens w b

/-- challenge trace of the range verifier on raw instruction bytes (same decoding steps as `verifyProof`) -/
def traceRange (instr : String) (b : Bytes) : Option (List (String × CSc)) := do
  let w ← widthOf instr
  if b.length ≠ 264 + proofLen w then none else
  let ctx := b.take 264
  let (_, bls) ← parseContext (Pt := CPt) ctx
  let pf ← parseProof (Sc := CSc) (Pt := CPt) (b.drop 264)
  challengeTrace (contextTranscript CT ctx) bls.sum pf

def opRnew (gens : Nat → List CPt × List CPt) (emit : Bool) (a : List String) : String :=
  match a with
  | [w, comms, amounts, bls, opens, seed] =>
    match w.toNat?, allSome ((csv comms).map ptOfHex), allSome ((csv amounts).map String.toNat?),
          allSome ((csv bls).map String.toNat?), allSome ((csv opens).map scOfHex), ofHex seed with
    | some w, some comms, some amounts, some bls, some opens, some seed =>
      match Range.new CT gens w comms amounts bls opens (noncesFromSeed seed bls.sum) with
      | some b => if emit then s!"emit:!A verify range{w} {hexOut b}" else s!"ok:{hexOut (b.take 264)}"
      | none => "err"
    | _, _, _, _, _, _ => "bad-op"
  | _ => "bad-op"

def opRmprove (gens : Nat → List CPt × List CPt) (a : List String) : String :=
  match a with
  | [exp, w, ctx, bls, digits, opens, seed, tamper] =>
    match w.toNat?, ofHex ctx, allSome ((csv bls).map String.toNat?), allSome ((csv opens).map scOfHex),
          ofHex seed, parseTamper tamper with
    | some w, some ctx, some bls, some opens, some seed, some tm =>
      let nm := bls.sum
      let aL : Option (List CSc) :=
        if digits.startsWith "bits:" then
          (allSome ((csv (digits.drop 5).toString).map String.toNat?)).map fun am => bitsOf am bls
        else if digits.startsWith "digits:" then allSome ((csv (digits.drop 7).toString).map scOfHex)
        else none
      match aL with
      | some aL =>
        if ctx.length ≠ 264 ∨ aL.length ≠ nm then "bad-op" else
        let g := gens nm
        let proof := Range.prove (contextTranscript CT ctx) g.1 g.2 bls aL opens (applyNonceMods tamper (noncesFromSeed seed nm)) tm
        let body := s!"verify range{w} {hexOut (ctx ++ proof)}"
        if exp == "-" then s!"emit:{body}" else s!"emit:!{exp} {body}"
      | none => "bad-op"
    | _, _, _, _, _, _ => "bad-op"
  | _ => "bad-op"

def opGens (gens : Nat → List CPt × List CPt) (a : List String) : String :=
  match a with
  | [n] => match n.toNat? with
    | some n =>
      let g := gens n
      hexOut (((g.1.take n).map (PtCodec.enc (Pt := CPt))).flatten ++ ((g.2.take n).map (PtCodec.enc (Pt := CPt))).flatten)
    | none => "bad-op"
  | _ => "bad-op"

end Zk.Driver

import ZkElGamal.Model.Secrets
/-!
Driver ops for C18:
  drop <type> <how> <hex>   → wiped      (model: run [create v, (clone), drop …] with zeroize-on-drop; every dropped region is zero)
  debug <type> <hex>        → text:<hex of `{:?}`> for the three single-field types, `clean` for the key pair
-/
namespace Zk.Driver
open Zk Zk.Secrets

def opDrop (a : List String) : String :=
  match a with
  | [_, how, h] =>
    match ofHex h with
    | some v =>
      let ops : List Op :=
        if how.startsWith "cloned" || how.startsWith "keypair-clone" then [.create v, .clone 0, .drop 1, .drop 0] else [.create v, .drop 0]
      let s := run true ops
      if s.all (fun r => !r.alive && r.bytes.all (· == 0)) then "wiped" else "leak"
    | none => "bad-op"
  | _ => "bad-op"

def opDebug (a : List String) : String :=
  match a with
  | [ty, _] =>
    if ty == "secret" then s!"text:{toHex (debugTuple b!"ElGamalSecretKey")}"
    else if ty == "opening" then s!"text:{toHex (debugTuple b!"PedersenOpening")}"
    else if ty == "aekey" then s!"text:{toHex (debugTuple b!"AeKey")}"
    else if ty == "keypair" then "clean"
    else "bad-op"
  | _ => "bad-op"

end Zk.Driver

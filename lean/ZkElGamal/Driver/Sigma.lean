import ZkElGamal.Model.Sigma
import ZkElGamal.Conc.Instances
/-!
Driver ops for the sigma-protocol instructions, at the concrete instantiation:

  verify <instr> <hex ctx‖proof>                 → A | R
  new    <instr> <witness…> <nonces…>            → ok:<hex ctx> | err      (constructor outcome + context bytes)
  prove  <instr> <witness…> <nonces…>            → emit:!A verify <instr> <hex> | err
  mprove <instr> <stmt/witness…> <nonces…> <offsets…>   → emit:verify <instr> <hex>
         (adversarial prover: masking commitments offset by the given points *before* the
          challenge is computed, so Fiat–Shamir stays consistent)
-/
namespace Zk.Driver
open Zk Zk.Conc Zk.Sigma

abbrev CSc := Zk.Conc.Sc
abbrev CPt := Zk.Conc.Pt
abbrev CT := Zk.Conc.Strobe

def scOfHex (s : String) : Option CSc := do
  let b ← ofHex s
  if b.length = 32 then some ⟨leNat b % ell⟩ else none

def ptOfHex (s : String) : Option CPt := do
  let b ← ofHex s
  PtCodec.dec b

def natOf (s : String) : Option Nat := s.toNat?

def hexOut (b : Bytes) : String := if b.isEmpty then "-" else toHex b

def verdict (b : Bool) : String := if b then "A" else "R"

/-- `verify <instr> <hex>` -/
def verifySigma (instr : String) (b : Bytes) : Option Bool :=
  match instr with
  | "zero" => some (ZeroCt.verifyProof CSc CPt CT b)
  | "pubkey" => some (PubkeyValidity.verifyProof CSc CPt CT b)
  | "ctct" => some (CtCtEq.verifyProof CSc CPt CT b)
  | "ctcmt" => some (CtCmtEq.verifyProof CSc CPt CT b)
  | "val2" => some (Validity.verifyProof CSc CPt CT 2 b)
  | "val3" => some (Validity.verifyProof CSc CPt CT 3 b)
  | "bval2" => some (BatchedValidity.verifyProof CSc CPt CT 2 b)
  | "bval3" => some (BatchedValidity.verifyProof CSc CPt CT 3 b)
  | "cap" => some (Cap.verifyProof CSc CPt CT b)
  | _ => none

/-- the Fiat–Shamir challenges the verifier draws for these bytes, with their labels, in drawing
    order (`none` when the bytes do not decode); computed with the model's own challenge functions -/
def traceSigma (instr : String) (b : Bytes) : Option (List (String × CSc)) :=
  match instr with
  | "zero" => (ZeroCt.parse (Sc := CSc) (Pt := CPt) b).map fun p =>
      let cw := ZeroCt.challenges CT p.P p.ct p.ypB p.ydB p.z
      [("c", cw.1), ("w", cw.2)]
  | "pubkey" => (PubkeyValidity.parse (Sc := CSc) (Pt := CPt) b).map fun p =>
      [("c", PubkeyValidity.challenge CSc CT p.P p.yB)]
  | "ctct" => (CtCtEq.parse (Sc := CSc) (Pt := CPt) b).map fun p =>
      let cw := CtCtEq.challenges CT p.P1 p.P2 p.ct1 p.ct2 p.y0B p.y1B p.y2B p.y3B p.zs p.zx p.zr
      [("c", cw.1), ("w", cw.2)]
  | "ctcmt" => (CtCmtEq.parse (Sc := CSc) (Pt := CPt) b).map fun p =>
      let cw := CtCmtEq.challenges CT p.P p.ct p.Cm p.y0B p.y1B p.y2B p.zs p.zx p.zr
      [("c", cw.1), ("w", cw.2)]
  | "val2" | "val3" =>
      let n := if instr == "val3" then 3 else 2
      (Validity.parse (Sc := CSc) (Pt := CPt) n b).map fun p =>
        let cw := Validity.challengesDirect n (Validity.transcript0 CT n p.Ps p.g) p.pf
        [("c", cw.1), ("w", cw.2)]
  | "bval2" | "bval3" =>
      let n := if instr == "bval3" then 3 else 2
      (BatchedValidity.parse (Sc := CSc) (Pt := CPt) n b).map fun p =>
        let tt := BatchedValidity.challengeT (Sc := CSc) CT n p.Ps p.lo p.hi
        let cw := Validity.challengesDirect n tt.2 p.pf
        [("t", tt.1), ("c", cw.1), ("w", cw.2)]
  | "cap" => (Cap.parse (Sc := CSc) (Pt := CPt) b).map fun p =>
      let cw := Cap.challenges CT p
      [("c", cw.1), ("w", cw.2)]
  | _ => none

def showTrace (tr : Option (List (String × CSc))) : String :=
  match tr with
  | none => ""
  | some l => " ~" ++ ",".intercalate (l.map fun (lab, s) => s!"{lab}={toHex (ScCodec.enc s)}")

def allSome {α} (l : List (Option α)) : Option (List α) := l.mapM id

/-- statement/witness arity of `new`/`prove` per instruction: (#scalars-or-points spec) is handled
    by explicit patterns below. Returns the full instruction bytes or `none` (= InconsistentInput),
    `Option (Option Bytes)`: outer none = bad op. -/
def newSigma (instr : String) (a : List String) : Option (Option Bytes) :=
  match instr, a with
  | "zero", [s, P, C, D, y] => do
    let s ← scOfHex s; let P ← ptOfHex P; let C ← ptOfHex C; let D ← ptOfHex D; let y ← scOfHex y
    pure (ZeroCt.new CT s P ⟨C, D⟩ y)
  | "pubkey", [s, P, y] => do
    let s ← scOfHex s; let P ← ptOfHex P; let y ← scOfHex y
    pure (PubkeyValidity.new CT s P y)
  | "ctct", [s, P1, P2, C1, D1, C2, D2, r, amt, ys, yx, yr] => do
    let s ← scOfHex s; let P1 ← ptOfHex P1; let P2 ← ptOfHex P2
    let C1 ← ptOfHex C1; let D1 ← ptOfHex D1; let C2 ← ptOfHex C2; let D2 ← ptOfHex D2
    let r ← scOfHex r; let amt ← natOf amt
    let ys ← scOfHex ys; let yx ← scOfHex yx; let yr ← scOfHex yr
    pure (CtCtEq.new CT s P1 P2 ⟨C1, D1⟩ ⟨C2, D2⟩ r amt ys yx yr)
  | "ctcmt", [s, P, C, D, Cm, r, amt, ys, yx, yr] => do
    let s ← scOfHex s; let P ← ptOfHex P; let C ← ptOfHex C; let D ← ptOfHex D; let Cm ← ptOfHex Cm
    let r ← scOfHex r; let amt ← natOf amt
    let ys ← scOfHex ys; let yx ← scOfHex yx; let yr ← scOfHex yr
    pure (CtCmtEq.new CT s P ⟨C, D⟩ Cm r amt ys yx yr)
  | "val2", [P1, P2, C, D1, D2, amt, r, yr, yx] => do
    let Ps ← allSome [ptOfHex P1, ptOfHex P2]
    let C ← ptOfHex C; let Ds ← allSome [ptOfHex D1, ptOfHex D2]
    let amt ← natOf amt; let r ← scOfHex r; let yr ← scOfHex yr; let yx ← scOfHex yx
    pure (Validity.new CT 2 Ps ⟨C, Ds⟩ amt r yr yx)
  | "val3", [P1, P2, P3, C, D1, D2, D3, amt, r, yr, yx] => do
    let Ps ← allSome [ptOfHex P1, ptOfHex P2, ptOfHex P3]
    let C ← ptOfHex C; let Ds ← allSome [ptOfHex D1, ptOfHex D2, ptOfHex D3]
    let amt ← natOf amt; let r ← scOfHex r; let yr ← scOfHex yr; let yx ← scOfHex yx
    pure (Validity.new CT 3 Ps ⟨C, Ds⟩ amt r yr yx)
  | "bval2", [P1, P2, Cl, D1l, D2l, Ch, D1h, D2h, al, ah, rl, rh, yr, yx] => do
    let Ps ← allSome [ptOfHex P1, ptOfHex P2]
    let Cl ← ptOfHex Cl; let Dl ← allSome [ptOfHex D1l, ptOfHex D2l]
    let Ch ← ptOfHex Ch; let Dh ← allSome [ptOfHex D1h, ptOfHex D2h]
    let al ← natOf al; let ah ← natOf ah; let rl ← scOfHex rl; let rh ← scOfHex rh
    let yr ← scOfHex yr; let yx ← scOfHex yx
    pure (BatchedValidity.new CT 2 Ps ⟨Cl, Dl⟩ ⟨Ch, Dh⟩ al ah rl rh yr yx)
  | "bval3", [P1, P2, P3, Cl, D1l, D2l, D3l, Ch, D1h, D2h, D3h, al, ah, rl, rh, yr, yx] => do
    let Ps ← allSome [ptOfHex P1, ptOfHex P2, ptOfHex P3]
    let Cl ← ptOfHex Cl; let Dl ← allSome [ptOfHex D1l, ptOfHex D2l, ptOfHex D3l]
    let Ch ← ptOfHex Ch; let Dh ← allSome [ptOfHex D1h, ptOfHex D2h, ptOfHex D3h]
    let al ← natOf al; let ah ← natOf ah; let rl ← scOfHex rl; let rh ← scOfHex rh
    let yr ← scOfHex yr; let yx ← scOfHex yx
    pure (BatchedValidity.new CT 3 Ps ⟨Cl, Dl⟩ ⟨Ch, Dh⟩ al ah rl rh yr yx)
  | "cap", [Cm, Cd, Cc, mx, pct, delta, rp, rd, rc, n0, n1, n2, n3, n4, n5, n6, n7, n8, n9] => do
    let Cm ← ptOfHex Cm; let Cd ← ptOfHex Cd; let Cc ← ptOfHex Cc
    let mx ← natOf mx; let pct ← natOf pct; let delta ← natOf delta
    let rp ← scOfHex rp; let rd ← scOfHex rd; let rc ← scOfHex rc
    let ns ← allSome ([n0, n1, n2, n3, n4, n5, n6, n7, n8, n9].map scOfHex)
    match ns with
    | [a0, a1, a2, a3, a4, a5, a6, a7, a8, a9] =>
      pure (Cap.new CT Cm Cd Cc mx pct delta rp rd rc ⟨a0, a1, a2, a3, a4, a5, a6, a7, a8, a9⟩)
    | _ => none
  | _, _ => none

/-- context length of each sigma instruction -/
def ctxLen (instr : String) : Nat :=
  match instr with
  | "zero" => 96 | "pubkey" => 32 | "ctct" => 192 | "ctcmt" => 128
  | "val2" => 160 | "val3" => 224 | "bval2" => 256 | "bval3" => 352 | "cap" => 104
  | _ => 0

/-! ### adversarial prover: explicit offsets on the masking commitments -/

/-- an offset argument: a point added to the honest masking commitment, or `raw:<hex>`, the 32 bytes to send
    (and to absorb) in its place — how an adversary puts a string that decodes to no group element there -/
def offOfHex (s : String) : Option (CPt ⊕ Bytes) :=
  if s.startsWith "raw:" then
    (ofHex (s.drop 4).toString).bind fun b => if b.length == 32 then some (.inr b) else none
  else (ptOfHex s).map .inl

def encY (l : List (CPt ⊕ Bytes)) (i : Nat) (p : CPt) : Bytes :=
  match l[i]? with
  | some (.inr b) => b
  | some (.inl q) => PtCodec.enc (p + q)
  | none => PtCodec.enc p

/-- `mprove` : statement points, witness scalars, nonces, then offsets (points) for each Y.
    The witness need not satisfy the statement. -/
def mproveSigma (instr : String) (a : List String) : Option Bytes :=
  let G : CPt := PedGens.G
  let H : CPt := PedGens.H
  match instr, a with
  | "zero", [s, P, C, D, y, o0, o1] => do
    let s ← scOfHex s; let P ← ptOfHex P; let C ← ptOfHex C; let D ← ptOfHex D; let y ← scOfHex y
    let o ← allSome [offOfHex o0, offOfHex o1]
    let ypB := encY o 0 (y • P); let ydB := encY o 1 (y • D)
    let c := (ZeroCt.challenges CT P ⟨C, D⟩ ypB ydB (0 : CSc)).1
    pure (PtCodec.enc P ++ PtCodec.enc C ++ PtCodec.enc D ++ ypB ++ ydB ++ ScCodec.enc (c * s + y))
  | "pubkey", [w, P, y, o0] => do
    -- `w` is the claimed s⁻¹ (so that any P can be paired with any witness)
    let w ← scOfHex w; let P ← ptOfHex P; let y ← scOfHex y; let o ← allSome [offOfHex o0]
    let yB := encY o 0 (y • H)
    let c := PubkeyValidity.challenge CSc CT P yB
    pure (PtCodec.enc P ++ yB ++ ScCodec.enc (c * w + y))
  | "ctct", [s, x, r, P1, P2, C1, D1, C2, D2, ys, yx, yr, o0, o1, o2, o3] => do
    let s ← scOfHex s; let x ← scOfHex x; let r ← scOfHex r
    let P1 ← ptOfHex P1; let P2 ← ptOfHex P2; let C1 ← ptOfHex C1; let D1 ← ptOfHex D1
    let C2 ← ptOfHex C2; let D2 ← ptOfHex D2
    let ys ← scOfHex ys; let yx ← scOfHex yx; let yr ← scOfHex yr
    let o ← allSome [offOfHex o0, offOfHex o1, offOfHex o2, offOfHex o3]
    let y0 := encY o 0 (ys • P1)
    let y1 := encY o 1 (yx • G + ys • D1)
    let y2 := encY o 2 (yx • G + yr • H)
    let y3 := encY o 3 (yr • P2)
    let c := (CtCtEq.challenges CT P1 P2 ⟨C1, D1⟩ ⟨C2, D2⟩ y0 y1 y2 y3 (0 : CSc) 0 0).1
    pure (PtCodec.enc P1 ++ PtCodec.enc P2 ++ PtCodec.enc C1 ++ PtCodec.enc D1 ++ PtCodec.enc C2 ++ PtCodec.enc D2 ++
          y0 ++ y1 ++ y2 ++ y3 ++ ScCodec.enc (c * s + ys) ++ ScCodec.enc (c * x + yx) ++ ScCodec.enc (c * r + yr))
  | "ctcmt", [s, x, r, P, C, D, Cm, ys, yx, yr, o0, o1, o2] => do
    let s ← scOfHex s; let x ← scOfHex x; let r ← scOfHex r
    let P ← ptOfHex P; let C ← ptOfHex C; let D ← ptOfHex D; let Cm ← ptOfHex Cm
    let ys ← scOfHex ys; let yx ← scOfHex yx; let yr ← scOfHex yr
    let o ← allSome [offOfHex o0, offOfHex o1, offOfHex o2]
    let y0 := encY o 0 (ys • P)
    let y1 := encY o 1 (yx • G + ys • D)
    let y2 := encY o 2 (yx • G + yr • H)
    let c := (CtCmtEq.challenges CT P ⟨C, D⟩ Cm y0 y1 y2 (0 : CSc) 0 0).1
    pure (PtCodec.enc P ++ PtCodec.enc C ++ PtCodec.enc D ++ PtCodec.enc Cm ++
          y0 ++ y1 ++ y2 ++ ScCodec.enc (c * s + ys) ++ ScCodec.enc (c * x + yx) ++ ScCodec.enc (c * r + yr))
  | "val2", x :: r :: P1 :: P2 :: C :: D1 :: D2 :: yr :: yx :: os => do
    let x ← scOfHex x; let r ← scOfHex r
    let Ps ← allSome [ptOfHex P1, ptOfHex P2]; let C ← ptOfHex C; let Ds ← allSome [ptOfHex D1, ptOfHex D2]
    let yr ← scOfHex yr; let yx ← scOfHex yx
    let o ← allSome (os.map offOfHex)
    let g : GCt CPt := ⟨C, Ds⟩
    let yBs := encY o 0 (yr • H + yx • G) ::
      (Ps.zipIdx.map fun (P, i) => encY o (i + 1) (yr • P))
    let t0 : CT := Validity.transcript0 CT 2 Ps g
    let c := (Validity.challengesDirect 2 t0 (⟨yBs, [], 0, 0⟩ : Validity.Proof CSc CPt)).1
    pure ((Ps.map PtCodec.enc).flatten ++ g.enc ++ yBs.flatten ++ ScCodec.enc (c * r + yr) ++ ScCodec.enc (c * x + yx))
  | "val3", x :: r :: P1 :: P2 :: P3 :: C :: D1 :: D2 :: D3 :: yr :: yx :: os => do
    let x ← scOfHex x; let r ← scOfHex r
    let Ps ← allSome [ptOfHex P1, ptOfHex P2, ptOfHex P3]; let C ← ptOfHex C
    let Ds ← allSome [ptOfHex D1, ptOfHex D2, ptOfHex D3]
    let yr ← scOfHex yr; let yx ← scOfHex yx
    let o ← allSome (os.map offOfHex)
    let g : GCt CPt := ⟨C, Ds⟩
    let yBs := encY o 0 (yr • H + yx • G) ::
      (Ps.zipIdx.map fun (P, i) => encY o (i + 1) (yr • P))
    let t0 : CT := Validity.transcript0 CT 3 Ps g
    let c := (Validity.challengesDirect 3 t0 (⟨yBs, [], 0, 0⟩ : Validity.Proof CSc CPt)).1
    pure ((Ps.map PtCodec.enc).flatten ++ g.enc ++ yBs.flatten ++ ScCodec.enc (c * r + yr) ++ ScCodec.enc (c * x + yx))
  | "bval2", xl :: xh :: rl :: rh :: P1 :: P2 :: Cl :: D1l :: D2l :: Ch :: D1h :: D2h :: yr :: yx :: os => do
    let xl ← scOfHex xl; let xh ← scOfHex xh; let rl ← scOfHex rl; let rh ← scOfHex rh
    let Ps ← allSome [ptOfHex P1, ptOfHex P2]
    let Cl ← ptOfHex Cl; let Dl ← allSome [ptOfHex D1l, ptOfHex D2l]
    let Ch ← ptOfHex Ch; let Dh ← allSome [ptOfHex D1h, ptOfHex D2h]
    let yr ← scOfHex yr; let yx ← scOfHex yx
    let o ← allSome (os.map offOfHex)
    let lo : GCt CPt := ⟨Cl, Dl⟩; let hi : GCt CPt := ⟨Ch, Dh⟩
    let tt := BatchedValidity.challengeT (Sc := CSc) CT 2 Ps lo hi
    let x := xl + xh * tt.1; let r := rl + rh * tt.1
    let yBs := encY o 0 (yr • H + yx • G) ::
      (Ps.zipIdx.map fun (P, i) => encY o (i + 1) (yr • P))
    let c := (Validity.challengesDirect 2 tt.2 (⟨yBs, [], 0, 0⟩ : Validity.Proof CSc CPt)).1
    pure ((Ps.map PtCodec.enc).flatten ++ lo.enc ++ hi.enc ++ yBs.flatten ++
          ScCodec.enc (c * r + yr) ++ ScCodec.enc (c * x + yx))
  | "bval3", xl :: xh :: rl :: rh :: P1 :: P2 :: P3 :: Cl :: D1l :: D2l :: D3l :: Ch :: D1h :: D2h :: D3h :: yr :: yx :: os => do
    let xl ← scOfHex xl; let xh ← scOfHex xh; let rl ← scOfHex rl; let rh ← scOfHex rh
    let Ps ← allSome [ptOfHex P1, ptOfHex P2, ptOfHex P3]
    let Cl ← ptOfHex Cl; let Dl ← allSome [ptOfHex D1l, ptOfHex D2l, ptOfHex D3l]
    let Ch ← ptOfHex Ch; let Dh ← allSome [ptOfHex D1h, ptOfHex D2h, ptOfHex D3h]
    let yr ← scOfHex yr; let yx ← scOfHex yx
    let o ← allSome (os.map offOfHex)
    let lo : GCt CPt := ⟨Cl, Dl⟩; let hi : GCt CPt := ⟨Ch, Dh⟩
    let tt := BatchedValidity.challengeT (Sc := CSc) CT 3 Ps lo hi
    let x := xl + xh * tt.1; let r := rl + rh * tt.1
    let yBs := encY o 0 (yr • H + yx • G) ::
      (Ps.zipIdx.map fun (P, i) => encY o (i + 1) (yr • P))
    let c := (Validity.challengesDirect 3 tt.2 (⟨yBs, [], 0, 0⟩ : Validity.Proof CSc CPt)).1
    pure ((Ps.map PtCodec.enc).flatten ++ lo.enc ++ hi.enc ++ yBs.flatten ++
          ScCodec.enc (c * r + yr) ++ ScCodec.enc (c * x + yx))
  | "cap", [branch, Cm, Cd, Cc, mx, w0, w1, w2, n0, n1, n2, n3, n4, o0, o1, o2] => do
    -- branch "max": real max proof with opening w0 (w1,w2 unused); equality simulated with n0..n3 = zx zd zc ceq, n4 = ym
    -- branch "eq" : real equality proof with x=w0, r_delta=w1, r_claimed=w2; max simulated with n0 n1 = zm cmax, n2..n4 = yx yd yc
    let Cm ← ptOfHex Cm; let Cd ← ptOfHex Cd; let Cc ← ptOfHex Cc; let mx ← natOf mx
    let w0 ← scOfHex w0; let w1 ← scOfHex w1; let w2 ← scOfHex w2
    let n ← allSome ([n0, n1, n2, n3, n4].map scOfHex)
    let o ← allSome [offOfHex o0, offOfHex o1, offOfHex o2]
    let m : CSc := ScCodec.ofNat mx
    let ctxB := PtCodec.enc Cm ++ PtCodec.enc Cd ++ PtCodec.enc Cc ++ natLE mx 8
    match branch, n with
    | "max", [zx, zd, zc, ceq, ym] =>
      let ydB := encY o 1 (zx • G + zd • H + (-ceq) • Cd)
      let ycB := encY o 2 (zx • G + zc • H + (-ceq) • Cc)
      let ymB := encY o 0 (ym • H)
      let c := (Cap.challengeC CSc CT Cm Cd Cc mx ymB ydB ycB).1
      let cmax := c - ceq
      pure (ctxB ++ Cap.encodeProof ymB (cmax * w0 + ym) cmax ydB ycB zx zd zc)
    | "eq", [zm, cmax, yx, yd, yc] =>
      let ymB := encY o 0 (zm • H + (-cmax) • Cm + (cmax * m) • G)
      let ydB := encY o 1 (yx • G + yd • H)
      let ycB := encY o 2 (yx • G + yc • H)
      let c := (Cap.challengeC CSc CT Cm Cd Cc mx ymB ydB ycB).1
      let ceq := c - cmax
      pure (ctxB ++ Cap.encodeProof ymB zm cmax ydB ycB (ceq * w0 + yx) (ceq * w1 + yd) (ceq * w2 + yc))
    | _, _ => none
  | _, _ => none

def opVerify (a : List String) : String :=
  match a with
  | [instr, h] =>
    match ofHex h with
    | some b => match verifySigma instr b with
      | some v => verdict v ++ showTrace (traceSigma instr b)
      | none => "bad-op"
    | none => "bad-op"
  | _ => "bad-op"

def opNew (a : List String) : String :=
  match a with
  | instr :: rest =>
    match newSigma instr rest with
    | some (some b) => s!"ok:{hexOut (b.take (ctxLen instr))}"
    | some none => "err"
    | none => "bad-op"
  | _ => "bad-op"

def opProve (a : List String) : String :=
  match a with
  | instr :: rest =>
    match newSigma instr rest with
    | some (some b) => s!"emit:!A verify {instr} {hexOut b}"
    | some none => "err"
    | none => "bad-op"
  | _ => "bad-op"

/-- scalars an adversary can compute from the instruction bytes *before* choosing its responses:
    functions of the challenge `c` (which does not depend on the responses) -/
def rhoOf (name : String) (c : CSc) : Option CSc :=
  match name with
  | "one" => some 1
  | "c" => some c
  | "cc" => some (c * c)
  | "ci" => some c⁻¹
  | "ccc" => some (c * c * c)
  | "cccc" => some (c * c * c * c)
  | "nc" => some (-c)
  | "ncc" => some (-(c * c))
  | "nccc" => some (-(c * c * c))
  -- `ρ·c/(1+ρ)` for ρ = c, −c, c², c⁻¹ : the response shift that makes two `G`-direction residuals
  -- `Δ•G` and `(Δ − c·m)•G` cancel under weights in ratio `1 : ρ` (times `m`, supplied as the coefficient)
  | "q:c" => some (c * c * (1 + c)⁻¹)
  | "q:nc" => some (-(c * c) * (1 - c)⁻¹)
  | "q:cc" => some (c * c * c * (1 + c * c)⁻¹)
  | "q:ci" => some (c * (c + 1)⁻¹)
  | "q:one" => some (c * ((1 : CSc) + 1)⁻¹)
  | _ => none

/-- `forge <exp|-> <instr> <hex> <off=k*rho,…>`: shift the response scalars at the given byte offsets by
    `k·ρ(c)` *after* the challenge `c` is known (it does not depend on the responses). A verifier whose
    batching weights have a ratio an adversary can predict from `c` accepts one of these. -/
def opForge (a : List String) : String :=
  match a with
  | [exp, instr, h, spec] =>
    match ofHex h with
    | none => "bad-op"
    | some b =>
      match (traceSigma instr b).bind (fun tr => (tr.find? (·.1 == "c")).map (·.2)) with
      | none => "bad-op"
      | some c =>
        let r : Option Bytes := (spec.splitOn ",").foldlM (fun (b : Bytes) item =>
          match item.splitOn "=" with
          | [off, rhs] =>
            match off.toNat?, rhs.splitOn "*" with
            | some off, [k, rho] =>
              match scOfHex k, rhoOf rho c, ScCodec.canon (Sc := CSc) (slice b off 32) with
              | some k, some rv, some z =>
                if off + 32 ≤ b.length then some (b.take off ++ ScCodec.enc (z + k * rv) ++ b.drop (off + 32)) else none
              | _, _, _ => none
            | _, _ => none
          | _ => none) b
        match r with
        | some b' => if exp == "-" then s!"emit:verify {instr} {hexOut b'}" else s!"emit:!{exp} verify {instr} {hexOut b'}"
        | none => "bad-op"
  | _ => "bad-op"

/-- `mprove <expect|-|F:spec> <instr> …` : the expectation (from the theorems) travels with the emitted op -/
def opMprove (a : List String) : String :=
  match a with
  | exp :: instr :: rest =>
    match mproveSigma instr rest with
    | some b =>
      if exp == "-" then s!"emit:verify {instr} {hexOut b}"
      else if exp.startsWith "F:" then s!"emit:forge R {instr} {hexOut b} {(exp.drop 2).toString}"
      else s!"emit:!{exp} verify {instr} {hexOut b}"
    | none => "bad-op"
  | _ => "bad-op"

end Zk.Driver

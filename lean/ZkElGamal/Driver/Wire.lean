import ZkElGamal.Model.Wire
/-! driver ops `ix` and `state` (C15, C16) -/
namespace Zk.Driver
open Zk Zk.Wire

def fmtIx (ix : Instruction) : String :=
  let accts := ix.accounts.map fun a =>
    s!"{toHex a.pubkey}:{if a.isSigner then 1 else 0}:{if a.isWritable then 1 else 0}"
  let hx (b : Bytes) := if b.isEmpty then "-" else toHex b
  s!"prog={hx ix.programId} accts={if accts.isEmpty then "-" else ",".intercalate accts} data={hx ix.data}"

def hx (b : Bytes) : String := if b.isEmpty then "-" else toHex b

def ctxOf (c a : String) : Option (Option (Bytes × Bytes)) :=
  if c == "-" then some none else do
    let x ← ofHex c; let y ← ofHex a
    if x.length = 32 ∧ y.length = 32 then pure (some (x, y)) else none

def addr (s : String) : Option Bytes := do
  let b ← ofHex s
  if b.length = 32 then some b else none

def opIx (a : List String) : String :=
  match a with
  | ["verify", vi, pti, data, c, au] =>
    match vi.toNat?, pti.toNat?, ofHex data, ctxOf c au with
    | some vi, some pti, some data, some ctx =>
      if vi < 13 ∧ dataSize? pti = some data.length then fmtIx (encodeVerifyProof vi ctx data) else "bad-op"
    | _, _, _, _ => "bad-op"
  | ["acct", vi, pa, off, c, au] =>
    match vi.toNat?, addr pa, off.toNat?, ctxOf c au with
    | some vi, some pa, some off, some ctx =>
      if vi < 13 ∧ off < 2^32 then fmtIx (encodeVerifyProofFromAccount vi ctx pa off) else "bad-op"
    | _, _, _, _ => "bad-op"
  | ["close", c, au, d] =>
    match addr c, addr au, addr d with
    | some c, some au, some d => fmtIx (closeContextState c au d)
    | _, _, _ => "bad-op"
  | ["fromprim", v] =>
    -- integer to variant: exactly 0..12 are instructions / proof types (the pinned index is the number itself)
    match v.toInt? with
    | some n => if 0 ≤ n ∧ n ≤ 12 then s!"{n}:{n}" else "none:none"
    | none => "bad-op"
  | ["type", h] =>
    match ofHex h with
    | some b => match instructionType b with
      | some n => s!"some:{n}"
      | none => "none"
    | none => "bad-op"
  | ["data", pti, h] =>
    match pti.toNat?, ofHex h with
    | some pti, some b =>
      match dataSize? pti with
      | some sz => match proofData sz b with
        | some d => s!"ok:{hx d}"
        | none => "none"
      | none => "bad-op"
    | _, _ => "bad-op"
  | _ => "bad-op"

def opState (a : List String) : String :=
  match a with
  | ["encode", pti, au, tb, ctx] =>
    match pti.toNat?, addr au, tb.toNat?, ofHex ctx with
    | some pti, some au, some tb, some ctx =>
      if tb < 13 ∧ contextSize? pti = some ctx.length then hx (encodeState au tb ctx) else "bad-op"
    | _, _, _, _ => "bad-op"
  | ["encodeg", kind, au, tb, ctx] =>
    -- the encoder is generic in the context type: for any plain-old-data context (whatever its alignment) the encoding
    -- is authority ‖ type byte ‖ context bytes, with no padding
    match addr au, tb.toNat?, ofHex ctx with
    | some au, some tb, some ctx =>
      let sz := match kind with | "u64" => 8 | "u32x3" => 12 | "u16x5" => 10 | "u8x7" => 7 | "u128" => 16 | _ => 0
      if tb < 13 ∧ sz ≠ 0 ∧ ctx.length = sz then hx (encodeState au tb ctx) else "bad-op"
    | _, _, _ => "bad-op"
  | ["decode", pti, h] =>
    match pti.toNat?, ofHex h with
    | some pti, some b =>
      match contextSize? pti with
      | some sz => match decodeState sz b with
        | some (au, t, ctx) => s!"ok:{hx au}:{hx [t]}:{hx ctx}"
        | none => "err"
      | none => "bad-op"
    | _, _ => "bad-op"
  | ["meta", h] =>
    match ofHex h with
    | some b => match decodeMeta b with
      | some (au, t) => s!"ok:{hx au}:{hx [t]}"
      | none => "err"
    | none => "bad-op"
  | ["ptype", b] =>
    match b.toNat? with
    | some b => if b < 256 then
        match proofTypeOfByte (UInt8.ofNat b) with
        | some n => s!"some:{n}"
        | none => "none"
      else "bad-op"
    | none => "bad-op"
  | _ => "bad-op"

end Zk.Driver

import ZkElGamal.Model.Bytes
/-!
AES-128-GCM-SIV (RFC 8452) with empty AAD, as used by `encryption/auth_encryption.rs`, generic
over the block cipher `E : key → block → block` and the universal hash `P : h → msg → 16 bytes`
(concretely AES-128 and POLYVAL). Plaintext: the amount as 8 little-endian bytes; ciphertext:
nonce(12) ‖ ct(8) ‖ tag(16).
-/
namespace Zk.AuthEnc

structure Prims where
  /-- block cipher -/
  E : Bytes → Bytes → Bytes
  /-- POLYVAL -/
  P : Bytes → Bytes → Bytes

def pad16 (b : Bytes) : Bytes := b ++ List.replicate ((16 - b.length % 16) % 16) 0

/-- RFC 8452 §4 key derivation: (message-authentication key, message-encryption key) -/
def deriveKeys (pr : Prims) (k nonce : Bytes) : Bytes × Bytes :=
  let blk (i : Nat) := (pr.E k (natLE i 4 ++ nonce)).take 8
  (blk 0 ++ blk 1, blk 2 ++ blk 3)

/-- the SIV tag of a plaintext -/
def tagOf (pr : Prims) (authK encK nonce pt : Bytes) : Bytes :=
  let lenBlock := natLE 0 8 ++ natLE (pt.length * 8) 8
  let s := pr.P authK (pad16 pt ++ lenBlock)
  let s := xorBytes (s.take 12) nonce ++ s.drop 12
  let s := s.take 15 ++ [(s.getD 15 0) &&& 0x7f]
  pr.E encK s

/-- AES-CTR keystream with the 32-bit little-endian counter in the first 4 bytes -/
def keystream (pr : Prims) (encK tag : Bytes) (nblk : Nat) : Bytes :=
  let init := tag.take 15 ++ [(tag.getD 15 0) ||| 0x80]
  (List.range nblk).flatMap fun i =>
    let c := (leNat (init.take 4) + i) % 2^32
    pr.E encK (natLE c 4 ++ init.drop 4)

def ctr (pr : Prims) (encK tag data : Bytes) : Bytes :=
  xorBytes data (keystream pr encK tag ((data.length + 15) / 16))

/-- `Aes128GcmSiv::encrypt(nonce, pt)` : ct ‖ tag -/
def sealBox (pr : Prims) (k nonce pt : Bytes) : Bytes :=
  let ks := deriveKeys pr k nonce
  let tag := tagOf pr ks.1 ks.2 nonce pt
  ctr pr ks.2 tag pt ++ tag

/-- `Aes128GcmSiv::decrypt(nonce, ct‖tag)` -/
def openBox (pr : Prims) (k nonce ct : Bytes) : Option Bytes :=
  if ct.length < 16 then none else
  let ks := deriveKeys pr k nonce
  let body := ct.take (ct.length - 16)
  let tag := ct.drop (ct.length - 16)
  let pt := ctr pr ks.2 tag body
  if tagOf pr ks.1 ks.2 nonce pt == tag then some pt else none

/-- `AeKey::encrypt(amount)` with explicit nonce: the 36 bytes `nonce ‖ ct ‖ tag` -/
def encryptAmount (pr : Prims) (key nonce : Bytes) (amount : Nat) : Bytes :=
  nonce ++ sealBox pr key nonce (natLE amount 8)

/-- `AeCiphertext::decrypt(key)` on the 36 bytes -/
def decryptAmount (pr : Prims) (key ct36 : Bytes) : Option Nat :=
  if ct36.length ≠ 36 then none else
  match openBox pr key (ct36.take 12) (ct36.drop 12) with
  | some pt => if pt.length = 8 then some (leNat pt) else none
  | none => none

end Zk.AuthEnc

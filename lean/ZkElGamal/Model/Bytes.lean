/-!
Byte strings of the model: `List UInt8`, little-endian integers, Rust-like slicing, hex.
Core Lean only (this file is linked into the `zkmodel` executable).
-/
namespace Zk

abbrev Bytes := List UInt8

/-- `b[i .. i+n]` clipped (the callers check lengths first, as the Rust does). -/
def slice (b : Bytes) (i n : Nat) : Bytes := (b.drop i).take n

def zero32 : Bytes := List.replicate 32 0

/-- little-endian bytes → Nat -/
def leNat (b : Bytes) : Nat := b.foldr (fun x acc => x.toNat + 256 * acc) 0

/-- Nat → `k` little-endian bytes (truncating) -/
def natLE (n : Nat) : Nat → Bytes
  | 0 => []
  | k+1 => UInt8.ofNat (n % 256) :: natLE (n / 256) k

/-- big-endian variants (only used by the AES-GCM-SIV model for nothing but tests) -/
def natBE (n k : Nat) : Bytes := (natLE n k).reverse

@[simp] theorem natLE_length (n k : Nat) : (natLE n k).length = k := by
  induction k generalizing n with
  | zero => rfl
  | succ k ih => simp [natLE, ih]

theorem slice_length (b : Bytes) (i n : Nat) (h : i + n ≤ b.length) : (slice b i n).length = n := by
  simp [slice]; omega

def hexDigit (n : Nat) : Char := if n < 10 then Char.ofNat (48 + n) else Char.ofNat (87 + n)

def toHex (b : Bytes) : String :=
  String.ofList (b.flatMap fun x => [hexDigit (x.toNat / 16), hexDigit (x.toNat % 16)])

def hexVal (c : Char) : Option Nat :=
  if '0' ≤ c ∧ c ≤ '9' then some (c.toNat - 48)
  else if 'a' ≤ c ∧ c ≤ 'f' then some (c.toNat - 87)
  else if 'A' ≤ c ∧ c ≤ 'F' then some (c.toNat - 55)
  else none

def ofHexChars : List Char → Option Bytes
  | [] => some []
  | [_] => none
  | a :: b :: rest => do
    let x ← hexVal a
    let y ← hexVal b
    let r ← ofHexChars rest
    pure (UInt8.ofNat (16 * x + y) :: r)

/-- `-` stands for the empty byte string in the line protocol -/
def ofHex (s : String) : Option Bytes :=
  if s == "-" then some [] else ofHexChars s.toList

def xorBytes (a b : Bytes) : Bytes := List.zipWith (· ^^^ ·) a b

/-- ASCII string → bytes. (Kernel-reducible for ASCII literals, unlike `String.toUTF8`.) -/
def ascii (s : String) : Bytes := s.toList.map fun c => UInt8.ofNat c.toNat

end Zk

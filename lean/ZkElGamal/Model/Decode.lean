import ZkElGamal.Model.ElGamal
/-!
Decoders of untrusted bytes (`from_bytes` / `TryFrom<&[u8]>` of keys, ciphertexts,
commitments, openings, handles; Pod extraction by index) with Rust's partial
operations explicit: an outcome is `ok a`, `err` (the `Err`/`None` the API documents)
or `panic` (what an `unwrap`, `assert!`, out-of-range slice or overflow would do).
C08 proves `≠ panic` for every input; C12 reads the `ok` results.
-/
namespace Zk

inductive Outcome (α : Type) where
  | ok : α → Outcome α
  | err : Outcome α
  | panic : Outcome α
deriving Repr, DecidableEq

namespace Outcome
@[inline] def bind {α β} (x : Outcome α) (f : α → Outcome β) : Outcome β :=
  match x with | .ok a => f a | .err => .err | .panic => .panic
instance : Monad Outcome where
  pure := .ok
  bind := Outcome.bind
def ofOption {α} : Option α → Outcome α
  | some a => .ok a
  | none => .err
def isPanic {α} : Outcome α → Bool
  | .panic => true
  | _ => false
end Outcome

/-! Rust's partial primitives -/
/-- `&b[i..j]` : panics unless `i ≤ j ≤ len` -/
def rsSlice (b : Bytes) (i j : Nat) : Outcome Bytes :=
  if i ≤ j ∧ j ≤ b.length then .ok ((b.drop i).take (j - i)) else .panic
/-- `usize::checked_mul` / `checked_add` -/
def checkedMul (a b : Nat) : Option Nat := if a * b < 2 ^ 64 then some (a * b) else none
def checkedAdd (a b : Nat) : Option Nat := if a + b < 2 ^ 64 then some (a + b) else none
/-- `slice.get(i..j)` -/
def sliceGet (b : Bytes) (i j : Nat) : Option Bytes :=
  if i ≤ j ∧ j ≤ b.length then some ((b.drop i).take (j - i)) else none

section
variable {Sc Pt : Type}
  [Add Sc] [Mul Sc] [Neg Sc] [Sub Sc] [Zero Sc] [One Sc] [Inv Sc] [BEq Sc]
  [Add Pt] [Neg Pt] [Sub Pt] [Zero Pt] [SMul Sc Pt] [BEq Pt]
  [PtCodec Pt] [ScCodec Sc] [PedGens Pt]

/-- `ElGamalPubkey::try_from(&[u8])`, `PedersenCommitment::from_bytes`, `DecryptHandle::from_bytes` -/
def decodePoint (b : Bytes) : Outcome Pt :=
  if b.length ≠ 32 then .err else Outcome.ofOption (PtCodec.dec b)

/-- `ElGamalSecretKey::try_from(&[u8])`, `PedersenOpening::from_bytes` -/
def decodeScalar (b : Bytes) : Outcome Sc :=
  if b.length ≠ 32 then .err else Outcome.ofOption (ScCodec.canon b)

/-- `ElGamalPubkey::new(secret)` : `assert!(s != 0)` -/
def pubkeyNew (s : Sc) : Outcome Pt := if s == 0 then .panic else .ok (pubkeyOf s)

/-- `ElGamalKeypair::try_from(&[u8])` (with the repair of finding F1: a zero secret scalar is
    rejected before the public key is derived) -/
def decodeKeypair (b : Bytes) : Outcome (Pt × Sc) :=
  if b.length ≠ 64 then .err else do
    let pb ← rsSlice b 0 32
    let P ← decodePoint (Pt := Pt) pb
    let sb ← rsSlice b 32 b.length
    let s ← decodeScalar (Sc := Sc) sb
    if s == 0 then .err else do
      let P' ← pubkeyNew (Pt := Pt) s
      if P == P' then .ok (P, s) else .err

/-- the same function *before* the repair (used to state finding F1) -/
def decodeKeypairUnfixed (b : Bytes) : Outcome (Pt × Sc) :=
  if b.length ≠ 64 then .err else do
    let pb ← rsSlice b 0 32
    let P ← decodePoint (Pt := Pt) pb
    let sb ← rsSlice b 32 b.length
    let s ← decodeScalar (Sc := Sc) sb
    let P' ← pubkeyNew (Pt := Pt) s
    if P == P' then .ok (P, s) else .err

/-- `ElGamalCiphertext::from_bytes` -/
def decodeCiphertext (b : Bytes) : Outcome (Ct Pt) :=
  if b.length ≠ 64 then .err else do
    let cb ← rsSlice b 0 32
    let C ← decodePoint (Pt := Pt) cb
    let db ← rsSlice b 32 b.length
    let D ← decodePoint (Pt := Pt) db
    .ok ⟨C, D⟩

/-- the loop over `bytes.chunks(32)` after the commitment -/
def decodeHandles (b : Bytes) : Nat → Outcome (List Pt)
  | 0 => .ok []
  | n+1 => do
    let hb ← rsSlice b 0 32
    let D ← decodePoint (Pt := Pt) hb
    let rest ← decodeHandles (b.drop 32) n
    .ok (D :: rest)

/-- `GroupedElGamalCiphertext::<N>::from_bytes` -/
def decodeGrouped (n : Nat) (b : Bytes) : Outcome (GCt Pt) :=
  match (checkedAdd n 1).bind (fun l => checkedMul l 32) with
  | none => .panic                           -- `expected_byte_length().unwrap()`
  | some len =>
    if b.length ≠ len then .err else do
      let cb ← rsSlice b 0 32
      let C ← decodePoint (Pt := Pt) cb
      let Ds ← decodeHandles (Pt := Pt) (b.drop 32) n
      if Ds.length = n then .ok ⟨C, Ds⟩ else .panic   -- `handles.try_into().unwrap()`

end

/-- `PodGroupedElGamalCiphertext{2,3}Handles::try_extract_ciphertext(index)` on the `32(n+1)` pod bytes -/
def tryExtract (pod : Bytes) (index : Nat) : Outcome Bytes :=
  match (checkedMul 32 index).bind (fun k => checkedAdd k 32) with
  | none => .err
  | some start =>
    match checkedAdd start 32 with
    | none => .err
    | some stop =>
      match rsSlice pod 0 32 with            -- `self.0[..PEDERSEN_COMMITMENT_LEN]`
      | .ok c =>
        match sliceGet pod start stop with
        | some h => .ok (c ++ h)
        | none => .err
      | .err => .err
      | .panic => .panic

/-- `AeKey::try_from(&[u8])` -/
def decodeAeKey (b : Bytes) : Outcome Bytes := if b.length ≠ 16 then .err else .ok b

/-- `AeCiphertext::from_bytes` : (nonce, ciphertext) -/
def decodeAeCiphertext (b : Bytes) : Outcome (Bytes × Bytes) :=
  if b.length ≠ 36 then .err else do
    let n ← rsSlice b 0 12
    let c ← rsSlice b 12 b.length
    .ok (n, c)

end Zk

import ZkElGamal.Model.Prims
/-!
32-bit discrete-log decoding (`encryption/discrete_log.rs`): baby-step giant-step with a
precomputed table `compress(2¹⁷·h·G) ↦ h` (`h < 2¹⁶`), the online phase iterating
`target − j·G`, batching of compressions, optional fan-out over threads.

Generic over the point type; `key : Pt → K` stands for `double_and_compress` (the table key of
`2·P`) and `table : K → Option Nat` for the precomputed hash map. Threads are modelled as the
list of per-thread results in spawn order (no shared mutable state in the Rust), joined by
"first `Some` in spawn order".
-/
namespace Zk.DiscreteLog

section
variable {Pt K : Type} [Add Pt] [Neg Pt] [Sub Pt] [Zero Pt] [BEq Pt]

/-- `RistrettoIterator`: `(start, i₀), (start + step, i₀ + di), …` — the first `n` items -/
def iterate (start : Pt) (i0 : Nat) (step : Pt) (di : Nat) : Nat → List (Pt × Nat)
  | 0 => []
  | n+1 => (start, i0) :: iterate (start + step) (i0 + di) step di n

/-- `itertools::chunks(size)` of a list (`size ≥ 1`) -/
def chunks {α} (size : Nat) : Nat → List α → List (List α)
  | 0, _ => []
  | fuel+1, l => if l.isEmpty then [] else l.take size :: chunks size fuel (l.drop size)

/-- one batch of `decode_range`: identity points are answered directly (and filtered out), the others
    are looked up by the key of their double; later matches overwrite earlier ones -/
def decodeBatch (key : Pt → K) (table : K → Option Nat) (decoded : Option Nat) (batch : List (Pt × Nat)) :
    Option Nat :=
  let d1 := batch.foldl (fun d (pi : Pt × Nat) => if pi.1 == 0 then some pi.2 else d) decoded
  (batch.filter fun pi => !(pi.1 == 0)).foldl
    (fun d (pi : Pt × Nat) => ((table (key pi.1)).map fun xhi => pi.2 + 65536 * xhi) <|> d) d1

/-- `DiscreteLog::decode_range(iterator, range_bound, compression_batch_size)` -/
def decodeRange (key : Pt → K) (table : K → Option Nat) (start : Pt) (i0 : Nat) (step : Pt) (di : Nat)
    (rangeBound batchSize : Nat) : Option Nat :=
  let items := iterate start i0 step di rangeBound
  (chunks batchSize (rangeBound + 1) items).foldl (decodeBatch key table) none

/-- configuration: `num_threads` (if set) and `compression_batch_size` -/
structure Config where
  numThreads : Option Nat
  batchSize : Nat

def defaultConfig : Config := ⟨none, 32⟩

def isPow2 (n : Nat) : Bool := n != 0 && (n &&& (n - 1)) == 0

/-- `DiscreteLog::num_threads(n)` (`n : NonZeroUsize`): refused unless a power of two ≤ 65536 -/
def setNumThreads (c : Config) (n : Nat) : Option Config :=
  if !isPow2 n || n > 65536 then none else some { c with numThreads := some n }

/-- `DiscreteLog::set_compression_batch_size(b)` (`b : NonZeroUsize`): refused for `b ≥ 2¹⁶` -/
def setBatchSize (c : Config) (b : Nat) : Option Config :=
  if b = 0 ∨ b ≥ 65536 then none else some { c with batchSize := b }

/-- `DiscreteLog::decode_u32`; `stepPoint n` is `Scalar::from(n) * G` -/
def decodeU32 (key : Pt → K) (table : K → Option Nat) (stepPoint : Nat → Pt) (c : Config) (target : Pt) :
    Option Nat :=
  match c.numThreads with
  | none => decodeRange key table target 0 (-(stepPoint 1)) 1 65536 c.batchSize
  | some nt =>
    let rb := 65536 / nt
    let results := (List.range nt).map fun i =>
      decodeRange key table (target - stepPoint i) i (-(stepPoint nt)) nt rb c.batchSize
    (results.find? Option.isSome).join

end
end Zk.DiscreteLog

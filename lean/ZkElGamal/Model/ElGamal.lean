import ZkElGamal.Model.Prims
/-!
Pedersen commitments, twisted ElGamal and grouped ElGamal (`encryption/pedersen.rs`,
`elgamal.rs`, `grouped_elgamal.rs`), generic over scalars and points.
Commitments, handles and public keys are points; openings and secret keys are scalars.
-/
namespace Zk

section
variable {Sc Pt : Type}

/-- ElGamal ciphertext: Pedersen commitment and decrypt handle -/
structure Ct (Pt : Type) where
  C : Pt
  D : Pt

/-- grouped ElGamal ciphertext: commitment and one handle per key -/
structure GCt (Pt : Type) where
  C : Pt
  Ds : List Pt

variable [Add Sc] [Mul Sc] [Neg Sc] [Sub Sc] [Zero Sc] [One Sc] [Inv Sc]
  [Add Pt] [Neg Pt] [Sub Pt] [Zero Pt] [SMul Sc Pt] [PedGens Pt]

/-- `Pedersen::with(amount, opening)` = `multiscalar_mul([x, r], [G, H])` -/
def pedersenWith (x r : Sc) : Pt := msm [x, r] [(PedGens.G : Pt), PedGens.H]

/-- `ElGamalPubkey::new(secret)` = `s⁻¹ · H` (the Rust asserts `s ≠ 0`) -/
def pubkeyOf (s : Sc) : Pt := s⁻¹ • (PedGens.H : Pt)

/-- `DecryptHandle::new(pubkey, opening)` -/
def decryptHandle (P : Pt) (r : Sc) : Pt := r • P

/-- `ElGamal::encrypt_with` -/
def encryptWith (P : Pt) (x r : Sc) : Ct Pt := ⟨pedersenWith x r, decryptHandle P r⟩

/-- `ElGamal::decrypt(secret, ct).target` = `C − s·D` -/
def decryptTarget (s : Sc) (ct : Ct Pt) : Pt := ct.C - s • ct.D

/-- `GroupedElGamal::encrypt_with` -/
def groupedEncryptWith (Ps : List Pt) (x r : Sc) : GCt Pt :=
  ⟨pedersenWith x r, Ps.map fun P => decryptHandle P r⟩

/-- `GroupedElGamalCiphertext::to_elgamal_ciphertext(index)` -/
def GCt.toElGamal (g : GCt Pt) (i : Nat) : Option (Ct Pt) :=
  (g.Ds[i]?).map fun D => ⟨g.C, D⟩

/-- `GroupedElGamalCiphertext::decrypt(secret, index).target` -/
def GCt.decryptTarget (g : GCt Pt) (s : Sc) (i : Nat) : Option Pt :=
  (g.toElGamal i).map (Zk.decryptTarget s)

/-! homomorphic operations (every owned/borrowed Rust variant delegates to these) -/
def Ct.add (a b : Ct Pt) : Ct Pt := ⟨a.C + b.C, a.D + b.D⟩
def Ct.sub (a b : Ct Pt) : Ct Pt := ⟨a.C - b.C, a.D - b.D⟩
def Ct.smul (k : Sc) (a : Ct Pt) : Ct Pt := ⟨k • a.C, k • a.D⟩
/-- `add_amount` : commitment + amount·G, handle unchanged -/
def Ct.addAmount (a : Ct Pt) (x : Sc) : Ct Pt := ⟨a.C + x • (PedGens.G : Pt), a.D⟩
def Ct.subAmount (a : Ct Pt) (x : Sc) : Ct Pt := ⟨a.C - x • (PedGens.G : Pt), a.D⟩

variable [PtCodec Pt]

/-- `ElGamalCiphertext::to_bytes` -/
def Ct.enc (ct : Ct Pt) : Bytes := PtCodec.enc ct.C ++ PtCodec.enc ct.D

/-- `GroupedElGamalCiphertext::to_bytes` -/
def GCt.enc (g : GCt Pt) : Bytes := PtCodec.enc g.C ++ (g.Ds.map PtCodec.enc).flatten

/-- `ElGamalCiphertext::from_bytes` (exactly 64 bytes) -/
def Ct.dec (b : Bytes) : Option (Ct Pt) :=
  if b.length ≠ 64 then none else do
    let C ← PtCodec.dec (slice b 0 32)
    let D ← PtCodec.dec (slice b 32 32)
    pure ⟨C, D⟩

/-- decode `n` consecutive 32-byte points starting at `off` -/
def decPts (b : Bytes) (off : Nat) : Nat → Option (List Pt)
  | 0 => some []
  | n+1 => do
    let P ← PtCodec.dec (slice b off 32)
    let rest ← decPts b (off + 32) n
    pure (P :: rest)

/-- `GroupedElGamalCiphertext::<N>::from_bytes` (exactly 32·(N+1) bytes) -/
def GCt.dec (n : Nat) (b : Bytes) : Option (GCt Pt) :=
  if b.length ≠ 32 * (n + 1) then none else do
    let C ← PtCodec.dec (slice b 0 32)
    let Ds ← decPts b 32 n
    pure ⟨C, Ds⟩

end
end Zk

import ZkElGamal.Model.ElGamal
/-!
Key derivation (`ElGamalSecretKey::{seed_from_signer, seed_from_signature, from_seed}`,
`ElGamalKeypair::new`, `AeKey::{seed_from_signer, seed_from_signature, from_seed}`), generic over
the hash `h512 : Bytes → Bytes` (concretely SHA3-512) and the scalar/point types.
-/
namespace Zk.Kdf

/-- type-specific prefixes of the message a signer is asked to sign -/
def elgamalPrefix : Bytes := b!"ElGamalSecretKey"
def aePrefix : Bytes := b!"AeKey"

/-- the message handed to `Signer::try_sign_message` -/
def signMessage (pfx publicSeed : Bytes) : Bytes := pfx ++ publicSeed

/-- `seed_from_signature` : SHA3-512 of the 64 signature bytes -/
def seedFromSignature (h512 : Bytes → Bytes) (sig : Bytes) : Bytes := h512 sig

/-- `seed_from_signer` : refuses the all-zero (default) signature -/
def seedFromSigner (h512 : Bytes → Bytes) (sig : Bytes) : Option Bytes :=
  if sig == List.replicate 64 0 then none else some (seedFromSignature h512 sig)

section
variable {Sc Pt : Type} [ScCodec Sc]

/-- `ElGamalSecretKey::from_seed` : 32 ≤ len ≤ 65535, scalar = wide-reduce(SHA3-512(seed)) -/
def elgamalSecretFromSeed (h512 : Bytes → Bytes) (seed : Bytes) : Option Sc :=
  if seed.length < 32 then none
  else if seed.length > 65535 then none
  else some (ScCodec.wide (h512 seed))

/-- `AeKey::from_seed` : 16 ≤ len ≤ 65535, key = first 16 bytes of SHA3-512(seed) -/
def aeKeyFromSeed (h512 : Bytes → Bytes) (seed : Bytes) : Option Bytes :=
  if seed.length < 16 then none
  else if seed.length > 65535 then none
  else some ((h512 seed).take 16)

/-- `ElGamalSecretKey::new_from_signature` -/
def elgamalSecretFromSignature (h512 : Bytes → Bytes) (sig : Bytes) : Option Sc :=
  elgamalSecretFromSeed h512 (seedFromSignature h512 sig)

def aeKeyFromSignature (h512 : Bytes → Bytes) (sig : Bytes) : Option Bytes :=
  aeKeyFromSeed h512 (seedFromSignature h512 sig)

end
end Zk.Kdf

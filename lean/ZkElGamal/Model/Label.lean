import ZkElGamal.Model.Bytes
/-!
`b!"text"` : a byte-list literal built at elaboration time, so that labels are
explicit `List UInt8` terms that the kernel can compare (`String.toUTF8` does not
kernel-reduce).
-/
open Lean in
macro:max "b!" s:str : term => do
  let bytes := s.getString.toUTF8.toList
  let elems ← bytes.mapM fun b => `(($(quote b.toNat) : UInt8))
  `(([$(elems.toArray),*] : List UInt8))

example : b!"ab" = [97, 98] := by decide

import ZkElGamal.Model.Label
/-!
The interface the generic model is written against. Only core notation classes
(`Add Mul Neg Sub Inv Zero One SMul BEq`) plus the small codec / transcript
classes below, so that the *same definitions* are executed by the `zkmodel`
driver (concrete Ristretto255 / Merlin instances) and reasoned about in the
proof files (`[Field F] [AddCommGroup G] [Module F G]`).
-/
namespace Zk

/-- 32-byte point codec (`CompressedRistretto::from_slice` + `decompress`, `compress`). -/
class PtCodec (Pt : Type) where
  dec : Bytes → Option Pt
  enc : Pt → Bytes

/-- scalar codec -/
class ScCodec (Sc : Type) where
  /-- `Scalar::from_canonical_bytes` (on exactly 32 bytes) -/
  canon : Bytes → Option Sc
  /-- `Scalar::from_bytes_mod_order_wide` (64 bytes) -/
  wide : Bytes → Sc
  /-- `Scalar::as_bytes` -/
  enc : Sc → Bytes
  /-- `Scalar::from(u64)` (and smaller unsigned types) -/
  ofNat : Nat → Sc

/-- the two Pedersen generators -/
class PedGens (Pt : Type) where
  G : Pt
  H : Pt

/-- Merlin transcript interface -/
class TranscriptOps (T : Type) where
  /-- `merlin::Transcript::new(label)` -/
  init : Bytes → T
  /-- `append_message(label, msg)` -/
  append : T → Bytes → Bytes → T
  /-- `challenge_bytes(label, buf)` with `buf.len() = n` -/
  challenge : T → Bytes → Nat → Bytes × T

/-- Bulletproofs generators: `gens i = (G_i, H_i)` -/
class BpGens (Pt : Type) where
  gens : Nat → Pt × Pt

section
variable {Sc Pt T : Type}

/-- `TRANSCRIPT_DOMAIN` -/
def transcriptDomain : Bytes := b!"solana-zk-elgamal-proof-program-v1"

/-- `Transcript::new_zk_elgamal_transcript(label)` -/
def newTranscript [TranscriptOps T] (label : Bytes) : T :=
  TranscriptOps.append (TranscriptOps.init transcriptDomain) b!"dom-sep" label

/-- `append_u64(label, x)` : 8 little-endian bytes -/
def appendU64 [TranscriptOps T] (t : T) (label : Bytes) (x : Nat) : T :=
  TranscriptOps.append t label (natLE x 8)

/-- `challenge_scalar(label)` : 64 challenge bytes reduced mod ℓ -/
def challengeScalar [TranscriptOps T] [ScCodec Sc] (t : T) (label : Bytes) : Sc × T :=
  let (b, t) := TranscriptOps.challenge t label 64
  (ScCodec.wide b, t)

def appendScalar [TranscriptOps T] [ScCodec Sc] (t : T) (label : Bytes) (s : Sc) : T :=
  TranscriptOps.append t label (ScCodec.enc s)

def appendPoint [TranscriptOps T] [PtCodec Pt] (t : T) (label : Bytes) (P : Pt) : T :=
  TranscriptOps.append t label (PtCodec.enc P)

/-- multiscalar multiplication `Σ sᵢ • Pᵢ` -/
def msm [SMul Sc Pt] [Add Pt] [Zero Pt] (ss : List Sc) (ps : List Pt) : Pt :=
  (List.zipWith (· • ·) ss ps).sum

end
end Zk

import ZkElGamal.Model.Sigma
/-!
Aggregated Bulletproofs range proofs (`range_proof/{mod,inner_product,util}.rs`) and the three
batched range-proof instructions (`proof_data/batched_range_proof/*.rs`), generic over scalars,
points and transcript; generators are a parameter (`gG gH : List Pt`, concretely SHAKE256 chains).

`verifyProof width b` is `BatchedRangeProofU{64,128,256}Data::verify_proof` on raw bytes:
context decoding/validation, transcript over the raw context bytes, proof decoding, challenges,
`verification_scalars`, and the single "mega-check" multiscalar multiplication with its term lists
in the order of the Rust code.
-/
namespace Zk.Range
open Zk

section
variable {Sc Pt T : Type}
  [Add Sc] [Mul Sc] [Neg Sc] [Sub Sc] [Zero Sc] [One Sc] [Inv Sc]
  [Add Pt] [Neg Pt] [Sub Pt] [Zero Pt] [SMul Sc Pt] [BEq Pt]
  [PtCodec Pt] [ScCodec Sc] [PedGens Pt] [TranscriptOps T]

/-- `util::exp_iter(x).take(n)` : `[1, x, x², …]` -/
def powers (x : Sc) : Nat → List Sc
  | 0 => []
  | n+1 => 1 :: (powers x n).map (x * ·)

/-- `util::sum_of_powers_slow` -/
def sumOfPowersSlow (x : Sc) (n : Nat) : Sc := (powers x n).sum

/-- the doubling loop of `util::sum_of_powers` for `n = 2^k`, `k ≥ 1`:
    `result = 1 + x`, `factor = x`; `k-1` times: `factor ← factor²`, `result ← result + factor·result` -/
def sumOfPowersLoop : Nat → Sc → Sc → Sc
  | 0, result, _ => result
  | k+1, result, factor =>
    let factor := factor * factor
    sumOfPowersLoop k (result + factor * result) factor

def isPow2 (n : Nat) : Bool := n != 0 && (n &&& (n - 1)) == 0

/-- `util::sum_of_powers(x, n)` -/
def sumOfPowers (x : Sc) (n : Nat) : Sc :=
  if !isPow2 n then sumOfPowersSlow x n
  else if n = 0 ∨ n = 1 then ScCodec.ofNat n
  else sumOfPowersLoop (Nat.log2 n - 1) (1 + x) x

/-- `delta(bit_lengths, y, z)` -/
def delta (bitLengths : List Nat) (y z : Sc) : Sc :=
  let nm := bitLengths.sum
  let init := (z - z * z) * sumOfPowers y nm
  (bitLengths.foldl (fun (acc : Sc × Sc) n_i =>
      (acc.1 - acc.2 * sumOfPowers (ScCodec.ofNat 2 : Sc) n_i, acc.2 * z)) (init, z * z * z)).1

/-- decoded inner-product proof: compressed `L/R` with their decompressions, and `a`, `b` -/
structure Ipp (Sc Pt : Type) where
  lB : List Bytes
  rB : List Bytes
  Ls : List Pt
  Rs : List Pt
  a : Sc
  b : Sc

/-- decoded range proof -/
structure Proof (Sc Pt : Type) where
  aB : Bytes
  sB : Bytes
  t1B : Bytes
  t2B : Bytes
  A : Pt
  S : Pt
  T1 : Pt
  T2 : Pt
  tx : Sc
  txBlinding : Sc
  eBlinding : Sc
  ipp : Ipp Sc Pt

/-- `InnerProductProof::from_bytes` + decompression of every `L`, `R` -/
def parseIpp (b : Bytes) : Option (Ipp Sc Pt) :=
  if b.length % 32 ≠ 0 then none else
  let num := b.length / 32
  if num < 2 then none else
  if (num - 2) % 2 ≠ 0 then none else
  let lgn := (num - 2) / 2
  if lgn ≥ 32 then none else do
    let lB := (List.range lgn).map fun i => slice b (2 * i * 32) 32
    let rB := (List.range lgn).map fun i => slice b (2 * i * 32 + 32) 32
    let a ← ScCodec.canon (slice b (2 * lgn * 32) 32)
    let bb ← ScCodec.canon (slice b (2 * lgn * 32 + 32) 32)
    let Ls ← lB.mapM PtCodec.dec
    let Rs ← rB.mapM PtCodec.dec
    pure ⟨lB, rB, Ls, Rs, a, bb⟩

/-- `RangeProof::from_bytes` + decompression of `A, S, T_1, T_2` -/
def parseProof (b : Bytes) : Option (Proof Sc Pt) :=
  if b.length % 32 ≠ 0 then none else
  if b.length < 7 * 32 then none else do
    let A ← PtCodec.dec (slice b 0 32)
    let S ← PtCodec.dec (slice b 32 32)
    let T1 ← PtCodec.dec (slice b 64 32)
    let T2 ← PtCodec.dec (slice b 96 32)
    let tx ← ScCodec.canon (slice b 128 32)
    let txb ← ScCodec.canon (slice b 160 32)
    let eb ← ScCodec.canon (slice b 192 32)
    let ipp ← parseIpp (b.drop 224)
    pure ⟨slice b 0 32, slice b 32 32, slice b 64 32, slice b 96 32, A, S, T1, T2, tx, txb, eb, ipp⟩

/-- the challenges `u_j` of `verification_scalars`, in creation order, and the transcript after them -/
def ippChallenges (t : T) : List Bytes → List Bytes → List Sc × T
  | l :: ls, r :: rs =>
    let t := TranscriptOps.append t b!"L" l
    let t := TranscriptOps.append t b!"R" r
    let ut := challengeScalar (Sc := Sc) t b!"u"
    let rest := ippChallenges ut.2 ls rs
    (ut.1 :: rest.1, rest.2)
  | _, _ => ([], t)

/-- `s_i` of `verification_scalars` for `i < n`: `s_0 = (∏ u_j)⁻¹`, `s_i = s_{i-k}·u²_{lg_n-1-lg_i}`
    with `k = 2^lg_i` the highest bit of `i` (built by doubling: the list for `lg` rounds) -/
def sVector (allinv : Sc) (uSq : List Sc) : List Sc :=
  -- `uSq` in creation order `[u_{lg_n}², …, u_1²]`; bit `j` of `i` uses `uSq[lg_n-1-j]`
  uSq.reverse.foldl (fun s usq => s ++ s.map (· * usq)) [allinv]

/-- `InnerProductProof::verification_scalars` : `(u², u⁻², s)` and the transcript; `none` = error -/
def verificationScalars (n : Nat) (t : T) (ipp : Ipp Sc Pt) : Option (List Sc × List Sc × List Sc × T) :=
  let lgn := ipp.lB.length
  if lgn ≠ ipp.rB.length then none
  else if lgn = 0 ∨ lgn ≥ 32 then none
  else if n ≠ 2 ^ lgn then none
  else if ipp.lB.any Sigma.isZeroEnc || ipp.rB.any Sigma.isZeroEnc then none
  else
    let t := TranscriptOps.append t b!"dom-sep" b!"inner-product"
    let t := appendU64 t b!"n" n
    let ct := ippChallenges (Sc := Sc) t ipp.lB ipp.rB
    let us := ct.1
    let allinv := (us.foldl (· * ·) 1)⁻¹
    let uSq := us.map fun u => u * u
    let uInvSq := us.map fun u => u⁻¹ * u⁻¹
    some (uSq, uInvSq, sVector allinv uSq, ct.2)

/-- challenges `(y, z, x, w, d)`, the IPP scalars, as computed by `RangeProof::verify` -/
structure Challenges (Sc : Type) where
  y : Sc
  z : Sc
  x : Sc
  w : Sc
  d : Sc
  uSq : List Sc
  uInvSq : List Sc
  s : List Sc

def challenges (t : T) (nm : Nat) (pf : Proof Sc Pt) : Option (Challenges Sc) :=
  let t := TranscriptOps.append t b!"dom-sep" b!"range-proof"
  let t := appendU64 t b!"n" nm
  let t := TranscriptOps.append t b!"A" pf.aB
  let t := TranscriptOps.append t b!"S" pf.sB
  let yt := challengeScalar (Sc := Sc) t b!"y"
  let zt := challengeScalar (Sc := Sc) yt.2 b!"z"
  let t := TranscriptOps.append zt.2 b!"T_1" pf.t1B
  let t := TranscriptOps.append t b!"T_2" pf.t2B
  let xt := challengeScalar (Sc := Sc) t b!"x"
  let t := appendScalar xt.2 b!"t_x" pf.tx
  let t := appendScalar t b!"t_x_blinding" pf.txBlinding
  let t := appendScalar t b!"e_blinding" pf.eBlinding
  let wt := challengeScalar (Sc := Sc) t b!"w"
  let ct := challengeScalar (Sc := Sc) wt.2 b!"c"     -- legacy challenge, unused
  match verificationScalars nm ct.2 pf.ipp with
  | none => none
  | some (uSq, uInvSq, s, t) =>
    let t := appendScalar t b!"ipp_a" pf.ipp.a
    let t := appendScalar t b!"ipp_b" pf.ipp.b
    let dt := challengeScalar (Sc := Sc) t b!"d"
    some ⟨yt.1, zt.1, xt.1, wt.1, dt.1, uSq, uInvSq, s⟩

/-- every challenge `RangeProof::verify` draws, with its label, in drawing order
    (`y z x w c u…u d`; `c` is the legacy challenge). Same transcript as `challenges`
    (theorem `C04.challengeTrace_spec`); used by the correspondence to compare challenge values. -/
def challengeTrace (t : T) (nm : Nat) (pf : Proof Sc Pt) : Option (List (String × Sc)) :=
  let t := TranscriptOps.append t b!"dom-sep" b!"range-proof"
  let t := appendU64 t b!"n" nm
  let t := TranscriptOps.append t b!"A" pf.aB
  let t := TranscriptOps.append t b!"S" pf.sB
  let yt := challengeScalar (Sc := Sc) t b!"y"
  let zt := challengeScalar (Sc := Sc) yt.2 b!"z"
  let t := TranscriptOps.append zt.2 b!"T_1" pf.t1B
  let t := TranscriptOps.append t b!"T_2" pf.t2B
  let xt := challengeScalar (Sc := Sc) t b!"x"
  let t := appendScalar xt.2 b!"t_x" pf.tx
  let t := appendScalar t b!"t_x_blinding" pf.txBlinding
  let t := appendScalar t b!"e_blinding" pf.eBlinding
  let wt := challengeScalar (Sc := Sc) t b!"w"
  let ct := challengeScalar (Sc := Sc) wt.2 b!"c"
  match verificationScalars nm ct.2 pf.ipp with
  | none => none
  | some (_, _, _, t) =>
    let us := (ippChallenges (Sc := Sc)
      (appendU64 (TranscriptOps.append ct.2 b!"dom-sep" b!"inner-product") b!"n" nm) pf.ipp.lB pf.ipp.rB).1
    let t := appendScalar t b!"ipp_a" pf.ipp.a
    let t := appendScalar t b!"ipp_b" pf.ipp.b
    let dt := challengeScalar (Sc := Sc) t b!"d"
    some ([("y", yt.1), ("z", zt.1), ("x", xt.1), ("w", wt.1), ("c", ct.1)] ++ us.map (fun u => ("u", u))
      ++ [("d", dt.1)])

/-- `z^j·2^k` for commitment `j`, bit `k` — the vector `concat_z_and_2` -/
def concatZAnd2 (z : Sc) (bitLengths : List Nat) : List Sc :=
  (List.zip (powers z bitLengths.length) bitLengths).flatMap fun (ez, n) =>
    (powers (ScCodec.ofNat 2 : Sc) n).map (· * ez)

/-- scalars of the mega-check, in the order of the code -/
def megaScalars (bitLengths : List Nat) (pf : Proof Sc Pt) (c : Challenges Sc) : List Sc :=
  let m := bitLengths.length
  let nm := bitLengths.sum
  let a := pf.ipp.a
  let b := pf.ipp.b
  let zz := c.z * c.z
  let gs := c.s.map fun s_i => (-c.z) - a * s_i
  let hs := (List.zip (List.zip c.s.reverse (powers c.y⁻¹ nm)) (concatZAnd2 c.z bitLengths)).map
    fun ((sInv, eyInv), z2) => c.z + eyInv * (zz * z2 - b * sInv)
  let basepoint := c.w * (pf.tx - a * b) + c.d * (delta bitLengths c.y c.z - pf.tx)
  let vcs := (powers c.z m).map fun ze => c.d * zz * ze
  [1, c.x, c.d * c.x, c.d * c.x * c.x, (-pf.eBlinding) - c.d * pf.txBlinding, basepoint]
    ++ c.uSq ++ c.uInvSq ++ gs ++ hs ++ vcs

/-- points of the mega-check -/
def megaPoints (gG gH : List Pt) (comms : List Pt) (pf : Proof Sc Pt) : List Pt :=
  [pf.A, pf.S, pf.T1, pf.T2, (PedGens.H : Pt), (PedGens.G : Pt)]
    ++ pf.ipp.Ls ++ pf.ipp.Rs ++ gG ++ gH ++ comms

/-- `RangeProof::verify` (after decoding); `gG gH` = first `nm` generators of each chain -/
def verify (t : T) (gG gH : List Pt) (comms : List Pt) (bitLengths : List Nat) (pf : Proof Sc Pt) : Bool :=
  let nm := bitLengths.sum
  if comms.length ≠ bitLengths.length then false
  else if comms.any (· == 0) then false
  else if !isPow2 nm then false
  else if Sigma.isZeroEnc pf.aB || Sigma.isZeroEnc pf.sB || Sigma.isZeroEnc pf.t1B || Sigma.isZeroEnc pf.t2B then false
  else
    match challenges t nm pf with
    | none => false
    | some c =>
      let ss := megaScalars bitLengths pf c
      let ps := megaPoints gG gH comms pf
      -- `optional_multiscalar_mul` requires equal lengths (a size-hint assertion otherwise)
      ss.length == ps.length && msm ss ps == 0

/-! ### context -/

/-- `BatchedRangeProofContext::try_into` : `(commitments, bit_lengths)` -/
def parseContext (ctx : Bytes) : Option (List Pt × List Nat) :=
  let pods := (List.range 8).map fun i => slice ctx (32 * i) 32
  let bls := (slice ctx 256 8).map (·.toNat)
  let used := pods.takeWhile fun p => !(p == zero32)
  match used.mapM PtCodec.dec with
  | none => none
  | some comms =>
    let len := comms.length
    let bitLengths := bls.take len
    if len = 0 then none
    else if bitLengths.any fun n => n = 0 ∨ n > 64 then none
    else if !((pods.drop len).all (· == zero32)) then none
    else if !((bls.drop len).all (· == 0)) then none
    else some (comms, bitLengths)

/-- `BatchedRangeProofContext::new_transcript` -/
def contextTranscript (T : Type) [TranscriptOps T] (ctx : Bytes) : T :=
  let t : T := newTranscript b!"batched-range-proof-instruction"
  let t := TranscriptOps.append t b!"commitments" (slice ctx 0 256)
  TranscriptOps.append t b!"bit-lengths" (slice ctx 256 8)

/-- byte length of the proof field per width -/
def proofLen (width : Nat) : Nat := if width = 64 then 672 else if width = 128 then 736 else 800

/-- `BatchedRangeProofU{64,128,256}Data::verify_proof` on raw bytes (`264 + proofLen` bytes) -/
def verifyProof (Sc Pt T : Type)
    [Add Sc] [Mul Sc] [Neg Sc] [Sub Sc] [Zero Sc] [One Sc] [Inv Sc]
    [Add Pt] [Neg Pt] [Sub Pt] [Zero Pt] [SMul Sc Pt] [BEq Pt]
    [PtCodec Pt] [ScCodec Sc] [PedGens Pt] [TranscriptOps T]
    (gens : Nat → List Pt × List Pt) (width : Nat) (b : Bytes) : Bool :=
  if b.length ≠ 264 + proofLen width then false else
  let ctx := b.take 264
  match parseContext (Pt := Pt) ctx with
  | none => false
  | some (comms, bitLengths) =>
    if comms.length > 8 then false
    else if bitLengths.sum ≠ width then false
    else
      match parseProof (Sc := Sc) (Pt := Pt) (b.drop 264) with
      | none => false
      | some pf =>
        let g := gens width
        verify (contextTranscript T ctx) g.1 g.2 comms bitLengths pf

/-! ### prover (explicit nonces) -/

/-- deviations of an adversarial prover, applied *before* the value is absorbed into the transcript
    (so Fiat–Shamir stays consistent); all-zero for the honest prover -/
structure Tamper (Sc Pt : Type) where
  oA : Pt
  oS : Pt
  oT1 : Pt
  oT2 : Pt
  oL : List Pt
  oR : List Pt
  dTx : Sc
  dTxBlinding : Sc
  dEBlinding : Sc
  dA : Sc
  dB : Sc

def Tamper.none : Tamper Sc Pt := ⟨0, 0, 0, 0, [], [], 0, 0, 0, 0, 0⟩

def ipScalars (a b : List Sc) : Sc := (List.zipWith (· * ·) a b).sum

/-- one folding round of `InnerProductProof::new` on vectors already scaled by the factors;
    returns `(L, R)` compressed and the folded vectors -/
structure IppState (Sc Pt T : Type) where
  t : T
  a : List Sc
  b : List Sc
  g : List Pt
  h : List Pt
  lB : List Bytes
  rB : List Bytes

def ippRound (Q : Pt) (oL oR : Pt) (st : IppState Sc Pt T) : IppState Sc Pt T :=
  let n := st.a.length / 2
  let aL := st.a.take n; let aR := st.a.drop n
  let bL := st.b.take n; let bR := st.b.drop n
  let gL := st.g.take n; let gR := st.g.drop n
  let hL := st.h.take n; let hR := st.h.drop n
  let cL := ipScalars aL bR
  let cR := ipScalars aR bL
  let L := PtCodec.enc (msm (aL ++ bR ++ [cL]) (gR ++ hL ++ [Q]) + oL)
  let R := PtCodec.enc (msm (aR ++ bL ++ [cR]) (gL ++ hR ++ [Q]) + oR)
  let t := TranscriptOps.append st.t b!"L" L
  let t := TranscriptOps.append t b!"R" R
  let ut := challengeScalar (Sc := Sc) t b!"u"
  let u := ut.1
  let ui := u⁻¹
  { t := ut.2
    a := List.zipWith (fun l r => l * u + ui * r) aL aR
    b := List.zipWith (fun l r => l * ui + u * r) bL bR
    g := List.zipWith (fun l r => ui • l + u • r) gL gR
    h := List.zipWith (fun l r => u • l + ui • r) hL hR
    lB := st.lB ++ [L]
    rB := st.rB ++ [R] }

def ippLoop (Q : Pt) (oL oR : List Pt) : Nat → IppState Sc Pt T → IppState Sc Pt T
  | 0, st => st
  | k+1, st =>
    if st.a.length ≤ 1 then st
    else ippLoop Q oL oR k (ippRound Q (oL.getD st.lB.length 0) (oR.getD st.lB.length 0) st)

/-- `InnerProductProof::new`: the first round of the Rust absorbs `G_factors/H_factors` into the
    multiscalar terms; algebraically that is the plain protocol on the pre-scaled generators
    `G_factors∘G`, `H_factors∘H` (here `G_factors = 1`, `H_factors = y⁻ⁱ`), which is what is modelled;
    the bytes produced are identical. Returns the proof bytes. -/
def ippProve (t : T) (Q : Pt) (hFactors : List Sc) (gG gH : List Pt) (a b : List Sc)
    (tm : Tamper Sc Pt) : Bytes :=
  let n := a.length
  let t := TranscriptOps.append t b!"dom-sep" b!"inner-product"
  let t := appendU64 t b!"n" n
  let h' := List.zipWith (fun f P => f • P) hFactors gH
  let st : IppState Sc Pt T := ⟨t, a, b, gG, h', [], []⟩
  let st := ippLoop Q tm.oL tm.oR 40 st
  (List.zipWith (· ++ ·) st.lB st.rB).flatten ++ ScCodec.enc (st.a.headD 0 + tm.dA) ++
    ScCodec.enc (st.b.headD 0 + tm.dB)

/-- bits of the amounts, `a_L` (as scalars), by bit length; `digits` lets the adversarial prover
    supply arbitrary digit vectors instead of bits -/
def bitsOf (amounts : List Nat) (bitLengths : List Nat) : List Sc :=
  (List.zip amounts bitLengths).flatMap fun (v, n) =>
    (List.range n).map fun j => (ScCodec.ofNat ((v >>> j) % 2) : Sc)

/-- nonces of `RangeProof::new` in drawing order -/
structure Nonces (Sc : Type) where
  aBlinding : Sc
  sL : List Sc
  sR : List Sc
  sBlinding : Sc
  t1Blinding : Sc
  t2Blinding : Sc

/-- `RangeProof::new` with explicit digit vector `aL` (honest: the bits), openings and nonces.
    Returns the proof bytes. -/
def prove (t : T) (gG gH : List Pt) (bitLengths : List Nat) (aL : List Sc) (openings : List Sc)
    (nz : Nonces Sc) (tm : Tamper Sc Pt) : Bytes :=
  let G : Pt := PedGens.G
  let H : Pt := PedGens.H
  let nm := bitLengths.sum
  let t := TranscriptOps.append t b!"dom-sep" b!"range-proof"
  let t := appendU64 t b!"n" nm
  let aR := aL.map (· - 1)
  let A := nz.aBlinding • H + msm aL gG + msm aR gH + tm.oA
  let S := msm ([nz.sBlinding] ++ nz.sL ++ nz.sR) ([H] ++ gG ++ gH) + tm.oS
  let aB := PtCodec.enc A
  let sB := PtCodec.enc S
  let t := TranscriptOps.append t b!"A" aB
  let t := TranscriptOps.append t b!"S" sB
  let yt := challengeScalar (Sc := Sc) t b!"y"
  let zt := challengeScalar (Sc := Sc) yt.2 b!"z"
  let y := yt.1; let z := zt.1
  let ys := powers y nm
  let z2 := concatZAnd2 z bitLengths          -- z^j 2^k ; the prover uses z^{j+2} 2^k
  let l0 := aL.map (· - z)
  let l1 := nz.sL
  let r0 := List.zipWith (fun (p : Sc × Sc) zk => p.1 * (p.2 + z) + z * z * zk) (List.zip ys aR) z2
  let r1 := List.zipWith (· * ·) ys nz.sR
  let t0 := ipScalars l0 r0
  let t2 := ipScalars l1 r1
  let t1 := ipScalars (List.zipWith (· + ·) l0 l1) (List.zipWith (· + ·) r0 r1) - t0 - t2
  let T1 := PtCodec.enc ((pedersenWith t1 nz.t1Blinding : Pt) + tm.oT1)
  let T2 := PtCodec.enc ((pedersenWith t2 nz.t2Blinding : Pt) + tm.oT2)
  let t := TranscriptOps.append zt.2 b!"T_1" T1
  let t := TranscriptOps.append t b!"T_2" T2
  let xt := challengeScalar (Sc := Sc) t b!"x"
  let x := xt.1
  let agg := (openings.foldl (fun (acc : Sc × Sc) r => (acc.1 + acc.2 * z * r, acc.2 * z)) (0, z)).1
  let tx := t0 + x * (t1 + x * t2) + tm.dTx
  let txb := agg + x * (nz.t1Blinding + x * nz.t2Blinding) + tm.dTxBlinding
  let t := appendScalar xt.2 b!"t_x" tx
  let t := appendScalar t b!"t_x_blinding" txb
  let eb := nz.aBlinding + nz.sBlinding * x + tm.dEBlinding
  let lv := List.zipWith (fun a b => a + b * x) l0 l1
  let rv := List.zipWith (fun a b => a + b * x) r0 r1
  let t := appendScalar t b!"e_blinding" eb
  let wt := challengeScalar (Sc := Sc) t b!"w"
  let Q := wt.1 • G
  let ct := challengeScalar (Sc := Sc) wt.2 b!"c"
  let ipp := ippProve ct.2 Q (powers y⁻¹ nm) gG gH lv rv tm
  aB ++ sB ++ T1 ++ T2 ++ ScCodec.enc tx ++ ScCodec.enc txb ++ ScCodec.enc eb ++ ipp

/-- context bytes of `BatchedRangeProofContext::new` -/
def encodeContext (comms : List Pt) (bitLengths : List Nat) : Bytes :=
  let cs := (comms.map PtCodec.enc).flatten
  let bl := bitLengths.map UInt8.ofNat
  cs ++ List.replicate (256 - cs.length) 0 ++ bl ++ List.replicate (8 - bl.length) 0

/-- `BatchedRangeProofU{width}Data::new` : refusal conditions of the constructors (C20) and the bytes -/
def new (T : Type) [TranscriptOps T] (gens : Nat → List Pt × List Pt) (width : Nat)
    (comms : List Pt) (amounts : List Nat) (bitLengths : List Nat) (openings : List Sc)
    (nz : Nonces Sc) : Option Bytes :=
  if bitLengths.sum ≠ width then none
  else if comms.length > 8 ∨ comms.length ≠ amounts.length ∨ comms.length ≠ bitLengths.length ∨
      comms.length ≠ openings.length then none
  else if comms.any (· == 0) then none
  else if bitLengths.any (· > 255) then none
  else if bitLengths.any fun n => n = 0 ∨ n > 64 then none
  else
    let ctx := encodeContext comms bitLengths
    let g := gens width
    some (ctx ++ prove (contextTranscript T ctx) g.1 g.2 bitLengths (bitsOf amounts bitLengths) openings nz
      Tamper.none)

end
end Zk.Range

import ZkElGamal.Model.Label
/-!
Secret-bearing values as a small state machine (C18): regions of memory holding secret bytes,
created (random / derived / decoded / arithmetic results are all "create with some bytes"),
cloned, and dropped. `zeroizeOnDrop` is what the `#[zeroize(drop)]` attribute of the type says
(regenerated from the source by the translator).
-/
namespace Zk.Secrets

structure Region where
  bytes : Bytes
  alive : Bool
deriving Repr, DecidableEq

inductive Op where
  | create (v : Bytes)        -- new_rand / from_seed / try_from / a + b / a * k …
  | clone (i : Nat)
  | drop (i : Nat)
deriving Repr

abbrev State := List Region

def step (zeroizeOnDrop : Bool) (s : State) : Op → State
  | .create v => s ++ [⟨v, true⟩]
  | .clone i => match s[i]? with
    | some r => if r.alive then s ++ [⟨r.bytes, true⟩] else s
    | none => s
  | .drop i => match s[i]? with
    | some r =>
      if r.alive then
        s.set i ⟨if zeroizeOnDrop then List.replicate r.bytes.length 0 else r.bytes, false⟩
      else s
    | none => s

def run (z : Bool) (ops : List Op) : State := ops.foldl (step z) []

/-- every region whose owner was dropped is all-zero -/
def Inv (s : State) : Prop := ∀ r ∈ s, r.alive = false → ∀ b ∈ r.bytes, b = 0

/-- `{:?}` of the three single-field secret types -/
def debugTuple (name : Bytes) : Bytes := name ++ b!"(\"[REDACTED]\")"

end Zk.Secrets

import ZkElGamal.Model.ElGamal
/-!
The nine sigma protocols at the instruction level (`sigma_proofs/*.rs` +
`zk_elgamal_proof_program/proof_data/*.rs`): verifiers over raw instruction bytes
and provers with explicit nonces.

Every verifier is `parse` (exact length, point decoding, canonical scalars) followed by
`check` (identity policy, Fiat–Shamir challenges, one batched multiscalar equation), with
the transcript operations and the multiscalar term lists in the order of the Rust code.
Accept/reject is what is modelled; Rust error kinds are not.
-/
namespace Zk.Sigma
open Zk

section
variable {Sc Pt T : Type}
  [Add Sc] [Mul Sc] [Neg Sc] [Sub Sc] [Zero Sc] [One Sc] [Inv Sc]
  [Add Pt] [Neg Pt] [Sub Pt] [Zero Pt] [SMul Sc Pt] [BEq Pt]
  [PtCodec Pt] [ScCodec Sc] [PedGens Pt] [TranscriptOps T]

/-- 32-byte point field at offset `i` -/
def ptAt (b : Bytes) (i : Nat) : Option Pt := PtCodec.dec (slice b i 32)
/-- 32-byte canonical scalar field at offset `i` -/
def scAt (b : Bytes) (i : Nat) : Option Sc := ScCodec.canon (slice b i 32)

/-- `validate_and_append_point` rejects exactly the all-zero compressed encoding -/
def isZeroEnc (b : Bytes) : Bool := b == zero32

local notation "Gp" => (PedGens.G : Pt)
local notation "Hp" => (PedGens.H : Pt)

/-! ## zero-ciphertext (192 bytes: pubkey, C, D | Y_P, Y_D, z) -/
namespace ZeroCt

structure Parsed (Sc Pt : Type) where
  P : Pt
  ct : Ct Pt
  ypB : Bytes
  ydB : Bytes
  YP : Pt
  YD : Pt
  z : Sc

def parse (b : Bytes) : Option (Parsed Sc Pt) :=
  if b.length ≠ 192 then none else do
    let P ← ptAt b 0
    let C ← ptAt b 32
    let D ← ptAt b 64
    let YP ← ptAt b 96
    let YD ← ptAt b 128
    let z ← scAt b 160
    pure ⟨P, ⟨C, D⟩, slice b 96 32, slice b 128 32, YP, YD, z⟩

/-- transcript after statement and domain separator -/
def transcript0 (T : Type) [TranscriptOps T] (P : Pt) (ct : Ct Pt) : T :=
  let t : T := newTranscript b!"zero-ciphertext-instruction"
  let t := TranscriptOps.append t b!"pubkey" (PtCodec.enc P)
  let t := TranscriptOps.append t b!"ciphertext" ct.enc
  TranscriptOps.append t b!"dom-sep" b!"zero-ciphertext-proof"

/-- challenges `(c, w)` for given masking-commitment bytes and response -/
def challenges (T : Type) [TranscriptOps T] (P : Pt) (ct : Ct Pt) (ypB ydB : Bytes) (z : Sc) : Sc × Sc :=
  let t := transcript0 T P ct
  let t := TranscriptOps.append t b!"Y_P" ypB
  let t := TranscriptOps.append t b!"Y_D" ydB
  let (c, t) := challengeScalar (Sc := Sc) t b!"c"
  let t := appendScalar t b!"z" z
  let (w, _) := challengeScalar (Sc := Sc) t b!"w"
  (c, w)

def policy (p : Parsed Sc Pt) : Bool :=
  !(p.P == 0 || p.ct.C == 0 || p.ct.D == 0) && !isZeroEnc p.ypB

/-- the batched multiscalar check of `ZeroCiphertextProof::verify` -/
def equation (p : Parsed Sc Pt) (c w : Sc) : Pt :=
  msm [p.z, -c, -(1 : Sc), w * p.z, (-w) * c, -w]
      [p.P, Hp, p.YP, p.ct.D, p.ct.C, p.YD]

def check (T : Type) [TranscriptOps T] (p : Parsed Sc Pt) : Bool :=
  policy p &&
  (let cw := challenges T p.P p.ct p.ypB p.ydB p.z
   equation p cw.1 cw.2 == 0)

/-- `ZeroCiphertextProofData::verify_proof` on raw bytes -/
def verifyProof (Sc Pt T : Type)
    [Add Sc] [Mul Sc] [Neg Sc] [Sub Sc] [Zero Sc] [One Sc] [Inv Sc]
    [Add Pt] [Neg Pt] [Sub Pt] [Zero Pt] [SMul Sc Pt] [BEq Pt]
    [PtCodec Pt] [ScCodec Sc] [PedGens Pt] [TranscriptOps T] (b : Bytes) : Bool :=
  match parse (Sc := Sc) (Pt := Pt) b with
  | none => false
  | some p => check T p

/-- `ZeroCiphertextProof::new` with nonce `y`: returns the 96 proof bytes -/
def prove (T : Type) [TranscriptOps T] (s : Sc) (P : Pt) (ct : Ct Pt) (y : Sc) : Bytes :=
  let ypB := PtCodec.enc (y • P)
  let ydB := PtCodec.enc (y • ct.D)
  let t := transcript0 T P ct
  let t := TranscriptOps.append t b!"Y_P" ypB
  let t := TranscriptOps.append t b!"Y_D" ydB
  let (c, _) := challengeScalar (Sc := Sc) t b!"c"
  let z := c * s + y
  ypB ++ ydB ++ ScCodec.enc z

/-- `ZeroCiphertextProofData::new(keypair, ciphertext)`; `none` = `InconsistentInput` -/
def new (T : Type) [TranscriptOps T] (s : Sc) (P : Pt) (ct : Ct Pt) (y : Sc) : Option Bytes :=
  if !(decryptTarget s ct == 0) then none
  else some (PtCodec.enc P ++ ct.enc ++ prove T s P ct y)

end ZeroCt

/-! ## public-key validity (96 bytes: pubkey | Y, z) -/
namespace PubkeyValidity

structure Parsed (Sc Pt : Type) where
  P : Pt
  yB : Bytes
  Y : Pt
  z : Sc

def parse (b : Bytes) : Option (Parsed Sc Pt) :=
  if b.length ≠ 96 then none else do
    let P ← ptAt b 0
    let Y ← ptAt b 32
    let z ← scAt b 64
    pure ⟨P, slice b 32 32, Y, z⟩

def transcript0 (T : Type) [TranscriptOps T] (P : Pt) : T :=
  let t : T := newTranscript b!"pubkey-validity-instruction"
  let t := TranscriptOps.append t b!"pubkey" (PtCodec.enc P)
  TranscriptOps.append t b!"dom-sep" b!"pubkey-proof"

/-- the only challenge `c` (no batching weight: a single equation) -/
def challenge (Sc T : Type) [ScCodec Sc] [TranscriptOps T] (P : Pt) (yB : Bytes) : Sc :=
  let t := transcript0 T P
  let t := TranscriptOps.append t b!"Y" yB
  (challengeScalar (Sc := Sc) t b!"c").1

def policy (p : Parsed Sc Pt) : Bool := !(p.P == 0) && !isZeroEnc p.yB

def equation (p : Parsed Sc Pt) (c : Sc) : Pt :=
  msm [p.z, -c, -(1 : Sc)] [Hp, p.P, p.Y]

def check (T : Type) [TranscriptOps T] (p : Parsed Sc Pt) : Bool :=
  policy p && (equation p (challenge Sc T p.P p.yB) == 0)

def verifyProof (Sc Pt T : Type)
    [Add Sc] [Mul Sc] [Neg Sc] [Sub Sc] [Zero Sc] [One Sc] [Inv Sc]
    [Add Pt] [Neg Pt] [Sub Pt] [Zero Pt] [SMul Sc Pt] [BEq Pt]
    [PtCodec Pt] [ScCodec Sc] [PedGens Pt] [TranscriptOps T] (b : Bytes) : Bool :=
  match parse (Sc := Sc) (Pt := Pt) b with
  | none => false
  | some p => check T p

/-- `PubkeyValidityProof::new` (asserts `s ≠ 0` in Rust) -/
def prove (T : Type) [TranscriptOps T] (s : Sc) (P : Pt) (y : Sc) : Bytes :=
  let yB := PtCodec.enc (y • Hp)
  let c := challenge Sc T P yB
  let z := c * s⁻¹ + y
  yB ++ ScCodec.enc z

/-- `PubkeyValidityProofData::new(keypair)` — no consistency check in the Rust constructor -/
def new (T : Type) [TranscriptOps T] (s : Sc) (P : Pt) (y : Sc) : Option Bytes :=
  some (PtCodec.enc P ++ prove T s P y)

end PubkeyValidity

/-! ## ciphertext–ciphertext equality
    (416 bytes: P1, P2, C1, D1, C2, D2 | Y_0..Y_3, z_s, z_x, z_r) -/
namespace CtCtEq

structure Parsed (Sc Pt : Type) where
  P1 : Pt
  P2 : Pt
  ct1 : Ct Pt
  ct2 : Ct Pt
  y0B : Bytes
  y1B : Bytes
  y2B : Bytes
  y3B : Bytes
  Y0 : Pt
  Y1 : Pt
  Y2 : Pt
  Y3 : Pt
  zs : Sc
  zx : Sc
  zr : Sc

def parse (b : Bytes) : Option (Parsed Sc Pt) :=
  if b.length ≠ 416 then none else do
    let P1 ← ptAt b 0
    let P2 ← ptAt b 32
    let C1 ← ptAt b 64
    let D1 ← ptAt b 96
    let C2 ← ptAt b 128
    let D2 ← ptAt b 160
    let Y0 ← ptAt b 192
    let Y1 ← ptAt b 224
    let Y2 ← ptAt b 256
    let Y3 ← ptAt b 288
    let zs ← scAt b 320
    let zx ← scAt b 352
    let zr ← scAt b 384
    pure ⟨P1, P2, ⟨C1, D1⟩, ⟨C2, D2⟩, slice b 192 32, slice b 224 32, slice b 256 32, slice b 288 32,
          Y0, Y1, Y2, Y3, zs, zx, zr⟩

def transcript0 (T : Type) [TranscriptOps T] (P1 P2 : Pt) (ct1 ct2 : Ct Pt) : T :=
  let t : T := newTranscript b!"ciphertext-ciphertext-equality-instruction"
  let t := TranscriptOps.append t b!"first-pubkey" (PtCodec.enc P1)
  let t := TranscriptOps.append t b!"second-pubkey" (PtCodec.enc P2)
  let t := TranscriptOps.append t b!"first-ciphertext" ct1.enc
  let t := TranscriptOps.append t b!"second-ciphertext" ct2.enc
  TranscriptOps.append t b!"dom-sep" b!"ciphertext-ciphertext-equality-proof"

def challenges (T : Type) [TranscriptOps T] (P1 P2 : Pt) (ct1 ct2 : Ct Pt)
    (y0B y1B y2B y3B : Bytes) (zs zx zr : Sc) : Sc × Sc :=
  let t := transcript0 T P1 P2 ct1 ct2
  let t := TranscriptOps.append t b!"Y_0" y0B
  let t := TranscriptOps.append t b!"Y_1" y1B
  let t := TranscriptOps.append t b!"Y_2" y2B
  let t := TranscriptOps.append t b!"Y_3" y3B
  let (c, t) := challengeScalar (Sc := Sc) t b!"c"
  let t := appendScalar t b!"z_s" zs
  let t := appendScalar t b!"z_x" zx
  let t := appendScalar t b!"z_r" zr
  let (w, _) := challengeScalar (Sc := Sc) t b!"w"
  (c, w)

def policy (p : Parsed Sc Pt) : Bool :=
  !(p.P1 == 0 || p.P2 == 0 || p.ct1.C == 0 || p.ct1.D == 0) &&
  !isZeroEnc p.y0B && !isZeroEnc p.y1B && !isZeroEnc p.y2B && !isZeroEnc p.y3B

def equation (p : Parsed Sc Pt) (c w : Sc) : Pt :=
  let ww := w * w
  let www := w * ww
  msm [p.zs, -c, -(1 : Sc),
       w * p.zx, w * p.zs, (-w) * c, -w,
       ww * p.zx, ww * p.zr, (-ww) * c, -ww,
       www * p.zr, (-www) * c, -www]
      [p.P1, Hp, p.Y0,
       Gp, p.ct1.D, p.ct1.C, p.Y1,
       Gp, Hp, p.ct2.C, p.Y2,
       p.P2, p.ct2.D, p.Y3]

def check (T : Type) [TranscriptOps T] (p : Parsed Sc Pt) : Bool :=
  policy p &&
  (let cw := challenges T p.P1 p.P2 p.ct1 p.ct2 p.y0B p.y1B p.y2B p.y3B p.zs p.zx p.zr
   equation p cw.1 cw.2 == 0)

def verifyProof (Sc Pt T : Type)
    [Add Sc] [Mul Sc] [Neg Sc] [Sub Sc] [Zero Sc] [One Sc] [Inv Sc]
    [Add Pt] [Neg Pt] [Sub Pt] [Zero Pt] [SMul Sc Pt] [BEq Pt]
    [PtCodec Pt] [ScCodec Sc] [PedGens Pt] [TranscriptOps T] (b : Bytes) : Bool :=
  match parse (Sc := Sc) (Pt := Pt) b with
  | none => false
  | some p => check T p

/-- `CiphertextCiphertextEqualityProof::new`; nonces `y_s, y_x, y_r` -/
def prove (T : Type) [TranscriptOps T] (s : Sc) (P1 P2 : Pt) (ct1 ct2 : Ct Pt) (r x : Sc)
    (ys yx yr : Sc) : Bytes :=
  let y0B := PtCodec.enc (ys • P1)
  let y1B := PtCodec.enc (msm [yx, ys] [Gp, ct1.D])
  let y2B := PtCodec.enc (msm [yx, yr] [Gp, Hp])
  let y3B := PtCodec.enc (yr • P2)
  let t := transcript0 T P1 P2 ct1 ct2
  let t := TranscriptOps.append t b!"Y_0" y0B
  let t := TranscriptOps.append t b!"Y_1" y1B
  let t := TranscriptOps.append t b!"Y_2" y2B
  let t := TranscriptOps.append t b!"Y_3" y3B
  let (c, _) := challengeScalar (Sc := Sc) t b!"c"
  let zs := c * s + ys
  let zx := c * x + yx
  let zr := c * r + yr
  y0B ++ y1B ++ y2B ++ y3B ++ ScCodec.enc zs ++ ScCodec.enc zx ++ ScCodec.enc zr

/-- `CiphertextCiphertextEqualityProofData::new`; `amount : u64` enters as `ofNat amount` -/
def new (T : Type) [TranscriptOps T] (s : Sc) (P1 P2 : Pt) (ct1 ct2 : Ct Pt) (r : Sc) (amount : Nat)
    (ys yx yr : Sc) : Option Bytes :=
  let x : Sc := ScCodec.ofNat amount
  if !(decryptTarget s ct1 == x • Gp) then none
  else
    let e : Ct Pt := encryptWith P2 x r
    if !(ct2.C == e.C && ct2.D == e.D) then none
    else some (PtCodec.enc P1 ++ PtCodec.enc P2 ++ ct1.enc ++ ct2.enc ++
               prove T s P1 P2 ct1 ct2 r x ys yx yr)

end CtCtEq

/-! ## ciphertext–commitment equality
    (320 bytes: P, C, D, C_cmt | Y_0..Y_2, z_s, z_x, z_r) -/
namespace CtCmtEq

structure Parsed (Sc Pt : Type) where
  P : Pt
  ct : Ct Pt
  Cm : Pt
  y0B : Bytes
  y1B : Bytes
  y2B : Bytes
  Y0 : Pt
  Y1 : Pt
  Y2 : Pt
  zs : Sc
  zx : Sc
  zr : Sc

def parse (b : Bytes) : Option (Parsed Sc Pt) :=
  if b.length ≠ 320 then none else do
    let P ← ptAt b 0
    let C ← ptAt b 32
    let D ← ptAt b 64
    let Cm ← ptAt b 96
    let Y0 ← ptAt b 128
    let Y1 ← ptAt b 160
    let Y2 ← ptAt b 192
    let zs ← scAt b 224
    let zx ← scAt b 256
    let zr ← scAt b 288
    pure ⟨P, ⟨C, D⟩, Cm, slice b 128 32, slice b 160 32, slice b 192 32, Y0, Y1, Y2, zs, zx, zr⟩

def transcript0 (T : Type) [TranscriptOps T] (P : Pt) (ct : Ct Pt) (Cm : Pt) : T :=
  let t : T := newTranscript b!"ciphertext-commitment-equality-instruction"
  let t := TranscriptOps.append t b!"pubkey" (PtCodec.enc P)
  let t := TranscriptOps.append t b!"ciphertext" ct.enc
  let t := TranscriptOps.append t b!"commitment" (PtCodec.enc Cm)
  TranscriptOps.append t b!"dom-sep" b!"ciphertext-commitment-equality-proof"

def challenges (T : Type) [TranscriptOps T] (P : Pt) (ct : Ct Pt) (Cm : Pt)
    (y0B y1B y2B : Bytes) (zs zx zr : Sc) : Sc × Sc :=
  let t := transcript0 T P ct Cm
  let t := TranscriptOps.append t b!"Y_0" y0B
  let t := TranscriptOps.append t b!"Y_1" y1B
  let t := TranscriptOps.append t b!"Y_2" y2B
  let (c, t) := challengeScalar (Sc := Sc) t b!"c"
  let t := appendScalar t b!"z_s" zs
  let t := appendScalar t b!"z_x" zx
  let t := appendScalar t b!"z_r" zr
  let (w, _) := challengeScalar (Sc := Sc) t b!"w"
  (c, w)

def policy (p : Parsed Sc Pt) : Bool :=
  !(p.P == 0 || p.ct.C == 0 || p.ct.D == 0 || p.Cm == 0) &&
  !isZeroEnc p.y0B && !isZeroEnc p.y1B && !isZeroEnc p.y2B

def equation (p : Parsed Sc Pt) (c w : Sc) : Pt :=
  let ww := w * w
  msm [p.zs, -c, -(1 : Sc),
       w * p.zx, w * p.zs, (-w) * c, -w,
       ww * p.zx, ww * p.zr, (-ww) * c, -ww]
      [p.P, Hp, p.Y0,
       Gp, p.ct.D, p.ct.C, p.Y1,
       Gp, Hp, p.Cm, p.Y2]

def check (T : Type) [TranscriptOps T] (p : Parsed Sc Pt) : Bool :=
  policy p &&
  (let cw := challenges T p.P p.ct p.Cm p.y0B p.y1B p.y2B p.zs p.zx p.zr
   equation p cw.1 cw.2 == 0)

def verifyProof (Sc Pt T : Type)
    [Add Sc] [Mul Sc] [Neg Sc] [Sub Sc] [Zero Sc] [One Sc] [Inv Sc]
    [Add Pt] [Neg Pt] [Sub Pt] [Zero Pt] [SMul Sc Pt] [BEq Pt]
    [PtCodec Pt] [ScCodec Sc] [PedGens Pt] [TranscriptOps T] (b : Bytes) : Bool :=
  match parse (Sc := Sc) (Pt := Pt) b with
  | none => false
  | some p => check T p

def prove (T : Type) [TranscriptOps T] (s : Sc) (P : Pt) (ct : Ct Pt) (Cm : Pt) (r x : Sc)
    (ys yx yr : Sc) : Bytes :=
  let y0B := PtCodec.enc (ys • P)
  let y1B := PtCodec.enc (msm [yx, ys] [Gp, ct.D])
  let y2B := PtCodec.enc (msm [yx, yr] [Gp, Hp])
  let t := transcript0 T P ct Cm
  let t := TranscriptOps.append t b!"Y_0" y0B
  let t := TranscriptOps.append t b!"Y_1" y1B
  let t := TranscriptOps.append t b!"Y_2" y2B
  let (c, _) := challengeScalar (Sc := Sc) t b!"c"
  let zs := c * s + ys
  let zx := c * x + yx
  let zr := c * r + yr
  y0B ++ y1B ++ y2B ++ ScCodec.enc zs ++ ScCodec.enc zx ++ ScCodec.enc zr

def new (T : Type) [TranscriptOps T] (s : Sc) (P : Pt) (ct : Ct Pt) (Cm : Pt) (r : Sc) (amount : Nat)
    (ys yx yr : Sc) : Option Bytes :=
  let x : Sc := ScCodec.ofNat amount
  if !(decryptTarget s ct == x • Gp) then none
  else if !(Cm == pedersenWith x r) then none
  else some (PtCodec.enc P ++ ct.enc ++ PtCodec.enc Cm ++ prove T s P ct Cm r x ys yx yr)

end CtCmtEq

/-! ## grouped-ciphertext validity, 2 and 3 handles -/
namespace Validity

/-- the sigma-level proof (shared by the plain and the batched instructions) -/
structure Proof (Sc Pt : Type) where
  yBs : List Bytes     -- Y_0 .. Y_n compressed
  Ys : List Pt
  zr : Sc
  zx : Sc

/-- parse `n+1` points then `z_r`, `z_x` starting at `off` -/
def parseProof (n : Nat) (b : Bytes) (off : Nat) : Option (Proof Sc Pt) := do
  let Ys ← decPts b off (n + 1)
  let zr ← scAt b (off + 32 * (n + 1))
  let zx ← scAt b (off + 32 * (n + 1) + 32)
  pure ⟨(List.range (n + 1)).map (fun i => slice b (off + 32 * i) 32), Ys, zr, zx⟩

/-- `verify_direct`: challenges after the domain separator (`t` = transcript so far) -/
def challengesDirect (n : Nat) (t : T) (pf : Proof Sc Pt) : Sc × Sc :=
  let t := TranscriptOps.append t b!"dom-sep" b!"validity-proof"
  let t := appendU64 t b!"handles" n
  let t := TranscriptOps.append t b!"Y_0" (pf.yBs.getD 0 [])
  let t := TranscriptOps.append t b!"Y_1" (pf.yBs.getD 1 [])
  let t := TranscriptOps.append t b!"Y_2" (pf.yBs.getD 2 [])
  let t := if n = 3 then TranscriptOps.append t b!"Y_3" (pf.yBs.getD 3 []) else t
  let (c, t) := challengeScalar (Sc := Sc) t b!"c"
  let t := appendScalar t b!"z_r" pf.zr
  let t := appendScalar t b!"z_x" pf.zx
  let (w, _) := challengeScalar (Sc := Sc) t b!"w"
  (c, w)

/-- masking commitments that must not be the identity encoding: all but the last handle's -/
def yPolicy (n : Nat) (pf : Proof Sc Pt) : Bool :=
  (List.range n).all fun i => !isZeroEnc (pf.yBs.getD i [])

/-- multiscalar check of `verify_direct` for 2 handles -/
def equation2 (Ps : List Pt) (g : GCt Pt) (pf : Proof Sc Pt) (c w : Sc) : Pt :=
  let ww := w * w
  msm [pf.zr, pf.zx, -c, -(1 : Sc),
       w * pf.zr, (-w) * c, -w,
       ww * pf.zr, (-ww) * c, -ww]
      [Hp, Gp, g.C, pf.Ys.getD 0 0,
       Ps.getD 0 0, g.Ds.getD 0 0, pf.Ys.getD 1 0,
       Ps.getD 1 0, g.Ds.getD 1 0, pf.Ys.getD 2 0]

/-- multiscalar check of `verify_direct` for 3 handles -/
def equation3 (Ps : List Pt) (g : GCt Pt) (pf : Proof Sc Pt) (c w : Sc) : Pt :=
  let ww := w * w
  let www := w * ww
  msm [pf.zr, pf.zx, -c, -(1 : Sc),
       w * pf.zr, (-w) * c, -w,
       ww * pf.zr, (-ww) * c, -ww,
       www * pf.zr, (-www) * c, -www]
      [Hp, Gp, g.C, pf.Ys.getD 0 0,
       Ps.getD 0 0, g.Ds.getD 0 0, pf.Ys.getD 1 0,
       Ps.getD 1 0, g.Ds.getD 1 0, pf.Ys.getD 2 0,
       Ps.getD 2 0, g.Ds.getD 2 0, pf.Ys.getD 3 0]

def equation (n : Nat) (Ps : List Pt) (g : GCt Pt) (pf : Proof Sc Pt) (c w : Sc) : Pt :=
  if n = 3 then equation3 Ps g pf c w else equation2 Ps g pf c w

/-- `verify_direct` -/
def verifyDirect (n : Nat) (t : T) (Ps : List Pt) (g : GCt Pt) (pf : Proof Sc Pt) : Bool :=
  yPolicy n pf &&
  (let cw := challengesDirect n t pf
   equation n Ps g pf cw.1 cw.2 == 0)

/-- `new_direct` with nonces `y_r, y_x`; returns proof bytes -/
def proveDirect (n : Nat) (t : T) (Ps : List Pt) (x r : Sc) (yr yx : Sc) : Bytes :=
  let y0B := PtCodec.enc (msm [yr, yx] [Hp, Gp])
  let yBs := y0B :: Ps.map fun P => PtCodec.enc (yr • P)
  let t := TranscriptOps.append t b!"dom-sep" b!"validity-proof"
  let t := appendU64 t b!"handles" n
  let t := TranscriptOps.append t b!"Y_0" (yBs.getD 0 [])
  let t := TranscriptOps.append t b!"Y_1" (yBs.getD 1 [])
  let t := TranscriptOps.append t b!"Y_2" (yBs.getD 2 [])
  let t := if n = 3 then TranscriptOps.append t b!"Y_3" (yBs.getD 3 []) else t
  let (c, _) := challengeScalar (Sc := Sc) t b!"c"
  let zr := c * r + yr
  let zx := c * x + yx
  yBs.flatten ++ ScCodec.enc zr ++ ScCodec.enc zx

/-- labels of the public keys in `hash_context_into_transcript` -/
def keyLabels : List Bytes := [b!"first-pubkey", b!"second-pubkey", b!"third-pubkey"]

def appendKeys (t : T) (Ps : List Pt) : T :=
  (List.zip keyLabels Ps).foldl (fun t lp => TranscriptOps.append t lp.1 (PtCodec.enc lp.2)) t

def instrLabel (n : Nat) : Bytes :=
  if n = 3 then b!"grouped-ciphertext-validity-3-handles-instruction"
  else b!"grouped-ciphertext-validity-2-handles-instruction"

/-- plain instruction: `n` keys, one grouped ciphertext | proof -/
structure Parsed (Sc Pt : Type) where
  Ps : List Pt
  g : GCt Pt
  pf : Proof Sc Pt

/-- context = n·32 (keys) + 32·(n+1) (grouped ciphertext); proof = 32·(n+3) -/
def parse (n : Nat) (b : Bytes) : Option (Parsed Sc Pt) :=
  if b.length ≠ 32 * n + 32 * (n + 1) + 32 * (n + 3) then none else do
    let Ps ← decPts b 0 n
    let g ← GCt.dec n (slice b (32 * n) (32 * (n + 1)))
    let pf ← parseProof n b (32 * n + 32 * (n + 1))
    pure ⟨Ps, g, pf⟩

def transcript0 (T : Type) [TranscriptOps T] (n : Nat) (Ps : List Pt) (g : GCt Pt) : T :=
  let t : T := newTranscript (instrLabel n)
  let t := appendKeys t Ps
  TranscriptOps.append t b!"grouped-ciphertext" g.enc

/-- every key but the last, and the commitment, must not be the identity -/
def stmtPolicy (n : Nat) (Ps : List Pt) (Cs : List Pt) : Bool :=
  ((Ps.take (n - 1)).all fun P => !(P == 0)) && (Cs.all fun C => !(C == 0))

def check (T : Type) [TranscriptOps T] (n : Nat) (p : Parsed Sc Pt) : Bool :=
  stmtPolicy n p.Ps [p.g.C] && verifyDirect n (transcript0 T n p.Ps p.g) p.Ps p.g p.pf

def verifyProof (Sc Pt T : Type)
    [Add Sc] [Mul Sc] [Neg Sc] [Sub Sc] [Zero Sc] [One Sc] [Inv Sc]
    [Add Pt] [Neg Pt] [Sub Pt] [Zero Pt] [SMul Sc Pt] [BEq Pt]
    [PtCodec Pt] [ScCodec Sc] [PedGens Pt] [TranscriptOps T] (n : Nat) (b : Bytes) : Bool :=
  match parse (Sc := Sc) (Pt := Pt) n b with
  | none => false
  | some p => check T n p

def gctEq (a b : GCt Pt) : Bool :=
  a.C == b.C && a.Ds.length == b.Ds.length && (List.zipWith (· == ·) a.Ds b.Ds).all id

/-- `GroupedCiphertext{2,3}HandlesValidityProofData::new` -/
def new (T : Type) [TranscriptOps T] (n : Nat) (Ps : List Pt) (g : GCt Pt) (amount : Nat) (r : Sc)
    (yr yx : Sc) : Option Bytes :=
  let x : Sc := ScCodec.ofNat amount
  if !(gctEq g (groupedEncryptWith Ps x r)) then none
  else some ((Ps.map PtCodec.enc).flatten ++ g.enc ++
             proveDirect n (transcript0 T n Ps g) Ps x r yr yx)

end Validity

/-! ## batched grouped-ciphertext validity (lo/hi combined with challenge `t`) -/
namespace BatchedValidity
open Validity

structure Parsed (Sc Pt : Type) where
  Ps : List Pt
  lo : GCt Pt
  hi : GCt Pt
  pf : Proof Sc Pt

def parse (n : Nat) (b : Bytes) : Option (Parsed Sc Pt) :=
  if b.length ≠ 32 * n + 2 * (32 * (n + 1)) + 32 * (n + 3) then none else do
    let Ps ← decPts b 0 n
    let lo ← GCt.dec n (slice b (32 * n) (32 * (n + 1)))
    let hi ← GCt.dec n (slice b (32 * n + 32 * (n + 1)) (32 * (n + 1)))
    let pf ← parseProof n b (32 * n + 2 * (32 * (n + 1)))
    pure ⟨Ps, lo, hi, pf⟩

def instrLabel (n : Nat) : Bytes :=
  if n = 3 then b!"batched-grouped-ciphertext-validity-3-handles-instruction"
  else b!"batched-grouped-ciphertext-validity-2-handles-instruction"

/-- transcript up to (and including) the batched domain separator -/
def transcript0 (T : Type) [TranscriptOps T] (n : Nat) (Ps : List Pt) (lo hi : GCt Pt) : T :=
  let t : T := newTranscript (instrLabel n)
  let t := appendKeys t Ps
  let t := TranscriptOps.append t b!"grouped-ciphertext-lo" lo.enc
  let t := TranscriptOps.append t b!"grouped-ciphertext-hi" hi.enc
  let t := TranscriptOps.append t b!"dom-sep" b!"batched-validity-proof"
  appendU64 t b!"handles" n

/-- the challenge `t` and the transcript after it -/
def challengeT (T : Type) [TranscriptOps T] (n : Nat) (Ps : List Pt) (lo hi : GCt Pt) : Sc × T :=
  challengeScalar (Sc := Sc) (transcript0 T n Ps lo hi) b!"t"

/-- `lo + hi * t` on the commitment and on every handle -/
def combine (lo hi : GCt Pt) (t : Sc) : GCt Pt :=
  ⟨lo.C + t • hi.C, List.zipWith (fun l h => l + t • h) lo.Ds hi.Ds⟩

def check (T : Type) [TranscriptOps T] (n : Nat) (p : Parsed Sc Pt) : Bool :=
  stmtPolicy n p.Ps [p.lo.C, p.hi.C] &&
  (let tt := challengeT (Sc := Sc) T n p.Ps p.lo p.hi
   verifyDirect n tt.2 p.Ps (combine p.lo p.hi tt.1) p.pf)

def verifyProof (Sc Pt T : Type)
    [Add Sc] [Mul Sc] [Neg Sc] [Sub Sc] [Zero Sc] [One Sc] [Inv Sc]
    [Add Pt] [Neg Pt] [Sub Pt] [Zero Pt] [SMul Sc Pt] [BEq Pt]
    [PtCodec Pt] [ScCodec Sc] [PedGens Pt] [TranscriptOps T] (n : Nat) (b : Bytes) : Bool :=
  match parse (Sc := Sc) (Pt := Pt) n b with
  | none => false
  | some p => check T n p

/-- `BatchedGroupedCiphertext{2,3}HandlesValidityProofData::new` -/
def new (T : Type) [TranscriptOps T] (n : Nat) (Ps : List Pt) (lo hi : GCt Pt)
    (amountLo amountHi : Nat) (rLo rHi : Sc) (yr yx : Sc) : Option Bytes :=
  let xLo : Sc := ScCodec.ofNat amountLo
  let xHi : Sc := ScCodec.ofNat amountHi
  if !(gctEq lo (groupedEncryptWith Ps xLo rLo)) then none
  else if !(gctEq hi (groupedEncryptWith Ps xHi rHi)) then none
  else
    let tt := challengeT (Sc := Sc) T n Ps lo hi
    let x := xLo + xHi * tt.1
    let r := rLo + rHi * tt.1
    some ((Ps.map PtCodec.enc).flatten ++ lo.enc ++ hi.enc ++ proveDirect n tt.2 Ps x r yr yx)

end BatchedValidity

/-! ## percentage-with-cap
    (360 bytes: C_pct, C_delta, C_claimed, max_value(u64 LE) |
     Y_max, z_max, c_max, Y_delta, Y_claimed, z_x, z_delta, z_claimed) -/
namespace Cap

structure Parsed (Sc Pt : Type) where
  Cm : Pt          -- percentage commitment
  Cd : Pt          -- delta commitment
  Cc : Pt          -- claimed commitment
  maxValue : Nat
  ymB : Bytes
  ydB : Bytes
  ycB : Bytes
  Ym : Pt
  Yd : Pt
  Yc : Pt
  zm : Sc
  cm : Sc
  zx : Sc
  zd : Sc
  zc : Sc

def parse (b : Bytes) : Option (Parsed Sc Pt) :=
  if b.length ≠ 360 then none else do
    let Cm ← ptAt b 0
    let Cd ← ptAt b 32
    let Cc ← ptAt b 64
    let Ym ← ptAt b 104
    let zm ← scAt b 136
    let cm ← scAt b 168
    let Yd ← ptAt b 200
    let Yc ← ptAt b 232
    let zx ← scAt b 264
    let zd ← scAt b 296
    let zc ← scAt b 328
    pure ⟨Cm, Cd, Cc, leNat (slice b 96 8), slice b 104 32, slice b 200 32, slice b 232 32,
          Ym, Yd, Yc, zm, cm, zx, zd, zc⟩

def transcript0 (T : Type) [TranscriptOps T] (Cm Cd Cc : Pt) (maxValue : Nat) : T :=
  let t : T := newTranscript b!"percentage-with-cap-instruction"
  let t := TranscriptOps.append t b!"percentage-commitment" (PtCodec.enc Cm)
  let t := TranscriptOps.append t b!"delta-commitment" (PtCodec.enc Cd)
  let t := TranscriptOps.append t b!"claimed-commitment" (PtCodec.enc Cc)
  let t := appendU64 t b!"max-value" maxValue
  TranscriptOps.append t b!"dom-sep" b!"percentage-with-cap-proof"

/-- challenge `c` after the three masking commitments -/
def challengeC (Sc T : Type) [ScCodec Sc] [TranscriptOps T] (Cm Cd Cc : Pt) (maxValue : Nat)
    (ymB ydB ycB : Bytes) : Sc × T :=
  let t := transcript0 T Cm Cd Cc maxValue
  let t := TranscriptOps.append t b!"Y_max_proof" ymB
  let t := TranscriptOps.append t b!"Y_delta" ydB
  let t := TranscriptOps.append t b!"Y_claimed" ycB
  challengeScalar (Sc := Sc) t b!"c"

def challenges (T : Type) [TranscriptOps T] (p : Parsed Sc Pt) : Sc × Sc :=
  let ct := challengeC Sc T p.Cm p.Cd p.Cc p.maxValue p.ymB p.ydB p.ycB
  let t := appendScalar ct.2 b!"z_max" p.zm
  let t := appendScalar t b!"c_max_proof" p.cm
  let t := appendScalar t b!"z_x" p.zx
  let t := appendScalar t b!"z_delta_real" p.zd
  let t := appendScalar t b!"z_claimed" p.zc
  let (w, _) := challengeScalar (Sc := Sc) t b!"w"
  (ct.1, w)

def policy (p : Parsed Sc Pt) : Bool :=
  !(p.Cm == 0 || p.Cd == 0 || p.Cc == 0) &&
  !isZeroEnc p.ymB && !isZeroEnc p.ydB && !isZeroEnc p.ycB

def equation (p : Parsed Sc Pt) (c w : Sc) : Pt :=
  let m : Sc := ScCodec.ofNat p.maxValue
  let ceq := c - p.cm
  let ww := w * w
  msm [p.cm, (-p.cm) * m, -p.zm, (1 : Sc),
       w * p.zx, w * p.zd, (-w) * ceq, -w,
       ww * p.zx, ww * p.zc, (-ww) * ceq, -ww]
      [p.Cm, Gp, Hp, p.Ym,
       Gp, Hp, p.Cd, p.Yd,
       Gp, Hp, p.Cc, p.Yc]

def check (T : Type) [TranscriptOps T] (p : Parsed Sc Pt) : Bool :=
  policy p &&
  (let cw := challenges T p
   equation p cw.1 cw.2 == 0)

def verifyProof (Sc Pt T : Type)
    [Add Sc] [Mul Sc] [Neg Sc] [Sub Sc] [Zero Sc] [One Sc] [Inv Sc]
    [Add Pt] [Neg Pt] [Sub Pt] [Zero Pt] [SMul Sc Pt] [BEq Pt]
    [PtCodec Pt] [ScCodec Sc] [PedGens Pt] [TranscriptOps T] (b : Bytes) : Bool :=
  match parse (Sc := Sc) (Pt := Pt) b with
  | none => false
  | some p => check T p

/-- proof fields in wire order -/
def encodeProof (ymB : Bytes) (zm cm : Sc) (ydB ycB : Bytes) (zx zd zc : Sc) : Bytes :=
  ymB ++ ScCodec.enc zm ++ ScCodec.enc cm ++ ydB ++ ycB ++
  ScCodec.enc zx ++ ScCodec.enc zd ++ ScCodec.enc zc

/-- `create_proof_percentage_above_max`: equality branch simulated
    (`zx zd zc ceq` random), max branch real (nonce `ym`) -/
def proveAboveMax (T : Type) [TranscriptOps T] (Cm Cd Cc : Pt) (maxValue : Nat) (rPct : Sc)
    (zx zd zc ceq ym : Sc) : Bytes :=
  let ydB := PtCodec.enc (msm [zx, zd, -ceq] [Gp, Hp, Cd])
  let ycB := PtCodec.enc (msm [zx, zc, -ceq] [Gp, Hp, Cc])
  let ymB := PtCodec.enc (ym • Hp)
  let c := (challengeC Sc T Cm Cd Cc maxValue ymB ydB ycB).1
  let cmax := c - ceq
  let zm := cmax * rPct + ym
  encodeProof ymB zm cmax ydB ycB zx zd zc

/-- `create_proof_percentage_below_max`: max branch simulated (`zm cmax` random),
    equality branch real (nonces `yx yd yc`) -/
def proveBelowMax (T : Type) [TranscriptOps T] (Cm Cd Cc : Pt) (maxValue : Nat)
    (x rDelta rClaimed : Sc) (zm cmax yx yd yc : Sc) : Bytes :=
  let m : Sc := ScCodec.ofNat maxValue
  let ymB := PtCodec.enc (msm [zm, -cmax, cmax * m] [Hp, Cm, Gp])
  let ydB := PtCodec.enc (msm [yx, yd] [Gp, Hp])
  let ycB := PtCodec.enc (msm [yx, yc] [Gp, Hp])
  let c := (challengeC Sc T Cm Cd Cc maxValue ymB ydB ycB).1
  let ceq := c - cmax
  let zx := ceq * x + yx
  let zd := ceq * rDelta + yd
  let zc := ceq * rClaimed + yc
  encodeProof ymB zm cmax ydB ycB zx zd zc

/-- the ten nonces of `PercentageWithCapProof::new`, in drawing order:
    above-max branch `zx zd zc ceq ym`, then below-max branch `zm cmax yx yd yc` -/
structure Nonces (Sc : Type) where
  a_zx : Sc
  a_zd : Sc
  a_zc : Sc
  a_ceq : Sc
  a_ym : Sc
  b_zm : Sc
  b_cmax : Sc
  b_yx : Sc
  b_yd : Sc
  b_yc : Sc

/-- `PercentageWithCapProof::new`: both branches are computed, `ct_gt(max_value, percentage_amount)`
    selects the below-max one -/
def prove (T : Type) [TranscriptOps T] (Cm Cd Cc : Pt) (maxValue pctAmount deltaAmount : Nat)
    (rPct rDelta rClaimed : Sc) (n : Nonces Sc) : Bytes :=
  if maxValue > pctAmount then
    proveBelowMax T Cm Cd Cc maxValue (ScCodec.ofNat deltaAmount) rDelta rClaimed
      n.b_zm n.b_cmax n.b_yx n.b_yd n.b_yc
  else
    proveAboveMax T Cm Cd Cc maxValue rPct n.a_zx n.a_zd n.a_zc n.a_ceq n.a_ym

/-- `PercentageWithCapProofData::new` (with the repair of finding F2: the delta-commitment
    consistency check applies only below the cap) -/
def new (T : Type) [TranscriptOps T] (Cm Cd Cc : Pt) (maxValue pctAmount deltaAmount : Nat)
    (rPct rDelta rClaimed : Sc) (n : Nonces Sc) : Option Bytes :=
  if !(Cm == pedersenWith (ScCodec.ofNat pctAmount : Sc) rPct) then none
  else if pctAmount < maxValue && !(Cd == pedersenWith (ScCodec.ofNat deltaAmount : Sc) rDelta) then none
  else if !(Cc == pedersenWith (ScCodec.ofNat deltaAmount : Sc) rClaimed) then none
  else some (PtCodec.enc Cm ++ PtCodec.enc Cd ++ PtCodec.enc Cc ++ natLE maxValue 8 ++
             prove T Cm Cd Cc maxValue pctAmount deltaAmount rPct rDelta rClaimed n)

end Cap

end
end Zk.Sigma

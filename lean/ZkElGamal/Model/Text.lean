import ZkElGamal.Model.Bytes
/-!
Text codecs used by the SDK: standard base64 with canonical padding
(`base64::prelude::BASE64_STANDARD`), and the JSON byte-array form of key files
(`serde_json` of `Vec<u8>`). Input text is a byte string (UTF-8 of the `&str`).
-/
namespace Zk.Text

def b64Alphabet : List UInt8 :=
  (List.range 26).map (fun i => UInt8.ofNat (65 + i)) ++
  (List.range 26).map (fun i => UInt8.ofNat (97 + i)) ++
  (List.range 10).map (fun i => UInt8.ofNat (48 + i)) ++ [43, 47]

def b64Val (c : UInt8) : Option Nat :=
  if 65 ≤ c ∧ c ≤ 90 then some (c.toNat - 65)
  else if 97 ≤ c ∧ c ≤ 122 then some (c.toNat - 97 + 26)
  else if 48 ≤ c ∧ c ≤ 57 then some (c.toNat - 48 + 52)
  else if c = 43 then some 62
  else if c = 47 then some 63
  else none

def b64Char (v : Nat) : UInt8 := b64Alphabet.getD v 61

/-- `BASE64_STANDARD.encode` -/
def b64Encode : Bytes → Bytes
  | [] => []
  | [a] =>
    let n := a.toNat * 16
    [b64Char (n / 64), b64Char (n % 64), 61, 61]
  | [a, b] =>
    let n := (a.toNat * 256 + b.toNat) * 4
    [b64Char (n / 4096), b64Char (n / 64 % 64), b64Char (n % 64), 61]
  | a :: b :: c :: rest =>
    let n := a.toNat * 65536 + b.toNat * 256 + c.toNat
    b64Char (n / 262144) :: b64Char (n / 4096 % 64) :: b64Char (n / 64 % 64) :: b64Char (n % 64) ::
      b64Encode rest

/-- `BASE64_STANDARD.decode`: length multiple of 4, canonical padding, zero trailing bits -/
def b64Decode : Bytes → Option Bytes
  | [] => some []
  | [a, b, 61, 61] => do
    let x ← b64Val a; let y ← b64Val b
    if y % 16 ≠ 0 then none else some [UInt8.ofNat (x * 4 + y / 16)]
  | [a, b, c, 61] => do
    let x ← b64Val a; let y ← b64Val b; let z ← b64Val c
    if z % 4 ≠ 0 then none else
      let n := x * 4096 + y * 64 + z
      some [UInt8.ofNat (n / 1024), UInt8.ofNat (n / 4 % 256)]
  | a :: b :: c :: d :: rest => do
    let x ← b64Val a; let y ← b64Val b; let z ← b64Val c; let w ← b64Val d
    let n := x * 262144 + y * 4096 + z * 64 + w
    let r ← b64Decode rest
    some (UInt8.ofNat (n / 65536) :: UInt8.ofNat (n / 256 % 256) :: UInt8.ofNat (n % 256) :: r)
  | _ => none

/-- `impl_from_str!(TYPE, BYTES_LEN = n, BASE64_LEN = maxLen)` -/
def podFromStr (n maxLen : Nat) (s : Bytes) : Option Bytes :=
  if s.length > maxLen then none else
  match b64Decode s with
  | some d => if d.length = n then some d else none
  | none => none

/-! JSON array of bytes, as `serde_json::from_reader::<_, Vec<u8>>` accepts it -/
def isWs (c : UInt8) : Bool := c = 32 || c = 9 || c = 10 || c = 13
def isDigit (c : UInt8) : Bool := 48 ≤ c && c ≤ 57

def skipWs : Bytes → Bytes
  | c :: r => if isWs c then skipWs r else c :: r
  | [] => []

/-- a JSON number that serde accepts as `u8`: decimal digits, no leading zero, ≤ 255 -/
def takeU8 (s : Bytes) : Option (UInt8 × Bytes) :=
  let ds := s.takeWhile isDigit
  let rest := s.dropWhile isDigit
  if ds.isEmpty then none
  else if ds.length > 1 ∧ ds.head? = some 48 then none
  else if ds.length > 3 then none
  else
    let v := ds.foldl (fun acc d => acc * 10 + (d.toNat - 48)) 0
    if v > 255 then none else
    -- a following '.', 'e', 'E' makes it a float: rejected
    match rest with
    | c :: _ => if c = 46 || c = 101 || c = 69 then none else some (UInt8.ofNat v, rest)
    | [] => some (UInt8.ofNat v, rest)

def jsonElems (fuel : Nat) (s : Bytes) (acc : Bytes) : Option (Bytes × Bytes) :=
  match fuel with
  | 0 => none
  | fuel + 1 =>
    match takeU8 (skipWs s) with
    | none => none
    | some (v, r) =>
      match skipWs r with
      | 44 :: r' => jsonElems fuel r' (acc ++ [v])
      | 93 :: r' => some (acc ++ [v], r')
      | _ => none

/-- whole document: `[` elements `]` and nothing but whitespace after -/
def jsonBytes (s : Bytes) : Option Bytes :=
  match skipWs s with
  | 91 :: r =>
    match skipWs r with
    | 93 :: r' => if (skipWs r').isEmpty then some [] else none
    | _ =>
      match jsonElems (s.length + 1) r [] with
      | some (v, r') => if (skipWs r').isEmpty then some v else none
      | none => none
  | _ => none

/-- `serde_json::to_string(&bytes)` : `[1,2,3]` -/
def natDigits (n : Nat) : Bytes :=
  if n < 10 then [UInt8.ofNat (48 + n)]
  else if n < 100 then [UInt8.ofNat (48 + n / 10), UInt8.ofNat (48 + n % 10)]
  else [UInt8.ofNat (48 + n / 100), UInt8.ofNat (48 + n / 10 % 10), UInt8.ofNat (48 + n % 10)]
def jsonOfBytes (b : Bytes) : Bytes :=
  let parts : List Bytes := b.map fun (x : UInt8) => natDigits x.toNat
  [91] ++ (parts.intersperse [44]).flatten ++ [93]

end Zk.Text

import ZkElGamal.Model.Label
/-!
Instruction encoding (`instruction.rs`) and context-state layout (`state.rs`):
hand-written model against the *pinned* version-1 tables below. The theorems of
C15/C16/C17 show that the tables regenerated from the source on every run
(`Generated/Tables.lean`) equal these pinned tables.
-/
namespace Zk.Wire

/-- documented order of `ProofInstruction` (discriminator = index) -/
def instructionNames : List Bytes := [
  b!"CloseContextState", b!"VerifyZeroCiphertext", b!"VerifyCiphertextCiphertextEquality",
  b!"VerifyCiphertextCommitmentEquality", b!"VerifyPubkeyValidity", b!"VerifyPercentageWithCap",
  b!"VerifyBatchedRangeProofU64", b!"VerifyBatchedRangeProofU128", b!"VerifyBatchedRangeProofU256",
  b!"VerifyGroupedCiphertext2HandlesValidity", b!"VerifyBatchedGroupedCiphertext2HandlesValidity",
  b!"VerifyGroupedCiphertext3HandlesValidity", b!"VerifyBatchedGroupedCiphertext3HandlesValidity"]

/-- documented order of `ProofType` -/
def proofTypeNames : List Bytes := [
  b!"Uninitialized", b!"ZeroCiphertext", b!"CiphertextCiphertextEquality",
  b!"CiphertextCommitmentEquality", b!"PubkeyValidity", b!"PercentageWithCap",
  b!"BatchedRangeProofU64", b!"BatchedRangeProofU128", b!"BatchedRangeProofU256",
  b!"GroupedCiphertext2HandlesValidity", b!"BatchedGroupedCiphertext2HandlesValidity",
  b!"GroupedCiphertext3HandlesValidity", b!"BatchedGroupedCiphertext3HandlesValidity"]

def enumTable (names : List Bytes) : List (Bytes × Nat) := names.zipIdx

/-- version-1 sizes: (proof type index, proof-data size, context size) -/
def proofDataSizes : List (Nat × Nat × Nat) := [
  (1, 192, 96), (2, 416, 192), (3, 320, 128), (4, 96, 32), (5, 360, 104),
  (6, 936, 264), (7, 1000, 264), (8, 1064, 264),
  (9, 320, 160), (10, 416, 256), (11, 416, 224), (12, 544, 352)]

def dataSize? (ptype : Nat) : Option Nat := (proofDataSizes.find? (·.1 == ptype)).map (·.2.1)
def contextSize? (ptype : Nat) : Option Nat := (proofDataSizes.find? (·.1 == ptype)).map (·.2.2)

/-- `solana_sdk_ids::zk_elgamal_proof_program::ID` = base58 `ZkE1Gama1Proof11111111111111111111111111111` -/
def programId : Bytes := [8, 99, 117, 172, 226, 174, 234, 40, 26, 107, 55, 77, 104, 27, 167, 106,
  83, 204, 246, 56, 192, 116, 85, 147, 108, 5, 208, 101, 64, 0, 0, 0]

structure AccountMeta where
  pubkey : Bytes
  isSigner : Bool
  isWritable : Bool
deriving DecidableEq, Repr

structure Instruction where
  programId : Bytes
  accounts : List AccountMeta
  data : Bytes
deriving DecidableEq, Repr

def writable (k : Bytes) (signer : Bool) : AccountMeta := ⟨k, signer, true⟩
def readonly (k : Bytes) (signer : Bool) : AccountMeta := ⟨k, signer, false⟩

/-- `close_context_state` -/
def closeContextState (ctxAccount ctxAuthority destination : Bytes) : Instruction :=
  { programId := programId
    accounts := [writable ctxAccount false, writable destination false, readonly ctxAuthority true]
    data := [0] }

/-- `ProofInstruction::encode_verify_proof` (`disc` = discriminator of `self`) -/
def encodeVerifyProof (disc : Nat) (ctx : Option (Bytes × Bytes)) (proofData : Bytes) : Instruction :=
  { programId := programId
    accounts := match ctx with
      | some (acct, auth) => [writable acct false, readonly auth false]
      | none => []
    data := UInt8.ofNat disc :: proofData }

/-- `ProofInstruction::encode_verify_proof_from_account` -/
def encodeVerifyProofFromAccount (disc : Nat) (ctx : Option (Bytes × Bytes)) (proofAccount : Bytes)
    (offset : Nat) : Instruction :=
  { programId := programId
    accounts := match ctx with
      | some (acct, auth) => [readonly proofAccount false, writable acct false, readonly auth false]
      | none => [readonly proofAccount false]
    data := UInt8.ofNat disc :: natLE offset 4 }

/-- `ProofInstruction::instruction_type` -/
def instructionType (input : Bytes) : Option Nat :=
  match input with
  | [] => none
  | b :: _ => if b.toNat < instructionNames.length then some b.toNat else none

/-- `ProofInstruction::proof_data::<T, U>` for a `T` of `size` bytes (alignment 1):
    `input.get(1..)` then `bytemuck::try_from_bytes`. -/
def proofData (size : Nat) (input : Bytes) : Option Bytes :=
  match input with
  | [] => none
  | _ :: rest => if rest.length = size then some rest else none

/-- `PodProofType -> ProofType` (`FromPrimitive::from_u8`) -/
def proofTypeOfByte (b : UInt8) : Option Nat :=
  if b.toNat < proofTypeNames.length then some b.toNat else none

/-- `ProofContextState::<T>::encode` -/
def encodeState (authority : Bytes) (ptype : Nat) (ctx : Bytes) : Bytes :=
  authority ++ [UInt8.ofNat ptype] ++ ctx

/-- `ProofContextState::<T>::try_from_bytes` for a context of `ctxSize` bytes;
    returns (authority, raw proof-type byte, context) -/
def decodeState (ctxSize : Nat) (input : Bytes) : Option (Bytes × UInt8 × Bytes) :=
  if input.length = 33 + ctxSize then
    some (input.take 32, (input.drop 32).headD 0, input.drop 33)
  else none

/-- `ProofContextStateMeta::try_from_bytes` : first 33 bytes -/
def decodeMeta (input : Bytes) : Option (Bytes × UInt8) :=
  if 33 ≤ input.length then some (input.take 32, (input.drop 32).headD 0) else none

end Zk.Wire

import ZkElGamal.Model.Sigma
import Mathlib.Tactic.Module
import Mathlib.Tactic.LinearCombination
import Mathlib.Algebra.Module.Basic
import Mathlib.Algebra.Field.Basic
import Mathlib.Algebra.BigOperators.Group.List.Basic
/-!
The abstract instantiation of the model: scalars form a field `F`, points an
`F`-module `G` (this is what "prime-order group" means for the algebra), with
lawful 32-byte codecs. These laws are the *assumed* facts about
`curve25519-dalek` (trusted base); the concrete Lean instance is validated
against dalek by the correspondence check, not proved lawful.
-/
set_option linter.unusedSectionVars false
namespace Zk

/-- laws of the point codec: `decompress ∘ compress = id`, canonical decoding, identity ↦ 0³² -/
class LawfulPtCodec (G : Type) [AddCommGroup G] [PtCodec G] : Prop where
  dec_enc : ∀ P : G, PtCodec.dec (PtCodec.enc P) = some P
  enc_dec : ∀ (b : Bytes) (P : G), PtCodec.dec b = some P → PtCodec.enc P = b
  enc_zero : PtCodec.enc (0 : G) = zero32

/-- laws of the scalar codec -/
class LawfulScCodec (F : Type) [Field F] [ScCodec F] : Prop where
  canon_enc : ∀ s : F, ScCodec.canon (ScCodec.enc s) = some s
  enc_canon : ∀ (b : Bytes) (s : F), ScCodec.canon b = some s → ScCodec.enc s = b
  ofNat_cast : ∀ n : ℕ, (ScCodec.ofNat n : F) = (n : F)

section
variable {F G : Type} [Field F] [AddCommGroup G] [Module F G] [DecidableEq G] [PtCodec G] [LawfulPtCodec G]

/-- a decodable encoding is the all-zero string iff the point is the identity -/
theorem dec_zero_iff {b : Bytes} {P : G} (h : PtCodec.dec b = some P) : b = zero32 ↔ P = 0 := by
  constructor
  · intro hb
    have h0 : PtCodec.dec (zero32) = some (0 : G) := by
      rw [← LawfulPtCodec.enc_zero (G := G)]; exact LawfulPtCodec.dec_enc 0
    rw [hb, h0] at h
    exact (Option.some.inj h).symm
  · intro hP
    rw [← LawfulPtCodec.enc_dec b P h, hP, LawfulPtCodec.enc_zero]

theorem isZeroEnc_iff {b : Bytes} {P : G} (h : PtCodec.dec b = some P) :
    Sigma.isZeroEnc b = true ↔ P = 0 := by
  unfold Sigma.isZeroEnc
  rw [beq_iff_eq]
  exact dec_zero_iff h

theorem enc_injective {P Q : G} (h : PtCodec.enc P = PtCodec.enc Q) : P = Q := by
  have := LawfulPtCodec.dec_enc P
  rw [h, LawfulPtCodec.dec_enc Q] at this
  exact (Option.some.inj this).symm

end

section
variable {F G : Type} [Field F] [AddCommGroup G] [Module F G]
@[simp] theorem msm_nil_left (ps : List G) : msm ([] : List F) ps = 0 := by simp [msm]
@[simp] theorem msm_cons_cons (s : F) (ss : List F) (p : G) (ps : List G) :
    msm (s :: ss) (p :: ps) = s • p + msm ss ps := by simp [msm]
end
end Zk

import Mathlib.LinearAlgebra.Dual.Lemmas
import Mathlib.Algebra.Polynomial.Roots
import Mathlib.Algebra.Polynomial.BigOperators
/-!
The batching lemma: the exact, provable content of "the failures of two or more
equations never cancel". If not all residuals `e i` vanish, at most `k-1` weights
`w` make the folded check `Σ wⁱ • eᵢ` vanish.
-/
open Polynomial Finset

namespace Zk
variable {F G : Type} [Field F] [AddCommGroup G] [Module F G]

theorem batch_roots [DecidableEq F] (k : ℕ) (e : Fin k → G) (h : ∃ i, e i ≠ 0) :
    ∃ S : Finset F, S.card ≤ k - 1 ∧ ∀ w : F, (∑ i : Fin k, (w ^ (i : ℕ)) • e i) = 0 → w ∈ S := by
  obtain ⟨i0, hi0⟩ := h
  obtain ⟨φ, hφ⟩ := Module.Projective.exists_dual_ne_zero F hi0
  let p : F[X] := ∑ i : Fin k, C (φ (e i)) * X ^ (i : ℕ)
  have hcoeff : ∀ j : Fin k, p.coeff j = φ (e j) := by
    intro j
    simp only [p, finsetSum_coeff, coeff_C_mul, coeff_X_pow]
    rw [Finset.sum_eq_single j]
    · simp
    · intro b _ hb
      have : (j : ℕ) ≠ (b : ℕ) := fun hh => hb (Fin.ext hh.symm)
      simp [this]
    · simp
  have hp0 : p ≠ 0 := by
    intro hp
    have := hcoeff i0
    rw [hp] at this
    simp at this
    exact hφ this.symm
  have hdeg : p.natDegree ≤ k - 1 := by
    apply natDegree_sum_le_of_forall_le
    intro i _
    calc (C (φ (e i)) * X ^ (i:ℕ)).natDegree ≤ (i : ℕ) := natDegree_C_mul_X_pow_le _ _
      _ ≤ k - 1 := by omega
  refine ⟨p.roots.toFinset, ?_, ?_⟩
  · calc p.roots.toFinset.card ≤ Multiset.card p.roots := Multiset.toFinset_card_le _
      _ ≤ p.natDegree := card_roots' p
      _ ≤ k - 1 := hdeg
  · intro w hw
    rw [Multiset.mem_toFinset, mem_roots hp0, IsRoot]
    have := congrArg φ hw
    simp only [map_sum, map_smul, smul_eq_mul, map_zero] at this
    simp only [p, eval_finsetSum, eval_mul, eval_C, eval_pow, eval_X]
    rw [← this]
    apply Finset.sum_congr rfl
    intro i _; ring

variable [DecidableEq F]

/-- one equation: nothing to batch, the residual itself must vanish -/
theorem batch1 (e0 : G) (h : e0 ≠ 0) : e0 ≠ 0 := h

/-- two equations `e0 + w•e1`: at most one bad weight -/
theorem batch2 (e0 e1 : G) (h : e0 ≠ 0 ∨ e1 ≠ 0) :
    ∃ S : Finset F, S.card ≤ 1 ∧ ∀ w : F, e0 + w • e1 = 0 → w ∈ S := by
  obtain ⟨S, hS, hw⟩ := batch_roots (F := F) 2 ![e0, e1]
    (by rcases h with h | h
        · exact ⟨0, by simpa using h⟩
        · exact ⟨1, by simpa using h⟩)
  refine ⟨S, hS, fun w hz => hw w ?_⟩
  simpa [Fin.sum_univ_succ] using hz

/-- three equations `e0 + w•e1 + w²•e2`: at most two bad weights -/
theorem batch3 (e0 e1 e2 : G) (h : e0 ≠ 0 ∨ e1 ≠ 0 ∨ e2 ≠ 0) :
    ∃ S : Finset F, S.card ≤ 2 ∧ ∀ w : F, e0 + w • e1 + (w * w) • e2 = 0 → w ∈ S := by
  obtain ⟨S, hS, hw⟩ := batch_roots (F := F) 3 ![e0, e1, e2]
    (by rcases h with h | h | h
        · exact ⟨0, by simpa using h⟩
        · exact ⟨1, by simpa using h⟩
        · exact ⟨2, by simpa using h⟩)
  refine ⟨S, hS, fun w hz => hw w ?_⟩
  simp only [Fin.sum_univ_succ, Fin.sum_univ_zero]
  simp only [Matrix.cons_val_zero, Matrix.cons_val_succ, Fin.val_zero, Fin.val_succ, pow_zero, one_smul,
    zero_add, pow_one, add_zero]
  rw [← hz]; simp [pow_succ, add_assoc]

/-- four equations `e0 + w•e1 + w²•e2 + w³•e3`: at most three bad weights -/
theorem batch4 (e0 e1 e2 e3 : G) (h : e0 ≠ 0 ∨ e1 ≠ 0 ∨ e2 ≠ 0 ∨ e3 ≠ 0) :
    ∃ S : Finset F, S.card ≤ 3 ∧
      ∀ w : F, e0 + w • e1 + (w * w) • e2 + (w * (w * w)) • e3 = 0 → w ∈ S := by
  obtain ⟨S, hS, hw⟩ := batch_roots (F := F) 4 ![e0, e1, e2, e3]
    (by rcases h with h | h | h | h
        · exact ⟨0, by simpa using h⟩
        · exact ⟨1, by simpa using h⟩
        · exact ⟨2, by simpa using h⟩
        · exact ⟨3, by simpa using h⟩)
  refine ⟨S, hS, fun w hz => hw w ?_⟩
  simp only [Fin.sum_univ_succ, Fin.sum_univ_zero]
  simp only [Matrix.cons_val_zero, Matrix.cons_val_succ, Fin.val_zero, Fin.val_succ, pow_zero, one_smul,
    zero_add, pow_one, add_zero]
  rw [← hz]; simp [pow_succ, add_assoc, mul_assoc]

end Zk

import ZkElGamal.Proofs.RangeLemmas
import Mathlib.Tactic.LinearCombination
import Mathlib.Tactic.Module
/-!
Inner-product argument: folding lemmas, the `s` vector by rounds, and the prover loop
(`ippLoop`) related to the verifier's challenges and folded generators.
-/
set_option linter.unusedSectionVars false
namespace Zk.Range
open Zk

section
variable {F G : Type} [Field F] [AddCommGroup G] [Module F G]

theorem msm_nil_right' (a : List F) : msm a ([] : List G) = 0 := by
  cases a <;> simp [msm]

/-- bilinear expansion of a folded multiscalar product -/
theorem msm_fold (p q r s : F) (aL aR : List F) (gL gR : List G)
    (h1 : aL.length = aR.length) (h2 : aL.length = gL.length) (h3 : aL.length = gR.length) :
    msm (List.zipWith (fun l r' => l * p + q * r') aL aR) (List.zipWith (fun l r' => r • l + s • r') gL gR)
      = (p * r) • msm aL gL + (p * s) • msm aL gR + (q * r) • msm aR gL + (q * s) • msm aR gR := by
  induction aL generalizing aR gL gR with
  | nil => cases aR <;> cases gL <;> cases gR <;> simp_all [msm]
  | cons a aL ih =>
    cases aR with
    | nil => simp at h1
    | cons a' aR =>
    cases gL with
    | nil => simp at h2
    | cons g gL =>
    cases gR with
    | nil => simp at h3
    | cons g' gR =>
      simp only [List.zipWith_cons_cons, msm_cons_cons]
      rw [ih aR gL gR (by simpa using h1) (by simpa using h2) (by simpa using h3)]
      module

theorem ip_nil_left (b : List F) : ipScalars ([] : List F) b = 0 := by simp [ipScalars]
theorem ip_cons_cons (x y : F) (a b : List F) : ipScalars (x :: a) (y :: b) = x * y + ipScalars a b := by
  simp [ipScalars]

theorem ip_fold (p q r s : F) (aL aR bL bR : List F)
    (h1 : aL.length = aR.length) (h2 : aL.length = bL.length) (h3 : aL.length = bR.length) :
    ipScalars (List.zipWith (fun l r' => l * p + q * r') aL aR) (List.zipWith (fun l r' => l * r + s * r') bL bR)
      = (p * r) * ipScalars aL bL + (p * s) * ipScalars aL bR + (q * r) * ipScalars aR bL
        + (q * s) * ipScalars aR bR := by
  induction aL generalizing aR bL bR with
  | nil => cases aR <;> cases bL <;> cases bR <;> simp_all [ipScalars]
  | cons a aL ih =>
    cases aR with
    | nil => simp at h1
    | cons a' aR =>
    cases bL with
    | nil => simp at h2
    | cons g bL =>
    cases bR with
    | nil => simp at h3
    | cons g' bR =>
      simp only [List.zipWith_cons_cons, ip_cons_cons]
      rw [ih aR bL bR (by simpa using h1) (by simpa using h2) (by simpa using h3)]
      ring

theorem ip_append (a b c d : List F) (h : a.length = c.length) :
    ipScalars (a ++ b) (c ++ d) = ipScalars a c + ipScalars b d := by
  induction a generalizing c with
  | nil => cases c <;> simp_all [ipScalars]
  | cons x xs ih =>
    cases c with
    | nil => simp at h
    | cons y ys =>
      simp only [List.cons_append, ip_cons_cons]
      rw [ih ys (by simpa using h), add_assoc]

/-- the inner-product commitment `⟨a,g⟩ + ⟨b,h⟩ + ⟨a,b⟩•Q` -/
def Pip (Q : G) (a b : List F) (g h : List G) : G := msm a g + msm b h + ipScalars a b • Q

/-- one folding round preserves the relation up to `u²•L + u⁻²•R` -/
theorem Pip_fold (Q : G) (u : F) (hu : u ≠ 0) (aL aR bL bR : List F) (gL gR hL hR : List G)
    (h1 : aL.length = aR.length) (h2 : aL.length = bL.length) (h3 : aL.length = bR.length)
    (h4 : aL.length = gL.length) (h5 : aL.length = gR.length) (h6 : aL.length = hL.length)
    (h7 : aL.length = hR.length) :
    Pip Q (List.zipWith (fun l r => l * u + u⁻¹ * r) aL aR) (List.zipWith (fun l r => l * u⁻¹ + u * r) bL bR)
      (List.zipWith (fun l r => u⁻¹ • l + u • r) gL gR) (List.zipWith (fun l r => u • l + u⁻¹ • r) hL hR)
    = Pip Q (aL ++ aR) (bL ++ bR) (gL ++ gR) (hL ++ hR)
      + (u * u) • msm (aL ++ bR ++ [ipScalars aL bR]) (gR ++ hL ++ [Q])
      + (u⁻¹ * u⁻¹) • msm (aR ++ bL ++ [ipScalars aR bL]) (gL ++ hR ++ [Q]) := by
  unfold Pip
  rw [msm_fold u u⁻¹ u⁻¹ u aL aR gL gR h1 h4 h5]
  have hb := msm_fold u⁻¹ u u u⁻¹ bL bR hL hR (by omega) (by omega) (by omega)
  have hb' : (List.zipWith (fun l r => l * u⁻¹ + u * r) bL bR) = (List.zipWith (fun l r' => l * u⁻¹ + u * r') bL bR) := rfl
  rw [hb]
  rw [ip_fold u u⁻¹ u⁻¹ u aL aR bL bR h1 h2 h3]
  rw [msm_append _ _ _ _ h4, msm_append _ _ _ _ (by omega : bL.length = hL.length), ip_append _ _ _ _ h2]
  rw [msm_append _ _ _ _ (by simp; omega), msm_append _ _ _ _ h5]
  rw [msm_append _ _ _ _ (by simp; omega), msm_append _ _ _ _ (by omega : aR.length = gL.length)]
  simp only [msm_cons_cons, msm_nil_left]
  have e1 : u * u⁻¹ = 1 := mul_inv_cancel₀ hu
  have e2 : u⁻¹ * u = 1 := inv_mul_cancel₀ hu
  simp only [e1, e2]
  module


/-- the `s` vector by rounds: challenge of the first round decides the top bit of the index -/
def sFold : List F → List F
  | [] => [1]
  | u :: us => (sFold us).map (u⁻¹ * ·) ++ (sFold us).map (u * ·)

def sFoldInv : List F → List F
  | [] => [1]
  | u :: us => (sFoldInv us).map (u * ·) ++ (sFoldInv us).map (u⁻¹ * ·)

theorem sFold_length (us : List F) : (sFold us).length = 2 ^ us.length := by
  induction us with
  | nil => rfl
  | cons u us ih => simp [sFold, ih, pow_succ]; ring

theorem sFold_reverse (us : List F) : (sFold us).reverse = sFoldInv us := by
  induction us with
  | nil => rfl
  | cons u us ih => simp [sFold, sFoldInv, ← ih, List.map_reverse]

theorem sVector_scale (c k : F) (l : List F) (s : List F) :
    l.foldl (fun s usq => s ++ s.map (· * usq)) (s.map (c * ·))
      = (l.foldl (fun s usq => s ++ s.map (· * usq)) s).map (c * ·) := by
  induction l generalizing s with
  | nil => rfl
  | cons x l ih =>
    simp only [List.foldl_cons]
    rw [← ih]; congr 1
    simp [List.map_map, Function.comp_def, mul_assoc]

theorem foldl_mul_init (us : List F) (c : F) : us.foldl (· * ·) c = c * us.foldl (· * ·) 1 := by
  induction us generalizing c with
  | nil => simp
  | cons u us ih => simp only [List.foldl_cons, one_mul]; rw [ih (c * u), ih u]; ring

theorem sVector_eq_sFold (us : List F) (h : ∀ u ∈ us, u ≠ 0) :
    sVector ((us.foldl (· * ·) 1)⁻¹) (us.map fun u => u * u) = sFold us := by
  induction us with
  | nil => simp [sVector, sFold]
  | cons u us ih =>
    have hu : u ≠ 0 := h u (by simp)
    have ih := ih (fun v hv => h v (by simp [hv]))
    unfold sVector at ih ⊢
    simp only [List.map_cons, List.reverse_cons, List.foldl_append, List.foldl_cons, List.foldl_nil, one_mul]
    rw [foldl_mul_init us u, mul_inv]
    have : [u⁻¹ * (us.foldl (· * ·) 1)⁻¹] = [(us.foldl (· * ·) 1)⁻¹].map (u⁻¹ * ·) := rfl
    rw [this, sVector_scale u⁻¹ 0, ih, sFold]
    congr 1
    rw [List.map_map]; apply List.map_congr_left; intro a _
    simp only [Function.comp]
    rw [mul_comm u⁻¹ a, mul_assoc, ← mul_assoc u⁻¹ u u, inv_mul_cancel₀ hu, one_mul, mul_comm]

theorem msm_zipWith_lin (p q : F) (s : List F) (gL gR : List G) (h : gL.length = gR.length) :
    msm s (List.zipWith (fun l r => p • l + q • r) gL gR) = msm (s.map (p * ·)) gL + msm (s.map (q * ·)) gR := by
  induction s generalizing gL gR with
  | nil => simp
  | cons x s ih =>
    cases gL with
    | nil => cases gR with
      | nil => simp [msm]
      | cons _ _ => simp at h
    | cons g gL =>
      cases gR with
      | nil => simp at h
      | cons g' gR =>
        simp only [List.zipWith_cons_cons, msm_cons_cons, List.map_cons]
        rw [ih gL gR (by simpa using h)]; module

/-- the generators after all folding rounds of the inner-product argument (`p = u⁻¹, q = u` for the `G` side,
    `p = u, q = u⁻¹` for the `H` side), first challenge first -/
def foldGens (side : Bool) : List F → List G → List G
  | [], g => g
  | u :: us, g =>
    let n := g.length / 2
    foldGens side us (List.zipWith (fun l r => (if side then u⁻¹ else u) • l + (if side then u else u⁻¹) • r)
      (g.take n) (g.drop n))

theorem foldGens_sFold (us : List F) (g : List G) (hg : g.length = 2 ^ us.length) :
    foldGens true us g = [msm (sFold us) g] := by
  induction us generalizing g with
  | nil =>
    simp only [List.length_nil, pow_zero] at hg
    match g, hg with
    | [x], _ => simp [foldGens, sFold]
  | cons u us ih =>
    have h2 : g.length / 2 = 2 ^ us.length := by rw [hg, List.length_cons, pow_succ]; omega
    have hl : (g.take (g.length / 2)).length = 2 ^ us.length := by rw [List.length_take, h2, hg, List.length_cons, pow_succ]; omega
    have hr : (g.drop (g.length / 2)).length = 2 ^ us.length := by rw [List.length_drop, h2, hg, List.length_cons, pow_succ]; omega
    unfold foldGens
    simp only [if_true]
    rw [ih _ (by rw [List.length_zipWith, hl, hr, min_self])]
    congr 1
    rw [msm_zipWith_lin _ _ _ _ _ (hl.trans hr.symm), sFold]
    conv_rhs => rw [← List.take_append_drop (g.length / 2) g]
    rw [msm_append _ _ _ _ (by rw [List.length_map, sFold_length, hl])]

theorem foldGens_sFoldInv (us : List F) (g : List G) (hg : g.length = 2 ^ us.length) :
    foldGens false us g = [msm (sFoldInv us) g] := by
  induction us generalizing g with
  | nil =>
    simp only [List.length_nil, pow_zero] at hg
    match g, hg with
    | [x], _ => simp [foldGens, sFoldInv]
  | cons u us ih =>
    have h2 : g.length / 2 = 2 ^ us.length := by rw [hg, List.length_cons, pow_succ]; omega
    have hl : (g.take (g.length / 2)).length = 2 ^ us.length := by rw [List.length_take, h2, hg, List.length_cons, pow_succ]; omega
    have hr : (g.drop (g.length / 2)).length = 2 ^ us.length := by rw [List.length_drop, h2, hg, List.length_cons, pow_succ]; omega
    have hlen : (sFoldInv us).length = 2 ^ us.length := by rw [← sFold_reverse, List.length_reverse, sFold_length]
    unfold foldGens
    simp only [Bool.false_eq_true, if_false]
    rw [ih _ (by rw [List.length_zipWith, hl, hr, min_self])]
    congr 1
    rw [msm_zipWith_lin _ _ _ _ _ (hl.trans hr.symm), sFoldInv]
    conv_rhs => rw [← List.take_append_drop (g.length / 2) g]
    rw [msm_append _ _ _ _ (by rw [List.length_map, hlen, hl])]

end

section
variable {F G T : Type} [Field F] [AddCommGroup G] [Module F G] [DecidableEq G]
  [PtCodec G] [ScCodec F] [PedGens G] [TranscriptOps T]

theorem ippChallenges_length' (t : T) (l r : List Bytes) (h : l.length = r.length) :
    (ippChallenges (Sc := F) t l r).1.length = l.length := by
  induction l generalizing t r with
  | nil => cases r <;> simp [ippChallenges]
  | cons x xs ih =>
    cases r with
    | nil => simp at h
    | cons y ys =>
      simp only [ippChallenges, List.length_cons]
      rw [ih _ ys (by simpa using h)]

theorem getD_nil_zero (i : ℕ) : ([] : List G).getD i 0 = 0 := by simp

theorem ippLoop_spec (Q : G) (k : ℕ) : ∀ (fuel : ℕ) (st : IppState F G T), k ≤ fuel →
    st.a.length = 2 ^ k → st.b.length = 2 ^ k → st.g.length = 2 ^ k → st.h.length = 2 ^ k →
    ∃ (Ls Rs : List G) (a' b' : F),
      Ls.length = k ∧ Rs.length = k ∧
      (ippLoop Q [] [] fuel st).lB = st.lB ++ Ls.map PtCodec.enc ∧
      (ippLoop Q [] [] fuel st).rB = st.rB ++ Rs.map PtCodec.enc ∧
      (ippLoop Q [] [] fuel st).a = [a'] ∧ (ippLoop Q [] [] fuel st).b = [b'] ∧
      ((∀ u ∈ (ippChallenges (Sc := F) st.t (Ls.map PtCodec.enc) (Rs.map PtCodec.enc)).1, u ≠ 0) →
        a' • msm (sFold (ippChallenges (Sc := F) st.t (Ls.map PtCodec.enc) (Rs.map PtCodec.enc)).1) st.g
          + b' • msm (sFoldInv (ippChallenges (Sc := F) st.t (Ls.map PtCodec.enc) (Rs.map PtCodec.enc)).1) st.h
          + (a' * b') • Q
        = Pip Q st.a st.b st.g st.h
          + msm ((ippChallenges (Sc := F) st.t (Ls.map PtCodec.enc) (Rs.map PtCodec.enc)).1.map fun u => u * u) Ls
          + msm ((ippChallenges (Sc := F) st.t (Ls.map PtCodec.enc) (Rs.map PtCodec.enc)).1.map fun u => u⁻¹ * u⁻¹) Rs) := by
  induction k with
  | zero =>
    intro fuel st _ ha hb hg hh
    have hst : ippLoop Q [] [] fuel st = st := by
      cases fuel with
      | zero => rfl
      | succ f => simp [ippLoop, ha]
    obtain ⟨a', ha'⟩ := List.length_eq_one_iff.mp (by simpa using ha)
    obtain ⟨b', hb'⟩ := List.length_eq_one_iff.mp (by simpa using hb)
    obtain ⟨g', hg'⟩ := List.length_eq_one_iff.mp (by simpa using hg)
    obtain ⟨h', hh'⟩ := List.length_eq_one_iff.mp (by simpa using hh)
    refine ⟨[], [], a', b', rfl, rfl, by simp [hst], by simp [hst], by rw [hst, ha'], by rw [hst, hb'], ?_⟩
    intro _
    simp only [List.map_nil, ippChallenges, sFold, sFoldInv, ha', hb', hg', hh', Pip, msm_cons_cons, msm_nil_left,
      ip_cons_cons, ip_nil_left]
    module
  | succ k ih =>
    intro fuel st hf ha hb hg hh
    obtain ⟨f, rfl⟩ : ∃ f, fuel = f + 1 := ⟨fuel - 1, by omega⟩
    have h2 : (2 : ℕ) ^ (k + 1) = 2 * 2 ^ k := by rw [pow_succ]; ring
    have hpos : 0 < 2 ^ k := Nat.pow_pos (by norm_num)
    have hgt : ¬ st.a.length ≤ 1 := by rw [ha, h2]; omega
    have hn : st.a.length / 2 = 2 ^ k := by rw [ha, h2]; omega
    set st1 := ippRound Q (0 : G) 0 st with hst1
    have hloop : ippLoop Q [] [] (f + 1) st = ippLoop Q [] [] f st1 := by
      simp only [ippLoop, hgt, if_false, getD_nil_zero, ← hst1]
    -- the halves
    set n := 2 ^ k with hnk
    set aL := st.a.take n with haL
    set aR := st.a.drop n with haR
    set bL := st.b.take n with hbL
    set bR := st.b.drop n with hbR
    set gL := st.g.take n with hgL
    set gR := st.g.drop n with hgR
    set hL := st.h.take n with hhL
    set hR := st.h.drop n with hhR
    have laL : aL.length = n := by simp [haL, ha, h2]; omega
    have laR : aR.length = n := by simp [haR, ha, h2]; omega
    have lbL : bL.length = n := by simp [hbL, hb, h2]; omega
    have lbR : bR.length = n := by simp [hbR, hb, h2]; omega
    have lgL : gL.length = n := by simp [hgL, hg, h2]; omega
    have lgR : gR.length = n := by simp [hgR, hg, h2]; omega
    have lhL : hL.length = n := by simp [hhL, hh, h2]; omega
    have lhR : hR.length = n := by simp [hhR, hh, h2]; omega
    set L : G := msm (aL ++ bR ++ [ipScalars aL bR]) (gR ++ hL ++ [Q]) with hL'
    set R : G := msm (aR ++ bL ++ [ipScalars aR bL]) (gL ++ hR ++ [Q]) with hR'
    set t1 : T := TranscriptOps.append (TranscriptOps.append st.t b!"L" (PtCodec.enc L)) b!"R" (PtCodec.enc R) with ht1
    set u : F := (challengeScalar (Sc := F) t1 b!"u").1 with hu
    have e_a : st1.a = List.zipWith (fun l r => l * u + u⁻¹ * r) aL aR := by
      simp only [hst1, ippRound, hn, add_zero]
      rfl
    have e_b : st1.b = List.zipWith (fun l r => l * u⁻¹ + u * r) bL bR := by
      simp only [hst1, ippRound, hn, add_zero]
      rfl
    have e_g : st1.g = List.zipWith (fun l r => u⁻¹ • l + u • r) gL gR := by
      simp only [hst1, ippRound, hn, add_zero]
      rfl
    have e_h : st1.h = List.zipWith (fun l r => u • l + u⁻¹ • r) hL hR := by
      simp only [hst1, ippRound, hn, add_zero]
      rfl
    have e_t : st1.t = (challengeScalar (Sc := F) t1 b!"u").2 := by
      simp only [hst1, ippRound, hn, add_zero]
      rfl
    have e_lB : st1.lB = st.lB ++ [PtCodec.enc L] := by
      simp only [hst1, ippRound, hn, add_zero]
      rfl
    have e_rB : st1.rB = st.rB ++ [PtCodec.enc R] := by
      simp only [hst1, ippRound, hn, add_zero]
      rfl
    obtain ⟨Ls, Rs, a', b', hl1, hl2, hlB, hrB, hfa, hfb, heq⟩ := ih f st1 (by omega)
      (by rw [e_a]; simp [laL, laR]) (by rw [e_b]; simp [lbL, lbR]) (by rw [e_g]; simp [lgL, lgR])
      (by rw [e_h]; simp [lhL, lhR])
    refine ⟨L :: Ls, R :: Rs, a', b', by simp [hl1], by simp [hl2], ?_, ?_, by rw [hloop, hfa], by rw [hloop, hfb], ?_⟩
    · rw [hloop, hlB, e_lB]; simp
    · rw [hloop, hrB, e_rB]; simp
    · have hch : (ippChallenges (Sc := F) st.t ((L :: Ls).map PtCodec.enc) ((R :: Rs).map PtCodec.enc)).1
          = u :: (ippChallenges (Sc := F) st1.t (Ls.map PtCodec.enc) (Rs.map PtCodec.enc)).1 := by
        simp only [List.map_cons, ippChallenges, e_t]
        rfl
      rw [hch]
      set us := (ippChallenges (Sc := F) st1.t (Ls.map PtCodec.enc) (Rs.map PtCodec.enc)).1 with hus
      intro hnz
      have hu0 : u ≠ 0 := hnz u (by simp)
      have heq := heq (fun v hv => hnz v (by simp [hv]))
      have lus : us.length = k := by
        rw [hus, ippChallenges_length' _ _ _ (by simp [hl1, hl2])]; simp [hl1]
      have ea : st.a = aL ++ aR := (List.take_append_drop n st.a).symm
      have eb : st.b = bL ++ bR := (List.take_append_drop n st.b).symm
      have eg : st.g = gL ++ gR := (List.take_append_drop n st.g).symm
      have eh : st.h = hL ++ hR := (List.take_append_drop n st.h).symm
      have hg1 : msm (sFold (u :: us)) st.g = msm (sFold us) st1.g := by
        rw [e_g, msm_zipWith_lin _ _ _ _ _ (by omega), eg, sFold,
          msm_append _ _ _ _ (by simp [sFold_length, lus, lgL, hnk])]
      have hh1 : msm (sFoldInv (u :: us)) st.h = msm (sFoldInv us) st1.h := by
        rw [e_h, msm_zipWith_lin _ _ _ _ _ (by omega), eh, sFoldInv,
          msm_append _ _ _ _ (by simp [← sFold_reverse, sFold_length, lus, lhL, hnk])]
      have hP := Pip_fold Q u hu0 aL aR bL bR gL gR hL hR (by omega) (by omega) (by omega) (by omega)
        (by omega) (by omega) (by omega)
      rw [hg1, hh1, heq, e_a, e_b, e_g, e_h, hP, ← ea, ← eb, ← eg, ← eh]
      simp only [List.map_cons, msm_cons_cons]
      module

end
end Zk.Range

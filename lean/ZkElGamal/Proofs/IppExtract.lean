import ZkElGamal.Proofs.Batch
import Mathlib.Algebra.Module.Submodule.Basic
import Mathlib.Algebra.Module.Submodule.Range
import Mathlib.Algebra.Module.Pi
import Mathlib.Algebra.Module.Prod
import Mathlib.Data.Fintype.Card
import Mathlib.Algebra.BigOperators.Pi
import Mathlib.Tactic.FieldSimp
import Mathlib.Tactic.LinearCombination
import Mathlib.Tactic.Ring
import Mathlib.Data.Fintype.Sum
import Mathlib.Algebra.BigOperators.Group.Finset.Sigma
/-!
Special soundness of one folding round of the Bulletproofs inner-product argument (knowledge
extraction step), stated over index-set vectors `ι → F` and Finset sums (the relation `Pip` of
`Proofs/Ipp.lean` in sum form). Independence of the generators is the hypothesis `lin` injective —
for Ristretto generators that is the discrete-log assumption, which no proof can discharge.
-/
set_option linter.unusedSectionVars false
namespace Zk.IppExtract
open Zk

section helpers
variable {F M : Type} [Field F] [DecidableEq F] [AddCommGroup M] [Module F M]

/-- a cubic with module coefficients that vanishes at four distinct points is zero -/
theorem zero_of_four_roots (e0 e1 e2 e3 : M) (w : Fin 4 → F) (inj : Function.Injective w)
    (h : ∀ i, e0 + w i • e1 + (w i * w i) • e2 + (w i * (w i * w i)) • e3 = 0) :
    e0 = 0 ∧ e1 = 0 ∧ e2 = 0 ∧ e3 = 0 := by
  by_contra hne
  have hne' : e0 ≠ 0 ∨ e1 ≠ 0 ∨ e2 ≠ 0 ∨ e3 ≠ 0 := by
    by_contra hall
    push_neg at hall
    exact hne hall
  obtain ⟨S, hS, hw⟩ := batch4 (F := F) e0 e1 e2 e3 hne'
  have hsub : Finset.image w Finset.univ ⊆ S := by
    intro x hx
    obtain ⟨i, _, rfl⟩ := Finset.mem_image.mp hx
    exact hw (w i) (h i)
  have hc : (Finset.image w Finset.univ).card = 4 := by
    rw [Finset.card_image_of_injective _ inj]; simp
  have := Finset.card_le_card hsub
  omega

/-- a quadratic with module coefficients that vanishes at three distinct points is zero -/
theorem zero_of_three_roots (e0 e1 e2 : M) (w : Fin 3 → F) (inj : Function.Injective w)
    (h : ∀ i, e0 + w i • e1 + (w i * w i) • e2 = 0) : e0 = 0 ∧ e1 = 0 ∧ e2 = 0 := by
  by_contra hne
  have hne' : e0 ≠ 0 ∨ e1 ≠ 0 ∨ e2 ≠ 0 := by
    by_contra hall
    push_neg at hall
    exact hne hall
  obtain ⟨S, hS, hw⟩ := batch3 (F := F) e0 e1 e2 hne'
  have hsub : Finset.image w Finset.univ ⊆ S := by
    intro x hx
    obtain ⟨i, _, rfl⟩ := Finset.mem_image.mp hx
    exact hw (w i) (h i)
  have hc : (Finset.image w Finset.univ).card = 3 := by
    rw [Finset.card_image_of_injective _ inj]; simp
  have := Finset.card_le_card hsub
  omega

/-- Vandermonde, membership form: if `W + x•T₁ + x²•T₂` lies in a submodule for three distinct `x`,
    then `W`, `T₁`, `T₂` do -/
theorem vandermonde3_mem (S : Submodule F M) (W T1 T2 : M) (x1 x2 x3 : F)
    (h12 : x1 ≠ x2) (h13 : x1 ≠ x3) (h23 : x2 ≠ x3)
    (m1 : W + x1 • T1 + (x1 * x1) • T2 ∈ S) (m2 : W + x2 • T1 + (x2 * x2) • T2 ∈ S)
    (m3 : W + x3 • T1 + (x3 * x3) • T2 ∈ S) : W ∈ S ∧ T1 ∈ S ∧ T2 ∈ S := by
  set D : F := (x1 - x2) * (x1 - x3) * (x2 - x3) with hD
  have hD0 : D ≠ 0 :=
    mul_ne_zero (mul_ne_zero (sub_ne_zero.mpr h12) (sub_ne_zero.mpr h13)) (sub_ne_zero.mpr h23)
  have d12 : x1 - x2 ≠ 0 := sub_ne_zero.mpr h12
  have k2 : D • T2 = (x2 - x3) • (W + x1 • T1 + (x1 * x1) • T2) - (x1 - x3) • (W + x2 • T1 + (x2 * x2) • T2)
      + (x1 - x2) • (W + x3 • T1 + (x3 * x3) • T2) := by rw [hD]; module
  have hT2 : T2 ∈ S := by
    have : T2 = D⁻¹ • (D • T2) := by rw [smul_smul, inv_mul_cancel₀ hD0, one_smul]
    rw [this, k2]
    exact S.smul_mem _ (S.add_mem (S.sub_mem (S.smul_mem _ m1) (S.smul_mem _ m2)) (S.smul_mem _ m3))
  have k1 : (x1 - x2) • T1 = (W + x1 • T1 + (x1 * x1) • T2) - (W + x2 • T1 + (x2 * x2) • T2)
      - (x1 * x1 - x2 * x2) • T2 := by module
  have hT1 : T1 ∈ S := by
    have : T1 = (x1 - x2)⁻¹ • ((x1 - x2) • T1) := by rw [smul_smul, inv_mul_cancel₀ d12, one_smul]
    rw [this, k1]
    exact S.smul_mem _ (S.sub_mem (S.sub_mem m1 m2) (S.smul_mem _ hT2))
  refine ⟨?_, hT1, hT2⟩
  have : W = (W + x1 • T1 + (x1 * x1) • T2) - x1 • T1 - (x1 * x1) • T2 := by module
  rw [this]
  exact S.sub_mem (S.sub_mem m1 (S.smul_mem _ hT1)) (S.smul_mem _ hT2)

end helpers

section main
variable {F G ι : Type} [Field F] [DecidableEq F] [AddCommGroup G] [Module F G] [Fintype ι]

/-- coefficient space of one folding level: `(a₁, a₂, b₁, b₂, c)` -/
abbrev V (F ι : Type) := (ι → F) × (ι → F) × (ι → F) × (ι → F) × F

/-- `Σ a₁ⱼ•gLⱼ + Σ a₂ⱼ•gRⱼ + Σ b₁ⱼ•hLⱼ + Σ b₂ⱼ•hRⱼ + c•Q` -/
def lin (gL gR hL hR : ι → G) (Q : G) (v : V F ι) : G :=
  (∑ j, v.1 j • gL j) + (∑ j, v.2.1 j • gR j) + (∑ j, v.2.2.1 j • hL j) + (∑ j, v.2.2.2.1 j • hR j) + v.2.2.2.2 • Q

theorem lin_add (gL gR hL hR : ι → G) (Q : G) (v w : V F ι) :
    lin gL gR hL hR Q (v + w) = lin gL gR hL hR Q v + lin gL gR hL hR Q w := by
  simp only [lin, Prod.fst_add, Prod.snd_add, Pi.add_apply, add_smul, Finset.sum_add_distrib]
  abel

theorem lin_smul (gL gR hL hR : ι → G) (Q : G) (k : F) (v : V F ι) :
    lin gL gR hL hR Q (k • v) = k • lin gL gR hL hR Q v := by
  simp only [lin, Prod.smul_fst, Prod.smul_snd, Pi.smul_apply, smul_eq_mul, mul_smul, ← Finset.smul_sum, smul_add]

def linMap (gL gR hL hR : ι → G) (Q : G) : V F ι →ₗ[F] G :=
  IsLinearMap.mk' (lin gL gR hL hR Q) ⟨lin_add gL gR hL hR Q, lin_smul gL gR hL hR Q⟩


/-- **special soundness of one folding round of the inner-product argument.**
    If the generators `gL, gR, hL, hR, Q` are independent (`lin` injective) and for four challenges with pairwise
    distinct squares the folded relation is satisfied by some `(a'ᵢ, b'ᵢ)`, then `P` itself opens as
    `⟨a,g⟩ + ⟨b,h⟩ + ⟨a,b⟩•Q` with `a = a₁‖a₂`, `b = b₁‖b₂`. -/
theorem ipp_round_extract (gL gR hL hR : ι → G) (Q : G)
    (hind : Function.Injective (lin (F := F) gL gR hL hR Q))
    (P L R : G) (u : Fin 4 → F) (hu0 : ∀ i, u i ≠ 0) (hsq : Function.Injective fun i => u i * u i)
    (a' b' : Fin 4 → ι → F)
    (hacc : ∀ i, P + (u i * u i) • L + ((u i)⁻¹ * (u i)⁻¹) • R
      = lin gL gR hL hR Q (fun j => (u i)⁻¹ * a' i j, fun j => u i * a' i j, fun j => u i * b' i j,
          fun j => (u i)⁻¹ * b' i j, ∑ j, a' i j * b' i j)) :
    ∃ a1 a2 b1 b2 : ι → F,
      P = lin gL gR hL hR Q (a1, a2, b1, b2, (∑ j, a1 j * b1 j) + ∑ j, a2 j * b2 j) := by
  set f := linMap (F := F) gL gR hL hR Q with hf
  have hfl : ∀ v, f v = lin gL gR hL hR Q v := fun v => rfl
  set t : Fin 4 → F := fun i => u i * u i with ht
  have ht0 : ∀ i, t i ≠ 0 := fun i => mul_ne_zero (hu0 i) (hu0 i)
  have hts : ∀ i, t i * ((u i)⁻¹ * (u i)⁻¹) = 1 := by
    intro i; simp only [ht]; field_simp [hu0 i]
  -- P, L, R lie in the span of the generators
  have hmem : ∀ i, R + t i • P + (t i * t i) • L ∈ LinearMap.range f := by
    intro i
    have : R + t i • P + (t i * t i) • L = t i • (P + (u i * u i) • L + ((u i)⁻¹ * (u i)⁻¹) • R) := by
      rw [smul_add, smul_add, smul_smul, smul_smul, hts i, one_smul]; abel
    rw [this, hacc i, ← hfl, ← LinearMap.map_smul]
    exact LinearMap.mem_range_self f _
  have hne : ∀ i j : Fin 4, i ≠ j → t i ≠ t j := fun i j h e => h (hsq e)
  obtain ⟨hR, hP, hL⟩ := vandermonde3_mem (LinearMap.range f) R P L (t 0) (t 1) (t 2)
    (hne 0 1 (by decide)) (hne 0 2 (by decide)) (hne 1 2 (by decide)) (hmem 0) (hmem 1) (hmem 2)
  obtain ⟨vP, hvP⟩ := LinearMap.mem_range.mp hP
  obtain ⟨vL, hvL⟩ := LinearMap.mem_range.mp hL
  obtain ⟨vR, hvR⟩ := LinearMap.mem_range.mp hR
  obtain ⟨aP1, aP2, bP1, bP2, cP⟩ := vP
  obtain ⟨aL1, aL2, bL1, bL2, cL⟩ := vL
  obtain ⟨aR1, aR2, bR1, bR2, cR⟩ := vR
  -- independence: the coefficient vectors agree
  have hv : ∀ i, ((aP1, aP2, bP1, bP2, cP) : V F ι) + t i • (aL1, aL2, bL1, bL2, cL)
      + ((u i)⁻¹ * (u i)⁻¹) • (aR1, aR2, bR1, bR2, cR)
      = (fun j => (u i)⁻¹ * a' i j, fun j => u i * a' i j, fun j => u i * b' i j,
          fun j => (u i)⁻¹ * b' i j, ∑ j, a' i j * b' i j) := by
    intro i
    apply hind
    rw [← hacc i, ← hfl, LinearMap.map_add, LinearMap.map_add, LinearMap.map_smul, LinearMap.map_smul, hvP, hvL, hvR]
  -- components
  have c1 : ∀ i j, aP1 j + t i * aL1 j + ((u i)⁻¹ * (u i)⁻¹) * aR1 j = (u i)⁻¹ * a' i j := by
    intro i j; have := congrFun (congrArg (·.1) (hv i)) j; simpa using this
  have c2 : ∀ i j, aP2 j + t i * aL2 j + ((u i)⁻¹ * (u i)⁻¹) * aR2 j = u i * a' i j := by
    intro i j; have := congrFun (congrArg (·.2.1) (hv i)) j; simpa using this
  have c3 : ∀ i j, bP1 j + t i * bL1 j + ((u i)⁻¹ * (u i)⁻¹) * bR1 j = u i * b' i j := by
    intro i j; have := congrFun (congrArg (·.2.2.1) (hv i)) j; simpa using this
  have c4 : ∀ i j, bP2 j + t i * bL2 j + ((u i)⁻¹ * (u i)⁻¹) * bR2 j = (u i)⁻¹ * b' i j := by
    intro i j; have := congrFun (congrArg (·.2.2.2.1) (hv i)) j; simpa using this
  have c5 : ∀ i, cP + t i * cL + ((u i)⁻¹ * (u i)⁻¹) * cR = ∑ j, a' i j * b' i j := by
    intro i; have := congrArg (·.2.2.2.2) (hv i); simpa using this
  have tinj : Function.Injective t := hsq
  -- the `a` coordinates
  have ea : ∀ j, (-(aR2 j)) = 0 ∧ aR1 j - aP2 j = 0 ∧ aP1 j - aL2 j = 0 ∧ aL1 j = 0 := by
    intro j
    apply zero_of_four_roots (F := F) (M := F) _ _ _ _ t tinj
    intro i
    have h1 := c1 i j
    have h2 := c2 i j
    have hs : u i * (u i)⁻¹ = 1 := mul_inv_cancel₀ (hu0 i)
    simp only [smul_eq_mul, ht] at h1 h2 ⊢
    generalize (u i)⁻¹ = s at h1 h2 hs
    linear_combination (u i ^ 4) * h1 - (u i ^ 2) * h2
      + (-(aR1 j) * u i ^ 2 * (1 + u i * s) + aR2 j * (1 + u i * s) + u i ^ 3 * a' i j) * hs
  -- the `b` coordinates (roles of `u` and `u⁻¹` exchanged)
  have eb : ∀ j, bR1 j = 0 ∧ bP1 j - bR2 j = 0 ∧ bL1 j - bP2 j = 0 ∧ (-(bL2 j)) = 0 := by
    intro j
    apply zero_of_four_roots (F := F) (M := F) _ _ _ _ t tinj
    intro i
    have h3 := c3 i j
    have h4 := c4 i j
    have hs : u i * (u i)⁻¹ = 1 := mul_inv_cancel₀ (hu0 i)
    simp only [smul_eq_mul, ht] at h3 h4 ⊢
    generalize (u i)⁻¹ = s at h3 h4 hs
    linear_combination (u i ^ 2) * h3 - (u i ^ 4) * h4
      + (-(bR1 j) * (1 + u i * s) + bR2 j * u i ^ 2 * (1 + u i * s) - u i ^ 3 * b' i j) * hs
  -- the folded vectors are the folds of the extracted ones
  have ha' : ∀ i j, a' i j = u i * aP1 j + (u i)⁻¹ * aP2 j := by
    intro i j
    obtain ⟨-, e2, -, e4⟩ := ea j
    have h1 := c1 i j
    have hs : u i * (u i)⁻¹ = 1 := mul_inv_cancel₀ (hu0 i)
    have e2' : aR1 j = aP2 j := sub_eq_zero.mp e2
    rw [e4, e2'] at h1
    simp only [ht] at h1
    generalize (u i)⁻¹ = s at h1 hs ⊢
    linear_combination (-(u i)) * h1 - (a' i j - s * aP2 j) * hs
  have hb' : ∀ i j, b' i j = (u i)⁻¹ * bP1 j + u i * bP2 j := by
    intro i j
    obtain ⟨e1, -, e3, -⟩ := eb j
    have h3 := c3 i j
    have hs : u i * (u i)⁻¹ = 1 := mul_inv_cancel₀ (hu0 i)
    have e3' : bL1 j = bP2 j := sub_eq_zero.mp e3
    rw [e1, e3'] at h3
    simp only [ht] at h3
    generalize (u i)⁻¹ = s at h3 hs ⊢
    linear_combination (-s) * h3 - (b' i j - u i * bP2 j) * hs
  -- the inner product
  have hsum : ∀ i, ∑ j, a' i j * b' i j = (∑ j, aP1 j * bP1 j) + (∑ j, aP2 j * bP2 j)
      + t i * (∑ j, aP1 j * bP2 j) + ((u i)⁻¹ * (u i)⁻¹) * (∑ j, aP2 j * bP1 j) := by
    intro i
    have hs : u i * (u i)⁻¹ = 1 := mul_inv_cancel₀ (hu0 i)
    rw [Finset.mul_sum, Finset.mul_sum, ← Finset.sum_add_distrib, ← Finset.sum_add_distrib, ← Finset.sum_add_distrib]
    apply Finset.sum_congr rfl
    intro j _
    rw [ha' i j, hb' i j]
    simp only [ht]
    generalize (u i)⁻¹ = s at hs ⊢
    linear_combination (aP1 j * bP1 j + aP2 j * bP2 j) * hs
  have ec : (cR - ∑ j, aP2 j * bP1 j) = 0 ∧ (cP - ((∑ j, aP1 j * bP1 j) + ∑ j, aP2 j * bP2 j)) = 0
      ∧ (cL - ∑ j, aP1 j * bP2 j) = 0 := by
    apply zero_of_three_roots (F := F) (M := F) _ _ _ (fun k : Fin 3 => t (Fin.castSucc k))
      (tinj.comp (Fin.castSucc_injective 3))
    intro k
    have h5 := c5 (Fin.castSucc k)
    rw [hsum] at h5
    have := hts (Fin.castSucc k)
    simp only [smul_eq_mul]
    generalize (u (Fin.castSucc k))⁻¹ * (u (Fin.castSucc k))⁻¹ = ss at h5 this
    linear_combination (t (Fin.castSucc k)) * h5
      + (∑ j, aP2 j * bP1 j - cR) * this
  refine ⟨aP1, aP2, bP1, bP2, ?_⟩
  rw [← hvP, hfl]
  have : cP = (∑ j, aP1 j * bP1 j) + ∑ j, aP2 j * bP2 j := sub_eq_zero.mp ec.2.1
  rw [this]


/-- the verifier-side form of the folded relation: `⟨a', g'⟩ + ⟨b', h'⟩ + ⟨a',b'⟩•Q` over the folded generators
    `g' = u⁻¹•gL + u•gR`, `h' = u•hL + u⁻¹•hR` -/
theorem lin_folded (gL gR hL hR : ι → G) (Q : G) (u c : F) (a' b' : ι → F) :
    (∑ j, a' j • ((u⁻¹) • gL j + u • gR j)) + (∑ j, b' j • (u • hL j + (u⁻¹) • hR j)) + c • Q
      = lin gL gR hL hR Q (fun j => u⁻¹ * a' j, fun j => u * a' j, fun j => u * b' j, fun j => u⁻¹ * b' j, c) := by
  simp only [lin, smul_add, smul_smul, Finset.sum_add_distrib]
  have e1 : ∀ j, (a' j * u⁻¹) • gL j = (u⁻¹ * a' j) • gL j := fun j => by rw [mul_comm]
  have e2 : ∀ j, (a' j * u) • gR j = (u * a' j) • gR j := fun j => by rw [mul_comm]
  have e3 : ∀ j, (b' j * u) • hL j = (u * b' j) • hL j := fun j => by rw [mul_comm]
  have e4 : ∀ j, (b' j * u⁻¹) • hR j = (u⁻¹ * b' j) • hR j := fun j => by rw [mul_comm]
  simp only [e1, e2, e3, e4]
  abel

end main

/-! ## any number of rounds: a tree of accepting transcripts -/
section tree
variable {F G : Type} [Field F] [DecidableEq F] [AddCommGroup G] [Module F G]

/-- index set of vectors of length `2^k`: `k` binary choices (first choice = first folding round) -/
@[reducible] def Idx : ℕ → Type
  | 0 => Unit
  | k + 1 => Idx k ⊕ Idx k

instance instFintypeIdx : (k : ℕ) → Fintype (Idx k)
  | 0 => inferInstanceAs (Fintype Unit)
  | k + 1 => @instFintypeSum (Idx k) (Idx k) (instFintypeIdx k) (instFintypeIdx k)

/-- the inner-product relation `P = ⟨a,g⟩ + ⟨b,h⟩ + ⟨a,b⟩•Q` for vectors indexed by `ι` -/
def Opens {ι : Type} [Fintype ι] (g h : ι → G) (Q P : G) : Prop :=
  ∃ a b : ι → F, P = (∑ j, a j • g j) + (∑ j, b j • h j) + (∑ j, a j * b j) • Q

/-- independence of `g ‖ h ‖ Q` -/
def Indep {ι : Type} [Fintype ι] (g h : ι → G) (Q : G) : Prop :=
  Function.Injective fun v : (ι → F) × (ι → F) × F => (∑ j, v.1 j • g j) + (∑ j, v.2.1 j • h j) + v.2.2 • Q

/-- folded generators of one round with challenge `u` -/
def foldG {k : ℕ} (u : F) (g : Idx (k + 1) → G) : Idx k → G := fun j => u⁻¹ • g (Sum.inl j) + u • g (Sum.inr j)
def foldH {k : ℕ} (u : F) (h : Idx (k + 1) → G) : Idx k → G := fun j => u • h (Sum.inl j) + u⁻¹ • h (Sum.inr j)

/-- a tree of accepting transcripts: at every level four challenges with pairwise distinct non-zero squares,
    the same `L, R`, and an accepting subtree for each folded statement; at the leaves scalars `a, b` -/
inductive AccTree (Q : G) : (k : ℕ) → (Idx k → G) → (Idx k → G) → G → Prop
  | leaf (g h : Idx 0 → G) (P : G) (a b : F) (hP : P = a • g () + b • h () + (a * b) • Q) : AccTree Q 0 g h P
  | node (k : ℕ) (g h : Idx (k + 1) → G) (P L R : G) (u : Fin 4 → F) (hu0 : ∀ i, u i ≠ 0)
      (hsq : Function.Injective fun i => u i * u i)
      (sub : ∀ i, AccTree Q k (foldG (u i) g) (foldH (u i) h) (P + (u i * u i) • L + ((u i)⁻¹ * (u i)⁻¹) • R)) :
      AccTree Q (k + 1) g h P

theorem sum_idx_succ {M : Type} [AddCommMonoid M] (k : ℕ) (f : Idx (k + 1) → M) :
    (∑ x, f x) = (∑ j : Idx k, f (Sum.inl j)) + ∑ j : Idx k, f (Sum.inr j) :=
  Fintype.sum_sum_type f

/-- independence at level `k+1`, in the split form used by `ipp_round_extract` -/
theorem indep_split {k : ℕ} (g h : Idx (k + 1) → G) (Q : G) (hi : Indep (F := F) g h Q) :
    Function.Injective (lin (F := F) (fun j => g (Sum.inl j)) (fun j => g (Sum.inr j))
      (fun j => h (Sum.inl j)) (fun j => h (Sum.inr j)) Q) := by
  intro v w hvw
  have key : ∀ v : V F (Idx k), lin (F := F) (fun j => g (Sum.inl j)) (fun j => g (Sum.inr j))
      (fun j => h (Sum.inl j)) (fun j => h (Sum.inr j)) Q v
      = (∑ x, (Sum.elim v.1 v.2.1 x) • g x) + (∑ x, (Sum.elim v.2.2.1 v.2.2.2.1 x) • h x) + v.2.2.2.2 • Q := by
    intro v
    rw [sum_idx_succ, sum_idx_succ]
    simp only [lin, Sum.elim_inl, Sum.elim_inr]
    abel
  rw [key v, key w] at hvw
  have := @hi (Sum.elim v.1 v.2.1, Sum.elim v.2.2.1 v.2.2.2.1, v.2.2.2.2)
    (Sum.elim w.1 w.2.1, Sum.elim w.2.2.1 w.2.2.2.1, w.2.2.2.2) hvw
  simp only [Prod.mk.injEq] at this
  obtain ⟨h1, h2, h3⟩ := this
  have e1 : v.1 = w.1 := funext fun j => by simpa using congrFun h1 (Sum.inl j)
  have e2 : v.2.1 = w.2.1 := funext fun j => by simpa using congrFun h1 (Sum.inr j)
  have e3 : v.2.2.1 = w.2.2.1 := funext fun j => by simpa using congrFun h2 (Sum.inl j)
  have e4 : v.2.2.2.1 = w.2.2.2.1 := funext fun j => by simpa using congrFun h2 (Sum.inr j)
  exact Prod.ext e1 (Prod.ext e2 (Prod.ext e3 (Prod.ext e4 h3)))

/-- folding with a non-zero challenge preserves independence -/
theorem indep_fold {k : ℕ} (g h : Idx (k + 1) → G) (Q : G) (u : F) (hu : u ≠ 0) (hi : Indep (F := F) g h Q) :
    Indep (F := F) (foldG u g) (foldH u h) Q := by
  intro v w hvw
  have hs := indep_split g h Q hi
  have key : ∀ v : (Idx k → F) × (Idx k → F) × F,
      (∑ j, v.1 j • foldG u g j) + (∑ j, v.2.1 j • foldH u h j) + v.2.2 • Q
      = lin (F := F) (fun j => g (Sum.inl j)) (fun j => g (Sum.inr j)) (fun j => h (Sum.inl j)) (fun j => h (Sum.inr j)) Q
          (fun j => u⁻¹ * v.1 j, fun j => u * v.1 j, fun j => u * v.2.1 j, fun j => u⁻¹ * v.2.1 j, v.2.2) := by
    intro v
    exact lin_folded (fun j => g (Sum.inl j)) (fun j => g (Sum.inr j)) (fun j => h (Sum.inl j)) (fun j => h (Sum.inr j))
      Q u v.2.2 v.1 v.2.1
  simp only at hvw
  rw [key v, key w] at hvw
  have := hs hvw
  simp only [Prod.mk.injEq] at this
  obtain ⟨-, h2, h3, -, h5⟩ := this
  have e1 : v.1 = w.1 := funext fun j => mul_left_cancel₀ hu (congrFun h2 j)
  have e2 : v.2.1 = w.2.1 := funext fun j => mul_left_cancel₀ hu (congrFun h3 j)
  exact Prod.ext e1 (Prod.ext e2 h5)

/-- **the inner-product argument is (4, …, 4)-special sound**: from a tree of accepting transcripts
    (any number `k` of folding rounds) with independent generators one obtains an opening of `P` -/
theorem ipp_tree_extract (Q : G) (k : ℕ) (g h : Idx k → G) (P : G)
    (hi : Indep (F := F) g h Q) (ht : AccTree (F := F) Q k g h P) : Opens (F := F) g h Q P := by
  induction ht with
  | leaf g h P a b hP =>
    refine ⟨fun _ => a, fun _ => b, ?_⟩
    rw [hP]
    simp [Idx]
  | node k g h P L R u hu0 hsq sub ih =>
    have ih' : ∀ i, Opens (F := F) (foldG (u i) g) (foldH (u i) h) Q
        (P + (u i * u i) • L + ((u i)⁻¹ * (u i)⁻¹) • R) := fun i => ih i (indep_fold g h Q (u i) (hu0 i) hi)
    unfold Opens at ih'
    choose a' b' hab using ih'
    obtain ⟨a1, a2, b1, b2, hP⟩ := ipp_round_extract (fun j => g (Sum.inl j)) (fun j => g (Sum.inr j))
      (fun j => h (Sum.inl j)) (fun j => h (Sum.inr j)) Q (indep_split g h Q hi) P L R u hu0 hsq a' b'
      (fun i => by
        rw [hab i]
        exact lin_folded (fun j => g (Sum.inl j)) (fun j => g (Sum.inr j)) (fun j => h (Sum.inl j))
          (fun j => h (Sum.inr j)) Q (u i) _ (a' i) (b' i))
    refine ⟨Sum.elim a1 a2, Sum.elim b1 b2, ?_⟩
    rw [hP, sum_idx_succ, sum_idx_succ, sum_idx_succ]
    simp only [lin, Sum.elim_inl, Sum.elim_inr]
    abel

end tree

end Zk.IppExtract

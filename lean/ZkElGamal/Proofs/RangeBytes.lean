import ZkElGamal.Props.C04
import ZkElGamal.Proofs.Slices
/-!
Byte-level lemmas for the range-proof instructions: the interleaved `L/R` layout, parsing the
encoding of a proof back to its fields, and decoding the context written by the constructor.
-/
set_option linter.unusedSectionVars false
namespace Zk.Range
open Zk

theorem slice_append_skip (a r : Bytes) (k n : Nat) (hk : a.length ≤ k) :
    slice (a ++ r) k n = slice r (k - a.length) n := slice_skip a r k n a.length rfl hk

/-- the `L` slots of the interleaved `L₀ R₀ L₁ R₁ …` layout -/
theorem interleave_L (lB rB : List Bytes) (rest : Bytes) (hl : lB.length = rB.length)
    (h1 : ∀ x ∈ lB, x.length = 32) (h2 : ∀ x ∈ rB, x.length = 32) :
    (List.range lB.length).map (fun i => slice ((List.zipWith (· ++ ·) lB rB).flatten ++ rest) (2 * i * 32) 32) = lB := by
  induction lB generalizing rB with
  | nil => simp
  | cons l lB ih =>
    cases rB with
    | nil => simp at hl
    | cons r rB =>
      have e1 : l.length = 32 := h1 l (by simp)
      have e2 : r.length = 32 := h2 r (by simp)
      simp only [List.length_cons, List.range_succ_eq_map, List.map_cons, List.map_map, List.zipWith_cons_cons,
        List.flatten_cons, List.append_assoc]
      congr 1
      · simp [slice_here l _ 32 e1]
      · refine Eq.trans ?_ (ih rB (by simpa using hl) (fun x hx => h1 x (by simp [hx])) (fun x hx => h2 x (by simp [hx])))
        apply List.map_congr_left
        intro i _
        simp only [Function.comp, List.append_assoc]
        rw [slice_skip l _ _ _ 32 e1 (by omega), slice_skip r _ _ _ 32 e2 (by omega)]
        congr 1; omega

theorem interleave_R (lB rB : List Bytes) (rest : Bytes) (hl : lB.length = rB.length)
    (h1 : ∀ x ∈ lB, x.length = 32) (h2 : ∀ x ∈ rB, x.length = 32) :
    (List.range lB.length).map (fun i => slice ((List.zipWith (· ++ ·) lB rB).flatten ++ rest) (2 * i * 32 + 32) 32) = rB := by
  induction lB generalizing rB with
  | nil => cases rB <;> simp_all
  | cons l lB ih =>
    cases rB with
    | nil => simp at hl
    | cons r rB =>
      have e1 : l.length = 32 := h1 l (by simp)
      have e2 : r.length = 32 := h2 r (by simp)
      simp only [List.length_cons, List.range_succ_eq_map, List.map_cons, List.map_map, List.zipWith_cons_cons,
        List.flatten_cons, List.append_assoc]
      congr 1
      · rw [slice_skip l _ _ _ 32 e1 (by omega)]; simp [slice_here r _ 32 e2]
      · refine Eq.trans ?_ (ih rB (by simpa using hl) (fun x hx => h1 x (by simp [hx])) (fun x hx => h2 x (by simp [hx])))
        apply List.map_congr_left
        intro i _
        simp only [Function.comp, List.append_assoc]
        rw [slice_skip l _ _ _ 32 e1 (by omega), slice_skip r _ _ _ 32 e2 (by omega)]
        congr 1; omega

theorem interleave_length (lB rB : List Bytes) (hl : lB.length = rB.length)
    (h1 : ∀ x ∈ lB, x.length = 32) (h2 : ∀ x ∈ rB, x.length = 32) :
    (List.zipWith (· ++ ·) lB rB).flatten.length = 2 * lB.length * 32 := by
  induction lB generalizing rB with
  | nil => simp
  | cons l lB ih =>
    cases rB with
    | nil => simp at hl
    | cons r rB =>
      simp only [List.zipWith_cons_cons, List.flatten_cons, List.length_append, List.length_cons,
        h1 l (by simp), h2 r (by simp),
        ih rB (by simpa using hl) (fun x hx => h1 x (by simp [hx])) (fun x hx => h2 x (by simp [hx]))]
      omega

section
variable {F G : Type} [Field F] [AddCommGroup G] [Module F G] [DecidableEq G]
  [PtCodec G] [ScCodec F] [PedGens G] [LawfulPtCodec G] [LawfulScCodec F] [LawfulLen F G]

theorem mapM_dec_enc (Ps : List G) : (Ps.map PtCodec.enc).mapM (PtCodec.dec (Pt := G)) = some Ps := by
  induction Ps with
  | nil => rfl
  | cons P Ps ih => simp [List.mapM_cons, LawfulPtCodec.dec_enc, ih]

/-- the encoding of an inner-product proof parses back to its fields -/
theorem parseIpp_enc (Ls Rs : List G) (a b : F) (hk : Ls.length = Rs.length) (hk32 : Ls.length < 32) :
    parseIpp (Sc := F) (Pt := G)
      ((List.zipWith (· ++ ·) (Ls.map PtCodec.enc) (Rs.map PtCodec.enc)).flatten ++ ScCodec.enc a ++ ScCodec.enc b)
      = some ⟨Ls.map PtCodec.enc, Rs.map PtCodec.enc, Ls, Rs, a, b⟩ := by
  have l := LawfulLen.pt_len (F := F) (G := G)
  have ls := LawfulLen.sc_len (F := F) (G := G)
  have hL : ∀ x ∈ Ls.map (PtCodec.enc (Pt := G)), x.length = 32 := by
    intro x hx; obtain ⟨P, _, rfl⟩ := List.mem_map.mp hx; exact l P
  have hR : ∀ x ∈ Rs.map (PtCodec.enc (Pt := G)), x.length = 32 := by
    intro x hx; obtain ⟨P, _, rfl⟩ := List.mem_map.mp hx; exact l P
  have hkk : (Ls.map (PtCodec.enc (Pt := G))).length = (Rs.map (PtCodec.enc (Pt := G))).length := by simpa using hk
  have hlen := interleave_length _ _ hkk hL hR
  set k := Ls.length with hkdef
  have hlen' : (List.zipWith (· ++ ·) (Ls.map (PtCodec.enc (Pt := G))) (Rs.map PtCodec.enc)).flatten.length = 2 * k * 32 := by
    rw [hlen]; simp [hkdef]
  have htot : ((List.zipWith (· ++ ·) (Ls.map (PtCodec.enc (Pt := G))) (Rs.map PtCodec.enc)).flatten
      ++ ScCodec.enc a ++ ScCodec.enc b).length = (2 * k + 2) * 32 := by
    simp only [List.length_append, hlen', ls]; ring
  have eL := interleave_L _ _ (ScCodec.enc a ++ ScCodec.enc b) hkk hL hR
  have eR := interleave_R _ _ (ScCodec.enc a ++ ScCodec.enc b) hkk hL hR
  simp only [List.length_map, ← hkdef, ← List.append_assoc] at eL eR
  unfold parseIpp
  have d1 : (2 * k + 2) * 32 % 32 = 0 := Nat.mul_mod_left _ _
  have d2 : (2 * k + 2) * 32 / 32 = 2 * k + 2 := Nat.mul_div_cancel _ (by norm_num)
  have d3 : (2 * k + 2 - 2) % 2 = 0 := by omega
  have d4 : (2 * k + 2 - 2) / 2 = k := by omega
  have d5 : ¬ (2 * k + 2 < 2) := by omega
  have d6 : ¬ (k ≥ 32) := by omega
  simp only [htot, d1, d2, d3, d4, d5, d6, ne_eq, not_true_eq_false, if_false, eL, eR]
  have sa : slice ((List.zipWith (· ++ ·) (Ls.map (PtCodec.enc (Pt := G))) (Rs.map PtCodec.enc)).flatten
      ++ ScCodec.enc a ++ ScCodec.enc b) (2 * k * 32) 32 = ScCodec.enc a := by
    rw [List.append_assoc, slice_skip _ _ _ _ (2 * k * 32) hlen' (le_refl _), Nat.sub_self, slice_here _ _ 32 (ls a)]
  have sb : slice ((List.zipWith (· ++ ·) (Ls.map (PtCodec.enc (Pt := G))) (Rs.map PtCodec.enc)).flatten
      ++ ScCodec.enc a ++ ScCodec.enc b) (2 * k * 32 + 32) 32 = ScCodec.enc b := by
    rw [List.append_assoc, slice_skip _ _ _ _ (2 * k * 32) hlen' (by omega),
      slice_skip _ _ _ _ 32 (ls a) (by omega)]
    have : 2 * k * 32 + 32 - 2 * k * 32 - 32 = 0 := by omega
    rw [this, slice_here' _ 32 (ls b)]
  simp only [sa, sb, LawfulScCodec.canon_enc, mapM_dec_enc, Option.bind_eq_bind, Option.bind_some, Option.pure_def]

/-- the encoding of a range proof parses back to its fields -/
theorem parseProof_enc (A S T1 T2 : G) (tx txb eb : F) (Ls Rs : List G) (a b : F)
    (hk : Ls.length = Rs.length) (hk32 : Ls.length < 32) :
    parseProof (Sc := F) (Pt := G)
      (PtCodec.enc A ++ PtCodec.enc S ++ PtCodec.enc T1 ++ PtCodec.enc T2 ++ ScCodec.enc tx ++ ScCodec.enc txb
        ++ ScCodec.enc eb ++ ((List.zipWith (· ++ ·) (Ls.map PtCodec.enc) (Rs.map PtCodec.enc)).flatten
          ++ ScCodec.enc a ++ ScCodec.enc b))
      = some ⟨PtCodec.enc A, PtCodec.enc S, PtCodec.enc T1, PtCodec.enc T2, A, S, T1, T2, tx, txb, eb,
              ⟨Ls.map PtCodec.enc, Rs.map PtCodec.enc, Ls, Rs, a, b⟩⟩ := by
  have l := LawfulLen.pt_len (F := F) (G := G)
  have ls := LawfulLen.sc_len (F := F) (G := G)
  have hL : ∀ x ∈ Ls.map (PtCodec.enc (Pt := G)), x.length = 32 := by
    intro x hx; obtain ⟨P, _, rfl⟩ := List.mem_map.mp hx; exact l P
  have hR : ∀ x ∈ Rs.map (PtCodec.enc (Pt := G)), x.length = 32 := by
    intro x hx; obtain ⟨P, _, rfl⟩ := List.mem_map.mp hx; exact l P
  have hlen := interleave_length (Ls.map (PtCodec.enc (Pt := G))) (Rs.map PtCodec.enc) (by simpa using hk) hL hR
  set ipp := (List.zipWith (· ++ ·) (Ls.map (PtCodec.enc (Pt := G))) (Rs.map PtCodec.enc)).flatten
          ++ ScCodec.enc a ++ ScCodec.enc b with hipp
  have hil : ipp.length = (2 * Ls.length + 2) * 32 := by
    simp only [hipp, List.length_append, hlen, ls, List.length_map]; ring
  unfold parseProof
  have htot : (PtCodec.enc A ++ PtCodec.enc S ++ PtCodec.enc T1 ++ PtCodec.enc T2 ++ ScCodec.enc tx ++ ScCodec.enc txb
        ++ ScCodec.enc eb ++ ipp).length = (7 + (2 * Ls.length + 2)) * 32 := by
    simp only [List.length_append, l, ls, hil]; ring
  have d1 : (7 + (2 * Ls.length + 2)) * 32 % 32 = 0 := Nat.mul_mod_left _ _
  have d2 : ¬ ((7 + (2 * Ls.length + 2)) * 32 < 7 * 32) := by omega
  have hdrop : (PtCodec.enc A ++ PtCodec.enc S ++ PtCodec.enc T1 ++ PtCodec.enc T2 ++ ScCodec.enc tx ++ ScCodec.enc txb
        ++ ScCodec.enc eb ++ ipp).drop 224 = ipp := by
    apply List.drop_left'
    simp only [List.length_append, l, ls]
  simp only [List.append_assoc] at htot hdrop
  have hpi : parseIpp (Sc := F) (Pt := G) ipp = some ⟨Ls.map PtCodec.enc, Rs.map PtCodec.enc, Ls, Rs, a, b⟩ :=
    parseIpp_enc Ls Rs a b hk hk32
  simp only [List.append_assoc, slice_here, slice_skip _ _ _ _ 32 (l _), slice_skip _ _ _ _ 32 (ls _), l, ls,
    Nat.reduceSub, Nat.reduceLeDiff, LawfulPtCodec.dec_enc, LawfulScCodec.canon_enc,
    Option.bind_eq_bind, Option.bind_some, Option.pure_def, htot, d1, d2, ne_eq, not_true_eq_false, if_false, hdrop, hpi]
end


theorem slice_replicate_zero (n i : ℕ) (rest : Bytes) (h : i < n) :
    slice (List.replicate (32 * n) (0 : UInt8) ++ rest) (32 * i) 32 = zero32 := by
  unfold slice zero32
  rw [List.drop_append_of_le_length (by simp; omega), List.drop_replicate,
    List.take_append_of_le_length (by simp; omega), List.take_replicate]
  congr 1; omega

/-- chunking `enc V₀ ‖ … ‖ enc V_{m-1} ‖ 0…0` into `n` slots of 32 bytes -/
theorem chunks_encode (encs : List Bytes) (h32 : ∀ x ∈ encs, x.length = 32) (n : ℕ) (rest : Bytes)
    (hm : encs.length ≤ n) :
    (List.range n).map (fun i => slice (encs.flatten ++ List.replicate (32 * (n - encs.length)) 0 ++ rest) (32 * i) 32)
      = encs ++ List.replicate (n - encs.length) zero32 := by
  induction encs generalizing n with
  | nil =>
    simp only [List.flatten_nil, List.nil_append, List.length_nil, Nat.sub_zero]
    apply List.ext_getElem
    · simp
    · intro i h1 h2
      simp only [List.length_map, List.length_range] at h1
      simp [slice_replicate_zero n i rest h1]
  | cons e es ih =>
    obtain ⟨n', rfl⟩ : ∃ n', n = n' + 1 := ⟨n - 1, by simp at hm; omega⟩
    have e1 : e.length = 32 := h32 e (by simp)
    simp only [List.length_cons, Nat.add_sub_add_right, List.range_succ_eq_map, List.map_cons, List.map_map,
      List.flatten_cons, List.append_assoc, List.cons_append]
    congr 1
    · simp [slice_here e _ 32 e1]
    · have := ih (fun x hx => h32 x (by simp [hx])) n' (by simpa using hm)
      simp only [List.append_assoc] at this
      rw [← this]
      apply List.map_congr_left
      intro i _
      simp only [Function.comp]
      rw [slice_skip e _ _ _ 32 e1 (by omega)]
      congr 1

section
variable {G : Type} [AddCommGroup G] [DecidableEq G] [PtCodec G] [LawfulPtCodec G] [PtLen G]

theorem enc_ne_zero32 (V : G) (h : V ≠ 0) : PtCodec.enc V ≠ zero32 := by
  intro he
  apply h
  have h0 : PtCodec.enc (0 : G) = zero32 := LawfulPtCodec.enc_zero
  have := LawfulPtCodec.dec_enc V
  rw [he, ← h0, LawfulPtCodec.dec_enc] at this
  exact (Option.some.inj this).symm

theorem mapM_dec_enc' (Ps : List G) : (Ps.map PtCodec.enc).mapM (PtCodec.dec (Pt := G)) = some Ps := by
  induction Ps with
  | nil => rfl
  | cons P Ps ih => simp [List.mapM_cons, LawfulPtCodec.dec_enc, ih]

/-- the context bytes written by the constructor decode to the statement they were built from -/
theorem parseContext_encode (comms : List G) (bls : List ℕ) (h1 : comms.length = bls.length)
    (h8 : comms.length ≤ 8) (h0 : comms.length ≠ 0) (hnz : ∀ V ∈ comms, V ≠ 0)
    (hb : ∀ n ∈ bls, 1 ≤ n ∧ n ≤ 64) :
    parseContext (Pt := G) (encodeContext comms bls) = some (comms, bls) := by
  have l := PtLen.pt_len (G := G)
  set m := comms.length with hm
  have h32 : ∀ x ∈ comms.map (PtCodec.enc (Pt := G)), x.length = 32 := by
    intro x hx; obtain ⟨P, _, rfl⟩ := List.mem_map.mp hx; exact l P
  have hcs : (comms.map (PtCodec.enc (Pt := G))).flatten.length = 32 * m := by
    have : ∀ (L : List Bytes), (∀ x ∈ L, x.length = 32) → L.flatten.length = 32 * L.length := by
      intro L
      induction L with
      | nil => simp
      | cons x xs ih => intro h; simp [h x (by simp), ih (fun y hy => h y (by simp [hy]))]; ring
    rw [this _ h32]; simp [hm]
  have hbl : (bls.map UInt8.ofNat).length = m := by simp [h1, hm]
  have hctx : encodeContext comms bls = (comms.map (PtCodec.enc (Pt := G))).flatten
      ++ List.replicate (32 * (8 - (comms.map (PtCodec.enc (Pt := G))).length)) 0
      ++ (bls.map UInt8.ofNat ++ List.replicate (8 - m) 0) := by
    unfold encodeContext
    simp only [hcs, hbl, List.length_map, ← hm, List.append_assoc]
    congr 3; omega
  have hpods : (List.range 8).map (fun i => slice (encodeContext comms bls) (32 * i) 32)
      = comms.map PtCodec.enc ++ List.replicate (8 - m) zero32 := by
    rw [hctx, chunks_encode _ h32 8 _ (by simpa using h8)]; simp [hm]
  have hpre : ((comms.map (PtCodec.enc (Pt := G))).flatten
      ++ List.replicate (32 * (8 - (comms.map (PtCodec.enc (Pt := G))).length)) (0 : UInt8)).length = 256 := by
    simp only [List.length_append, hcs, List.length_replicate, List.length_map, ← hm]; omega
  have hbytes : slice (encodeContext comms bls) 256 8 = bls.map UInt8.ofNat ++ List.replicate (8 - m) 0 := by
    rw [hctx, slice_skip _ _ _ _ 256 hpre (le_refl _), Nat.sub_self, slice_here' _ 8 (by simp [hbl]; omega)]
  have hnat : (bls.map UInt8.ofNat ++ List.replicate (8 - m) (0 : UInt8)).map (·.toNat) = bls ++ List.replicate (8 - m) 0 := by
    rw [List.map_append, List.map_map, List.map_replicate]
    congr 1
    rw [List.map_congr_left (g := id)]
    · simp
    · intro n hn
      have := hb n hn
      simp only [Function.comp, id]
      rw [UInt8.toNat_ofNat']; omega
  have htw : List.takeWhile (fun p => !(p == zero32)) (comms.map (PtCodec.enc (Pt := G)) ++ List.replicate (8 - m) zero32)
      = comms.map PtCodec.enc := by
    rw [List.takeWhile_append_of_pos]
    · cases (8 - m) with
      | zero => simp
      | succ k => simp [List.replicate_succ]
    · intro x hx
      obtain ⟨V, hV, rfl⟩ := List.mem_map.mp hx
      simpa using enc_ne_zero32 V (hnz V hV)
  unfold parseContext
  simp only [hpods, hbytes, hnat, htw, mapM_dec_enc']
  have htake : (bls ++ List.replicate (8 - m) 0).take comms.length = bls := by
    rw [List.take_left' (by omega)]
  have hdrop : (bls ++ List.replicate (8 - m) 0).drop comms.length = List.replicate (8 - m) 0 := by
    rw [List.drop_left' (by omega)]
  have hdrop2 : (comms.map (PtCodec.enc (Pt := G)) ++ List.replicate (8 - m) zero32).drop comms.length
      = List.replicate (8 - m) zero32 := by
    rw [List.drop_left' (by simp)]
  have hany : (bls.any fun n => decide (n = 0 ∨ n > 64)) = false := by
    rw [List.any_eq_false]; intro n hn; have := hb n hn; simp; omega
  simp only [htake, hdrop, hdrop2, hany, Bool.false_eq_true, List.all_replicate, beq_self_eq_true,
    if_false]
  have hm0 : ¬ comms.length = 0 := by rw [← hm]; exact h0
  simp [hm0]
end

end Zk.Range

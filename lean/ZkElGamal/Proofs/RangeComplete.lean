import ZkElGamal.Props.C04
import ZkElGamal.Proofs.Ipp
import Mathlib.Algebra.BigOperators.Fin
/-!
Lemmas for the completeness of the aggregated range proof:
* the value of `t₀` for honest bit vectors (`t0_value` ingredients: `t0_split`, `bits_value`,
  `ip_bits_concat`, `concatZAnd2_sum`, `delta_dsum`);
* index-based evaluation of multiscalar products (`msm_eq_sum`) and the linear identities used to
  match the verifier's `G_i`/`H_i` coefficients with the prover's vectors (`H1`, `H2`, `msm_lin`, …).
-/
set_option linter.unusedSectionVars false
namespace Zk.Range
open Zk

section
variable {F : Type} [Field F] [ScCodec F] [LawfulScCodec F]

omit [LawfulScCodec F] in
/-- `t₀` splits into the bit part and the `z²`-part -/
theorem t0_split (z : F) (aL ys z2 : List F) (hb : ∀ a ∈ aL, a * (a - 1) = 0)
    (h1 : aL.length = ys.length) (h2 : aL.length = z2.length) :
    ipScalars (aL.map (· - z))
      (List.zipWith (fun (p : F × F) zk => p.1 * (p.2 + z) + z * z * zk) (List.zip ys (aL.map (· - 1))) z2)
    = (z - z * z) * ys.sum + z * z * (ipScalars aL z2 - z * z2.sum) := by
  induction aL generalizing ys z2 with
  | nil => cases ys <;> cases z2 <;> simp_all [ipScalars]
  | cons a aL ih =>
    cases ys with
    | nil => simp at h1
    | cons y ys =>
    cases z2 with
    | nil => simp at h2
    | cons k z2 =>
      simp only [List.map_cons, List.zip_cons_cons, List.zipWith_cons_cons, ip_cons_cons, List.sum_cons]
      rw [ih ys z2 (fun a' h => hb a' (by simp [h])) (by simpa using h1) (by simpa using h2)]
      have := hb a (by simp)
      linear_combination y * this

omit [LawfulScCodec F] in
theorem ip_map_mul_right (k : F) (a b : List F) : ipScalars a (b.map (· * k)) = k * ipScalars a b := by
  induction a generalizing b with
  | nil => simp [ipScalars]
  | cons x a ih =>
    cases b with
    | nil => simp [ipScalars]
    | cons y b => simp only [List.map_cons, ip_cons_cons, ih]; ring

omit [LawfulScCodec F] in
theorem ip_map_mul_left (k : F) (a b : List F) : ipScalars (a.map (k * ·)) b = k * ipScalars a b := by
  induction a generalizing b with
  | nil => simp [ipScalars]
  | cons x a ih =>
    cases b with
    | nil => simp [ipScalars]
    | cons y b => simp only [List.map_cons, ip_cons_cons, ih]; ring

omit [LawfulScCodec F] in
theorem sum_map_mul_right (k : F) (b : List F) : (b.map (· * k)).sum = k * b.sum := by
  induction b with
  | nil => simp
  | cons y b ih => simp only [List.map_cons, List.sum_cons, ih]; ring

/-- the bits of `v` (little-endian, `n` of them) weighted by powers of two give `v mod 2ⁿ` -/
theorem bits_value (v n : ℕ) :
    ipScalars ((List.range n).map fun j => (ScCodec.ofNat ((v >>> j) % 2) : F)) (powers (ScCodec.ofNat 2 : F) n)
      = ((v % 2 ^ n : ℕ) : F) := by
  rw [powers_eq_map]
  simp only [LawfulScCodec.ofNat_cast]
  induction n with
  | zero => simp [ipScalars, Nat.mod_one]
  | succ n ih =>
    rw [List.range_succ, List.map_append, List.map_append,
      ip_append _ _ _ _ (by simp), ih, Nat.mod_pow_succ]
    simp only [List.map_cons, List.map_nil, ip_cons_cons, ip_nil_left, Nat.shiftRight_eq_div_pow]
    push_cast; ring

omit [LawfulScCodec F] in
theorem concatZAnd2_cons (z : F) (n : ℕ) (ns : List ℕ) :
    concatZAnd2 z (n :: ns) = powers (ScCodec.ofNat 2 : F) n ++ (concatZAnd2 z ns).map (· * z) := by
  unfold concatZAnd2
  simp only [List.length_cons, powers, List.zip_cons_cons, List.flatMap_cons, mul_one, List.map_id']
  congr 1
  rw [List.map_flatMap]
  -- zip of mapped powers
  have : List.zip (List.map (fun x => z * x) (powers z ns.length)) ns
      = (List.zip (powers z ns.length) ns).map fun p => (z * p.1, p.2) := by
    rw [List.zip_map_left]
    rfl
  rw [this, List.flatMap_map]
  apply List.flatMap_congr
  intro p _
  rw [List.map_map]
  apply List.map_congr_left
  intro a _
  simp only [Function.comp]; ring

theorem bitsOf_cons (v : ℕ) (vs : List ℕ) (n : ℕ) (ns : List ℕ) :
    (bitsOf (v :: vs) (n :: ns) : List F)
      = ((List.range n).map fun j => (ScCodec.ofNat ((v >>> j) % 2) : F)) ++ bitsOf vs ns := by
  simp [bitsOf]

theorem bitsOf_length (vs ns : List ℕ) (h : vs.length = ns.length) : (bitsOf vs ns : List F).length = ns.sum := by
  induction vs generalizing ns with
  | nil => cases ns <;> simp_all [bitsOf]
  | cons v vs ih =>
    cases ns with
    | nil => simp at h
    | cons n ns => rw [bitsOf_cons, List.length_append, ih ns (by simpa using h)]; simp

theorem bitsOf_bits (vs ns : List ℕ) : ∀ a ∈ (bitsOf vs ns : List F), a * (a - 1) = 0 := by
  intro a ha
  simp only [bitsOf, List.mem_flatMap, List.mem_map, List.mem_range] at ha
  obtain ⟨p, _, j, _, rfl⟩ := ha
  rw [LawfulScCodec.ofNat_cast]
  rcases Nat.mod_two_eq_zero_or_one (p.1 >>> j) with h | h <;> simp [h]

omit [LawfulScCodec F] in
theorem concatZAnd2_length (z : F) (ns : List ℕ) : (concatZAnd2 z ns).length = ns.sum := by
  induction ns with
  | nil => simp [concatZAnd2]
  | cons n ns ih => rw [concatZAnd2_cons]; simp [ih]

/-- `⟨a_L, z^j·2^k⟩ = Σ_j z^j·v_j` for in-range amounts -/
theorem ip_bits_concat (z : F) (vs ns : List ℕ) (h : vs.length = ns.length)
    (hr : ∀ p ∈ List.zip vs ns, p.1 < 2 ^ p.2) :
    ipScalars (bitsOf vs ns : List F) (concatZAnd2 z ns)
      = ipScalars (powers z ns.length) (vs.map fun v => (ScCodec.ofNat v : F)) := by
  induction vs generalizing ns with
  | nil => cases ns <;> simp_all [bitsOf, ipScalars]
  | cons v vs ih =>
    cases ns with
    | nil => simp at h
    | cons n ns =>
      rw [bitsOf_cons, concatZAnd2_cons, ip_append _ _ _ _ (by simp), bits_value, ip_map_mul_right,
        ih ns (by simpa using h) (fun p hp => hr p (by simp [hp]))]
      have hv : v < 2 ^ n := hr (v, n) (by simp)
      simp only [List.length_cons, powers, List.map_cons, ip_cons_cons, ip_map_mul_left,
        Nat.mod_eq_of_lt hv, LawfulScCodec.ofNat_cast]
      ring

/-- `Σ_j z^j·(2^{n_j} − 1)` by recursion on the bit lengths -/
def dsum (z : F) : List ℕ → F
  | [] => 0
  | n :: ns => (∑ k ∈ Finset.range n, (2 : F) ^ k) + z * dsum z ns

theorem concatZAnd2_sum (z : F) (ns : List ℕ) : (concatZAnd2 z ns).sum = dsum z ns := by
  induction ns with
  | nil => simp [concatZAnd2, dsum]
  | cons n ns ih =>
    rw [concatZAnd2_cons, List.sum_append, sum_map_mul_right, ih, dsum, powers_sum,
      LawfulScCodec.ofNat_cast]
    simp

theorem delta_dsum (bls : List ℕ) (y z : F) :
    delta bls y z = (z - z * z) * (∑ i ∈ Finset.range bls.sum, y ^ i) - z * z * z * dsum z bls := by
  unfold delta
  simp only [Props.C04.sumOfPowers_spec, LawfulScCodec.ofNat_cast, Nat.cast_ofNat]
  generalize (z - z * z) * (∑ i ∈ Finset.range bls.sum, y ^ i) = init
  generalize z * z * z = e
  induction bls generalizing init e with
  | nil => simp [dsum]
  | cons n ns ih =>
    simp only [List.foldl_cons, dsum]
    rw [ih]; ring

end

section
variable {F G : Type} [Field F] [AddCommGroup G] [Module F G]

theorem msm_eq_sum (n : ℕ) (ss : List F) (ps : List G) (h1 : ss.length = n) (h2 : ps.length = n) :
    msm ss ps = ∑ i : Fin n, ss[i.1]'(h1 ▸ i.2) • ps[i.1]'(h2 ▸ i.2) := by
  induction n generalizing ss ps with
  | zero =>
    have : ss = [] := List.length_eq_zero_iff.mp h1
    subst this; simp
  | succ n ih =>
    cases ss with
    | nil => simp at h1
    | cons s ss =>
    cases ps with
    | nil => simp at h2
    | cons p ps =>
      rw [msm_cons_cons, ih ss ps (by simpa using h1) (by simpa using h2), Fin.sum_univ_succ]
      simp

theorem list_sum_eq_sum (n : ℕ) (ps : List G) (h2 : ps.length = n) :
    ps.sum = ∑ i : Fin n, ps[i.1]'(h2 ▸ i.2) := by
  induction n generalizing ps with
  | zero =>
    have : ps = [] := List.length_eq_zero_iff.mp h2
    subst this; simp
  | succ n ih =>
    cases ps with
    | nil => simp at h2
    | cons p ps =>
      rw [List.sum_cons, ih ps (by simpa using h2), Fin.sum_univ_succ]
      simp

theorem H1 (n : ℕ) (z zz b : F) (sInv yinv z2 : List F) (gH : List G)
    (l1 : sInv.length = n) (l2 : yinv.length = n) (l3 : z2.length = n) (l4 : gH.length = n) :
    msm ((List.zip (List.zip sInv yinv) z2).map fun ((si, ey), k) => z + ey * (zz * k - b * si)) gH
      = z • gH.sum + zz • msm (List.zipWith (· * ·) yinv z2) gH
        - b • msm sInv (List.zipWith (fun (f : F) (P : G) => f • P) yinv gH) := by
  rw [msm_eq_sum n _ gH (by simp [l1, l2, l3]) l4, msm_eq_sum n _ gH (by simp [l2, l3]) l4,
    msm_eq_sum n sInv _ l1 (by simp [l2, l4]), list_sum_eq_sum n gH l4]
  simp only [Finset.smul_sum, ← Finset.sum_add_distrib, ← Finset.sum_sub_distrib]
  apply Finset.sum_congr rfl
  intro i _
  simp only [List.getElem_map, List.getElem_zip, List.getElem_zipWith]
  module

theorem ip_eq_sum (n : ℕ) (a b : List F) (h1 : a.length = n) (h2 : b.length = n) :
    ipScalars a b = ∑ i : Fin n, a[i.1]'(h1 ▸ i.2) * b[i.1]'(h2 ▸ i.2) := by
  induction n generalizing a b with
  | zero =>
    have : a = [] := List.length_eq_zero_iff.mp h1
    subst this; simp [ipScalars]
  | succ n ih =>
    cases a with
    | nil => simp at h1
    | cons s ss =>
    cases b with
    | nil => simp at h2
    | cons p ps =>
      rw [ip_cons_cons, ih ss ps (by simpa using h1) (by simpa using h2), Fin.sum_univ_succ]
      simp

/-- `msm (l₀ + x·l₁) g = msm l₀ g + x • msm l₁ g` -/
theorem msm_lin (n : ℕ) (x : F) (l0 l1 : List F) (g : List G)
    (h0 : l0.length = n) (h1 : l1.length = n) (h2 : g.length = n) :
    msm (List.zipWith (fun a b => a + b * x) l0 l1) g = msm l0 g + x • msm l1 g := by
  rw [msm_eq_sum n _ g (by simp [h0, h1]) h2, msm_eq_sum n l0 g h0 h2, msm_eq_sum n l1 g h1 h2]
  simp only [Finset.smul_sum, ← Finset.sum_add_distrib]
  apply Finset.sum_congr rfl
  intro i _
  simp only [List.getElem_zipWith]
  module

/-- `msm (a − z) g = msm a g − z • Σ g` -/
theorem msm_shift (n : ℕ) (z : F) (a : List F) (g : List G) (h0 : a.length = n) (h2 : g.length = n) :
    msm (a.map (· - z)) g = msm a g - z • g.sum := by
  rw [msm_eq_sum n _ g (by simp [h0]) h2, msm_eq_sum n a g h0 h2, list_sum_eq_sum n g h2]
  simp only [Finset.smul_sum, ← Finset.sum_sub_distrib]
  apply Finset.sum_congr rfl
  intro i _
  simp only [List.getElem_map]
  module

/-- `⟨l₀ + x l₁, r₀ + x r₁⟩ = t₀ + x (t₁ + x t₂)` with `t₁` computed Karatsuba-style as in the code -/
theorem ip_bilinear (n : ℕ) (x : F) (l0 l1 r0 r1 : List F)
    (h0 : l0.length = n) (h1 : l1.length = n) (h2 : r0.length = n) (h3 : r1.length = n) :
    ipScalars (List.zipWith (fun a b => a + b * x) l0 l1) (List.zipWith (fun a b => a + b * x) r0 r1)
      = ipScalars l0 r0 + x * ((ipScalars (List.zipWith (· + ·) l0 l1) (List.zipWith (· + ·) r0 r1)
          - ipScalars l0 r0 - ipScalars l1 r1) + x * ipScalars l1 r1) := by
  rw [ip_eq_sum n _ _ (by simp [h0, h1]) (by simp [h2, h3]), ip_eq_sum n l0 r0 h0 h2, ip_eq_sum n l1 r1 h1 h3,
    ip_eq_sum n _ _ (by simp [h0, h1]) (by simp [h2, h3])]
  simp only [Finset.mul_sum, ← Finset.sum_add_distrib, ← Finset.sum_sub_distrib]
  apply Finset.sum_congr rfl
  intro i _
  simp only [List.getElem_zipWith]
  ring

variable [ScCodec F]

theorem H2 (n : ℕ) (y z zz x : F) (hy : y ≠ 0) (aR sR z2 : List F) (gH : List G)
    (l1 : aR.length = n) (l2 : sR.length = n) (l3 : z2.length = n) (l4 : gH.length = n) :
    msm (List.zipWith (fun a b => a + b * x)
          (List.zipWith (fun (p : F × F) zk => p.1 * (p.2 + z) + zz * zk) (List.zip (powers y n) aR) z2)
          (List.zipWith (· * ·) (powers y n) sR))
        (List.zipWith (fun (f : F) (P : G) => f • P) (powers y⁻¹ n) gH)
      = msm aR gH + x • msm sR gH + z • gH.sum + zz • msm (List.zipWith (· * ·) (powers y⁻¹ n) z2) gH := by
  rw [msm_eq_sum n _ _ (by simp [l1, l2, l3]) (by simp [l4]), msm_eq_sum n aR gH l1 l4, msm_eq_sum n sR gH l2 l4,
    msm_eq_sum n _ gH (by simp [l3]) l4, list_sum_eq_sum n gH l4]
  simp only [Finset.smul_sum, ← Finset.sum_add_distrib]
  apply Finset.sum_congr rfl
  intro i _
  simp only [List.getElem_map, List.getElem_zip, List.getElem_zipWith, powers_getElem]
  have hab : y ^ i.1 * y⁻¹ ^ i.1 = 1 := by rw [← mul_pow, mul_inv_cancel₀ hy, one_pow]
  have := i.2
  generalize y ^ i.1 = a at *
  generalize y⁻¹ ^ i.1 = b at *
  rw [smul_smul]
  have e : (a * (aR[i.1] + z) + zz * z2[i.1] + a * sR[i.1] * x) * b
      = (aR[i.1] + z + sR[i.1] * x) + zz * (b * z2[i.1]) := by
    linear_combination (aR[i.1] + z + sR[i.1] * x) * hab
  rw [e]; module

variable [PedGens G]

/-- a combination of Pedersen commitments is the commitment to the combinations -/
theorem msm_pedersen (n : ℕ) (cs vs rs : List F) (h0 : cs.length = n) (h1 : vs.length = n) (h2 : rs.length = n) :
    msm cs (List.zipWith (fun v r => (pedersenWith v r : G)) vs rs)
      = ipScalars cs vs • (PedGens.G : G) + ipScalars cs rs • (PedGens.H : G) := by
  rw [msm_eq_sum n cs _ h0 (by simp [h1, h2]), ip_eq_sum n cs vs h0 h1, ip_eq_sum n cs rs h0 h2]
  simp only [Finset.sum_smul, ← Finset.sum_add_distrib]
  apply Finset.sum_congr rfl
  intro i _
  simp only [List.getElem_zipWith, pedersenWith, msm_cons_cons, msm_nil_left]
  module

variable [LawfulScCodec F]
/-- the aggregated opening `Σ_j z^{j+2}·r_j` computed by the fold of `RangeProof::new` -/
theorem agg_spec (z : F) (opens : List F) :
    (opens.foldl (fun (acc : F × F) r => (acc.1 + acc.2 * z * r, acc.2 * z)) (0, z)).1
      = z * z * ipScalars (powers z opens.length) opens := by
  have key : ∀ (l : List F) (acc e : F),
      (l.foldl (fun (acc : F × F) r => (acc.1 + acc.2 * z * r, acc.2 * z)) (acc, e)).1
        = acc + e * z * ipScalars (powers z l.length) l := by
    intro l
    induction l with
    | nil => intro acc e; simp [ipScalars, powers]
    | cons r rs ih =>
      intro acc e
      simp only [List.foldl_cons, List.length_cons, powers, ip_cons_cons, ih]
      rw [ip_map_mul_left]
      ring
  rw [key]; ring

end
end Zk.Range

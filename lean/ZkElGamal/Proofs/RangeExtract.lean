import Mathlib.LinearAlgebra.Vandermonde
import Mathlib.Tactic.Module
import Mathlib.Tactic.LinearCombination
import Mathlib.Tactic.Ring

namespace Zk.RangeExtract
open Finset

variable {F : Type} [Field F]

theorem coeffs_zero_of_roots {n : ℕ} (c r : Fin n → F) (hr : Function.Injective r)
    (h : ∀ k, ∑ i, c i * r k ^ (i : ℕ) = 0) : c = 0 := by
  have hdet : (Matrix.vandermonde r).det ≠ 0 := Matrix.det_vandermonde_ne_zero_iff.mpr hr
  apply Matrix.eq_zero_of_mulVec_eq_zero hdet
  funext k
  simp only [Matrix.mulVec, dotProduct, Matrix.vandermonde_apply, Pi.zero_apply]
  rw [← h k]; apply Finset.sum_congr rfl; intro i _; ring

theorem identity_rearranged {N m : ℕ} (blk : Fin N → Fin m) (pw aL aR : Fin N → F) (v : Fin m → F) (y z : F) :
    (∑ i, (aL i - z) * (y ^ (i : ℕ) * (aR i + z) + z ^ 2 * z ^ (blk i : ℕ) * pw i))
      - ((z - z ^ 2) * ∑ i : Fin N, y ^ (i : ℕ) - ∑ i, z ^ (3 + (blk i : ℕ)) * pw i
          + ∑ j : Fin m, z ^ (2 + (j : ℕ)) * v j)
    = (∑ i, aL i * aR i * y ^ (i : ℕ)) + (∑ i, (aL i - aR i - 1) * y ^ (i : ℕ)) * z
        + ∑ j : Fin m, ((∑ i with blk i = j, aL i * pw i) - v j) * z ^ (2 + (j : ℕ)) := by
  have hf : ∑ j : Fin m, (∑ i with blk i = j, aL i * pw i) * z ^ (2 + (j : ℕ))
      = ∑ i, aL i * pw i * z ^ (2 + (blk i : ℕ)) := by
    rw [← Finset.sum_fiberwise (s := Finset.univ) (g := blk) (f := fun i => aL i * pw i * z ^ (2 + (blk i : ℕ)))]
    apply Finset.sum_congr rfl; intro j _
    rw [Finset.sum_mul]
    apply Finset.sum_congr rfl; intro i hi
    rw [(Finset.mem_filter.mp hi).2]
  have hv : ∑ j : Fin m, z ^ (2 + (j : ℕ)) * v j = ∑ j : Fin m, v j * z ^ (2 + (j : ℕ)) :=
    Finset.sum_congr rfl fun j _ => mul_comm _ _
  have hT : (∑ i, (aL i - z) * (y ^ (i : ℕ) * (aR i + z) + z ^ 2 * z ^ (blk i : ℕ) * pw i))
      = ∑ i, (aL i * aR i * y ^ (i : ℕ) + (aL i - aR i - 1) * y ^ (i : ℕ) * z
          + aL i * pw i * z ^ (2 + (blk i : ℕ)) + ((z - z ^ 2) * y ^ (i : ℕ) - z ^ (3 + (blk i : ℕ)) * pw i)) := by
    apply Finset.sum_congr rfl; intro i _; ring
  have hsplit : (∑ i, (aL i * aR i * y ^ (i : ℕ) + (aL i - aR i - 1) * y ^ (i : ℕ) * z
          + aL i * pw i * z ^ (2 + (blk i : ℕ)) + ((z - z ^ 2) * y ^ (i : ℕ) - z ^ (3 + (blk i : ℕ)) * pw i)))
      = (∑ i, aL i * aR i * y ^ (i : ℕ)) + (∑ i, (aL i - aR i - 1) * y ^ (i : ℕ)) * z
        + (∑ i, aL i * pw i * z ^ (2 + (blk i : ℕ)))
        + ((z - z ^ 2) * (∑ i : Fin N, y ^ (i : ℕ)) - ∑ i, z ^ (3 + (blk i : ℕ)) * pw i) := by
    rw [Finset.sum_add_distrib, Finset.sum_add_distrib, Finset.sum_add_distrib, Finset.sum_sub_distrib,
      Finset.sum_mul, Finset.mul_sum]
  have hr : ∑ j : Fin m, ((∑ i with blk i = j, aL i * pw i) - v j) * z ^ (2 + (j : ℕ))
      = (∑ i, aL i * pw i * z ^ (2 + (blk i : ℕ))) - ∑ j : Fin m, v j * z ^ (2 + (j : ℕ)) := by
    rw [← hf, ← Finset.sum_sub_distrib]
    apply Finset.sum_congr rfl; intro j _; ring
  rw [hT, hsplit, hr, hv]
  ring

/-- **last step of the Bulletproofs extractor** (pure field algebra). If the constant coefficient of
    `⟨l(X), r(X)⟩` computed from the opening `(a_L, a_R)` of `A` equals `δ(y,z) + Σ_j z^{2+j}·v_j` for `N`
    distinct `y` and `m+2` distinct `z`, then `a_L` is a bit vector, `a_R = a_L − 1`, and every `v_j` is
    the weighted sum of the bits of its block. (`blk i` = commitment index of position `i`, `pw i` = its
    power of two; `concat_z_and_2` at position `i` is `z^{blk i}·pw i`.) -/
theorem bits_of_identity {N m : ℕ} (hN : 0 < N) (blk : Fin N → Fin m) (pw aL aR : Fin N → F) (v : Fin m → F)
    (Y : Fin N → F) (hY : Function.Injective Y) (Z : Fin (m + 2) → F) (hZ : Function.Injective Z)
    (hid : ∀ p q,
      ∑ i, (aL i - Z q) * (Y p ^ (i : ℕ) * (aR i + Z q) + Z q ^ 2 * Z q ^ (blk i : ℕ) * pw i)
        = (Z q - Z q ^ 2) * ∑ i : Fin N, Y p ^ (i : ℕ) - ∑ i, Z q ^ (3 + (blk i : ℕ)) * pw i
          + ∑ j : Fin m, Z q ^ (2 + (j : ℕ)) * v j) :
    (∀ i, aL i * aR i = 0 ∧ aL i - aR i = 1) ∧ ∀ j, v j = ∑ i with blk i = j, aL i * pw i := by
  have hz : ∀ p, (∑ i, aL i * aR i * Y p ^ (i : ℕ)) = 0 ∧ (∑ i, (aL i - aR i - 1) * Y p ^ (i : ℕ)) = 0
      ∧ ∀ j, (∑ i with blk i = j, aL i * pw i) - v j = 0 := by
    intro p
    let c : Fin (m + 2) → F := Fin.cons (∑ i, aL i * aR i * Y p ^ (i : ℕ))
      (Fin.cons (∑ i, (aL i - aR i - 1) * Y p ^ (i : ℕ)) fun j => (∑ i with blk i = j, aL i * pw i) - v j)
    have hc : c = 0 := coeffs_zero_of_roots c Z hZ (fun q => by
      have := identity_rearranged blk pw aL aR v (Y p) (Z q)
      rw [hid p q, sub_self] at this
      rw [Fin.sum_univ_succ, Fin.sum_univ_succ]
      simp only [c, Fin.cons_zero, Fin.cons_succ, Fin.val_zero, Fin.val_succ, pow_zero, mul_one, zero_add, pow_one]
      rw [this, add_assoc]
      congr 2
      apply Finset.sum_congr rfl; intro j _
      congr 1; congr 1; omega)
    refine ⟨?_, ?_, fun j => ?_⟩
    · simpa [c] using congrFun hc 0
    · simpa [c] using congrFun hc 1
    · simpa [c] using congrFun hc j.succ.succ
  have h0 : (fun i => aL i * aR i) = 0 := coeffs_zero_of_roots _ Y hY (fun p => (hz p).1)
  have h1 : (fun i => aL i - aR i - 1) = 0 := coeffs_zero_of_roots _ Y hY (fun p => (hz p).2.1)
  refine ⟨fun i => ⟨congrFun h0 i, ?_⟩, fun j => ?_⟩
  · have := congrFun h1 i
    simp only [Pi.zero_apply] at this
    linear_combination this
  · cases N with
    | zero => exact absurd hN (lt_irrefl 0)
    | succ n => have := (hz 0).2.2 j; linear_combination -this


/-! ## generators -/
section gens
variable {G : Type} [AddCommGroup G] [Module F G] {N : ℕ}

/-- linear combination of the range-proof generators `g_i, h_i`, the value base `B` and the blinding base `Ht` -/
def glin (g h : Fin N → G) (B Ht : G) (a b : Fin N → F) (β η : F) : G :=
  (∑ i, a i • g i) + (∑ i, b i • h i) + β • B + η • Ht

theorem glin_sub (g h : Fin N → G) (B Ht : G) (a b : Fin N → F) (β η : F) (a' b' : Fin N → F) (β' η' : F) :
    glin g h B Ht a b β η - glin g h B Ht a' b' β' η' = glin g h B Ht (a - a') (b - b') (β - β') (η - η') := by
  unfold glin
  simp only [Pi.sub_apply, sub_smul, Finset.sum_sub_distrib]
  abel

theorem glin_add (g h : Fin N → G) (B Ht : G) (a b : Fin N → F) (β η : F) (a' b' : Fin N → F) (β' η' : F) :
    glin g h B Ht a b β η + glin g h B Ht a' b' β' η' = glin g h B Ht (a + a') (b + b') (β + β') (η + η') := by
  unfold glin
  simp only [Pi.add_apply, add_smul, Finset.sum_add_distrib]
  abel

theorem glin_smul (g h : Fin N → G) (B Ht : G) (c : F) (a b : Fin N → F) (β η : F) :
    c • glin g h B Ht a b β η = glin g h B Ht (c • a) (c • b) (c * β) (c * η) := by
  unfold glin
  simp only [smul_add, Finset.smul_sum, smul_smul, Pi.smul_apply, smul_eq_mul]

/-- the generators admit no non-trivial linear relation (for the real generators: the discrete-log assumption) -/
def GIndep (F : Type) [Field F] [Module F G] (g h : Fin N → G) (B Ht : G) : Prop :=
  ∀ (a b : Fin N → F) (β η : F), glin g h B Ht a b β η = 0 → a = 0 ∧ b = 0 ∧ β = 0 ∧ η = 0

theorem glin_inj {g h : Fin N → G} {B Ht : G} (hind : GIndep F g h B Ht) {a b : Fin N → F} {β η : F}
    {a' b' : Fin N → F} {β' η' : F} (e : glin g h B Ht a b β η = glin g h B Ht a' b' β' η') :
    a = a' ∧ b = b' ∧ β = β' ∧ η = η' := by
  have := hind (a - a') (b - b') (β - β') (η - η') (by rw [← glin_sub, e, sub_self])
  exact ⟨sub_eq_zero.mp this.1, sub_eq_zero.mp this.2.1, sub_eq_zero.mp this.2.2.1, sub_eq_zero.mp this.2.2.2⟩

theorem pair_inj {g h : Fin N → G} {B Ht : G} (hind : GIndep F g h B Ht) {β η β' η' : F}
    (e : β • B + η • Ht = β' • B + η' • Ht) : β = β' ∧ η = η' := by
  have e' : glin g h B Ht (0 : Fin N → F) 0 β η = glin g h B Ht (0 : Fin N → F) 0 β' η' := by
    simp only [glin, Pi.zero_apply, zero_smul, Finset.sum_const_zero, zero_add]; exact e
  exact (glin_inj hind e').2.2

theorem AS_open (g h : Fin N → G) (B Ht A S : G) (x0 x1 : F) (hx : x0 ≠ x1)
    (a0 b0 : Fin N → F) (β0 η0 : F) (a1 b1 : Fin N → F) (β1 η1 : F)
    (h0 : A + x0 • S = glin g h B Ht a0 b0 β0 η0) (h1 : A + x1 • S = glin g h B Ht a1 b1 β1 η1) :
    ∃ (aL aR : Fin N → F) (βA α : F) (sL sR : Fin N → F) (βS ρ : F),
      A = glin g h B Ht aL aR βA α ∧ S = glin g h B Ht sL sR βS ρ := by
  have d : x0 - x1 ≠ 0 := sub_ne_zero.mpr hx
  have hS : S = (x0 - x1)⁻¹ • ((A + x0 • S) - (A + x1 • S)) := by
    have : (A + x0 • S) - (A + x1 • S) = (x0 - x1) • S := by module
    rw [this, smul_smul, inv_mul_cancel₀ d, one_smul]
  rw [h0, h1, glin_sub, glin_smul] at hS
  have hA : A = (A + x0 • S) - x0 • S := by abel
  rw [h0] at hA
  rw [hS] at hA
  rw [glin_smul, glin_sub] at hA
  exact ⟨_, _, _, _, _, _, _, _, hA, hS⟩

theorem vandermonde_mem {m : ℕ} (U : Submodule F G) (V : Fin m → G) (z : Fin m → F) (hz : Function.Injective z)
    (h : ∀ q, ∑ j : Fin m, z q ^ (j : ℕ) • V j ∈ U) : ∀ j, V j ∈ U := by
  intro j
  have hdet : IsUnit (Matrix.vandermonde z).det :=
    isUnit_iff_ne_zero.mpr (Matrix.det_vandermonde_ne_zero_iff.mpr hz)
  have key : V j = ∑ q, (Matrix.vandermonde z)⁻¹ j q • ∑ j' : Fin m, z q ^ (j' : ℕ) • V j' := by
    simp only [Finset.smul_sum, smul_smul]
    rw [Finset.sum_comm]
    simp only [← Finset.sum_smul]
    have : ∀ j' : Fin m, ∑ q, (Matrix.vandermonde z)⁻¹ j q * z q ^ (j' : ℕ) = (1 : Matrix (Fin m) (Fin m) F) j j' := by
      intro j'
      rw [← Matrix.nonsing_inv_mul _ hdet, Matrix.mul_apply]
      simp [Matrix.vandermonde_apply]
    simp only [this, Matrix.one_apply, ite_smul, one_smul, zero_smul, Finset.sum_ite_eq, Finset.mem_univ, if_true]
  rw [key]
  exact U.sum_mem fun q _ => U.smul_mem _ (h q)


/-- three accepting polynomial-commitment equations with distinct `x` open `W`, `T₁`, `T₂` w.r.t. `(B, H)` -/
theorem poly_open (B H W T1 T2 : G) (x1 x2 x3 t1 t2 t3 b1 b2 b3 : F)
    (h12 : x1 ≠ x2) (h13 : x1 ≠ x3) (h23 : x2 ≠ x3)
    (e1 : t1 • B + b1 • H = W + x1 • T1 + (x1 * x1) • T2)
    (e2 : t2 • B + b2 • H = W + x2 • T1 + (x2 * x2) • T2)
    (e3 : t3 • B + b3 • H = W + x3 • T1 + (x3 * x3) • T2) :
    ∃ a0 c0 a1 c1 a2 c2 : F,
      W = a0 • B + c0 • H ∧ T1 = a1 • B + c1 • H ∧ T2 = a2 • B + c2 • H := by
  set D : F := (x1 - x2) * (x1 - x3) * (x2 - x3) with hD
  have hD0 : D ≠ 0 := by
    rw [hD]
    exact mul_ne_zero (mul_ne_zero (sub_ne_zero.mpr h12) (sub_ne_zero.mpr h13)) (sub_ne_zero.mpr h23)
  have d12 : x1 - x2 ≠ 0 := sub_ne_zero.mpr h12
  set u : F := (x2 - x3) * t1 - (x1 - x3) * t2 + (x1 - x2) * t3 with hu
  set v : F := (x2 - x3) * b1 - (x1 - x3) * b2 + (x1 - x2) * b3 with hv
  have k2 : D • T2 = u • B + v • H := by
    rw [hD, hu, hv]
    linear_combination (norm := module) -((x2 - x3) • e1 - (x1 - x3) • e2 + (x1 - x2) • e3)
  have hT2 : T2 = (D⁻¹ * u) • B + (D⁻¹ * v) • H := by
    have : T2 = D⁻¹ • (D • T2) := by rw [smul_smul, inv_mul_cancel₀ hD0, one_smul]
    rw [this, k2]; module
  have k1 : (x1 - x2) • T1 = (t1 - t2) • B + (b1 - b2) • H - (x1 * x1 - x2 * x2) • T2 := by
    linear_combination (norm := module) e2 - e1
  have hT1 : T1 = ((x1 - x2)⁻¹ * ((t1 - t2) - (x1 * x1 - x2 * x2) * (D⁻¹ * u))) • B
      + ((x1 - x2)⁻¹ * ((b1 - b2) - (x1 * x1 - x2 * x2) * (D⁻¹ * v))) • H := by
    have : T1 = (x1 - x2)⁻¹ • ((x1 - x2) • T1) := by rw [smul_smul, inv_mul_cancel₀ d12, one_smul]
    rw [this, k1, hT2]; module
  set a2 : F := D⁻¹ * u with ha2
  set c2 : F := D⁻¹ * v with hc2
  set a1 : F := (x1 - x2)⁻¹ * ((t1 - t2) - (x1 * x1 - x2 * x2) * a2) with ha1
  set c1 : F := (x1 - x2)⁻¹ * ((b1 - b2) - (x1 * x1 - x2 * x2) * c2) with hc1
  refine ⟨t1 - x1 * a1 - x1 * x1 * a2, b1 - x1 * c1 - x1 * x1 * c2, a1, c1, a2, c2, ?_, hT1, hT2⟩
  · have hW : W = t1 • B + b1 • H - x1 • T1 - (x1 * x1) • T2 := by
      linear_combination (norm := module) -e1
    rw [hW, hT1, hT2]
    module

/-- `δ(y,z)` of the verifier over index functions: `(z − z²)·Σ yⁱ − Σ_i z^{3+blk i}·pw i` -/
def dl {m : ℕ} (blk : Fin N → Fin m) (pw : Fin N → F) (y z : F) : F :=
  (z - z ^ 2) * ∑ i : Fin N, y ^ (i : ℕ) - ∑ i, z ^ (3 + (blk i : ℕ)) * pw i


/-- the `w`-step: two accepting inner-product openings for the same `(y,z,x)` and distinct `w` have the same
    vectors, `t̂ = ⟨l,r⟩`, and `A + x•S` opens to `(l + z, y⁻ⁱ(r − z²d) − z, 0, e)` -/
theorem w_step {m : ℕ} (g h : Fin N → G) (B Ht : G) (hind : GIndep F g h B Ht) (blk : Fin N → Fin m) (pw : Fin N → F)
    (A S : G) (y z x th e w0 w1 : F) (hy : y ≠ 0) (hw : w0 ≠ w1) (l0 r0 l1 r1 : Fin N → F)
    (h0 : A + x • S - e • Ht + (w0 * th) • B - ∑ i : Fin N, z • g i
        + ∑ i : Fin N, (z + (y ^ (i : ℕ))⁻¹ * (z ^ 2 * z ^ (blk i : ℕ) * pw i)) • h i
      = (∑ i : Fin N, l0 i • g i) + (∑ i : Fin N, (r0 i * (y ^ (i : ℕ))⁻¹) • h i) + (w0 * ∑ i : Fin N, l0 i * r0 i) • B)
    (h1 : A + x • S - e • Ht + (w1 * th) • B - ∑ i : Fin N, z • g i
        + ∑ i : Fin N, (z + (y ^ (i : ℕ))⁻¹ * (z ^ 2 * z ^ (blk i : ℕ) * pw i)) • h i
      = (∑ i : Fin N, l1 i • g i) + (∑ i : Fin N, (r1 i * (y ^ (i : ℕ))⁻¹) • h i) + (w1 * ∑ i : Fin N, l1 i * r1 i) • B) :
    th = ∑ i : Fin N, l0 i * r0 i ∧
    A + x • S = glin g h B Ht (fun i => l0 i + z)
      (fun i => r0 i * (y ^ (i : ℕ))⁻¹ - (z + (y ^ (i : ℕ))⁻¹ * (z ^ 2 * z ^ (blk i : ℕ) * pw i))) 0 e := by
  set Base : G := A + x • S - e • Ht - ∑ i : Fin N, z • g i
        + ∑ i : Fin N, (z + (y ^ (i : ℕ))⁻¹ * (z ^ 2 * z ^ (blk i : ℕ) * pw i)) • h i with hBase
  have e0 : glin g h B Ht l0 (fun i => r0 i * (y ^ (i : ℕ))⁻¹) (w0 * (∑ i : Fin N, l0 i * r0 i) - w0 * th) 0 = Base := by
    unfold glin; rw [hBase]; linear_combination (norm := module) -h0
  have e1 : glin g h B Ht l1 (fun i => r1 i * (y ^ (i : ℕ))⁻¹) (w1 * (∑ i : Fin N, l1 i * r1 i) - w1 * th) 0 = Base := by
    unfold glin; rw [hBase]; linear_combination (norm := module) -h1
  obtain ⟨hl, hr, hβ, -⟩ := glin_inj hind (e0.trans e1.symm)
  have hr' : r0 = r1 := by
    funext i
    have := congrFun hr i
    exact mul_right_cancel₀ (inv_ne_zero (pow_ne_zero _ hy)) this
  subst hl; subst hr'
  have hth : th = ∑ i : Fin N, l0 i * r0 i := by
    have : (w0 - w1) * ((∑ i : Fin N, l0 i * r0 i) - th) = 0 := by linear_combination hβ
    rcases mul_eq_zero.mp this with h | h
    · exact absurd (sub_eq_zero.mp h) hw
    · exact (sub_eq_zero.mp h).symm
  refine ⟨hth, ?_⟩
  rw [← hth, sub_self] at e0
  have : A + x • S = Base + e • Ht + (∑ i : Fin N, z • g i)
      - ∑ i : Fin N, (z + (y ^ (i : ℕ))⁻¹ * (z ^ 2 * z ^ (blk i : ℕ) * pw i)) • h i := by rw [hBase]; abel
  rw [this, ← e0]
  unfold glin
  simp only [add_smul, sub_smul, Finset.sum_add_distrib, Finset.sum_sub_distrib, zero_smul]
  abel


/-- **special soundness of the aggregated range proof** (third extractor step; with `ipp_special_sound`
    delivering the inner-product openings this is the algebra of the Bulletproofs knowledge extractor).
    Over independent generators, a grid of accepting transcripts — `N` distinct non-zero `y`, `m+2` distinct
    non-zero `z`, three distinct `x`, two distinct `w`; `A, S, V_j` fixed, `T₁,T₂` per `(y,z)`,
    `t̂, τ, e` per `(y,z,x)`, opened inner-product vectors `l, r` per leaf — forces every commitment
    `V_j = v_j•B + γ_j•H̃` with `v_j = Σ_{i ∈ block j} bit_i · pw_i` and `bit_i ∈ {0,1}`:
    each committed value lies in its range. -/
theorem range_special_sound {m : ℕ} (hN : 0 < N) (g h : Fin N → G) (B Ht : G) (hind : GIndep F g h B Ht)
    (blk : Fin N → Fin m) (pw : Fin N → F) (A S : G) (V : Fin m → G)
    (Y : Fin N → F) (hY : Function.Injective Y) (hY0 : ∀ p, Y p ≠ 0)
    (Z : Fin (m + 2) → F) (hZ : Function.Injective Z) (hZ0 : ∀ q, Z q ≠ 0)
    (X : Fin 3 → F) (hX : Function.Injective X) (W : Fin 2 → F) (hW : Function.Injective W)
    (T1 T2 : Fin N → Fin (m + 2) → G) (th τ e : Fin N → Fin (m + 2) → Fin 3 → F)
    (l r : Fin N → Fin (m + 2) → Fin 3 → Fin 2 → Fin N → F)
    (hpoly : ∀ p q k, th p q k • B + τ p q k • Ht
      = (dl blk pw (Y p) (Z q) • B + ∑ j : Fin m, Z q ^ (2 + (j : ℕ)) • V j) + X k • T1 p q + (X k * X k) • T2 p q)
    (hipp : ∀ p q k ω, A + X k • S - e p q k • Ht + (W ω * th p q k) • B - ∑ i : Fin N, Z q • g i
        + ∑ i : Fin N, (Z q + (Y p ^ (i : ℕ))⁻¹ * (Z q ^ 2 * Z q ^ (blk i : ℕ) * pw i)) • h i
      = (∑ i : Fin N, l p q k ω i • g i) + (∑ i : Fin N, (r p q k ω i * (Y p ^ (i : ℕ))⁻¹) • h i)
        + (W ω * ∑ i : Fin N, l p q k ω i * r p q k ω i) • B) :
    ∃ (v γ : Fin m → F) (bit : Fin N → F), (∀ j, V j = v j • B + γ j • Ht) ∧ (∀ i, bit i = 0 ∨ bit i = 1)
      ∧ ∀ j, v j = ∑ i with blk i = j, bit i * pw i := by
  have hw01 : W 0 ≠ W 1 := fun hh => by have := hW hh; exact absurd this (by decide)
  -- step 1: per (y,z,x)
  have s1 : ∀ p q k, th p q k = ∑ i : Fin N, l p q k 0 i * r p q k 0 i ∧
      A + X k • S = glin g h B Ht (fun i => l p q k 0 i + Z q)
        (fun i => r p q k 0 i * (Y p ^ (i : ℕ))⁻¹ - (Z q + (Y p ^ (i : ℕ))⁻¹ * (Z q ^ 2 * Z q ^ (blk i : ℕ) * pw i)))
        0 (e p q k) :=
    fun p q k => w_step g h B Ht hind blk pw A S (Y p) (Z q) (X k) (th p q k) (e p q k) (W 0) (W 1) (hY0 p) hw01
      _ _ _ _ (hipp p q k 0) (hipp p q k 1)
  -- step 2: open A and S
  have hx01 : X 0 ≠ X 1 := fun hh => by have := hX hh; exact absurd this (by decide)
  obtain ⟨aL, aR, βA, α, sL, sR, βS, ρ, hA, hS⟩ := AS_open g h B Ht A S (X 0) (X 1) hx01 _ _ _ _ _ _ _ _
    (s1 ⟨0, hN⟩ 0 0).2 (s1 ⟨0, hN⟩ 0 1).2
  have s2 : ∀ p q k i, l p q k 0 i = aL i - Z q + X k * sL i ∧
      r p q k 0 i = Y p ^ (i : ℕ) * (aR i + Z q + X k * sR i) + Z q ^ 2 * Z q ^ (blk i : ℕ) * pw i := by
    intro p q k i
    have e1 := (s1 p q k).2
    nth_rewrite 1 [hA, hS] at e1
    rw [glin_smul, glin_add] at e1
    obtain ⟨ha, hb, -, -⟩ := glin_inj hind e1
    have ha' := congrFun ha i
    have hb' := congrFun hb i
    simp only [Pi.add_apply, Pi.smul_apply, smul_eq_mul] at ha' hb'
    have hyi : Y p ^ (i : ℕ) ≠ 0 := pow_ne_zero _ (hY0 p)
    refine ⟨by linear_combination -ha', ?_⟩
    field_simp at hb'
    linear_combination -hb'
  -- the t-polynomial
  set t0 : Fin N → Fin (m + 2) → F := fun p q =>
    ∑ i, (aL i - Z q) * (Y p ^ (i : ℕ) * (aR i + Z q) + Z q ^ 2 * Z q ^ (blk i : ℕ) * pw i) with ht0
  have s3 : ∀ p q, ∃ t1 t2 : F, ∀ k, th p q k = t0 p q + t1 * X k + t2 * (X k * X k) := by
    intro p q
    refine ⟨∑ i, ((aL i - Z q) * (Y p ^ (i : ℕ) * sR i) + sL i * (Y p ^ (i : ℕ) * (aR i + Z q) + Z q ^ 2 * Z q ^ (blk i : ℕ) * pw i)),
      ∑ i, sL i * (Y p ^ (i : ℕ) * sR i), fun k => ?_⟩
    rw [(s1 p q k).1, ht0]
    simp only [Finset.sum_mul, ← Finset.sum_add_distrib]
    apply Finset.sum_congr rfl; intro i _
    rw [(s2 p q k i).1, (s2 p q k i).2]; ring
  -- step 3: the constant coefficient
  have hx02 : X 0 ≠ X 2 := fun hh => by have := hX hh; exact absurd this (by decide)
  have hx12 : X 1 ≠ X 2 := fun hh => by have := hX hh; exact absurd this (by decide)
  have s4 : ∀ p q, ∃ c0 : F, dl blk pw (Y p) (Z q) • B + ∑ j : Fin m, Z q ^ (2 + (j : ℕ)) • V j
      = t0 p q • B + c0 • Ht := by
    intro p q
    obtain ⟨a0, c0, a1, c1, a2, c2, hW0, hT1, hT2⟩ := poly_open B Ht _ (T1 p q) (T2 p q) (X 0) (X 1) (X 2)
      _ _ _ _ _ _ hx01 hx02 hx12 (hpoly p q 0) (hpoly p q 1) (hpoly p q 2)
    obtain ⟨t1, t2, ht⟩ := s3 p q
    have hk : ∀ k, th p q k = a0 + a1 * X k + a2 * (X k * X k) := by
      intro k
      have := hpoly p q k
      rw [hW0, hT1, hT2] at this
      have e' : th p q k • B + τ p q k • Ht = (a0 + a1 * X k + a2 * (X k * X k)) • B
          + (c0 + c1 * X k + c2 * (X k * X k)) • Ht := by rw [this]; module
      exact (pair_inj hind e').1
    have hc : (![a0 - t0 p q, a1 - t1, a2 - t2] : Fin 3 → F) = 0 := coeffs_zero_of_roots _ X hX (fun k => by
      have := hk k; rw [ht k] at this
      simp only [Fin.sum_univ_three, Matrix.cons_val_zero, Matrix.cons_val_one, Matrix.cons_val_two,
        Fin.val_zero, Fin.val_one, Fin.val_two, pow_zero, pow_one, Matrix.head_cons, Matrix.tail_cons]
      linear_combination -this)
    have h0 : a0 = t0 p q := by
      have := congrFun hc 0
      simpa [sub_eq_zero] using this
    exact ⟨c0, by rw [hW0, h0]⟩
  choose c0 hc0 using s4
  -- step 4: the commitments lie in span {B, Ht}
  have hV : ∀ j, V j ∈ Submodule.span F ({B, Ht} : Set G) := by
    apply vandermonde_mem _ V (fun q : Fin m => Z (Fin.castLE (Nat.le_add_right m 2) q))
      (hZ.comp (Fin.castLE_injective _))
    intro q
    set zq := Z (Fin.castLE (Nat.le_add_right m 2) q) with hzq
    have hz0 : zq ≠ 0 := hZ0 _
    have : ∑ j : Fin m, zq ^ (j : ℕ) • V j = (zq ^ 2)⁻¹ • ∑ j : Fin m, zq ^ (2 + (j : ℕ)) • V j := by
      rw [Finset.smul_sum]
      apply Finset.sum_congr rfl; intro j _
      rw [smul_smul, pow_add, inv_mul_cancel_left₀ (pow_ne_zero 2 hz0)]
    rw [this]
    apply Submodule.smul_mem
    have e4 := hc0 ⟨0, hN⟩ (Fin.castLE (Nat.le_add_right m 2) q)
    have : ∑ j : Fin m, zq ^ (2 + (j : ℕ)) • V j
        = (t0 ⟨0, hN⟩ (Fin.castLE (Nat.le_add_right m 2) q) - dl blk pw (Y ⟨0, hN⟩) zq) • B
          + c0 ⟨0, hN⟩ (Fin.castLE (Nat.le_add_right m 2) q) • Ht := by
      linear_combination (norm := module) e4
    rw [this]
    exact Submodule.mem_span_pair.mpr ⟨_, _, rfl⟩
  have hV' : ∀ j, ∃ vj γj : F, vj • B + γj • Ht = V j := fun j => Submodule.mem_span_pair.mp (hV j)
  choose v γ hvγ using hV'
  -- step 5: the identity in (y, z)
  have hid : ∀ p q, t0 p q = dl blk pw (Y p) (Z q) + ∑ j : Fin m, Z q ^ (2 + (j : ℕ)) * v j := by
    intro p q
    have e5 := hc0 p q
    have : ∑ j : Fin m, Z q ^ (2 + (j : ℕ)) • V j
        = (∑ j : Fin m, Z q ^ (2 + (j : ℕ)) * v j) • B + (∑ j : Fin m, Z q ^ (2 + (j : ℕ)) * γ j) • Ht := by
      rw [Finset.sum_smul, Finset.sum_smul, ← Finset.sum_add_distrib]
      apply Finset.sum_congr rfl; intro j _
      rw [← hvγ j]; module
    rw [this] at e5
    have e' : (dl blk pw (Y p) (Z q) + ∑ j : Fin m, Z q ^ (2 + (j : ℕ)) * v j) • B
        + (∑ j : Fin m, Z q ^ (2 + (j : ℕ)) * γ j) • Ht = t0 p q • B + c0 p q • Ht := by
      rw [← e5]; module
    exact (pair_inj hind e').1.symm
  obtain ⟨hbits, hv⟩ := bits_of_identity hN blk pw aL aR v Y hY Z hZ (fun p q => by
    have := hid p q
    rw [ht0] at this
    simp only at this
    rw [this, dl])
  refine ⟨v, γ, aL, fun j => (hvγ j).symm, fun i => ?_, hv⟩
  obtain ⟨h1, h2⟩ := hbits i
  have : aL i * (aL i - 1) = 0 := by
    have : aR i = aL i - 1 := by linear_combination -h2
    rw [← this]; exact h1
  rcases mul_eq_zero.mp this with h | h
  · exact Or.inl h
  · exact Or.inr (sub_eq_zero.mp h)

end gens
end Zk.RangeExtract

import ZkElGamal.Proofs.RangeComplete
import ZkElGamal.Proofs.RangeExtract
/-!
The range-proof special-soundness theorem restated in the vocabulary of the verifier model (lists, `delta`,
`concatZAnd2`, `msm`): index bookkeeping between the list-level model and the `Fin`-indexed algebra of
`Proofs/RangeExtract.lean`.
-/
namespace Zk.Range
open Zk

section
variable {F : Type} [Field F] [ScCodec F] [LawfulScCodec F]

/-- commitment index of every bit position (`j` repeated `n_j` times) -/
def blkFrom : ℕ → List ℕ → List ℕ
  | _, [] => []
  | j, n :: ns => List.replicate n j ++ blkFrom (j + 1) ns

/-- power of two of every bit position (`2^0 … 2^{n_j-1}` per commitment) -/
def pwL : List ℕ → List F
  | [] => []
  | n :: ns => powers (2 : F) n ++ pwL ns

theorem blkFrom_length (j : ℕ) (ns : List ℕ) : (blkFrom j ns).length = ns.sum := by
  induction ns generalizing j with
  | nil => rfl
  | cons n ns ih => simp [blkFrom, ih]

omit [LawfulScCodec F] in
theorem pwL_length (ns : List ℕ) : (pwL ns : List F).length = ns.sum := by
  induction ns with
  | nil => rfl
  | cons n ns ih => simp [pwL, ih]

theorem blkFrom_succ (j : ℕ) (ns : List ℕ) : blkFrom (j + 1) ns = (blkFrom j ns).map (· + 1) := by
  induction ns generalizing j with
  | nil => rfl
  | cons n ns ih => simp [blkFrom, ih]

theorem blkFrom_lt (j : ℕ) (ns : List ℕ) : ∀ x ∈ blkFrom j ns, x < j + ns.length := by
  induction ns generalizing j with
  | nil => simp [blkFrom]
  | cons n ns ih =>
    intro x hx
    simp only [blkFrom, List.mem_append, List.mem_replicate] at hx
    rcases hx with ⟨_, rfl⟩ | hx
    · simp
    · have := ih (j + 1) x hx; simp only [List.length_cons]; omega

theorem zipWith_replicate_left {α β γ : Type} (f : α → β → γ) (a : α) (l : List β) :
    List.zipWith f (List.replicate l.length a) l = l.map (f a) := by
  induction l with
  | nil => rfl
  | cons x xs ih => simp [List.replicate_succ, ih]

/-- `concat_z_and_2` entry by entry: position `i` holds `2^{pos i} · z^{blk i}` -/
theorem concatZAnd2_eq_zipWith (z : F) (ns : List ℕ) :
    concatZAnd2 z ns = List.zipWith (fun j p => p * z ^ j) (blkFrom 0 ns) (pwL ns) := by
  induction ns with
  | nil => simp [concatZAnd2, blkFrom, pwL]
  | cons n ns ih =>
    rw [concatZAnd2_cons, blkFrom, pwL, LawfulScCodec.ofNat_cast]
    rw [List.zipWith_append (by simp)]
    congr 1
    · have := zipWith_replicate_left (fun j (p : F) => p * z ^ j) 0 (powers (2 : F) n)
      simp only [powers_length, pow_zero, mul_one, List.map_id'] at this
      simpa using this.symm
    · rw [ih, blkFrom_succ, List.zipWith_map_left, List.map_zipWith]
      congr 1
      funext j p
      simp only [pow_succ]; ring

end

section
variable {F G : Type} [Field F] [AddCommGroup G] [Module F G] [ScCodec F] [LawfulScCodec F] [PedGens G]
open RangeExtract

local notation "Gp" => (PedGens.G : G)
local notation "Hp" => (PedGens.H : G)

/-- block index of position `i`, as a function on `Fin` -/
def blkFin (bls : List ℕ) {N m : ℕ} (hN : bls.sum = N) (hm : bls.length = m) (i : Fin N) : Fin m :=
  ⟨(blkFrom 0 bls)[i.1]'(by rw [blkFrom_length, hN]; exact i.2), by
    have := blkFrom_lt 0 bls _ (List.getElem_mem (l := blkFrom 0 bls) (by rw [blkFrom_length, hN]; exact i.2))
    omega⟩

def pwFin (bls : List ℕ) {N : ℕ} (hN : bls.sum = N) (i : Fin N) : F :=
  (pwL bls : List F)[i.1]'(by rw [pwL_length, hN]; exact i.2)

theorem concatZAnd2_get (z : F) (bls : List ℕ) {N m : ℕ} (hN : bls.sum = N) (hm : bls.length = m) (i : Fin N) :
    (concatZAnd2 z bls)[i.1]'(by rw [concatZAnd2_length, hN]; exact i.2)
      = pwFin bls hN i * z ^ (blkFin bls hN hm i : ℕ) := by
  simp only [concatZAnd2_eq_zipWith, List.getElem_zipWith, pwFin, blkFin]

theorem delta_eq_dl (bls : List ℕ) {N m : ℕ} (hN : bls.sum = N) (hm : bls.length = m) (y z : F) :
    delta bls y z = dl (blkFin bls hN hm) (pwFin (F := F) bls hN) y z := by
  subst hN
  rw [delta_dsum, ← concatZAnd2_sum, list_sum_eq_sum bls.sum _ (concatZAnd2_length z bls), dl, Finset.sum_range]
  congr 1
  · ring
  · rw [Finset.mul_sum]
    apply Finset.sum_congr rfl; intro i _
    rw [concatZAnd2_get z bls rfl hm i]; ring


/-- **special soundness of the aggregated range proof, in the vocabulary of the verifier model.**
    `bls` are the bit lengths, `comms` the commitments, `gG, gH` the first `Σ bls` generators of the two chains.
    For a grid of transcripts (`N = Σ bls` distinct non-zero `y`, `m+2` distinct non-zero `z`, three `x`, two `w`)
    with fixed `A, S`: `hpoly` is `Epoly = 0` as unfolded by `Epoly_eq_zero_iff`, `hipp` is the left-hand side
    `P` of `Eipp_eq_zero_iff` opened as `⟨l,G⟩ + ⟨r,H'⟩ + ⟨l,r⟩·w•B` (what `ipp_special_sound` extracts from a
    tree of accepting inner-product transcripts for `P`). Then every commitment opens to a value that is the
    weighted bit sum of its block. Generators independent (`GIndep`): the discrete-log assumption. -/
theorem range_special_sound_model (bls : List ℕ) {N m : ℕ} (hN : bls.sum = N) (hm : bls.length = m) (hN0 : 0 < N)
    (gG gH comms : List G) (hG : gG.length = N) (hH : gH.length = N) (hC : comms.length = m)
    (hind : GIndep F (fun i : Fin N => gG[i.1]'(hG ▸ i.2)) (fun i : Fin N => gH[i.1]'(hH ▸ i.2)) Gp Hp)
    (A S : G)
    (Y : Fin N → F) (hY : Function.Injective Y) (hY0 : ∀ p, Y p ≠ 0)
    (Z : Fin (m + 2) → F) (hZ : Function.Injective Z) (hZ0 : ∀ q, Z q ≠ 0)
    (X : Fin 3 → F) (hX : Function.Injective X) (W : Fin 2 → F) (hW : Function.Injective W)
    (T1 T2 : Fin N → Fin (m + 2) → G) (th τ e : Fin N → Fin (m + 2) → Fin 3 → F)
    (l r : Fin N → Fin (m + 2) → Fin 3 → Fin 2 → List F)
    (hl : ∀ p q k ω, (l p q k ω).length = N) (hr : ∀ p q k ω, (r p q k ω).length = N)
    (hpoly : ∀ p q k, th p q k • Gp + τ p q k • Hp
      = (delta bls (Y p) (Z q) • Gp + msm ((powers (Z q) m).map (Z q * Z q * ·)) comms)
        + X k • T1 p q + (X k * X k) • T2 p q)
    (hipp : ∀ p q k ω, A + X k • S - e p q k • Hp + (W ω * th p q k) • Gp - Z q • gG.sum
        + msm (List.zipWith (fun yi di => Z q + yi * (Z q * Z q * di)) (powers (Y p)⁻¹ N) (concatZAnd2 (Z q) bls)) gH
      = msm (l p q k ω) gG + msm (List.zipWith (· * ·) (r p q k ω) (powers (Y p)⁻¹ N)) gH
        + (W ω * ipScalars (l p q k ω) (r p q k ω)) • Gp) :
    ∃ (v γ : Fin m → F) (bit : Fin N → F),
      (∀ j : Fin m, comms[j.1]'(hC ▸ j.2) = v j • Gp + γ j • Hp) ∧ (∀ i, bit i = 0 ∨ bit i = 1) ∧
      ∀ j, v j = ∑ i with blkFin bls hN hm i = j, bit i * pwFin bls hN i := by
  have hcz : ∀ z : F, (concatZAnd2 z bls).length = N := fun z => by rw [concatZAnd2_length, hN]
  refine range_special_sound hN0 _ _ Gp Hp hind (blkFin bls hN hm) (pwFin bls hN) A S
    (fun j : Fin m => comms[j.1]'(hC ▸ j.2)) Y hY hY0 Z hZ hZ0 X hX W hW T1 T2 th τ e
    (fun p q k ω i => (l p q k ω)[i.1]'(by rw [hl]; exact i.2))
    (fun p q k ω i => (r p q k ω)[i.1]'(by rw [hr]; exact i.2)) ?_ ?_
  · intro p q k
    rw [hpoly p q k, delta_eq_dl bls hN hm, msm_eq_sum m _ comms (by simp) hC]
    congr 3
    apply Finset.sum_congr rfl; intro j _
    simp only [List.getElem_map, powers_getElem]
    congr 1; ring
  · intro p q k ω
    have := hipp p q k ω
    rw [list_sum_eq_sum N gG hG, msm_eq_sum N _ gH (by simp [hcz]) hH, msm_eq_sum N _ gG (hl p q k ω) hG,
      msm_eq_sum N _ gH (by simp [hr]) hH, ip_eq_sum N _ _ (hl p q k ω) (hr p q k ω), Finset.smul_sum] at this
    simp only [List.getElem_zipWith, powers_getElem, concatZAnd2_get (Z q) bls hN hm, inv_pow] at this
    rw [← this]
    congr 2
    funext i
    congr 1; ring

end
end Zk.Range

import ZkElGamal.Model.Range
import ZkElGamal.Proofs.Basic
import Mathlib.Algebra.BigOperators.Group.Finset.Basic
import Mathlib.Algebra.BigOperators.Ring.Finset
import Mathlib.Tactic.Ring
import Mathlib.Tactic.Positivity
/-!
Helper lemmas for C04: `powers`, `sum_of_powers`, `delta`, multiscalar multiplication over
appended lists.
-/
set_option linter.unusedSectionVars false
namespace Zk.Range
open Zk

section
variable {F G : Type} [Field F] [AddCommGroup G] [Module F G]

theorem msm_append (a b : List F) (p q : List G) (h : a.length = p.length) :
    msm (a ++ b) (p ++ q) = msm a p + msm b q := by
  induction a generalizing p with
  | nil => cases p <;> simp_all [msm]
  | cons x xs ih =>
    cases p with
    | nil => simp at h
    | cons y ys =>
      simp only [List.cons_append, msm_cons_cons]
      rw [ih ys (by simpa using h), add_assoc]

theorem msm_nil_right (a : List F) : msm a ([] : List G) = 0 := by
  cases a <;> simp [msm]

theorem msm_singleton (a : F) (p : G) : msm [a] [p] = a • p := by simp

/-- scaling all scalars -/
theorem msm_map_mul (k : F) (a : List F) (p : List G) :
    msm (a.map (k * ·)) p = k • msm a p := by
  induction a generalizing p with
  | nil => simp [msm]
  | cons x xs ih =>
    cases p with
    | nil => simp [msm]
    | cons y ys => simp only [List.map_cons, msm_cons_cons, ih]; module

/-- additivity in the scalars (computed from any list of data) -/
theorem msm_map_add {α : Type} (l : List α) (p q : α → F) (P : List G) :
    msm (l.map fun t => p t + q t) P = msm (l.map p) P + msm (l.map q) P := by
  induction l generalizing P with
  | nil => simp [msm]
  | cons x xs ih =>
    cases P with
    | nil => simp [msm]
    | cons y ys => simp only [List.map_cons, msm_cons_cons, ih]; module

/-- affine map of the scalars: `msm (c + k·s) P = c • ΣP + k • msm s P` (equal lengths) -/
theorem msm_affine (c k : F) (ss : List F) (P : List G) (h : ss.length = P.length) :
    msm (ss.map fun s => c + k * s) P = c • P.sum + k • msm ss P := by
  induction ss generalizing P with
  | nil => cases P <;> simp_all [msm]
  | cons s ss ih =>
    cases P with
    | nil => simp at h
    | cons p P =>
      simp only [List.map_cons, msm_cons_cons, List.sum_cons]
      rw [ih P (by simpa using h)]; module

variable [ScCodec F]

@[simp] theorem powers_length (x : F) (n : ℕ) : (powers x n).length = n := by
  induction n with
  | zero => rfl
  | succ n ih => simp [powers, ih]

/-- `powers x n = [x⁰, x¹, …, xⁿ⁻¹]` -/
theorem powers_getElem (x : F) (n i : ℕ) (h : i < (powers x n).length) : (powers x n)[i] = x ^ i := by
  induction n generalizing i with
  | zero => simp [powers] at h
  | succ n ih =>
    cases i with
    | zero => simp [powers]
    | succ i =>
      have hi : i < (powers x n).length := by simp [powers] at h ⊢; omega
      simp only [powers, List.getElem_cons_succ, List.getElem_map, ih i hi]
      ring

theorem powers_eq_map (x : F) (n : ℕ) : powers x n = (List.range n).map (x ^ ·) := by
  apply List.ext_getElem
  · simp
  · intro i h1 h2
    rw [powers_getElem x n i h1]; simp

theorem powers_sum (x : F) (n : ℕ) : (powers x n).sum = ∑ i ∈ Finset.range n, x ^ i := by
  rw [powers_eq_map]
  induction n with
  | zero => simp
  | succ n ih =>
    rw [List.range_succ, List.map_append, List.sum_append, ih, Finset.sum_range_succ]; simp

/-- the doubling loop: invariant `result = Σ_{i<2m} x^i`, `factor = x^m` -/
theorem sumOfPowersLoop_spec (x : F) (k m : ℕ) :
    sumOfPowersLoop k (∑ i ∈ Finset.range (2 * m), x ^ i) (x ^ m)
      = ∑ i ∈ Finset.range (2 ^ k * (2 * m)), x ^ i := by
  induction k generalizing m with
  | zero => simp [sumOfPowersLoop]
  | succ k ih =>
    simp only [sumOfPowersLoop]
    have hf : x ^ m * x ^ m = x ^ (2 * m) := by rw [← pow_add]; congr 1; omega
    have hs : (∑ i ∈ Finset.range (2 * m), x ^ i) + x ^ (2 * m) * ∑ i ∈ Finset.range (2 * m), x ^ i
        = ∑ i ∈ Finset.range (2 * (2 * m)), x ^ i := by
      rw [show 2 * (2 * m) = 2 * m + 2 * m by omega, Finset.sum_range_add, Finset.mul_sum]
      congr 1
      apply Finset.sum_congr rfl
      intro i _; rw [pow_add]
    rw [hf, hs, ih (2 * m)]
    congr 2
    rw [pow_succ]; ring

theorem isPow2_iff (n : ℕ) : isPow2 n = true ↔ ∃ k, n = 2 ^ k := by
  unfold isPow2
  rw [Bool.and_eq_true, bne_iff_ne, beq_iff_eq]
  constructor
  · rintro ⟨h0, h⟩
    exact (Nat.and_sub_one_eq_zero_iff_isPowerOfTwo h0).mp h
  · rintro ⟨k, rfl⟩
    have hk : 2 ^ k ≠ 0 := by positivity
    exact ⟨hk, (Nat.and_sub_one_eq_zero_iff_isPowerOfTwo hk).mpr ⟨k, rfl⟩⟩

end
end Zk.Range

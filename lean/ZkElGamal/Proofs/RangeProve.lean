import ZkElGamal.Proofs.RangeComplete
import ZkElGamal.Proofs.RangeBytes
/-!
Completeness of the aggregated range-proof prover at the level of decoded proofs:
`prove_complete` — the bytes produced by `Range.prove` on honest inputs are the encoding of fields
`A S T₁ T₂ t_x t̃ e (Lⱼ Rⱼ) a b` for which, under the challenges the verifier recomputes, the
mega-check vanishes (`E_poly = 0` by the bit-decomposition identity for `t₀`, `E_ipp = 0` by the
folding invariant of the inner-product argument and the `s`-vector lemma).
-/
set_option linter.unusedSectionVars false
namespace Zk.Range
open Zk Zk.Props.C04

section
variable {F G T : Type} [Field F] [AddCommGroup G] [Module F G] [DecidableEq G]
  [PtCodec G] [ScCodec F] [PedGens G] [TranscriptOps T] [LawfulScCodec F]

/-- decoded form of a proof with the given fields -/
def mkProof (A S T1 T2 : G) (tx txb eb : F) (Ls Rs : List G) (a b : F) : Proof F G :=
  ⟨PtCodec.enc A, PtCodec.enc S, PtCodec.enc T1, PtCodec.enc T2, A, S, T1, T2, tx, txb, eb,
   ⟨Ls.map PtCodec.enc, Rs.map PtCodec.enc, Ls, Rs, a, b⟩⟩

theorem Tamper_none_fields :
    (Tamper.none : Tamper F G).oA = 0 ∧ (Tamper.none : Tamper F G).oS = 0 ∧ (Tamper.none : Tamper F G).oT1 = 0 ∧
    (Tamper.none : Tamper F G).oT2 = 0 ∧ (Tamper.none : Tamper F G).oL = [] ∧ (Tamper.none : Tamper F G).oR = [] ∧
    (Tamper.none : Tamper F G).dTx = 0 ∧ (Tamper.none : Tamper F G).dTxBlinding = 0 ∧
    (Tamper.none : Tamper F G).dEBlinding = 0 ∧ (Tamper.none : Tamper F G).dA = 0 ∧ (Tamper.none : Tamper F G).dB = 0 :=
  ⟨rfl, rfl, rfl, rfl, rfl, rfl, rfl, rfl, rfl, rfl, rfl⟩

theorem prove_complete (t : T) (k : ℕ) (hk : k ≤ 40) (gG gH : List G) (bls amounts : List ℕ) (opens : List F)
    (nz : Nonces F)
    (hlen : amounts.length = bls.length) (hol : opens.length = bls.length)
    (hnm : bls.sum = 2 ^ k) (hgG : gG.length = 2 ^ k) (hgH : gH.length = 2 ^ k)
    (hsL : nz.sL.length = 2 ^ k) (hsR : nz.sR.length = 2 ^ k)
    (hr : ∀ p ∈ List.zip amounts bls, p.1 < 2 ^ p.2) (pb : Bytes)
    (hp : prove t gG gH bls (bitsOf amounts bls) opens nz Tamper.none = pb) :
    ∃ (A S T1 T2 : G) (tx txb eb : F) (Ls Rs : List G) (a b : F),
      Ls.length = k ∧ Rs.length = k ∧
      pb = PtCodec.enc A ++ PtCodec.enc S ++ PtCodec.enc T1 ++ PtCodec.enc T2 ++ ScCodec.enc tx ++ ScCodec.enc txb
        ++ ScCodec.enc eb ++ ((List.zipWith (· ++ ·) (Ls.map PtCodec.enc) (Rs.map PtCodec.enc)).flatten
          ++ ScCodec.enc a ++ ScCodec.enc b) ∧
      ∀ c, challenges t bls.sum (mkProof A S T1 T2 tx txb eb Ls Rs a b) = some c →
        c.y ≠ 0 → (∀ u ∈ c.uSq, u ≠ 0) →
        msm (megaScalars bls (mkProof A S T1 T2 tx txb eb Ls Rs a b) c)
            (megaPoints gG gH (List.zipWith (fun v r => (pedersenWith (ScCodec.ofNat v : F) r : G)) amounts opens)
              (mkProof A S T1 T2 tx txb eb Ls Rs a b)) = 0 := by
  obtain ⟨oA, oS, oT1, oT2, oL, oR, dTx, dTxb, dEb, dA, dB⟩ := Tamper_none_fields (F := F) (G := G)
  unfold prove at hp
  extract_lets Gq Hq nm t1 t2 aR A S aB sB t3 t4 yt zt y z ys z2 l0 l1 r0 r1 t0 tt2 tt1 T1 T2 t5 t6 xt x agg tx txb t7 t8 eb lv rv t9 wt Q ct ipp at hp
  have hnm' : nm = 2 ^ k := hnm
  have laL : (bitsOf amounts bls : List F).length = 2 ^ k := by rw [bitsOf_length _ _ hlen, hnm]
  have laR : aR.length = 2 ^ k := by simp [aR, laL]
  have lys : ys.length = 2 ^ k := by simp [ys, hnm']
  have lz2 : z2.length = 2 ^ k := by simp [z2, concatZAnd2_length, hnm]
  have ll0 : l0.length = 2 ^ k := by simp [l0, laL]
  have ll1 : l1.length = 2 ^ k := hsL
  have lr0 : r0.length = 2 ^ k := by simp [r0, lys, laR, lz2]
  have lr1 : r1.length = 2 ^ k := by simp [r1, lys, hsR]
  have llv : lv.length = 2 ^ k := by simp [lv, ll0, ll1]
  have lrv : rv.length = 2 ^ k := by simp [rv, lr0, lr1]
  -- the inner-product proof
  set h' : List G := List.zipWith (fun (f : F) (P : G) => f • P) (powers y⁻¹ nm) gH with hh'
  have lh' : h'.length = 2 ^ k := by simp [hh', hnm', hgH]
  set tI : T := appendU64 (TranscriptOps.append ct.2 b!"dom-sep" b!"inner-product") b!"n" nm with htI
  obtain ⟨Ls, Rs, a', b', hLs, hRs, hlB, hrB, hfa, hfb, hloop⟩ :=
    ippLoop_spec Q k 40 (⟨tI, lv, rv, gG, h', [], []⟩ : IppState F G T) hk llv lrv hgG lh'
  have hipp : ipp = (List.zipWith (· ++ ·) (Ls.map PtCodec.enc) (Rs.map PtCodec.enc)).flatten
      ++ ScCodec.enc a' ++ ScCodec.enc b' := by
    simp only [ipp, ippProve, oL, oR, dA, dB, add_zero, llv, ← hnm', ← htI, ← hh', hlB, hrB, hfa, hfb,
      List.nil_append, List.headD_cons]
  refine ⟨A, S, pedersenWith tt1 nz.t1Blinding + (Tamper.none : Tamper F G).oT1,
    pedersenWith tt2 nz.t2Blinding + (Tamper.none : Tamper F G).oT2,
    tx, txb, eb, Ls, Rs, a', b', hLs, hRs, ?_, ?_⟩
  · rw [← hp, hipp]
  · intro c hc hy hu
    set T1p : G := pedersenWith tt1 nz.t1Blinding + (Tamper.none : Tamper F G).oT1 with hT1p
    set T2p : G := pedersenWith tt2 nz.t2Blinding + (Tamper.none : Tamper F G).oT2 with hT2p
    have hcs0 := challenges_some t bls.sum _ c hc
    extract_lets v2 v3 v4 vyt vzt v5 v6 vxt v7 v8 v9 vwt vct at hcs0
    have q1 : v2 = t2 := rfl
    have q2 : v4 = t4 := rfl
    have q3 : vyt = yt := rfl
    have q4 : vzt = zt := rfl
    have q5 : v6 = t6 := rfl
    have q6 : vxt = xt := rfl
    have q7 : v9 = t9 := rfl
    have q8 : vwt = wt := rfl
    have q9 : vct = ct := rfl
    have hcs : ∃ uSq uInvSq s t' d,
        verificationScalars nm ct.2 (⟨Ls.map PtCodec.enc, Rs.map PtCodec.enc, Ls, Rs, a', b'⟩ : Ipp F G)
          = some (uSq, uInvSq, s, t') ∧
        c = ⟨y, z, x, wt.1, d, uSq, uInvSq, s⟩ := by
      rw [q3, q4, q6, q8, q9] at hcs0
      exact hcs0
    clear hcs0 q1 q2 q3 q4 q5 q6 q7 q8 q9
    obtain ⟨uSq, uInvSq, s, t', d, hvs, rfl⟩ := hcs
    obtain ⟨e1, e2, e3, -, -⟩ := verificationScalars_some _ _ _ _ _ _ _ hvs
    simp only [← htI] at e1 e2 e3
    set us := (ippChallenges (Sc := F) tI (Ls.map PtCodec.enc) (Rs.map PtCodec.enc)).1 with hus
    have lus : us.length = k := by
      rw [hus, ippChallenges_length' _ _ _ (by simp [hLs, hRs])]; simp [hLs]
    have hnz : ∀ u ∈ us, u ≠ 0 := by
      intro u hu' h0
      apply hu (u * u)
      · simp only [e1]; exact List.mem_map.mpr ⟨u, hu', rfl⟩
      · rw [h0]; ring
    have hy0 : y ≠ 0 := hy
    have hloop := hloop hnz
    simp only [← hus] at hloop
    have es : s = sFold us := by rw [e3, sVector_eq_sFold us hnz]
    have esr : s.reverse = sFoldInv us := by rw [es, sFold_reverse]
    have ls' : s.length = 2 ^ k := by rw [es, sFold_length, lus]
    set pf := mkProof A S T1p T2p tx txb eb Ls Rs a' b' with hpf
    set comms : List G := List.zipWith (fun v r => (pedersenWith (ScCodec.ofNat v : F) r : G)) amounts opens with hcomms
    set cc : Challenges F := ⟨y, z, x, wt.1, d, uSq, uInvSq, s⟩ with hcc
    have hdec := Props.C04.mega_decompose gG gH comms bls pf cc
      (by simp [hcc, hpf, mkProof, e1, lus, hLs]) (by simp [hcc, hpf, mkProof, e2, lus, hRs])
      (by simp [hcc, ls', hgG])
      (by simp [Props.C04.hCoeffs, hcc, ls', hnm, concatZAnd2_length, hgH])
    rw [hdec]
    -- the polynomial-commitment equation
    have ht0 : t0 = delta bls y z + z * z * ipScalars (powers z bls.length) (amounts.map fun v => (ScCodec.ofNat v : F)) := by
      simp only [t0, l0, r0, aR]
      rw [t0_split z _ ys z2 (bitsOf_bits amounts bls) (by rw [laL, lys]) (by rw [laL, lz2])]
      simp only [ys, z2]
      rw [powers_sum, ip_bits_concat z amounts bls hlen hr, concatZAnd2_sum, delta_dsum]
      simp only [nm]; ring
    have hagg : agg = z * z * ipScalars (powers z bls.length) opens := by
      simp only [agg]; rw [agg_spec, hol]
    have hcm : msm ((powers z bls.length).map (z * z * ·)) comms
        = (z * z * ipScalars (powers z bls.length) (amounts.map fun v => (ScCodec.ofNat v : F))) • (PedGens.G : G)
          + (z * z * ipScalars (powers z bls.length) opens) • (PedGens.H : G) := by
      have : comms = List.zipWith (fun v r => (pedersenWith v r : G)) (amounts.map fun v => (ScCodec.ofNat v : F)) opens := by
        rw [hcomms, List.zipWith_map_left]
      rw [this, msm_pedersen bls.length _ _ _ (by simp) (by simp [hlen]) hol, ip_map_mul_left, ip_map_mul_left]
    have hpoly : Props.C04.Epoly comms bls pf cc = 0 := by
      simp only [Props.C04.Epoly, hpf, mkProof, hcc, hcm]
      simp only [tx, txb, hT1p, hT2p, oT1, oT2, dTx, dTxb, add_zero, ht0, hagg, pedersenWith, msm_cons_cons, msm_nil_left]
      module
    -- the inner-product relation
    have hS : S = nz.sBlinding • (PedGens.H : G) + msm nz.sL gG + msm nz.sR gH := by
      simp only [S, oS, add_zero]
      rw [msm_append _ _ _ _ (by simp [hsL, hgG]), msm_append _ _ _ _ (by simp)]
      simp [Hq]
    have hlv : msm lv gG = msm (bitsOf amounts bls : List F) gG - z • gG.sum + x • msm nz.sL gG := by
      simp only [lv, l0, l1]
      rw [msm_lin (2 ^ k) x _ _ gG (by simp [laL]) hsL hgG, msm_shift (2 ^ k) z _ gG laL hgG]
    have hrv : msm rv h' = msm aR gH + x • msm nz.sR gH + z • gH.sum
        + (z * z) • msm (List.zipWith (· * ·) (powers y⁻¹ nm) z2) gH := by
      simp only [rv, r0, r1, ys, hh', hnm']
      exact H2 (2 ^ k) y z (z * z) x hy0 aR nz.sR z2 gH laR hsR lz2 hgH
    have hip : ipScalars lv rv = tx := by
      simp only [lv, rv, tx, dTx, add_zero, tt1, tt2, t0]
      rw [ip_bilinear (2 ^ k) x l0 l1 r0 r1 ll0 ll1 lr0 lr1]
    have hg : msm (Props.C04.gCoeffs pf cc) gG = (-z) • gG.sum + (-a') • msm s gG := by
      have : Props.C04.gCoeffs pf cc = s.map fun si => (-z) + (-a') * si := by
        simp only [Props.C04.gCoeffs, hcc, hpf, mkProof]
        apply List.map_congr_left; intro si _; ring
      rw [this, msm_affine _ _ _ _ (by rw [ls', hgG])]
    have hh : msm (Props.C04.hCoeffs bls pf cc) gH = z • gH.sum
        + (z * z) • msm (List.zipWith (· * ·) (powers y⁻¹ nm) z2) gH - b' • msm s.reverse h' := by
      simp only [Props.C04.hCoeffs, hcc, hpf, mkProof, hh']
      exact H1 (2 ^ k) z (z * z) b' s.reverse (powers y⁻¹ nm) z2 gH (by simp [ls']) (by simp [hnm']) lz2 hgH
    have hipp : Props.C04.Eipp gG gH bls pf cc = 0 := by
      simp only [Props.C04.Eipp, hg, hh]
      simp only [hpf, mkProof, hcc, e1, e2]
      simp only [Pip, hlv, hrv, hip, Q, es, sFold_reverse] at hloop ⊢
      simp only [A, hS, eb, oA, dEb, add_zero, Gq, Hq]
      linear_combination (norm := module) hloop.symm
    rw [hipp, hpoly]; simp

end
end Zk.Range

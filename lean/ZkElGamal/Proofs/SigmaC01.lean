import ZkElGamal.Proofs.Basic
/-!
Helper lemmas for C01: parsing, policy and equation normal forms of the
zero-ciphertext, pubkey-validity, ct–ct and ct–commitment equality verifiers.
-/
set_option linter.unusedSectionVars false
namespace Zk.Sigma
open Zk

variable {F G T : Type} [Field F] [AddCommGroup G] [Module F G] [DecidableEq G]
  [PtCodec G] [ScCodec F] [PedGens G] [TranscriptOps T] [LawfulPtCodec G]

local notation "Gp" => (PedGens.G : G)
local notation "Hp" => (PedGens.H : G)

/-- generic step used by all `policy_iff` lemmas -/
theorem not_isZeroEnc_iff {b : Bytes} {P : G} (h : PtCodec.dec b = some P) :
    (!isZeroEnc b) = true ↔ P ≠ 0 := by
  rw [Bool.not_eq_true', ← Bool.not_eq_true, isZeroEnc_iff h]

/-! ### zero-ciphertext -/
namespace ZeroCt

theorem parse_some_iff (b : Bytes) (p : Parsed F G) :
    parse b = some p ↔
      b.length = 192 ∧ ptAt b 0 = some p.P ∧ ptAt b 32 = some p.ct.C ∧ ptAt b 64 = some p.ct.D ∧
      ptAt b 96 = some p.YP ∧ ptAt b 128 = some p.YD ∧ scAt b 160 = some p.z ∧
      p.ypB = slice b 96 32 ∧ p.ydB = slice b 128 32 := by
  unfold parse
  by_cases hl : b.length = 192
  · simp only [hl, ne_eq, not_true_eq_false, if_false, true_and]
    constructor
    · intro h
      simp only [Option.bind_eq_bind, Option.bind_eq_some_iff, Option.pure_def, Option.some.injEq] at h
      obtain ⟨P, hP, C, hC, D, hD, YP, hYP, YD, hYD, z, hz, rfl⟩ := h
      exact ⟨hP, hC, hD, hYP, hYD, hz, rfl, rfl⟩
    · rintro ⟨hP, hC, hD, hYP, hYD, hz, h1, h2⟩
      simp only [Option.bind_eq_bind, hP, hC, hD, hYP, hYD, hz, Option.bind_some, Option.pure_def, Option.some.injEq]
      obtain ⟨P, ⟨C, D⟩, a, b', c, d, e⟩ := p
      simp_all
  · simp [hl]

/-- the two verification equations in textbook form -/
def E0 (p : Parsed F G) (c : F) : G := p.z • p.P - c • Hp - p.YP
def E1 (p : Parsed F G) (c : F) : G := p.z • p.ct.D - c • p.ct.C - p.YD

theorem equation_eq (p : Parsed F G) (c w : F) : equation p c w = E0 p c + w • E1 p c := by
  simp only [equation, E0, E1, msm_cons_cons, msm_nil_left]; module

theorem policy_iff (b : Bytes) (p : Parsed F G) (h : parse b = some p) :
    policy p = true ↔ p.P ≠ 0 ∧ p.ct.C ≠ 0 ∧ p.ct.D ≠ 0 ∧ p.YP ≠ 0 := by
  rw [parse_some_iff] at h
  obtain ⟨_, _, _, _, hYP, _, _, h1, _⟩ := h
  have hz := not_isZeroEnc_iff (b := p.ypB) (P := p.YP) (by rw [h1]; exact hYP)
  simp only [policy, Bool.and_eq_true, hz, Bool.not_eq_true', Bool.or_eq_false_iff,
    beq_eq_false_iff_ne, ne_eq]
  tauto

end ZeroCt

/-! ### public-key validity -/
namespace PubkeyValidity

theorem parse_some_iff (b : Bytes) (p : Parsed F G) :
    parse b = some p ↔
      b.length = 96 ∧ ptAt b 0 = some p.P ∧ ptAt b 32 = some p.Y ∧ scAt b 64 = some p.z ∧
      p.yB = slice b 32 32 := by
  unfold parse
  by_cases hl : b.length = 96
  · simp only [hl, ne_eq, not_true_eq_false, if_false, true_and]
    constructor
    · intro h
      simp only [Option.bind_eq_bind, Option.bind_eq_some_iff, Option.pure_def, Option.some.injEq] at h
      obtain ⟨P, hP, Y, hY, z, hz, rfl⟩ := h
      exact ⟨hP, hY, hz, rfl⟩
    · rintro ⟨hP, hY, hz, h1⟩
      simp only [Option.bind_eq_bind, hP, hY, hz, Option.bind_some, Option.pure_def, Option.some.injEq]
      obtain ⟨P, a, c, d⟩ := p
      simp_all
  · simp [hl]

/-- the single verification equation -/
def E0 (p : Parsed F G) (c : F) : G := p.z • Hp - c • p.P - p.Y

theorem equation_eq (p : Parsed F G) (c : F) : equation p c = E0 p c := by
  simp only [equation, E0, msm_cons_cons, msm_nil_left]; module

theorem policy_iff (b : Bytes) (p : Parsed F G) (h : parse b = some p) :
    policy p = true ↔ p.P ≠ 0 ∧ p.Y ≠ 0 := by
  rw [parse_some_iff] at h
  obtain ⟨_, _, hY, _, h1⟩ := h
  have hz := not_isZeroEnc_iff (b := p.yB) (P := p.Y) (by rw [h1]; exact hY)
  simp only [policy, Bool.and_eq_true, hz, Bool.not_eq_true', beq_eq_false_iff_ne, ne_eq]

end PubkeyValidity

/-! ### ciphertext–ciphertext equality -/
namespace CtCtEq

theorem parse_some_iff (b : Bytes) (p : Parsed F G) :
    parse b = some p ↔
      b.length = 416 ∧ ptAt b 0 = some p.P1 ∧ ptAt b 32 = some p.P2 ∧
      ptAt b 64 = some p.ct1.C ∧ ptAt b 96 = some p.ct1.D ∧
      ptAt b 128 = some p.ct2.C ∧ ptAt b 160 = some p.ct2.D ∧
      ptAt b 192 = some p.Y0 ∧ ptAt b 224 = some p.Y1 ∧ ptAt b 256 = some p.Y2 ∧ ptAt b 288 = some p.Y3 ∧
      scAt b 320 = some p.zs ∧ scAt b 352 = some p.zx ∧ scAt b 384 = some p.zr ∧
      p.y0B = slice b 192 32 ∧ p.y1B = slice b 224 32 ∧ p.y2B = slice b 256 32 ∧ p.y3B = slice b 288 32 := by
  unfold parse
  by_cases hl : b.length = 416
  · simp only [hl, ne_eq, not_true_eq_false, if_false, true_and]
    constructor
    · intro h
      simp (config := { maxSteps := 4000000 }) only [Option.bind_eq_bind, Option.bind_eq_some_iff, Option.pure_def, Option.some.injEq] at h
      obtain ⟨P1, h1, P2, h2, C1, h3, D1, h4, C2, h5, D2, h6, Y0, h7, Y1, h8, Y2, h9, Y3, h10,
        zs, h11, zx, h12, zr, h13, rfl⟩ := h
      exact ⟨h1, h2, h3, h4, h5, h6, h7, h8, h9, h10, h11, h12, h13, rfl, rfl, rfl, rfl⟩
    · rintro ⟨h1, h2, h3, h4, h5, h6, h7, h8, h9, h10, h11, h12, h13, e1, e2, e3, e4⟩
      obtain ⟨P1, P2, ⟨C1, D1⟩, ⟨C2, D2⟩, a0, a1, a2, a3, Y0, Y1, Y2, Y3, zs, zx, zr⟩ := p
      simp only at h1 h2 h3 h4 h5 h6 h7 h8 h9 h10 h11 h12 h13 e1 e2 e3 e4
      subst e1 e2 e3 e4
      simp only [Option.bind_eq_bind, h1, h2, h3, h4, h5, h6, h7, h8, h9, h10, h11, h12, h13,
        Option.bind_some, Option.pure_def]
  · simp [hl]

def E0 (p : Parsed F G) (c : F) : G := p.zs • p.P1 - c • Hp - p.Y0
def E1 (p : Parsed F G) (c : F) : G := p.zx • Gp + p.zs • p.ct1.D - c • p.ct1.C - p.Y1
def E2 (p : Parsed F G) (c : F) : G := p.zx • Gp + p.zr • Hp - c • p.ct2.C - p.Y2
def E3 (p : Parsed F G) (c : F) : G := p.zr • p.P2 - c • p.ct2.D - p.Y3

theorem equation_eq (p : Parsed F G) (c w : F) :
    equation p c w = E0 p c + w • E1 p c + (w * w) • E2 p c + (w * (w * w)) • E3 p c := by
  simp only [equation, E0, E1, E2, E3, msm_cons_cons, msm_nil_left]; module

theorem policy_iff (b : Bytes) (p : Parsed F G) (h : parse b = some p) :
    policy p = true ↔ p.P1 ≠ 0 ∧ p.P2 ≠ 0 ∧ p.ct1.C ≠ 0 ∧ p.ct1.D ≠ 0 ∧
      p.Y0 ≠ 0 ∧ p.Y1 ≠ 0 ∧ p.Y2 ≠ 0 ∧ p.Y3 ≠ 0 := by
  rw [parse_some_iff] at h
  obtain ⟨_, _, _, _, _, _, _, h0, h1, h2, h3, _, _, _, e0, e1, e2, e3⟩ := h
  have z0 := not_isZeroEnc_iff (b := p.y0B) (P := p.Y0) (by rw [e0]; exact h0)
  have z1 := not_isZeroEnc_iff (b := p.y1B) (P := p.Y1) (by rw [e1]; exact h1)
  have z2 := not_isZeroEnc_iff (b := p.y2B) (P := p.Y2) (by rw [e2]; exact h2)
  have z3 := not_isZeroEnc_iff (b := p.y3B) (P := p.Y3) (by rw [e3]; exact h3)
  simp only [policy, Bool.and_eq_true, z0, z1, z2, z3, Bool.not_eq_true', Bool.or_eq_false_iff,
    beq_eq_false_iff_ne, ne_eq]
  tauto

end CtCtEq

/-! ### ciphertext–commitment equality -/
namespace CtCmtEq

theorem parse_some_iff (b : Bytes) (p : Parsed F G) :
    parse b = some p ↔
      b.length = 320 ∧ ptAt b 0 = some p.P ∧ ptAt b 32 = some p.ct.C ∧ ptAt b 64 = some p.ct.D ∧
      ptAt b 96 = some p.Cm ∧
      ptAt b 128 = some p.Y0 ∧ ptAt b 160 = some p.Y1 ∧ ptAt b 192 = some p.Y2 ∧
      scAt b 224 = some p.zs ∧ scAt b 256 = some p.zx ∧ scAt b 288 = some p.zr ∧
      p.y0B = slice b 128 32 ∧ p.y1B = slice b 160 32 ∧ p.y2B = slice b 192 32 := by
  unfold parse
  by_cases hl : b.length = 320
  · simp only [hl, ne_eq, not_true_eq_false, if_false, true_and]
    constructor
    · intro h
      simp only [Option.bind_eq_bind, Option.bind_eq_some_iff, Option.pure_def, Option.some.injEq] at h
      obtain ⟨P, h1, C, h2, D, h3, Cm, h4, Y0, h5, Y1, h6, Y2, h7, zs, h8, zx, h9, zr, h10, rfl⟩ := h
      exact ⟨h1, h2, h3, h4, h5, h6, h7, h8, h9, h10, rfl, rfl, rfl⟩
    · rintro ⟨h1, h2, h3, h4, h5, h6, h7, h8, h9, h10, e1, e2, e3⟩
      obtain ⟨P, ⟨C, D⟩, Cm, a0, a1, a2, Y0, Y1, Y2, zs, zx, zr⟩ := p
      simp only at h1 h2 h3 h4 h5 h6 h7 h8 h9 h10 e1 e2 e3
      subst e1 e2 e3
      simp only [Option.bind_eq_bind, h1, h2, h3, h4, h5, h6, h7, h8, h9, h10,
        Option.bind_some, Option.pure_def]
  · simp [hl]

def E0 (p : Parsed F G) (c : F) : G := p.zs • p.P - c • Hp - p.Y0
def E1 (p : Parsed F G) (c : F) : G := p.zx • Gp + p.zs • p.ct.D - c • p.ct.C - p.Y1
def E2 (p : Parsed F G) (c : F) : G := p.zx • Gp + p.zr • Hp - c • p.Cm - p.Y2

theorem equation_eq (p : Parsed F G) (c w : F) :
    equation p c w = E0 p c + w • E1 p c + (w * w) • E2 p c := by
  simp only [equation, E0, E1, E2, msm_cons_cons, msm_nil_left]; module

theorem policy_iff (b : Bytes) (p : Parsed F G) (h : parse b = some p) :
    policy p = true ↔ p.P ≠ 0 ∧ p.ct.C ≠ 0 ∧ p.ct.D ≠ 0 ∧ p.Cm ≠ 0 ∧
      p.Y0 ≠ 0 ∧ p.Y1 ≠ 0 ∧ p.Y2 ≠ 0 := by
  rw [parse_some_iff] at h
  obtain ⟨_, _, _, _, _, h0, h1, h2, _, _, _, e0, e1, e2⟩ := h
  have z0 := not_isZeroEnc_iff (b := p.y0B) (P := p.Y0) (by rw [e0]; exact h0)
  have z1 := not_isZeroEnc_iff (b := p.y1B) (P := p.Y1) (by rw [e1]; exact h1)
  have z2 := not_isZeroEnc_iff (b := p.y2B) (P := p.Y2) (by rw [e2]; exact h2)
  simp only [policy, Bool.and_eq_true, z0, z1, z2, Bool.not_eq_true', Bool.or_eq_false_iff,
    beq_eq_false_iff_ne, ne_eq]
  tauto

end CtCmtEq

end Zk.Sigma

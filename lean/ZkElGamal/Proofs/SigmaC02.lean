import ZkElGamal.Proofs.Basic
/-!
Helper lemmas for C02: shapes of the parsed grouped-ciphertext validity
instructions (2 / 3 handles, plain and batched) and the normal form of `verify_direct`.
-/
set_option linter.unusedSectionVars false
namespace Zk

theorem slice_slice (b : Bytes) (i n j m : Nat) (h : j + m ≤ n) :
    slice (slice b i n) j m = slice b (i + j) m := by
  unfold slice
  rw [List.drop_take, List.take_take, List.drop_drop]
  congr 1
  omega

theorem slice_length' (b : Bytes) (i n : Nat) (h : i + n ≤ b.length) : (slice b i n).length = n := by
  simp [slice]; omega

namespace Sigma
variable {F G T : Type} [Field F] [AddCommGroup G] [Module F G] [DecidableEq G]
  [PtCodec G] [ScCodec F] [PedGens G] [TranscriptOps T] [LawfulPtCodec G]

local notation "Gp" => (PedGens.G : G)
local notation "Hp" => (PedGens.H : G)

theorem decPts_two (b : Bytes) (off : Nat) (l : List G) :
    decPts b off 2 = some l ↔ ∃ P1 P2, l = [P1, P2] ∧ ptAt b off = some P1 ∧ ptAt b (off + 32) = some P2 := by
  simp only [decPts, ptAt, Option.bind_eq_bind, Option.bind_eq_some_iff, Option.pure_def, Option.some.injEq]
  constructor
  · rintro ⟨P1, h1, r1, ⟨P2, h2, r2, hr2, rfl⟩, rfl⟩
    subst hr2
    exact ⟨P1, P2, rfl, h1, h2⟩
  · rintro ⟨P1, P2, rfl, h1, h2⟩
    exact ⟨P1, h1, [P2], ⟨P2, h2, [], rfl, rfl⟩, rfl⟩

theorem decPts_three (b : Bytes) (off : Nat) (l : List G) :
    decPts b off 3 = some l ↔ ∃ P1 P2 P3, l = [P1, P2, P3] ∧ ptAt b off = some P1 ∧
      ptAt b (off + 32) = some P2 ∧ ptAt b (off + 64) = some P3 := by
  rw [decPts]
  simp only [Option.bind_eq_bind, Option.bind_eq_some_iff, Option.pure_def, Option.some.injEq]
  constructor
  · rintro ⟨P1, h1, r, hr, rfl⟩
    obtain ⟨P2, P3, rfl, h2, h3⟩ := (decPts_two b (off + 32) r).mp hr
    exact ⟨P1, P2, P3, rfl, h1, h2, by rw [← h3]⟩
  · rintro ⟨P1, P2, P3, rfl, h1, h2, h3⟩
    exact ⟨P1, h1, [P2, P3], (decPts_two b (off + 32) _).mpr ⟨P2, P3, rfl, h2, by rw [← h3]⟩, rfl⟩

theorem decPts_four (b : Bytes) (off : Nat) (l : List G) :
    decPts b off 4 = some l ↔ ∃ P1 P2 P3 P4, l = [P1, P2, P3, P4] ∧ ptAt b off = some P1 ∧
      ptAt b (off + 32) = some P2 ∧ ptAt b (off + 64) = some P3 ∧ ptAt b (off + 96) = some P4 := by
  rw [decPts]
  simp only [Option.bind_eq_bind, Option.bind_eq_some_iff, Option.pure_def, Option.some.injEq]
  constructor
  · rintro ⟨P1, h1, r, hr, rfl⟩
    obtain ⟨P2, P3, P4, rfl, h2, h3, h4⟩ := (decPts_three b (off + 32) r).mp hr
    exact ⟨P1, P2, P3, P4, rfl, h1, h2, by rw [← h3], by rw [← h4]⟩
  · rintro ⟨P1, P2, P3, P4, rfl, h1, h2, h3, h4⟩
    exact ⟨P1, h1, [P2, P3, P4],
      (decPts_three b (off + 32) _).mpr ⟨P2, P3, P4, rfl, h2, by rw [← h3], by rw [← h4]⟩, rfl⟩

theorem ptAt_slice (b : Bytes) (i n j : Nat) (h : j + 32 ≤ n) :
    ptAt (Pt := G) (slice b i n) j = ptAt b (i + j) := by
  unfold ptAt; rw [slice_slice b i n j 32 h]

/-- grouped ciphertext with 2 handles inside a larger byte string -/
theorem gct2_dec (b : Bytes) (off : Nat) (hlen : off + 96 ≤ b.length) (g : GCt G) :
    GCt.dec 2 (slice b off 96) = some g ↔
      ∃ C D1 D2, g = ⟨C, [D1, D2]⟩ ∧ ptAt b off = some C ∧ ptAt b (off + 32) = some D1 ∧
        ptAt b (off + 64) = some D2 := by
  have hl : (slice b off 96).length = 32 * (2 + 1) := by rw [slice_length' b off 96 hlen]
  unfold GCt.dec
  simp only [hl, ne_eq, not_true_eq_false, if_false, Option.bind_eq_bind, Option.bind_eq_some_iff,
    Option.pure_def, Option.some.injEq]
  constructor
  · rintro ⟨C, hC, Ds, hDs, rfl⟩
    obtain ⟨D1, D2, rfl, h1, h2⟩ := (decPts_two _ 32 Ds).mp hDs
    refine ⟨C, D1, D2, rfl, ?_, ?_, ?_⟩
    · have := ptAt_slice (G := G) b off 96 0 (by omega); simp only [ptAt, Nat.add_zero] at this; unfold ptAt; rw [← this]; exact hC
    · rw [← ptAt_slice b off 96 32 (by omega)]; exact h1
    · rw [← ptAt_slice b off 96 64 (by omega)]; exact h2
  · rintro ⟨C, D1, D2, rfl, hC, h1, h2⟩
    refine ⟨C, ?_, [D1, D2], ?_, rfl⟩
    · have := ptAt_slice (G := G) b off 96 0 (by omega); simp only [ptAt, Nat.add_zero] at this; unfold ptAt at hC; rw [this]; exact hC
    · refine (decPts_two _ 32 _).mpr ⟨D1, D2, rfl, ?_, ?_⟩
      · rw [ptAt_slice b off 96 32 (by omega)]; exact h1
      · rw [ptAt_slice b off 96 64 (by omega)]; exact h2

theorem gct3_dec (b : Bytes) (off : Nat) (hlen : off + 128 ≤ b.length) (g : GCt G) :
    GCt.dec 3 (slice b off 128) = some g ↔
      ∃ C D1 D2 D3, g = ⟨C, [D1, D2, D3]⟩ ∧ ptAt b off = some C ∧ ptAt b (off + 32) = some D1 ∧
        ptAt b (off + 64) = some D2 ∧ ptAt b (off + 96) = some D3 := by
  have hl : (slice b off 128).length = 32 * (3 + 1) := by rw [slice_length' b off 128 hlen]
  unfold GCt.dec
  simp only [hl, ne_eq, not_true_eq_false, if_false, Option.bind_eq_bind, Option.bind_eq_some_iff,
    Option.pure_def, Option.some.injEq]
  constructor
  · rintro ⟨C, hC, Ds, hDs, rfl⟩
    obtain ⟨D1, D2, D3, rfl, h1, h2, h3⟩ := (decPts_three _ 32 Ds).mp hDs
    refine ⟨C, D1, D2, D3, rfl, ?_, ?_, ?_, ?_⟩
    · have := ptAt_slice (G := G) b off 128 0 (by omega); simp only [ptAt, Nat.add_zero] at this; unfold ptAt; rw [← this]; exact hC
    · rw [← ptAt_slice b off 128 32 (by omega)]; exact h1
    · rw [← ptAt_slice b off 128 64 (by omega)]; exact h2
    · rw [← ptAt_slice b off 128 96 (by omega)]; exact h3
  · rintro ⟨C, D1, D2, D3, rfl, hC, h1, h2, h3⟩
    refine ⟨C, ?_, [D1, D2, D3], ?_, rfl⟩
    · have := ptAt_slice (G := G) b off 128 0 (by omega); simp only [ptAt, Nat.add_zero] at this; unfold ptAt at hC; rw [this]; exact hC
    · refine (decPts_three _ 32 _).mpr ⟨D1, D2, D3, rfl, ?_, ?_, ?_⟩
      · rw [ptAt_slice b off 128 32 (by omega)]; exact h1
      · rw [ptAt_slice b off 128 64 (by omega)]; exact h2
      · rw [ptAt_slice b off 128 96 (by omega)]; exact h3

namespace Validity

/-- sigma-level proof with 3 masking commitments (2 handles) -/
theorem parseProof2 (b : Bytes) (off : Nat) (pf : Proof F G) :
    parseProof 2 b off = some pf ↔
      ∃ Y0 Y1 Y2, pf = ⟨[slice b off 32, slice b (off + 32) 32, slice b (off + 64) 32], [Y0, Y1, Y2], pf.zr, pf.zx⟩ ∧
        ptAt b off = some Y0 ∧ ptAt b (off + 32) = some Y1 ∧ ptAt b (off + 64) = some Y2 ∧
        scAt b (off + 96) = some pf.zr ∧ scAt b (off + 128) = some pf.zx := by
  unfold parseProof
  simp only [Option.bind_eq_bind, Option.bind_eq_some_iff, Option.pure_def, Option.some.injEq]
  constructor
  · rintro ⟨Ys, hYs, zr, hzr, zx, hzx, rfl⟩
    obtain ⟨Y0, Y1, Y2, rfl, h0, h1, h2⟩ := (decPts_three b off Ys).mp hYs
    exact ⟨Y0, Y1, Y2, by simp [List.range, List.range.loop], h0, h1, h2, hzr, hzx⟩
  · rintro ⟨Y0, Y1, Y2, hpf, h0, h1, h2, hzr, hzx⟩
    refine ⟨[Y0, Y1, Y2], (decPts_three b off _).mpr ⟨Y0, Y1, Y2, rfl, h0, h1, h2⟩, pf.zr, hzr, pf.zx, hzx, ?_⟩
    rw [hpf]; simp [List.range, List.range.loop]

theorem parseProof3 (b : Bytes) (off : Nat) (pf : Proof F G) :
    parseProof 3 b off = some pf ↔
      ∃ Y0 Y1 Y2 Y3, pf = ⟨[slice b off 32, slice b (off + 32) 32, slice b (off + 64) 32, slice b (off + 96) 32],
          [Y0, Y1, Y2, Y3], pf.zr, pf.zx⟩ ∧
        ptAt b off = some Y0 ∧ ptAt b (off + 32) = some Y1 ∧ ptAt b (off + 64) = some Y2 ∧
        ptAt b (off + 96) = some Y3 ∧
        scAt b (off + 128) = some pf.zr ∧ scAt b (off + 160) = some pf.zx := by
  unfold parseProof
  simp only [Option.bind_eq_bind, Option.bind_eq_some_iff, Option.pure_def, Option.some.injEq]
  constructor
  · rintro ⟨Ys, hYs, zr, hzr, zx, hzx, rfl⟩
    obtain ⟨Y0, Y1, Y2, Y3, rfl, h0, h1, h2, h3⟩ := (decPts_four b off Ys).mp hYs
    exact ⟨Y0, Y1, Y2, Y3, by simp [List.range, List.range.loop], h0, h1, h2, h3, hzr, hzx⟩
  · rintro ⟨Y0, Y1, Y2, Y3, hpf, h0, h1, h2, h3, hzr, hzx⟩
    refine ⟨[Y0, Y1, Y2, Y3], (decPts_four b off _).mpr ⟨Y0, Y1, Y2, Y3, rfl, h0, h1, h2, h3⟩,
      pf.zr, hzr, pf.zx, hzx, ?_⟩
    rw [hpf]; simp [List.range, List.range.loop]

/-- textbook equations of `verify_direct` -/
def E0 (C Y0 : G) (zr zx c : F) : G := zr • Hp + zx • Gp - c • C - Y0
def Eh (P D Y : G) (zr c : F) : G := zr • P - c • D - Y

theorem equation2_eq (P1 P2 C D1 D2 Y0 Y1 Y2 : G) (y : List Bytes) (zr zx c w : F) :
    equation 2 [P1, P2] ⟨C, [D1, D2]⟩ (⟨y, [Y0, Y1, Y2], zr, zx⟩ : Proof F G) c w =
      E0 C Y0 zr zx c + w • Eh P1 D1 Y1 zr c + (w * w) • Eh P2 D2 Y2 zr c := by
  simp only [equation, equation2, E0, Eh, msm_cons_cons, msm_nil_left, List.getD_cons_zero,
    List.getD_cons_succ, show ¬ (2 = 3) by decide, if_false]
  module

theorem equation3_eq (P1 P2 P3 C D1 D2 D3 Y0 Y1 Y2 Y3 : G) (y : List Bytes) (zr zx c w : F) :
    equation 3 [P1, P2, P3] ⟨C, [D1, D2, D3]⟩ (⟨y, [Y0, Y1, Y2, Y3], zr, zx⟩ : Proof F G) c w =
      E0 C Y0 zr zx c + w • Eh P1 D1 Y1 zr c + (w * w) • Eh P2 D2 Y2 zr c
        + (w * (w * w)) • Eh P3 D3 Y3 zr c := by
  simp only [equation, equation3, E0, Eh, msm_cons_cons, msm_nil_left, List.getD_cons_zero,
    List.getD_cons_succ, if_true]
  module

end Validity
end Sigma
end Zk

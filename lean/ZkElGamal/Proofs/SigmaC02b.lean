import ZkElGamal.Proofs.SigmaC02
/-!
GENERATED-STYLE helper file (written once by a script, then checked in): explicit field
records of the four grouped-ciphertext validity instructions and the characterisation
of `parse` in terms of them.
-/
set_option linter.unusedSectionVars false
namespace Zk.Sigma
open Zk Zk.Sigma.Validity
variable {F G T : Type} [Field F] [AddCommGroup G] [Module F G] [DecidableEq G]
  [PtCodec G] [ScCodec F] [PedGens G] [TranscriptOps T] [LawfulPtCodec G]


/-- explicit fields of a 320-byte instruction -/
structure Fields2 (F G : Type) where
  P1 : G
  P2 : G
  C : G
  D1 : G
  D2 : G
  Y0 : G
  Y1 : G
  Y2 : G
  zr : F
  zx : F

def Fields2.decodes (f : Fields2 F G) (b : Bytes) : Prop :=
  b.length = 320 ∧
  ptAt b 0 = some f.P1 ∧
  ptAt b 32 = some f.P2 ∧
  ptAt b 64 = some f.C ∧
  ptAt b 96 = some f.D1 ∧
  ptAt b 128 = some f.D2 ∧
  ptAt b 160 = some f.Y0 ∧
  ptAt b 192 = some f.Y1 ∧
  ptAt b 224 = some f.Y2 ∧
  scAt b 256 = some f.zr ∧
  scAt b 288 = some f.zx

/-- explicit fields of a 416-byte instruction -/
structure Fields3 (F G : Type) where
  P1 : G
  P2 : G
  P3 : G
  C : G
  D1 : G
  D2 : G
  D3 : G
  Y0 : G
  Y1 : G
  Y2 : G
  Y3 : G
  zr : F
  zx : F

def Fields3.decodes (f : Fields3 F G) (b : Bytes) : Prop :=
  b.length = 416 ∧
  ptAt b 0 = some f.P1 ∧
  ptAt b 32 = some f.P2 ∧
  ptAt b 64 = some f.P3 ∧
  ptAt b 96 = some f.C ∧
  ptAt b 128 = some f.D1 ∧
  ptAt b 160 = some f.D2 ∧
  ptAt b 192 = some f.D3 ∧
  ptAt b 224 = some f.Y0 ∧
  ptAt b 256 = some f.Y1 ∧
  ptAt b 288 = some f.Y2 ∧
  ptAt b 320 = some f.Y3 ∧
  scAt b 352 = some f.zr ∧
  scAt b 384 = some f.zx

/-- explicit fields of a 416-byte instruction -/
structure BFields2 (F G : Type) where
  P1 : G
  P2 : G
  Cl : G
  D1l : G
  D2l : G
  Ch : G
  D1h : G
  D2h : G
  Y0 : G
  Y1 : G
  Y2 : G
  zr : F
  zx : F

def BFields2.decodes (f : BFields2 F G) (b : Bytes) : Prop :=
  b.length = 416 ∧
  ptAt b 0 = some f.P1 ∧
  ptAt b 32 = some f.P2 ∧
  ptAt b 64 = some f.Cl ∧
  ptAt b 96 = some f.D1l ∧
  ptAt b 128 = some f.D2l ∧
  ptAt b 160 = some f.Ch ∧
  ptAt b 192 = some f.D1h ∧
  ptAt b 224 = some f.D2h ∧
  ptAt b 256 = some f.Y0 ∧
  ptAt b 288 = some f.Y1 ∧
  ptAt b 320 = some f.Y2 ∧
  scAt b 352 = some f.zr ∧
  scAt b 384 = some f.zx

/-- explicit fields of a 544-byte instruction -/
structure BFields3 (F G : Type) where
  P1 : G
  P2 : G
  P3 : G
  Cl : G
  D1l : G
  D2l : G
  D3l : G
  Ch : G
  D1h : G
  D2h : G
  D3h : G
  Y0 : G
  Y1 : G
  Y2 : G
  Y3 : G
  zr : F
  zx : F

def BFields3.decodes (f : BFields3 F G) (b : Bytes) : Prop :=
  b.length = 544 ∧
  ptAt b 0 = some f.P1 ∧
  ptAt b 32 = some f.P2 ∧
  ptAt b 64 = some f.P3 ∧
  ptAt b 96 = some f.Cl ∧
  ptAt b 128 = some f.D1l ∧
  ptAt b 160 = some f.D2l ∧
  ptAt b 192 = some f.D3l ∧
  ptAt b 224 = some f.Ch ∧
  ptAt b 256 = some f.D1h ∧
  ptAt b 288 = some f.D2h ∧
  ptAt b 320 = some f.D3h ∧
  ptAt b 352 = some f.Y0 ∧
  ptAt b 384 = some f.Y1 ∧
  ptAt b 416 = some f.Y2 ∧
  ptAt b 448 = some f.Y3 ∧
  scAt b 480 = some f.zr ∧
  scAt b 512 = some f.zx


def Fields2.parsed (f : Fields2 F G) (b : Bytes) : Validity.Parsed F G :=
  ⟨[f.P1, f.P2], ⟨f.C, [f.D1, f.D2]⟩,
   ⟨[slice b 160 32, slice b 192 32, slice b 224 32], [f.Y0, f.Y1, f.Y2], f.zr, f.zx⟩⟩

theorem parse2_iff (b : Bytes) (p : Validity.Parsed F G) :
    Validity.parse 2 b = some p ↔ ∃ f : Fields2 F G, f.decodes b ∧ p = f.parsed b := by
  unfold Validity.parse
  by_cases hl : b.length = 320
  · simp only [hl, show 32 * 2 + 32 * (2 + 1) + 32 * (2 + 3) = 320 by norm_num, ne_eq, not_true_eq_false,
      if_false, Option.bind_eq_bind, Option.bind_eq_some_iff, Option.pure_def, Option.some.injEq,
      show 32 * 2 = 64 by norm_num, show 32 * (2 + 1) = 96 by norm_num, show 64 + 96 = 160 by norm_num]
    constructor
    · rintro ⟨Ps, hPs, g, hg, pf, hpf, rfl⟩
      obtain ⟨P1, P2, rfl, h1, h2⟩ := (decPts_two b 0 Ps).mp hPs
      obtain ⟨C, D1, D2, rfl, h3, h4, h5⟩ := (gct2_dec b 64 (by omega) g).mp hg
      obtain ⟨Y0, Y1, Y2, e, h6, h7, h8, h9, h10⟩ := (parseProof2 b 160 pf).mp hpf
      refine ⟨⟨P1, P2, C, D1, D2, Y0, Y1, Y2, pf.zr, pf.zx⟩, ⟨hl, h1, h2, h3, h4, h5, h6, h7, h8, h9, h10⟩, ?_⟩
      simp only [Fields2.parsed]; rw [e]
    · rintro ⟨f, ⟨_, h1, h2, h3, h4, h5, h6, h7, h8, h9, h10⟩, rfl⟩
      refine ⟨[f.P1, f.P2], (decPts_two b 0 _).mpr ⟨_, _, rfl, h1, h2⟩, ⟨f.C, [f.D1, f.D2]⟩,
        (gct2_dec b 64 (by omega) _).mpr ⟨_, _, _, rfl, h3, h4, h5⟩, _,
        (parseProof2 b 160 _).mpr ⟨f.Y0, f.Y1, f.Y2, rfl, h6, h7, h8, h9, h10⟩, rfl⟩
  · simp only [show 32 * 2 + 32 * (2 + 1) + 32 * (2 + 3) = 320 by norm_num, ne_eq, hl, not_false_eq_true, if_true]
    constructor
    · intro h; cases h
    · rintro ⟨f, ⟨h, _⟩, _⟩; exact absurd h hl

theorem Fields2.ext_of_decodes (f f' : Fields2 F G) (b : Bytes) (h : f.decodes b) (h' : f'.decodes b) : f' = f := by
  obtain ⟨_, h1, h2, h3, h4, h5, h6, h7, h8, h9, h10⟩ := h
  obtain ⟨_, g1, g2, g3, g4, g5, g6, g7, g8, g9, g10⟩ := h'
  cases f; cases f'
  simp only at h1 h2 h3 h4 h5 h6 h7 h8 h9 h10 g1 g2 g3 g4 g5 g6 g7 g8 g9 g10
  simp_all


def Fields3.parsed (f : Fields3 F G) (b : Bytes) : Validity.Parsed F G :=
  ⟨[f.P1, f.P2, f.P3], ⟨f.C, [f.D1, f.D2, f.D3]⟩,
   ⟨[slice b 224 32, slice b 256 32, slice b 288 32, slice b 320 32], [f.Y0, f.Y1, f.Y2, f.Y3], f.zr, f.zx⟩⟩

theorem parse3_iff (b : Bytes) (p : Validity.Parsed F G) :
    Validity.parse 3 b = some p ↔ ∃ f : Fields3 F G, f.decodes b ∧ p = f.parsed b := by
  unfold Validity.parse
  by_cases hl : b.length = 416
  · simp only [hl, show 32 * 3 + 32 * (3 + 1) + 32 * (3 + 3) = 416 by norm_num, ne_eq, not_true_eq_false,
      if_false, Option.bind_eq_bind, Option.bind_eq_some_iff, Option.pure_def, Option.some.injEq,
      show 32 * 3 = 96 by norm_num, show 32 * (3 + 1) = 128 by norm_num, show 96 + 128 = 224 by norm_num]
    constructor
    · rintro ⟨Ps, hPs, g, hg, pf, hpf, rfl⟩
      obtain ⟨P1, P2, P3, rfl, h1, h2, h3⟩ := (decPts_three b 0 Ps).mp hPs
      obtain ⟨C, D1, D2, D3, rfl, h4, h5, h6, h7⟩ := (gct3_dec b 96 (by omega) g).mp hg
      obtain ⟨Y0, Y1, Y2, Y3, e, h8, h9, h10, h11, h12, h13⟩ := (parseProof3 b 224 pf).mp hpf
      refine ⟨⟨P1, P2, P3, C, D1, D2, D3, Y0, Y1, Y2, Y3, pf.zr, pf.zx⟩,
        ⟨hl, h1, h2, h3, h4, h5, h6, h7, h8, h9, h10, h11, h12, h13⟩, ?_⟩
      simp only [Fields3.parsed]; rw [e]
    · rintro ⟨f, ⟨_, h1, h2, h3, h4, h5, h6, h7, h8, h9, h10, h11, h12, h13⟩, rfl⟩
      refine ⟨[f.P1, f.P2, f.P3], (decPts_three b 0 _).mpr ⟨_, _, _, rfl, h1, h2, h3⟩, ⟨f.C, [f.D1, f.D2, f.D3]⟩,
        (gct3_dec b 96 (by omega) _).mpr ⟨_, _, _, _, rfl, h4, h5, h6, h7⟩, _,
        (parseProof3 b 224 _).mpr ⟨f.Y0, f.Y1, f.Y2, f.Y3, rfl, h8, h9, h10, h11, h12, h13⟩, rfl⟩
  · simp only [show 32 * 3 + 32 * (3 + 1) + 32 * (3 + 3) = 416 by norm_num, ne_eq, hl, not_false_eq_true, if_true]
    constructor
    · intro h; cases h
    · rintro ⟨f, ⟨h, _⟩, _⟩; exact absurd h hl

theorem Fields3.ext_of_decodes (f f' : Fields3 F G) (b : Bytes) (h : f.decodes b) (h' : f'.decodes b) : f' = f := by
  obtain ⟨_, h1, h2, h3, h4, h5, h6, h7, h8, h9, h10, h11, h12, h13⟩ := h
  obtain ⟨_, g1, g2, g3, g4, g5, g6, g7, g8, g9, g10, g11, g12, g13⟩ := h'
  cases f; cases f'
  simp only at h1 h2 h3 h4 h5 h6 h7 h8 h9 h10 h11 h12 h13 g1 g2 g3 g4 g5 g6 g7 g8 g9 g10 g11 g12 g13
  simp_all


def BFields2.parsed (f : BFields2 F G) (b : Bytes) : BatchedValidity.Parsed F G :=
  ⟨[f.P1, f.P2], ⟨f.Cl, [f.D1l, f.D2l]⟩, ⟨f.Ch, [f.D1h, f.D2h]⟩,
   ⟨[slice b 256 32, slice b 288 32, slice b 320 32], [f.Y0, f.Y1, f.Y2], f.zr, f.zx⟩⟩

theorem bparse2_iff (b : Bytes) (p : BatchedValidity.Parsed F G) :
    BatchedValidity.parse 2 b = some p ↔ ∃ f : BFields2 F G, f.decodes b ∧ p = f.parsed b := by
  unfold BatchedValidity.parse
  by_cases hl : b.length = 416
  · simp only [hl, show 32 * 2 + 2 * (32 * (2 + 1)) + 32 * (2 + 3) = 416 by norm_num, ne_eq, not_true_eq_false,
      if_false, Option.bind_eq_bind, Option.bind_eq_some_iff, Option.pure_def, Option.some.injEq,
      show 32 * 2 = 64 by norm_num, show 32 * (2 + 1) = 96 by norm_num, show 64 + 96 = 160 by norm_num,
      show 64 + 2 * 96 = 256 by norm_num]
    constructor
    · rintro ⟨Ps, hPs, lo, hlo, hi, hhi, pf, hpf, rfl⟩
      obtain ⟨P1, P2, rfl, h1, h2⟩ := (decPts_two b 0 Ps).mp hPs
      obtain ⟨Cl, D1l, D2l, rfl, h3, h4, h5⟩ := (gct2_dec b 64 (by omega) lo).mp hlo
      obtain ⟨Ch, D1h, D2h, rfl, h6, h7, h8⟩ := (gct2_dec b 160 (by omega) hi).mp hhi
      obtain ⟨Y0, Y1, Y2, e, h9, h10, h11, h12, h13⟩ := (parseProof2 b 256 pf).mp hpf
      refine ⟨⟨P1, P2, Cl, D1l, D2l, Ch, D1h, D2h, Y0, Y1, Y2, pf.zr, pf.zx⟩,
        ⟨hl, h1, h2, h3, h4, h5, h6, h7, h8, h9, h10, h11, h12, h13⟩, ?_⟩
      simp only [BFields2.parsed]; rw [e]
    · rintro ⟨f, ⟨_, h1, h2, h3, h4, h5, h6, h7, h8, h9, h10, h11, h12, h13⟩, rfl⟩
      refine ⟨[f.P1, f.P2], (decPts_two b 0 _).mpr ⟨_, _, rfl, h1, h2⟩, ⟨f.Cl, [f.D1l, f.D2l]⟩,
        (gct2_dec b 64 (by omega) _).mpr ⟨_, _, _, rfl, h3, h4, h5⟩, ⟨f.Ch, [f.D1h, f.D2h]⟩,
        (gct2_dec b 160 (by omega) _).mpr ⟨_, _, _, rfl, h6, h7, h8⟩, _,
        (parseProof2 b 256 _).mpr ⟨f.Y0, f.Y1, f.Y2, rfl, h9, h10, h11, h12, h13⟩, rfl⟩
  · simp only [show 32 * 2 + 2 * (32 * (2 + 1)) + 32 * (2 + 3) = 416 by norm_num, ne_eq, hl, not_false_eq_true, if_true]
    constructor
    · intro h; cases h
    · rintro ⟨f, ⟨h, _⟩, _⟩; exact absurd h hl

theorem BFields2.ext_of_decodes (f f' : BFields2 F G) (b : Bytes) (h : f.decodes b) (h' : f'.decodes b) : f' = f := by
  obtain ⟨_, h1, h2, h3, h4, h5, h6, h7, h8, h9, h10, h11, h12, h13⟩ := h
  obtain ⟨_, g1, g2, g3, g4, g5, g6, g7, g8, g9, g10, g11, g12, g13⟩ := h'
  cases f; cases f'
  simp only at h1 h2 h3 h4 h5 h6 h7 h8 h9 h10 h11 h12 h13 g1 g2 g3 g4 g5 g6 g7 g8 g9 g10 g11 g12 g13
  simp_all


def BFields3.parsed (f : BFields3 F G) (b : Bytes) : BatchedValidity.Parsed F G :=
  ⟨[f.P1, f.P2, f.P3], ⟨f.Cl, [f.D1l, f.D2l, f.D3l]⟩, ⟨f.Ch, [f.D1h, f.D2h, f.D3h]⟩,
   ⟨[slice b 352 32, slice b 384 32, slice b 416 32, slice b 448 32], [f.Y0, f.Y1, f.Y2, f.Y3], f.zr, f.zx⟩⟩

theorem bparse3_iff (b : Bytes) (p : BatchedValidity.Parsed F G) :
    BatchedValidity.parse 3 b = some p ↔ ∃ f : BFields3 F G, f.decodes b ∧ p = f.parsed b := by
  unfold BatchedValidity.parse
  by_cases hl : b.length = 544
  · simp only [hl, show 32 * 3 + 2 * (32 * (3 + 1)) + 32 * (3 + 3) = 544 by norm_num, ne_eq, not_true_eq_false,
      if_false, Option.bind_eq_bind, Option.bind_eq_some_iff, Option.pure_def, Option.some.injEq,
      show 32 * 3 = 96 by norm_num, show 32 * (3 + 1) = 128 by norm_num, show 96 + 128 = 224 by norm_num,
      show 96 + 2 * 128 = 352 by norm_num]
    constructor
    · rintro ⟨Ps, hPs, lo, hlo, hi, hhi, pf, hpf, rfl⟩
      obtain ⟨P1, P2, P3, rfl, h1, h2, h3⟩ := (decPts_three b 0 Ps).mp hPs
      obtain ⟨Cl, D1l, D2l, D3l, rfl, h4, h5, h6, h7⟩ := (gct3_dec b 96 (by omega) lo).mp hlo
      obtain ⟨Ch, D1h, D2h, D3h, rfl, h8, h9, h10, h11⟩ := (gct3_dec b 224 (by omega) hi).mp hhi
      obtain ⟨Y0, Y1, Y2, Y3, e, h12, h13, h14, h15, h16, h17⟩ := (parseProof3 b 352 pf).mp hpf
      refine ⟨⟨P1, P2, P3, Cl, D1l, D2l, D3l, Ch, D1h, D2h, D3h, Y0, Y1, Y2, Y3, pf.zr, pf.zx⟩,
        ⟨hl, h1, h2, h3, h4, h5, h6, h7, h8, h9, h10, h11, h12, h13, h14, h15, h16, h17⟩, ?_⟩
      simp only [BFields3.parsed]; rw [e]
    · rintro ⟨f, ⟨_, h1, h2, h3, h4, h5, h6, h7, h8, h9, h10, h11, h12, h13, h14, h15, h16, h17⟩, rfl⟩
      refine ⟨[f.P1, f.P2, f.P3], (decPts_three b 0 _).mpr ⟨_, _, _, rfl, h1, h2, h3⟩, ⟨f.Cl, [f.D1l, f.D2l, f.D3l]⟩,
        (gct3_dec b 96 (by omega) _).mpr ⟨_, _, _, _, rfl, h4, h5, h6, h7⟩, ⟨f.Ch, [f.D1h, f.D2h, f.D3h]⟩,
        (gct3_dec b 224 (by omega) _).mpr ⟨_, _, _, _, rfl, h8, h9, h10, h11⟩, _,
        (parseProof3 b 352 _).mpr ⟨f.Y0, f.Y1, f.Y2, f.Y3, rfl, h12, h13, h14, h15, h16, h17⟩, rfl⟩
  · simp only [show 32 * 3 + 2 * (32 * (3 + 1)) + 32 * (3 + 3) = 544 by norm_num, ne_eq, hl, not_false_eq_true, if_true]
    constructor
    · intro h; cases h
    · rintro ⟨f, ⟨h, _⟩, _⟩; exact absurd h hl

theorem BFields3.ext_of_decodes (f f' : BFields3 F G) (b : Bytes) (h : f.decodes b) (h' : f'.decodes b) : f' = f := by
  obtain ⟨_, h1, h2, h3, h4, h5, h6, h7, h8, h9, h10, h11, h12, h13, h14, h15, h16, h17⟩ := h
  obtain ⟨_, g1, g2, g3, g4, g5, g6, g7, g8, g9, g10, g11, g12, g13, g14, g15, g16, g17⟩ := h'
  cases f; cases f'
  simp only at h1 h2 h3 h4 h5 h6 h7 h8 h9 h10 h11 h12 h13 h14 h15 h16 h17 g1 g2 g3 g4 g5 g6 g7 g8 g9 g10 g11 g12 g13 g14 g15 g16 g17
  simp_all


theorem not_isZeroEnc_iff' {b : Bytes} {P : G} (h : PtCodec.dec b = some P) :
    (!isZeroEnc b) = true ↔ P ≠ 0 := by
  rw [Bool.not_eq_true', ← Bool.not_eq_true, isZeroEnc_iff h]

end Zk.Sigma

import ZkElGamal.Proofs.SigmaC01
/-! Helper lemmas for C03: percentage-with-cap verifier. -/
set_option linter.unusedSectionVars false
namespace Zk.Sigma.Cap
open Zk Zk.Sigma

variable {F G T : Type} [Field F] [AddCommGroup G] [Module F G] [DecidableEq G]
  [PtCodec G] [ScCodec F] [PedGens G] [TranscriptOps T] [LawfulPtCodec G]

local notation "Gp" => (PedGens.G : G)
local notation "Hp" => (PedGens.H : G)

theorem parse_some_iff (b : Bytes) (p : Parsed F G) :
    parse b = some p ↔
      b.length = 360 ∧ ptAt b 0 = some p.Cm ∧ ptAt b 32 = some p.Cd ∧ ptAt b 64 = some p.Cc ∧
      p.maxValue = leNat (slice b 96 8) ∧
      ptAt b 104 = some p.Ym ∧ scAt b 136 = some p.zm ∧ scAt b 168 = some p.cm ∧
      ptAt b 200 = some p.Yd ∧ ptAt b 232 = some p.Yc ∧
      scAt b 264 = some p.zx ∧ scAt b 296 = some p.zd ∧ scAt b 328 = some p.zc ∧
      p.ymB = slice b 104 32 ∧ p.ydB = slice b 200 32 ∧ p.ycB = slice b 232 32 := by
  unfold parse
  by_cases hl : b.length = 360
  · simp only [hl, ne_eq, not_true_eq_false, if_false, true_and]
    constructor
    · intro h
      simp (config := { maxSteps := 4000000 }) only [Option.bind_eq_bind, Option.bind_eq_some_iff,
        Option.pure_def, Option.some.injEq] at h
      obtain ⟨Cm, h1, Cd, h2, Cc, h3, Ym, h4, zm, h5, cm, h6, Yd, h7, Yc, h8, zx, h9, zd, h10, zc, h11, rfl⟩ := h
      exact ⟨h1, h2, h3, rfl, h4, h5, h6, h7, h8, h9, h10, h11, rfl, rfl, rfl⟩
    · rintro ⟨h1, h2, h3, e0, h4, h5, h6, h7, h8, h9, h10, h11, e1, e2, e3⟩
      obtain ⟨Cm, Cd, Cc, mx, a0, a1, a2, Ym, Yd, Yc, zm, cm, zx, zd, zc⟩ := p
      simp only at h1 h2 h3 e0 h4 h5 h6 h7 h8 h9 h10 h11 e1 e2 e3
      subst e0 e1 e2 e3
      simp only [Option.bind_eq_bind, h1, h2, h3, h4, h5, h6, h7, h8, h9, h10, h11,
        Option.bind_some, Option.pure_def]
  · simp [hl]

/-- the three equations in textbook form (`m` = max value as a scalar, `ceq = c − c_max`) -/
def Emax (p : Parsed F G) : G :=
  p.cm • (p.Cm - (ScCodec.ofNat p.maxValue : F) • Gp) - p.zm • Hp + p.Ym
def Edelta (p : Parsed F G) (c : F) : G := p.zx • Gp + p.zd • Hp - (c - p.cm) • p.Cd - p.Yd
def Eclaimed (p : Parsed F G) (c : F) : G := p.zx • Gp + p.zc • Hp - (c - p.cm) • p.Cc - p.Yc

theorem equation_eq (p : Parsed F G) (c w : F) :
    equation p c w = Emax p + w • Edelta p c + (w * w) • Eclaimed p c := by
  simp only [equation, Emax, Edelta, Eclaimed, msm_cons_cons, msm_nil_left]; module

theorem policy_iff (b : Bytes) (p : Parsed F G) (h : parse b = some p) :
    policy p = true ↔ p.Cm ≠ 0 ∧ p.Cd ≠ 0 ∧ p.Cc ≠ 0 ∧ p.Ym ≠ 0 ∧ p.Yd ≠ 0 ∧ p.Yc ≠ 0 := by
  rw [parse_some_iff] at h
  obtain ⟨_, _, _, _, _, h0, _, _, h1, h2, _, _, _, e0, e1, e2⟩ := h
  have z0 := not_isZeroEnc_iff (b := p.ymB) (P := p.Ym) (by rw [e0]; exact h0)
  have z1 := not_isZeroEnc_iff (b := p.ydB) (P := p.Yd) (by rw [e1]; exact h1)
  have z2 := not_isZeroEnc_iff (b := p.ycB) (P := p.Yc) (by rw [e2]; exact h2)
  simp only [policy, Bool.and_eq_true, z0, z1, z2, Bool.not_eq_true', Bool.or_eq_false_iff,
    beq_eq_false_iff_ne, ne_eq]
  tauto

end Zk.Sigma.Cap

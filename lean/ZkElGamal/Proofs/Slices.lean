import ZkElGamal.Proofs.Basic
/-! Length laws of the codecs and slicing of concatenated 32-byte fields (used by completeness). -/
set_option linter.unusedSectionVars false
namespace Zk

/-- every encoding is exactly 32 bytes -/
class LawfulLen (F G : Type) [PtCodec G] [ScCodec F] : Prop where
  pt_len : ∀ P : G, (PtCodec.enc P).length = 32
  sc_len : ∀ s : F, (ScCodec.enc s).length = 32

/-- the same laws, per codec (for statements that mention only one of the two types) -/
class PtLen (G : Type) [PtCodec G] : Prop where
  pt_len : ∀ P : G, (PtCodec.enc P).length = 32
class ScLen (F : Type) [ScCodec F] : Prop where
  sc_len : ∀ s : F, (ScCodec.enc s).length = 32

theorem slice_here (a r : Bytes) (n : Nat) (h : a.length = n) : slice (a ++ r) 0 n = a := by
  simp [slice, ← h]

theorem slice_here' (a : Bytes) (n : Nat) (h : a.length = n) : slice a 0 n = a := by
  simp [slice, ← h]

theorem slice_skip (a r : Bytes) (k n m : Nat) (h : a.length = m) (hk : m ≤ k) :
    slice (a ++ r) k n = slice r (k - m) n := by
  unfold slice
  obtain ⟨j, rfl⟩ : ∃ j, k = m + j := ⟨k - m, by omega⟩
  subst h
  rw [List.drop_append]
  have : List.drop (List.length a + j) a = [] := List.drop_eq_nil_of_le (by omega)
  simp [this]

theorem natLE_leNat (n k : Nat) (h : n < 256 ^ k) : leNat (natLE n k) = n := by
  induction k generalizing n with
  | zero => simp [natLE, leNat] at *; omega
  | succ k ih =>
    simp only [natLE, leNat, List.foldr_cons]
    have h1 : (UInt8.ofNat (n % 256)).toNat = n % 256 := by simp [UInt8.toNat_ofNat']
    have h2 : n / 256 < 256 ^ k := by
      rw [Nat.div_lt_iff_lt_mul (by norm_num)]; rw [pow_succ] at h; exact h
    have := ih (n / 256) h2
    simp only [leNat] at this
    rw [h1, this]; omega

theorem natLE_leNat_inv (b : Bytes) : natLE (leNat b) b.length = b := by
  induction b with
  | nil => rfl
  | cons x xs ih =>
    simp only [leNat, List.foldr_cons, List.length_cons, natLE]
    have hx : x.toNat < 256 := x.toNat_lt
    have h1 : (x.toNat + 256 * List.foldr (fun x acc => x.toNat + 256 * acc) 0 xs) % 256 = x.toNat := by omega
    have h2 : (x.toNat + 256 * List.foldr (fun x acc => x.toNat + 256 * acc) 0 xs) / 256
        = List.foldr (fun x acc => x.toNat + 256 * acc) 0 xs := by omega
    rw [h1, h2]
    congr 1
    simp

theorem leNat_lt (b : Bytes) : leNat b < 256 ^ b.length := by
  induction b with
  | nil => simp [leNat]
  | cons x xs ih =>
    simp only [leNat, List.foldr_cons, List.length_cons, pow_succ] at *
    have hx : x.toNat < 256 := x.toNat_lt
    omega

end Zk

import ZkElGamal.Proofs.Slices
import Mathlib.Data.ZMod.Basic
import Mathlib.Algebra.Field.ZMod
import Mathlib.Tactic.NormNum.Prime
/-!
A toy lawful instantiation of the abstract interface: `F = ZMod 13`, `G = F × F` (an `F`-module with
two independent generators), 32-byte codecs, a trivial transcript. It shows that the class
assumptions under which the property theorems are proved (`Field`, `Module`, `LawfulPtCodec`,
`LawfulScCodec`, `LawfulLen`) are jointly satisfiable, and is used for the non-vacuity examples.
It has nothing to do with the concrete Ristretto instance of the driver.
-/
namespace Zk.Toy
open Zk

instance : Fact (Nat.Prime 13) := ⟨by norm_num⟩

abbrev TF := ZMod 13
abbrev TG := TF × TF

def scCanon (b : Bytes) : Option TF := if b.length = 32 ∧ leNat b < 13 then some (leNat b : TF) else none
def scEnc (s : TF) : Bytes := natLE s.val 32
def ptDec (b : Bytes) : Option TG :=
  if b.length = 32 ∧ leNat (b.take 16) < 13 ∧ leNat (b.drop 16) < 13
    then some ((leNat (b.take 16) : TF), (leNat (b.drop 16) : TF)) else none
def ptEnc (P : TG) : Bytes := natLE P.1.val 16 ++ natLE P.2.val 16

instance : ScCodec TF where
  canon := scCanon
  wide b := (leNat b : TF)
  enc := scEnc
  ofNat n := (n : TF)

instance : PtCodec TG where
  dec := ptDec
  enc := ptEnc

instance : PedGens TG := ⟨(1, 0), (0, 1)⟩

/-- the theorems compare points through `DecidableEq`; make plain elaboration pick the same `BEq` -/
instance (priority := high) toyBEq : BEq TG := instBEqOfDecidableEq

/-- transcript: the bytes absorbed so far; challenges are a fixed function of them -/
instance : TranscriptOps Bytes where
  init l := l
  append t l m := t ++ l ++ m
  challenge t l n := (List.replicate n (UInt8.ofNat (leNat (t ++ l) % 251 + 1)), t ++ l)

theorem val_lt_pow (s : TF) (k : ℕ) (hk : 1 ≤ k) : s.val < 256 ^ k := by
  have := ZMod.val_lt s
  calc s.val < 13 := this
    _ ≤ 256 ^ 1 := by norm_num
    _ ≤ 256 ^ k := Nat.pow_le_pow_right (by norm_num) hk

instance : LawfulScCodec TF where
  canon_enc s := by
    show scCanon (scEnc s) = some s
    unfold scCanon scEnc
    rw [natLE_leNat _ _ (val_lt_pow s 32 (by norm_num))]
    rw [if_pos ⟨natLE_length _ _, ZMod.val_lt s⟩, ZMod.natCast_zmod_val]
  enc_canon b s h := by
    change scCanon b = some s at h
    unfold scCanon at h
    split at h
    · rename_i hc
      obtain ⟨hl, hlt⟩ := hc
      have : s = (leNat b : TF) := (Option.some.inj h).symm
      subst this
      show scEnc (leNat b : TF) = b
      unfold scEnc
      rw [ZMod.val_natCast_of_lt hlt, ← hl, natLE_leNat_inv]
    · cases h
  ofNat_cast n := rfl

theorem take_drop_16 (b : Bytes) (h : b.length = 32) : (b.take 16).length = 16 ∧ (b.drop 16).length = 16 := by
  simp [h]

instance : LawfulPtCodec TG where
  dec_enc P := by
    have l1 : (natLE P.1.val 16).length = 16 := natLE_length _ _
    show ptDec (ptEnc P) = some P
    unfold ptDec ptEnc
    rw [List.take_left' l1, List.drop_left' l1, natLE_leNat _ _ (val_lt_pow P.1 16 (by norm_num)),
      natLE_leNat _ _ (val_lt_pow P.2 16 (by norm_num))]
    rw [if_pos ⟨by simp, ZMod.val_lt _, ZMod.val_lt _⟩, ZMod.natCast_zmod_val, ZMod.natCast_zmod_val]
  enc_dec b P h := by
    change ptDec b = some P at h
    unfold ptDec at h
    split at h
    · rename_i hc
      obtain ⟨hl, h1, h2⟩ := hc
      have : P = ((leNat (b.take 16) : TF), (leNat (b.drop 16) : TF)) := (Option.some.inj h).symm
      subst this
      show ptEnc ((leNat (b.take 16) : TF), (leNat (b.drop 16) : TF)) = b
      unfold ptEnc
      simp only
      rw [ZMod.val_natCast_of_lt h1, ZMod.val_natCast_of_lt h2]
      have e1 := natLE_leNat_inv (b.take 16)
      have e2 := natLE_leNat_inv (b.drop 16)
      rw [(take_drop_16 b hl).1] at e1
      rw [(take_drop_16 b hl).2] at e2
      rw [e1, e2, List.take_append_drop]
    · cases h
  enc_zero := by decide

instance : LawfulLen TF TG where
  pt_len P := by show (ptEnc P).length = 32; simp [ptEnc]
  sc_len s := natLE_length _ _

instance : PtLen TG := ⟨LawfulLen.pt_len (F := TF)⟩
instance : ScLen TF := ⟨LawfulLen.sc_len (G := TG)⟩

end Zk.Toy

import ZkElGamal.Proofs.SigmaC01
import ZkElGamal.Proofs.Batch
/-!
# C01 — zero-ciphertext, pubkey-validity, ct–ct and ct–commitment equality: accept iff protocol

For each of the four instructions, over the abstract instantiation
(`F` a field of scalars, `G` an `F`-module of points, lawful 32-byte codecs):

* `X.verify_ok_iff` — verification of a byte string succeeds **iff** it parses (exact length,
  every point decodes, every scalar canonical), the identity policy holds and the batched
  combination `Σ wⁱ • Eᵢ` of the textbook equations vanishes under the challenges recomputed
  from those bytes.
* `X.batched_sound` — if a single equation fails, or several fail in any (cancelling) way,
  the folded check can only vanish for at most `k-1` values of the batching weight `w`
  (`k` = number of equations); `w` is squeezed *after* all residuals are fixed.
* `X.extract` — special soundness: two accepting transcripts with the same statement and
  masking commitments but different challenges yield a witness, i.e. the statement is true.
* `X.residual` — offsetting the masking commitments of a proof by `oᵢ` shifts the residuals by
  `-oᵢ` (the adversarial family `{-1,0,1}^k·R` of the property is rejected unless `w` is a root).
-/
set_option linter.unusedSectionVars false
namespace Zk.Props.C01
open Zk Zk.Sigma

variable {F G T : Type} [Field F] [DecidableEq F] [AddCommGroup G] [Module F G] [DecidableEq G]
  [PtCodec G] [ScCodec F] [PedGens G] [TranscriptOps T] [LawfulPtCodec G]

local notation "Gp" => (PedGens.G : G)
local notation "Hp" => (PedGens.H : G)

/-- divide a linear relation by a non-zero scalar -/
theorem div_out {A B : G} {a b : F} (hb : b ≠ 0) (h : a • A = b • B) : (a / b) • A = B := by
  rw [div_eq_inv_mul, ← smul_smul, h, smul_smul, inv_mul_cancel₀ hb, one_smul]

/-! ## zero-ciphertext -/
namespace ZeroCt
open Sigma.ZeroCt

theorem verify_ok_iff (b : Bytes) :
    verifyProof F G T b = true ↔
      ∃ p : Parsed F G, parse b = some p ∧
        p.P ≠ 0 ∧ p.ct.C ≠ 0 ∧ p.ct.D ≠ 0 ∧ p.YP ≠ 0 ∧
        (let cw := challenges T p.P p.ct p.ypB p.ydB p.z
         E0 p cw.1 + cw.2 • E1 p cw.1 = 0) := by
  unfold verifyProof
  cases h : parse (Sc := F) (Pt := G) b with
  | none => simp
  | some p =>
    simp only [check, Bool.and_eq_true, beq_iff_eq, Option.some.injEq, exists_eq_left']
    rw [policy_iff b p h, equation_eq]
    tauto

/-- what "parses" means: exact length, decodable points, canonical scalar -/
theorem parse_spec (b : Bytes) (p : Parsed F G) :
    parse b = some p ↔
      b.length = 192 ∧ ptAt b 0 = some p.P ∧ ptAt b 32 = some p.ct.C ∧ ptAt b 64 = some p.ct.D ∧
      ptAt b 96 = some p.YP ∧ ptAt b 128 = some p.YD ∧ scAt b 160 = some p.z ∧
      p.ypB = slice b 96 32 ∧ p.ydB = slice b 128 32 := parse_some_iff b p

/-- all equations hold ⇒ the batched check holds, for every weight -/
theorem batched_complete (p : Parsed F G) (c w : F) (h0 : E0 p c = 0) (h1 : E1 p c = 0) :
    E0 p c + w • E1 p c = 0 := by rw [h0, h1]; simp

/-- some equation fails ⇒ at most one weight lets the batched check pass -/
theorem batched_sound (p : Parsed F G) (c : F) (h : E0 p c ≠ 0 ∨ E1 p c ≠ 0) :
    ∃ S : Finset F, S.card ≤ 1 ∧ ∀ w : F, E0 p c + w • E1 p c = 0 → w ∈ S :=
  batch2 _ _ h

/-- special soundness: the secret key is known and the ciphertext encrypts zero -/
theorem extract (p p' : Parsed F G) (c c' : F) (hc : c ≠ c')
    (hP : p'.P = p.P) (hct : p'.ct = p.ct) (hYP : p'.YP = p.YP) (hYD : p'.YD = p.YD)
    (e0 : E0 p c = 0) (e1 : E1 p c = 0) (e0' : E0 p' c' = 0) (e1' : E1 p' c' = 0) :
    ∃ s : F, s • p.P = Hp ∧ p.ct.C = s • p.ct.D := by
  have hne : c - c' ≠ 0 := sub_ne_zero.mpr hc
  simp only [E0, E1, hP, hct, hYP, hYD] at e0 e1 e0' e1'
  refine ⟨(p.z - p'.z) / (c - c'), ?_, ?_⟩
  · apply div_out hne; linear_combination (norm := module) e0 - e0'
  · symm; apply div_out hne; linear_combination (norm := module) e1 - e1'

/-- hence decryption under the extracted key gives the identity (plaintext zero) -/
theorem extract_plaintext_zero (p : Parsed F G) (s : F) (h : p.ct.C = s • p.ct.D) :
    decryptTarget s p.ct = 0 := by simp [decryptTarget, h]

/-- residuals of a proof whose masking commitments are offset by `o0, o1` -/
theorem residual (p : Parsed F G) (c : F) (o0 o1 : G) :
    E0 { p with YP := p.YP + o0 } c = E0 p c - o0 ∧
    E1 { p with YD := p.YD + o1 } c = E1 p c - o1 := by
  constructor <;> (simp only [E0, E1]; module)

/-- the code does not refuse an identity `Y_D` explicitly; with a true statement and both
    equations holding, `Y_D = 0` forces `Y_P = 0`, which *is* refused -/
theorem identity_YD (p : Parsed F G) (c s : F) (hs : s • p.P = Hp) (hC : p.ct.C = s • p.ct.D)
    (hD : p.ct.D ≠ 0) (e0 : E0 p c = 0) (e1 : E1 p c = 0) (hYD : p.YD = 0) : p.YP = 0 := by
  simp only [E0, E1, hYD, hC, sub_zero] at e0 e1
  have h1 : (p.z - c * s) • p.ct.D = 0 := by linear_combination (norm := module) e1
  have hz : p.z - c * s = 0 := by
    rcases smul_eq_zero.mp h1 with h | h
    · exact h
    · exact absurd h hD
  have : p.YP = (p.z - c * s) • p.P := by
    rw [← hs] at e0; linear_combination (norm := module) -e0
  rw [this, hz, zero_smul]

end ZeroCt

/-! ## public-key validity -/
namespace PubkeyValidity
open Sigma.PubkeyValidity

theorem verify_ok_iff (b : Bytes) :
    verifyProof F G T b = true ↔
      ∃ p : Parsed F G, parse b = some p ∧ p.P ≠ 0 ∧ p.Y ≠ 0 ∧
        E0 p (challenge F T p.P p.yB) = 0 := by
  unfold verifyProof
  cases h : parse (Sc := F) (Pt := G) b with
  | none => simp
  | some p =>
    simp only [check, Bool.and_eq_true, beq_iff_eq, Option.some.injEq, exists_eq_left']
    rw [policy_iff b p h, equation_eq]
    tauto

theorem parse_spec (b : Bytes) (p : Parsed F G) :
    parse b = some p ↔
      b.length = 96 ∧ ptAt b 0 = some p.P ∧ ptAt b 32 = some p.Y ∧ scAt b 64 = some p.z ∧
      p.yB = slice b 32 32 := parse_some_iff b p

/-- special soundness: a scalar `w` with `P = w•H` (for `P ≠ 0`, `w ≠ 0` and the secret key is `w⁻¹`) -/
theorem extract (p p' : Parsed F G) (c c' : F) (hc : c ≠ c')
    (hP : p'.P = p.P) (hY : p'.Y = p.Y) (e0 : E0 p c = 0) (e0' : E0 p' c' = 0) :
    ∃ w : F, p.P = w • Hp := by
  have hne : c - c' ≠ 0 := sub_ne_zero.mpr hc
  simp only [E0, hP, hY] at e0 e0'
  refine ⟨(p.z - p'.z) / (c - c'), ?_⟩
  symm; apply div_out hne; linear_combination (norm := module) e0 - e0'

theorem extract_secret (p : Parsed F G) (w : F) (hP : p.P ≠ 0) (h : p.P = w • Hp) :
    w ≠ 0 ∧ w⁻¹ • p.P = Hp := by
  have hw : w ≠ 0 := by
    intro h0; rw [h0, zero_smul] at h; exact hP h
  exact ⟨hw, by rw [h, smul_smul, inv_mul_cancel₀ hw, one_smul]⟩

theorem residual (p : Parsed F G) (c : F) (o : G) :
    E0 { p with Y := p.Y + o } c = E0 p c - o := by
  simp only [E0]; module

end PubkeyValidity

/-! ## ciphertext–ciphertext equality -/
namespace CtCtEq
open Sigma.CtCtEq

theorem verify_ok_iff (b : Bytes) :
    verifyProof F G T b = true ↔
      ∃ p : Parsed F G, parse b = some p ∧
        p.P1 ≠ 0 ∧ p.P2 ≠ 0 ∧ p.ct1.C ≠ 0 ∧ p.ct1.D ≠ 0 ∧
        p.Y0 ≠ 0 ∧ p.Y1 ≠ 0 ∧ p.Y2 ≠ 0 ∧ p.Y3 ≠ 0 ∧
        (let cw := challenges T p.P1 p.P2 p.ct1 p.ct2 p.y0B p.y1B p.y2B p.y3B p.zs p.zx p.zr
         E0 p cw.1 + cw.2 • E1 p cw.1 + (cw.2 * cw.2) • E2 p cw.1
           + (cw.2 * (cw.2 * cw.2)) • E3 p cw.1 = 0) := by
  unfold verifyProof
  cases h : parse (Sc := F) (Pt := G) b with
  | none => simp
  | some p =>
    simp only [check, Bool.and_eq_true, beq_iff_eq, Option.some.injEq, exists_eq_left']
    rw [policy_iff b p h, equation_eq]
    tauto

theorem parse_spec (b : Bytes) (p : Parsed F G) :
    parse b = some p ↔
      b.length = 416 ∧ ptAt b 0 = some p.P1 ∧ ptAt b 32 = some p.P2 ∧
      ptAt b 64 = some p.ct1.C ∧ ptAt b 96 = some p.ct1.D ∧
      ptAt b 128 = some p.ct2.C ∧ ptAt b 160 = some p.ct2.D ∧
      ptAt b 192 = some p.Y0 ∧ ptAt b 224 = some p.Y1 ∧ ptAt b 256 = some p.Y2 ∧ ptAt b 288 = some p.Y3 ∧
      scAt b 320 = some p.zs ∧ scAt b 352 = some p.zx ∧ scAt b 384 = some p.zr ∧
      p.y0B = slice b 192 32 ∧ p.y1B = slice b 224 32 ∧ p.y2B = slice b 256 32 ∧ p.y3B = slice b 288 32 :=
  parse_some_iff b p

/-- the second ciphertext is the only statement component that may be the identity:
    nothing in the accept condition mentions `ct2 ≠ 0` -/
theorem batched_sound (p : Parsed F G) (c : F)
    (h : E0 p c ≠ 0 ∨ E1 p c ≠ 0 ∨ E2 p c ≠ 0 ∨ E3 p c ≠ 0) :
    ∃ S : Finset F, S.card ≤ 3 ∧
      ∀ w : F, E0 p c + w • E1 p c + (w * w) • E2 p c + (w * (w * w)) • E3 p c = 0 → w ∈ S :=
  batch4 _ _ _ _ h

theorem batched_complete (p : Parsed F G) (c w : F)
    (h0 : E0 p c = 0) (h1 : E1 p c = 0) (h2 : E2 p c = 0) (h3 : E3 p c = 0) :
    E0 p c + w • E1 p c + (w * w) • E2 p c + (w * (w * w)) • E3 p c = 0 := by
  rw [h0, h1, h2, h3]; simp

/-- special soundness: the first ciphertext decrypts (under a known key) to the amount the
    second one opens to under `P2` -/
theorem extract (p p' : Parsed F G) (c c' : F) (hc : c ≠ c')
    (h1 : p'.P1 = p.P1) (h2 : p'.P2 = p.P2) (hc1 : p'.ct1 = p.ct1) (hc2 : p'.ct2 = p.ct2)
    (hY0 : p'.Y0 = p.Y0) (hY1 : p'.Y1 = p.Y1) (hY2 : p'.Y2 = p.Y2) (hY3 : p'.Y3 = p.Y3)
    (e0 : E0 p c = 0) (e1 : E1 p c = 0) (e2 : E2 p c = 0) (e3 : E3 p c = 0)
    (e0' : E0 p' c' = 0) (e1' : E1 p' c' = 0) (e2' : E2 p' c' = 0) (e3' : E3 p' c' = 0) :
    ∃ s x r : F, s • p.P1 = Hp ∧ p.ct1.C = x • Gp + s • p.ct1.D ∧
      p.ct2.C = x • Gp + r • Hp ∧ p.ct2.D = r • p.P2 := by
  have hne : c - c' ≠ 0 := sub_ne_zero.mpr hc
  simp only [E0, E1, E2, E3, h1, h2, hc1, hc2, hY0, hY1, hY2, hY3] at e0 e1 e2 e3 e0' e1' e2' e3'
  refine ⟨(p.zs - p'.zs) / (c - c'), (p.zx - p'.zx) / (c - c'), (p.zr - p'.zr) / (c - c'), ?_, ?_, ?_, ?_⟩
  · apply div_out hne; linear_combination (norm := module) e0 - e0'
  · have h : (c - c') • p.ct1.C = (p.zx - p'.zx) • Gp + (p.zs - p'.zs) • p.ct1.D := by
      linear_combination (norm := module) e1' - e1
    have := congrArg (fun v => (c - c')⁻¹ • v) h
    simp only [smul_smul, inv_mul_cancel₀ hne, one_smul, smul_add] at this
    rw [this]; simp only [div_eq_inv_mul]
  · have h : (c - c') • p.ct2.C = (p.zx - p'.zx) • Gp + (p.zr - p'.zr) • Hp := by
      linear_combination (norm := module) e2' - e2
    have := congrArg (fun v => (c - c')⁻¹ • v) h
    simp only [smul_smul, inv_mul_cancel₀ hne, one_smul, smul_add] at this
    rw [this]; simp only [div_eq_inv_mul]
  · symm; apply div_out hne; linear_combination (norm := module) e3 - e3'

/-- so both ciphertexts carry the same plaintext `x•G` -/
theorem extract_equal_plaintexts (p : Parsed F G) (s x r : F)
    (hC1 : p.ct1.C = x • Gp + s • p.ct1.D) (hC2 : p.ct2.C = x • Gp + r • Hp) :
    decryptTarget s p.ct1 = x • Gp ∧ p.ct2.C - r • Hp = x • Gp := by
  constructor
  · simp only [decryptTarget, hC1]; module
  · rw [hC2]; module

theorem residual (p : Parsed F G) (c : F) (o0 o1 o2 o3 : G) :
    E0 { p with Y0 := p.Y0 + o0 } c = E0 p c - o0 ∧ E1 { p with Y1 := p.Y1 + o1 } c = E1 p c - o1 ∧
    E2 { p with Y2 := p.Y2 + o2 } c = E2 p c - o2 ∧ E3 { p with Y3 := p.Y3 + o3 } c = E3 p c - o3 := by
  refine ⟨?_, ?_, ?_, ?_⟩ <;> (simp only [E0, E1, E2, E3]; module)

end CtCtEq

/-! ## ciphertext–commitment equality -/
namespace CtCmtEq
open Sigma.CtCmtEq

theorem verify_ok_iff (b : Bytes) :
    verifyProof F G T b = true ↔
      ∃ p : Parsed F G, parse b = some p ∧
        p.P ≠ 0 ∧ p.ct.C ≠ 0 ∧ p.ct.D ≠ 0 ∧ p.Cm ≠ 0 ∧ p.Y0 ≠ 0 ∧ p.Y1 ≠ 0 ∧ p.Y2 ≠ 0 ∧
        (let cw := challenges T p.P p.ct p.Cm p.y0B p.y1B p.y2B p.zs p.zx p.zr
         E0 p cw.1 + cw.2 • E1 p cw.1 + (cw.2 * cw.2) • E2 p cw.1 = 0) := by
  unfold verifyProof
  cases h : parse (Sc := F) (Pt := G) b with
  | none => simp
  | some p =>
    simp only [check, Bool.and_eq_true, beq_iff_eq, Option.some.injEq, exists_eq_left']
    rw [policy_iff b p h, equation_eq]
    tauto

theorem parse_spec (b : Bytes) (p : Parsed F G) :
    parse b = some p ↔
      b.length = 320 ∧ ptAt b 0 = some p.P ∧ ptAt b 32 = some p.ct.C ∧ ptAt b 64 = some p.ct.D ∧
      ptAt b 96 = some p.Cm ∧
      ptAt b 128 = some p.Y0 ∧ ptAt b 160 = some p.Y1 ∧ ptAt b 192 = some p.Y2 ∧
      scAt b 224 = some p.zs ∧ scAt b 256 = some p.zx ∧ scAt b 288 = some p.zr ∧
      p.y0B = slice b 128 32 ∧ p.y1B = slice b 160 32 ∧ p.y2B = slice b 192 32 := parse_some_iff b p

theorem batched_sound (p : Parsed F G) (c : F) (h : E0 p c ≠ 0 ∨ E1 p c ≠ 0 ∨ E2 p c ≠ 0) :
    ∃ S : Finset F, S.card ≤ 2 ∧
      ∀ w : F, E0 p c + w • E1 p c + (w * w) • E2 p c = 0 → w ∈ S :=
  batch3 _ _ _ h

theorem batched_complete (p : Parsed F G) (c w : F)
    (h0 : E0 p c = 0) (h1 : E1 p c = 0) (h2 : E2 p c = 0) :
    E0 p c + w • E1 p c + (w * w) • E2 p c = 0 := by
  rw [h0, h1, h2]; simp

theorem extract (p p' : Parsed F G) (c c' : F) (hc : c ≠ c')
    (h1 : p'.P = p.P) (hct : p'.ct = p.ct) (hCm : p'.Cm = p.Cm)
    (hY0 : p'.Y0 = p.Y0) (hY1 : p'.Y1 = p.Y1) (hY2 : p'.Y2 = p.Y2)
    (e0 : E0 p c = 0) (e1 : E1 p c = 0) (e2 : E2 p c = 0)
    (e0' : E0 p' c' = 0) (e1' : E1 p' c' = 0) (e2' : E2 p' c' = 0) :
    ∃ s x r : F, s • p.P = Hp ∧ p.ct.C = x • Gp + s • p.ct.D ∧ p.Cm = x • Gp + r • Hp := by
  have hne : c - c' ≠ 0 := sub_ne_zero.mpr hc
  simp only [E0, E1, E2, h1, hct, hCm, hY0, hY1, hY2] at e0 e1 e2 e0' e1' e2'
  refine ⟨(p.zs - p'.zs) / (c - c'), (p.zx - p'.zx) / (c - c'), (p.zr - p'.zr) / (c - c'), ?_, ?_, ?_⟩
  · apply div_out hne; linear_combination (norm := module) e0 - e0'
  · have h : (c - c') • p.ct.C = (p.zx - p'.zx) • Gp + (p.zs - p'.zs) • p.ct.D := by
      linear_combination (norm := module) e1' - e1
    have := congrArg (fun v => (c - c')⁻¹ • v) h
    simp only [smul_smul, inv_mul_cancel₀ hne, one_smul, smul_add] at this
    rw [this]; simp only [div_eq_inv_mul]
  · have h : (c - c') • p.Cm = (p.zx - p'.zx) • Gp + (p.zr - p'.zr) • Hp := by
      linear_combination (norm := module) e2' - e2
    have := congrArg (fun v => (c - c')⁻¹ • v) h
    simp only [smul_smul, inv_mul_cancel₀ hne, one_smul, smul_add] at this
    rw [this]; simp only [div_eq_inv_mul]

theorem residual (p : Parsed F G) (c : F) (o0 o1 o2 : G) :
    E0 { p with Y0 := p.Y0 + o0 } c = E0 p c - o0 ∧ E1 { p with Y1 := p.Y1 + o1 } c = E1 p c - o1 ∧
    E2 { p with Y2 := p.Y2 + o2 } c = E2 p c - o2 := by
  refine ⟨?_, ?_, ?_⟩ <;> (simp only [E0, E1, E2]; module)

end CtCmtEq

end Zk.Props.C01

import ZkElGamal.Proofs.SigmaC02b
import ZkElGamal.Proofs.Batch
/-!
# C02 — grouped-ciphertext validity proofs (2/3 handles, plain and batched): accept iff protocol

`Fields2/Fields3/BFields2/BFields3` are the explicit field records of the four
instruction layouts (`decodes b` = exact length, every point decodes, both scalars canonical).

* `verify{2,3}_ok_iff`, `bverify{2,3}_ok_iff` — verification succeeds **iff** the bytes decode,
  the commitment(s) and every key except the last (auditor) key are not the identity, every
  masking commitment except the last handle's is not the identity, and the batched combination
  of the commitment equation `E0` and one handle equation `Eh` per handle vanishes under the
  recomputed challenges; for the batched variants on `lo + t•hi` with `t` derived from both.
* `batched_sound{2,3}` — a failing equation (any handle position, any cancellation pattern)
  survives for at most `k-1` weights.
* `extract{2,3}` — special soundness: `∃ x r, C = x•G + r•H ∧ ∀ i, Dᵢ = r•Pᵢ`: *every* handle
  is formed from the committed opening under its key.
* `batched_extract` — from valid openings of `lo + t•hi` for two different `t`, both `lo` and
  `hi` are well formed: a defect in `lo` cannot be cancelled by `hi` except at one `t`.
-/
set_option linter.unusedSectionVars false
namespace Zk.Props.C02
open Zk Zk.Sigma Zk.Sigma.Validity

variable {F G T : Type} [Field F] [DecidableEq F] [AddCommGroup G] [Module F G] [DecidableEq G]
  [PtCodec G] [ScCodec F] [PedGens G] [TranscriptOps T] [LawfulPtCodec G]

local notation "Gp" => (PedGens.G : G)
local notation "Hp" => (PedGens.H : G)

theorem div_out {A B : G} {a b : F} (hb : b ≠ 0) (h : a • A = b • B) : (a / b) • A = B := by
  rw [div_eq_inv_mul, ← smul_smul, h, smul_smul, inv_mul_cancel₀ hb, one_smul]

/-! ## plain, 2 handles -/

theorem verify2_ok_iff (b : Bytes) :
    Validity.verifyProof F G T 2 b = true ↔
      ∃ f : Fields2 F G, f.decodes b ∧ f.P1 ≠ 0 ∧ f.C ≠ 0 ∧ f.Y0 ≠ 0 ∧ f.Y1 ≠ 0 ∧
        (let p := f.parsed b
         let cw := challengesDirect 2 (Validity.transcript0 T 2 p.Ps p.g) p.pf
         E0 f.C f.Y0 f.zr f.zx cw.1 + cw.2 • Eh f.P1 f.D1 f.Y1 f.zr cw.1
           + (cw.2 * cw.2) • Eh f.P2 f.D2 f.Y2 f.zr cw.1 = 0) := by
  unfold Validity.verifyProof
  cases h : Validity.parse (Sc := F) (Pt := G) 2 b with
  | none =>
    simp only [Bool.false_eq_true, false_iff, not_exists]
    intro f hf
    have := (parse2_iff b (f.parsed b)).mpr ⟨f, hf.1, rfl⟩
    rw [h] at this; cases this
  | some p =>
    obtain ⟨f, hd, rfl⟩ := (parse2_iff b p).mp h
    have hd' := hd
    obtain ⟨_, h1, h2, h3, h4, h5, h6, h7, h8, h9, h10⟩ := hd'
    have z0 := not_isZeroEnc_iff' (b := slice b 160 32) (P := f.Y0) h6
    have z1 := not_isZeroEnc_iff' (b := slice b 192 32) (P := f.Y1) h7
    have key : Validity.check T 2 (f.parsed b) = true ↔
        (f.P1 ≠ 0 ∧ f.C ≠ 0) ∧ (f.Y0 ≠ 0 ∧ f.Y1 ≠ 0) ∧
        (let p := f.parsed b
         let cw := challengesDirect 2 (Validity.transcript0 T 2 p.Ps p.g) p.pf
         E0 f.C f.Y0 f.zr f.zx cw.1 + cw.2 • Eh f.P1 f.D1 f.Y1 f.zr cw.1
           + (cw.2 * cw.2) • Eh f.P2 f.D2 f.Y2 f.zr cw.1 = 0) := by
      simp only [Validity.check, Fields2.parsed, stmtPolicy, verifyDirect, yPolicy, Bool.and_eq_true,
        List.all_cons, List.all_nil, Bool.and_true, List.take, beq_iff_eq, equation2_eq,
        show List.range 2 = [0, 1] by rfl, List.getD_cons_zero, List.getD_cons_succ, z0, z1,
        Bool.not_eq_true', beq_eq_false_iff_ne, ne_eq, show 2 - 1 = 1 by rfl]
    rw [key]
    constructor
    · rintro ⟨⟨hP, hC⟩, ⟨hy0, hy1⟩, he⟩
      exact ⟨f, hd, hP, hC, hy0, hy1, he⟩
    · rintro ⟨f', hd2, hP, hC, hy0, hy1, he⟩
      have hf := Fields2.ext_of_decodes f f' b hd hd2
      subst hf
      exact ⟨⟨hP, hC⟩, ⟨hy0, hy1⟩, he⟩

/-! ## plain, 3 handles -/

theorem verify3_ok_iff (b : Bytes) :
    Validity.verifyProof F G T 3 b = true ↔
      ∃ f : Fields3 F G, f.decodes b ∧ f.P1 ≠ 0 ∧ f.P2 ≠ 0 ∧ f.C ≠ 0 ∧ f.Y0 ≠ 0 ∧ f.Y1 ≠ 0 ∧ f.Y2 ≠ 0 ∧
        (let p := f.parsed b
         let cw := challengesDirect 3 (Validity.transcript0 T 3 p.Ps p.g) p.pf
         E0 f.C f.Y0 f.zr f.zx cw.1 + cw.2 • Eh f.P1 f.D1 f.Y1 f.zr cw.1
           + (cw.2 * cw.2) • Eh f.P2 f.D2 f.Y2 f.zr cw.1
           + (cw.2 * (cw.2 * cw.2)) • Eh f.P3 f.D3 f.Y3 f.zr cw.1 = 0) := by
  unfold Validity.verifyProof
  cases h : Validity.parse (Sc := F) (Pt := G) 3 b with
  | none =>
    simp only [Bool.false_eq_true, false_iff, not_exists]
    intro f hf
    have := (parse3_iff b (f.parsed b)).mpr ⟨f, hf.1, rfl⟩
    rw [h] at this; cases this
  | some p =>
    obtain ⟨f, hd, rfl⟩ := (parse3_iff b p).mp h
    have hd' := hd
    obtain ⟨_, h1, h2, h3, h4, h5, h6, h7, h8, h9, h10, h11, h12, h13⟩ := hd'
    have z0 := not_isZeroEnc_iff' (b := slice b 224 32) (P := f.Y0) h8
    have z1 := not_isZeroEnc_iff' (b := slice b 256 32) (P := f.Y1) h9
    have z2 := not_isZeroEnc_iff' (b := slice b 288 32) (P := f.Y2) h10
    have key : Validity.check T 3 (f.parsed b) = true ↔
        (f.P1 ≠ 0 ∧ f.P2 ≠ 0 ∧ f.C ≠ 0) ∧ (f.Y0 ≠ 0 ∧ f.Y1 ≠ 0 ∧ f.Y2 ≠ 0) ∧
        (let p := f.parsed b
         let cw := challengesDirect 3 (Validity.transcript0 T 3 p.Ps p.g) p.pf
         E0 f.C f.Y0 f.zr f.zx cw.1 + cw.2 • Eh f.P1 f.D1 f.Y1 f.zr cw.1
           + (cw.2 * cw.2) • Eh f.P2 f.D2 f.Y2 f.zr cw.1
           + (cw.2 * (cw.2 * cw.2)) • Eh f.P3 f.D3 f.Y3 f.zr cw.1 = 0) := by
      simp only [Validity.check, Fields3.parsed, stmtPolicy, verifyDirect, yPolicy, Bool.and_eq_true,
        List.all_cons, List.all_nil, Bool.and_true, List.take, beq_iff_eq, equation3_eq,
        show List.range 3 = [0, 1, 2] by rfl, List.getD_cons_zero, List.getD_cons_succ, z0, z1, z2,
        Bool.not_eq_true', beq_eq_false_iff_ne, ne_eq, show 3 - 1 = 2 by rfl]
      tauto
    rw [key]
    constructor
    · rintro ⟨⟨hP1, hP2, hC⟩, ⟨hy0, hy1, hy2⟩, he⟩
      exact ⟨f, hd, hP1, hP2, hC, hy0, hy1, hy2, he⟩
    · rintro ⟨f', hd2, hP1, hP2, hC, hy0, hy1, hy2, he⟩
      have hf := Fields3.ext_of_decodes f f' b hd hd2
      subst hf
      exact ⟨⟨hP1, hP2, hC⟩, ⟨hy0, hy1, hy2⟩, he⟩

/-! ## batched, 2 handles -/

theorem bverify2_ok_iff (b : Bytes) :
    BatchedValidity.verifyProof F G T 2 b = true ↔
      ∃ f : BFields2 F G, f.decodes b ∧ f.P1 ≠ 0 ∧ f.Cl ≠ 0 ∧ f.Ch ≠ 0 ∧ f.Y0 ≠ 0 ∧ f.Y1 ≠ 0 ∧
        (let p := f.parsed b
         let tt := BatchedValidity.challengeT (Sc := F) T 2 p.Ps p.lo p.hi
         let t := tt.1
         let cw := challengesDirect 2 tt.2 p.pf
         E0 (f.Cl + t • f.Ch) f.Y0 f.zr f.zx cw.1
           + cw.2 • Eh f.P1 (f.D1l + t • f.D1h) f.Y1 f.zr cw.1
           + (cw.2 * cw.2) • Eh f.P2 (f.D2l + t • f.D2h) f.Y2 f.zr cw.1 = 0) := by
  unfold BatchedValidity.verifyProof
  cases h : BatchedValidity.parse (Sc := F) (Pt := G) 2 b with
  | none =>
    simp only [Bool.false_eq_true, false_iff, not_exists]
    intro f hf
    have := (bparse2_iff b (f.parsed b)).mpr ⟨f, hf.1, rfl⟩
    rw [h] at this; cases this
  | some p =>
    obtain ⟨f, hd, rfl⟩ := (bparse2_iff b p).mp h
    have hd' := hd
    obtain ⟨_, h1, h2, h3, h4, h5, h6, h7, h8, h9, h10, h11, h12, h13⟩ := hd'
    have z0 := not_isZeroEnc_iff' (b := slice b 256 32) (P := f.Y0) h9
    have z1 := not_isZeroEnc_iff' (b := slice b 288 32) (P := f.Y1) h10
    have key : BatchedValidity.check T 2 (f.parsed b) = true ↔
        (f.P1 ≠ 0 ∧ f.Cl ≠ 0 ∧ f.Ch ≠ 0) ∧ (f.Y0 ≠ 0 ∧ f.Y1 ≠ 0) ∧
        (let p := f.parsed b
         let tt := BatchedValidity.challengeT (Sc := F) T 2 p.Ps p.lo p.hi
         let t := tt.1
         let cw := challengesDirect 2 tt.2 p.pf
         E0 (f.Cl + t • f.Ch) f.Y0 f.zr f.zx cw.1
           + cw.2 • Eh f.P1 (f.D1l + t • f.D1h) f.Y1 f.zr cw.1
           + (cw.2 * cw.2) • Eh f.P2 (f.D2l + t • f.D2h) f.Y2 f.zr cw.1 = 0) := by
      simp only [BatchedValidity.check, BFields2.parsed, stmtPolicy, verifyDirect, yPolicy, Bool.and_eq_true,
        List.all_cons, List.all_nil, Bool.and_true, List.take, beq_iff_eq, BatchedValidity.combine,
        List.zipWith_cons_cons, List.zipWith_nil_right, equation2_eq,
        show List.range 2 = [0, 1] by rfl, List.getD_cons_zero, List.getD_cons_succ, z0, z1,
        Bool.not_eq_true', beq_eq_false_iff_ne, ne_eq, show 2 - 1 = 1 by rfl]
    rw [key]
    constructor
    · rintro ⟨⟨hP, hCl, hCh⟩, ⟨hy0, hy1⟩, he⟩
      exact ⟨f, hd, hP, hCl, hCh, hy0, hy1, he⟩
    · rintro ⟨f', hd2, hP, hCl, hCh, hy0, hy1, he⟩
      have hf := BFields2.ext_of_decodes f f' b hd hd2
      subst hf
      exact ⟨⟨hP, hCl, hCh⟩, ⟨hy0, hy1⟩, he⟩

/-! ## batched, 3 handles -/

theorem bverify3_ok_iff (b : Bytes) :
    BatchedValidity.verifyProof F G T 3 b = true ↔
      ∃ f : BFields3 F G, f.decodes b ∧ f.P1 ≠ 0 ∧ f.P2 ≠ 0 ∧ f.Cl ≠ 0 ∧ f.Ch ≠ 0 ∧
        f.Y0 ≠ 0 ∧ f.Y1 ≠ 0 ∧ f.Y2 ≠ 0 ∧
        (let p := f.parsed b
         let tt := BatchedValidity.challengeT (Sc := F) T 3 p.Ps p.lo p.hi
         let t := tt.1
         let cw := challengesDirect 3 tt.2 p.pf
         E0 (f.Cl + t • f.Ch) f.Y0 f.zr f.zx cw.1
           + cw.2 • Eh f.P1 (f.D1l + t • f.D1h) f.Y1 f.zr cw.1
           + (cw.2 * cw.2) • Eh f.P2 (f.D2l + t • f.D2h) f.Y2 f.zr cw.1
           + (cw.2 * (cw.2 * cw.2)) • Eh f.P3 (f.D3l + t • f.D3h) f.Y3 f.zr cw.1 = 0) := by
  unfold BatchedValidity.verifyProof
  cases h : BatchedValidity.parse (Sc := F) (Pt := G) 3 b with
  | none =>
    simp only [Bool.false_eq_true, false_iff, not_exists]
    intro f hf
    have := (bparse3_iff b (f.parsed b)).mpr ⟨f, hf.1, rfl⟩
    rw [h] at this; cases this
  | some p =>
    obtain ⟨f, hd, rfl⟩ := (bparse3_iff b p).mp h
    have hd' := hd
    obtain ⟨_, h1, h2, h3, h4, h5, h6, h7, h8, h9, h10, h11, h12, h13, h14, h15, h16, h17⟩ := hd'
    have z0 := not_isZeroEnc_iff' (b := slice b 352 32) (P := f.Y0) h12
    have z1 := not_isZeroEnc_iff' (b := slice b 384 32) (P := f.Y1) h13
    have z2 := not_isZeroEnc_iff' (b := slice b 416 32) (P := f.Y2) h14
    have key : BatchedValidity.check T 3 (f.parsed b) = true ↔
        (f.P1 ≠ 0 ∧ f.P2 ≠ 0 ∧ f.Cl ≠ 0 ∧ f.Ch ≠ 0) ∧ (f.Y0 ≠ 0 ∧ f.Y1 ≠ 0 ∧ f.Y2 ≠ 0) ∧
        (let p := f.parsed b
         let tt := BatchedValidity.challengeT (Sc := F) T 3 p.Ps p.lo p.hi
         let t := tt.1
         let cw := challengesDirect 3 tt.2 p.pf
         E0 (f.Cl + t • f.Ch) f.Y0 f.zr f.zx cw.1
           + cw.2 • Eh f.P1 (f.D1l + t • f.D1h) f.Y1 f.zr cw.1
           + (cw.2 * cw.2) • Eh f.P2 (f.D2l + t • f.D2h) f.Y2 f.zr cw.1
           + (cw.2 * (cw.2 * cw.2)) • Eh f.P3 (f.D3l + t • f.D3h) f.Y3 f.zr cw.1 = 0) := by
      simp only [BatchedValidity.check, BFields3.parsed, stmtPolicy, verifyDirect, yPolicy, Bool.and_eq_true,
        List.all_cons, List.all_nil, Bool.and_true, List.take, beq_iff_eq, BatchedValidity.combine,
        List.zipWith_cons_cons, List.zipWith_nil_right, equation3_eq,
        show List.range 3 = [0, 1, 2] by rfl, List.getD_cons_zero, List.getD_cons_succ, z0, z1, z2,
        Bool.not_eq_true', beq_eq_false_iff_ne, ne_eq, show 3 - 1 = 2 by rfl]
      tauto
    rw [key]
    constructor
    · rintro ⟨⟨hP1, hP2, hCl, hCh⟩, ⟨hy0, hy1, hy2⟩, he⟩
      exact ⟨f, hd, hP1, hP2, hCl, hCh, hy0, hy1, hy2, he⟩
    · rintro ⟨f', hd2, hP1, hP2, hCl, hCh, hy0, hy1, hy2, he⟩
      have hf := BFields3.ext_of_decodes f f' b hd hd2
      subst hf
      exact ⟨⟨hP1, hP2, hCl, hCh⟩, ⟨hy0, hy1, hy2⟩, he⟩

/-! ## the algebraic core, shared by all four (statement `C, Pᵢ, Dᵢ`; proof `Yᵢ, z_r, z_x`) -/

/-- a failing equation survives for at most 2 / 3 weights -/
theorem batched_sound2 (e0 e1 e2 : G) (h : e0 ≠ 0 ∨ e1 ≠ 0 ∨ e2 ≠ 0) :
    ∃ S : Finset F, S.card ≤ 2 ∧ ∀ w : F, e0 + w • e1 + (w * w) • e2 = 0 → w ∈ S := batch3 _ _ _ h

theorem batched_sound3 (e0 e1 e2 e3 : G) (h : e0 ≠ 0 ∨ e1 ≠ 0 ∨ e2 ≠ 0 ∨ e3 ≠ 0) :
    ∃ S : Finset F, S.card ≤ 3 ∧
      ∀ w : F, e0 + w • e1 + (w * w) • e2 + (w * (w * w)) • e3 = 0 → w ∈ S := batch4 _ _ _ _ h

/-- commitment equation: two accepting transcripts open the commitment -/
theorem extract_commitment (C Y0 : G) (zr zx zr' zx' c c' : F) (hc : c ≠ c')
    (e : E0 C Y0 zr zx c = 0) (e' : E0 C Y0 zr' zx' c' = 0) :
    C = ((zx - zx') / (c - c')) • Gp + ((zr - zr') / (c - c')) • Hp := by
  have hne : c - c' ≠ 0 := sub_ne_zero.mpr hc
  simp only [E0] at e e'
  have h : (c - c') • C = (zx - zx') • Gp + (zr - zr') • Hp := by
    linear_combination (norm := module) e' - e
  have := congrArg (fun v => (c - c')⁻¹ • v) h
  simp only [smul_smul, inv_mul_cancel₀ hne, one_smul, smul_add] at this
  rw [this]; simp only [div_eq_inv_mul]

/-- handle equation: the handle is the *same* opening under its key -/
theorem extract_handle (P D Y : G) (zr zr' c c' : F) (hc : c ≠ c')
    (e : Eh P D Y zr c = 0) (e' : Eh P D Y zr' c' = 0) :
    D = ((zr - zr') / (c - c')) • P := by
  have hne : c - c' ≠ 0 := sub_ne_zero.mpr hc
  simp only [Eh] at e e'
  symm; apply div_out hne; linear_combination (norm := module) e - e'

/-- special soundness, 2 handles -/
theorem extract2 (P1 P2 C D1 D2 Y0 Y1 Y2 : G) (zr zx zr' zx' c c' : F) (hc : c ≠ c')
    (a0 : E0 C Y0 zr zx c = 0) (a1 : Eh P1 D1 Y1 zr c = 0) (a2 : Eh P2 D2 Y2 zr c = 0)
    (b0 : E0 C Y0 zr' zx' c' = 0) (b1 : Eh P1 D1 Y1 zr' c' = 0) (b2 : Eh P2 D2 Y2 zr' c' = 0) :
    ∃ x r : F, C = x • Gp + r • Hp ∧ D1 = r • P1 ∧ D2 = r • P2 :=
  ⟨_, _, extract_commitment C Y0 zr zx zr' zx' c c' hc a0 b0,
    extract_handle P1 D1 Y1 zr zr' c c' hc a1 b1, extract_handle P2 D2 Y2 zr zr' c c' hc a2 b2⟩

/-- special soundness, 3 handles: any one malformed handle (whatever the others look like)
    makes this conclusion false, hence no two accepting transcripts exist -/
theorem extract3 (P1 P2 P3 C D1 D2 D3 Y0 Y1 Y2 Y3 : G) (zr zx zr' zx' c c' : F) (hc : c ≠ c')
    (a0 : E0 C Y0 zr zx c = 0) (a1 : Eh P1 D1 Y1 zr c = 0) (a2 : Eh P2 D2 Y2 zr c = 0)
    (a3 : Eh P3 D3 Y3 zr c = 0)
    (b0 : E0 C Y0 zr' zx' c' = 0) (b1 : Eh P1 D1 Y1 zr' c' = 0) (b2 : Eh P2 D2 Y2 zr' c' = 0)
    (b3 : Eh P3 D3 Y3 zr' c' = 0) :
    ∃ x r : F, C = x • Gp + r • Hp ∧ D1 = r • P1 ∧ D2 = r • P2 ∧ D3 = r • P3 :=
  ⟨_, _, extract_commitment C Y0 zr zx zr' zx' c c' hc a0 b0,
    extract_handle P1 D1 Y1 zr zr' c c' hc a1 b1, extract_handle P2 D2 Y2 zr zr' c c' hc a2 b2,
    extract_handle P3 D3 Y3 zr zr' c c' hc a3 b3⟩

/-- batched variants: if the combination `lo + t•hi` is well formed for two different `t`,
    then `lo` and `hi` are each well formed (commitment part) -/
theorem batched_extract_commitment (Cl Ch : G) (t t' x x' r r' : F) (ht : t ≠ t')
    (h : Cl + t • Ch = x • Gp + r • Hp) (h' : Cl + t' • Ch = x' • Gp + r' • Hp) :
    ∃ xl rl xh rh : F, Cl = xl • Gp + rl • Hp ∧ Ch = xh • Gp + rh • Hp := by
  have hne : t - t' ≠ 0 := sub_ne_zero.mpr ht
  have hh : (t - t') • Ch = (x - x') • Gp + (r - r') • Hp := by
    linear_combination (norm := module) h - h'
  have hCh : Ch = ((x - x') / (t - t')) • Gp + ((r - r') / (t - t')) • Hp := by
    have := congrArg (fun v => (t - t')⁻¹ • v) hh
    simp only [smul_smul, inv_mul_cancel₀ hne, one_smul, smul_add] at this
    rw [this]; simp only [div_eq_inv_mul]
  refine ⟨x - t * ((x - x') / (t - t')), r - t * ((r - r') / (t - t')), _, _, ?_, hCh⟩
  have : Cl = x • Gp + r • Hp - t • Ch := by rw [← h]; module
  rw [this, hCh]; module

/-- … and every handle pair (handle part): a defect in `lo` is not cancelled by `hi` -/
theorem batched_extract_handle (P Dl Dh : G) (t t' r r' : F) (ht : t ≠ t')
    (h : Dl + t • Dh = r • P) (h' : Dl + t' • Dh = r' • P) :
    ∃ rl rh : F, Dl = rl • P ∧ Dh = rh • P := by
  have hne : t - t' ≠ 0 := sub_ne_zero.mpr ht
  have hh : (t - t') • Dh = (r - r') • P := by linear_combination (norm := module) h - h'
  have hDh : Dh = ((r - r') / (t - t')) • P := by
    symm; exact div_out hne hh.symm
  refine ⟨r - t * ((r - r') / (t - t')), _, ?_, hDh⟩
  have : Dl = r • P - t • Dh := by rw [← h]; module
  rw [this, hDh]; module

/-- the openings of lo/hi handles agree with the openings of the lo/hi commitments:
    stated for the opening scalars extracted above -/
theorem batched_extract_consistent (P Dl Dh : G) (t t' r r' : F) (ht : t ≠ t')
    (h : Dl + t • Dh = r • P) (h' : Dl + t' • Dh = r' • P) :
    Dh = ((r - r') / (t - t')) • P ∧ Dl = (r - t * ((r - r') / (t - t'))) • P := by
  have hne : t - t' ≠ 0 := sub_ne_zero.mpr ht
  have hh : (t - t') • Dh = (r - r') • P := by linear_combination (norm := module) h - h'
  have hDh : Dh = ((r - r') / (t - t')) • P := by
    symm; exact div_out hne hh.symm
  refine ⟨hDh, ?_⟩
  have : Dl = r • P - t • Dh := by rw [← h]; module
  rw [this, hDh]; module

/-- residuals under offsets of the masking commitments -/
theorem residual (P D C Y Y0 o : G) (zr zx c : F) :
    E0 C (Y0 + o) zr zx c = E0 C Y0 zr zx c - o ∧ Eh P D (Y + o) zr c = Eh P D Y zr c - o := by
  constructor <;> (simp only [E0, Eh]; module)

/-- a defect `δ` added to a handle shifts exactly that handle's residual by `-c•δ`
    (so with `c ≠ 0` the equation of *that* handle fails, independently of the others) -/
theorem handle_defect (P D Y δ : G) (zr c : F) :
    Eh P (D + δ) Y zr c = Eh P D Y zr c - c • δ := by
  simp only [Eh]; module

end Zk.Props.C02

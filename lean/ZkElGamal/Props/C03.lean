import ZkElGamal.Proofs.SigmaC03
import ZkElGamal.Proofs.Batch
/-!
# C03 — the percentage-with-cap OR-proof accepts exactly the protocol

* `verify_ok_iff` — success **iff** the 360 bytes parse (decodable points, canonical scalars),
  none of the three commitments or three masking commitments is the identity, and
  `E_max + w•E_δ + w²•E_claimed = 0` with `c_eq := c − c_max` (so the sub-challenges add up to
  the Fiat–Shamir challenge *by construction*) and `max_value` absorbed into the transcript.
* `batched_sound` — a failing equation survives for at most 2 weights.
* `or_extract` — **OR special soundness**: two accepting transcripts with the same masking
  commitments and `c ≠ c'` yield `(∃ r, C_max = m•G + r•H) ∨ (∃ x r_δ r_c, C_δ = x•G + r_δ•H ∧
  C_cl = x•G + r_c•H)`; a statement where neither disjunct holds is therefore not provable even
  with one branch simulated.
-/
set_option linter.unusedSectionVars false
namespace Zk.Props.C03
open Zk Zk.Sigma Zk.Sigma.Cap

variable {F G T : Type} [Field F] [DecidableEq F] [AddCommGroup G] [Module F G] [DecidableEq G]
  [PtCodec G] [ScCodec F] [PedGens G] [TranscriptOps T] [LawfulPtCodec G]

local notation "Gp" => (PedGens.G : G)
local notation "Hp" => (PedGens.H : G)

theorem verify_ok_iff (b : Bytes) :
    verifyProof F G T b = true ↔
      ∃ p : Parsed F G, parse b = some p ∧
        p.Cm ≠ 0 ∧ p.Cd ≠ 0 ∧ p.Cc ≠ 0 ∧ p.Ym ≠ 0 ∧ p.Yd ≠ 0 ∧ p.Yc ≠ 0 ∧
        (let cw := challenges T p
         Emax p + cw.2 • Edelta p cw.1 + (cw.2 * cw.2) • Eclaimed p cw.1 = 0) := by
  unfold verifyProof
  cases h : parse (Sc := F) (Pt := G) b with
  | none => simp
  | some p =>
    simp only [check, Bool.and_eq_true, beq_iff_eq, Option.some.injEq, exists_eq_left']
    rw [policy_iff b p h, equation_eq]
    tauto

theorem parse_spec (b : Bytes) (p : Parsed F G) :
    parse b = some p ↔
      b.length = 360 ∧ ptAt b 0 = some p.Cm ∧ ptAt b 32 = some p.Cd ∧ ptAt b 64 = some p.Cc ∧
      p.maxValue = leNat (slice b 96 8) ∧
      ptAt b 104 = some p.Ym ∧ scAt b 136 = some p.zm ∧ scAt b 168 = some p.cm ∧
      ptAt b 200 = some p.Yd ∧ ptAt b 232 = some p.Yc ∧
      scAt b 264 = some p.zx ∧ scAt b 296 = some p.zd ∧ scAt b 328 = some p.zc ∧
      p.ymB = slice b 104 32 ∧ p.ydB = slice b 200 32 ∧ p.ycB = slice b 232 32 := parse_some_iff b p

theorem batched_sound (p : Parsed F G) (c : F)
    (h : Emax p ≠ 0 ∨ Edelta p c ≠ 0 ∨ Eclaimed p c ≠ 0) :
    ∃ S : Finset F, S.card ≤ 2 ∧
      ∀ w : F, Emax p + w • Edelta p c + (w * w) • Eclaimed p c = 0 → w ∈ S := batch3 _ _ _ h

theorem batched_complete (p : Parsed F G) (c w : F)
    (h0 : Emax p = 0) (h1 : Edelta p c = 0) (h2 : Eclaimed p c = 0) :
    Emax p + w • Edelta p c + (w * w) • Eclaimed p c = 0 := by rw [h0, h1, h2]; simp

/-- OR special soundness -/
theorem or_extract (p p' : Parsed F G) (c c' : F) (hc : c ≠ c')
    (hCm : p'.Cm = p.Cm) (hCd : p'.Cd = p.Cd) (hCc : p'.Cc = p.Cc) (hmax : p'.maxValue = p.maxValue)
    (hYm : p'.Ym = p.Ym) (hYd : p'.Yd = p.Yd) (hYc : p'.Yc = p.Yc)
    (m1 : Emax p = 0) (d1 : Edelta p c = 0) (k1 : Eclaimed p c = 0)
    (m1' : Emax p' = 0) (d1' : Edelta p' c' = 0) (k1' : Eclaimed p' c' = 0) :
    (∃ r : F, p.Cm = (ScCodec.ofNat p.maxValue : F) • Gp + r • Hp) ∨
    (∃ x rd rc : F, p.Cd = x • Gp + rd • Hp ∧ p.Cc = x • Gp + rc • Hp) := by
  simp only [Emax, Edelta, Eclaimed, hCm, hCd, hCc, hmax, hYm, hYd, hYc] at m1 d1 k1 m1' d1' k1'
  generalize (ScCodec.ofNat p.maxValue : F) = m at *
  by_cases h : p.cm = p'.cm
  · right
    rw [← h] at d1' k1'
    have hne : (c - p.cm) - (c' - p.cm) ≠ 0 := by
      intro hh; apply hc; linear_combination hh
    refine ⟨(p.zx - p'.zx) / ((c - p.cm) - (c' - p.cm)), (p.zd - p'.zd) / ((c - p.cm) - (c' - p.cm)),
            (p.zc - p'.zc) / ((c - p.cm) - (c' - p.cm)), ?_, ?_⟩
    · have h : ((c - p.cm) - (c' - p.cm)) • p.Cd = (p.zx - p'.zx) • Gp + (p.zd - p'.zd) • Hp := by
        linear_combination (norm := module) d1' - d1
      have := congrArg (fun v => ((c - p.cm) - (c' - p.cm))⁻¹ • v) h
      simp only [smul_smul, inv_mul_cancel₀ hne, one_smul, smul_add] at this
      rw [this]; simp only [div_eq_inv_mul]
    · have h : ((c - p.cm) - (c' - p.cm)) • p.Cc = (p.zx - p'.zx) • Gp + (p.zc - p'.zc) • Hp := by
        linear_combination (norm := module) k1' - k1
      have := congrArg (fun v => ((c - p.cm) - (c' - p.cm))⁻¹ • v) h
      simp only [smul_smul, inv_mul_cancel₀ hne, one_smul, smul_add] at this
      rw [this]; simp only [div_eq_inv_mul]
  · left
    have hne : p.cm - p'.cm ≠ 0 := sub_ne_zero.mpr h
    refine ⟨(p.zm - p'.zm) / (p.cm - p'.cm), ?_⟩
    have h : (p.cm - p'.cm) • (p.Cm - m • Gp) = (p.zm - p'.zm) • Hp := by
      linear_combination (norm := module) m1 - m1'
    have := congrArg (fun v => (p.cm - p'.cm)⁻¹ • v) h
    simp only [smul_smul, inv_mul_cancel₀ hne, one_smul] at this
    rw [div_eq_inv_mul, ← this]; module

/-- the second disjunct says delta and claimed commit to the *same* value -/
theorem same_value (Cd Cc : G) (x rd rc : F) (h1 : Cd = x • Gp + rd • Hp) (h2 : Cc = x • Gp + rc • Hp) :
    Cd - Cc = (rd - rc) • Hp := by rw [h1, h2]; module

theorem residual (p : Parsed F G) (c : F) (o0 o1 o2 : G) :
    Emax { p with Ym := p.Ym + o0 } = Emax p + o0 ∧
    Edelta { p with Yd := p.Yd + o1 } c = Edelta p c - o1 ∧
    Eclaimed { p with Yc := p.Yc + o2 } c = Eclaimed p c - o2 := by
  refine ⟨?_, ?_, ?_⟩ <;> (simp only [Emax, Edelta, Eclaimed]; module)

/-- a challenge split that does not add up: changing `c_max` alone by `δ ≠ 0` changes the
    max-equation residual by `δ•(C_max − m•G)`, which is non-zero unless `C_max = m•G` -/
theorem cmax_perturbed (p : Parsed F G) (δ : F) :
    Emax { p with cm := p.cm + δ } = Emax p + δ • (p.Cm - (ScCodec.ofNat p.maxValue : F) • Gp) := by
  simp only [Emax]; module

end Zk.Props.C03

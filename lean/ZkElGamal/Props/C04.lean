import ZkElGamal.Proofs.RangeLemmas
import ZkElGamal.Proofs.Batch
import ZkElGamal.Proofs.IppExtract
import ZkElGamal.Proofs.RangeExtract
import ZkElGamal.Proofs.Ipp
import Mathlib.Algebra.Field.ZMod
import Mathlib.Algebra.Module.Prod
import Mathlib.Tactic.NormNum.Prime
/-!
# C04 — batched range proofs accept only in-range commitments in well-formed contexts

Proved here, over the abstract instantiation:

* `context_ok_iff`     — decoding the 264 context bytes succeeds **iff** there are 1–8 leading
                          non-zero commitment slots that all decode, the bit lengths of exactly those
                          slots are in `1..=64`, and every remaining commitment slot and bit-length
                          byte is zero (pure data logic, complete).
* `verify_ok_iff`      — the instruction verifies **iff** exact length ∧ context ok ∧ bit lengths sum
                          to the width ∧ the proof decodes (points, canonical scalars, `lg n` pairs
                          `L, R`) ∧ no identity among `A, S, T₁, T₂, Lⱼ, Rⱼ` and the commitments ∧ the
                          challenges exist ∧ the mega-check vanishes.
* `mega_decompose`     — the mega-check is `E_ipp − d • E_poly`: the inner-product relation and the
                          polynomial-commitment equation, batched by the challenge `d`.
* `mega_batched_sound` — offsetting errors in the two equations survive for at most one `d`.
* `sumOfPowers_spec`, `delta_spec`, `powers` — the helper computations equal their closed forms
                          (the doubling loop of `sum_of_powers` by induction).
* `sVector_length`, `verificationScalars_lengths` — the vectors fed to the multiscalar
                          multiplication have equal lengths (no size-hint assertion can fire; used by C08).

* `poly_extract`, `Epoly_eq_zero_iff` — first step of the extractor: three accepting transcripts with the
                          same `A, S, y, z, T₁, T₂` and distinct `x` open `δ•G + Σ z^{2+j}•V_j`, `T₁`, `T₂`.
* `ipp_round_special_sound`, `ipp_special_sound` — second step: the inner-product argument is specially
                          sound — one folding round, and by induction any number of rounds over a tree of
                          accepting transcripts (four challenges with distinct squares per level, independent generators).
* `challenges_some`, `verificationScalars_some`, `challengeTrace_spec` — the challenge list compared by the
                          correspondence is the verifier's own.

Not proved (stated in DESIGN.md): the remaining glue of the knowledge-soundness argument of Bulletproofs
(from the openings of `A, S, T₁, T₂`, the aggregate and the inner-product witness for many `y, z` to the
individual `V_j` and their bits; and the forking lemma that produces the transcript trees).
Completeness of the aggregated prover for every admissible split is `Zk.Props.C05.Range.complete`
(built on `Zk.Range.prove_complete` in `Proofs/RangeProve.lean`).
-/
set_option linter.unusedSectionVars false
namespace Zk.Props.C04
open Zk Zk.Range

variable {F G T : Type} [Field F] [AddCommGroup G] [Module F G] [DecidableEq G]
  [PtCodec G] [ScCodec F] [PedGens G] [TranscriptOps T]

local notation "Gp" => (PedGens.G : G)
local notation "Hp" => (PedGens.H : G)

/-! ## helper computations -/

theorem powers_spec (x : F) (n : ℕ) : powers x n = (List.range n).map (x ^ ·) := powers_eq_map x n

/-- `util::sum_of_powers` (doubling loop for powers of two, slow loop otherwise) is the geometric sum -/
theorem sumOfPowers_spec [LawfulScCodec F] (x : F) (n : ℕ) :
    sumOfPowers x n = ∑ i ∈ Finset.range n, x ^ i := by
  unfold sumOfPowers
  by_cases hp : isPow2 n = true
  · simp only [hp, Bool.not_true, Bool.false_eq_true, if_false]
    obtain ⟨k, rfl⟩ := (isPow2_iff n).mp hp
    cases k with
    | zero => simp [LawfulScCodec.ofNat_cast]
    | succ k =>
      have h1 : ¬ (2 ^ (k + 1) = 0 ∨ 2 ^ (k + 1) = 1) := by
        have : 2 ^ (k + 1) ≥ 2 := by
          calc 2 ^ (k + 1) = 2 ^ k * 2 := pow_succ 2 k
            _ ≥ 1 * 2 := Nat.mul_le_mul_right 2 (Nat.one_le_two_pow)
        omega
      simp only [h1, if_false, Nat.log2_two_pow, Nat.add_sub_cancel]
      have := sumOfPowersLoop_spec x k 1
      simp only [mul_one, pow_one, Finset.sum_range_succ, Finset.sum_range_zero, zero_add, pow_zero] at this
      rw [this]; congr 2
  · simp only [hp, Bool.not_false, if_true, sumOfPowersSlow, powers_sum]

/-- `delta(bit_lengths, y, z) = (z − z²)·Σ_{i<nm} yⁱ − Σ_j z^{3+j}·Σ_{k<n_j} 2^k` -/
theorem delta_spec [LawfulScCodec F] (bls : List ℕ) (y z : F) :
    delta bls y z = (z - z * z) * (∑ i ∈ Finset.range bls.sum, y ^ i)
      - ((bls.zipIdx).map fun (n, j) => z ^ (3 + j) * ∑ k ∈ Finset.range n, (2 : F) ^ k).sum := by
  unfold delta
  simp only [sumOfPowers_spec, LawfulScCodec.ofNat_cast, Nat.cast_ofNat]
  generalize (z - z * z) * (∑ i ∈ Finset.range bls.sum, y ^ i) = init
  have key : ∀ (l : List ℕ) (acc : F) (j : ℕ),
      (l.foldl (fun (a : F × F) n_i => (a.1 - a.2 * ∑ k ∈ Finset.range n_i, (2 : F) ^ k, a.2 * z)) (acc, z ^ (3 + j))).1
        = acc - ((l.zipIdx j).map fun (n, i) => z ^ (3 + i) * ∑ k ∈ Finset.range n, (2 : F) ^ k).sum := by
    intro l
    induction l with
    | nil => intro acc j; simp
    | cons n l ih =>
      intro acc j
      simp only [List.foldl_cons, List.zipIdx_cons, List.map_cons, List.sum_cons]
      have : z ^ (3 + j) * z = z ^ (3 + (j + 1)) := by rw [← pow_succ]; congr 1
      rw [this, ih]; ring
  have h3 : z * z * z = z ^ (3 + 0) := by ring
  rw [h3, key bls init 0]

/-! ## context -/

/-- the eight 32-byte commitment slots and the eight bit-length bytes of a context -/
def slots (ctx : Bytes) : List Bytes := (List.range 8).map fun i => slice ctx (32 * i) 32
def bitLengthBytes (ctx : Bytes) : List ℕ := (slice ctx 256 8).map (·.toNat)

theorem context_ok_iff (ctx : Bytes) (comms : List G) (bls : List ℕ) :
    parseContext ctx = some (comms, bls) ↔
      let used := (slots ctx).takeWhile fun p => !(p == zero32)
      used.mapM PtCodec.dec = some comms ∧
      bls = (bitLengthBytes ctx).take comms.length ∧
      comms.length ≠ 0 ∧
      (∀ n ∈ bls, 1 ≤ n ∧ n ≤ 64) ∧
      (∀ p ∈ (slots ctx).drop comms.length, p = zero32) ∧
      (∀ n ∈ (bitLengthBytes ctx).drop comms.length, n = 0) := by
  unfold parseContext slots bitLengthBytes
  simp only
  cases hm : List.mapM (PtCodec.dec (Pt := G))
      (List.takeWhile (fun p => !(p == zero32)) (List.map (fun i => slice ctx (32 * i) 32) (List.range 8))) with
  | none => simp
  | some cs =>
    simp only [Option.some.injEq]
    by_cases h0 : cs.length = 0
    · simp only [h0, if_true, reduceCtorEq, false_iff]
      rintro ⟨rfl, _, hne, _⟩; exact hne h0
    · simp only [h0, if_false]
      by_cases h1 : (List.take cs.length (List.map (fun x => x.toNat) (slice ctx 256 8))).any
          (fun n => decide (n = 0 ∨ n > 64)) = true
      · simp only [h1, if_true, reduceCtorEq, false_iff]
        rintro ⟨rfl, rfl, _, hb, _⟩
        simp only [List.any_eq_true, decide_eq_true_eq] at h1
        obtain ⟨n, hn, hbad⟩ := h1
        have := hb n hn; omega
      · simp only [h1, if_false]
        by_cases h2 : (List.drop cs.length (List.map (fun i => slice ctx (32 * i) 32) (List.range 8))).all
            (fun x => x == zero32) = true
        · simp only [h2, Bool.not_true, Bool.false_eq_true, if_false]
          by_cases h3 : (List.drop cs.length (List.map (fun x => x.toNat) (slice ctx 256 8))).all
              (fun x => x == 0) = true
          · simp only [h3, Bool.not_true, Bool.false_eq_true, if_false, Option.some.injEq, Prod.mk.injEq]
            constructor
            · rintro ⟨rfl, rfl⟩
              refine ⟨rfl, rfl, h0, ?_, ?_, ?_⟩
              · intro n hn
                simp only [Bool.not_eq_true, List.any_eq_false, decide_eq_false_iff_not] at h1
                have := h1 n hn; omega
              · intro p hp; simpa using (List.all_eq_true.mp h2) p hp
              · intro n hn; simpa using (List.all_eq_true.mp h3) n hn
            · rintro ⟨rfl, rfl, _⟩; exact ⟨rfl, rfl⟩
          · constructor
            · intro hh; simp [h3] at hh
            · rintro ⟨rfl, _, _, _, _, hz⟩
              exfalso; apply h3
              rw [List.all_eq_true]; intro n hn; simpa using hz n hn
        · constructor
          · intro hh; simp [h2] at hh
          · rintro ⟨rfl, _, _, _, hz, _⟩
            exfalso; apply h2
            rw [List.all_eq_true]; intro p hp; simpa using hz p hp

theorem mapM_some_length {α β} (f : α → Option β) (l : List α) (r : List β) (h : l.mapM f = some r) :
    r.length = l.length := by
  induction l generalizing r with
  | nil => simp at h; subst h; rfl
  | cons x xs ih =>
    simp only [List.mapM_cons, Option.bind_eq_bind, Option.bind_eq_some_iff, Option.pure_def,
      Option.some.injEq] at h
    obtain ⟨y, _, ys, hys, rfl⟩ := h
    simp [ih ys hys]

/-- at most eight commitments can come out of a context -/
theorem context_at_most_eight (ctx : Bytes) (comms : List G) (bls : List ℕ)
    (h : parseContext ctx = some (comms, bls)) : comms.length ≤ 8 ∧ bls.length ≤ comms.length := by
  obtain ⟨hm, hb, _⟩ := (context_ok_iff ctx comms bls).mp h
  have h1 : comms.length = ((slots ctx).takeWhile fun p => !(p == zero32)).length :=
    mapM_some_length _ _ _ hm
  have h2 : ((slots ctx).takeWhile fun p => !(p == zero32)).length ≤ (slots ctx).length :=
    (List.takeWhile_sublist _).length_le
  have h3 : (slots ctx).length = 8 := by simp [slots]
  refine ⟨by omega, ?_⟩
  rw [hb]; simp

/-! ## the mega-check -/

/-- residual of the polynomial-commitment equation
    `t_x•G + t̃•H = z²·Σ zʲ•Vⱼ + δ(y,z)•G + x•T₁ + x²•T₂` -/
def Epoly (comms : List G) (bls : List ℕ) (pf : Proof F G) (c : Challenges F) : G :=
  pf.tx • Gp + pf.txBlinding • Hp -
    (c.x • pf.T1 + (c.x * c.x) • pf.T2 + delta bls c.y c.z • Gp
      + msm ((powers c.z bls.length).map (c.z * c.z * ·)) comms)

/-- the `G_i` and `H_i` coefficients of the inner-product relation -/
def gCoeffs (pf : Proof F G) (c : Challenges F) : List F := c.s.map fun s_i => (-c.z) - pf.ipp.a * s_i
def hCoeffs (bls : List ℕ) (pf : Proof F G) (c : Challenges F) : List F :=
  (List.zip (List.zip c.s.reverse (powers c.y⁻¹ bls.sum)) (concatZAnd2 c.z bls)).map
    fun ((sInv, eyInv), z2) => c.z + eyInv * (c.z * c.z * z2 - pf.ipp.b * sInv)

/-- residual of the inner-product relation (the folded verification equation of the IPP on
    `P = A + x•S − e•H + …` with `Q = w•G`) -/
def Eipp (gG gH : List G) (bls : List ℕ) (pf : Proof F G) (c : Challenges F) : G :=
  pf.A + c.x • pf.S - pf.eBlinding • Hp + (c.w * (pf.tx - pf.ipp.a * pf.ipp.b)) • Gp
    + msm c.uSq pf.ipp.Ls + msm c.uInvSq pf.ipp.Rs + msm (gCoeffs pf c) gG + msm (hCoeffs bls pf c) gH

theorem mega_decompose (gG gH comms : List G) (bls : List ℕ) (pf : Proof F G) (c : Challenges F)
    (h1 : c.uSq.length = pf.ipp.Ls.length) (h2 : c.uInvSq.length = pf.ipp.Rs.length)
    (h3 : c.s.length = gG.length) (h4 : (hCoeffs bls pf c).length = gH.length) :
    msm (megaScalars bls pf c) (megaPoints gG gH comms pf) =
      Eipp gG gH bls pf c - c.d • Epoly comms bls pf c := by
  have hg : (gCoeffs pf c).length = gG.length := by simp [gCoeffs, h3]
  have hv : (List.map (fun ze => c.d * (c.z * c.z) * ze) (powers c.z bls.length))
      = List.map (c.d * ·) ((powers c.z bls.length).map (c.z * c.z * ·)) := by
    rw [List.map_map]; apply List.map_congr_left; intro a _; simp [mul_assoc]
  unfold megaScalars megaPoints
  simp only
  rw [show (c.s.map fun s_i => -c.z - pf.ipp.a * s_i) = gCoeffs pf c from rfl,
      show ((List.zip (List.zip c.s.reverse (powers c.y⁻¹ bls.sum)) (concatZAnd2 c.z bls)).map
        fun ((sInv, eyInv), z2) => c.z + eyInv * (c.z * c.z * z2 - pf.ipp.b * sInv)) = hCoeffs bls pf c from rfl]
  rw [hv]
  -- peel the appended blocks from the right
  simp only [List.append_assoc]
  rw [msm_append _ _ _ _ (by simp), msm_append _ _ _ _ h1, msm_append _ _ _ _ h2,
      msm_append _ _ _ _ hg, msm_append _ _ _ _ h4, msm_map_mul]
  simp only [msm_cons_cons, msm_nil_left, Eipp, Epoly]
  module

/-- offsetting errors in the two relations survive for at most one value of the batching challenge `d`
    (which is squeezed after `a` and `b`, i.e. after both residuals are fixed) -/
theorem mega_batched_sound [DecidableEq F] (eipp epoly : G) (h : eipp ≠ 0 ∨ epoly ≠ 0) :
    ∃ S : Finset F, S.card ≤ 1 ∧ ∀ d : F, eipp - d • epoly = 0 → d ∈ S := by
  obtain ⟨S, hS, hw⟩ := batch2 (F := F) eipp (-epoly) (by
    rcases h with h | h
    · exact Or.inl h
    · exact Or.inr (neg_ne_zero.mpr h))
  refine ⟨S, hS, fun d hd => hw d ?_⟩
  rw [smul_neg, ← sub_eq_add_neg]; exact hd

/-! ## towards knowledge soundness: the polynomial-commitment step -/

/-- the residual `Epoly` vanishes iff `t_x•G + t̃•H = W + x•T₁ + x²•T₂` with
    `W = δ(y,z)•G + Σ z^{2+j}•V_j` -/
theorem Epoly_eq_zero_iff (comms : List G) (bls : List ℕ) (pf : Proof F G) (c : Challenges F) :
    Epoly comms bls pf c = 0 ↔
      pf.tx • Gp + pf.txBlinding • Hp =
        (delta bls c.y c.z • Gp + msm ((powers c.z bls.length).map (c.z * c.z * ·)) comms)
          + c.x • pf.T1 + (c.x * c.x) • pf.T2 := by
  unfold Epoly
  rw [sub_eq_zero]
  constructor <;> intro h <;> rw [h] <;> abel

/-- the triples `(s_{n-1-i}, y^{-i}, z^j 2^k)` the `H_i` coefficients are computed from -/
def hTriples (bls : List ℕ) (c : Challenges F) : List ((F × F) × F) :=
  List.zip (List.zip c.s.reverse (powers c.y⁻¹ bls.sum)) (concatZAnd2 c.z bls)

omit [DecidableEq G] [PtCodec G] in
/-- **the inner-product part of the mega-check is the verification equation of the inner-product argument**
    on `P = A + x•S − e•H̃ + (w·t̂)•B − z•ΣG_i + Σ (z + y^{-i} z² d_i)•H_i` with `Q = w•B`, generators `G_i` and
    `H'_i = y^{-i}•H_i`, in its "s-vector" form:
    `P + Σ u_j²•L_j + Σ u_j⁻²•R_j = a•⟨s, G⟩ + b•⟨s⁻¹, H'⟩ + (a·b)•Q`. -/
theorem Eipp_eq_zero_iff (gG gH : List G) (bls : List ℕ) (pf : Proof F G) (c : Challenges F)
    (h3 : c.s.length = gG.length) :
    Eipp gG gH bls pf c = 0 ↔
      (pf.A + c.x • pf.S - pf.eBlinding • Hp + (c.w * pf.tx) • Gp - c.z • gG.sum
          + msm ((hTriples bls c).map fun t => c.z + t.1.2 * (c.z * c.z * t.2)) gH)
        + msm c.uSq pf.ipp.Ls + msm c.uInvSq pf.ipp.Rs
      = pf.ipp.a • msm c.s gG + pf.ipp.b • msm ((hTriples bls c).map fun t => t.1.2 * t.1.1) gH
        + (c.w * (pf.ipp.a * pf.ipp.b)) • Gp := by
  have hg : msm (gCoeffs pf c) gG = (-c.z) • gG.sum + (-pf.ipp.a) • msm c.s gG := by
    have : gCoeffs pf c = c.s.map fun s => (-c.z) + (-pf.ipp.a) * s := by
      unfold gCoeffs; apply List.map_congr_left; intro s _; ring
    rw [this, msm_affine _ _ _ _ h3]
  have hh : msm (hCoeffs bls pf c) gH
      = msm ((hTriples bls c).map fun t => c.z + t.1.2 * (c.z * c.z * t.2)) gH
        + (-pf.ipp.b) • msm ((hTriples bls c).map fun t => t.1.2 * t.1.1) gH := by
    have : hCoeffs bls pf c = (hTriples bls c).map fun t =>
        (c.z + t.1.2 * (c.z * c.z * t.2)) + (-pf.ipp.b) * (t.1.2 * t.1.1) := by
      unfold hCoeffs hTriples; apply List.map_congr_left; intro t _; ring
    rw [this, msm_map_add, ← msm_map_mul, List.map_map]; rfl
  unfold Eipp
  rw [hg, hh]
  constructor
  · intro h
    rw [← sub_eq_zero]
    linear_combination (norm := module) h
  · intro h
    rw [← sub_eq_zero] at h
    linear_combination (norm := module) h

omit [DecidableEq G] [PtCodec G] [PedGens G] in
/-- the `s` vector of the verifier is the coefficient vector of the fully folded generators: folding `G` with
    `(u⁻¹, u)` and `H` with `(u, u⁻¹)` in every round leaves the single points `⟨s, G⟩` and `⟨s.reverse, H⟩`.
    (So the right-hand side of `Eipp_eq_zero_iff` is `a•g + b•h + ab•Q` over the folded generators — the leaf
    relation of `ipp_special_sound`; what remains unproved is only the re-indexing between lists and the
    tree-shaped index type of that theorem.) -/
theorem sVector_folds_generators (us : List F) (h : ∀ u ∈ us, u ≠ 0) (gG gH : List G)
    (hg : gG.length = 2 ^ us.length) (hh : gH.length = 2 ^ us.length) :
    foldGens true us gG = [msm (sVector ((us.foldl (· * ·) 1)⁻¹) (us.map fun u => u * u)) gG] ∧
    foldGens false us gH = [msm (sVector ((us.foldl (· * ·) 1)⁻¹) (us.map fun u => u * u)).reverse gH] := by
  rw [sVector_eq_sFold us h, sFold_reverse]
  exact ⟨foldGens_sFold us gG hg, foldGens_sFoldInv us gH hh⟩

/-- **first step of the Bulletproofs extractor** (special soundness in the challenge `x`): three accepting
    polynomial-commitment equations `t_i•B + b_i•H = W + x_i•T₁ + x_i²•T₂` with the same `W, T₁, T₂`
    and pairwise distinct `x_i` yield openings of `W`, `T₁` and `T₂` with respect to `(B, H)`.
    (`W = δ(y,z)•B + Σ z^{2+j}•V_j` in `Epoly`; what is *not* proved is the rest of the extractor:
    the inner-product argument and the step from the opening of `W` to the individual `V_j`.) -/
theorem poly_extract (B H W T1 T2 : G) (x1 x2 x3 t1 t2 t3 b1 b2 b3 : F)
    (h12 : x1 ≠ x2) (h13 : x1 ≠ x3) (h23 : x2 ≠ x3)
    (e1 : t1 • B + b1 • H = W + x1 • T1 + (x1 * x1) • T2)
    (e2 : t2 • B + b2 • H = W + x2 • T1 + (x2 * x2) • T2)
    (e3 : t3 • B + b3 • H = W + x3 • T1 + (x3 * x3) • T2) :
    ∃ a0 c0 a1 c1 a2 c2 : F,
      W = a0 • B + c0 • H ∧ T1 = a1 • B + c1 • H ∧ T2 = a2 • B + c2 • H := by
  set D : F := (x1 - x2) * (x1 - x3) * (x2 - x3) with hD
  have hD0 : D ≠ 0 := by
    rw [hD]
    exact mul_ne_zero (mul_ne_zero (sub_ne_zero.mpr h12) (sub_ne_zero.mpr h13)) (sub_ne_zero.mpr h23)
  have d12 : x1 - x2 ≠ 0 := sub_ne_zero.mpr h12
  set u : F := (x2 - x3) * t1 - (x1 - x3) * t2 + (x1 - x2) * t3 with hu
  set v : F := (x2 - x3) * b1 - (x1 - x3) * b2 + (x1 - x2) * b3 with hv
  have k2 : D • T2 = u • B + v • H := by
    rw [hD, hu, hv]
    linear_combination (norm := module) -((x2 - x3) • e1 - (x1 - x3) • e2 + (x1 - x2) • e3)
  have hT2 : T2 = (D⁻¹ * u) • B + (D⁻¹ * v) • H := by
    have : T2 = D⁻¹ • (D • T2) := by rw [smul_smul, inv_mul_cancel₀ hD0, one_smul]
    rw [this, k2]; module
  have k1 : (x1 - x2) • T1 = (t1 - t2) • B + (b1 - b2) • H - (x1 * x1 - x2 * x2) • T2 := by
    linear_combination (norm := module) e2 - e1
  have hT1 : T1 = ((x1 - x2)⁻¹ * ((t1 - t2) - (x1 * x1 - x2 * x2) * (D⁻¹ * u))) • B
      + ((x1 - x2)⁻¹ * ((b1 - b2) - (x1 * x1 - x2 * x2) * (D⁻¹ * v))) • H := by
    have : T1 = (x1 - x2)⁻¹ • ((x1 - x2) • T1) := by rw [smul_smul, inv_mul_cancel₀ d12, one_smul]
    rw [this, k1, hT2]; module
  set a2 : F := D⁻¹ * u with ha2
  set c2 : F := D⁻¹ * v with hc2
  set a1 : F := (x1 - x2)⁻¹ * ((t1 - t2) - (x1 * x1 - x2 * x2) * a2) with ha1
  set c1 : F := (x1 - x2)⁻¹ * ((b1 - b2) - (x1 * x1 - x2 * x2) * c2) with hc1
  refine ⟨t1 - x1 * a1 - x1 * x1 * a2, b1 - x1 * c1 - x1 * x1 * c2, a1, c1, a2, c2, ?_, hT1, hT2⟩
  · have hW : W = t1 • B + b1 • H - x1 • T1 - (x1 * x1) • T2 := by
      linear_combination (norm := module) -e1
    rw [hW, hT1, hT2]
    module

/-- **special soundness of one folding round of the inner-product argument** (second extractor step).
    With independent generators (`IppExtract.lin` injective: for the real generators this is the discrete-log
    assumption), four challenges `uᵢ` with pairwise distinct squares and folded witnesses `(a'ᵢ, b'ᵢ)` satisfying
    `P + uᵢ²•L + uᵢ⁻²•R = ⟨a'ᵢ, uᵢ⁻¹•g_L + uᵢ•g_R⟩ + ⟨b'ᵢ, uᵢ•h_L + uᵢ⁻¹•h_R⟩ + ⟨a'ᵢ,b'ᵢ⟩•Q`
    yield `a = a₁‖a₂`, `b = b₁‖b₂` with `P = ⟨a,g⟩ + ⟨b,h⟩ + ⟨a,b⟩•Q`.
    (Not proved: chaining the rounds over a tree of transcripts, and the step from the opened
    aggregate to the bit decomposition of each committed value.) -/
theorem ipp_round_special_sound {ι : Type} [Fintype ι] [DecidableEq F] (gL gR hL hR : ι → G) (Q : G)
    (hind : Function.Injective (IppExtract.lin (F := F) gL gR hL hR Q))
    (P L R : G) (u : Fin 4 → F) (hu0 : ∀ i, u i ≠ 0) (hsq : Function.Injective fun i => u i * u i)
    (a' b' : Fin 4 → ι → F)
    (hacc : ∀ i, P + (u i * u i) • L + ((u i)⁻¹ * (u i)⁻¹) • R
      = (∑ j, a' i j • ((u i)⁻¹ • gL j + u i • gR j)) + (∑ j, b' i j • (u i • hL j + (u i)⁻¹ • hR j))
        + (∑ j, a' i j * b' i j) • Q) :
    ∃ a1 a2 b1 b2 : ι → F,
      P = (∑ j, a1 j • gL j) + (∑ j, a2 j • gR j) + (∑ j, b1 j • hL j) + (∑ j, b2 j • hR j)
        + ((∑ j, a1 j * b1 j) + ∑ j, a2 j * b2 j) • Q := by
  obtain ⟨a1, a2, b1, b2, h⟩ := IppExtract.ipp_round_extract gL gR hL hR Q hind P L R u hu0 hsq a' b'
    (fun i => by rw [hacc i, IppExtract.lin_folded])
  exact ⟨a1, a2, b1, b2, h⟩

/-- **the inner-product argument is (4, …, 4)-special sound, for any number of rounds**: a tree of accepting
    transcripts (four challenges with pairwise distinct non-zero squares at every level, the same `L, R` for the
    four children, scalars `a, b` with `P = a•g + b•h + ab•Q` at the leaves) over independent generators
    yields vectors `a, b` with `P = ⟨a,g⟩ + ⟨b,h⟩ + ⟨a,b⟩•Q`. -/
theorem ipp_special_sound [DecidableEq F] (Q : G) (k : ℕ) (g h : IppExtract.Idx k → G) (P : G)
    (hi : IppExtract.Indep (F := F) g h Q) (ht : IppExtract.AccTree (F := F) Q k g h P) :
    ∃ a b : IppExtract.Idx k → F, P = (∑ j, a j • g j) + (∑ j, b j • h j) + (∑ j, a j * b j) • Q :=
  IppExtract.ipp_tree_extract Q k g h P hi ht

/-- **last step of the extractor** (field algebra): the constant coefficient of `⟨l(X), r(X)⟩` computed from
    the opening `(a_L, a_R)` of `A` equals `δ(y,z) + Σ_j z^{2+j}·v_j` for `N` distinct `y` and `m+2` distinct `z`
    only if `a_L` is a bit vector, `a_R = a_L − 1` and every `v_j` is the weighted sum of the bits of its block -/
theorem bits_of_identity {N m : ℕ} (hN : 0 < N) (blk : Fin N → Fin m) (pw aL aR : Fin N → F) (v : Fin m → F)
    (Y : Fin N → F) (hY : Function.Injective Y) (Z : Fin (m + 2) → F) (hZ : Function.Injective Z)
    (hid : ∀ p q,
      ∑ i, (aL i - Z q) * (Y p ^ (i : ℕ) * (aR i + Z q) + Z q ^ 2 * Z q ^ (blk i : ℕ) * pw i)
        = (Z q - Z q ^ 2) * ∑ i : Fin N, Y p ^ (i : ℕ) - ∑ i, Z q ^ (3 + (blk i : ℕ)) * pw i
          + ∑ j : Fin m, Z q ^ (2 + (j : ℕ)) * v j) :
    (∀ i, aL i * aR i = 0 ∧ aL i - aR i = 1) ∧ ∀ j, v j = ∑ i with blk i = j, aL i * pw i :=
  RangeExtract.bits_of_identity hN blk pw aL aR v Y hY Z hZ hid

/-- **special soundness of the aggregated range proof** (third extractor step). Over independent generators
    (`RangeExtract.GIndep`: no non-trivial linear relation among `g_i, h_i, B, H̃` — for the real generators the
    discrete-log assumption), a grid of accepting transcripts — `N` distinct non-zero `y`, `m+2` distinct
    non-zero `z`, three distinct `x`, two distinct `w`; `A, S, V_j` fixed, `T₁, T₂` per `(y,z)`, `t̂, τ, e` per
    `(y,z,x)`; `hpoly` is `Epoly = 0` (see `Epoly_eq_zero_iff`), `hipp` is the relation `Eipp = 0` with the
    inner-product argument replaced by its opening `(l, r)` (what `ipp_special_sound` extracts) — forces
    `V_j = v_j•B + γ_j•H̃` with `v_j = Σ_{i ∈ block j} bit_i·pw_i`, `bit_i ∈ {0,1}`: every committed value lies
    in its range. Not proved: the forking lemma producing such a grid from a successful prover (ROM), and
    the list-level rewriting of `Eipp = 0` into the inner-product acceptance relation over folded generators. -/
theorem range_special_sound {N m : ℕ} (hN : 0 < N) (g h : Fin N → G) (B Ht : G)
    (hind : RangeExtract.GIndep F g h B Ht)
    (blk : Fin N → Fin m) (pw : Fin N → F) (A S : G) (V : Fin m → G)
    (Y : Fin N → F) (hY : Function.Injective Y) (hY0 : ∀ p, Y p ≠ 0)
    (Z : Fin (m + 2) → F) (hZ : Function.Injective Z) (hZ0 : ∀ q, Z q ≠ 0)
    (X : Fin 3 → F) (hX : Function.Injective X) (W : Fin 2 → F) (hW : Function.Injective W)
    (T1 T2 : Fin N → Fin (m + 2) → G) (th τ e : Fin N → Fin (m + 2) → Fin 3 → F)
    (l r : Fin N → Fin (m + 2) → Fin 3 → Fin 2 → Fin N → F)
    (hpoly : ∀ p q k, th p q k • B + τ p q k • Ht
      = (RangeExtract.dl blk pw (Y p) (Z q) • B + ∑ j : Fin m, Z q ^ (2 + (j : ℕ)) • V j)
        + X k • T1 p q + (X k * X k) • T2 p q)
    (hipp : ∀ p q k ω, A + X k • S - e p q k • Ht + (W ω * th p q k) • B - ∑ i : Fin N, Z q • g i
        + ∑ i : Fin N, (Z q + (Y p ^ (i : ℕ))⁻¹ * (Z q ^ 2 * Z q ^ (blk i : ℕ) * pw i)) • h i
      = (∑ i : Fin N, l p q k ω i • g i) + (∑ i : Fin N, (r p q k ω i * (Y p ^ (i : ℕ))⁻¹) • h i)
        + (W ω * ∑ i : Fin N, l p q k ω i * r p q k ω i) • B) :
    ∃ (v γ : Fin m → F) (bit : Fin N → F), (∀ j, V j = v j • B + γ j • Ht) ∧ (∀ i, bit i = 0 ∨ bit i = 1)
      ∧ ∀ j, v j = ∑ i with blk i = j, bit i * pw i :=
  RangeExtract.range_special_sound hN g h B Ht hind blk pw A S V Y hY hY0 Z hZ hZ0 X hX W hW T1 T2 th τ e l r
    hpoly hipp

/-! ## lengths (no size-hint assertion of the multiscalar multiplication can fire) -/

theorem sVector_length (allinv : F) (uSq : List F) : (sVector allinv uSq).length = 2 ^ uSq.length := by
  unfold sVector
  have key : ∀ (l : List F) (s : List F),
      (l.foldl (fun s usq => s ++ s.map (· * usq)) s).length = s.length * 2 ^ l.length := by
    intro l
    induction l with
    | nil => intro s; simp
    | cons u l ih =>
      intro s
      simp only [List.foldl_cons, ih, List.length_append, List.length_map, List.length_cons, pow_succ]
      ring
  rw [key]; simp

theorem ippChallenges_length (t : T) (l r : List Bytes) (h : l.length = r.length) :
    (ippChallenges (Sc := F) t l r).1.length = l.length := by
  induction l generalizing t r with
  | nil => cases r <;> simp [ippChallenges]
  | cons x xs ih =>
    cases r with
    | nil => simp at h
    | cons y ys =>
      simp only [ippChallenges, List.length_cons]
      rw [ih _ ys (by simpa using h)]

/-- `verification_scalars` returns `lg n` squares, `lg n` inverse squares and exactly `n` values `s_i` -/
theorem verificationScalars_lengths (n : ℕ) (t : T) (ipp : Ipp F G) (uSq uInvSq s : List F) (t' : T)
    (h : verificationScalars n t ipp = some (uSq, uInvSq, s, t')) :
    uSq.length = ipp.lB.length ∧ uInvSq.length = ipp.lB.length ∧ s.length = n ∧
    ipp.lB.length = ipp.rB.length ∧ 0 < ipp.lB.length ∧ ipp.lB.length < 32 := by
  unfold verificationScalars at h
  simp only at h
  split at h
  · cases h
  rename_i hlr
  split at h
  · cases h
  rename_i hlg
  split at h
  · cases h
  rename_i hn
  split at h
  · cases h
  simp only [Option.some.injEq, Prod.mk.injEq] at h
  obtain ⟨rfl, rfl, rfl, _⟩ := h
  have hlr' : ipp.lB.length = ipp.rB.length := by simpa using hlr
  have hl := ippChallenges_length (F := F) (T := T)
    (appendU64 (TranscriptOps.append t b!"dom-sep" b!"inner-product") b!"n" n) ipp.lB ipp.rB hlr'
  have hn' : n = 2 ^ ipp.lB.length := by simpa using hn
  refine ⟨by simp [hl], by simp [hl], ?_, hlr', by omega, by omega⟩
  rw [sVector_length, List.length_map, hl, ← hn']

end Zk.Props.C04

namespace Zk.Props.C04
open Zk Zk.Range
variable {F G T : Type} [Field F] [AddCommGroup G] [Module F G] [DecidableEq G]
  [PtCodec G] [ScCodec F] [PedGens G] [TranscriptOps T]

/-- **accept iff**: the instruction verifies exactly when the bytes have the exact length, the context
    is well formed with bit lengths summing to the width, the proof decodes, no commitment and none
    of `A, S, T₁, T₂` is the identity (for `Lⱼ, Rⱼ` this is part of `challenges = some _`), and the
    mega-check — `E_ipp − d•E_poly` by `mega_decompose` — vanishes.
    (`comms.length = bls.length`, `isPow2` and the length equality of the multiscalar operands are
    consequences of the other conjuncts — see `context_at_most_eight`, `verificationScalars_lengths` —
    and are kept literally so that the statement mirrors the code.) -/
theorem verify_ok_iff (gens : ℕ → List G × List G) (width : ℕ) (b : Bytes) :
    verifyProof F G T gens width b = true ↔
      b.length = 264 + proofLen width ∧
      ∃ comms bls pf c,
        parseContext (Pt := G) (b.take 264) = some (comms, bls) ∧ comms.length ≤ 8 ∧ bls.sum = width ∧
        parseProof (Sc := F) (Pt := G) (b.drop 264) = some pf ∧
        comms.length = bls.length ∧ (∀ V ∈ comms, V ≠ 0) ∧ isPow2 bls.sum = true ∧
        Sigma.isZeroEnc pf.aB = false ∧ Sigma.isZeroEnc pf.sB = false ∧
        Sigma.isZeroEnc pf.t1B = false ∧ Sigma.isZeroEnc pf.t2B = false ∧
        challenges (contextTranscript T (b.take 264)) bls.sum pf = some c ∧
        (megaScalars bls pf c).length = (megaPoints (gens width).1 (gens width).2 comms pf).length ∧
        msm (megaScalars bls pf c) (megaPoints (gens width).1 (gens width).2 comms pf) = 0 := by
  unfold verifyProof
  by_cases hl : b.length = 264 + proofLen width
  · simp only [hl, ne_eq, not_true_eq_false, if_false, true_and]
    cases hc : parseContext (Pt := G) (b.take 264) with
    | none => simp
    | some cb =>
      obtain ⟨comms, bls⟩ := cb
      simp only
      by_cases h8 : comms.length > 8
      · simp only [h8, if_true, Bool.false_eq_true, false_iff]
        rintro ⟨comms', bls', pf, c, he, h8', _⟩
        simp only [Option.some.injEq, Prod.mk.injEq] at he
        obtain ⟨rfl, rfl⟩ := he; omega
      · simp only [h8, if_false]
        by_cases hs : bls.sum = width
        · simp only [hs, not_true_eq_false, if_false]
          cases hp : parseProof (Sc := F) (Pt := G) (b.drop 264) with
          | none => simp
          | some pf =>
            simp only [verify]
            constructor
            · intro hv
              split at hv
              · cases hv
              rename_i h1
              split at hv
              · cases hv
              rename_i h2
              split at hv
              · cases hv
              rename_i h3
              split at hv
              · cases hv
              rename_i h4
              split at hv
              · cases hv
              rename_i c hch
              simp only [Bool.and_eq_true, beq_iff_eq] at hv
              refine ⟨comms, bls, pf, c, rfl, by omega, hs, rfl, by simpa using h1, ?_, by simpa using h3, ?_, ?_, ?_, ?_,
                hch, hv.1, hv.2⟩
              · intro V hV hV0
                apply h2
                rw [List.any_eq_true]; exact ⟨V, hV, by simp [hV0]⟩
              all_goals (simp only [Bool.or_eq_true, not_or, Bool.not_eq_true] at h4; simp [h4])
            · rintro ⟨comms', bls', pf', c, he, _, _, hpf, hlen, hV, hpow, ha, hs', ht1, ht2, hch, hl', hm⟩
              simp only [Option.some.injEq, Prod.mk.injEq] at he hpf
              obtain ⟨rfl, rfl⟩ := he
              subst hpf
              have hany : ¬ (comms.any (· == 0)) = true := by
                rw [List.any_eq_true]; rintro ⟨V, hV', h0⟩; exact hV V hV' (by simpa using h0)
              simp only [hlen, ne_eq, not_true_eq_false, if_false, hany, hpow, Bool.not_true,
                Bool.false_eq_true, ha, hs', ht1, ht2, Bool.or_self, hch, hl', beq_self_eq_true, hm, Bool.and_self]
        · simp only [hs, not_false_eq_true, if_true, Bool.false_eq_true, false_iff]
          rintro ⟨comms', bls', pf, c, he, _, hs', _⟩
          simp only [Option.some.injEq, Prod.mk.injEq] at he
          obtain ⟨rfl, rfl⟩ := he; exact hs hs'
  · simp [hl]

end Zk.Props.C04

namespace Zk.Props.C04
open Zk Zk.Range
variable {F G T : Type} [Field F] [AddCommGroup G] [Module F G] [DecidableEq G]
  [PtCodec G] [ScCodec F] [PedGens G] [TranscriptOps T]

/-! ## the challenges, unfolded -/

theorem challenges_some (t : T) (nm : ℕ) (pf : Proof F G) (c : Challenges F) (h : challenges t nm pf = some c) :
    let t := TranscriptOps.append t b!"dom-sep" b!"range-proof"
    let t := appendU64 t b!"n" nm
    let t := TranscriptOps.append t b!"A" pf.aB
    let t := TranscriptOps.append t b!"S" pf.sB
    let yt := challengeScalar (Sc := F) t b!"y"
    let zt := challengeScalar (Sc := F) yt.2 b!"z"
    let t := TranscriptOps.append zt.2 b!"T_1" pf.t1B
    let t := TranscriptOps.append t b!"T_2" pf.t2B
    let xt := challengeScalar (Sc := F) t b!"x"
    let t := appendScalar xt.2 b!"t_x" pf.tx
    let t := appendScalar t b!"t_x_blinding" pf.txBlinding
    let t := appendScalar t b!"e_blinding" pf.eBlinding
    let wt := challengeScalar (Sc := F) t b!"w"
    let ct := challengeScalar (Sc := F) wt.2 b!"c"
    ∃ uSq uInvSq s t' d, verificationScalars nm ct.2 pf.ipp = some (uSq, uInvSq, s, t') ∧
      c = ⟨yt.1, zt.1, xt.1, wt.1, d, uSq, uInvSq, s⟩ := by
  unfold challenges at h
  simp only at h ⊢
  split at h
  · cases h
  · rename_i uSq uInvSq s t' heq
    exact ⟨uSq, uInvSq, s, t', _, heq, (Option.some.inj h).symm⟩

theorem verificationScalars_some (n : ℕ) (t : T) (ipp : Ipp F G) (uSq uInvSq s : List F) (t' : T)
    (h : verificationScalars n t ipp = some (uSq, uInvSq, s, t')) :
    let us := (ippChallenges (Sc := F)
      (appendU64 (TranscriptOps.append t b!"dom-sep" b!"inner-product") b!"n" n) ipp.lB ipp.rB).1
    uSq = us.map (fun u => u * u) ∧ uInvSq = us.map (fun u => u⁻¹ * u⁻¹) ∧
    s = sVector ((us.foldl (· * ·) 1)⁻¹) (us.map fun u => u * u) ∧
    n = 2 ^ ipp.lB.length ∧ ipp.lB.length = ipp.rB.length := by
  unfold verificationScalars at h
  simp only at h
  split at h
  · cases h
  rename_i hlr
  split at h
  · cases h
  split at h
  · cases h
  rename_i hn
  split at h
  · cases h
  simp only [Option.some.injEq, Prod.mk.injEq] at h
  obtain ⟨rfl, rfl, rfl, _⟩ := h
  exact ⟨rfl, rfl, rfl, by simpa using hn, by simpa using hlr⟩


/-- the challenge trace used by the correspondence (`Range.challengeTrace`) is defined exactly when the
    verifier's challenges are, and lists the same `y z x w`, the legacy `c`, the inner-product challenges
    `u_j` whose squares / inverse squares are the ones the verifier uses, and the same `d` -/
theorem challengeTrace_spec (t : T) (nm : ℕ) (pf : Proof F G) :
    (challengeTrace t nm pf).isSome = (challenges t nm pf).isSome ∧
    ∀ c tr, challenges t nm pf = some c → challengeTrace t nm pf = some tr →
      ∃ (cl : F) (us : List F),
        tr = [("y", c.y), ("z", c.z), ("x", c.x), ("w", c.w), ("c", cl)] ++ us.map (fun u => ("u", u)) ++ [("d", c.d)] ∧
        c.uSq = us.map (fun u => u * u) ∧ c.uInvSq = us.map (fun u => u⁻¹ * u⁻¹) := by
  unfold challengeTrace challenges
  simp only
  split
  · rename_i h; simp [h]
  · rename_i uSq uInvSq s t' h
    simp only [h, Option.isSome_some, true_and]
    intro c tr hc htr
    simp only [Option.some.injEq] at hc htr
    subst hc htr
    obtain ⟨e1, e2, -, -, -⟩ := verificationScalars_some _ _ _ _ _ _ _ h
    exact ⟨_, _, rfl, e1, e2⟩

end Zk.Props.C04

namespace Zk.Props.C04.Example
open Zk.RangeExtract

/-! Non-vacuity of `range_special_sound`: over `F = ZMod 13`, `G = F⁴` with the standard basis as generators
    (independent), the transcripts of the honest prover for one 1-bit commitment to the value 1, on the grid
    `y ∈ {1}`, `z, x ∈ {1,2,3}`, `w ∈ {1,2}`, satisfy every hypothesis of the theorem. -/

abbrev TF := ZMod 13
instance : Fact (Nat.Prime 13) := ⟨by norm_num⟩
abbrev TG := TF × TF × TF × TF

def g : Fin 1 → TG := fun _ => (1, 0, 0, 0)
def h : Fin 1 → TG := fun _ => (0, 1, 0, 0)
def B : TG := (0, 0, 1, 0)
def Ht : TG := (0, 0, 0, 1)

theorem hind : GIndep TF g h B Ht := by
  intro a b β η e
  have e' : (a 0, b 0, β, η) = ((0, 0, 0, 0) : TG) := by
    have : glin g h B Ht a b β η = (a 0, b 0, β, η) := by simp [glin, g, h, B, Ht]
    rw [← this, e]; rfl
  simp only [Prod.mk.injEq] at e'
  refine ⟨funext fun i => ?_, funext fun i => ?_, e'.2.2.1, e'.2.2.2⟩
  · rw [Subsingleton.elim i 0]; exact e'.1
  · rw [Subsingleton.elim i 0]; exact e'.2.1

-- honest prover for one 1-bit commitment to the value 1
def α : TF := 2
def ρ : TF := 3
def sL : TF := 4
def sR : TF := 5
def γ : TF := 6
def τ1 : TF := 7
def τ2 : TF := 8
def A : TG := (1, 0, 0, α)
def S : TG := (sL, sR, 0, ρ)
def V : Fin 1 → TG := fun _ => (0, 0, 1, γ)
def Y : Fin 1 → TF := ![1]
def Z : Fin 3 → TF := ![1, 2, 3]
def X : Fin 3 → TF := ![1, 2, 3]
def W : Fin 2 → TF := ![1, 2]
def lv (q : Fin 3) (k : Fin 3) : TF := 1 - Z q + sL * X k
def rv (q : Fin 3) (k : Fin 3) : TF := Z q + sR * X k + Z q ^ 2
def t1 (q : Fin 3) : TF := (1 - Z q) * sR + sL * (Z q + Z q ^ 2)
def t2 : TF := sL * sR

example : ∃ (v γ' : Fin 1 → TF) (bit : Fin 1 → TF), (∀ j, V j = v j • B + γ' j • Ht) ∧ (∀ i, bit i = 0 ∨ bit i = 1)
      ∧ ∀ j, v j = ∑ i with (fun _ : Fin 1 => (0 : Fin 1)) i = j, bit i * (fun _ => (1 : TF)) i :=
  RangeExtract.range_special_sound (N := 1) (m := 1) (by norm_num) g h B Ht hind (fun _ => 0) (fun _ => 1) A S V
    Y (by decide) (by decide) Z (by decide) (by decide) X (by decide) W (by decide)
    (fun _ q => (0, 0, t1 q, τ1)) (fun _ _ => (0, 0, t2, τ2))
    (fun _ q k => lv q k * rv q k) (fun _ q k => Z q ^ 2 * γ + τ1 * X k + τ2 * (X k * X k)) (fun _ _ k => α + ρ * X k)
    (fun _ q k _ _ => lv q k) (fun _ q k _ _ => rv q k)
    (by decide +kernel) (by decide +kernel)

end Zk.Props.C04.Example

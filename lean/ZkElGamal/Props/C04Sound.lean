import ZkElGamal.Props.C04
import ZkElGamal.Proofs.RangeExtractModel
/-!
# C04 (continued) — special soundness stated on the verifier model's own expressions

`range_special_sound_model` is `range_special_sound` with every hypothesis written with the list-level
definitions the executable verifier uses (`delta`, `concatZAnd2`, `powers`, `msm`, `ipScalars`), so that
`hpoly` is literally the right-hand side of `Epoly_eq_zero_iff` and the left-hand side of `hipp` is literally the
statement `P` of `Eipp_eq_zero_iff` (via `hTriples_map`).
-/
set_option linter.unusedSectionVars false
namespace Zk.Props.C04
open Zk Zk.Range

variable {F G T : Type} [Field F] [AddCommGroup G] [Module F G] [DecidableEq G]
  [PtCodec G] [ScCodec F] [PedGens G] [TranscriptOps T]

local notation "Gp" => (PedGens.G : G)
local notation "Hp" => (PedGens.H : G)

omit [DecidableEq G] [PtCodec G] [PedGens G] [AddCommGroup G] [Module F G] in
/-- the `H_i` coefficients of the statement `P` in `Eipp_eq_zero_iff` do not involve the `s` vector -/
theorem hTriples_map (bls : List ℕ) (c : Challenges F) (hs : c.s.length = bls.sum) (f : F → F → F) :
    (hTriples bls c).map (fun t => f t.1.2 t.2)
      = List.zipWith f (powers c.y⁻¹ bls.sum) (concatZAnd2 c.z bls) := by
  apply List.ext_getElem
  · simp [hTriples, hs, concatZAnd2_length]
  · intro i h1 h2
    simp [hTriples]

/-- see `Zk.Range.range_special_sound_model` (`Proofs/RangeExtractModel.lean`): for bit lengths `bls`, commitments
    `comms` and generators `gG, gH` (independent together with the Pedersen generators), a grid of transcripts
    satisfying `Epoly = 0` and the opened inner-product relation forces every commitment to open to the weighted
    bit sum of its block (`blkFin` = commitment index of a position, `pwFin` = its power of two) -/
theorem range_special_sound_model [LawfulScCodec F] (bls : List ℕ) {N m : ℕ} (hN : bls.sum = N) (hm : bls.length = m)
    (hN0 : 0 < N) (gG gH comms : List G) (hG : gG.length = N) (hH : gH.length = N) (hC : comms.length = m)
    (hind : RangeExtract.GIndep F (fun i : Fin N => gG[i.1]'(hG ▸ i.2)) (fun i : Fin N => gH[i.1]'(hH ▸ i.2)) Gp Hp)
    (A S : G)
    (Y : Fin N → F) (hY : Function.Injective Y) (hY0 : ∀ p, Y p ≠ 0)
    (Z : Fin (m + 2) → F) (hZ : Function.Injective Z) (hZ0 : ∀ q, Z q ≠ 0)
    (X : Fin 3 → F) (hX : Function.Injective X) (W : Fin 2 → F) (hW : Function.Injective W)
    (T1 T2 : Fin N → Fin (m + 2) → G) (th τ e : Fin N → Fin (m + 2) → Fin 3 → F)
    (l r : Fin N → Fin (m + 2) → Fin 3 → Fin 2 → List F)
    (hl : ∀ p q k ω, (l p q k ω).length = N) (hr : ∀ p q k ω, (r p q k ω).length = N)
    (hpoly : ∀ p q k, th p q k • Gp + τ p q k • Hp
      = (delta bls (Y p) (Z q) • Gp + msm ((powers (Z q) m).map (Z q * Z q * ·)) comms)
        + X k • T1 p q + (X k * X k) • T2 p q)
    (hipp : ∀ p q k ω, A + X k • S - e p q k • Hp + (W ω * th p q k) • Gp - Z q • gG.sum
        + msm (List.zipWith (fun yi di => Z q + yi * (Z q * Z q * di)) (powers (Y p)⁻¹ N) (concatZAnd2 (Z q) bls)) gH
      = msm (l p q k ω) gG + msm (List.zipWith (· * ·) (r p q k ω) (powers (Y p)⁻¹ N)) gH
        + (W ω * ipScalars (l p q k ω) (r p q k ω)) • Gp) :
    ∃ (v γ : Fin m → F) (bit : Fin N → F),
      (∀ j : Fin m, comms[j.1]'(hC ▸ j.2) = v j • Gp + γ j • Hp) ∧ (∀ i, bit i = 0 ∨ bit i = 1) ∧
      ∀ j, v j = ∑ i with blkFin bls hN hm i = j, bit i * pwFin bls hN i :=
  Zk.Range.range_special_sound_model bls hN hm hN0 gG gH comms hG hH hC hind A S Y hY hY0 Z hZ hZ0 X hX W hW
    T1 T2 th τ e l r hl hr hpoly hipp

end Zk.Props.C04

import ZkElGamal.Proofs.SigmaC01
import ZkElGamal.Proofs.SigmaC02b
import ZkElGamal.Proofs.SigmaC03
import ZkElGamal.Proofs.Slices
import ZkElGamal.Props.C02
import ZkElGamal.Props.C03
import ZkElGamal.Props.C20
import ZkElGamal.Proofs.RangeProve
import ZkElGamal.Proofs.Toy
/-!
# C05 — every true statement with a valid witness can be proven, and the proof verifies

For each sigma instruction `X`, over the abstract instantiation with lawful codecs:

* `X.new_ok`      — a witness satisfying the relation makes the constructor succeed;
* `X.new_context` — the first bytes of the produced instruction are the encoding of the statement;
* `X.complete`    — the produced bytes verify (`verifyProof … = true`), for **all** keys, amounts
  (the `u64 → F` cast is only used as a function), openings and nonces, provided the statement
  is admitted by the identity policy and the masking commitments are not the identity
  (a nonce condition that fails with probability ≈ 2⁻²⁵² for honest randomness — stated, not hidden).

Also: `Validity.complete2/3`, `BatchedValidity.complete2/3` (lo/hi combined with the recomputed `t`),
`Cap.complete_below` (amount below the cap: equality branch real, max branch simulated) and
`Cap.complete_at` (amount = cap: max branch real, equality branch simulated, delta commitment free),
each with `new_context`. Range instructions: `Range.complete` (all three widths, every admissible split),
built on `Zk.Range.prove_complete` (bit-decomposition identity, inner-product folding, `s`-vector).

The model's prover and verifier recompute the same challenge from the same bytes; that the
*Rust* prover and verifier do is the correspondence part of the check.
-/
set_option linter.unusedSectionVars false
namespace Zk.Props.C05
open Zk Zk.Sigma

variable {F G T : Type} [Field F] [AddCommGroup G] [Module F G] [DecidableEq G]
  [PtCodec G] [ScCodec F] [PedGens G] [TranscriptOps T]
  [LawfulPtCodec G] [LawfulScCodec F] [LawfulLen F G]

local notation "Gp" => (PedGens.G : G)
local notation "Hp" => (PedGens.H : G)

theorem beq_false_of_ne {a b : G} (h : (!(a == b)) = true → False) : a = b := by
  by_contra hne; apply h; simp [hne]

/-! ## zero-ciphertext -/
namespace ZeroCt
open Sigma.ZeroCt

/-- constructor outcome: refused exactly when the ciphertext does not decrypt to the identity (C20) -/
theorem new_none_iff (s y : F) (P : G) (ct : Ct G) :
    new T s P ct y = none ↔ decryptTarget s ct ≠ 0 := by
  unfold new; split <;> simp_all

theorem new_ok (s y : F) (P : G) (ct : Ct G) (h : decryptTarget s ct = 0) :
    new T s P ct y = some (PtCodec.enc P ++ ct.enc ++ prove T s P ct y) := by
  unfold new; simp [h]

theorem new_context (s y : F) (P : G) (ct : Ct G) (b : Bytes) (h : new T s P ct y = some b) :
    b.take 96 = PtCodec.enc P ++ ct.enc := by
  have l := LawfulLen.pt_len (F := F) (G := G)
  unfold new at h; split at h
  · cases h
  · cases h
    have : (PtCodec.enc P ++ ct.enc : Bytes).length = 96 := by simp [Ct.enc, l]
    rw [List.append_assoc, ← List.append_assoc, List.take_left' this]

theorem complete (s y : F) (P : G) (ct : Ct G) (b : Bytes)
    (hnew : new T s P ct y = some b)
    (hs : s • P = Hp) (hP : P ≠ 0) (hC : ct.C ≠ 0) (hD : ct.D ≠ 0) (hy : y ≠ 0) :
    verifyProof F G T b = true := by
  have l := LawfulLen.pt_len (F := F) (G := G)
  have ls := LawfulLen.sc_len (F := F) (G := G)
  unfold new at hnew
  split at hnew
  · cases hnew
  · rename_i hdec
    have hdec : decryptTarget s ct = 0 := beq_false_of_ne hdec
    cases hnew
    set c : F := (challenges T P ct (PtCodec.enc (y • P)) (PtCodec.enc (y • ct.D)) (0 : F)).1 with hc
    have hparse : parse (Sc := F) (Pt := G)
        (PtCodec.enc P ++ ct.enc ++ prove T s P ct y) =
        some ⟨P, ct, PtCodec.enc (y • P), PtCodec.enc (y • ct.D), y • P, y • ct.D,
              (challenges T P ct (PtCodec.enc (y • P)) (PtCodec.enc (y • ct.D)) (0 : F)).1 * s + y⟩ := by
      obtain ⟨C, D⟩ := ct
      simp only [parse, prove, Ct.enc, List.append_assoc, List.length_append, l, ls, ptAt, scAt,
        slice_here, slice_here', slice_skip _ _ _ _ 32 (l _), Nat.reduceSub, Nat.reduceLeDiff, Nat.reduceAdd,
        LawfulPtCodec.dec_enc, LawfulScCodec.canon_enc, ne_eq, not_true_eq_false, if_false,
        Option.bind_eq_bind, Option.bind_some, Option.pure_def, challenges, challengeScalar]
    unfold verifyProof
    rw [hparse]
    have hYP : y • P ≠ 0 := smul_ne_zero hy hP
    have hpol := (policy_iff _ _ hparse).mpr ⟨hP, hC, hD, hYP⟩
    simp only [check, hpol, Bool.true_and, beq_iff_eq, equation_eq, E0, E1]
    have hcc : (challenges T P ct (PtCodec.enc (y • P)) (PtCodec.enc (y • ct.D))
        ((challenges T P ct (PtCodec.enc (y • P)) (PtCodec.enc (y • ct.D)) (0 : F)).1 * s + y)).1 = c := by
      simp only [hc, challenges, challengeScalar]
    rw [hcc]
    have hCD : ct.C = s • ct.D := sub_eq_zero.mp hdec
    rw [hCD, ← hs]
    module

end ZeroCt

/-! ## public-key validity -/
namespace PubkeyValidity
open Sigma.PubkeyValidity

/-- the constructor never refuses (there is no consistency check in the Rust either) -/
theorem new_ok (s y : F) (P : G) : new T s P y = some (PtCodec.enc P ++ prove T s P y) := rfl

theorem new_context (s y : F) (P : G) (b : Bytes) (h : new T s P y = some b) :
    b.take 32 = PtCodec.enc P := by
  have l := LawfulLen.pt_len (F := F) (G := G)
  cases h
  exact List.take_left' (l P)

theorem complete (s y : F) (P : G) (b : Bytes) (hnew : new T s P y = some b)
    (hs : s ≠ 0) (hP : P = s⁻¹ • Hp) (hP0 : P ≠ 0) (hy : y ≠ 0) :
    verifyProof F G T b = true := by
  have l := LawfulLen.pt_len (F := F) (G := G)
  have ls := LawfulLen.sc_len (F := F) (G := G)
  cases hnew
  have hH : Hp ≠ 0 := by
    intro h0; apply hP0; rw [hP, h0, smul_zero]
  have hparse : parse (Sc := F) (Pt := G) (PtCodec.enc P ++ prove T s P y) =
      some ⟨P, PtCodec.enc (y • Hp), y • Hp, challenge F T P (PtCodec.enc (y • Hp)) * s⁻¹ + y⟩ := by
    simp only [parse, prove, List.append_assoc, List.length_append, l, ls, ptAt, scAt,
      slice_here, slice_here', slice_skip _ _ _ _ 32 (l _), Nat.reduceSub, Nat.reduceLeDiff, Nat.reduceAdd,
      LawfulPtCodec.dec_enc, LawfulScCodec.canon_enc, ne_eq, not_true_eq_false, if_false,
      Option.bind_eq_bind, Option.bind_some, Option.pure_def]
  unfold verifyProof
  rw [hparse]
  have hY : y • Hp ≠ 0 := smul_ne_zero hy hH
  have hpol := (policy_iff _ _ hparse).mpr ⟨hP0, hY⟩
  simp only [check, hpol, Bool.true_and, beq_iff_eq, equation_eq, E0]
  rw [hP]; module

end PubkeyValidity

/-! ## ciphertext–ciphertext equality -/
namespace CtCtEq
open Sigma.CtCtEq

/-- refused exactly when the first ciphertext does not decrypt to `amount•G` under `s`, or the
    second is not the encryption of `amount` under `P2` with the given opening (C20) -/
theorem new_none_iff (s r ys yx yr : F) (P1 P2 : G) (ct1 ct2 : Ct G) (amount : ℕ) :
    new T s P1 P2 ct1 ct2 r amount ys yx yr = none ↔
      ¬ (decryptTarget s ct1 = (ScCodec.ofNat amount : F) • Gp ∧
         ct2.C = pedersenWith (ScCodec.ofNat amount : F) r ∧ ct2.D = decryptHandle P2 r) := by
  unfold new
  simp only [encryptWith]
  by_cases h1 : decryptTarget s ct1 = (ScCodec.ofNat amount : F) • Gp
  · by_cases h2 : ct2.C = pedersenWith (ScCodec.ofNat amount : F) r
    · by_cases h3 : ct2.D = decryptHandle P2 r
      · simp [h1, h2, h3]
      · simp [h1, h2, h3]
    · simp [h1, h2]
  · simp [h1]

theorem new_context (s r ys yx yr : F) (P1 P2 : G) (ct1 ct2 : Ct G) (amount : ℕ) (b : Bytes)
    (h : new T s P1 P2 ct1 ct2 r amount ys yx yr = some b) :
    b.take 192 = PtCodec.enc P1 ++ PtCodec.enc P2 ++ ct1.enc ++ ct2.enc := by
  have l := LawfulLen.pt_len (F := F) (G := G)
  unfold new at h
  simp only at h
  split at h
  · cases h
  · split at h
    · cases h
    · cases h
      have : (PtCodec.enc P1 ++ PtCodec.enc P2 ++ ct1.enc ++ ct2.enc : Bytes).length = 192 := by
        simp [Ct.enc, l]
      exact List.take_left' this

theorem complete (s r ys yx yr : F) (P1 P2 : G) (ct1 ct2 : Ct G) (amount : ℕ) (b : Bytes)
    (hnew : new T s P1 P2 ct1 ct2 r amount ys yx yr = some b)
    (hs : s • P1 = Hp) (hP1 : P1 ≠ 0) (hP2 : P2 ≠ 0) (hC1 : ct1.C ≠ 0) (hD1 : ct1.D ≠ 0)
    (hY0 : ys • P1 ≠ 0) (hY1 : msm [yx, ys] [Gp, ct1.D] ≠ 0)
    (hY2 : msm [yx, yr] [Gp, Hp] ≠ 0) (hY3 : yr • P2 ≠ 0) :
    verifyProof F G T b = true := by
  have l := LawfulLen.pt_len (F := F) (G := G)
  have ls := LawfulLen.sc_len (F := F) (G := G)
  have hn := (new_none_iff (T := T) s r ys yx yr P1 P2 ct1 ct2 amount).not
  rw [hnew] at hn
  simp only [reduceCtorEq, not_false_eq_true, not_not, true_iff] at hn
  obtain ⟨hdec, hC2, hD2⟩ := hn
  unfold new at hnew
  simp only at hnew
  split at hnew
  · cases hnew
  split at hnew
  · cases hnew
  cases hnew
  set x : F := ScCodec.ofNat amount with hx
  set y0 := PtCodec.enc (ys • P1) with hy0
  set y1 := PtCodec.enc (msm [yx, ys] [Gp, ct1.D]) with hy1
  set y2 := PtCodec.enc (msm [yx, yr] [Gp, Hp]) with hy2
  set y3 := PtCodec.enc (yr • P2) with hy3
  set c : F := (challenges T P1 P2 ct1 ct2 y0 y1 y2 y3 (0 : F) 0 0).1 with hc
  have hparse : parse (Sc := F) (Pt := G)
      (PtCodec.enc P1 ++ PtCodec.enc P2 ++ ct1.enc ++ ct2.enc ++ prove T s P1 P2 ct1 ct2 r x ys yx yr) =
      some ⟨P1, P2, ct1, ct2, y0, y1, y2, y3, ys • P1, msm [yx, ys] [Gp, ct1.D], msm [yx, yr] [Gp, Hp],
            yr • P2, c * s + ys, c * x + yx, c * r + yr⟩ := by
    obtain ⟨C1, D1⟩ := ct1
    obtain ⟨C2, D2⟩ := ct2
    simp only [parse, prove, Ct.enc, List.append_assoc, List.length_append, l, ls, ptAt, scAt,
      slice_here, slice_here', slice_skip _ _ _ _ 32 (l _), slice_skip _ _ _ _ 32 (ls _),
      Nat.reduceSub, Nat.reduceLeDiff, Nat.reduceAdd,
      LawfulPtCodec.dec_enc, LawfulScCodec.canon_enc, ne_eq, not_true_eq_false, if_false,
      Option.bind_eq_bind, Option.bind_some, Option.pure_def, challenges, challengeScalar,
      hy0, hy1, hy2, hy3, hc]
  unfold verifyProof
  rw [hparse]
  have hpol := (policy_iff _ _ hparse).mpr ⟨hP1, hP2, hC1, hD1, hY0, hY1, hY2, hY3⟩
  simp only [check, hpol, Bool.true_and, beq_iff_eq, equation_eq, E0, E1, E2, E3]
  have hcc : ∀ a b' d : F, (challenges T P1 P2 ct1 ct2 y0 y1 y2 y3 a b' d).1 = c := by
    intro a b' d; simp only [hc, challenges, challengeScalar]
  rw [hcc]
  have h1 : ct1.C = x • Gp + s • ct1.D := by
    have := hdec; simp only [decryptTarget] at this
    rw [← this]; module
  simp only [pedersenWith, decryptHandle, msm_cons_cons, msm_nil_left] at hC2 hD2
  rw [h1, hC2, hD2, ← hs]
  simp only [msm_cons_cons, msm_nil_left]
  module

end CtCtEq

/-! ## ciphertext–commitment equality -/
namespace CtCmtEq
open Sigma.CtCmtEq

theorem new_none_iff (s r ys yx yr : F) (P Cm : G) (ct : Ct G) (amount : ℕ) :
    new T s P ct Cm r amount ys yx yr = none ↔
      ¬ (decryptTarget s ct = (ScCodec.ofNat amount : F) • Gp ∧
         Cm = pedersenWith (ScCodec.ofNat amount : F) r) := by
  unfold new
  simp only
  by_cases h1 : decryptTarget s ct = (ScCodec.ofNat amount : F) • Gp
  · by_cases h2 : Cm = pedersenWith (ScCodec.ofNat amount : F) r
    · simp [h1, h2]
    · simp [h1, h2]
  · simp [h1]

theorem new_context (s r ys yx yr : F) (P Cm : G) (ct : Ct G) (amount : ℕ) (b : Bytes)
    (h : new T s P ct Cm r amount ys yx yr = some b) :
    b.take 128 = PtCodec.enc P ++ ct.enc ++ PtCodec.enc Cm := by
  have l := LawfulLen.pt_len (F := F) (G := G)
  unfold new at h
  simp only at h
  split at h
  · cases h
  · split at h
    · cases h
    · cases h
      have : (PtCodec.enc P ++ ct.enc ++ PtCodec.enc Cm : Bytes).length = 128 := by simp [Ct.enc, l]
      exact List.take_left' this

theorem complete (s r ys yx yr : F) (P Cm : G) (ct : Ct G) (amount : ℕ) (b : Bytes)
    (hnew : new T s P ct Cm r amount ys yx yr = some b)
    (hs : s • P = Hp) (hP : P ≠ 0) (hC : ct.C ≠ 0) (hD : ct.D ≠ 0) (hCm : Cm ≠ 0)
    (hY0 : ys • P ≠ 0) (hY1 : msm [yx, ys] [Gp, ct.D] ≠ 0) (hY2 : msm [yx, yr] [Gp, Hp] ≠ 0) :
    verifyProof F G T b = true := by
  have l := LawfulLen.pt_len (F := F) (G := G)
  have ls := LawfulLen.sc_len (F := F) (G := G)
  have hn := (new_none_iff (T := T) s r ys yx yr P Cm ct amount).not
  rw [hnew] at hn
  simp only [reduceCtorEq, not_false_eq_true, not_not, true_iff] at hn
  obtain ⟨hdec, hCmeq⟩ := hn
  unfold new at hnew
  simp only at hnew
  split at hnew
  · cases hnew
  split at hnew
  · cases hnew
  cases hnew
  set x : F := ScCodec.ofNat amount with hx
  set y0 := PtCodec.enc (ys • P) with hy0
  set y1 := PtCodec.enc (msm [yx, ys] [Gp, ct.D]) with hy1
  set y2 := PtCodec.enc (msm [yx, yr] [Gp, Hp]) with hy2
  set c : F := (challenges T P ct Cm y0 y1 y2 (0 : F) 0 0).1 with hc
  have hparse : parse (Sc := F) (Pt := G)
      (PtCodec.enc P ++ ct.enc ++ PtCodec.enc Cm ++ prove T s P ct Cm r x ys yx yr) =
      some ⟨P, ct, Cm, y0, y1, y2, ys • P, msm [yx, ys] [Gp, ct.D], msm [yx, yr] [Gp, Hp],
            c * s + ys, c * x + yx, c * r + yr⟩ := by
    obtain ⟨C, D⟩ := ct
    simp only [parse, prove, Ct.enc, List.append_assoc, List.length_append, l, ls, ptAt, scAt,
      slice_here, slice_here', slice_skip _ _ _ _ 32 (l _), slice_skip _ _ _ _ 32 (ls _),
      Nat.reduceSub, Nat.reduceLeDiff, Nat.reduceAdd,
      LawfulPtCodec.dec_enc, LawfulScCodec.canon_enc, ne_eq, not_true_eq_false, if_false,
      Option.bind_eq_bind, Option.bind_some, Option.pure_def, challenges, challengeScalar,
      hy0, hy1, hy2, hc]
  unfold verifyProof
  rw [hparse]
  have hpol := (policy_iff _ _ hparse).mpr ⟨hP, hC, hD, hCm, hY0, hY1, hY2⟩
  simp only [check, hpol, Bool.true_and, beq_iff_eq, equation_eq, E0, E1, E2]
  have hcc : ∀ a b' d : F, (challenges T P ct Cm y0 y1 y2 a b' d).1 = c := by
    intro a b' d; simp only [hc, challenges, challengeScalar]
  rw [hcc]
  have h1 : ct.C = x • Gp + s • ct.D := by
    have := hdec; simp only [decryptTarget] at this
    rw [← this]; module
  simp only [pedersenWith, msm_cons_cons, msm_nil_left] at hCmeq
  rw [h1, hCmeq, ← hs]
  simp only [msm_cons_cons, msm_nil_left]
  module

end CtCmtEq

/-! ## grouped-ciphertext validity, batched validity, percentage-with-cap: byte-level completeness -/
section more
variable [DecidableEq F]

namespace Validity
open Sigma.Validity

/-- the produced bytes start with the statement encoding (keys, grouped ciphertext), any handle count -/
theorem new_context (n : ℕ) (Ps : List G) (g : GCt G) (amount : ℕ) (r yr yx : F) (b : Bytes)
    (h : Validity.new T n Ps g amount r yr yx = some b) :
    ∃ pf : Bytes, b = (Ps.map PtCodec.enc).flatten ++ g.enc ++ pf := by
  unfold Validity.new at h
  simp only at h
  split at h
  · cases h
  · cases h; exact ⟨_, rfl⟩

theorem complete2 (P1 P2 : G) (g : GCt G) (amount : ℕ) (r yr yx : F) (b : Bytes)
    (hnew : Validity.new T 2 [P1, P2] g amount r yr yx = some b)
    (hP1 : P1 ≠ 0) (hC : g.C ≠ 0)
    (hY0 : msm [yr, yx] [Hp, Gp] ≠ 0) (hY1 : yr • P1 ≠ 0) :
    Validity.verifyProof F G T 2 b = true := by
  have l := LawfulLen.pt_len (F := F) (G := G)
  have ls := LawfulLen.sc_len (F := F) (G := G)
  have hg : g = groupedEncryptWith [P1, P2] (ScCodec.ofNat amount : F) r := by
    by_contra hne
    have := (C20.validity_new_none_iff (T := T) 2 [P1, P2] g amount r yr yx).mpr hne
    rw [hnew] at this; cases this
  set x : F := ScCodec.ofNat amount with hx
  subst hg
  unfold Validity.new at hnew
  simp only [← hx] at hnew
  split at hnew
  · cases hnew
  cases hnew
  set C : G := pedersenWith x r with hCdef
  set Y0 : G := msm [yr, yx] [Hp, Gp] with hY0def
  set t0 : T := Validity.transcript0 T 2 [P1, P2] (groupedEncryptWith [P1, P2] x r) with ht0
  -- the prover's challenge
  set c : F := (challengesDirect 2 t0
      (⟨[PtCodec.enc Y0, PtCodec.enc (yr • P1), PtCodec.enc (yr • P2)], [], 0, 0⟩ : Validity.Proof F G)).1 with hc
  apply (C02.verify2_ok_iff _).mpr
  refine ⟨⟨P1, P2, C, r • P1, r • P2, Y0, yr • P1, yr • P2, c * r + yr, c * x + yx⟩, ?_, hP1, ?_, hY0, hY1, ?_⟩
  · simp only [Fields2.decodes, groupedEncryptWith, decryptHandle, GCt.enc, proveDirect, List.map_cons, List.map_nil,
      List.flatten_cons, List.flatten_nil, List.append_nil, List.append_assoc, List.length_append, l, ls,
      ptAt, scAt, slice_here, slice_here', slice_skip _ _ _ _ 32 (l _), slice_skip _ _ _ _ 32 (ls _),
      Nat.reduceSub, Nat.reduceLeDiff, Nat.reduceAdd, LawfulPtCodec.dec_enc, LawfulScCodec.canon_enc,
      List.getD_cons_zero, List.getD_cons_succ, show ¬ (2 = 3) by decide, if_false, challengeScalar,
      hc, challengesDirect, ht0, hCdef, hY0def, true_and, and_self, and_true]
  · simpa [groupedEncryptWith] using hC
  · simp only [Fields2.parsed]
    have hsl : [slice (([P1, P2].map PtCodec.enc).flatten ++ (groupedEncryptWith [P1, P2] x r).enc ++
          proveDirect 2 t0 [P1, P2] x r yr yx) 160 32,
        slice (([P1, P2].map PtCodec.enc).flatten ++ (groupedEncryptWith [P1, P2] x r).enc ++
          proveDirect 2 t0 [P1, P2] x r yr yx) 192 32,
        slice (([P1, P2].map PtCodec.enc).flatten ++ (groupedEncryptWith [P1, P2] x r).enc ++
          proveDirect 2 t0 [P1, P2] x r yr yx) 224 32]
        = [PtCodec.enc Y0, PtCodec.enc (yr • P1), PtCodec.enc (yr • P2)] := by
      simp only [groupedEncryptWith, decryptHandle, GCt.enc, proveDirect, List.map_cons, List.map_nil,
        List.flatten_cons, List.flatten_nil, List.append_nil, List.append_assoc, l, ls,
        slice_here, slice_here', slice_skip _ _ _ _ 32 (l _), Nat.reduceSub, Nat.reduceLeDiff, hY0def]
    rw [hsl]
    have hcc : ∀ (Ys : List G) (a b' : F), (challengesDirect 2 t0
        (⟨[PtCodec.enc Y0, PtCodec.enc (yr • P1), PtCodec.enc (yr • P2)], Ys, a, b'⟩ : Validity.Proof F G)).1 = c := by
      intro Ys a b'; simp only [hc, challengesDirect, challengeScalar]
    simp only [groupedEncryptWith, decryptHandle, List.map_cons, List.map_nil] at ht0 ⊢
    rw [← ht0, hcc]
    generalize (challengesDirect 2 t0 (_ : Validity.Proof F G)).2 = w
    simp only [E0, Eh, hCdef, hY0def, pedersenWith, msm_cons_cons, msm_nil_left]
    module

theorem complete3 (P1 P2 P3 : G) (g : GCt G) (amount : ℕ) (r yr yx : F) (b : Bytes)
    (hnew : Validity.new T 3 [P1, P2, P3] g amount r yr yx = some b)
    (hP1 : P1 ≠ 0) (hP2 : P2 ≠ 0) (hC : g.C ≠ 0)
    (hY0 : msm [yr, yx] [Hp, Gp] ≠ 0) (hY1 : yr • P1 ≠ 0) (hY2 : yr • P2 ≠ 0) :
    Validity.verifyProof F G T 3 b = true := by
  have l := LawfulLen.pt_len (F := F) (G := G)
  have ls := LawfulLen.sc_len (F := F) (G := G)
  have hg : g = groupedEncryptWith [P1, P2, P3] (ScCodec.ofNat amount : F) r := by
    by_contra hne
    have := (C20.validity_new_none_iff (T := T) 3 [P1, P2, P3] g amount r yr yx).mpr hne
    rw [hnew] at this; cases this
  set x : F := ScCodec.ofNat amount with hx
  subst hg
  unfold Validity.new at hnew
  simp only [← hx] at hnew
  split at hnew
  · cases hnew
  cases hnew
  set C : G := pedersenWith x r with hCdef
  set Y0 : G := msm [yr, yx] [Hp, Gp] with hY0def
  set t0 : T := Validity.transcript0 T 3 [P1, P2, P3] (groupedEncryptWith [P1, P2, P3] x r) with ht0
  set c : F := (challengesDirect 3 t0
      (⟨[PtCodec.enc Y0, PtCodec.enc (yr • P1), PtCodec.enc (yr • P2), PtCodec.enc (yr • P3)], [], 0, 0⟩ :
        Validity.Proof F G)).1 with hc
  apply (C02.verify3_ok_iff _).mpr
  refine ⟨⟨P1, P2, P3, C, r • P1, r • P2, r • P3, Y0, yr • P1, yr • P2, yr • P3, c * r + yr, c * x + yx⟩,
    ?_, hP1, hP2, ?_, hY0, hY1, hY2, ?_⟩
  · simp only [Fields3.decodes, groupedEncryptWith, decryptHandle, GCt.enc, proveDirect, List.map_cons, List.map_nil,
      List.flatten_cons, List.flatten_nil, List.append_nil, List.append_assoc, List.length_append, l, ls,
      ptAt, scAt, slice_here, slice_here', slice_skip _ _ _ _ 32 (l _), slice_skip _ _ _ _ 32 (ls _),
      Nat.reduceSub, Nat.reduceLeDiff, Nat.reduceAdd, LawfulPtCodec.dec_enc, LawfulScCodec.canon_enc,
      List.getD_cons_zero, List.getD_cons_succ, if_true, challengeScalar,
      hc, challengesDirect, ht0, hCdef, hY0def, true_and, and_self, and_true]
  · simpa [groupedEncryptWith] using hC
  · simp only [Fields3.parsed]
    have hsl : [slice (([P1, P2, P3].map PtCodec.enc).flatten ++ (groupedEncryptWith [P1, P2, P3] x r).enc ++
          proveDirect 3 t0 [P1, P2, P3] x r yr yx) 224 32,
        slice (([P1, P2, P3].map PtCodec.enc).flatten ++ (groupedEncryptWith [P1, P2, P3] x r).enc ++
          proveDirect 3 t0 [P1, P2, P3] x r yr yx) 256 32,
        slice (([P1, P2, P3].map PtCodec.enc).flatten ++ (groupedEncryptWith [P1, P2, P3] x r).enc ++
          proveDirect 3 t0 [P1, P2, P3] x r yr yx) 288 32,
        slice (([P1, P2, P3].map PtCodec.enc).flatten ++ (groupedEncryptWith [P1, P2, P3] x r).enc ++
          proveDirect 3 t0 [P1, P2, P3] x r yr yx) 320 32]
        = [PtCodec.enc Y0, PtCodec.enc (yr • P1), PtCodec.enc (yr • P2), PtCodec.enc (yr • P3)] := by
      simp only [groupedEncryptWith, decryptHandle, GCt.enc, proveDirect, List.map_cons, List.map_nil,
        List.flatten_cons, List.flatten_nil, List.append_nil, List.append_assoc, l, ls,
        slice_here, slice_here', slice_skip _ _ _ _ 32 (l _), Nat.reduceSub, Nat.reduceLeDiff, hY0def]
    rw [hsl]
    have hcc : ∀ (Ys : List G) (a b' : F), (challengesDirect 3 t0
        (⟨[PtCodec.enc Y0, PtCodec.enc (yr • P1), PtCodec.enc (yr • P2), PtCodec.enc (yr • P3)], Ys, a, b'⟩ :
          Validity.Proof F G)).1 = c := by
      intro Ys a b'; simp only [hc, challengesDirect, challengeScalar]
    simp only [groupedEncryptWith, decryptHandle, List.map_cons, List.map_nil] at ht0 ⊢
    rw [← ht0, hcc]
    generalize (challengesDirect 3 t0 (_ : Validity.Proof F G)).2 = w
    simp only [E0, Eh, hCdef, hY0def, pedersenWith, msm_cons_cons, msm_nil_left]
    module

end Validity

namespace BatchedValidity
open Sigma.Validity

theorem new_context (n : ℕ) (Ps : List G) (lo hi : GCt G) (aLo aHi : ℕ) (rLo rHi yr yx : F) (b : Bytes)
    (h : BatchedValidity.new T n Ps lo hi aLo aHi rLo rHi yr yx = some b) :
    ∃ pf : Bytes, b = (Ps.map PtCodec.enc).flatten ++ lo.enc ++ hi.enc ++ pf := by
  unfold BatchedValidity.new at h
  simp only at h
  split at h
  · cases h
  · split at h
    · cases h
    · cases h; exact ⟨_, rfl⟩

theorem complete2 (P1 P2 : G) (lo hi : GCt G) (aLo aHi : ℕ) (rLo rHi yr yx : F) (b : Bytes)
    (hnew : BatchedValidity.new T 2 [P1, P2] lo hi aLo aHi rLo rHi yr yx = some b)
    (hP1 : P1 ≠ 0) (hCl : lo.C ≠ 0) (hCh : hi.C ≠ 0)
    (hY0 : msm [yr, yx] [Hp, Gp] ≠ 0) (hY1 : yr • P1 ≠ 0) :
    BatchedValidity.verifyProof F G T 2 b = true := by
  have l := LawfulLen.pt_len (F := F) (G := G)
  have ls := LawfulLen.sc_len (F := F) (G := G)
  have hg : lo = groupedEncryptWith [P1, P2] (ScCodec.ofNat aLo : F) rLo ∧
      hi = groupedEncryptWith [P1, P2] (ScCodec.ofNat aHi : F) rHi := by
    by_contra hne
    have := (C20.batched_validity_new_none_iff (T := T) 2 [P1, P2] lo hi aLo aHi rLo rHi yr yx).mpr hne
    rw [hnew] at this; cases this
  set xl : F := ScCodec.ofNat aLo with hxl
  set xh : F := ScCodec.ofNat aHi with hxh
  obtain ⟨h1, h2⟩ := hg
  subst h1 h2
  unfold BatchedValidity.new at hnew
  simp only [← hxl, ← hxh] at hnew
  split at hnew
  · cases hnew
  split at hnew
  · cases hnew
  cases hnew
  set Y0 : G := msm [yr, yx] [Hp, Gp] with hY0def
  set tt : F × T := BatchedValidity.challengeT (Sc := F) T 2 [P1, P2] (groupedEncryptWith [P1, P2] xl rLo)
    (groupedEncryptWith [P1, P2] xh rHi) with htt
  set c : F := (challengesDirect 2 tt.2
      (⟨[PtCodec.enc Y0, PtCodec.enc (yr • P1), PtCodec.enc (yr • P2)], [], 0, 0⟩ : Validity.Proof F G)).1 with hc
  apply (C02.bverify2_ok_iff _).mpr
  refine ⟨⟨P1, P2, pedersenWith xl rLo, rLo • P1, rLo • P2, pedersenWith xh rHi, rHi • P1, rHi • P2,
    Y0, yr • P1, yr • P2, c * (rLo + rHi * tt.1) + yr, c * (xl + xh * tt.1) + yx⟩, ?_, hP1, ?_, ?_, hY0, hY1, ?_⟩
  · simp only [BFields2.decodes, groupedEncryptWith, decryptHandle, GCt.enc, proveDirect, List.map_cons, List.map_nil,
      List.flatten_cons, List.flatten_nil, List.append_nil, List.append_assoc, List.length_append, l, ls,
      ptAt, scAt, slice_here, slice_here', slice_skip _ _ _ _ 32 (l _), slice_skip _ _ _ _ 32 (ls _),
      Nat.reduceSub, Nat.reduceLeDiff, Nat.reduceAdd, LawfulPtCodec.dec_enc, LawfulScCodec.canon_enc,
      List.getD_cons_zero, List.getD_cons_succ, show ¬ (2 = 3) by decide, if_false, challengeScalar,
      hc, challengesDirect, htt, hY0def, true_and, and_self, and_true]
  · simpa [groupedEncryptWith] using hCl
  · simpa [groupedEncryptWith] using hCh
  · simp only [BFields2.parsed]
    have hsl : ∀ X : Bytes, X = ([P1, P2].map PtCodec.enc).flatten ++ (groupedEncryptWith [P1, P2] xl rLo).enc ++
          (groupedEncryptWith [P1, P2] xh rHi).enc ++
          proveDirect 2 tt.2 [P1, P2] (xl + xh * tt.1) (rLo + rHi * tt.1) yr yx →
        [slice X 256 32, slice X 288 32, slice X 320 32]
        = [PtCodec.enc Y0, PtCodec.enc (yr • P1), PtCodec.enc (yr • P2)] := by
      intro X hX; subst hX
      simp only [groupedEncryptWith, decryptHandle, GCt.enc, proveDirect, List.map_cons, List.map_nil,
        List.flatten_cons, List.flatten_nil, List.append_nil, List.append_assoc, l, ls,
        slice_here, slice_here', slice_skip _ _ _ _ 32 (l _), Nat.reduceSub, Nat.reduceLeDiff, hY0def]
    rw [hsl _ rfl]
    have hcc : ∀ (Ys : List G) (a b' : F), (challengesDirect 2 tt.2
        (⟨[PtCodec.enc Y0, PtCodec.enc (yr • P1), PtCodec.enc (yr • P2)], Ys, a, b'⟩ : Validity.Proof F G)).1 = c := by
      intro Ys a b'; simp only [hc, challengesDirect, challengeScalar]
    simp only [groupedEncryptWith, decryptHandle, List.map_cons, List.map_nil] at htt ⊢
    rw [← htt, hcc]
    generalize (challengesDirect 2 tt.2 (_ : Validity.Proof F G)).2 = w
    generalize tt.1 = t
    simp only [E0, Eh, hY0def, pedersenWith, msm_cons_cons, msm_nil_left]
    module

theorem complete3 (P1 P2 P3 : G) (lo hi : GCt G) (aLo aHi : ℕ) (rLo rHi yr yx : F) (b : Bytes)
    (hnew : BatchedValidity.new T 3 [P1, P2, P3] lo hi aLo aHi rLo rHi yr yx = some b)
    (hP1 : P1 ≠ 0) (hP2 : P2 ≠ 0) (hCl : lo.C ≠ 0) (hCh : hi.C ≠ 0)
    (hY0 : msm [yr, yx] [Hp, Gp] ≠ 0) (hY1 : yr • P1 ≠ 0) (hY2 : yr • P2 ≠ 0) :
    BatchedValidity.verifyProof F G T 3 b = true := by
  have l := LawfulLen.pt_len (F := F) (G := G)
  have ls := LawfulLen.sc_len (F := F) (G := G)
  have hg : lo = groupedEncryptWith [P1, P2, P3] (ScCodec.ofNat aLo : F) rLo ∧
      hi = groupedEncryptWith [P1, P2, P3] (ScCodec.ofNat aHi : F) rHi := by
    by_contra hne
    have := (C20.batched_validity_new_none_iff (T := T) 3 [P1, P2, P3] lo hi aLo aHi rLo rHi yr yx).mpr hne
    rw [hnew] at this; cases this
  set xl : F := ScCodec.ofNat aLo with hxl
  set xh : F := ScCodec.ofNat aHi with hxh
  obtain ⟨h1, h2⟩ := hg
  subst h1 h2
  unfold BatchedValidity.new at hnew
  simp only [← hxl, ← hxh] at hnew
  split at hnew
  · cases hnew
  split at hnew
  · cases hnew
  cases hnew
  set Y0 : G := msm [yr, yx] [Hp, Gp] with hY0def
  set tt : F × T := BatchedValidity.challengeT (Sc := F) T 3 [P1, P2, P3] (groupedEncryptWith [P1, P2, P3] xl rLo)
    (groupedEncryptWith [P1, P2, P3] xh rHi) with htt
  set c : F := (challengesDirect 3 tt.2
      (⟨[PtCodec.enc Y0, PtCodec.enc (yr • P1), PtCodec.enc (yr • P2), PtCodec.enc (yr • P3)], [], 0, 0⟩ : Validity.Proof F G)).1 with hc
  apply (C02.bverify3_ok_iff _).mpr
  refine ⟨⟨P1, P2, P3, pedersenWith xl rLo, rLo • P1, rLo • P2, rLo • P3, pedersenWith xh rHi, rHi • P1, rHi • P2, rHi • P3,
    Y0, yr • P1, yr • P2, yr • P3, c * (rLo + rHi * tt.1) + yr, c * (xl + xh * tt.1) + yx⟩, ?_, hP1, hP2, ?_, ?_, hY0, hY1, hY2, ?_⟩
  · simp only [BFields3.decodes, groupedEncryptWith, decryptHandle, GCt.enc, proveDirect, List.map_cons, List.map_nil,
      List.flatten_cons, List.flatten_nil, List.append_nil, List.append_assoc, List.length_append, l, ls,
      ptAt, scAt, slice_here, slice_here', slice_skip _ _ _ _ 32 (l _), slice_skip _ _ _ _ 32 (ls _),
      Nat.reduceSub, Nat.reduceLeDiff, Nat.reduceAdd, LawfulPtCodec.dec_enc, LawfulScCodec.canon_enc,
      List.getD_cons_zero, List.getD_cons_succ, if_true, challengeScalar,
      hc, challengesDirect, htt, hY0def, true_and, and_self, and_true]
  · simpa [groupedEncryptWith] using hCl
  · simpa [groupedEncryptWith] using hCh
  · simp only [BFields3.parsed]
    have hsl : ∀ X : Bytes, X = ([P1, P2, P3].map PtCodec.enc).flatten ++ (groupedEncryptWith [P1, P2, P3] xl rLo).enc ++
          (groupedEncryptWith [P1, P2, P3] xh rHi).enc ++
          proveDirect 3 tt.2 [P1, P2, P3] (xl + xh * tt.1) (rLo + rHi * tt.1) yr yx →
        [slice X 352 32, slice X 384 32, slice X 416 32, slice X 448 32]
        = [PtCodec.enc Y0, PtCodec.enc (yr • P1), PtCodec.enc (yr • P2), PtCodec.enc (yr • P3)] := by
      intro X hX; subst hX
      simp only [groupedEncryptWith, decryptHandle, GCt.enc, proveDirect, List.map_cons, List.map_nil,
        List.flatten_cons, List.flatten_nil, List.append_nil, List.append_assoc, l, ls,
        slice_here, slice_here', slice_skip _ _ _ _ 32 (l _), Nat.reduceSub, Nat.reduceLeDiff, hY0def]
    rw [hsl _ rfl]
    have hcc : ∀ (Ys : List G) (a b' : F), (challengesDirect 3 tt.2
        (⟨[PtCodec.enc Y0, PtCodec.enc (yr • P1), PtCodec.enc (yr • P2), PtCodec.enc (yr • P3)], Ys, a, b'⟩ : Validity.Proof F G)).1 = c := by
      intro Ys a b'; simp only [hc, challengesDirect, challengeScalar]
    simp only [groupedEncryptWith, decryptHandle, List.map_cons, List.map_nil] at htt ⊢
    rw [← htt, hcc]
    generalize (challengesDirect 3 tt.2 (_ : Validity.Proof F G)).2 = w
    generalize tt.1 = t
    simp only [E0, Eh, hY0def, pedersenWith, msm_cons_cons, msm_nil_left]
    module

end BatchedValidity

namespace Cap
open Sigma.Cap

theorem new_context (Cm Cd Cc : G) (mx pct delta : ℕ) (rp rd rc : F) (n : Cap.Nonces F) (b : Bytes)
    (h : Cap.new T Cm Cd Cc mx pct delta rp rd rc n = some b) :
    ∃ pf : Bytes, b = PtCodec.enc Cm ++ PtCodec.enc Cd ++ PtCodec.enc Cc ++ natLE mx 8 ++ pf := by
  unfold Cap.new at h
  split at h
  · cases h
  · split at h
    · cases h
    · split at h
      · cases h
      · cases h; exact ⟨_, rfl⟩

theorem complete_below (Cm Cd Cc : G) (mx pct delta : ℕ) (rp rd rc : F) (n : Cap.Nonces F) (b : Bytes)
    (hnew : Cap.new T Cm Cd Cc mx pct delta rp rd rc n = some b)
    (hlt : pct < mx) (hmx : mx < 2 ^ 64)
    (hCm : Cm ≠ 0) (hCd : Cd ≠ 0) (hCc : Cc ≠ 0)
    (hYm : msm [n.b_zm, -n.b_cmax, n.b_cmax * (ScCodec.ofNat mx : F)] [Hp, Cm, Gp] ≠ 0)
    (hYd : msm [n.b_yx, n.b_yd] [Gp, Hp] ≠ 0) (hYc : msm [n.b_yx, n.b_yc] [Gp, Hp] ≠ 0) :
    Cap.verifyProof F G T b = true := by
  have l := LawfulLen.pt_len (F := F) (G := G)
  have ls := LawfulLen.sc_len (F := F) (G := G)
  have hrel : Cm = pedersenWith (ScCodec.ofNat pct : F) rp ∧
         (pct < mx → Cd = pedersenWith (ScCodec.ofNat delta : F) rd) ∧
         Cc = pedersenWith (ScCodec.ofNat delta : F) rc := by
    by_contra hne
    have := (C20.cap_new_none_iff (T := T) Cm Cd Cc mx pct delta rp rd rc n).mpr hne
    rw [hnew] at this; cases this
  obtain ⟨h1, h2, h3⟩ := hrel
  have h2 := h2 hlt
  unfold Cap.new at hnew
  split at hnew
  · cases hnew
  split at hnew
  · cases hnew
  split at hnew
  · cases hnew
  cases hnew
  set x : F := ScCodec.ofNat delta with hx
  set m : F := ScCodec.ofNat mx with hm
  set Ym : G := msm [n.b_zm, -n.b_cmax, n.b_cmax * m] [Hp, Cm, Gp] with hYmdef
  set Yd : G := msm [n.b_yx, n.b_yd] [Gp, Hp] with hYddef
  set Yc : G := msm [n.b_yx, n.b_yc] [Gp, Hp] with hYcdef
  set c : F := (challengeC F T Cm Cd Cc mx (PtCodec.enc Ym) (PtCodec.enc Yd) (PtCodec.enc Yc)).1 with hc
  apply (C03.verify_ok_iff _).mpr
  refine ⟨⟨Cm, Cd, Cc, mx, PtCodec.enc Ym, PtCodec.enc Yd, PtCodec.enc Yc, Ym, Yd, Yc,
    n.b_zm, n.b_cmax, (c - n.b_cmax) * x + n.b_yx, (c - n.b_cmax) * rd + n.b_yd, (c - n.b_cmax) * rc + n.b_yc⟩,
    ?_, hCm, hCd, hCc, hYm, hYd, hYc, ?_⟩
  · apply (C03.parse_spec _ _).mpr
    simp only [prove, hlt, gt_iff_lt, if_true, proveBelowMax, encodeProof,
      List.append_assoc, List.length_append, l, ls, natLE_length,
      ptAt, scAt, slice_here, slice_here', slice_skip _ _ _ _ 32 (l _), slice_skip _ _ _ _ 32 (ls _),
      slice_skip _ _ _ _ 8 (natLE_length _ _),
      Nat.reduceSub, Nat.reduceLeDiff, Nat.reduceAdd, LawfulPtCodec.dec_enc, LawfulScCodec.canon_enc,
      natLE_leNat mx 8 (by simpa using hmx), ← hm, ← hx, ← hYmdef, ← hYddef, ← hYcdef, ← hc, true_and, and_self, and_true]
  · have hc1 : ∀ p : Cap.Parsed F G, (challenges T p).1 =
        (challengeC F T p.Cm p.Cd p.Cc p.maxValue p.ymB p.ydB p.ycB).1 := by
      intro p; simp only [challenges, challengeScalar]
    simp only [hc1, ← hc]
    generalize (challenges T (_ : Cap.Parsed F G)).2 = w
    simp only [Emax, Edelta, Eclaimed, hYmdef, hYddef, hYcdef, h1, h2, h3, pedersenWith, msm_cons_cons, msm_nil_left]
    module

/-- at the cap (`percentage_amount = max_value`): the max branch is real, the equality branch is
    simulated, so the delta commitment is unconstrained -/
theorem complete_at (Cm Cd Cc : G) (mx delta : ℕ) (rp rd rc : F) (n : Cap.Nonces F) (b : Bytes)
    (hnew : Cap.new T Cm Cd Cc mx mx delta rp rd rc n = some b)
    (hmx : mx < 2 ^ 64)
    (hCm : Cm ≠ 0) (hCd : Cd ≠ 0) (hCc : Cc ≠ 0)
    (hYm : n.a_ym • Hp ≠ 0)
    (hYd : msm [n.a_zx, n.a_zd, -n.a_ceq] [Gp, Hp, Cd] ≠ 0)
    (hYc : msm [n.a_zx, n.a_zc, -n.a_ceq] [Gp, Hp, Cc] ≠ 0) :
    Cap.verifyProof F G T b = true := by
  have l := LawfulLen.pt_len (F := F) (G := G)
  have ls := LawfulLen.sc_len (F := F) (G := G)
  have hrel : Cm = pedersenWith (ScCodec.ofNat mx : F) rp ∧
         (mx < mx → Cd = pedersenWith (ScCodec.ofNat delta : F) rd) ∧
         Cc = pedersenWith (ScCodec.ofNat delta : F) rc := by
    by_contra hne
    have := (C20.cap_new_none_iff (T := T) Cm Cd Cc mx mx delta rp rd rc n).mpr hne
    rw [hnew] at this; cases this
  obtain ⟨h1, -, h3⟩ := hrel
  unfold Cap.new at hnew
  split at hnew
  · cases hnew
  split at hnew
  · cases hnew
  split at hnew
  · cases hnew
  cases hnew
  set m : F := ScCodec.ofNat mx with hm
  set Ym : G := n.a_ym • Hp with hYmdef
  set Yd : G := msm [n.a_zx, n.a_zd, -n.a_ceq] [Gp, Hp, Cd] with hYddef
  set Yc : G := msm [n.a_zx, n.a_zc, -n.a_ceq] [Gp, Hp, Cc] with hYcdef
  set c : F := (challengeC F T Cm Cd Cc mx (PtCodec.enc Ym) (PtCodec.enc Yd) (PtCodec.enc Yc)).1 with hc
  apply (C03.verify_ok_iff _).mpr
  refine ⟨⟨Cm, Cd, Cc, mx, PtCodec.enc Ym, PtCodec.enc Yd, PtCodec.enc Yc, Ym, Yd, Yc,
    (c - n.a_ceq) * rp + n.a_ym, c - n.a_ceq, n.a_zx, n.a_zd, n.a_zc⟩,
    ?_, hCm, hCd, hCc, hYm, hYd, hYc, ?_⟩
  · apply (C03.parse_spec _ _).mpr
    simp only [prove, gt_iff_lt, lt_self_iff_false, if_false, proveAboveMax, encodeProof,
      List.append_assoc, List.length_append, l, ls, natLE_length,
      ptAt, scAt, slice_here, slice_here', slice_skip _ _ _ _ 32 (l _), slice_skip _ _ _ _ 32 (ls _),
      slice_skip _ _ _ _ 8 (natLE_length _ _),
      Nat.reduceSub, Nat.reduceLeDiff, Nat.reduceAdd, LawfulPtCodec.dec_enc, LawfulScCodec.canon_enc,
      natLE_leNat mx 8 (by simpa using hmx), ← hm, ← hYmdef, ← hYddef, ← hYcdef, ← hc, true_and, and_self, and_true]
  · have hc1 : ∀ p : Cap.Parsed F G, (challenges T p).1 =
        (challengeC F T p.Cm p.Cd p.Cc p.maxValue p.ymB p.ydB p.ycB).1 := by
      intro p; simp only [challenges, challengeScalar]
    simp only [hc1, ← hc]
    generalize (challenges T (_ : Cap.Parsed F G)).2 = w
    simp only [Emax, Edelta, Eclaimed, hYmdef, hYddef, hYcdef, h1, pedersenWith, msm_cons_cons, msm_nil_left, ← hm]
    module

end Cap

end more

end Zk.Props.C05

/-! ## batched range-proof instructions (u64 / u128 / u256) -/
namespace Zk.Props.C05.Range
open Zk Zk.Range

variable {F G T : Type} [Field F] [DecidableEq F] [AddCommGroup G] [Module F G] [DecidableEq G]
  [PtCodec G] [ScCodec F] [PedGens G] [TranscriptOps T]
  [LawfulPtCodec G] [LawfulScCodec F] [LawfulLen F G]

theorem flatten_enc_length (l : ∀ P : G, (PtCodec.enc P).length = 32) (Ps : List G) :
    ((Ps.map (PtCodec.enc (Pt := G))).flatten).length = 32 * Ps.length := by
  induction Ps with
  | nil => simp
  | cons P Ps ih => simp [l, ih]; ring

theorem encodeContext_length (l : ∀ P : G, (PtCodec.enc P).length = 32) (comms : List G) (bls : List ℕ) (h1 : comms.length = bls.length) (h8 : comms.length ≤ 8) :
    (encodeContext comms bls).length = 264 := by
  unfold encodeContext
  simp only [List.length_append, List.length_replicate, List.length_map,
    flatten_enc_length l, ← h1]
  omega

/-- the verifier's challenges exist as soon as the inner-product part has `k` rounds for `n = 2^k`
    and no `L`, `R` is the identity encoding -/
theorem challenges_isSome (t : T) (k : ℕ) (hk0 : k ≠ 0) (hk : k < 32) (pf : Proof F G)
    (hl : pf.ipp.lB.length = k) (hr : pf.ipp.rB.length = k)
    (hz : ∀ x ∈ pf.ipp.lB ++ pf.ipp.rB, Sigma.isZeroEnc x = false) :
    ∃ c, challenges t (2 ^ k) pf = some c := by
  unfold challenges
  simp only
  have hvs : ∃ r, verificationScalars (Sc := F) (2 ^ k) (challengeScalar (Sc := F) (challengeScalar (Sc := F)
      (appendScalar (appendScalar (appendScalar (challengeScalar (Sc := F) (TranscriptOps.append (TranscriptOps.append
        (challengeScalar (Sc := F) (challengeScalar (Sc := F) (TranscriptOps.append (TranscriptOps.append
          (appendU64 (TranscriptOps.append t b!"dom-sep" b!"range-proof") b!"n" (2 ^ k)) b!"A" pf.aB) b!"S" pf.sB) b!"y").2 b!"z").2
        b!"T_1" pf.t1B) b!"T_2" pf.t2B) b!"x").2 b!"t_x" pf.tx) b!"t_x_blinding" pf.txBlinding) b!"e_blinding" pf.eBlinding)
      b!"w").2 b!"c").2 pf.ipp = some r := by
    unfold verificationScalars
    have h1 : ¬ (pf.ipp.lB.length ≠ pf.ipp.rB.length) := by rw [hl, hr]; simp
    have h2 : ¬ (pf.ipp.lB.length = 0 ∨ pf.ipp.lB.length ≥ 32) := by rw [hl]; omega
    have h3 : ¬ (2 ^ k ≠ 2 ^ pf.ipp.lB.length) := by rw [hl]; simp
    have h4 : (pf.ipp.lB.any Sigma.isZeroEnc || pf.ipp.rB.any Sigma.isZeroEnc) = false := by
      rw [Bool.or_eq_false_iff, List.any_eq_false, List.any_eq_false]
      exact ⟨fun x hx => by simp [hz x (by simp [hx])], fun x hx => by simp [hz x (by simp [hx])]⟩
    simp only [h1, h2, h3, h4, if_false, Bool.false_eq_true]
    exact ⟨_, rfl⟩
  obtain ⟨⟨uSq, uInvSq, s, t'⟩, hr'⟩ := hvs
  rw [hr']
  exact ⟨_, rfl⟩

/-- **byte-level completeness of the batched range-proof instructions**: what the constructor
    produces for in-range amounts and matching commitments verifies, provided no proof point is the
    identity and the challenges `y`, `u_j` are non-zero (conditions on honest randomness, stated on
    the produced bytes) -/
theorem complete (gens : ℕ → List G × List G) (k width : ℕ)
    (hkw : (k = 6 ∧ width = 64) ∨ (k = 7 ∧ width = 128) ∨ (k = 8 ∧ width = 256))
    (comms : List G) (amounts bls : List ℕ) (opens : List F) (nz : Nonces F) (b : Bytes)
    (hnew : Range.new T gens width comms amounts bls opens nz = some b)
    (hg1 : (gens width).1.length = width) (hg2 : (gens width).2.length = width)
    (hsL : nz.sL.length = width) (hsR : nz.sR.length = width)
    (hcomm : comms = List.zipWith (fun v r => (pedersenWith (ScCodec.ofNat v : F) r : G)) amounts opens)
    (hrange : ∀ p ∈ List.zip amounts bls, p.1 < 2 ^ p.2)
    (hpol : ∀ pf : Proof F G, parseProof (b.drop 264) = some pf →
        Sigma.isZeroEnc pf.aB = false ∧ Sigma.isZeroEnc pf.sB = false ∧ Sigma.isZeroEnc pf.t1B = false ∧
        Sigma.isZeroEnc pf.t2B = false ∧ ∀ x ∈ pf.ipp.lB ++ pf.ipp.rB, Sigma.isZeroEnc x = false)
    (hch : ∀ (pf : Proof F G) (c : Challenges F), parseProof (b.drop 264) = some pf →
        challenges (contextTranscript T (b.take 264)) width pf = some c → c.y ≠ 0 ∧ ∀ u ∈ c.uSq, u ≠ 0) :
    verifyProof F G T gens width b = true := by
  have l := LawfulLen.pt_len (F := F) (G := G)
  have ls := LawfulLen.sc_len (F := F) (G := G)
  have : PtLen G := ⟨l⟩
  have hw : width = 2 ^ k := by rcases hkw with ⟨rfl, rfl⟩ | ⟨rfl, rfl⟩ | ⟨rfl, rfl⟩ <;> norm_num
  have hk32 : k < 32 := by rcases hkw with ⟨rfl, _⟩ | ⟨rfl, _⟩ | ⟨rfl, _⟩ <;> norm_num
  have hk0 : k ≠ 0 := by rcases hkw with ⟨rfl, _⟩ | ⟨rfl, _⟩ | ⟨rfl, _⟩ <;> norm_num
  have hpl : proofLen width = (7 + (2 * k + 2)) * 32 := by
    rcases hkw with ⟨rfl, rfl⟩ | ⟨rfl, rfl⟩ | ⟨rfl, rfl⟩ <;> simp [proofLen]
  unfold Range.new at hnew
  split at hnew
  · cases hnew
  rename_i hsum
  split at hnew
  · cases hnew
  rename_i hlens
  split at hnew
  · cases hnew
  rename_i hany
  split at hnew
  · cases hnew
  split at hnew
  · cases hnew
  rename_i hbl
  simp only [Option.some.injEq] at hnew
  have hsum' : bls.sum = width := by simpa using hsum
  have h8 : comms.length ≤ 8 := by omega
  have hca : comms.length = amounts.length := by omega
  have hcb : comms.length = bls.length := by omega
  have hco : comms.length = opens.length := by omega
  have hV : ∀ V ∈ comms, V ≠ 0 := by
    intro V hV h0
    apply hany
    rw [List.any_eq_true]; exact ⟨V, hV, by simp [h0]⟩
  have hbls : ∀ n ∈ bls, 1 ≤ n ∧ n ≤ 64 := by
    intro n hn
    by_contra hc
    apply hbl
    rw [List.any_eq_true]; exact ⟨n, hn, by simp; omega⟩
  have hc0 : comms.length ≠ 0 := by
    intro h0
    have : bls = [] := List.length_eq_zero_iff.mp (by omega)
    rw [this] at hsum'
    simp at hsum'
    have : 0 < 2 ^ k := Nat.pow_pos (by norm_num)
    omega
  set ctx := encodeContext comms bls with hctx
  have lctx : ctx.length = 264 := encodeContext_length l comms bls hcb h8
  obtain ⟨A, S, T1, T2, tx, txb, eb, Ls, Rs, a', b', hLs, hRs, hpb, hmega⟩ :=
    prove_complete (contextTranscript T ctx) k (by omega) (gens width).1 (gens width).2 bls amounts opens nz
      (by omega) (by omega) (by omega) (by omega) (by omega) (by omega) (by omega) hrange _ rfl
  rw [hpb] at hnew
  subst hnew
  set pf := mkProof A S T1 T2 tx txb eb Ls Rs a' b' with hpf
  have htake : (ctx ++ (PtCodec.enc A ++ PtCodec.enc S ++ PtCodec.enc T1 ++ PtCodec.enc T2 ++ ScCodec.enc tx
      ++ ScCodec.enc txb ++ ScCodec.enc eb ++ ((List.zipWith (· ++ ·) (Ls.map PtCodec.enc) (Rs.map PtCodec.enc)).flatten
        ++ ScCodec.enc a' ++ ScCodec.enc b'))).take 264 = ctx := List.take_left' lctx
  have hdrop : (ctx ++ (PtCodec.enc A ++ PtCodec.enc S ++ PtCodec.enc T1 ++ PtCodec.enc T2 ++ ScCodec.enc tx
      ++ ScCodec.enc txb ++ ScCodec.enc eb ++ ((List.zipWith (· ++ ·) (Ls.map PtCodec.enc) (Rs.map PtCodec.enc)).flatten
        ++ ScCodec.enc a' ++ ScCodec.enc b'))).drop 264 = _ := List.drop_left' lctx
  have hparse : parseProof (Sc := F) (Pt := G) (PtCodec.enc A ++ PtCodec.enc S ++ PtCodec.enc T1 ++ PtCodec.enc T2 ++ ScCodec.enc tx
      ++ ScCodec.enc txb ++ ScCodec.enc eb ++ ((List.zipWith (· ++ ·) (Ls.map PtCodec.enc) (Rs.map PtCodec.enc)).flatten
        ++ ScCodec.enc a' ++ ScCodec.enc b')) = some pf :=
    parseProof_enc A S T1 T2 tx txb eb Ls Rs a' b' (by omega) (by omega)
  rw [hdrop] at hpol hch
  rw [htake] at hch
  obtain ⟨z1, z2, z3, z4, z5⟩ := hpol pf hparse
  obtain ⟨c, hc⟩ := challenges_isSome (contextTranscript T ctx) k hk0 hk32 pf
    (by simp [hpf, mkProof, hLs]) (by simp [hpf, mkProof, hRs]) z5
  rw [← hw] at hc
  obtain ⟨hy, hu⟩ := hch pf c hparse hc
  have hm := hmega c (by rw [hsum']; exact hc) hy hu
  apply (Props.C04.verify_ok_iff gens width _).mpr
  refine ⟨?_, comms, bls, pf, c, ?_, h8, hsum', ?_, hcb, hV, ?_, z1, z2, z3, z4, ?_, ?_, ?_⟩
  · have hL : ∀ x ∈ Ls.map (PtCodec.enc (Pt := G)), x.length = 32 := by
      intro x hx; obtain ⟨P, _, rfl⟩ := List.mem_map.mp hx; exact l P
    have hR : ∀ x ∈ Rs.map (PtCodec.enc (Pt := G)), x.length = 32 := by
      intro x hx; obtain ⟨P, _, rfl⟩ := List.mem_map.mp hx; exact l P
    have hil := interleave_length (Ls.map (PtCodec.enc (Pt := G))) (Rs.map PtCodec.enc) (by simp [hLs, hRs]) hL hR
    simp only [List.length_append, lctx, l, ls, hil, List.length_map, hLs, hpl]
    ring
  · rw [htake]; exact Zk.Range.parseContext_encode comms bls hcb h8 hc0 hV hbls
  · rw [hdrop]; exact hparse
  · rw [hsum', hw]; exact (isPow2_iff _).mpr ⟨k, rfl⟩
  · rw [htake, hsum']; exact hc
  · obtain ⟨uSq, uInvSq, s, t', d, hvs, rfl⟩ := Props.C04.challenges_some _ _ _ _ hc
    obtain ⟨q1, q2, q3, -, -, -⟩ := Props.C04.verificationScalars_lengths _ _ _ _ _ _ _ hvs
    simp only [megaScalars, megaPoints, List.length_append, List.length_cons, List.length_nil, List.length_map,
      List.length_zip, List.length_reverse, powers_length, concatZAnd2_length, q1, q2, q3, hg1, hg2, hsum',
      hpf, mkProof, hLs, hRs, hcb]
    omega
  · rw [← hcomm] at hm; exact hm

end Zk.Props.C05.Range

/-! non-vacuity of the completeness theorems: their hypotheses are met in the toy lawful instance -/
namespace Zk.Props.C05
open Zk Zk.Toy Zk.Sigma

example : ∃ b : Bytes, ZeroCt.verifyProof TF TG Bytes b = true := by
  let s : TF := 2
  let P : TG := (0, 7)          -- s⁻¹ • H  (2·7 = 1 mod 13)
  let ct : Ct TG := ⟨(0, 3), (0, 8)⟩   -- r = 3: C = r•H, D = r•P
  let y : TF := 5
  have h0 : decryptTarget s ct = 0 := by decide
  obtain ⟨b, hb⟩ : ∃ b, ZeroCt.new Bytes s P ct y = some b := ⟨_, ZeroCt.new_ok (T := Bytes) s y P ct h0⟩
  exact ⟨b, ZeroCt.complete s y P ct b hb (by decide) (by decide) (by decide) (by decide) (by decide)⟩

example : ∃ b : Bytes, PubkeyValidity.verifyProof TF TG Bytes b = true := by
  let s : TF := 2
  let P : TG := (0, 7)
  have hinv : (2 : TF)⁻¹ = 7 := inv_eq_of_mul_eq_one_right (by decide)
  have hP : P = s⁻¹ • (PedGens.H : TG) := by
    show ((0, 7) : TG) = (2 : TF)⁻¹ • (PedGens.H : TG)
    rw [hinv]; decide
  exact ⟨_, PubkeyValidity.complete (T := Bytes) s 5 P _ (PubkeyValidity.new_ok s 5 P) (by decide) hP
    (by decide) (by decide)⟩

example : ∃ b : Bytes, Validity.verifyProof TF TG Bytes 2 b = true := by
  let P1 : TG := (0, 7)
  let P2 : TG := (0, 0)                -- identity auditor key
  let g : GCt TG := groupedEncryptWith [P1, P2] (ScCodec.ofNat 9 : TF) 4
  have hne : Validity.new Bytes 2 [P1, P2] g 9 (4 : TF) 3 6 ≠ none :=
    (C20.validity_new_none_iff (T := Bytes) 2 [P1, P2] g 9 (4 : TF) 3 6).not.mpr (not_not.mpr rfl)
  obtain ⟨b, hb⟩ := Option.ne_none_iff_exists'.mp hne
  exact ⟨b, Validity.complete2 P1 P2 g 9 4 3 6 b hb (by decide) (by decide) (by decide) (by decide)⟩

example : ∃ b : Bytes, BatchedValidity.verifyProof TF TG Bytes 2 b = true := by
  let P1 : TG := (0, 7)
  let P2 : TG := (0, 5)
  let lo : GCt TG := groupedEncryptWith [P1, P2] (ScCodec.ofNat 9 : TF) 4
  let hi : GCt TG := groupedEncryptWith [P1, P2] (ScCodec.ofNat 2 : TF) 11
  have hne : BatchedValidity.new Bytes 2 [P1, P2] lo hi 9 2 (4 : TF) 11 3 6 ≠ none :=
    (C20.batched_validity_new_none_iff (T := Bytes) 2 [P1, P2] lo hi 9 2 (4 : TF) 11 3 6).not.mpr
      (not_not.mpr ⟨rfl, rfl⟩)
  obtain ⟨b, hb⟩ := Option.ne_none_iff_exists'.mp hne
  exact ⟨b, BatchedValidity.complete2 P1 P2 lo hi 9 2 4 11 3 6 b hb (by decide) (by decide) (by decide)
    (by decide) (by decide)⟩

/-- below the cap (equality branch real) -/
example : ∃ b : Bytes, Cap.verifyProof TF TG Bytes b = true := by
  let n : Cap.Nonces TF := ⟨1, 2, 3, 4, 5, 6, 7, 8, 9, 10⟩
  let Cm : TG := pedersenWith (ScCodec.ofNat 2 : TF) 3
  let Cd : TG := pedersenWith (ScCodec.ofNat 4 : TF) 5
  let Cc : TG := pedersenWith (ScCodec.ofNat 4 : TF) 6
  have hne : Cap.new Bytes Cm Cd Cc 5 2 4 (3 : TF) 5 6 n ≠ none :=
    (C20.cap_new_none_iff (T := Bytes) Cm Cd Cc 5 2 4 (3 : TF) 5 6 n).not.mpr (not_not.mpr ⟨rfl, fun _ => rfl, rfl⟩)
  obtain ⟨b, hb⟩ := Option.ne_none_iff_exists'.mp hne
  exact ⟨b, Cap.complete_below Cm Cd Cc 5 2 4 3 5 6 n b hb (by decide) (by norm_num) (by decide) (by decide)
    (by decide) (by decide) (by decide) (by decide)⟩

/-- at the cap (max branch real; the delta commitment is unrelated to the claimed one) -/
example : ∃ b : Bytes, Cap.verifyProof TF TG Bytes b = true := by
  let n : Cap.Nonces TF := ⟨1, 2, 3, 4, 5, 6, 7, 8, 9, 10⟩
  let Cm : TG := pedersenWith (ScCodec.ofNat 5 : TF) 3
  let Cd : TG := (7, 7)
  let Cc : TG := pedersenWith (ScCodec.ofNat 4 : TF) 6
  have hne : Cap.new Bytes Cm Cd Cc 5 5 4 (3 : TF) 5 6 n ≠ none :=
    (C20.cap_new_none_iff (T := Bytes) Cm Cd Cc 5 5 4 (3 : TF) 5 6 n).not.mpr
      (not_not.mpr ⟨rfl, fun h => absurd h (by decide), rfl⟩)
  obtain ⟨b, hb⟩ := Option.ne_none_iff_exists'.mp hne
  exact ⟨b, Cap.complete_at Cm Cd Cc 5 4 3 5 6 n b hb (by norm_num) (by decide) (by decide)
    (by decide) (by decide) (by decide) (by decide)⟩

/-! ### range proofs, toy scale (width 2 = one 2-bit commitment, one folding round)

`Range.complete` is stated for the three instruction widths, whose provers are too large to run inside
the kernel. The decoded-level theorem `Zk.Range.prove_complete` holds for every `k`; here its
hypotheses on the challenges (`y ≠ 0`, every `u_j ≠ 0`) are exhibited for an explicit instance with
`k = 1`, and the verifier's acceptance is confirmed by evaluation in the kernel. -/
section toyRange
open Zk.Range

def tgG : List TG := [(1, 1), (2, 5)]
def tgH : List TG := [(3, 1), (4, 7)]
def tnz : Nonces TF := ⟨2, [1, 2], [3, 4], 6, 7, 8⟩
def tcomms : List TG := [pedersenWith (ScCodec.ofNat 3 : TF) 5]
def ttr : Bytes := [1, 2, 3]
def tproof : Bytes := prove ttr tgG tgH [2] (bitsOf [3] [2] : List TF) [5] tnz Tamper.none

/-- the proof decodes, the challenges exist with `y ≠ 0` and `u ≠ 0`, and `verify` accepts -/
def toyRangeOk : Bool :=
  match parseProof (Sc := TF) (Pt := TG) tproof with
  | some pf =>
    match challenges ttr 2 pf with
    | some (c : Challenges TF) => c.y != 0 && c.uSq.all (· != 0) && verify ttr tgG tgH tcomms [2] pf
    | none => false
  | none => false

example : toyRangeOk = true := by decide +kernel

end toyRange

end Zk.Props.C05

import ZkElGamal.Proofs.SigmaC01
import ZkElGamal.Proofs.SigmaC02b
import ZkElGamal.Proofs.SigmaC03
import ZkElGamal.Proofs.Slices
/-!
# C05 — every true statement with a valid witness can be proven, and the proof verifies

For each sigma instruction `X`, over the abstract instantiation with lawful codecs:

* `X.new_ok`      — a witness satisfying the relation makes the constructor succeed;
* `X.new_context` — the first bytes of the produced instruction are the encoding of the statement;
* `X.complete`    — the produced bytes verify (`verifyProof … = true`), for **all** keys, amounts
  (the `u64 → F` cast is only used as a function), openings and nonces, provided the statement
  is admitted by the identity policy and the masking commitments are not the identity
  (a nonce condition that fails with probability ≈ 2⁻²⁵² for honest randomness — stated, not hidden).

The model's prover and verifier recompute the same challenge from the same bytes; that the
*Rust* prover and verifier do is the correspondence part of the check.
-/
set_option linter.unusedSectionVars false
namespace Zk.Props.C05
open Zk Zk.Sigma

variable {F G T : Type} [Field F] [AddCommGroup G] [Module F G] [DecidableEq G]
  [PtCodec G] [ScCodec F] [PedGens G] [TranscriptOps T]
  [LawfulPtCodec G] [LawfulScCodec F] [LawfulLen F G]

local notation "Gp" => (PedGens.G : G)
local notation "Hp" => (PedGens.H : G)

theorem beq_false_of_ne {a b : G} (h : (!(a == b)) = true → False) : a = b := by
  by_contra hne; apply h; simp [hne]

/-! ## zero-ciphertext -/
namespace ZeroCt
open Sigma.ZeroCt

/-- constructor outcome: refused exactly when the ciphertext does not decrypt to the identity (C20) -/
theorem new_none_iff (s y : F) (P : G) (ct : Ct G) :
    new T s P ct y = none ↔ decryptTarget s ct ≠ 0 := by
  unfold new; split <;> simp_all

theorem new_ok (s y : F) (P : G) (ct : Ct G) (h : decryptTarget s ct = 0) :
    new T s P ct y = some (PtCodec.enc P ++ ct.enc ++ prove T s P ct y) := by
  unfold new; simp [h]

theorem new_context (s y : F) (P : G) (ct : Ct G) (b : Bytes) (h : new T s P ct y = some b) :
    b.take 96 = PtCodec.enc P ++ ct.enc := by
  have l := LawfulLen.pt_len (F := F) (G := G)
  unfold new at h; split at h
  · cases h
  · cases h
    have : (PtCodec.enc P ++ ct.enc : Bytes).length = 96 := by simp [Ct.enc, l]
    rw [List.append_assoc, ← List.append_assoc, List.take_left' this]

theorem complete (s y : F) (P : G) (ct : Ct G) (b : Bytes)
    (hnew : new T s P ct y = some b)
    (hs : s • P = Hp) (hP : P ≠ 0) (hC : ct.C ≠ 0) (hD : ct.D ≠ 0) (hy : y ≠ 0) :
    verifyProof F G T b = true := by
  have l := LawfulLen.pt_len (F := F) (G := G)
  have ls := LawfulLen.sc_len (F := F) (G := G)
  unfold new at hnew
  split at hnew
  · cases hnew
  · rename_i hdec
    have hdec : decryptTarget s ct = 0 := beq_false_of_ne hdec
    cases hnew
    set c : F := (challenges T P ct (PtCodec.enc (y • P)) (PtCodec.enc (y • ct.D)) (0 : F)).1 with hc
    have hparse : parse (Sc := F) (Pt := G)
        (PtCodec.enc P ++ ct.enc ++ prove T s P ct y) =
        some ⟨P, ct, PtCodec.enc (y • P), PtCodec.enc (y • ct.D), y • P, y • ct.D,
              (challenges T P ct (PtCodec.enc (y • P)) (PtCodec.enc (y • ct.D)) (0 : F)).1 * s + y⟩ := by
      obtain ⟨C, D⟩ := ct
      simp only [parse, prove, Ct.enc, List.append_assoc, List.length_append, l, ls, ptAt, scAt,
        slice_here, slice_here', slice_skip _ _ _ _ 32 (l _), Nat.reduceSub, Nat.reduceLeDiff, Nat.reduceAdd,
        LawfulPtCodec.dec_enc, LawfulScCodec.canon_enc, ne_eq, not_true_eq_false, if_false,
        Option.bind_eq_bind, Option.bind_some, Option.pure_def, challenges, challengeScalar]
    unfold verifyProof
    rw [hparse]
    have hYP : y • P ≠ 0 := smul_ne_zero hy hP
    have hpol := (policy_iff _ _ hparse).mpr ⟨hP, hC, hD, hYP⟩
    simp only [check, hpol, Bool.true_and, beq_iff_eq, equation_eq, E0, E1]
    have hcc : (challenges T P ct (PtCodec.enc (y • P)) (PtCodec.enc (y • ct.D))
        ((challenges T P ct (PtCodec.enc (y • P)) (PtCodec.enc (y • ct.D)) (0 : F)).1 * s + y)).1 = c := by
      simp only [hc, challenges, challengeScalar]
    rw [hcc]
    have hCD : ct.C = s • ct.D := sub_eq_zero.mp hdec
    rw [hCD, ← hs]
    module

end ZeroCt

/-! ## public-key validity -/
namespace PubkeyValidity
open Sigma.PubkeyValidity

/-- the constructor never refuses (there is no consistency check in the Rust either) -/
theorem new_ok (s y : F) (P : G) : new T s P y = some (PtCodec.enc P ++ prove T s P y) := rfl

theorem new_context (s y : F) (P : G) (b : Bytes) (h : new T s P y = some b) :
    b.take 32 = PtCodec.enc P := by
  have l := LawfulLen.pt_len (F := F) (G := G)
  cases h
  exact List.take_left' (l P)

theorem complete (s y : F) (P : G) (b : Bytes) (hnew : new T s P y = some b)
    (hs : s ≠ 0) (hP : P = s⁻¹ • Hp) (hP0 : P ≠ 0) (hy : y ≠ 0) :
    verifyProof F G T b = true := by
  have l := LawfulLen.pt_len (F := F) (G := G)
  have ls := LawfulLen.sc_len (F := F) (G := G)
  cases hnew
  have hH : Hp ≠ 0 := by
    intro h0; apply hP0; rw [hP, h0, smul_zero]
  have hparse : parse (Sc := F) (Pt := G) (PtCodec.enc P ++ prove T s P y) =
      some ⟨P, PtCodec.enc (y • Hp), y • Hp, challenge F T P (PtCodec.enc (y • Hp)) * s⁻¹ + y⟩ := by
    simp only [parse, prove, List.append_assoc, List.length_append, l, ls, ptAt, scAt,
      slice_here, slice_here', slice_skip _ _ _ _ 32 (l _), Nat.reduceSub, Nat.reduceLeDiff, Nat.reduceAdd,
      LawfulPtCodec.dec_enc, LawfulScCodec.canon_enc, ne_eq, not_true_eq_false, if_false,
      Option.bind_eq_bind, Option.bind_some, Option.pure_def]
  unfold verifyProof
  rw [hparse]
  have hY : y • Hp ≠ 0 := smul_ne_zero hy hH
  have hpol := (policy_iff _ _ hparse).mpr ⟨hP0, hY⟩
  simp only [check, hpol, Bool.true_and, beq_iff_eq, equation_eq, E0]
  rw [hP]; module

end PubkeyValidity

/-! ## ciphertext–ciphertext equality -/
namespace CtCtEq
open Sigma.CtCtEq

/-- refused exactly when the first ciphertext does not decrypt to `amount•G` under `s`, or the
    second is not the encryption of `amount` under `P2` with the given opening (C20) -/
theorem new_none_iff (s r ys yx yr : F) (P1 P2 : G) (ct1 ct2 : Ct G) (amount : ℕ) :
    new T s P1 P2 ct1 ct2 r amount ys yx yr = none ↔
      ¬ (decryptTarget s ct1 = (ScCodec.ofNat amount : F) • Gp ∧
         ct2.C = pedersenWith (ScCodec.ofNat amount : F) r ∧ ct2.D = decryptHandle P2 r) := by
  unfold new
  simp only [encryptWith]
  by_cases h1 : decryptTarget s ct1 = (ScCodec.ofNat amount : F) • Gp
  · by_cases h2 : ct2.C = pedersenWith (ScCodec.ofNat amount : F) r
    · by_cases h3 : ct2.D = decryptHandle P2 r
      · simp [h1, h2, h3]
      · simp [h1, h2, h3]
    · simp [h1, h2]
  · simp [h1]

theorem new_context (s r ys yx yr : F) (P1 P2 : G) (ct1 ct2 : Ct G) (amount : ℕ) (b : Bytes)
    (h : new T s P1 P2 ct1 ct2 r amount ys yx yr = some b) :
    b.take 192 = PtCodec.enc P1 ++ PtCodec.enc P2 ++ ct1.enc ++ ct2.enc := by
  have l := LawfulLen.pt_len (F := F) (G := G)
  unfold new at h
  simp only at h
  split at h
  · cases h
  · split at h
    · cases h
    · cases h
      have : (PtCodec.enc P1 ++ PtCodec.enc P2 ++ ct1.enc ++ ct2.enc : Bytes).length = 192 := by
        simp [Ct.enc, l]
      exact List.take_left' this

theorem complete (s r ys yx yr : F) (P1 P2 : G) (ct1 ct2 : Ct G) (amount : ℕ) (b : Bytes)
    (hnew : new T s P1 P2 ct1 ct2 r amount ys yx yr = some b)
    (hs : s • P1 = Hp) (hP1 : P1 ≠ 0) (hP2 : P2 ≠ 0) (hC1 : ct1.C ≠ 0) (hD1 : ct1.D ≠ 0)
    (hY0 : ys • P1 ≠ 0) (hY1 : msm [yx, ys] [Gp, ct1.D] ≠ 0)
    (hY2 : msm [yx, yr] [Gp, Hp] ≠ 0) (hY3 : yr • P2 ≠ 0) :
    verifyProof F G T b = true := by
  have l := LawfulLen.pt_len (F := F) (G := G)
  have ls := LawfulLen.sc_len (F := F) (G := G)
  have hn := (new_none_iff (T := T) s r ys yx yr P1 P2 ct1 ct2 amount).not
  rw [hnew] at hn
  simp only [reduceCtorEq, not_false_eq_true, not_not, true_iff] at hn
  obtain ⟨hdec, hC2, hD2⟩ := hn
  unfold new at hnew
  simp only at hnew
  split at hnew
  · cases hnew
  split at hnew
  · cases hnew
  cases hnew
  set x : F := ScCodec.ofNat amount with hx
  set y0 := PtCodec.enc (ys • P1) with hy0
  set y1 := PtCodec.enc (msm [yx, ys] [Gp, ct1.D]) with hy1
  set y2 := PtCodec.enc (msm [yx, yr] [Gp, Hp]) with hy2
  set y3 := PtCodec.enc (yr • P2) with hy3
  set c : F := (challenges T P1 P2 ct1 ct2 y0 y1 y2 y3 (0 : F) 0 0).1 with hc
  have hparse : parse (Sc := F) (Pt := G)
      (PtCodec.enc P1 ++ PtCodec.enc P2 ++ ct1.enc ++ ct2.enc ++ prove T s P1 P2 ct1 ct2 r x ys yx yr) =
      some ⟨P1, P2, ct1, ct2, y0, y1, y2, y3, ys • P1, msm [yx, ys] [Gp, ct1.D], msm [yx, yr] [Gp, Hp],
            yr • P2, c * s + ys, c * x + yx, c * r + yr⟩ := by
    obtain ⟨C1, D1⟩ := ct1
    obtain ⟨C2, D2⟩ := ct2
    simp only [parse, prove, Ct.enc, List.append_assoc, List.length_append, l, ls, ptAt, scAt,
      slice_here, slice_here', slice_skip _ _ _ _ 32 (l _), slice_skip _ _ _ _ 32 (ls _),
      Nat.reduceSub, Nat.reduceLeDiff, Nat.reduceAdd,
      LawfulPtCodec.dec_enc, LawfulScCodec.canon_enc, ne_eq, not_true_eq_false, if_false,
      Option.bind_eq_bind, Option.bind_some, Option.pure_def, challenges, challengeScalar,
      hy0, hy1, hy2, hy3, hc]
  unfold verifyProof
  rw [hparse]
  have hpol := (policy_iff _ _ hparse).mpr ⟨hP1, hP2, hC1, hD1, hY0, hY1, hY2, hY3⟩
  simp only [check, hpol, Bool.true_and, beq_iff_eq, equation_eq, E0, E1, E2, E3]
  have hcc : ∀ a b' d : F, (challenges T P1 P2 ct1 ct2 y0 y1 y2 y3 a b' d).1 = c := by
    intro a b' d; simp only [hc, challenges, challengeScalar]
  rw [hcc]
  have h1 : ct1.C = x • Gp + s • ct1.D := by
    have := hdec; simp only [decryptTarget] at this
    rw [← this]; module
  simp only [pedersenWith, decryptHandle, msm_cons_cons, msm_nil_left] at hC2 hD2
  rw [h1, hC2, hD2, ← hs]
  simp only [msm_cons_cons, msm_nil_left]
  module

end CtCtEq

/-! ## ciphertext–commitment equality -/
namespace CtCmtEq
open Sigma.CtCmtEq

theorem new_none_iff (s r ys yx yr : F) (P Cm : G) (ct : Ct G) (amount : ℕ) :
    new T s P ct Cm r amount ys yx yr = none ↔
      ¬ (decryptTarget s ct = (ScCodec.ofNat amount : F) • Gp ∧
         Cm = pedersenWith (ScCodec.ofNat amount : F) r) := by
  unfold new
  simp only
  by_cases h1 : decryptTarget s ct = (ScCodec.ofNat amount : F) • Gp
  · by_cases h2 : Cm = pedersenWith (ScCodec.ofNat amount : F) r
    · simp [h1, h2]
    · simp [h1, h2]
  · simp [h1]

theorem new_context (s r ys yx yr : F) (P Cm : G) (ct : Ct G) (amount : ℕ) (b : Bytes)
    (h : new T s P ct Cm r amount ys yx yr = some b) :
    b.take 128 = PtCodec.enc P ++ ct.enc ++ PtCodec.enc Cm := by
  have l := LawfulLen.pt_len (F := F) (G := G)
  unfold new at h
  simp only at h
  split at h
  · cases h
  · split at h
    · cases h
    · cases h
      have : (PtCodec.enc P ++ ct.enc ++ PtCodec.enc Cm : Bytes).length = 128 := by simp [Ct.enc, l]
      exact List.take_left' this

theorem complete (s r ys yx yr : F) (P Cm : G) (ct : Ct G) (amount : ℕ) (b : Bytes)
    (hnew : new T s P ct Cm r amount ys yx yr = some b)
    (hs : s • P = Hp) (hP : P ≠ 0) (hC : ct.C ≠ 0) (hD : ct.D ≠ 0) (hCm : Cm ≠ 0)
    (hY0 : ys • P ≠ 0) (hY1 : msm [yx, ys] [Gp, ct.D] ≠ 0) (hY2 : msm [yx, yr] [Gp, Hp] ≠ 0) :
    verifyProof F G T b = true := by
  have l := LawfulLen.pt_len (F := F) (G := G)
  have ls := LawfulLen.sc_len (F := F) (G := G)
  have hn := (new_none_iff (T := T) s r ys yx yr P Cm ct amount).not
  rw [hnew] at hn
  simp only [reduceCtorEq, not_false_eq_true, not_not, true_iff] at hn
  obtain ⟨hdec, hCmeq⟩ := hn
  unfold new at hnew
  simp only at hnew
  split at hnew
  · cases hnew
  split at hnew
  · cases hnew
  cases hnew
  set x : F := ScCodec.ofNat amount with hx
  set y0 := PtCodec.enc (ys • P) with hy0
  set y1 := PtCodec.enc (msm [yx, ys] [Gp, ct.D]) with hy1
  set y2 := PtCodec.enc (msm [yx, yr] [Gp, Hp]) with hy2
  set c : F := (challenges T P ct Cm y0 y1 y2 (0 : F) 0 0).1 with hc
  have hparse : parse (Sc := F) (Pt := G)
      (PtCodec.enc P ++ ct.enc ++ PtCodec.enc Cm ++ prove T s P ct Cm r x ys yx yr) =
      some ⟨P, ct, Cm, y0, y1, y2, ys • P, msm [yx, ys] [Gp, ct.D], msm [yx, yr] [Gp, Hp],
            c * s + ys, c * x + yx, c * r + yr⟩ := by
    obtain ⟨C, D⟩ := ct
    simp only [parse, prove, Ct.enc, List.append_assoc, List.length_append, l, ls, ptAt, scAt,
      slice_here, slice_here', slice_skip _ _ _ _ 32 (l _), slice_skip _ _ _ _ 32 (ls _),
      Nat.reduceSub, Nat.reduceLeDiff, Nat.reduceAdd,
      LawfulPtCodec.dec_enc, LawfulScCodec.canon_enc, ne_eq, not_true_eq_false, if_false,
      Option.bind_eq_bind, Option.bind_some, Option.pure_def, challenges, challengeScalar,
      hy0, hy1, hy2, hc]
  unfold verifyProof
  rw [hparse]
  have hpol := (policy_iff _ _ hparse).mpr ⟨hP, hC, hD, hCm, hY0, hY1, hY2⟩
  simp only [check, hpol, Bool.true_and, beq_iff_eq, equation_eq, E0, E1, E2]
  have hcc : ∀ a b' d : F, (challenges T P ct Cm y0 y1 y2 a b' d).1 = c := by
    intro a b' d; simp only [hc, challenges, challengeScalar]
  rw [hcc]
  have h1 : ct.C = x • Gp + s • ct.D := by
    have := hdec; simp only [decryptTarget] at this
    rw [← this]; module
  simp only [pedersenWith, msm_cons_cons, msm_nil_left] at hCmeq
  rw [h1, hCmeq, ← hs]
  simp only [msm_cons_cons, msm_nil_left]
  module

end CtCmtEq

end Zk.Props.C05

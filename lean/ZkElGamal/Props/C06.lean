import ZkElGamal.Model.LabelsV1
import ZkElGamal.Generated.Tables
import ZkElGamal.Props.C05
/-!
# C06 — proof wire format and Fiat–Shamir transcript are stable and interoperable

The bit-exact executable model *is* the independent implementation of the version-1 protocol
(domain string, per-instruction labels, statement hashing order, generator derivation, field
order and lengths); interoperability is the correspondence part of this check (Rust-proved →
model-verified, model-proved → Rust-verified, pinned known-answer vectors verified by both).
Kernel-checked here:

* `labels_v1`           — the set of labels extracted from the source on this run is the pinned set;
* `domain_v1`           — the global domain separator;
* `instruction_labels`  — the twelve instruction labels are pairwise distinct (used by C07);
* model-proved ⇒ model-verified is theorem `C05.*.complete`, so any cross failure is a
  code/model difference, not a model inconsistency.
-/
namespace Zk.Props.C06
open Zk Zk.Generated

/-- every label used by the crate on this run is a version-1 label and vice versa -/
theorem labels_v1 : rustLabelSet = labelsV1 := by decide +kernel

theorem domain_v1 : transcriptDomain = b!"solana-zk-elgamal-proof-program-v1" ∧
    transcriptDomain ∈ rustLabelSet := by decide +kernel

/-- the instruction-level labels of the model -/
def instructionLabels : List Bytes := [
  b!"zero-ciphertext-instruction", b!"pubkey-validity-instruction",
  b!"ciphertext-ciphertext-equality-instruction", b!"ciphertext-commitment-equality-instruction",
  Sigma.Validity.instrLabel 2, Sigma.Validity.instrLabel 3,
  Sigma.BatchedValidity.instrLabel 2, Sigma.BatchedValidity.instrLabel 3,
  b!"percentage-with-cap-instruction", b!"batched-range-proof-instruction"]

/-- they are pairwise distinct and all occur in the source -/
theorem instruction_labels : instructionLabels.Nodup ∧ ∀ l ∈ instructionLabels, l ∈ rustLabelSet := by
  decide +kernel

/-- field order and lengths of the twelve proof-data layouts (from the Pod struct definitions) -/
theorem proof_data_layout_v1 :
    rustProofData.map (fun r => (r.2.1, r.2.2)) =
      [(192, 96), (416, 192), (320, 128), (96, 32), (360, 104), (936, 264), (1000, 264), (1064, 264),
       (320, 160), (416, 256), (416, 224), (544, 352)] := by decide +kernel

end Zk.Props.C06

import ZkElGamal.Proofs.SigmaC01
import ZkElGamal.Proofs.Slices
import ZkElGamal.Props.C06
import ZkElGamal.Props.C02
import ZkElGamal.Props.C03
import Mathlib.Tactic.IntervalCases
import ZkElGamal.Model.Range
/-!
# C07 — an accepted proof is bound to its exact statement, instruction and encoding

What the kernel checks (zero-ciphertext, pubkey validity, ct–ct and ct–commitment equality):

* `X.parse_injective` — decoding is injective: two byte strings that parse to the same statement and
  proof are equal. Hence **every** change of any bit either makes parsing fail or changes a parsed
  field (strict canonical decoding; no malleable encodings).
* `X.challenge_indep` — the Fiat–Shamir challenge `c` is a function of the instruction label, the
  statement encodings and the masking-commitment bytes only; so a change in a *response* leaves `c` fixed …
* `X.response_binding` — … and then some verification equation fails: an accepted proof whose
  responses are changed (statement and masking commitments kept) is never accepted.
* a change in the statement or a masking commitment changes the input of the transcript before `c`
  (every such field is absorbed — by inspection of `challenges`, and observed: the correspondence flips
  every bit); that a different oracle input gives a useless challenge is the random-oracle step (not proved).
* different instructions use different transcript labels: `C06.instruction_labels`.

Percentage-with-cap: `Cap.parse_injective` (incl. the 8 little-endian bytes of `max_value`),
`Cap.challenge_indep`, `Cap.response_binding` (changing any single one of the five responses breaks an
equation; two response vectors can both be valid for an OR-proof, so this is the strongest true form).
Grouped validity: `Validity.decode_injective2`, `Validity.challenge_indep`, `Validity.response_binding`.
Range proofs: `Range.parse_injective` (two byte strings that decode to the same range proof are equal, for
every number of inner-product rounds).
The other validity layouts and the range instructions are covered by the correspondence part (all bit
flips of accepted instances, transplants between same-length proof types, substituted statements), and
for every accepted or rejected byte string the Fiat–Shamir challenge *values* are compared (DESIGN §10.7).
-/
set_option linter.unusedSectionVars false
namespace Zk.Props.C07
open Zk Zk.Sigma

/-- two byte strings of `k` 32-byte fields with equal fields are equal -/
theorem eq_of_slices (k : ℕ) (b b' : Bytes) (hl : b.length = 32 * k) (hl' : b'.length = 32 * k)
    (h : ∀ i < k, slice b (32 * i) 32 = slice b' (32 * i) 32) : b = b' := by
  induction k generalizing b b' with
  | zero =>
    have h1 : b = [] := List.eq_nil_of_length_eq_zero (by omega)
    have h2 : b' = [] := List.eq_nil_of_length_eq_zero (by omega)
    rw [h1, h2]
  | succ k ih =>
    have e : b.drop 32 = b'.drop 32 := by
      apply ih
      · simp; omega
      · simp; omega
      · intro i hi
        have := h (i + 1) (by omega)
        simp only [slice, List.drop_drop] at this ⊢
        rw [show 32 + 32 * i = 32 * (i + 1) by ring]
        exact this
    have t : b.take 32 = b'.take 32 := by
      have := h 0 (by omega); simpa [slice] using this
    rw [← List.take_append_drop 32 b, ← List.take_append_drop 32 b', t, e]

variable {F G T : Type} [Field F] [AddCommGroup G] [Module F G] [DecidableEq G]
  [PtCodec G] [ScCodec F] [PedGens G] [TranscriptOps T] [LawfulPtCodec G] [LawfulScCodec F]

local notation "Gp" => (PedGens.G : G)
local notation "Hp" => (PedGens.H : G)

theorem ptAt_inj {b b' : Bytes} {i : ℕ} {P : G} (h : ptAt b i = some P) (h' : ptAt b' i = some P) :
    slice b i 32 = slice b' i 32 := by
  rw [← LawfulPtCodec.enc_dec _ _ h, ← LawfulPtCodec.enc_dec _ _ h']

theorem scAt_inj {b b' : Bytes} {i : ℕ} {s : F} (h : scAt b i = some s) (h' : scAt b' i = some s) :
    slice b i 32 = slice b' i 32 := by
  rw [← LawfulScCodec.enc_canon _ _ h, ← LawfulScCodec.enc_canon _ _ h']

/-! ## zero-ciphertext -/
namespace ZeroCt
open Sigma.ZeroCt

theorem parse_injective (b b' : Bytes) (p : Parsed F G) (h : parse b = some p) (h' : parse b' = some p) :
    b = b' := by
  obtain ⟨l, a0, a1, a2, a3, a4, a5, _, _⟩ := (parse_some_iff b p).mp h
  obtain ⟨l', c0, c1, c2, c3, c4, c5, _, _⟩ := (parse_some_iff b' p).mp h'
  apply eq_of_slices 6 b b' (by omega) (by omega)
  intro i hi
  interval_cases i
  · exact ptAt_inj a0 c0
  · exact ptAt_inj a1 c1
  · exact ptAt_inj a2 c2
  · exact ptAt_inj a3 c3
  · exact ptAt_inj a4 c4
  · exact scAt_inj a5 c5

/-- the challenge `c` does not depend on the response -/
theorem challenge_indep (P : G) (ct : Ct G) (ypB ydB : Bytes) (z z' : F) :
    (challenges T P ct ypB ydB z).1 = (challenges T P ct ypB ydB z').1 := by
  simp only [challenges, challengeScalar]

/-- an accepted proof with a changed response (same statement, same masking commitments, hence the
    same `c`) violates the first equation -/
theorem response_binding (p p' : Parsed F G) (c : F) (hP : p.P ≠ 0)
    (hst : p'.P = p.P ∧ p'.ct = p.ct ∧ p'.YP = p.YP ∧ p'.YD = p.YD) (hz : p'.z ≠ p.z)
    (e0 : E0 p c = 0) : E0 p' c ≠ 0 := by
  obtain ⟨h1, h2, h3, h4⟩ := hst
  intro e0'
  simp only [E0, h1, h3] at e0 e0'
  have : (p'.z - p.z) • p.P = 0 := by linear_combination (norm := module) e0' - e0
  rcases smul_eq_zero.mp this with h | h
  · exact hz (sub_eq_zero.mp h)
  · exact hP h

end ZeroCt

/-! ## public-key validity -/
namespace PubkeyValidity
open Sigma.PubkeyValidity

theorem parse_injective (b b' : Bytes) (p : Parsed F G) (h : parse b = some p) (h' : parse b' = some p) :
    b = b' := by
  obtain ⟨l, a0, a1, a2, _⟩ := (parse_some_iff b p).mp h
  obtain ⟨l', c0, c1, c2, _⟩ := (parse_some_iff b' p).mp h'
  apply eq_of_slices 3 b b' (by omega) (by omega)
  intro i hi
  interval_cases i
  · exact ptAt_inj a0 c0
  · exact ptAt_inj a1 c1
  · exact scAt_inj a2 c2

/-- needs `H ≠ 0` (the second Pedersen generator is not the identity) -/
theorem response_binding (p p' : Parsed F G) (c : F) (hH : Hp ≠ 0)
    (hst : p'.P = p.P ∧ p'.Y = p.Y) (hz : p'.z ≠ p.z) (e0 : E0 p c = 0) : E0 p' c ≠ 0 := by
  obtain ⟨h1, h2⟩ := hst
  intro e0'
  simp only [E0, h1, h2] at e0 e0'
  have : (p'.z - p.z) • Hp = 0 := by linear_combination (norm := module) e0' - e0
  rcases smul_eq_zero.mp this with h | h
  · exact hz (sub_eq_zero.mp h)
  · exact hH h

end PubkeyValidity

/-! ## ciphertext–ciphertext equality -/
namespace CtCtEq
open Sigma.CtCtEq

theorem parse_injective (b b' : Bytes) (p : Parsed F G) (h : parse b = some p) (h' : parse b' = some p) :
    b = b' := by
  obtain ⟨l, a0, a1, a2, a3, a4, a5, a6, a7, a8, a9, a10, a11, a12, _⟩ := (parse_some_iff b p).mp h
  obtain ⟨l', c0, c1, c2, c3, c4, c5, c6, c7, c8, c9, c10, c11, c12, _⟩ := (parse_some_iff b' p).mp h'
  apply eq_of_slices 13 b b' (by omega) (by omega)
  intro i hi
  interval_cases i
  · exact ptAt_inj a0 c0
  · exact ptAt_inj a1 c1
  · exact ptAt_inj a2 c2
  · exact ptAt_inj a3 c3
  · exact ptAt_inj a4 c4
  · exact ptAt_inj a5 c5
  · exact ptAt_inj a6 c6
  · exact ptAt_inj a7 c7
  · exact ptAt_inj a8 c8
  · exact ptAt_inj a9 c9
  · exact scAt_inj a10 c10
  · exact scAt_inj a11 c11
  · exact scAt_inj a12 c12

theorem challenge_indep (P1 P2 : G) (ct1 ct2 : Ct G) (y0 y1 y2 y3 : Bytes) (a b c a' b' c' : F) :
    (challenges T P1 P2 ct1 ct2 y0 y1 y2 y3 a b c).1 = (challenges T P1 P2 ct1 ct2 y0 y1 y2 y3 a' b' c').1 := by
  simp only [challenges, challengeScalar]

/-- any change of the response triple breaks one of the equations (needs `G ≠ 0`) -/
theorem response_binding (p p' : Parsed F G) (c : F) (hP1 : p.P1 ≠ 0) (hP2 : p.P2 ≠ 0) (hG : Gp ≠ 0)
    (hst : p'.P1 = p.P1 ∧ p'.P2 = p.P2 ∧ p'.ct1 = p.ct1 ∧ p'.ct2 = p.ct2 ∧
           p'.Y0 = p.Y0 ∧ p'.Y1 = p.Y1 ∧ p'.Y2 = p.Y2 ∧ p'.Y3 = p.Y3)
    (hz : ¬ (p'.zs = p.zs ∧ p'.zx = p.zx ∧ p'.zr = p.zr))
    (e0 : E0 p c = 0) (e2 : E2 p c = 0) (e3 : E3 p c = 0) :
    E0 p' c ≠ 0 ∨ E2 p' c ≠ 0 ∨ E3 p' c ≠ 0 := by
  obtain ⟨h1, h2, h3, h4, h5, h6, h7, h8⟩ := hst
  by_contra hall
  push_neg at hall
  obtain ⟨e0', e2', e3'⟩ := hall
  simp only [E0, E2, E3, h1, h2, h3, h4, h5, h7, h8] at e0 e2 e3 e0' e2' e3'
  have hs : p'.zs = p.zs := by
    have : (p'.zs - p.zs) • p.P1 = 0 := by linear_combination (norm := module) e0' - e0
    rcases smul_eq_zero.mp this with h | h
    · exact sub_eq_zero.mp h
    · exact absurd h hP1
  have hr : p'.zr = p.zr := by
    have : (p'.zr - p.zr) • p.P2 = 0 := by linear_combination (norm := module) e3' - e3
    rcases smul_eq_zero.mp this with h | h
    · exact sub_eq_zero.mp h
    · exact absurd h hP2
  have hx : p'.zx = p.zx := by
    rw [hr] at e2'
    have : (p'.zx - p.zx) • Gp = 0 := by linear_combination (norm := module) e2' - e2
    rcases smul_eq_zero.mp this with h | h
    · exact sub_eq_zero.mp h
    · exact absurd h hG
  exact hz ⟨hs, hx, hr⟩

end CtCtEq

/-! ## ciphertext–commitment equality -/
namespace CtCmtEq
open Sigma.CtCmtEq

theorem parse_injective (b b' : Bytes) (p : Parsed F G) (h : parse b = some p) (h' : parse b' = some p) :
    b = b' := by
  obtain ⟨l, a0, a1, a2, a3, a4, a5, a6, a7, a8, a9, _⟩ := (parse_some_iff b p).mp h
  obtain ⟨l', c0, c1, c2, c3, c4, c5, c6, c7, c8, c9, _⟩ := (parse_some_iff b' p).mp h'
  apply eq_of_slices 10 b b' (by omega) (by omega)
  intro i hi
  interval_cases i
  · exact ptAt_inj a0 c0
  · exact ptAt_inj a1 c1
  · exact ptAt_inj a2 c2
  · exact ptAt_inj a3 c3
  · exact ptAt_inj a4 c4
  · exact ptAt_inj a5 c5
  · exact ptAt_inj a6 c6
  · exact scAt_inj a7 c7
  · exact scAt_inj a8 c8
  · exact scAt_inj a9 c9

theorem challenge_indep (P Cm : G) (ct : Ct G) (y0 y1 y2 : Bytes) (a b c a' b' c' : F) :
    (challenges T P ct Cm y0 y1 y2 a b c).1 = (challenges T P ct Cm y0 y1 y2 a' b' c').1 := by
  simp only [challenges, challengeScalar]

/-- any change of the response triple breaks one of the equations (needs `G ≠ 0`, `H ≠ 0`) -/
theorem response_binding (p p' : Parsed F G) (c : F) (hP : p.P ≠ 0) (hG : Gp ≠ 0) (hH : Hp ≠ 0)
    (hst : p'.P = p.P ∧ p'.ct = p.ct ∧ p'.Cm = p.Cm ∧ p'.Y0 = p.Y0 ∧ p'.Y1 = p.Y1 ∧ p'.Y2 = p.Y2)
    (hz : ¬ (p'.zs = p.zs ∧ p'.zx = p.zx ∧ p'.zr = p.zr))
    (e0 : E0 p c = 0) (e1 : E1 p c = 0) (e2 : E2 p c = 0) :
    E0 p' c ≠ 0 ∨ E1 p' c ≠ 0 ∨ E2 p' c ≠ 0 := by
  obtain ⟨h1, h2, h3, h4, h5, h6⟩ := hst
  by_contra hall
  push_neg at hall
  obtain ⟨e0', e1', e2'⟩ := hall
  simp only [E0, E1, E2, h1, h2, h3, h4, h5, h6] at e0 e1 e2 e0' e1' e2'
  have hs : p'.zs = p.zs := by
    have : (p'.zs - p.zs) • p.P = 0 := by linear_combination (norm := module) e0' - e0
    rcases smul_eq_zero.mp this with h | h
    · exact sub_eq_zero.mp h
    · exact absurd h hP
  have hx : p'.zx = p.zx := by
    rw [hs] at e1'
    have : (p'.zx - p.zx) • Gp = 0 := by linear_combination (norm := module) e1' - e1
    rcases smul_eq_zero.mp this with h | h
    · exact sub_eq_zero.mp h
    · exact absurd h hG
  have hr : p'.zr = p.zr := by
    rw [hx] at e2'
    have : (p'.zr - p.zr) • Hp = 0 := by linear_combination (norm := module) e2' - e2
    rcases smul_eq_zero.mp this with h | h
    · exact sub_eq_zero.mp h
    · exact absurd h hH
  exact hz ⟨hs, hx, hr⟩

end CtCmtEq

section more
variable [DecidableEq F]

/-! ## percentage-with-cap -/
namespace Cap
open Sigma.Cap

/-- the 8 bytes of `max_value` are the little-endian encoding of the parsed number -/
theorem parse_injective (b b' : Bytes) (p : Parsed F G) (h : parse b = some p) (h' : parse b' = some p) :
    b = b' := by
  obtain ⟨l, a0, a1, a2, am, a3, a4, a5, a6, a7, a8, a9, a10, _⟩ := (C03.parse_spec b p).mp h
  obtain ⟨l', c0, c1, c2, cm, c3, c4, c5, c6, c7, c8, c9, c10, _⟩ := (C03.parse_spec b' p).mp h'
  -- split both strings as 96 | 8 | 256 bytes
  have split : ∀ x : Bytes, x.length = 360 → x = x.take 96 ++ (slice x 96 8 ++ x.drop 104) := by
    intro x hx
    have : slice x 96 8 ++ x.drop 104 = x.drop 96 := by
      unfold slice
      have : x.drop 104 = (x.drop 96).drop 8 := by rw [List.drop_drop]
      rw [this, List.take_append_drop]
    rw [this, List.take_append_drop]
  rw [split b l, split b' l']
  have sl : ∀ (x : Bytes) (i : ℕ), slice (x.take 96) (32 * i) 32 = slice x (32 * i) 32 ∨ 3 ≤ i := by
    intro x i
    by_cases hi : 3 ≤ i
    · exact Or.inr hi
    · left
      unfold slice
      rw [List.drop_take, List.take_take]
      congr 1; omega
  congr 1
  · apply eq_of_slices 3 _ _ (by simp [l]) (by simp [l'])
    intro i hi
    rcases sl b i with e | e <;> [skip; omega]
    rcases sl b' i with e' | e' <;> [skip; omega]
    rw [e, e']
    interval_cases i
    · exact ptAt_inj a0 c0
    · exact ptAt_inj a1 c1
    · exact ptAt_inj a2 c2
  · congr 1
    · have e1 := natLE_leNat_inv (slice b 96 8)
      have e2 := natLE_leNat_inv (slice b' 96 8)
      have l1 : (slice b 96 8).length = 8 := by simp [slice, l]
      have l2 : (slice b' 96 8).length = 8 := by simp [slice, l']
      rw [l1, ← am] at e1
      rw [l2, ← cm] at e2
      rw [← e1, ← e2]
    · apply eq_of_slices 8 _ _ (by simp [l]) (by simp [l'])
      intro i hi
      have sd : ∀ x : Bytes, slice (x.drop 104) (32 * i) 32 = slice x (104 + 32 * i) 32 := by
        intro x; simp [slice, List.drop_drop]
      rw [sd b, sd b']
      interval_cases i
      · exact ptAt_inj a3 c3
      · exact scAt_inj a4 c4
      · exact scAt_inj a5 c5
      · exact ptAt_inj a6 c6
      · exact ptAt_inj a7 c7
      · exact scAt_inj a8 c8
      · exact scAt_inj a9 c9
      · exact scAt_inj a10 c10

/-- the challenge `c` depends on the statement and the three masking commitments only -/
theorem challenge_indep (p p' : Parsed F G)
    (hst : p'.Cm = p.Cm ∧ p'.Cd = p.Cd ∧ p'.Cc = p.Cc ∧ p'.maxValue = p.maxValue ∧
      p'.ymB = p.ymB ∧ p'.ydB = p.ydB ∧ p'.ycB = p.ycB) :
    (challenges T p').1 = (challenges T p).1 := by
  obtain ⟨h1, h2, h3, h4, h5, h6, h7⟩ := hst
  simp only [challenges, challengeScalar, h1, h2, h3, h4, h5, h6, h7]

/-- changing exactly one of the five responses of an accepted proof (statement, masking commitments and
    hence `c` kept) makes one of the three equations fail -/
theorem response_binding (p p' : Parsed F G) (c : F) (hG : Gp ≠ 0) (hH : Hp ≠ 0) (hCd : p.Cd ≠ 0)
    (hst : p'.Cm = p.Cm ∧ p'.Cd = p.Cd ∧ p'.Cc = p.Cc ∧ p'.maxValue = p.maxValue ∧
      p'.Ym = p.Ym ∧ p'.Yd = p.Yd ∧ p'.Yc = p.Yc)
    (hone : (p'.zm ≠ p.zm ∧ p'.cm = p.cm ∧ p'.zx = p.zx ∧ p'.zd = p.zd ∧ p'.zc = p.zc) ∨
            (p'.zm = p.zm ∧ p'.cm ≠ p.cm ∧ p'.zx = p.zx ∧ p'.zd = p.zd ∧ p'.zc = p.zc) ∨
            (p'.zm = p.zm ∧ p'.cm = p.cm ∧ p'.zx ≠ p.zx ∧ p'.zd = p.zd ∧ p'.zc = p.zc) ∨
            (p'.zm = p.zm ∧ p'.cm = p.cm ∧ p'.zx = p.zx ∧ p'.zd ≠ p.zd ∧ p'.zc = p.zc) ∨
            (p'.zm = p.zm ∧ p'.cm = p.cm ∧ p'.zx = p.zx ∧ p'.zd = p.zd ∧ p'.zc ≠ p.zc))
    (e1 : Emax p = 0) (e2 : Edelta p c = 0) (e3 : Eclaimed p c = 0) :
    Emax p' ≠ 0 ∨ Edelta p' c ≠ 0 ∨ Eclaimed p' c ≠ 0 := by
  obtain ⟨h1, h2, h3, h4, h5, h6, h7⟩ := hst
  rcases hone with ⟨hz, k2, k3, k4, k5⟩ | ⟨k1, hz, k3, k4, k5⟩ | ⟨k1, k2, hz, k4, k5⟩ | ⟨k1, k2, k3, hz, k5⟩ |
      ⟨k1, k2, k3, k4, hz⟩
  · left
    intro e
    simp only [Emax, h1, h4, h5, k2] at e1 e
    have : (p'.zm - p.zm) • Hp = 0 := by linear_combination (norm := module) e1 - e
    rcases smul_eq_zero.mp this with h | h
    · exact hz (sub_eq_zero.mp h)
    · exact hH h
  · right; left
    intro e
    simp only [Edelta, h2, h6, k3, k4] at e2 e
    have : (p'.cm - p.cm) • p.Cd = 0 := by linear_combination (norm := module) e - e2
    rcases smul_eq_zero.mp this with h | h
    · exact hz (sub_eq_zero.mp h)
    · exact hCd h
  · right; left
    intro e
    simp only [Edelta, h2, h6, k2, k4] at e2 e
    have : (p'.zx - p.zx) • Gp = 0 := by linear_combination (norm := module) e - e2
    rcases smul_eq_zero.mp this with h | h
    · exact hz (sub_eq_zero.mp h)
    · exact hG h
  · right; left
    intro e
    simp only [Edelta, h2, h6, k2, k3] at e2 e
    have : (p'.zd - p.zd) • Hp = 0 := by linear_combination (norm := module) e - e2
    rcases smul_eq_zero.mp this with h | h
    · exact hz (sub_eq_zero.mp h)
    · exact hH h
  · right; right
    intro e
    simp only [Eclaimed, h3, h7, k2, k3] at e3 e
    have : (p'.zc - p.zc) • Hp = 0 := by linear_combination (norm := module) e - e3
    rcases smul_eq_zero.mp this with h | h
    · exact hz (sub_eq_zero.mp h)
    · exact hH h

end Cap

/-! ## grouped-ciphertext validity (2 handles; the other three layouts are analogous) -/
namespace Validity
open Sigma.Validity

/-- strict decoding: two byte strings with the same ten decoded fields are equal -/
theorem decode_injective2 (f : Fields2 F G) (b b' : Bytes) (h : f.decodes b) (h' : f.decodes b') : b = b' := by
  obtain ⟨l, a0, a1, a2, a3, a4, a5, a6, a7, a8, a9⟩ := h
  obtain ⟨l', c0, c1, c2, c3, c4, c5, c6, c7, c8, c9⟩ := h'
  apply eq_of_slices 10 b b' (by omega) (by omega)
  intro i hi
  interval_cases i
  · exact ptAt_inj a0 c0
  · exact ptAt_inj a1 c1
  · exact ptAt_inj a2 c2
  · exact ptAt_inj a3 c3
  · exact ptAt_inj a4 c4
  · exact ptAt_inj a5 c5
  · exact ptAt_inj a6 c6
  · exact ptAt_inj a7 c7
  · exact scAt_inj a8 c8
  · exact scAt_inj a9 c9

/-- the challenge `c` does not depend on the responses -/
theorem challenge_indep (n : ℕ) (t : T) (yBs : List Bytes) (Ys Ys' : List G) (zr zx zr' zx' : F) :
    (challengesDirect n t (⟨yBs, Ys, zr, zx⟩ : Proof F G)).1 = (challengesDirect n t (⟨yBs, Ys', zr', zx'⟩ : Proof F G)).1 := by
  simp only [challengesDirect, challengeScalar]

/-- changing a response of an accepted proof (statement, masking commitments, `c` kept) breaks the
    commitment equation (`z_x`, or `z_r`) -/
theorem response_binding (C Y0 : G) (zr zx zr' zx' c : F) (hG : Gp ≠ 0) (hH : Hp ≠ 0)
    (hone : (zr' ≠ zr ∧ zx' = zx) ∨ (zr' = zr ∧ zx' ≠ zx))
    (e0 : E0 C Y0 zr zx c = 0) : E0 C Y0 zr' zx' c ≠ 0 := by
  intro e
  simp only [E0] at e0 e
  rcases hone with ⟨hz, k⟩ | ⟨k, hz⟩
  · subst k
    have : (zr' - zr) • Hp = 0 := by linear_combination (norm := module) e - e0
    rcases smul_eq_zero.mp this with h | h
    · exact hz (sub_eq_zero.mp h)
    · exact hH h
  · subst k
    have : (zx' - zx) • Gp = 0 := by linear_combination (norm := module) e - e0
    rcases smul_eq_zero.mp this with h | h
    · exact hz (sub_eq_zero.mp h)
    · exact hG h

end Validity
end more
end Zk.Props.C07

/-! ## range proofs: the encoding is not malleable -/
namespace Zk.Props.C07.Range
open Zk Zk.Range

variable {F G T : Type} [Field F] [AddCommGroup G] [Module F G] [DecidableEq G]
  [PtCodec G] [ScCodec F] [PedGens G] [TranscriptOps T] [LawfulPtCodec G] [LawfulScCodec F]

theorem canon_inj {x x' : Bytes} {s : F} (h : ScCodec.canon x = some s) (h' : ScCodec.canon x' = some s) : x = x' := by
  rw [← LawfulScCodec.enc_canon _ _ h, ← LawfulScCodec.enc_canon _ _ h']

/-- what `parseIpp` returns, field by field -/
theorem parseIpp_spec (b : Bytes) (ipp : Ipp F G) (h : parseIpp b = some ipp) :
    b.length = 32 * (2 * ipp.lB.length + 2) ∧
    ipp.lB = (List.range ipp.lB.length).map (fun i => slice b (2 * i * 32) 32) ∧
    ipp.rB = (List.range ipp.lB.length).map (fun i => slice b (2 * i * 32 + 32) 32) ∧
    ScCodec.canon (slice b (2 * ipp.lB.length * 32) 32) = some ipp.a ∧
    ScCodec.canon (slice b (2 * ipp.lB.length * 32 + 32) 32) = some ipp.b := by
  unfold parseIpp at h
  simp only at h
  split at h
  · cases h
  rename_i h32
  split at h
  · cases h
  rename_i hnum
  split at h
  · cases h
  rename_i heven
  split at h
  · cases h
  simp only [Option.bind_eq_bind, Option.bind_eq_some_iff, Option.pure_def, Option.some.injEq] at h
  obtain ⟨a, ha, bb, hb, Ls, _, Rs, _, rfl⟩ := h
  simp only [List.length_map, List.length_range]
  refine ⟨by omega, trivial, trivial, ha, hb⟩


theorem parseIpp_injective (b b' : Bytes) (ipp : Ipp F G) (h : parseIpp b = some ipp) (h' : parseIpp b' = some ipp) :
    b = b' := by
  obtain ⟨l1, e1, e2, e3, e4⟩ := parseIpp_spec b ipp h
  obtain ⟨l1', e1', e2', e3', e4'⟩ := parseIpp_spec b' ipp h'
  apply eq_of_slices (2 * ipp.lB.length + 2) b b' l1 l1'
  intro i hi
  have hL : ∀ j < ipp.lB.length, slice b (2 * j * 32) 32 = slice b' (2 * j * 32) 32 := by
    have := e1.symm.trans e1'
    intro j hj
    exact List.map_inj_left.mp this j (List.mem_range.mpr hj)
  have hR : ∀ j < ipp.lB.length, slice b (2 * j * 32 + 32) 32 = slice b' (2 * j * 32 + 32) 32 := by
    have := e2.symm.trans e2'
    intro j hj
    exact List.map_inj_left.mp this j (List.mem_range.mpr hj)
  by_cases c1 : i < 2 * ipp.lB.length
  · rcases Nat.even_or_odd' i with ⟨j, rfl | rfl⟩
    · have := hL j (by omega)
      rw [show 32 * (2 * j) = 2 * j * 32 by ring]; exact this
    · have := hR j (by omega)
      rw [show 32 * (2 * j + 1) = 2 * j * 32 + 32 by ring]; exact this
  · by_cases c2 : i = 2 * ipp.lB.length
    · subst c2
      rw [show 32 * (2 * ipp.lB.length) = 2 * ipp.lB.length * 32 by ring]
      exact canon_inj e3 e3'
    · have : i = 2 * ipp.lB.length + 1 := by omega
      subst this
      rw [show 32 * (2 * ipp.lB.length + 1) = 2 * ipp.lB.length * 32 + 32 by ring]
      exact canon_inj e4 e4'

/-- **the range-proof encoding is not malleable**: two byte strings that decode to the same proof are equal -/
theorem parse_injective (b b' : Bytes) (pf : Proof F G) (h : parseProof b = some pf) (h' : parseProof b' = some pf) :
    b = b' := by
  have key : ∀ (x : Bytes), parseProof x = some pf →
      224 ≤ x.length ∧ slice x 0 32 = pf.aB ∧ slice x 32 32 = pf.sB ∧ slice x 64 32 = pf.t1B ∧ slice x 96 32 = pf.t2B ∧
      ScCodec.canon (slice x 128 32) = some pf.tx ∧ ScCodec.canon (slice x 160 32) = some pf.txBlinding ∧
      ScCodec.canon (slice x 192 32) = some pf.eBlinding ∧ parseIpp (x.drop 224) = some pf.ipp := by
    intro x hx
    unfold parseProof at hx
    split at hx
    · cases hx
    split at hx
    · cases hx
    rename_i hlen
    simp only [Option.bind_eq_bind, Option.bind_eq_some_iff, Option.pure_def, Option.some.injEq] at hx
    obtain ⟨_, _, _, _, _, _, _, _, tx, htx, txb, htxb, eb, heb, ipp, hipp, rfl⟩ := hx
    exact ⟨by omega, rfl, rfl, rfl, rfl, htx, htxb, heb, hipp⟩
  obtain ⟨g0, a0, a1, a2, a3, a4, a5, a6, a7⟩ := key b h
  obtain ⟨g0', c0, c1, c2, c3, c4, c5, c6, c7⟩ := key b' h'
  have hd : b.drop 224 = b'.drop 224 := parseIpp_injective _ _ _ a7 c7
  have ht : b.take 224 = b'.take 224 := by
    apply eq_of_slices 7 _ _ (by simp; omega) (by simp; omega)
    intro i hi
    have sl : ∀ (x : Bytes) (k : ℕ), k + 32 ≤ 224 → slice (x.take 224) k 32 = slice x k 32 := by
      intro x k hk
      simp only [slice, List.drop_take, List.take_take]
      congr 1; omega
    rw [sl b _ (by omega), sl b' _ (by omega)]
    interval_cases i
    · exact a0.trans c0.symm
    · exact a1.trans c1.symm
    · exact a2.trans c2.symm
    · exact a3.trans c3.symm
    · exact canon_inj a4 c4
    · exact canon_inj a5 c5
    · exact canon_inj a6 c6
  rw [← List.take_append_drop 224 b, ← List.take_append_drop 224 b', ht, hd]

end Zk.Props.C07.Range

import ZkElGamal.Model.Decode
import ZkElGamal.Proofs.Basic
import ZkElGamal.Proofs.RangeProve
/-!
# C08 — decoding and verifying untrusted bytes never panics

The decoders are modelled with Rust's partial operations explicit (`Outcome.panic` for an
out-of-range slice, an `unwrap` on `None`, a failing `assert!`, an overflowing checked
operation that is unwrapped). `X_no_panic : ∀ input, X input ≠ panic`.
The theorems are over *arbitrary* codecs (no laws needed): absence of panics is a property of
the control flow and the length arithmetic only.

`keypair_unfixed_panics` states finding F1 (repaired in /repo by a `fix:` commit): before the
repair the key-pair decoder reaches `assert!(s != 0)` on a well-formed zero secret scalar.
(The verifiers of the sigma instructions are total functions in the model — their only partial
operations in Rust are the fixed-size chunk reads after an exact length check — and are covered
on the implementation side by `catch_unwind` in the correspondence.)

Range proofs: `parseIpp_lengths`, `parseProof_lengths` and `mega_lengths_eq` show that whenever the
verifier reaches the multiscalar multiplication its operand lists have equal lengths, for every
input (the only assertion on that path); `verification_scalars`' own guards are `C04.verificationScalars_lengths`.
-/
set_option linter.unusedSectionVars false
namespace Zk.Props.C08
open Zk Zk.Outcome

section
variable {Sc Pt : Type}
  [Add Sc] [Mul Sc] [Neg Sc] [Sub Sc] [Zero Sc] [One Sc] [Inv Sc] [BEq Sc]
  [Add Pt] [Neg Pt] [Sub Pt] [Zero Pt] [SMul Sc Pt] [BEq Pt]
  [PtCodec Pt] [ScCodec Sc] [PedGens Pt]

theorem ofOption_ne_panic {α} (o : Option α) : Outcome.ofOption o ≠ .panic := by
  cases o <;> simp [Outcome.ofOption]

theorem decodePoint_no_panic (b : Bytes) : decodePoint (Pt := Pt) b ≠ .panic := by
  unfold decodePoint; split
  · simp
  · exact ofOption_ne_panic _

theorem decodeScalar_no_panic (b : Bytes) : decodeScalar (Sc := Sc) b ≠ .panic := by
  unfold decodeScalar; split
  · simp
  · exact ofOption_ne_panic _

theorem rsSlice_ok (b : Bytes) (i j : Nat) (h : i ≤ j ∧ j ≤ b.length) :
    rsSlice b i j = .ok ((b.drop i).take (j - i)) := by simp [rsSlice, h]

/-- bind with a panic-free first stage: panic-freedom reduces to the continuation -/
theorem bind_ne_panic {α β} (x : Outcome α) (f : α → Outcome β) (hx : x ≠ .panic)
    (hf : ∀ a, x = .ok a → f a ≠ .panic) : (x >>= f) ≠ .panic := by
  cases x with
  | ok a => exact hf a rfl
  | err => simp [Bind.bind, Outcome.bind]
  | panic => exact absurd rfl hx

/-- key-pair decoder (with the repair of F1): never panics, for every byte string -/
theorem decodeKeypair_no_panic (b : Bytes) : decodeKeypair (Sc := Sc) (Pt := Pt) b ≠ .panic := by
  unfold decodeKeypair
  split
  · simp
  · rename_i hl
    have hl : b.length = 64 := by simpa using hl
    rw [rsSlice_ok b 0 32 (by omega)]
    apply bind_ne_panic _ _ (by simp)
    intro pb _
    apply bind_ne_panic _ _ (decodePoint_no_panic _)
    intro P _
    rw [rsSlice_ok b 32 b.length (by omega)]
    apply bind_ne_panic _ _ (by simp)
    intro sb _
    apply bind_ne_panic _ _ (decodeScalar_no_panic _)
    intro s _
    split
    · simp
    · rename_i hs
      have : pubkeyNew (Pt := Pt) s = .ok (pubkeyOf s) := by simp [pubkeyNew, hs]
      rw [this]
      apply bind_ne_panic _ _ (by simp)
      intro P' _
      split <;> simp

theorem decodeCiphertext_no_panic (b : Bytes) : decodeCiphertext (Pt := Pt) b ≠ .panic := by
  unfold decodeCiphertext
  split
  · simp
  · rename_i hl
    have hl : b.length = 64 := by simpa using hl
    rw [rsSlice_ok b 0 32 (by omega)]
    apply bind_ne_panic _ _ (by simp)
    intro cb _
    apply bind_ne_panic _ _ (decodePoint_no_panic _)
    intro C _
    rw [rsSlice_ok b 32 b.length (by omega)]
    apply bind_ne_panic _ _ (by simp)
    intro db _
    apply bind_ne_panic _ _ (decodePoint_no_panic _)
    intro D _
    simp

/-- the handle loop reads `n` chunks of a `32·n`-byte string: in range, and returns `n` handles -/
theorem decodeHandles_spec (n : Nat) (b : Bytes) (h : b.length = 32 * n) :
    decodeHandles (Pt := Pt) b n ≠ .panic ∧
    ∀ Ds, decodeHandles (Pt := Pt) b n = .ok Ds → Ds.length = n := by
  induction n generalizing b with
  | zero => simp [decodeHandles]
  | succ n ih =>
    have ih' := ih (b.drop 32) (by simp; omega)
    unfold decodeHandles
    rw [rsSlice_ok b 0 32 (by omega)]
    constructor
    · apply bind_ne_panic _ _ (by simp)
      intro hb _
      apply bind_ne_panic _ _ (decodePoint_no_panic _)
      intro D _
      apply bind_ne_panic _ _ ih'.1
      intro rest _
      simp
    · intro Ds hDs
      simp only [Bind.bind, Outcome.bind] at hDs
      cases hd : decodePoint (Pt := Pt) (List.take (32 - 0) (List.drop 0 b)) with
      | ok D =>
        rw [hd] at hDs
        simp only at hDs
        cases hr : decodeHandles (Pt := Pt) (List.drop 32 b) n with
        | ok rest =>
          rw [hr] at hDs
          simp only [Outcome.ok.injEq] at hDs
          rw [← hDs, List.length_cons, ih'.2 rest hr]
        | err => rw [hr] at hDs; cases hDs
        | panic => rw [hr] at hDs; cases hDs
      | err => rw [hd] at hDs; cases hDs
      | panic => rw [hd] at hDs; cases hDs

/-- grouped ciphertext with any realistic number of handles -/
theorem decodeGrouped_no_panic (n : Nat) (hn : n < 2 ^ 58) (b : Bytes) :
    decodeGrouped (Pt := Pt) n b ≠ .panic := by
  unfold decodeGrouped
  have h1 : checkedAdd n 1 = some (n + 1) := by simp [checkedAdd]; omega
  have h2 : checkedMul (n + 1) 32 = some ((n + 1) * 32) := by simp [checkedMul]; omega
  simp only [h1, Option.bind_some, h2]
  split
  · simp
  · rename_i hl
    have hl : b.length = (n + 1) * 32 := by simpa using hl
    rw [rsSlice_ok b 0 32 (by omega)]
    apply bind_ne_panic _ _ (by simp)
    intro cb _
    apply bind_ne_panic _ _ (decodePoint_no_panic _)
    intro C _
    have hs := decodeHandles_spec (Pt := Pt) n (b.drop 32) (by simp; omega)
    apply bind_ne_panic _ _ hs.1
    intro Ds hDs
    simp [hs.2 Ds hDs]

end

/-- Pod extraction by index: every index (the whole `usize` range and beyond) gives a value or an error -/
theorem tryExtract_no_panic (pod : Bytes) (index : Nat) (h : 32 ≤ pod.length) :
    tryExtract pod index ≠ .panic := by
  unfold tryExtract
  split
  · simp
  · split
    · simp
    · rw [rsSlice_ok pod 0 32 (by omega)]
      simp only
      split <;> simp

/-- … and it succeeds exactly for the handle indices that exist -/
theorem tryExtract_ok_iff (n : Nat) (pod : Bytes) (index : Nat) (h : pod.length = 32 * (n + 1)) (hn : n < 2 ^ 50) :
    (∃ c, tryExtract pod index = .ok c) ↔ index < n := by
  unfold tryExtract
  by_cases hi : index < n
  · have h1 : checkedMul 32 index = some (32 * index) := by simp [checkedMul]; omega
    have h2 : checkedAdd (32 * index) 32 = some (32 * index + 32) := by simp [checkedAdd]; omega
    have h3 : checkedAdd (32 * index + 32) 32 = some (32 * index + 32 + 32) := by simp [checkedAdd]; omega
    have h4 : sliceGet pod (32 * index + 32) (32 * index + 32 + 32) =
        some ((pod.drop (32 * index + 32)).take (32 * index + 32 + 32 - (32 * index + 32))) := by
      simp only [sliceGet]; rw [if_pos]; omega
    simp [h1, h2, h3, h4, rsSlice_ok pod 0 32 (by omega), hi]
  · simp only [hi, iff_false, not_exists]
    intro c
    cases hm : checkedMul 32 index with
    | none => simp
    | some k =>
      simp only [Option.bind_some]
      have hk : k = 32 * index := by
        simp only [checkedMul] at hm; split at hm <;> simp_all
      cases ha : checkedAdd k 32 with
      | none => simp
      | some start =>
        have hst : start = k + 32 := by
          simp only [checkedAdd] at ha; split at ha <;> simp_all
        simp only
        cases hb : checkedAdd start 32 with
        | none => simp
        | some stop =>
          have hsp : stop = start + 32 := by
            simp only [checkedAdd] at hb; split at hb <;> simp_all
          simp only [rsSlice_ok pod 0 32 (by omega)]
          have : sliceGet pod start stop = none := by
            simp only [sliceGet]; rw [if_neg]; omega
          simp [this]

theorem decodeAeKey_no_panic (b : Bytes) : decodeAeKey b ≠ .panic := by
  unfold decodeAeKey; split <;> simp

theorem decodeAeCiphertext_no_panic (b : Bytes) : decodeAeCiphertext b ≠ .panic := by
  unfold decodeAeCiphertext
  split
  · simp
  · rename_i hl
    have hl : b.length = 36 := by simpa using hl
    rw [rsSlice_ok b 0 12 (by omega), rsSlice_ok b 12 b.length (by omega)]
    simp [Bind.bind, Outcome.bind]

/-- **Finding F1** (now repaired): with codecs that decode the 32 zero bytes as the zero scalar and
    some point encoding, the *unrepaired* key-pair decoder panics -/
theorem keypair_unfixed_panics {F G : Type} [Field F] [DecidableEq F] [AddCommGroup G] [Module F G]
    [DecidableEq G] [PtCodec G] [ScCodec F] [PedGens G]
    (pb : Bytes) (P : G) (hpb : pb.length = 32) (hP : PtCodec.dec pb = some P)
    (hz : ScCodec.canon zero32 = some (0 : F)) :
    decodeKeypairUnfixed (Sc := F) (Pt := G) (pb ++ zero32) = .panic := by
  have hz32 : zero32.length = 32 := by simp [zero32]
  have hl : (pb ++ zero32).length = 64 := by simp [hpb, hz32]
  unfold decodeKeypairUnfixed
  simp only [hl, ne_eq, not_true_eq_false, if_false]
  rw [rsSlice_ok _ 0 32 (by omega), rsSlice_ok _ 32 64 (by omega)]
  have t1 : List.take (32 - 0) (List.drop 0 (pb ++ zero32)) = pb := by
    simp [← hpb]
  have t2 : List.take (64 - 32) (List.drop 32 (pb ++ zero32)) = zero32 := by
    rw [List.drop_left' hpb]
    exact List.take_of_length_le (by omega)
  simp only [Bind.bind, Outcome.bind, t1, t2, decodePoint, decodeScalar, hpb, hz32, ne_eq,
    not_true_eq_false, if_false, hP, hz, Outcome.ofOption, pubkeyNew, beq_self_eq_true, if_true]

end Zk.Props.C08

/-! ## range-proof verification: the multiscalar operands always have equal lengths -/
namespace Zk.Props.C08
open Zk Zk.Range

section range
variable {F G T : Type} [Field F] [AddCommGroup G] [Module F G] [DecidableEq G]
  [PtCodec G] [ScCodec F] [PedGens G] [TranscriptOps T]

/-- decoding an inner-product proof yields as many points as compressed slots -/
theorem parseIpp_lengths (b : Bytes) (ipp : Ipp F G) (h : parseIpp b = some ipp) :
    ipp.Ls.length = ipp.lB.length ∧ ipp.Rs.length = ipp.rB.length ∧ ipp.lB.length = ipp.rB.length := by
  unfold parseIpp at h
  simp only at h
  split at h
  · cases h
  split at h
  · cases h
  split at h
  · cases h
  split at h
  · cases h
  simp only [Option.bind_eq_bind, Option.bind_eq_some_iff, Option.pure_def, Option.some.injEq] at h
  obtain ⟨a, _, bb, _, Ls, hLs, Rs, hRs, rfl⟩ := h
  refine ⟨Props.C04.mapM_some_length _ _ _ hLs, Props.C04.mapM_some_length _ _ _ hRs, by simp⟩

theorem parseProof_lengths (b : Bytes) (pf : Proof F G) (h : parseProof b = some pf) :
    pf.ipp.Ls.length = pf.ipp.lB.length ∧ pf.ipp.Rs.length = pf.ipp.rB.length := by
  unfold parseProof at h
  split at h
  · cases h
  split at h
  · cases h
  simp only [Option.bind_eq_bind, Option.bind_eq_some_iff, Option.pure_def, Option.some.injEq] at h
  obtain ⟨_, _, _, _, _, _, _, _, _, _, _, _, _, _, ipp, hipp, rfl⟩ := h
  exact ⟨(parseIpp_lengths _ _ hipp).1, (parseIpp_lengths _ _ hipp).2.1⟩

/-- **no size-hint assertion**: whenever the verifier reaches the multiscalar multiplication
    (context decoded, proof decoded, challenges computed), its two operand lists have equal lengths,
    for every input — so `optional_multiscalar_mul`'s length assertion cannot fire -/
theorem mega_lengths_eq (t : T) (gG gH comms : List G) (bls : List ℕ) (b : Bytes) (pf : Proof F G) (c : Challenges F)
    (hcb : comms.length = bls.length) (hg1 : gG.length = bls.sum) (hg2 : gH.length = bls.sum)
    (hp : parseProof b = some pf) (hc : challenges t bls.sum pf = some c) :
    (megaScalars bls pf c).length = (megaPoints gG gH comms pf).length := by
  obtain ⟨l1, l2⟩ := parseProof_lengths b pf hp
  obtain ⟨uSq, uInvSq, s, t', d, hvs, rfl⟩ := Props.C04.challenges_some _ _ _ _ hc
  obtain ⟨q1, q2, q3, q4, -, -⟩ := Props.C04.verificationScalars_lengths _ _ _ _ _ _ _ hvs
  simp only [megaScalars, megaPoints, List.length_append, List.length_cons, List.length_nil, List.length_map,
    List.length_zip, List.length_reverse, powers_length, concatZAnd2_length, q1, q2, q3, hg1, hg2, l1, l2, hcb, ← q4]
  omega

end range
end Zk.Props.C08

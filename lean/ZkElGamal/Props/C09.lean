import ZkElGamal.Proofs.Basic
/-!
# C09 — twisted ElGamal decryption inverts encryption for every key, amount and handle
-/
set_option linter.unusedSectionVars false
namespace Zk.Props.C09
open Zk

variable {F G : Type} [Field F] [AddCommGroup G] [Module F G] [PedGens G]

local notation "Gp" => (PedGens.G : G)
local notation "Hp" => (PedGens.H : G)

/-- the public key of a non-zero secret satisfies `s•P = H` -/
theorem pubkey_spec (s : F) (hs : s ≠ 0) : s • (pubkeyOf s : G) = Hp := by
  simp [pubkeyOf, smul_smul, mul_inv_cancel₀ hs]

/-- decryption under the matching key yields exactly `amount•G`, for every key, amount, opening -/
theorem decrypt_encrypt (s x r : F) (hs : s ≠ 0) :
    decryptTarget s (encryptWith (pubkeyOf s : G) x r) = x • Gp := by
  simp only [decryptTarget, encryptWith, pedersenWith, decryptHandle, pubkeyOf, msm_cons_cons, msm_nil_left,
    smul_smul]
  have : s * (r * s⁻¹) = r := by rw [mul_comm r, ← mul_assoc, mul_inv_cancel₀ hs, one_mul]
  rw [this]; module

/-- under any other key the target is `x•G + r(1 − s'/s)•H` (that this is not a small multiple of
    `G` is a discrete-log statement and is not claimed) -/
theorem decrypt_wrong_key (s s' x r : F) (hs : s ≠ 0) :
    decryptTarget s' (encryptWith (pubkeyOf s : G) x r) = x • Gp + (r * (1 - s' * s⁻¹)) • Hp := by
  simp only [decryptTarget, encryptWith, pedersenWith, decryptHandle, pubkeyOf, msm_cons_cons, msm_nil_left]
  module

/-- so with the wrong key the target equals `x•G` only if `r = 0` or the keys coincide,
    provided `H ≠ 0` -/
theorem decrypt_wrong_key_eq_iff (s s' x r : F) (hs : s ≠ 0) (hH : Hp ≠ 0) :
    decryptTarget s' (encryptWith (pubkeyOf s : G) x r) = x • Gp ↔ r = 0 ∨ s' = s := by
  rw [decrypt_wrong_key s s' x r hs]
  constructor
  · intro h
    have h0 : (r * (1 - s' * s⁻¹)) • Hp = 0 := by
      have := congrArg (fun v => v - x • Gp) h; simpa using this
    rcases smul_eq_zero.mp h0 with h1 | h1
    · rcases mul_eq_zero.mp h1 with h2 | h2
      · exact Or.inl h2
      · right
        have : s' * s⁻¹ = 1 := by linear_combination -h2
        calc s' = s' * s⁻¹ * s := by rw [mul_assoc, inv_mul_cancel₀ hs, mul_one]
          _ = s := by rw [this, one_mul]
    · exact absurd h1 hH
  · rintro (h | h)
    · simp [h]
    · subst h; simp [mul_inv_cancel₀ hs]

/-! grouped ciphertexts -/

/-- each extracted single-handle ciphertext equals the direct encryption under key `i` with the
    same opening; an out-of-range index gives nothing -/
theorem grouped_to_elgamal (Ps : List G) (x r : F) (i : ℕ) :
    (groupedEncryptWith Ps x r).toElGamal i = (Ps[i]?).map (fun P => encryptWith P x r) := by
  simp [GCt.toElGamal, groupedEncryptWith, encryptWith, List.getElem?_map, Option.map_map, Function.comp_def]

theorem grouped_index_out_of_range (Ps : List G) (x r s : F) (i : ℕ) (h : Ps.length ≤ i) :
    (groupedEncryptWith Ps x r).toElGamal i = none ∧
    (groupedEncryptWith Ps x r).decryptTarget s i = none := by
  have : (List.map (fun P => decryptHandle P r) Ps)[i]? = none := by
    rw [List.getElem?_eq_none]; simpa using h
  simp [GCt.toElGamal, GCt.decryptTarget, groupedEncryptWith, this]

/-- every handle `i` decrypts under key `i` to the same `amount•G` (any group size) -/
theorem grouped_decrypt (ss : List F) (x r : F) (i : ℕ) (hi : i < ss.length) (hs : ss[i] ≠ 0) :
    (groupedEncryptWith (ss.map (fun s => (pubkeyOf s : G))) x r).decryptTarget ss[i] i = some (x • Gp) := by
  have hget : (ss.map (fun s => (pubkeyOf s : G)))[i]? = some (pubkeyOf ss[i]) := by
    simp [List.getElem?_map, List.getElem?_eq_getElem hi]
  rw [GCt.decryptTarget, grouped_to_elgamal, hget]
  simp only [Option.map_some]
  rw [decrypt_encrypt _ x r hs]

example : (groupedEncryptWith ([] : List G) (1 : F) 1).toElGamal 0 = none := by
  simp [GCt.toElGamal, groupedEncryptWith]

end Zk.Props.C09

import ZkElGamal.Model.DiscreteLog
import ZkElGamal.Proofs.Basic
import Mathlib.Tactic.Abel
import Mathlib.Tactic.Ring
/-!
# C10 — 32-bit discrete-log decoding is exact under every supported configuration

Under `TableSpec` (the precomputed table maps exactly `key(2¹⁶·h·G) ↦ h` for `h < 2¹⁶` — `key` being
"compress the double" — and multiples of `G` below `2³³` are distinct):

* `decode_spec_single`, `decode_spec_threads` — `decode_u32` returns `some x` **iff** `x < 2³²` and
  `target = x•G`; for the sequential search and for every accepted thread count (a power of two
  ≤ 65536), and for **every** accepted compression batch size;
* `decode_config_independent` — hence the answer does not depend on the configuration;
* `threads_refused_iff`, `batch_refused_iff` — which configurations are refused.

Schedule independence: in the model the per-thread results are a pure function of the inputs, joined
in spawn order; real interleavings, a thread that fails to spawn/join (`map_while(join().ok())`) are
runtime behaviour the model cannot exhibit (PARTIAL). The table file itself is checked against its
specification by running the model (`zkmodel` op `dlogtable`, thorough tier), not by the kernel.
-/
set_option linter.unusedSectionVars false
namespace Zk.Props.C10
open Zk Zk.DiscreteLog

theorem foldl_last_some {α β : Type} (f : α → Option β) (d : Option β) (l : List α) :
    let r := l.foldl (fun d it => f it <|> d) d
    (r = d ∧ ∀ it ∈ l, f it = none) ∨ (∃ it ∈ l, f it ≠ none ∧ f it = r) := by
  induction l generalizing d with
  | nil => simp
  | cons x xs ih =>
    simp only [List.foldl_cons]
    rcases ih (f x <|> d) with ⟨h1, h2⟩ | ⟨it, hit, hne, heq⟩
    · cases hx : f x with
      | none =>
        left
        simp only [hx] at h1
        refine ⟨h1, ?_⟩
        intro it hit
        rcases List.mem_cons.mp hit with rfl | h
        · exact hx
        · exact h2 it h
      | some v =>
        right
        simp only [hx] at h1
        have hv : (some v <|> d) = some v := by simp
        rw [hv] at h1
        exact ⟨x, List.mem_cons_self, by simp [hx], by rw [hx, hv, h1]⟩
    · right
      exact ⟨it, List.mem_cons_of_mem _ hit, hne, heq⟩

variable {F G K : Type} [Field F] [AddCommGroup G] [Module F G] [DecidableEq G]

/-- the contribution of one iterator item -/
def hit (key : G → K) (table : K → Option ℕ) (pi : G × ℕ) : Option ℕ :=
  if pi.1 = 0 then some pi.2 else (table (key pi.1)).map (pi.2 + 65536 * ·)

theorem decodeBatch_cases (key : G → K) (table : K → Option ℕ) (d : Option ℕ) (batch : List (G × ℕ)) :
    (decodeBatch key table d batch = d ∧ ∀ it ∈ batch, hit key table it = none) ∨
    (∃ it ∈ batch, hit key table it ≠ none ∧ hit key table it = decodeBatch key table d batch) := by
  unfold decodeBatch
  simp only
  have e1 : ∀ (l : List (G × ℕ)) (d0 : Option ℕ),
      l.foldl (fun d (pi : G × ℕ) => if (pi.1 == 0) = true then some pi.2 else d) d0
      = l.foldl (fun d it => (if it.1 = 0 then some it.2 else none : Option ℕ) <|> d) d0 := by
    intro l d0; congr 1; funext d it; by_cases h : it.1 = 0 <;> simp [h]
  rw [e1]
  set d1 := batch.foldl (fun d it => (if it.1 = 0 then some it.2 else none : Option ℕ) <|> d) d with hd1
  have p1 := foldl_last_some (fun it : G × ℕ => (if it.1 = 0 then some it.2 else none : Option ℕ)) d batch
  have p2 := foldl_last_some (fun it : G × ℕ => (table (key it.1)).map (it.2 + 65536 * ·)) d1
    (batch.filter fun pi => !(pi.1 == 0))
  simp only at p1 p2
  rw [← hd1] at p1
  rcases p2 with ⟨h2r, h2n⟩ | ⟨it, hit2, hne, heq⟩
  · rw [h2r]
    rcases p1 with ⟨h1r, h1n⟩ | ⟨it, hit1, hne, heq⟩
    · left
      refine ⟨h1r, ?_⟩
      intro it hit
      unfold Zk.Props.C10.hit
      by_cases h0 : it.1 = 0
      · have := h1n it hit; simp [h0] at this
      · simp only [h0, if_false]
        exact h2n it (by simp [List.mem_filter, hit, h0])
    · right
      refine ⟨it, hit1, ?_, ?_⟩
      · unfold Zk.Props.C10.hit
        by_cases h0 : it.1 = 0
        · simp [h0]
        · simp [h0] at hne
      · unfold Zk.Props.C10.hit
        by_cases h0 : it.1 = 0
        · simp only [h0, if_true] at heq ⊢; exact heq
        · simp [h0] at hne
  · right
    have hm := List.mem_filter.mp hit2
    have h0 : it.1 ≠ 0 := by simpa using hm.2
    refine ⟨it, hm.1, ?_, ?_⟩
    · unfold Zk.Props.C10.hit; simp only [h0, if_false]; exact hne
    · unfold Zk.Props.C10.hit; simp only [h0, if_false]; exact heq



theorem chunks_flatten {α : Type} (size : ℕ) (hs : 0 < size) (fuel : ℕ) (l : List α) (hf : l.length ≤ fuel) :
    (chunks size fuel l).flatten = l := by
  induction fuel generalizing l with
  | zero =>
    have : l = [] := List.eq_nil_of_length_eq_zero (by omega)
    simp [chunks, this]
  | succ fuel ih =>
    unfold chunks
    by_cases he : l.isEmpty = true
    · simp only [he, if_true, List.flatten_nil]
      exact (List.isEmpty_iff.mp he).symm
    · have he' : l.isEmpty = false := by simpa using he
      simp only [he', Bool.false_eq_true, if_false, List.flatten_cons]
      have hl : 0 < l.length := by
        cases l with
        | nil => simp at he
        | cons _ _ => simp
      rw [ih (l.drop size) (by simp; omega), List.take_append_drop]


theorem mem_iterate (start step : G) (i0 di n : ℕ) (P : G) (i : ℕ) :
    (P, i) ∈ iterate start i0 step di n ↔ ∃ j < n, P = start + j • step ∧ i = i0 + j * di := by
  induction n generalizing start i0 with
  | zero => simp [iterate]
  | succ n ih =>
    simp only [iterate, List.mem_cons, Prod.mk.injEq, ih]
    constructor
    · rintro (⟨rfl, rfl⟩ | ⟨j, hj, rfl, rfl⟩)
      · exact ⟨0, by omega, by simp, by simp⟩
      · exact ⟨j + 1, by omega, by rw [succ_nsmul]; abel, by ring⟩
    · rintro ⟨j, hj, rfl, rfl⟩
      cases j with
      | zero => left; simp
      | succ j => right; exact ⟨j, by omega, by rw [succ_nsmul]; abel, by ring⟩


/-! ## batches -/

/-- folding `decode_batch` over any partition into batches: the result is the initial value (and no
    item of any batch matches) or the contribution of some matching item -/
theorem foldl_batches (key : G → K) (table : K → Option ℕ) (d : Option ℕ) (bs : List (List (G × ℕ))) :
    let r := bs.foldl (decodeBatch key table) d
    (r = d ∧ ∀ b ∈ bs, ∀ it ∈ b, hit key table it = none) ∨
    (∃ b ∈ bs, ∃ it ∈ b, hit key table it ≠ none ∧ hit key table it = r) := by
  induction bs generalizing d with
  | nil => simp
  | cons b rest ih =>
    simp only [List.foldl_cons]
    rcases ih (decodeBatch key table d b) with ⟨h1, h2⟩ | ⟨b', hb', it, hit', hne, heq⟩
    · rcases decodeBatch_cases key table d b with ⟨g1, g2⟩ | ⟨it, hit', hne, heq⟩
      · left
        refine ⟨by rw [h1, g1], ?_⟩
        intro b0 hb0 it hit'
        rcases List.mem_cons.mp hb0 with rfl | hb0
        · exact g2 it hit'
        · exact h2 b0 hb0 it hit'
      · right
        exact ⟨b, List.mem_cons_self, it, hit', hne, by rw [heq, h1]⟩
    · right
      exact ⟨b', List.mem_cons_of_mem _ hb', it, hit', hne, heq⟩

/-- `decode_range` in terms of the items it iterates over — for every batch size ≥ 1 -/
theorem decodeRange_cases (key : G → K) (table : K → Option ℕ) (start step : G) (i0 di rb bsz : ℕ)
    (hb : 0 < bsz) :
    let r := decodeRange key table start i0 step di rb bsz
    (r = none ∧ ∀ it ∈ iterate start i0 step di rb, hit key table it = none) ∨
    (∃ it ∈ iterate start i0 step di rb, hit key table it ≠ none ∧ hit key table it = r) := by
  unfold decodeRange
  simp only
  have hlen : (iterate start i0 step di rb).length = rb := by
    generalize start = s0; generalize i0 = j0
    induction rb generalizing s0 j0 with
    | zero => rfl
    | succ n ih => simp [iterate, ih]
  have hfl := chunks_flatten bsz hb (rb + 1) (iterate start i0 step di rb) (by omega)
  have mem_iff : ∀ it, it ∈ iterate start i0 step di rb ↔
      ∃ b ∈ chunks bsz (rb + 1) (iterate start i0 step di rb), it ∈ b := by
    intro it
    conv_lhs => rw [← hfl]
    simp [List.mem_flatten]
  rcases foldl_batches key table none (chunks bsz (rb + 1) (iterate start i0 step di rb)) with
    ⟨h1, h2⟩ | ⟨b, hb', it, hit', hne, heq⟩
  · left
    refine ⟨h1, ?_⟩
    intro it hit'
    obtain ⟨b, hb', hib⟩ := (mem_iff it).mp hit'
    exact h2 b hb' it hib
  · right
    exact ⟨it, (mem_iff it).mpr ⟨b, hb', hit'⟩, hne, heq⟩

/-! ## the table specification -/

/-- `stepPoint n = Scalar::from(n) * G` -/
def stepPoint (F : Type) [Field F] [Module F G] (Gen : G) (n : ℕ) : G := (n : F) • Gen

/-- what the precomputed table and the group are assumed to satisfy -/
structure TableSpec (F : Type) [Field F] [Module F G] (key : G → K) (table : K → Option ℕ) (Gen : G) : Prop where
  /-- the table holds exactly the keys of `2¹⁶·h·G`, `h < 2¹⁶`, mapped to `h` -/
  table_iff : ∀ (P : G) (h : ℕ), table (key P) = some h ↔ h < 65536 ∧ P = stepPoint F Gen (65536 * h)
  /-- multiples of `G` below `2³³` are pairwise distinct (the order of `G` exceeds `2³³`) -/
  gen_inj : ∀ a b : ℕ, a < 2 ^ 33 → b < 2 ^ 33 → stepPoint F Gen a = stepPoint F Gen b → a = b

theorem stepPoint_add (Gen : G) (a b : ℕ) : stepPoint F Gen (a + b) = stepPoint F Gen a + stepPoint F Gen b := by
  simp [stepPoint, add_smul]

theorem stepPoint_nsmul (Gen : G) (a j : ℕ) : j • stepPoint F Gen a = stepPoint F Gen (j * a) := by
  simp only [stepPoint, Nat.cast_mul, ← Nat.cast_smul_eq_nsmul F, smul_smul]

/-- the contribution of the item `(target − m•G, m)` -/
theorem hit_item (key : G → K) (table : K → Option ℕ) (Gen : G) (ts : TableSpec F key table Gen)
    (target : G) (m : ℕ) (hm : m < 65536) (v : ℕ) :
    hit key table (target - stepPoint F Gen m, m) = some v ↔
      ∃ h < 65536, target = stepPoint F Gen (m + 65536 * h) ∧ v = m + 65536 * h := by
  unfold hit
  by_cases h0 : target - stepPoint F Gen m = 0
  · simp only [h0, if_true, Option.some.injEq]
    have ht : target = stepPoint F Gen m := sub_eq_zero.mp h0
    constructor
    · rintro rfl; exact ⟨0, by norm_num, by simpa using ht, by simp⟩
    · rintro ⟨h, hh, hth, rfl⟩
      rw [ht] at hth
      have := ts.gen_inj m (m + 65536 * h) (by omega) (by omega) hth
      omega
  · simp only [h0, if_false, Option.map_eq_some_iff]
    constructor
    · rintro ⟨h, hh, rfl⟩
      obtain ⟨hlt, hP⟩ := (ts.table_iff _ h).mp hh
      refine ⟨h, hlt, ?_, rfl⟩
      rw [stepPoint_add, ← hP]; abel
    · rintro ⟨h, hlt, hth, rfl⟩
      refine ⟨h, (ts.table_iff _ h).mpr ⟨hlt, ?_⟩, rfl⟩
      rw [hth, stepPoint_add]; abel

/-! ## exactness -/

/-- a search over items `(target − m•G, m)`, `m` ranging over a set `M ⊆ [0, 2¹⁶)` -/
theorem search_spec (key : G → K) (table : K → Option ℕ) (Gen : G) (ts : TableSpec F key table Gen)
    (target : G) (items : List (G × ℕ)) (r : Option ℕ)
    (hitems : ∀ it ∈ items, ∃ m < 65536, it = (target - stepPoint F Gen m, m))
    (hcases : (r = none ∧ ∀ it ∈ items, hit key table it = none) ∨
              (∃ it ∈ items, hit key table it ≠ none ∧ hit key table it = r)) (x : ℕ) :
    r = some x ↔ (x < 2 ^ 32 ∧ target = stepPoint F Gen x ∧
      ∃ m < 65536, (target - stepPoint F Gen m, m) ∈ items ∧ x % 65536 = m) := by
  constructor
  · intro hr
    rcases hcases with ⟨h1, _⟩ | ⟨it, hit', hne, heq⟩
    · rw [h1] at hr; cases hr
    · obtain ⟨m, hm, rfl⟩ := hitems it hit'
      rw [hr] at heq
      obtain ⟨h, hh, hth, rfl⟩ := (hit_item key table Gen ts target m hm x).mp heq
      exact ⟨by omega, hth, m, hm, hit', by omega⟩
  · rintro ⟨hx, hth, m, hm, hmem, hmod⟩
    have hhit : hit key table (target - stepPoint F Gen m, m) = some x :=
      (hit_item key table Gen ts target m hm x).mpr ⟨x / 65536, by omega, by rw [hth]; congr 1; omega, by omega⟩
    rcases hcases with ⟨_, h2⟩ | ⟨it, hit', hne, heq⟩
    · have := h2 _ hmem; rw [hhit] at this; cases this
    · obtain ⟨m', hm', rfl⟩ := hitems it hit'
      cases hv : hit key table (target - stepPoint F Gen m', m') with
      | none => exact absurd hv hne
      | some v =>
        obtain ⟨h', hh', hth', rfl⟩ := (hit_item key table Gen ts target m' hm' v).mp hv
        rw [hth] at hth'
        have := ts.gen_inj x (m' + 65536 * h') (by omega) (by omega) hth'
        rw [← heq, hv, this]

theorem neg_stepPoint_nsmul (Gen : G) (a j : ℕ) (P : G) :
    P + j • (-(stepPoint F Gen a)) = P - stepPoint F Gen (j * a) := by
  rw [smul_neg, stepPoint_nsmul]; abel

/-- **sequential search**: exact for every batch size ≥ 1 -/
theorem decode_spec_single (key : G → K) (table : K → Option ℕ) (Gen : G) (ts : TableSpec F key table Gen)
    (bsz : ℕ) (hb : 0 < bsz) (target : G) (x : ℕ) :
    decodeU32 key table (stepPoint F Gen) ⟨none, bsz⟩ target = some x ↔
      x < 2 ^ 32 ∧ target = stepPoint F Gen x := by
  unfold decodeU32
  simp only
  have hc := decodeRange_cases key table target (-(stepPoint F Gen 1)) 0 1 65536 bsz hb
  have hitems : ∀ it ∈ iterate target 0 (-(stepPoint F Gen 1)) 1 65536,
      ∃ m < 65536, it = (target - stepPoint F Gen m, m) := by
    rintro ⟨P, i⟩ hmem
    obtain ⟨j, hj, rfl, rfl⟩ := (mem_iterate _ _ _ _ _ _ _).mp hmem
    exact ⟨j, hj, by rw [neg_stepPoint_nsmul]; simp⟩
  rw [search_spec key table Gen ts target _ _ hitems hc x]
  constructor
  · rintro ⟨h1, h2, _⟩; exact ⟨h1, h2⟩
  · rintro ⟨h1, h2⟩
    refine ⟨h1, h2, x % 65536, Nat.mod_lt _ (by norm_num), ?_, rfl⟩
    apply (mem_iterate _ _ _ _ _ _ _).mpr
    exact ⟨x % 65536, Nat.mod_lt _ (by norm_num), by rw [neg_stepPoint_nsmul]; simp, by simp⟩

/-- **threaded search**: exact for every accepted thread count `nt = 2^k ≤ 65536` and batch size ≥ 1 -/
theorem decode_spec_threads (key : G → K) (table : K → Option ℕ) (Gen : G) (ts : TableSpec F key table Gen)
    (k : ℕ) (hk : k ≤ 16) (bsz : ℕ) (hb : 0 < bsz) (target : G) (x : ℕ) :
    decodeU32 key table (stepPoint F Gen) ⟨some (2 ^ k), bsz⟩ target = some x ↔
      x < 2 ^ 32 ∧ target = stepPoint F Gen x := by
  unfold decodeU32
  simp only
  set nt := 2 ^ k with hnt
  have hnt0 : 0 < nt := Nat.pow_pos (by norm_num)
  have hrb : nt * (65536 / nt) = 65536 := by
    have : (65536 : ℕ) = 2 ^ 16 := by norm_num
    rw [this, hnt, Nat.pow_div hk (by norm_num), ← pow_add]; congr 1; omega
  set rb := 65536 / nt with hrbdef
  -- per-thread characterisation
  have thread : ∀ i < nt, ∀ y : ℕ,
      decodeRange key table (target - stepPoint F Gen i) i (-(stepPoint F Gen nt)) nt rb bsz = some y ↔
        (y < 2 ^ 32 ∧ target = stepPoint F Gen y ∧ (y % 65536) % nt = i) := by
    intro i hi y
    have hc := decodeRange_cases key table (target - stepPoint F Gen i) (-(stepPoint F Gen nt)) i nt rb bsz hb
    have hidx : ∀ j < rb, i + j * nt < 65536 := by
      intro j hj
      calc i + j * nt < nt + j * nt := by omega
        _ = (j + 1) * nt := by ring
        _ ≤ rb * nt := Nat.mul_le_mul_right _ (by omega)
        _ = 65536 := by rw [mul_comm]; exact hrb
    have hpt : ∀ j : ℕ, target - stepPoint F Gen i + j • (-(stepPoint F Gen nt))
        = target - stepPoint F Gen (i + j * nt) := by
      intro j; rw [neg_stepPoint_nsmul, stepPoint_add]; abel
    have hitems : ∀ it ∈ iterate (target - stepPoint F Gen i) i (-(stepPoint F Gen nt)) nt rb,
        ∃ m < 65536, it = (target - stepPoint F Gen m, m) := by
      rintro ⟨P, idx⟩ hmem
      obtain ⟨j, hj, rfl, rfl⟩ := (mem_iterate _ _ _ _ _ _ _).mp hmem
      exact ⟨i + j * nt, hidx j hj, by rw [hpt]⟩
    rw [search_spec key table Gen ts target _ _ hitems hc y]
    constructor
    · rintro ⟨h1, h2, m, hm, hmem, hmod⟩
      refine ⟨h1, h2, ?_⟩
      obtain ⟨j, hj, hP, hidx'⟩ := (mem_iterate _ _ _ _ _ _ _).mp hmem
      rw [hmod, hidx', Nat.add_mul_mod_self_right, Nat.mod_eq_of_lt hi]
    · rintro ⟨h1, h2, hmod⟩
      refine ⟨h1, h2, y % 65536, Nat.mod_lt _ (by norm_num), ?_, rfl⟩
      apply (mem_iterate _ _ _ _ _ _ _).mpr
      have hdiv : (y % 65536) / nt < rb := by
        rw [Nat.div_lt_iff_lt_mul hnt0, mul_comm, hrb]; exact Nat.mod_lt _ (by norm_num)
      have hdecomp : y % 65536 = i + (y % 65536) / nt * nt := by
        have := Nat.mod_add_div (y % 65536) nt
        rw [hmod] at this; rw [mul_comm] at this; omega
      refine ⟨(y % 65536) / nt, hdiv, ?_, hdecomp⟩
      rw [hpt, ← hdecomp]
  -- joining the per-thread results
  set results := (List.range nt).map fun i =>
    decodeRange key table (target - stepPoint F Gen i) i (-(stepPoint F Gen nt)) nt rb bsz with hres
  have mem_res : ∀ r, r ∈ results ↔ ∃ i < nt,
      r = decodeRange key table (target - stepPoint F Gen i) i (-(stepPoint F Gen nt)) nt rb bsz := by
    intro r; simp only [hres, List.mem_map, List.mem_range]
    constructor
    · rintro ⟨i, hi, rfl⟩; exact ⟨i, hi, rfl⟩
    · rintro ⟨i, hi, rfl⟩; exact ⟨i, hi, rfl⟩
  constructor
  · intro h
    cases hf : results.find? Option.isSome with
    | none => rw [hf] at h; cases h
    | some r =>
      rw [hf] at h
      simp only [Option.join_some] at h
      have hr := List.mem_of_find?_eq_some hf
      obtain ⟨i, hi, rfl⟩ := (mem_res r).mp hr
      obtain ⟨h1, h2, _⟩ := (thread i hi x).mp h
      exact ⟨h1, h2⟩
  · rintro ⟨h1, h2⟩
    have hi : (x % 65536) % nt < nt := Nat.mod_lt _ hnt0
    have hx := (thread _ hi x).mpr ⟨h1, h2, rfl⟩
    cases hf : results.find? Option.isSome with
    | none =>
      have := List.find?_eq_none.mp hf _ ((mem_res _).mpr ⟨_, hi, rfl⟩)
      rw [hx] at this; simp at this
    | some r =>
      simp only [Option.join_some]
      have hr := List.mem_of_find?_eq_some hf
      have hs := List.find?_some hf
      obtain ⟨i, hi', rfl⟩ := (mem_res r).mp hr
      cases hv : decodeRange key table (target - stepPoint F Gen i) i (-(stepPoint F Gen nt)) nt rb bsz with
      | none => rw [hv] at hs; simp at hs
      | some y =>
        obtain ⟨g1, g2, _⟩ := (thread i hi' y).mp hv
        rw [h2] at g2
        rw [ts.gen_inj x y (by omega) (by omega) g2]

/-- the answer is the same under every accepted configuration -/
theorem decode_config_independent (key : G → K) (table : K → Option ℕ) (Gen : G) (ts : TableSpec F key table Gen)
    (k k' : ℕ) (hk : k ≤ 16) (hk' : k' ≤ 16) (b b' : ℕ) (hb : 0 < b) (hb' : 0 < b') (target : G) :
    decodeU32 key table (stepPoint F Gen) ⟨some (2 ^ k), b⟩ target =
      decodeU32 key table (stepPoint F Gen) ⟨some (2 ^ k'), b'⟩ target ∧
    decodeU32 key table (stepPoint F Gen) ⟨some (2 ^ k), b⟩ target =
      decodeU32 key table (stepPoint F Gen) ⟨none, b'⟩ target := by
  constructor <;>
  · apply Option.ext
    intro x
    rw [decode_spec_threads key table Gen ts k hk b hb target x]
    first
      | rw [decode_spec_threads key table Gen ts k' hk' b' hb' target x]
      | rw [decode_spec_single key table Gen ts b' hb' target x]

/-! ## configuration -/

theorem threads_refused_iff (c : Config) (n : ℕ) :
    setNumThreads c n = none ↔ ¬ (∃ k, k ≤ 16 ∧ n = 2 ^ k) := by
  unfold setNumThreads
  by_cases hp : DiscreteLog.isPow2 n = true
  · have hk : ∃ k, n = 2 ^ k := by
      unfold DiscreteLog.isPow2 at hp
      rw [Bool.and_eq_true, bne_iff_ne, beq_iff_eq] at hp
      exact (Nat.and_sub_one_eq_zero_iff_isPowerOfTwo hp.1).mp hp.2
    obtain ⟨k, rfl⟩ := hk
    by_cases hle : 2 ^ k > 65536
    · simp only [hp, Bool.not_true, Bool.false_or, decide_eq_true_eq, hle, if_true, true_iff]
      rintro ⟨k', hk', he⟩
      have := Nat.pow_right_injective (le_refl 2) he
      subst this
      have : 2 ^ k ≤ 2 ^ 16 := Nat.pow_le_pow_right (by norm_num) hk'
      omega
    · simp only [hp, Bool.not_true, Bool.false_or, decide_eq_true_eq, hle, if_false, reduceCtorEq, false_iff,
        not_not]
      refine ⟨k, ?_, rfl⟩
      by_contra hgt
      have : 2 ^ 17 ≤ 2 ^ k := Nat.pow_le_pow_right (by norm_num) (by omega)
      omega
  · simp only [hp, Bool.not_false, Bool.true_or, if_true, true_iff]
    rintro ⟨k, _, rfl⟩
    apply hp
    unfold DiscreteLog.isPow2
    rw [Bool.and_eq_true, bne_iff_ne, beq_iff_eq]
    have hk0 : 2 ^ k ≠ 0 := Nat.pos_iff_ne_zero.mp (Nat.pow_pos (by norm_num))
    exact ⟨hk0, (Nat.and_sub_one_eq_zero_iff_isPowerOfTwo hk0).mpr ⟨k, rfl⟩⟩

theorem batch_refused_iff (c : Config) (b : ℕ) : setBatchSize c b = none ↔ (b = 0 ∨ b ≥ 65536) := by
  unfold setBatchSize
  by_cases h : b = 0 ∨ b ≥ 65536 <;> simp [h]

end Zk.Props.C10

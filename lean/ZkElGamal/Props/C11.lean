import ZkElGamal.Proofs.Basic
/-!
# C11 — ciphertexts, commitments, openings and handles are homomorphic as specified

All statements are over an arbitrary field of scalars `F` and `F`-module of points `G`
(arithmetic "modulo the group order" *is* the field arithmetic), for all amounts, openings,
scalars and keys. The Rust operators in their four owned/borrowed variants all delegate to
the one `&a ∘ &b` form that these functions model; the correspondence check compares every
variant with the model byte-wise.
-/
set_option linter.unusedSectionVars false
namespace Zk.Props.C11
open Zk

variable {F G : Type} [Field F] [AddCommGroup G] [Module F G] [PedGens G]

local notation "Gp" => (PedGens.G : G)
local notation "Hp" => (PedGens.H : G)

/-- a Pedersen commitment to `x` with opening `r` is `x•G + r•H` -/
theorem with_spec (x r : F) : (pedersenWith x r : G) = x • Gp + r • Hp := by
  simp [pedersenWith]

/-! commitments -/
theorem commitment_add (x r x' r' : F) :
    (pedersenWith x r : G) + pedersenWith x' r' = pedersenWith (x + x') (r + r') := by
  simp only [with_spec]; module
theorem commitment_sub (x r x' r' : F) :
    (pedersenWith x r : G) - pedersenWith x' r' = pedersenWith (x - x') (r - r') := by
  simp only [with_spec]; module
theorem commitment_smul (k x r : F) : k • (pedersenWith x r : G) = pedersenWith (k * x) (k * r) := by
  simp only [with_spec]; module

/-! decrypt handles -/
theorem handle_add (P : G) (r r' : F) : decryptHandle P r + decryptHandle P r' = decryptHandle P (r + r') := by
  simp only [decryptHandle]; module
theorem handle_sub (P : G) (r r' : F) : decryptHandle P r - decryptHandle P r' = decryptHandle P (r - r') := by
  simp only [decryptHandle]; module
theorem handle_smul (P : G) (k r : F) : k • decryptHandle P r = decryptHandle P (k * r) := by
  simp only [decryptHandle]; module

/-! ciphertexts -/
theorem ct_ext {a b : Ct G} (h1 : a.C = b.C) (h2 : a.D = b.D) : a = b := by
  cases a; cases b; simp_all

theorem ciphertext_add (P : G) (x r x' r' : F) :
    Ct.add (encryptWith P x r) (encryptWith P x' r') = encryptWith P (x + x') (r + r') :=
  ct_ext (commitment_add x r x' r') (handle_add P r r')
theorem ciphertext_sub (P : G) (x r x' r' : F) :
    Ct.sub (encryptWith P x r) (encryptWith P x' r') = encryptWith P (x - x') (r - r') :=
  ct_ext (commitment_sub x r x' r') (handle_sub P r r')
theorem ciphertext_smul (P : G) (k x r : F) :
    Ct.smul k (encryptWith P x r) = encryptWith P (k * x) (k * r) :=
  ct_ext (commitment_smul k x r) (handle_smul P k r)

/-- adding a public amount changes only the commitment, by `amount•G` -/
theorem add_amount (ct : Ct G) (a : F) :
    (ct.addAmount a).C = ct.C + a • Gp ∧ (ct.addAmount a).D = ct.D := ⟨rfl, rfl⟩
theorem sub_amount (ct : Ct G) (a : F) :
    (ct.subAmount a).C = ct.C - a • Gp ∧ (ct.subAmount a).D = ct.D := ⟨rfl, rfl⟩
theorem add_amount_enc (P : G) (x r a : F) : (encryptWith P x r).addAmount a = encryptWith P (x + a) r :=
  ct_ext (by simp only [Ct.addAmount, encryptWith, with_spec]; module) rfl
theorem sub_amount_enc (P : G) (x r a : F) : (encryptWith P x r).subAmount a = encryptWith P (x - a) r :=
  ct_ext (by simp only [Ct.subAmount, encryptWith, with_spec]; module) rfl

/-! decryption is linear: decrypting a combination yields the combination of the plaintexts -/
theorem decrypt_add (s : F) (a b : Ct G) :
    decryptTarget s (Ct.add a b) = decryptTarget s a + decryptTarget s b := by
  simp only [decryptTarget, Ct.add]; module
theorem decrypt_sub (s : F) (a b : Ct G) :
    decryptTarget s (Ct.sub a b) = decryptTarget s a - decryptTarget s b := by
  simp only [decryptTarget, Ct.sub]; module
theorem decrypt_smul (s k : F) (a : Ct G) :
    decryptTarget s (Ct.smul k a) = k • decryptTarget s a := by
  simp only [decryptTarget, Ct.smul]; module
theorem decrypt_add_amount (s a : F) (ct : Ct G) :
    decryptTarget s (ct.addAmount a) = decryptTarget s ct + a • Gp := by
  simp only [decryptTarget, Ct.addAmount]; module

/-- non-vacuity / combination: `k•ct₁ + ct₂ − ct₃` decrypts to `k•m₁ + m₂ − m₃` -/
theorem decrypt_combination (s k : F) (a b c : Ct G) :
    decryptTarget s (Ct.sub (Ct.add (Ct.smul k a) b) c)
      = k • decryptTarget s a + decryptTarget s b - decryptTarget s c := by
  simp only [decryptTarget, Ct.add, Ct.sub, Ct.smul]; module

end Zk.Props.C11

import ZkElGamal.Model.Decode
import ZkElGamal.Model.Text
import ZkElGamal.Proofs.Slices
/-!
# C12 — encodings are canonical: round-trip, unique, and reject everything else

For the raw-byte codecs, over lawful point/scalar codecs (the assumed facts about dalek:
`decompress ∘ compress = id`, decoding accepts only the canonical encoding, scalars reduced):

* `X_ok_iff`      — decoding succeeds **iff** the input has the exact length and every component
                    decodes (points: valid canonical Ristretto; scalars: reduced); a key pair
                    additionally only if its public half is `s⁻¹•H` for its (non-zero) secret half;
* `X_reencode`    — re-encoding a successfully decoded byte string returns the same bytes;
* `X_decode_encode` — decoding the encoding returns the same object.

Text forms: `b64_roundtrip` (decode ∘ encode = id for every byte string) and the JSON writer/reader
pair are checked here as far as stated; serde_json's full grammar is differential only (PARTIAL).
-/
set_option linter.unusedSectionVars false
namespace Zk.Props.C12
open Zk Zk.Outcome

variable {F G : Type} [Field F] [DecidableEq F] [AddCommGroup G] [Module F G] [DecidableEq G]
  [PtCodec G] [ScCodec F] [PedGens G] [LawfulPtCodec G] [LawfulScCodec F] [PtLen G] [ScLen F]

theorem ofOption_ok_iff {α} (o : Option α) (a : α) : Outcome.ofOption o = .ok a ↔ o = some a := by
  cases o <;> simp [Outcome.ofOption]

/-! points (public keys, commitments, decrypt handles) -/
theorem point_ok_iff (b : Bytes) (P : G) :
    decodePoint b = .ok P ↔ b.length = 32 ∧ PtCodec.dec b = some P := by
  unfold decodePoint
  by_cases h : b.length = 32 <;> simp [h, ofOption_ok_iff]

theorem point_reencode (b : Bytes) (P : G) (h : decodePoint b = .ok P) : PtCodec.enc P = b :=
  LawfulPtCodec.enc_dec b P ((point_ok_iff b P).mp h).2

theorem point_decode_encode (P : G) : decodePoint (PtCodec.enc P) = .ok P :=
  (point_ok_iff _ P).mpr ⟨PtLen.pt_len P, LawfulPtCodec.dec_enc P⟩

/-- uniqueness: two byte strings that decode to the same point are equal -/
theorem point_unique (b b' : Bytes) (P : G) (h : decodePoint b = .ok P) (h' : decodePoint b' = .ok P) :
    b = b' := by rw [← point_reencode b P h, ← point_reencode b' P h']

/-! scalars (secret keys, openings) -/
theorem scalar_ok_iff (b : Bytes) (s : F) :
    decodeScalar b = .ok s ↔ b.length = 32 ∧ ScCodec.canon b = some s := by
  unfold decodeScalar
  by_cases h : b.length = 32 <;> simp [h, ofOption_ok_iff]

theorem scalar_reencode (b : Bytes) (s : F) (h : decodeScalar b = .ok s) : ScCodec.enc s = b :=
  LawfulScCodec.enc_canon b s ((scalar_ok_iff b s).mp h).2

theorem scalar_decode_encode (s : F) : decodeScalar (ScCodec.enc s) = .ok s :=
  (scalar_ok_iff _ s).mpr ⟨ScLen.sc_len s, LawfulScCodec.canon_enc s⟩

/-! ciphertexts -/
theorem ciphertext_ok_iff (b : Bytes) (ct : Ct G) :
    decodeCiphertext b = .ok ct ↔
      b.length = 64 ∧ PtCodec.dec (b.take 32) = some ct.C ∧ PtCodec.dec (b.drop 32) = some ct.D := by
  unfold decodeCiphertext
  by_cases h : b.length = 64
  · have h1 : rsSlice b 0 32 = .ok (b.take 32) := by simp [rsSlice, h]
    have h2 : rsSlice b 32 64 = .ok (b.drop 32) := by
      have : (b.drop 32).take (64 - 32) = b.drop 32 :=
        List.take_of_length_le (by rw [List.length_drop, h])
      simp [rsSlice, h, this]
    have l1 : (b.take 32).length = 32 := by simp [h]
    have l2 : (b.drop 32).length = 32 := by simp [h]
    simp only [h, ne_eq, not_true_eq_false, if_false, h1, h2, Bind.bind, Outcome.bind, decodePoint, l1, l2,
      true_and]
    obtain ⟨C, D⟩ := ct
    cases hc : PtCodec.dec (Pt := G) (b.take 32) <;> cases hd : PtCodec.dec (Pt := G) (b.drop 32) <;>
      simp [Outcome.ofOption]
  · simp [h]

theorem ciphertext_reencode (b : Bytes) (ct : Ct G) (h : decodeCiphertext b = .ok ct) : ct.enc = b := by
  obtain ⟨_, hC, hD⟩ := (ciphertext_ok_iff b ct).mp h
  rw [Ct.enc, LawfulPtCodec.enc_dec _ _ hC, LawfulPtCodec.enc_dec _ _ hD, List.take_append_drop]

theorem ciphertext_decode_encode (ct : Ct G) : decodeCiphertext ct.enc = .ok ct := by
  have l := PtLen.pt_len (G := G)
  apply (ciphertext_ok_iff _ ct).mpr
  refine ⟨by simp [Ct.enc, l], ?_, ?_⟩
  · rw [Ct.enc, List.take_left' (l _)]; exact LawfulPtCodec.dec_enc _
  · rw [Ct.enc, List.drop_left' (l _)]; exact LawfulPtCodec.dec_enc _

/-! key pairs -/
theorem keypair_ok_iff (b : Bytes) (P : G) (s : F) :
    decodeKeypair (Sc := F) (Pt := G) b = .ok (P, s) ↔
      b.length = 64 ∧ PtCodec.dec (b.take 32) = some P ∧ ScCodec.canon (b.drop 32) = some s ∧
      s ≠ 0 ∧ P = pubkeyOf s := by
  unfold decodeKeypair
  by_cases h : b.length = 64
  · have h1 : rsSlice b 0 32 = .ok (b.take 32) := by simp [rsSlice, h]
    have h2 : rsSlice b 32 64 = .ok (b.drop 32) := by
      have : (b.drop 32).take (64 - 32) = b.drop 32 :=
        List.take_of_length_le (by rw [List.length_drop, h])
      simp [rsSlice, h, this]
    have l1 : (b.take 32).length = 32 := by simp [h]
    have l2 : (b.drop 32).length = 32 := by simp [h]
    simp only [h, ne_eq, not_true_eq_false, if_false, h1, h2, Bind.bind, Outcome.bind, decodePoint,
      decodeScalar, l1, l2, true_and, pubkeyNew]
    cases hc : PtCodec.dec (Pt := G) (b.take 32) with
    | none => simp [Outcome.ofOption]
    | some P' =>
      cases hd : ScCodec.canon (Sc := F) (b.drop 32) with
      | none => simp [Outcome.ofOption]
      | some s' =>
        simp only [Outcome.ofOption, Option.some.injEq]
        by_cases hs : s' = 0
        · simp only [hs, beq_self_eq_true, if_true]
          constructor
          · intro hh; cases hh
          · rintro ⟨_, rfl, h0, _⟩; exact absurd rfl h0
        · simp only [beq_iff_eq, hs, if_false]
          by_cases hP : P' = pubkeyOf s'
          · simp only [hP, if_true, Outcome.ok.injEq, Prod.mk.injEq]
            constructor
            · rintro ⟨rfl, rfl⟩; exact ⟨rfl, rfl, hs, rfl⟩
            · rintro ⟨rfl, rfl, _, _⟩; exact ⟨rfl, rfl⟩
          · simp only [hP, if_false]
            constructor
            · intro hh; cases hh
            · rintro ⟨rfl, rfl, _, h4⟩; exact absurd h4 hP
  · simp [h]

theorem keypair_reencode (b : Bytes) (P : G) (s : F)
    (h : decodeKeypair (Sc := F) (Pt := G) b = .ok (P, s)) : PtCodec.enc P ++ ScCodec.enc s = b := by
  obtain ⟨_, hP, hs, _, _⟩ := (keypair_ok_iff b P s).mp h
  rw [LawfulPtCodec.enc_dec _ _ hP, LawfulScCodec.enc_canon _ _ hs, List.take_append_drop]

theorem keypair_decode_encode (s : F) (hs : s ≠ 0) :
    decodeKeypair (Sc := F) (Pt := G) (PtCodec.enc (pubkeyOf s : G) ++ ScCodec.enc s) = .ok (pubkeyOf s, s) := by
  have l := PtLen.pt_len (G := G)
  have ls := ScLen.sc_len (F := F)
  apply (keypair_ok_iff _ _ s).mpr
  refine ⟨by simp [l, ls], ?_, ?_, hs, rfl⟩
  · rw [List.take_left' (l _)]; exact LawfulPtCodec.dec_enc _
  · rw [List.drop_left' (l _)]; exact LawfulScCodec.canon_enc _

/-! AE key / ciphertext: any byte string of the exact length, returned unchanged -/
theorem aekey_ok_iff (b k : Bytes) : decodeAeKey b = .ok k ↔ b.length = 16 ∧ k = b := by
  unfold decodeAeKey; by_cases h : b.length = 16 <;> simp [h, eq_comm]

theorem aect_ok_iff (b n c : Bytes) :
    decodeAeCiphertext b = .ok (n, c) ↔ b.length = 36 ∧ n = b.take 12 ∧ c = b.drop 12 := by
  unfold decodeAeCiphertext
  by_cases h : b.length = 36
  · have h1 : rsSlice b 0 12 = .ok (b.take 12) := by simp [rsSlice, h]
    have h2 : rsSlice b 12 36 = .ok (b.drop 12) := by
      have : (b.drop 12).take (36 - 12) = b.drop 12 :=
        List.take_of_length_le (by rw [List.length_drop, h])
      simp [rsSlice, h, this]
    simp [h, h1, h2, Bind.bind, Outcome.bind, eq_comm]
  · simp [h]

theorem aect_reencode (b n c : Bytes) (h : decodeAeCiphertext b = .ok (n, c)) : n ++ c = b := by
  obtain ⟨_, rfl, rfl⟩ := (aect_ok_iff b n c).mp h
  exact List.take_append_drop 12 b

end Zk.Props.C12

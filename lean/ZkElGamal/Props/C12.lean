import ZkElGamal.Props.C04
import ZkElGamal.Model.Decode
import ZkElGamal.Model.Text
import ZkElGamal.Proofs.Slices
/-!
# C12 — encodings are canonical: round-trip, unique, and reject everything else

For the raw-byte codecs, over lawful point/scalar codecs (the assumed facts about dalek:
`decompress ∘ compress = id`, decoding accepts only the canonical encoding, scalars reduced):

* `X_ok_iff`      — decoding succeeds **iff** the input has the exact length and every component
                    decodes (points: valid canonical Ristretto; scalars: reduced); a key pair
                    additionally only if its public half is `s⁻¹•H` for its (non-zero) secret half;
* `X_reencode`    — re-encoding a successfully decoded byte string returns the same bytes;
* `X_decode_encode` — decoding the encoding returns the same object.

Text forms (standard base64, as used by every `Display` / `FromStr`): `b64_roundtrip`
(decode ∘ encode = id for every byte string), `b64_canonical` (a text the decoder accepts *is* the
encoding of what it decodes to: padding, alphabet and trailing bits are canonical, so the text form is
unique), `b64Encode_length`, `pod_text_roundtrip` (`FromStr ∘ Display = id` for every fixed-size type).
JSON key files: `json_roundtrip` (the reader applied to the writer's output returns the bytes, any
length); the grammar the reader accepts beyond that (whitespace, number syntax) is differential only.
-/
set_option linter.unusedSectionVars false
namespace Zk.Props.C12
open Zk Zk.Outcome

variable {F G : Type} [Field F] [DecidableEq F] [AddCommGroup G] [Module F G] [DecidableEq G]
  [PtCodec G] [ScCodec F] [PedGens G] [LawfulPtCodec G] [LawfulScCodec F] [PtLen G] [ScLen F]

theorem ofOption_ok_iff {α} (o : Option α) (a : α) : Outcome.ofOption o = .ok a ↔ o = some a := by
  cases o <;> simp [Outcome.ofOption]

/-! points (public keys, commitments, decrypt handles) -/
theorem point_ok_iff (b : Bytes) (P : G) :
    decodePoint b = .ok P ↔ b.length = 32 ∧ PtCodec.dec b = some P := by
  unfold decodePoint
  by_cases h : b.length = 32 <;> simp [h, ofOption_ok_iff]

theorem point_reencode (b : Bytes) (P : G) (h : decodePoint b = .ok P) : PtCodec.enc P = b :=
  LawfulPtCodec.enc_dec b P ((point_ok_iff b P).mp h).2

theorem point_decode_encode (P : G) : decodePoint (PtCodec.enc P) = .ok P :=
  (point_ok_iff _ P).mpr ⟨PtLen.pt_len P, LawfulPtCodec.dec_enc P⟩

/-- uniqueness: two byte strings that decode to the same point are equal -/
theorem point_unique (b b' : Bytes) (P : G) (h : decodePoint b = .ok P) (h' : decodePoint b' = .ok P) :
    b = b' := by rw [← point_reencode b P h, ← point_reencode b' P h']

/-! scalars (secret keys, openings) -/
theorem scalar_ok_iff (b : Bytes) (s : F) :
    decodeScalar b = .ok s ↔ b.length = 32 ∧ ScCodec.canon b = some s := by
  unfold decodeScalar
  by_cases h : b.length = 32 <;> simp [h, ofOption_ok_iff]

theorem scalar_reencode (b : Bytes) (s : F) (h : decodeScalar b = .ok s) : ScCodec.enc s = b :=
  LawfulScCodec.enc_canon b s ((scalar_ok_iff b s).mp h).2

theorem scalar_decode_encode (s : F) : decodeScalar (ScCodec.enc s) = .ok s :=
  (scalar_ok_iff _ s).mpr ⟨ScLen.sc_len s, LawfulScCodec.canon_enc s⟩

/-! ciphertexts -/
theorem ciphertext_ok_iff (b : Bytes) (ct : Ct G) :
    decodeCiphertext b = .ok ct ↔
      b.length = 64 ∧ PtCodec.dec (b.take 32) = some ct.C ∧ PtCodec.dec (b.drop 32) = some ct.D := by
  unfold decodeCiphertext
  by_cases h : b.length = 64
  · have h1 : rsSlice b 0 32 = .ok (b.take 32) := by simp [rsSlice, h]
    have h2 : rsSlice b 32 64 = .ok (b.drop 32) := by
      have : (b.drop 32).take (64 - 32) = b.drop 32 :=
        List.take_of_length_le (by rw [List.length_drop, h])
      simp [rsSlice, h, this]
    have l1 : (b.take 32).length = 32 := by simp [h]
    have l2 : (b.drop 32).length = 32 := by simp [h]
    simp only [h, ne_eq, not_true_eq_false, if_false, h1, h2, Bind.bind, Outcome.bind, decodePoint, l1, l2,
      true_and]
    obtain ⟨C, D⟩ := ct
    cases hc : PtCodec.dec (Pt := G) (b.take 32) <;> cases hd : PtCodec.dec (Pt := G) (b.drop 32) <;>
      simp [Outcome.ofOption]
  · simp [h]

theorem ciphertext_reencode (b : Bytes) (ct : Ct G) (h : decodeCiphertext b = .ok ct) : ct.enc = b := by
  obtain ⟨_, hC, hD⟩ := (ciphertext_ok_iff b ct).mp h
  rw [Ct.enc, LawfulPtCodec.enc_dec _ _ hC, LawfulPtCodec.enc_dec _ _ hD, List.take_append_drop]

theorem ciphertext_decode_encode (ct : Ct G) : decodeCiphertext ct.enc = .ok ct := by
  have l := PtLen.pt_len (G := G)
  apply (ciphertext_ok_iff _ ct).mpr
  refine ⟨by simp [Ct.enc, l], ?_, ?_⟩
  · rw [Ct.enc, List.take_left' (l _)]; exact LawfulPtCodec.dec_enc _
  · rw [Ct.enc, List.drop_left' (l _)]; exact LawfulPtCodec.dec_enc _

/-! key pairs -/
theorem keypair_ok_iff (b : Bytes) (P : G) (s : F) :
    decodeKeypair (Sc := F) (Pt := G) b = .ok (P, s) ↔
      b.length = 64 ∧ PtCodec.dec (b.take 32) = some P ∧ ScCodec.canon (b.drop 32) = some s ∧
      s ≠ 0 ∧ P = pubkeyOf s := by
  unfold decodeKeypair
  by_cases h : b.length = 64
  · have h1 : rsSlice b 0 32 = .ok (b.take 32) := by simp [rsSlice, h]
    have h2 : rsSlice b 32 64 = .ok (b.drop 32) := by
      have : (b.drop 32).take (64 - 32) = b.drop 32 :=
        List.take_of_length_le (by rw [List.length_drop, h])
      simp [rsSlice, h, this]
    have l1 : (b.take 32).length = 32 := by simp [h]
    have l2 : (b.drop 32).length = 32 := by simp [h]
    simp only [h, ne_eq, not_true_eq_false, if_false, h1, h2, Bind.bind, Outcome.bind, decodePoint,
      decodeScalar, l1, l2, true_and, pubkeyNew]
    cases hc : PtCodec.dec (Pt := G) (b.take 32) with
    | none => simp [Outcome.ofOption]
    | some P' =>
      cases hd : ScCodec.canon (Sc := F) (b.drop 32) with
      | none => simp [Outcome.ofOption]
      | some s' =>
        simp only [Outcome.ofOption, Option.some.injEq]
        by_cases hs : s' = 0
        · simp only [hs, beq_self_eq_true, if_true]
          constructor
          · intro hh; cases hh
          · rintro ⟨_, rfl, h0, _⟩; exact absurd rfl h0
        · simp only [beq_iff_eq, hs, if_false]
          by_cases hP : P' = pubkeyOf s'
          · simp only [hP, if_true, Outcome.ok.injEq, Prod.mk.injEq]
            constructor
            · rintro ⟨rfl, rfl⟩; exact ⟨rfl, rfl, hs, rfl⟩
            · rintro ⟨rfl, rfl, _, _⟩; exact ⟨rfl, rfl⟩
          · simp only [hP, if_false]
            constructor
            · intro hh; cases hh
            · rintro ⟨rfl, rfl, _, h4⟩; exact absurd h4 hP
  · simp [h]

theorem keypair_reencode (b : Bytes) (P : G) (s : F)
    (h : decodeKeypair (Sc := F) (Pt := G) b = .ok (P, s)) : PtCodec.enc P ++ ScCodec.enc s = b := by
  obtain ⟨_, hP, hs, _, _⟩ := (keypair_ok_iff b P s).mp h
  rw [LawfulPtCodec.enc_dec _ _ hP, LawfulScCodec.enc_canon _ _ hs, List.take_append_drop]

theorem keypair_decode_encode (s : F) (hs : s ≠ 0) :
    decodeKeypair (Sc := F) (Pt := G) (PtCodec.enc (pubkeyOf s : G) ++ ScCodec.enc s) = .ok (pubkeyOf s, s) := by
  have l := PtLen.pt_len (G := G)
  have ls := ScLen.sc_len (F := F)
  apply (keypair_ok_iff _ _ s).mpr
  refine ⟨by simp [l, ls], ?_, ?_, hs, rfl⟩
  · rw [List.take_left' (l _)]; exact LawfulPtCodec.dec_enc _
  · rw [List.drop_left' (l _)]; exact LawfulScCodec.canon_enc _

/-! AE key / ciphertext: any byte string of the exact length, returned unchanged -/
theorem aekey_ok_iff (b k : Bytes) : decodeAeKey b = .ok k ↔ b.length = 16 ∧ k = b := by
  unfold decodeAeKey; by_cases h : b.length = 16 <;> simp [h, eq_comm]

theorem aect_ok_iff (b n c : Bytes) :
    decodeAeCiphertext b = .ok (n, c) ↔ b.length = 36 ∧ n = b.take 12 ∧ c = b.drop 12 := by
  unfold decodeAeCiphertext
  by_cases h : b.length = 36
  · have h1 : rsSlice b 0 12 = .ok (b.take 12) := by simp [rsSlice, h]
    have h2 : rsSlice b 12 36 = .ok (b.drop 12) := by
      have : (b.drop 12).take (36 - 12) = b.drop 12 :=
        List.take_of_length_le (by rw [List.length_drop, h])
      simp [rsSlice, h, this]
    simp [h, h1, h2, Bind.bind, Outcome.bind, eq_comm]
  · simp [h]

theorem aect_reencode (b n c : Bytes) (h : decodeAeCiphertext b = .ok (n, c)) : n ++ c = b := by
  obtain ⟨_, rfl, rfl⟩ := (aect_ok_iff b n c).mp h
  exact List.take_append_drop 12 b

end Zk.Props.C12

/-! ## text form: standard base64 -/
namespace Zk.Props.C12
open Zk Zk.Text

theorem b64Val_char : ∀ v : Fin 64, b64Val (b64Char v.1) = some v.1 := by decide +kernel
theorem b64Char_ne_pad : ∀ v : Fin 64, b64Char v.1 ≠ 61 := by decide +kernel

theorem b64Val_char' (v : Nat) (h : v < 64) : b64Val (b64Char v) = some v := b64Val_char ⟨v, h⟩
theorem b64Char_ne_pad' (v : Nat) (h : v < 64) : b64Char v ≠ 61 := b64Char_ne_pad ⟨v, h⟩

/-- `decode (encode b) = b` for every byte string -/
theorem b64_roundtrip (b : Bytes) : b64Decode (b64Encode b) = some b := by
  fun_induction b64Encode b with
  | case1 => rfl
  | case2 a n =>
    have ha : a.toNat < 256 := a.toNat_lt
    have h1 : n / 64 < 64 := by omega
    have h2 : n % 64 < 64 := by omega
    simp only [b64Decode, b64Val_char' _ h1, b64Val_char' _ h2, Option.bind_eq_bind, Option.bind_some]
    have : n % 64 % 16 = 0 := by omega
    simp only [this, ne_eq, not_true_eq_false, if_false]
    have : n / 64 * 4 + n % 64 / 16 = a.toNat := by omega
    rw [this]; simp
  | case3 a b n =>
    have ha : a.toNat < 256 := a.toNat_lt
    have hb : b.toNat < 256 := b.toNat_lt
    have h1 : n / 4096 < 64 := by omega
    have h2 : n / 64 % 64 < 64 := by omega
    have h3 : n % 64 < 64 := by omega
    have hp := b64Char_ne_pad' _ h3
    unfold b64Decode
    split
    · rename_i heq; simp at heq
    · rename_i a' b' heq
      simp only [List.cons.injEq, and_true] at heq
      obtain ⟨_, _, h61⟩ := heq
      exact absurd h61 hp
    · rename_i a' b' c' heq
      simp only [List.cons.injEq, and_true] at heq
      obtain ⟨rfl, rfl, rfl⟩ := heq
      simp only [b64Val_char' _ h1, b64Val_char' _ h2, b64Val_char' _ h3, Option.bind_eq_bind, Option.bind_some]
      have : n % 64 % 4 = 0 := by omega
      simp only [this, ne_eq, not_true_eq_false, if_false]
      have e1 : (n / 4096 * 4096 + n / 64 % 64 * 64 + n % 64) / 1024 = a.toNat := by omega
      have e2 : (n / 4096 * 4096 + n / 64 % 64 * 64 + n % 64) / 4 % 256 = b.toNat := by omega
      rw [e1, e2]; simp
    · rename_i a' b' c' d' rest' _ hx heq
      simp only [List.cons.injEq] at heq
      exact (hx heq.2.2.2.1.symm heq.2.2.2.2.symm).elim
    · rename_i h1' h2' h3' h4'
      exact absurd rfl (h3' _ _ _)
  | case4 a b c rest n ih =>
    have ha : a.toNat < 256 := a.toNat_lt
    have hb : b.toNat < 256 := b.toNat_lt
    have hc : c.toNat < 256 := c.toNat_lt
    have h1 : n / 262144 < 64 := by omega
    have h2 : n / 4096 % 64 < 64 := by omega
    have h3 : n / 64 % 64 < 64 := by omega
    have h4 : n % 64 < 64 := by omega
    have hp3 := b64Char_ne_pad' _ h3
    have hp4 := b64Char_ne_pad' _ h4
    unfold b64Decode
    split
    · rename_i heq; simp at heq
    · rename_i a' b' heq
      simp only [List.cons.injEq] at heq
      exact absurd heq.2.2.1 hp3
    · rename_i a' b' c' heq
      simp only [List.cons.injEq] at heq
      exact absurd heq.2.2.2.1 hp4
    · rename_i a' b' c' d' rest' _ _ heq
      simp only [List.cons.injEq] at heq
      obtain ⟨rfl, rfl, rfl, rfl, rfl⟩ := heq
      simp only [b64Val_char' _ h1, b64Val_char' _ h2, b64Val_char' _ h3, b64Val_char' _ h4, ih,
        Option.bind_eq_bind, Option.bind_some]
      have e1 : (n / 262144 * 262144 + n / 4096 % 64 * 4096 + n / 64 % 64 * 64 + n % 64) / 65536 = a.toNat := by omega
      have e2 : (n / 262144 * 262144 + n / 4096 % 64 * 4096 + n / 64 % 64 * 64 + n % 64) / 256 % 256 = b.toNat := by omega
      have e3 : (n / 262144 * 262144 + n / 4096 % 64 * 4096 + n / 64 % 64 * 64 + n % 64) % 256 = c.toNat := by omega
      rw [e1, e2, e3]; simp
    · rename_i h1' h2' h3' h4'
      exact absurd rfl (h4' _ _ _ _ _)

theorem b64Encode_length (b : Bytes) : (b64Encode b).length = 4 * ((b.length + 2) / 3) := by
  fun_induction b64Encode b with
  | case1 => rfl
  | case2 a n => simp
  | case3 a b n => simp
  | case4 a b c rest n ih => simp only [List.length_cons, ih]; omega

/-- the text form of a fixed-size pod type parses back to the same bytes -/
theorem pod_text_roundtrip (n mx : Nat) (b : Bytes) (hn : b.length = n) (hmx : 4 * ((n + 2) / 3) ≤ mx) :
    podFromStr n mx (b64Encode b) = some b := by
  unfold podFromStr
  have : ¬ (b64Encode b).length > mx := by rw [b64Encode_length, hn]; omega
  simp [this, b64_roundtrip, hn]

def invOk (i : Nat) : Bool :=
  match b64Val (UInt8.ofNat i) with
  | some v => decide (v < 64) && b64Char v == UInt8.ofNat i
  | none => true

theorem b64Val_inv : ∀ i : Fin 256, invOk i.1 = true := by decide +kernel

theorem b64Val_inv' (c : UInt8) (v : Nat) (h : b64Val c = some v) : v < 64 ∧ b64Char v = c := by
  have := b64Val_inv ⟨c.toNat, c.toNat_lt⟩
  simp only [invOk, UInt8.ofNat_toNat, h, Bool.and_eq_true, decide_eq_true_eq, beq_iff_eq] at this
  exact this

/-- canonical: a text accepted by the decoder is *the* encoding of what it decodes to -/
theorem b64_canonical (s b : Bytes) (h : b64Decode s = some b) : b64Encode b = s := by
  fun_induction b64Decode s generalizing b with
  | case1 => simp at h; subst h; rfl
  | case2 a b' =>
    simp only [Option.bind_eq_bind, Option.bind_eq_some_iff] at h
    obtain ⟨x, hx, y, hy, h⟩ := h
    split at h
    · cases h
    · rename_i hy16
      simp only [Option.some.injEq] at h
      subst h
      obtain ⟨hx64, hxc⟩ := b64Val_inv' _ _ hx
      obtain ⟨hy64, hyc⟩ := b64Val_inv' _ _ hy
      have hy16' : y % 16 = 0 := by omega
      have hlt : x * 4 + y / 16 < 256 := by omega
      simp only [b64Encode, UInt8.toNat_ofNat', Nat.mod_eq_of_lt hlt]
      have e1 : (x * 4 + y / 16) * 16 / 64 = x := by omega
      have e2 : (x * 4 + y / 16) * 16 % 64 = y := by omega
      rw [e1, e2, hxc, hyc]
  | case3 a b' c hc =>
    simp only [Option.bind_eq_bind, Option.bind_eq_some_iff] at h
    obtain ⟨x, hx, y, hy, z, hz, h⟩ := h
    split at h
    · cases h
    · rename_i hz4
      simp only [Option.some.injEq] at h
      subst h
      obtain ⟨hx64, hxc⟩ := b64Val_inv' _ _ hx
      obtain ⟨hy64, hyc⟩ := b64Val_inv' _ _ hy
      obtain ⟨hz64, hzc⟩ := b64Val_inv' _ _ hz
      have hz4' : z % 4 = 0 := by omega
      have l1 : (x * 4096 + y * 64 + z) / 1024 < 256 := by omega
      have l2 : (x * 4096 + y * 64 + z) / 4 % 256 < 256 := by omega
      simp only [b64Encode, UInt8.toNat_ofNat', Nat.mod_eq_of_lt l1, Nat.mod_eq_of_lt l2]
      have e1 : ((x * 4096 + y * 64 + z) / 1024 * 256 + (x * 4096 + y * 64 + z) / 4 % 256) * 4 / 4096 = x := by omega
      have e2 : ((x * 4096 + y * 64 + z) / 1024 * 256 + (x * 4096 + y * 64 + z) / 4 % 256) * 4 / 64 % 64 = y := by omega
      have e3 : ((x * 4096 + y * 64 + z) / 1024 * 256 + (x * 4096 + y * 64 + z) / 4 % 256) * 4 % 64 = z := by omega
      rw [e1, e2, e3, hxc, hyc, hzc]
  | case4 a b' c d rest h1 h2 ih =>
    simp only [Option.bind_eq_bind, Option.bind_eq_some_iff] at h
    obtain ⟨x, hx, y, hy, z, hz, w, hw, r, hr, h⟩ := h
    simp only [Option.some.injEq] at h
    subst h
    obtain ⟨hx64, hxc⟩ := b64Val_inv' _ _ hx
    obtain ⟨hy64, hyc⟩ := b64Val_inv' _ _ hy
    obtain ⟨hz64, hzc⟩ := b64Val_inv' _ _ hz
    obtain ⟨hw64, hwc⟩ := b64Val_inv' _ _ hw
    have l1 : (x * 262144 + y * 4096 + z * 64 + w) / 65536 < 256 := by omega
    have l2 : (x * 262144 + y * 4096 + z * 64 + w) / 256 % 256 < 256 := by omega
    have l3 : (x * 262144 + y * 4096 + z * 64 + w) % 256 < 256 := by omega
    simp only [b64Encode, UInt8.toNat_ofNat', Nat.mod_eq_of_lt l1, Nat.mod_eq_of_lt l2, Nat.mod_eq_of_lt l3, ih r hr]
    have e1 : ((x * 262144 + y * 4096 + z * 64 + w) / 65536 * 65536 + (x * 262144 + y * 4096 + z * 64 + w) / 256 % 256 * 256
        + (x * 262144 + y * 4096 + z * 64 + w) % 256) = x * 262144 + y * 4096 + z * 64 + w := by omega
    rw [e1]
    have f1 : (x * 262144 + y * 4096 + z * 64 + w) / 262144 = x := by omega
    have f2 : (x * 262144 + y * 4096 + z * 64 + w) / 4096 % 64 = y := by omega
    have f3 : (x * 262144 + y * 4096 + z * 64 + w) / 64 % 64 = z := by omega
    have f4 : (x * 262144 + y * 4096 + z * 64 + w) % 64 = w := by omega
    rw [f1, f2, f3, f4, hxc, hyc, hzc, hwc]
  | case5 s h1 h2 h3 h4 => simp at h

/-! ## JSON byte arrays (key files) -/

def digitsOk (i : Nat) : Bool :=
  let ds := natDigits i
  ds.all isDigit && !ds.isEmpty && !(decide (ds.length > 1) && ds.head? == some 48) && decide (ds.length ≤ 3)
    && (ds.foldl (fun acc d => acc * 10 + (d.toNat - 48)) 0 == i)

theorem digitsOk_all : ∀ i : Fin 256, digitsOk i.1 = true := by decide +kernel

theorem takeWhile_digits (ds : Bytes) (c : UInt8) (r : Bytes) (h : ds.all isDigit = true) (hc : isDigit c = false) :
    (ds ++ c :: r).takeWhile isDigit = ds ∧ (ds ++ c :: r).dropWhile isDigit = c :: r := by
  induction ds with
  | nil => simp [List.takeWhile, List.dropWhile, hc]
  | cons d ds ih =>
    simp only [List.all_cons, Bool.and_eq_true] at h
    simp [List.takeWhile, List.dropWhile, h.1, ih h.2]

/-- reading back the digits of a byte, followed by `,` or `]` -/
theorem takeU8_digits (x : UInt8) (c : UInt8) (r : Bytes) (hc : c = 44 ∨ c = 93) :
    takeU8 (natDigits x.toNat ++ c :: r) = some (x, c :: r) := by
  have hok := digitsOk_all ⟨x.toNat, x.toNat_lt⟩
  simp only [digitsOk, Bool.and_eq_true, Bool.not_eq_true', decide_eq_true_eq, beq_iff_eq,
    Bool.and_eq_false_iff, decide_eq_false_iff_not] at hok
  obtain ⟨⟨⟨⟨h1, h2⟩, h3⟩, h4⟩, h5⟩ := hok
  have hcd : isDigit c = false := by rcases hc with rfl | rfl <;> decide
  obtain ⟨e1, e2⟩ := takeWhile_digits _ c r h1 hcd
  unfold takeU8
  simp only [e1, e2]
  have n1 : (natDigits x.toNat).isEmpty = false := h2
  have n2 : ¬ ((natDigits x.toNat).length > 1 ∧ (natDigits x.toNat).head? = some 48) := by
    rcases h3 with h | h
    · exact fun hh => h hh.1
    · intro hh; simp [hh.2] at h
  have n3 : ¬ (natDigits x.toNat).length > 3 := by omega
  have n4 : ¬ (x.toNat > 255) := by have := x.toNat_lt; omega
  have nc : (c = 46 || c = 101 || c = 69) = false := by rcases hc with rfl | rfl <;> decide
  simp only [n1, Bool.false_eq_true, if_false, n2, n3, h5, n4, nc, UInt8.ofNat_toNat]

theorem skipWs_cons (c : UInt8) (r : Bytes) (h : isWs c = false) : skipWs (c :: r) = c :: r := by
  simp [skipWs, h]

def headOk (i : Nat) : Bool := match natDigits i with | c :: _ => !isWs c && c != 93 | [] => false
theorem headOk_all : ∀ i : Fin 256, headOk i.1 = true := by decide +kernel

theorem skipWs_digits (x : UInt8) (rest : Bytes) : skipWs (natDigits x.toNat ++ rest) = natDigits x.toNat ++ rest := by
  have h := headOk_all ⟨x.toNat, x.toNat_lt⟩
  unfold headOk at h
  split at h
  · rename_i c r heq
    simp only at heq
    rw [heq, List.cons_append, skipWs_cons _ _ (by simp at h; exact h.1)]
  · cases h

/-- body of a non-empty array: digits separated by commas -/
def body : UInt8 → Bytes → Bytes
  | x, [] => natDigits x.toNat
  | x, y :: ys => natDigits x.toNat ++ 44 :: body y ys

theorem natDigits_ne_nil (n : Nat) : 1 ≤ (natDigits n).length := by
  unfold natDigits
  split
  · simp
  · split <;> simp

theorem body_length (x : UInt8) (xs : Bytes) : xs.length + 1 ≤ (body x xs).length := by
  induction xs generalizing x with
  | nil => simpa [body] using natDigits_ne_nil x.toNat
  | cons y ys ih =>
    have := ih y
    have := natDigits_ne_nil x.toNat
    simp only [body, List.length_append, List.length_cons]; omega

theorem jsonElems_body (x : UInt8) (xs : Bytes) : ∀ (fuel : Nat) (acc rest : Bytes), xs.length < fuel →
    jsonElems fuel (body x xs ++ 93 :: rest) acc = some (acc ++ x :: xs, rest) := by
  induction xs generalizing x with
  | nil =>
    intro fuel acc rest hf
    obtain ⟨f, rfl⟩ : ∃ f, fuel = f + 1 := ⟨fuel - 1, by omega⟩
    simp only [body, jsonElems, skipWs_digits, takeU8_digits x 93 rest (Or.inr rfl),
      skipWs_cons 93 rest (by decide)]
  | cons y ys ih =>
    intro fuel acc rest hf
    obtain ⟨f, rfl⟩ : ∃ f, fuel = f + 1 := ⟨fuel - 1, by omega⟩
    simp only [body, jsonElems, List.append_assoc, List.cons_append, skipWs_digits,
      takeU8_digits x 44 _ (Or.inl rfl), skipWs_cons 44 _ (by decide)]
    rw [ih y f (acc ++ [x]) rest (by simp at hf; omega)]
    simp

theorem jsonOfBytes_eq (x : UInt8) (xs : Bytes) : jsonOfBytes (x :: xs) = 91 :: (body x xs ++ [93]) := by
  unfold jsonOfBytes
  simp only [List.map_cons, List.cons_append, List.nil_append, List.cons.injEq, true_and]
  congr 1
  induction xs generalizing x with
  | nil => simp [body]
  | cons y ys ih =>
    simp only [List.map_cons, List.intersperse_cons₂, List.flatten_cons, body, List.cons_append, List.nil_append]
    rw [ih y]

/-- reading back what the writer wrote: `read_json ∘ write_json = id` on byte arrays -/
theorem json_roundtrip (b : Bytes) : jsonBytes (jsonOfBytes b) = some b := by
  cases b with
  | nil => decide
  | cons x xs =>
    rw [jsonOfBytes_eq]
    unfold jsonBytes
    rw [skipWs_cons 91 _ (by decide)]
    simp only
    have hne : skipWs (body x xs ++ [93]) = body x xs ++ [93] := by
      cases xs with
      | nil => exact skipWs_digits x [93]
      | cons y ys => simp only [body, List.append_assoc]; exact skipWs_digits x _
    have hhead : ∃ c r, body x xs ++ [93] = c :: r ∧ c ≠ 93 := by
      have h := headOk_all ⟨x.toNat, x.toNat_lt⟩
      unfold headOk at h
      split at h
      · rename_i c r heq
        simp only at heq
        simp only [Bool.and_eq_true, bne_iff_ne, ne_eq] at h
        cases xs with
        | nil => exact ⟨c, r ++ [93], by simp [body, heq], h.2⟩
        | cons y ys => exact ⟨c, r ++ 44 :: (body y ys ++ [93]), by simp [body, heq], h.2⟩
      · cases h
    obtain ⟨c, r, hcr, hc93⟩ := hhead
    rw [hne]
    have hel := jsonElems_body x xs ((91 :: (body x xs ++ [93])).length + 1) [] [] (by have := body_length x xs; simp; omega)
    simp only [List.nil_append] at hel
    rw [hcr] at hel ⊢
    split
    · rename_i r' heq
      simp only [List.cons.injEq] at heq
      exact absurd heq.1 hc93
    · rw [hel]; simp [skipWs]

end Zk.Props.C12

/-! ## the context of the batched range proofs as an encoding -/
namespace Zk.Props.C12.RangeContext
open Zk Zk.Range

variable {G : Type} [AddCommGroup G] [DecidableEq G] [PtCodec G] [PedGens G] [LawfulPtCodec G] [PtLen G]

theorem flatten_slices (b : Bytes) (n : ℕ) (h : 32 * n ≤ b.length) :
    ((List.range n).map fun i => slice b (32 * i) 32).flatten = b.take (32 * n) := by
  induction n with
  | zero => simp
  | succ n ih =>
    rw [List.range_succ, List.map_append, List.flatten_append, ih (by omega)]
    simp only [List.map_cons, List.map_nil, List.flatten_cons, List.flatten_nil, List.append_nil, slice]
    rw [show 32 * (n + 1) = 32 * n + 32 by ring, List.take_add]

omit [DecidableEq G] [PtLen G] [PedGens G] in
theorem mapM_dec_enc (l : List Bytes) (cs : List G) (h : l.mapM PtCodec.dec = some cs) :
    cs.map PtCodec.enc = l := by
  induction l generalizing cs with
  | nil => simp at h; subst h; rfl
  | cons x xs ih =>
    simp only [List.mapM_cons, Option.bind_eq_bind, Option.bind_eq_some_iff, Option.pure_def, Option.some.injEq] at h
    obtain ⟨y, hy, ys, hys, rfl⟩ := h
    simp [ih ys hys, LawfulPtCodec.enc_dec x y hy]


theorem all_zero_replicate {α : Type} [BEq α] [LawfulBEq α] (l : List α) (z : α) (h : ∀ x ∈ l, x = z) :
    l = List.replicate l.length z := by
  exact List.eq_replicate_iff.mpr ⟨rfl, h⟩

theorem flatten_replicate_zero32 (n : ℕ) : (List.replicate n zero32).flatten = List.replicate (32 * n) (0 : UInt8) := by
  induction n with
  | zero => rfl
  | succ n ih =>
    rw [List.replicate_succ, List.flatten_cons, ih, zero32, ← List.replicate_add]; congr 1; ring

/-- **the range-proof context is a canonical encoding**: a 264-byte string that decodes to `(commitments, bit
    lengths)` is exactly the encoding of what it decoded to -/
theorem context_reencode (ctx : Bytes) (comms : List G) (bls : List ℕ) (hl : ctx.length = 264)
    (h : parseContext ctx = some (comms, bls)) : encodeContext comms bls = ctx := by
  obtain ⟨hm, hb, hne, hrange, hz1, hz2⟩ := (C04.context_ok_iff ctx comms bls).mp h
  obtain ⟨h8, _⟩ := C04.context_at_most_eight ctx comms bls h
  set k := comms.length with hk
  -- the used slots are the first k slots
  have hused : ((C04.slots ctx).takeWhile fun p => !(p == zero32)) = (C04.slots ctx).take k := by
    have hp := List.takeWhile_prefix (fun p => !(p == zero32)) (l := C04.slots ctx)
    have := List.prefix_iff_eq_take.mp hp
    rw [this]; congr 1
    rw [← C04.mapM_some_length _ _ _ hm]
  have henc : comms.map PtCodec.enc = (C04.slots ctx).take k := by rw [← hused]; exact mapM_dec_enc _ _ hm
  have hslen : (C04.slots ctx).length = 8 := by simp [C04.slots]
  -- commitments part
  have hcs : (comms.map PtCodec.enc).flatten.length = 32 * k := by
    have : ∀ l : List G, (l.map PtCodec.enc).flatten.length = 32 * l.length := by
      intro l; induction l with
      | nil => simp
      | cons x xs ih => simp [PtLen.pt_len, ih]; ring
    exact this comms
  have hdrop : (C04.slots ctx).drop k = List.replicate (8 - k) zero32 := by
    have := all_zero_replicate ((C04.slots ctx).drop k) zero32 hz1
    rw [this]; simp [hslen]
  have h256 : (comms.map PtCodec.enc).flatten ++ List.replicate (256 - (comms.map PtCodec.enc).flatten.length) 0 = ctx.take 256 := by
    have hf := flatten_slices ctx 8 (by omega)
    rw [show 32 * 8 = 256 by rfl] at hf
    rw [← hf, show ((List.range 8).map fun i => slice ctx (32 * i) 32) = C04.slots ctx from rfl]
    conv_rhs => rw [← List.take_append_drop k (C04.slots ctx), List.flatten_append, ← henc, hdrop, flatten_replicate_zero32]
    rw [hcs]; congr 2; omega
  -- bit lengths part
  set L := slice ctx 256 8 with hL
  have hLlen : L.length = 8 := by simp [hL, slice, hl]
  have hLeq : L = ctx.drop 256 := by
    simp only [hL, slice]; apply List.take_of_length_le; simp [hl]
  have hbl : bls.map UInt8.ofNat = L.take k := by
    rw [hb]; simp only [C04.bitLengthBytes, ← hL, ← List.map_take, List.map_map]
    conv_rhs => rw [← List.map_id (L.take k)]
    apply List.map_congr_left; intro x _; simp
  have hLdrop : L.drop k = List.replicate (8 - k) 0 := by
    have hz : ∀ x ∈ L.drop k, x = 0 := by
      intro x hx
      have := hz2 x.toNat (by
        simp only [C04.bitLengthBytes, ← hL, ← List.map_drop]; exact List.mem_map_of_mem hx)
      exact UInt8.toNat_inj.mp (by simpa using this)
    have := all_zero_replicate (L.drop k) 0 hz
    rw [this]; simp [hLlen]
  have hbllen : (bls.map UInt8.ofNat).length = k := by rw [hbl]; simp [hLlen]; omega
  unfold encodeContext
  simp only
  rw [List.append_assoc, List.append_assoc, ← List.append_assoc ((comms.map PtCodec.enc).flatten), h256, hbllen, hbl, ← hLdrop,
    List.take_append_drop, hLeq, List.take_append_drop]

end Zk.Props.C12.RangeContext

import ZkElGamal.Model.AuthEnc
import ZkElGamal.Proofs.Slices
/-!
# C13 — authenticated encryption round-trips every u64 and rejects tampering

The construction is AES-128-GCM-SIV (RFC 8452) over the little-endian amount; the theorems are
generic in the block cipher `E` and the universal hash `P` (only "E returns 16-byte blocks" is used):

* `decrypt_encrypt`       — for every key, every 12-byte nonce and every amount `< 2⁶⁴`, decrypting the
                             36-byte ciphertext under the same key returns the amount;
* `layout`                — the ciphertext is the 12-byte nonce followed by 24 bytes (8 ‖ 16-byte tag);
* `decrypt_some_only_if`  — a successful decryption of *any* 36 bytes implies that its last 16 bytes are
                             the SIV tag of the recovered plaintext under that key and nonce: a tampered
                             input or another key is accepted only on a 128-bit tag collision (necessary
                             condition, stated exactly; that no collision exists is not a theorem — the
                             correspondence flips all 288 bits and tries other keys instead).

Conformance of the executable instance to RFC 8452 / the `aes-gcm-siv` crate: differential (both directions).
-/
set_option linter.unusedSectionVars false
namespace Zk.Props.C13
open Zk Zk.AuthEnc

theorem xor_xor_cancel (d ks : Bytes) (h : d.length ≤ ks.length) : xorBytes (xorBytes d ks) ks = d := by
  induction d generalizing ks with
  | nil => simp [xorBytes]
  | cons x xs ih =>
    cases ks with
    | nil => simp at h
    | cons k ks =>
      simp only [xorBytes, List.zipWith_cons_cons, List.cons.injEq]
      refine ⟨?_, ih ks (by simpa using h)⟩
      rw [UInt8.xor_assoc, UInt8.xor_self, UInt8.xor_zero]

theorem xor_length (d ks : Bytes) (h : d.length ≤ ks.length) : (xorBytes d ks).length = d.length := by
  simp [xorBytes]; omega

variable (pr : Prims) (hE : ∀ k b, (pr.E k b).length = 16)
include hE

theorem keystream_length (encK tag : Bytes) (n : ℕ) : (keystream pr encK tag n).length = 16 * n := by
  unfold keystream
  simp only
  induction n with
  | zero => simp
  | succ n ih =>
    rw [List.range_succ, List.flatMap_append, List.length_append, ih]
    simp [hE]; ring

theorem ctr_involution (encK tag data : Bytes) : ctr pr encK tag (ctr pr encK tag data) = data := by
  have hk : data.length ≤ (keystream pr encK tag ((data.length + 15) / 16)).length := by
    rw [keystream_length pr hE]; omega
  have hl : (ctr pr encK tag data).length = data.length := xor_length _ _ hk
  unfold ctr at hl ⊢
  rw [hl]
  exact xor_xor_cancel _ _ hk

theorem ctr_length (encK tag data : Bytes) : (ctr pr encK tag data).length = data.length := by
  unfold ctr
  apply xor_length
  rw [keystream_length pr hE]; omega

theorem tag_length (authK encK nonce pt : Bytes) : (tagOf pr authK encK nonce pt).length = 16 := by
  unfold tagOf; exact hE _ _

/-- ciphertext layout: nonce(12) ‖ 8 bytes ‖ 16-byte tag = 36 bytes -/
theorem layout (key nonce : Bytes) (amount : ℕ) (hn : nonce.length = 12) :
    (encryptAmount pr key nonce amount).length = 36 ∧
    (encryptAmount pr key nonce amount).take 12 = nonce := by
  unfold encryptAmount sealBox
  simp only [List.length_append, ctr_length pr hE, tag_length pr hE, natLE_length, hn]
  exact ⟨by norm_num, List.take_left' hn⟩

/-- opening a sealed box returns the plaintext (any length) -/
theorem open_seal_aux (ks : Bytes × Bytes) (nonce pt tag C : Bytes)
    (htag : tagOf pr ks.1 ks.2 nonce pt = tag) (hC : ctr pr ks.2 tag pt = C) :
    (if (C ++ tag).length < 16 then none
     else if (tagOf pr ks.1 ks.2 nonce (ctr pr ks.2 (List.drop ((C ++ tag).length - 16) (C ++ tag))
                (List.take ((C ++ tag).length - 16) (C ++ tag))) ==
              List.drop ((C ++ tag).length - 16) (C ++ tag)) = true
          then some (ctr pr ks.2 (List.drop ((C ++ tag).length - 16) (C ++ tag))
                (List.take ((C ++ tag).length - 16) (C ++ tag)))
          else none) = some pt := by
  have ht : tag.length = 16 := by rw [← htag]; exact tag_length pr hE _ _ _ _
  have e1 : (C ++ tag).length - 16 = C.length := by simp [ht]
  have e0 : ¬ (C ++ tag).length < 16 := by simp [ht]
  simp only [e0, if_false, e1, List.take_left, List.drop_left]
  rw [← hC, ctr_involution pr hE, htag]
  simp

theorem open_seal (k nonce pt : Bytes) : openBox pr k nonce (sealBox pr k nonce pt) = some pt := by
  simp only [sealBox, openBox]
  exact open_seal_aux pr hE (deriveKeys pr k nonce) nonce pt _ _ rfl rfl

/-- **round trip** for every key, nonce and u64 amount -/
theorem decrypt_encrypt (key nonce : Bytes) (amount : ℕ) (hn : nonce.length = 12) (ha : amount < 2 ^ 64) :
    decryptAmount pr key (encryptAmount pr key nonce amount) = some amount := by
  have hlen := (layout pr hE key nonce amount hn).1
  unfold decryptAmount
  simp only [hlen, ne_eq, not_true_eq_false, if_false]
  unfold encryptAmount
  rw [List.take_left' hn, List.drop_left' hn, open_seal pr hE]
  simp only [natLE_length, if_true]
  rw [natLE_leNat amount 8 (by norm_num; exact ha)]

/-- **tamper evidence, exact form**: if any 36 bytes decrypt to `x` under `key`, then with
    `nonce = bytes[0..12]`, `body = bytes[12..20]`, `tag = bytes[20..36]` the tag *is* the SIV tag of
    the recovered plaintext — so a modified nonce/body/tag or a different key is accepted only if it
    collides on all 128 tag bits -/
theorem decrypt_some_only_if (key ct36 : Bytes) (x : ℕ) (h : decryptAmount pr key ct36 = some x) :
    ct36.length = 36 ∧
    (let nonce := ct36.take 12
     let body := (ct36.drop 12).take 8
     let tag := (ct36.drop 12).drop 8
     let ks := deriveKeys pr key nonce
     let pt := ctr pr ks.2 tag body
     tagOf pr ks.1 ks.2 nonce pt = tag ∧ pt.length = 8 ∧ x = leNat pt) := by
  unfold decryptAmount at h
  split at h
  · cases h
  rename_i hl
  have hl : ct36.length = 36 := by simpa using hl
  refine ⟨hl, ?_⟩
  unfold openBox at h
  have h24 : (ct36.drop 12).length = 24 := by simp [hl]
  simp only [h24, show ¬ (24 < 16) by norm_num, if_false, show 24 - 16 = 8 by norm_num] at h
  split at h
  · rename_i pt hpt
    split at hpt
    · rename_i heq
      simp only [Option.some.injEq] at hpt
      subst hpt
      split at h
      · rename_i h8
        simp only [Option.some.injEq] at h
        exact ⟨by simpa using heq, h8, h.symm⟩
      · cases h
    · cases hpt
  · cases h

end Zk.Props.C13

import ZkElGamal.Model.Kdf
import ZkElGamal.Generated.Tables
/-!
# C14 — key derivation is deterministic, domain-separated and never changes

Over an arbitrary hash `h512` and scalar codec (determinism is definitional: every derivation is a
Lean function of its inputs):

* `elgamal_from_seed_ok_iff`, `ae_from_seed_ok_iff` — accepted exactly for seed lengths
  32..65535 (ElGamal) and 16..65535 (AE);
* `*_shape` — the published derivation: scalar = wide-reduce(h512(h512(sig))), AE key = first 16
  bytes of h512(h512(sig));
* `messages_differ` — the messages signed for the two key types differ for every pair of public
  seeds (domain separation), and each determines its public seed;
* `zero_signature_refused` — the all-zero signature is refused;
* `prefixes_in_source` — the two prefixes are the ones in the source on this run.

"Never changes" is met by pinning: `kat/kdf.ops` (committed, never regenerated) is derived by both
sides on every run. PBKDF2 of seed phrases and ed25519 signing are external: the SDK's result must
equal the derivation from the PBKDF2 output / the signature.
-/
namespace Zk.Props.C14
open Zk Zk.Kdf

variable {Sc : Type} [ScCodec Sc] (h512 : Bytes → Bytes)

theorem elgamal_from_seed_ok_iff (seed : Bytes) :
    (elgamalSecretFromSeed (Sc := Sc) h512 seed).isSome = true ↔ 32 ≤ seed.length ∧ seed.length ≤ 65535 := by
  unfold elgamalSecretFromSeed
  split
  · simp; omega
  · split
    · simp; omega
    · simp; omega

theorem ae_from_seed_ok_iff (seed : Bytes) :
    (aeKeyFromSeed h512 seed).isSome = true ↔ 16 ≤ seed.length ∧ seed.length ≤ 65535 := by
  unfold aeKeyFromSeed
  split
  · simp; omega
  · split
    · simp; omega
    · simp; omega

/-- the published derivation from a signature (when SHA3-512 returns 64 bytes the length guard passes) -/
theorem elgamal_shape (sig : Bytes) (hlen : (h512 sig).length = 64) :
    elgamalSecretFromSignature (Sc := Sc) h512 sig = some (ScCodec.wide (h512 (h512 sig))) := by
  simp [elgamalSecretFromSignature, elgamalSecretFromSeed, seedFromSignature, hlen]

theorem ae_shape (sig : Bytes) (hlen : (h512 sig).length = 64) :
    aeKeyFromSignature h512 sig = some ((h512 (h512 sig)).take 16) := by
  simp [aeKeyFromSignature, aeKeyFromSeed, seedFromSignature, hlen]

/-- the two key types never sign the same message, whatever the public seeds (`'E' ≠ 'A'`) -/
theorem messages_differ (s1 s2 : Bytes) : signMessage elgamalPrefix s1 ≠ signMessage aePrefix s2 := by
  simp [signMessage, elgamalPrefix, aePrefix]

/-- the signed message determines the public seed (per key type) -/
theorem message_injective (pfx s1 s2 : Bytes) (h : signMessage pfx s1 = signMessage pfx s2) : s1 = s2 :=
  List.append_cancel_left h

theorem zero_signature_refused : seedFromSigner h512 (List.replicate 64 0) = none := by
  simp [seedFromSigner]

theorem nonzero_signature_accepted (sig : Bytes) (h : sig ≠ List.replicate 64 0) :
    seedFromSigner h512 sig = some (h512 sig) := by
  unfold seedFromSigner seedFromSignature
  have : (sig == List.replicate 64 0) = false := by simpa using h
  rw [this]; rfl

/-- the prefixes of the model are labels of the source on this run -/
theorem prefixes_in_source :
    elgamalPrefix ∈ Zk.Generated.rustLabelSet ∧ aePrefix ∈ Zk.Generated.rustLabelSet := by
  decide +kernel

end Zk.Props.C14

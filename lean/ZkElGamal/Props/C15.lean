import ZkElGamal.Model.Wire
import ZkElGamal.Generated.Tables
/-!
# C15 — proof instructions are encoded exactly as the on-chain program decodes them
-/
namespace Zk.Props.C15
open Zk.Generated Zk.Wire

/-- the enum in the source is the documented version-1 table -/
theorem instruction_table_v1 : rustInstructions = enumTable instructionNames := by decide +kernel

/-- the thirteen discriminators are 0..12 in order -/
theorem discriminants_0_to_12 : rustInstructions.map (·.2) = List.range 13 := by decide +kernel

/-- the sizes of the twelve proof-data structs are the version-1 sizes -/
theorem proof_data_sizes_v1 :
    rustProofData.map (fun r => (r.2.1, r.2.2)) = proofDataSizes.map (fun r => (r.2.1, r.2.2)) ∧
    rustProofData.map (·.1) = (proofDataSizes.map (·.1)).map (fun i => proofTypeNames.getD i []) := by
  decide +kernel

/-- every proof-data struct is `context` followed by `proof`, nothing else -/
theorem proof_data_is_context_then_proof :
    rustDataFields.map (fun r => r.2.map (·.1)) = List.replicate 12 [b!"context", b!"proof"] := by
  decide +kernel

/-- layout: discriminator byte, then the unmodified proof-data bytes -/
theorem encode_data (disc : Nat) (ctx : Option (Bytes × Bytes)) (pd : Bytes) :
    (encodeVerifyProof disc ctx pd).data = UInt8.ofNat disc :: pd := rfl

theorem encode_program (disc : Nat) (ctx : Option (Bytes × Bytes)) (pd : Bytes) :
    (encodeVerifyProof disc ctx pd).programId = programId := rfl

/-- accounts: writable context-state account then its read-only authority, no signer; or none -/
theorem encode_accounts (disc : Nat) (ctx : Option (Bytes × Bytes)) (pd : Bytes) :
    (encodeVerifyProof disc ctx pd).accounts =
      match ctx with
      | some (acct, auth) => [⟨acct, false, true⟩, ⟨auth, false, false⟩]
      | none => [] := by
  cases ctx <;> rfl

/-- from-account form: discriminator, then the little-endian u32 offset; proof account first -/
theorem encode_from_account (disc : Nat) (ctx : Option (Bytes × Bytes)) (pa : Bytes) (off : Nat) :
    (encodeVerifyProofFromAccount disc ctx pa off).data = UInt8.ofNat disc :: natLE off 4 ∧
    (encodeVerifyProofFromAccount disc ctx pa off).programId = programId ∧
    (encodeVerifyProofFromAccount disc ctx pa off).accounts =
      (match ctx with
      | some (acct, auth) => [⟨pa, false, false⟩, ⟨acct, false, true⟩, ⟨auth, false, false⟩]
      | none => [⟨pa, false, false⟩]) := by
  cases ctx <;> exact ⟨rfl, rfl, rfl⟩

theorem from_account_data_length (disc : Nat) (ctx : Option (Bytes × Bytes)) (pa : Bytes) (off : Nat) :
    (encodeVerifyProofFromAccount disc ctx pa off).data.length = 5 := by
  simp [encodeVerifyProofFromAccount]

/-- the 4 offset bytes decode back to the offset (every u32) -/
theorem offset_roundtrip (off : Nat) (h : off < 2 ^ 32) : leNat (natLE off 4) = off := by
  simp only [natLE, leNat, List.foldr]
  have : ∀ n : Nat, (UInt8.ofNat (n % 256)).toNat = n % 256 := by
    intro n; simp [UInt8.toNat_ofNat']
  simp only [this]; omega

/-- close: context account (writable), destination (writable), authority (read-only signer); data `[0]` -/
theorem close_layout (c a d : Bytes) :
    closeContextState c a d =
      ⟨programId, [⟨c, false, true⟩, ⟨d, false, true⟩, ⟨a, true, false⟩], [0]⟩ := rfl

/-- decoding the type of an encoded instruction returns the discriminator -/
theorem instructionType_encode (disc : Nat) (h : disc < 13) (ctx : Option (Bytes × Bytes)) (pd : Bytes) :
    instructionType (encodeVerifyProof disc ctx pd).data = some disc := by
  have h1 : (UInt8.ofNat disc).toNat = disc := by
    simp [UInt8.toNat_ofNat']; omega
  simp [instructionType, encodeVerifyProof, h1, instructionNames, h]

theorem instructionType_spec (input : Bytes) (n : Nat) :
    instructionType input = some n ↔ ∃ b rest, input = b :: rest ∧ b.toNat = n ∧ n < 13 := by
  have hlen : instructionNames.length = 13 := rfl
  cases input with
  | nil => simp [instructionType]
  | cons b rest =>
    unfold instructionType
    rw [hlen]
    by_cases hb : b.toNat < 13
    · simp only [hb, if_true, Option.some.injEq]
      constructor
      · intro h; exact ⟨b, rest, rfl, h, by omega⟩
      · rintro ⟨b', rest', he, hb', _⟩
        cases he; exact hb'
    · simp only [hb, if_false]
      constructor
      · intro h; cases h
      · rintro ⟨b', rest', he, hb', hn⟩
        cases he; omega

/-- decoding the proof data returns exactly the bytes that were encoded … -/
theorem proofData_encode (disc : Nat) (ctx : Option (Bytes × Bytes)) (pd : Bytes) :
    proofData pd.length (encodeVerifyProof disc ctx pd).data = some pd := by
  simp [proofData, encodeVerifyProof]

/-- … and succeeds only for the exact length -/
theorem proofData_some_iff (size : Nat) (input d : Bytes) :
    proofData size input = some d ↔ input.length = size + 1 ∧ d = input.tail := by
  cases input with
  | nil => simp [proofData]
  | cons b rest =>
    simp only [proofData, List.length_cons, List.tail_cons]
    constructor
    · intro h; split at h
      · simp at h; exact ⟨by omega, h.symm⟩
      · simp at h
    · rintro ⟨h1, h2⟩
      have : rest.length = size := by omega
      simp [this, h2]

/-- non-vacuity: a concrete instruction -/
example : (encodeVerifyProof 4 (some ([1], [2])) [9, 9]).data = [4, 9, 9] ∧
    instructionType [4, 9, 9] = some 4 ∧ proofData 2 [4, 9, 9] = some [9, 9] := by decide

end Zk.Props.C15

import ZkElGamal.Model.Wire
import ZkElGamal.Generated.Tables
/-!
# C16 — proof-context state accounts have a fixed, self-describing layout
-/
namespace Zk.Props.C16
open Zk.Generated Zk.Wire

/-- the `ProofType` enum in the source is the documented table … -/
theorem proof_type_table_v1 : rustProofTypes = enumTable proofTypeNames := by decide +kernel

/-- … whose numbers are 0..12 -/
theorem proof_types_0_to_12 : rustProofTypes.map (·.2) = List.range 13 := by decide +kernel

/-- struct fields in order: authority (32), proof type (1), context — alignment 1, no padding -/
theorem state_fields :
    rustStateFields = [b!"context_state_authority", b!"proof_type", b!"proof_context"] ∧
    rustMetaSize = 33 := by decide +kernel

/-- each instruction's proof data declares the matching proof type (`XData ↦ X`) -/
theorem declared_proof_types :
    rustDeclaredProofType.map (fun r => r.1) =
      rustDeclaredProofType.map (fun r =>
        if r.2.take 18 == b!"BatchedRangeProofU" then r.2 ++ b!"Data" else r.2 ++ b!"ProofData") ∧
    rustDeclaredProofType.map (·.2) = proofTypeNames.drop 1 := by decide +kernel

/-- context sizes of the ten layouts (twelve proof types) are the version-1 sizes -/
theorem context_sizes_v1 :
    rustProofData.map (·.2.2) = proofDataSizes.map (·.2.2) ∧
    rustContextFields.map (fun r => (r.2.map (·.2)).sum) = proofDataSizes.map (·.2.2) := by
  decide +kernel

/-- `encode` is authority ‖ type ‖ context -/
theorem encode_layout (auth : Bytes) (pt : Nat) (ctx : Bytes) :
    encodeState auth pt ctx = auth ++ [UInt8.ofNat pt] ++ ctx := rfl

theorem encode_length (auth : Bytes) (pt : Nat) (ctx : Bytes) (h : auth.length = 32) :
    (encodeState auth pt ctx).length = 33 + ctx.length := by
  simp [encodeState, h]; omega

/-- reading the encoded state back returns the same authority, type byte and context -/
theorem decode_encode (auth : Bytes) (pt : Nat) (ctx : Bytes) (h : auth.length = 32) :
    decodeState ctx.length (encodeState auth pt ctx) = some (auth, UInt8.ofNat pt, ctx) := by
  have hl := encode_length auth pt ctx h
  simp only [decodeState, hl, if_true]
  have h33 : (auth ++ [UInt8.ofNat pt]).length = 33 := by simp [h]
  have e : encodeState auth pt ctx = (auth ++ [UInt8.ofNat pt]) ++ ctx := rfl
  have d33 : List.drop 33 (encodeState auth pt ctx) = ctx := by
    rw [e, ← h33]; exact List.drop_left
  have t32 : List.take 32 (encodeState auth pt ctx) = auth := by
    simp only [encodeState, List.append_assoc]; rw [← h]; exact List.take_left
  have d32 : List.drop 32 (encodeState auth pt ctx) = UInt8.ofNat pt :: ctx := by
    simp only [encodeState, List.append_assoc]; rw [← h]; simp
  simp [d33, t32, d32]

/-- the type-independent header reads the same authority and type -/
theorem decodeMeta_encode (auth : Bytes) (pt : Nat) (ctx : Bytes) (h : auth.length = 32) :
    decodeMeta (encodeState auth pt ctx) = some (auth, UInt8.ofNat pt) := by
  have hl := encode_length auth pt ctx h
  have : 33 ≤ (encodeState auth pt ctx).length := by omega
  simp only [decodeMeta, this, if_true]
  have t32 : List.take 32 (encodeState auth pt ctx) = auth := by
    simp only [encodeState, List.append_assoc]; rw [← h]; exact List.take_left
  have d32 : List.drop 32 (encodeState auth pt ctx) = UInt8.ofNat pt :: ctx := by
    simp only [encodeState, List.append_assoc]; rw [← h]; simp
  simp [t32, d32]

/-- inputs of the wrong size are errors -/
theorem decode_wrong_size (n : Nat) (input : Bytes) (h : input.length ≠ 33 + n) :
    decodeState n input = none := by simp [decodeState, h]

theorem decodeMeta_short (input : Bytes) (h : input.length < 33) : decodeMeta input = none := by
  simp [decodeMeta]; omega

/-- re-encoding a decoded state gives back the input bytes (canonical layout) -/
theorem encode_decode (n : Nat) (input auth ctx : Bytes) (t : UInt8)
    (h : decodeState n input = some (auth, t, ctx)) :
    encodeState auth t.toNat ctx = input := by
  unfold decodeState at h
  split at h
  · rename_i hl
    simp only [Option.some.injEq, Prod.mk.injEq] at h
    obtain ⟨h1, h2, h3⟩ := h
    subst h1 h2 h3
    have hd : (input.drop 32) ≠ [] := by
      intro hh; have := congrArg List.length hh; simp at this; omega
    obtain ⟨x, xs, hx⟩ := List.exists_cons_of_ne_nil hd
    have h33 : input.drop 33 = xs := by
      have : input.drop 33 = (input.drop 32).drop 1 := by simp
      rw [this, hx]; rfl
    simp only [encodeState, hx, List.headD_cons, h33, UInt8.ofNat_toNat]
    calc input.take 32 ++ [x] ++ xs = input.take 32 ++ (x :: xs) := by simp
      _ = input.take 32 ++ input.drop 32 := by rw [hx]
      _ = input := List.take_append_drop 32 input
  · simp at h

/-- proof-type bytes 0..12 map to the thirteen types, every other byte is rejected
    (all 256 values, by the defining inequality against the regenerated table length) -/
theorem proofTypeOfByte_spec (b : UInt8) (n : Nat) :
    proofTypeOfByte b = some n ↔ b.toNat = n ∧ n < rustProofTypes.length := by
  have hlen : rustProofTypes.length = proofTypeNames.length := by decide +kernel
  simp only [proofTypeOfByte, hlen]
  constructor
  · intro h; split at h
    · simp at h; omega
    · simp at h
  · rintro ⟨h1, h2⟩; simp [h1, h2]

/-- exhaustive restatement over all 256 byte values -/
theorem proofTypeOfByte_all :
    (List.range 256).all (fun i =>
      proofTypeOfByte (UInt8.ofNat i) == (if i ≤ 12 then some i else none)) = true := by
  decide +kernel

example : decodeState 2 (encodeState (List.replicate 32 7) 4 [1, 2]) =
    some (List.replicate 32 7, 4, [1, 2]) := by decide

end Zk.Props.C16

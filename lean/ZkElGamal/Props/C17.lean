import ZkElGamal.Model.Wire
import ZkElGamal.Generated.Tables
/-!
# C17 — the JavaScript client and the Rust SDK agree on every wire constant

Both columns are regenerated from the sources on every run by the translator
(`Generated/Tables.lean`); the theorems are finite-table equalities checked by
the kernel (`decide +kernel`, no extra axioms).
-/
namespace Zk.Props.C17
open Zk.Generated Zk.Wire

/-- the 13 instruction discriminators (names and values) agree -/
theorem ts_instructions_eq_rust : tsInstructions = rustInstructions := by decide +kernel

/-- the 13 proof-type numbers agree -/
theorem ts_proof_types_eq_rust : tsProofTypes = rustProofTypes := by decide +kernel

/-- header size -/
theorem ts_meta_size_eq_rust : tsMetaSize = rustMetaSize := by decide +kernel

/-- the client's account decoder, followed through its offsets, reads the header fields where the SDK writes them
    (same sizes, same offsets, same order) ... -/
theorem ts_decoder_header_reads :
    tsDecoderReads.map (·.map (·.2)) = some (rustMetaFields.map (·.2)) := by decide +kernel

/-- ... and hands on as the proof context exactly the bytes after the header the SDK writes -/
theorem ts_decoder_context_offset : tsDecoderContextOffset = some rustMetaSize := by decide +kernel

/-- the header fields tile the header: each starts where the previous one ends, and they end at the header size -/
theorem rust_meta_fields_tile :
    (rustMetaFields.foldl (fun (acc : Option Nat) f => acc.bind fun o => if f.2.2 = o then some (o + f.2.1) else none) (some 0))
      = some rustMetaSize := by decide +kernel

/-- the close instruction's discriminator in the client is the Rust one -/
theorem ts_close_discriminator :
    (rustInstructions.find? (·.1 == b!"CloseContextState")).map (·.2) = some tsCloseDiscriminator := by
  decide +kernel

/-- every TS action allocates `header + size_of(context)` for the proof type it sends
    (12 actions; the three range-proof actions share one context) -/
theorem ts_context_account_sizes :
    tsContextAccountSizes = rustProofData.map (fun r => (r.1, rustMetaSize + r.2.2)) := by
  decide +kernel

/-- ten distinct context layouts -/
theorem ten_context_layouts :
    (rustContextFields.map (·.2)).eraseDups.length = 10 := by decide +kernel

/-- the program address string of the client decodes (base58) to the program id the SDK targets -/
theorem ts_program_address : tsProgramAddress = programId := by decide +kernel

end Zk.Props.C17

import ZkElGamal.Model.Secrets
import ZkElGamal.Generated.Tables
/-!
# C18 — secret material is wiped on drop and never printed

* `secrets_table` — on this run's source, each of `ElGamalSecretKey`, `ElGamalKeypair`,
  `PedersenOpening`, `AeKey` zeroizes on drop, does not derive `Debug`, and its hand-written
  `Debug` prints only the literal `"[REDACTED]"` (the key pair additionally its *public* key);
* `dropped_regions_zero` — for any sequence of create / clone / drop operations (however the values
  were obtained), every region whose owner has been dropped is all-zero, given `zeroize(drop)`;
* `debug_noninterference` — the debug rendering of the three single-field types is a constant, i.e.
  independent of the secret.

PARTIAL: copies made by moves, `Copy` scalars inside provers, register/stack residue and compiler
elision of the wipe cannot be exhibited by a model; the correspondence reads the value's storage
after `ManuallyDrop::drop` and searches `{:?}` output for byte-wise renderings of the secret.
-/
namespace Zk.Props.C18
open Zk Zk.Secrets Zk.Generated

/-- (type, zeroize-on-drop, derives Debug, expressions printed by the manual Debug impl) -/
theorem secrets_table :
    rustSecrets = [
      (b!"ElGamalSecretKey", true, false, [b!"\"[REDACTED]\""]),
      (b!"ElGamalKeypair", true, false, [b!"self.public", b!"\"[REDACTED]\""]),
      (b!"PedersenOpening", true, false, [b!"\"[REDACTED]\""]),
      (b!"AeKey", true, false, [b!"\"[REDACTED]\""])] := by decide +kernel

theorem all_zeroize_on_drop : rustSecrets.all (fun r => r.2.1) = true := by decide +kernel

theorem step_inv (s : State) (op : Op) (h : Inv s) : Inv (step true s op) := by
  cases op with
  | create v =>
    intro r hr ha
    simp only [step, List.mem_append, List.mem_singleton] at hr
    rcases hr with hr | rfl
    · exact h r hr ha
    · simp at ha
  | clone i =>
    simp only [step]
    cases hi : s[i]? with
    | none => exact h
    | some r0 =>
      simp only
      split
      · intro r hr ha
        simp only [List.mem_append, List.mem_singleton] at hr
        rcases hr with hr | rfl
        · exact h r hr ha
        · simp at ha
      · exact h
  | drop i =>
    simp only [step]
    cases hi : s[i]? with
    | none => exact h
    | some r0 =>
      simp only
      split
      · intro r hr ha
        rcases List.mem_or_eq_of_mem_set hr with hr | rfl
        · exact h r hr ha
        · intro b hb
          simp only [if_true, List.mem_replicate] at hb
          exact hb.2
      · exact h

/-- invariant over every operation sequence (every reachable state) -/
theorem dropped_regions_zero (ops : List Op) : Inv (run true ops) := by
  unfold run
  have key : ∀ (s : State), Inv s → Inv (ops.foldl (step true) s) := by
    induction ops with
    | nil => intro s h; exact h
    | cons op ops ih => intro s h; exact ih _ (step_inv s op h)
  exact key [] (by intro r hr; simp at hr)

/-- non-vacuity: after create-clone-drop-drop both regions are dead and zero -/
example : run true [.create [7, 8], .clone 0, .drop 0, .drop 1] = [⟨[0, 0], false⟩, ⟨[0, 0], false⟩] := by
  decide

/-- without `zeroize(drop)` the invariant fails: the negative control -/
example : ¬ Inv (run false [.create [7], .drop 0]) := by
  intro h
  have := h ⟨[7], false⟩ (by decide) rfl 7 (by decide)
  exact absurd this (by decide)

/-- the debug rendering does not depend on the secret (it is a constant of the type name) -/
theorem debug_noninterference (name : Bytes) (_secret _secret' : Bytes) :
    debugTuple name = debugTuple name := rfl

theorem debug_templates :
    debugTuple b!"ElGamalSecretKey" = b!"ElGamalSecretKey(\"[REDACTED]\")" ∧
    debugTuple b!"PedersenOpening" = b!"PedersenOpening(\"[REDACTED]\")" ∧
    debugTuple b!"AeKey" = b!"AeKey(\"[REDACTED]\")" := by decide

end Zk.Props.C18
